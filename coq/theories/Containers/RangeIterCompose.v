(* C18 (1), round 5 — BitVectorRangeIterator for EVERY word width: one call of next_range, composed from the word-level run
   (range_word_run), the skip loop (ri_skip_spec) and the extend loop (ri_extend_spec) under an iterator invariant.
   Positions are written W*p + k (word p, bit k); M p = ws[p] ^ xor_mask is the word the iterator looks at, so a set bit of M
   is a bit of the vector that equals the value b being searched. *)
From Coq Require Import ZArith List Bool Lia.
From Verif Require Import Containers.BitVecModel Containers.BitVecProofs Containers.RangeIterModel Containers.RangeIterGeneral.
Import ListNotations.
Local Open Scope Z_scope.

(* the first zero bit of a word that is not all ones: what exit (c) of the extend loop keeps *)
Lemma first_zero W bw : 0 < W -> word_ok W bw -> bw <> Z.ones W ->
  let j := ctz (wlnot W bw) in
  0 <= j < W /\ Z.testbit bw j = false /\ (forall k, 0 <= k < j -> Z.testbit bw k = true) /\
  word_ok W (Z.lxor bw (wlnot W (shl_ones W j))) /\
  forall k, 0 <= k < W -> Z.testbit (Z.lxor bw (wlnot W (shl_ones W j))) k = (j <=? k) && Z.testbit bw k.
Proof.
  intros HW Hw Hne. cbn zeta. set (w := wlnot W bw).
  assert (Hw0 : 0 <= w) by (apply wlnot_nonneg; [lia|exact (proj1 Hw)]).
  assert (Hwn : w <> 0).
  { intros E. apply Hne. apply Z.bits_inj'. intros k Hk. rewrite ones_testbit by lia.
    assert (B : Z.testbit w k = false) by (rewrite E; apply Z.testbit_0_l). unfold w in B. rewrite wlnot_bit in B by lia.
    destruct (Z.ltb_spec k W).
    - destruct (Z.testbit bw k); [reflexivity|discriminate].
    - apply (word_ok_testbit_high W bw k); [lia|exact Hw|lia]. }
  destruct (ctz_spec w ltac:(lia)) as (J0 & J1 & J2). set (j := ctz w) in *.
  assert (JW : j < W).
  { destruct (Z.ltb_spec j W) as [|Hge]; [assumption|]. unfold w in J1. rewrite wlnot_bit in J1 by lia.
    rewrite (word_ok_testbit_high W bw j) in J1 by (try lia; exact Hw). destruct (Z.ltb_spec j W); [lia|discriminate]. }
  assert (Bj : Z.testbit bw j = false).
  { unfold w in J1. rewrite wlnot_bit in J1 by lia. destruct (Z.ltb_spec j W); [|lia]. destruct (Z.testbit bw j); [discriminate|reflexivity]. }
  assert (Bl : forall k, 0 <= k < j -> Z.testbit bw k = true).
  { intros k Hk. pose proof (J2 k Hk) as B. unfold w in B. rewrite wlnot_bit in B by lia. destruct (Z.ltb_spec k W); [|lia].
    destruct (Z.testbit bw k); [reflexivity|discriminate]. }
  assert (Bits : forall k, 0 <= k -> Z.testbit (Z.lxor bw (wlnot W (shl_ones W j))) k = (k <? W) && (j <=? k) && Z.testbit bw k).
  { intros k Hk. rewrite Z.lxor_spec, wlnot_bit, shl_ones_bit by lia. destruct (Z.ltb_spec k W).
    - cbn [andb]. destruct (Z.leb_spec j k).
      + cbn [andb xorb]. destruct (Z.testbit bw k); reflexivity.
      + rewrite (Bl k) by lia. reflexivity.
    - cbn [andb xorb]. rewrite (word_ok_testbit_high W bw k) by (try lia; exact Hw). reflexivity. }
  split; [lia|]. split; [exact Bj|]. split; [exact Bl|]. split.
  - apply word_ok_of_bits; [lia| |].
    + apply Z.lxor_nonneg. split; intros _; [|exact (proj1 Hw)]. apply wlnot_nonneg; [lia|]. unfold shl_ones. apply Z.mod_pos_bound. apply Z.pow_pos_nonneg; lia.
    + intros k Hk. rewrite Bits by lia. destruct (Z.ltb_spec k W); [lia|reflexivity].
  - intros k Hk. rewrite Bits by lia. destruct (Z.ltb_spec k W); [|lia]. reflexivity.
Qed.

Section Compose.
Variables (W : Z) (b : bool) (ws : list Z).
Hypothesis HW : 0 < W.
Let M (p : Z) : Z := mword W b ws p.
Hypothesis HM : forall p, word_ok W (M p).

(* every position W*p+k of [lo, hi) holds the value v *)
Definition run (lo hi : Z) (v : bool) : Prop := forall p k, 0 <= k < W -> lo <= W * p + k < hi -> Z.testbit (M p) k = v.

(* iterator invariant with cursor c: index and pointer agree, and the iterator word holds exactly the bits of its word of M at
   or above the cursor *)
Definition Inv (it : riter) (c : Z) : Prop :=
  ri_idx it = W * ri_ptr it /\ ri_idx it <= c <= ri_idx it + W /\ word_ok W (ri_word it) /\
  forall k, 0 <= k < W -> Z.testbit (ri_word it) k = (c - ri_idx it <=? k) && Z.testbit (M (ri_ptr it)) k.

Lemma run_app lo mid hi v : run lo mid v -> run mid hi v -> run lo hi v.
Proof. intros A B p k Hk Hr. destruct (Z.lt_ge_cases (W * p + k) mid); [apply A|apply B]; lia. Qed.

Lemma word_of_pos p q k : 0 <= k < W -> W * q <= W * p + k < W * q + W -> p = q.
Proof. intros Hk H. nia. Qed.

Lemma skip_inv fuel it c it1 : Inv it c -> ri_skip fuel W b ws it = Some it1 ->
  exists c1, Inv it1 c1 /\ c <= c1 /\ run c c1 false /\ ri_word it1 <> 0 /\ ri_end it1 = ri_end it.
Proof.
  intros (I1 & I2 & I3 & I4) H. destruct (ri_skip_spec W b ws fuel it it1 H) as (N0 & Ee & k & K0 & K1 & K2 & K3 & K4 & K5).
  destruct (Z.eq_dec k 0) as [E|E].
  - rewrite (K3 E). exists c. split; [split; [exact I1|split; [exact I2|split; [exact I3|exact I4]]]|]. split; [lia|].
    split; [intros p q Hq Hr; lia|]. split; [rewrite <- (K3 E); exact N0|reflexivity].
  - destruct (K4 ltac:(lia)) as (W0 & W1 & W2). exists (ri_idx it1). split.
    + split; [rewrite K1, K2, I1; ring|]. split; [lia|]. split; [rewrite W1; apply HM|].
      intros q Hq. rewrite W1, K2. replace (ri_idx it1 - ri_idx it1) with 0 by ring. destruct (Z.leb_spec 0 q); [reflexivity|lia].
    + split; [rewrite K1; nia|]. split; [|split; [exact N0|exact Ee]].
      intros p q Hq Hr. rewrite K1, I1 in Hr.
      assert (Hp : ri_ptr it <= p < ri_ptr it + k) by nia.
      destruct (Z.eq_dec p (ri_ptr it)) as [->|Hne].
      * pose proof (I4 q Hq) as B. rewrite W0, Z.testbit_0_l in B. destruct (Z.leb_spec (c - ri_idx it) q); [|lia].
        cbn [andb] in B. symmetry. exact B.
      * replace p with (ri_ptr it + (p - ri_ptr it)) by ring. fold (M (ri_ptr it + (p - ri_ptr it))).
        unfold M. rewrite (K5 (p - ri_ptr it)) by lia. apply Z.testbit_0_l.
Qed.

Lemma inv_zero p0 en : Inv (mkri p0 (W * p0) en 0) (W * p0 + W).
Proof.
  unfold Inv. cbn [ri_idx ri_ptr ri_word]. split; [reflexivity|]. split; [lia|]. split; [split; [lia|apply Z.pow_pos_nonneg; lia]|].
  intros k Hk. rewrite Z.testbit_0_l. destruct (Z.leb_spec (W * p0 + W - W * p0) k); [lia|reflexivity].
Qed.

(* ONE CALL of next_range, every word width.  From an iterator with cursor c the call reports [s, e) such that, with e0 the end
   before clipping at `end`: no position of [c, s) holds b, every position of [s, e0) holds b, e = min e0 end, and the iterator
   is left (1) with cursor e0 where position e0 does not hold b (the run is maximal), or (2) with cursor e0 at a word boundary and
   an empty word (the run was cut by the hint), or (3) finished: empty word and index at or past end. *)
Theorem next_inv it c hint s e it' : Inv it c -> ri_next W b ws it hint = Some (s, e, it') ->
  exists e0, c <= s < e0 /\ run c s false /\ run s e0 true /\ e = Z.min e0 (ri_end it) /\ ri_end it' = ri_end it /\
   ((Inv it' e0 /\ exists p k, 0 <= k < W /\ e0 = W * p + k /\ Z.testbit (M p) k = false)
    \/ (Inv it' e0 /\ ri_word it' = 0)
    \/ (ri_word it' = 0 /\ ri_idx it' >= ri_end it' /\ e0 >= ri_end it)).
Proof.
  intros HI H. unfold ri_next in H.
  destruct (ri_skip (S (length ws)) W b ws it) as [it1|] eqn:Hs; [|discriminate].
  destruct (skip_inv _ it c it1 HI Hs) as (c1 & (J1 & J2 & J3 & J4) & Hc & Hrun & Hn0 & He).
  pose proof (range_word_run W (ri_word it1) HW J3 Hn0) as R. cbn zeta in R.
  set (i := ctz (ri_word it1)) in *. set (bw := wlnot W (Z.lxor (ri_word it1) (wlnot W (shl_ones W i)))) in *.
  destruct R as (R1 & R2 & R3 & R4 & R5 & R6).
  set (p1 := ri_ptr it1) in *. set (x1 := ri_idx it1) in *.
  assert (Mi : c1 - x1 <= i /\ Z.testbit (M p1) i = true).
  { pose proof (J4 i R1) as B. rewrite R2 in B. symmetry in B. apply andb_true_iff in B. destruct B as [B1 B2]. apply Z.leb_le in B1. split; assumption. }
  assert (Mlow : forall k, 0 <= k -> c1 - x1 <= k < i -> Z.testbit (M p1) k = false).
  { intros k Hk0 Hk. pose proof (J4 k ltac:(lia)) as B. rewrite (R3 k) in B by lia. destruct (Z.leb_spec (c1 - x1) k); [|lia]. cbn [andb] in B. symmetry. exact B. }
  assert (Rlow : run c (x1 + i) false).
  { apply (run_app c c1); [exact Hrun|]. intros p k Hk Hr. assert (p = p1) by (apply (word_of_pos p p1 k Hk); lia). subst p. apply Mlow; lia. }
  destruct (Z.eqb_spec bw 0) as [B0|B0].
  - destruct (ri_extend (S (length ws)) W b ws (mkri p1 x1 (ri_end it1) 0) (x1 + i) (Z.min (x1 + W) (ri_end it1)) hint) as [it2 rend'] eqn:Hx.
    injection H as Hs1 Hs2 Hs3. subst s e it'.
    destruct (ri_extend_spec W b ws _ _ _ _ _ _ _ Hx) as (Ee & k & K0 & KF & KD). cbn [ri_ptr ri_idx ri_end ri_word] in *. cbn zeta in KD.
    assert (Mhigh : forall q, i <= q < W -> Z.testbit (M p1) q = true).
    { intros q Hq. pose proof (J4 q ltac:(lia)) as B. rewrite (proj1 R5 B0 q Hq) in B. symmetry in B. apply andb_true_iff in B. exact (proj2 B). }
    assert (Rfull : run (x1 + i) (x1 + W * k + W) true).
    { intros p q Hq Hr. assert (Hp : p1 <= p <= p1 + k) by nia. destruct (Z.eq_dec p p1) as [->|Hne].
      - apply Mhigh. lia.
      - destruct (KF (p - p1) ltac:(lia)) as [A _]. replace (p1 + (p - p1)) with p in A by ring. fold (M p) in A. rewrite A.
        rewrite ones_testbit by lia. destruct (Z.ltb_spec q W); [reflexivity|lia]. }
    assert (Hrk : (if k =? 0 then Z.min (x1 + W) (ri_end it1) else Z.min (x1 + W * k + W) (ri_end it1)) = Z.min (x1 + W * k + W) (ri_end it)).
    { rewrite He. destruct (Z.eqb_spec k 0) as [->|_]; [f_equal; ring|reflexivity]. }
    destruct KD as [(A & B)|[(A & B & C)|(A & B & C & D)]].
    + exists (x1 + W * k + W). split; [nia|]. split; [exact Rlow|]. split; [exact Rfull|]. split; [rewrite B; exact Hrk|]. split; [rewrite Ee; exact He|].
      right. left. assert (E2 : it2 = mkri (p1 + k) (W * (p1 + k)) (ri_end it1) 0).
      { rewrite A. destruct (Z.eqb_spec k 0) as [->|_]; f_equal; lia. }
      rewrite E2. split; [|reflexivity]. replace (x1 + W * k + W) with (W * (p1 + k) + W) by lia. apply inv_zero.
    + exists (x1 + W * k + W). split; [nia|]. split; [exact Rlow|]. split; [exact Rfull|]. split; [rewrite C; exact Hrk|]. split; [rewrite Ee; exact He|].
      right. right. rewrite B. cbn [ri_word ri_idx ri_end]. split; [destruct (k =? 0); reflexivity|]. split; [lia|lia].
    + rename C into D1. rename D into D2.
      pose proof (first_zero W (mword W b ws (p1 + k + 1)) HW (HM (p1 + k + 1)) B) as F. cbn zeta in F.
      set (j2 := ctz (wlnot W (mword W b ws (p1 + k + 1)))) in *. destruct F as (F1 & F2 & F3 & F4 & F5).
      exists (x1 + W * k + W + j2). split; [nia|]. split; [exact Rlow|]. split.
      { apply (run_app _ (x1 + W * k + W)); [exact Rfull|]. intros p q Hq Hr.
        assert (p = p1 + k + 1) by (apply (word_of_pos p (p1 + k + 1) q Hq); lia). subst p. apply F3. lia. }
      split; [rewrite D2, He; reflexivity|]. split; [rewrite Ee; exact He|].
      left. rewrite D1. split.
      * unfold Inv. cbn [ri_idx ri_ptr ri_word]. split; [lia|]. split; [lia|]. split; [exact F4|].
        intros q Hq. rewrite (F5 q Hq). replace (x1 + W * k + W + j2 - (x1 + W * k + W)) with j2 by ring. reflexivity.
      * exists (p1 + k + 1), j2. split; [exact F1|]. split; [lia|exact F2].
  - injection H as Hs1 Hs2 Hs3. subst s e it'. specialize (R6 B0). cbn zeta in R6. set (j := ctz bw) in *.
    destruct R6 as (S1 & S2 & S3 & S4 & S5).
    exists (x1 + j). split; [lia|]. split; [exact Rlow|]. split.
    { intros p q Hq Hr. assert (p = p1) by (apply (word_of_pos p p1 q Hq); lia). subst p.
      pose proof (J4 q Hq) as Bq. rewrite (S2 q) in Bq by lia. symmetry in Bq. apply andb_true_iff in Bq. exact (proj2 Bq). }
    split; [rewrite He; reflexivity|]. split; [exact He|].
    left. split.
    + unfold Inv. cbn [ri_idx ri_ptr ri_word]. split; [exact J1|]. split; [lia|]. split; [exact S4|].
      intros q Hq. rewrite (S5 q) by lia. rewrite (J4 q Hq). replace (x1 + j - x1) with j by ring.
      destruct (Z.leb_spec j q); [|reflexivity]. destruct (Z.leb_spec (c1 - x1) q); [reflexivity|lia].
    + exists p1, j. split; [lia|]. split; [lia|]. pose proof (J4 j ltac:(lia)) as Bj. rewrite S3 in Bj.
      destruct (Z.leb_spec (c1 - x1) j); [|lia]. cbn [andb] in Bj. symmetry. exact Bj.
Qed.

(* init(start, end) establishes the invariant with cursor = start (when its first word starts before end) *)
Lemma init_inv start end_ : 0 <= start -> (start / W) * W < end_ -> Inv (ri_init W b ws start end_) start.
Proof.
  intros H0 Hlt. unfold ri_init, Inv. cbn [ri_idx ri_ptr ri_word].
  assert (Ep : start / W * W / W = start / W) by (apply Z.div_mul; lia). rewrite Ep.
  destruct (Z.ltb_spec (start / W * W) end_) as [_|]; [|lia].
  pose proof (Z.div_mod start W ltac:(lia)) as Hdm. pose proof (Z.mod_pos_bound start W HW) as Hmb.
  split; [ring|]. split; [lia|]. fold (mword W b ws (start / W)). fold (M (start / W)).
  assert (Bits : forall k, 0 <= k -> Z.testbit (Z.land (M (start / W)) (shl_ones W (start mod W))) k = Z.testbit (M (start / W)) k && ((k <? W) && (start mod W <=? k))).
  { intros k Hk. rewrite Z.land_spec, shl_ones_bit by lia. reflexivity. }
  split.
  - apply word_ok_of_bits; [lia| |].
    + apply Z.land_nonneg. left. exact (proj1 (HM _)).
    + intros k Hk. rewrite Bits by lia. destruct (Z.ltb_spec k W); [lia|]. cbn [andb]. apply andb_false_r.
  - intros k Hk. rewrite Bits by lia. replace (start - start / W * W) with (start mod W) by lia.
    destruct (Z.ltb_spec k W); [|lia]. cbn [andb]. apply andb_comm.
Qed.

(* a finished iterator answers false *)
Lemma next_finished it hint : ri_word it = 0 -> ri_idx it >= ri_end it -> ri_next W b ws it hint = None.
Proof.
  intros H0 He. unfold ri_next. cbn [ri_skip]. rewrite H0. cbn [Z.eqb].
  destruct (Z.geb_spec (ri_idx it + W) (ri_end it)); [reflexivity|lia].
Qed.

(* ALL the ranges of one iteration: they come in increasing order; between the cursor and a range start no position holds b;
   every position of a range (before clipping at end) holds b; the next search starts where the unclipped range ended *)
Fixpoint chain (c en : Z) (rs : list (Z * Z)) : Prop :=
  match rs with
  | [] => True
  | (s, e) :: r => exists e0, c <= s < e0 /\ run c s false /\ run s e0 true /\ e = Z.min e0 en /\ chain e0 en r
  end.

Theorem ri_all_chain hint : forall fuel it c, Inv it c -> chain c (ri_end it) (ri_all fuel W b ws it hint).
Proof.
  induction fuel as [|f IH]; intros it c HI; cbn [ri_all]; [exact I|].
  destruct (ri_next W b ws it hint) as [[[s e] it']|] eqn:Hn; [|exact I].
  destruct (next_inv it c hint s e it' HI Hn) as (e0 & H1 & H2 & H3 & H4 & H5 & H6). cbn [chain].
  exists e0. split; [exact H1|]. split; [exact H2|]. split; [exact H3|]. split; [exact H4|]. rewrite <- H5.
  destruct H6 as [(I' & _)|[(I' & _)|(Z0 & Ze & _)]]; [apply IH; exact I'|apply IH; exact I'|].
  destruct f as [|f']; cbn [ri_all]; [exact I|]. rewrite (next_finished it' hint Z0 Ze). exact I.
Qed.

Theorem ranges_chain start end_ hint : 0 <= start -> (start / W) * W < end_ -> chain start end_ (ranges W b ws start end_ hint).
Proof. intros H0 Hlt. unfold ranges. exact (ri_all_chain hint _ _ start (init_inv start end_ H0 Hlt)). Qed.

(* the answer false: the skip loop ran to the end over empty words only (fuel: one step per word up to end) *)
Lemma skip_none : forall fuel it, ri_skip (S fuel) W b ws it = None -> ri_end it <= ri_idx it + W + W * Z.of_nat fuel ->
  ri_word it = 0 /\ forall j, 0 < j -> ri_idx it + W * j < ri_end it -> M (ri_ptr it + j) = 0.
Proof.
  induction fuel as [|f IH]; intros it H Hf.
  - cbn [ri_skip] in H. destruct (Z.eqb_spec (ri_word it) 0) as [E0|E0]; [|discriminate]. split; [exact E0|]. intros j Hj Hlt. nia.
  - remember (S f) as f1 eqn:Ef. cbn [ri_skip] in H. destruct (Z.eqb_spec (ri_word it) 0) as [E0|E0]; [|discriminate]. split; [exact E0|].
    destruct (Z.geb_spec (ri_idx it + W) (ri_end it)) as [Hge|Hlt]; [intros j Hj Hl; nia|].
    subst f1. destruct (IH _ H) as [Z1 Z2]; [cbn [ri_idx ri_end]; lia|]. cbn [ri_word ri_idx ri_ptr ri_end] in Z1, Z2.
    intros j Hj Hl. destruct (Z.eq_dec j 1) as [->|Hne]; [exact Z1|].
    replace (ri_ptr it + j) with (ri_ptr it + 1 + (j - 1)) by ring. apply Z2; [lia|]. replace (W * (j - 1)) with (W * j - W) by ring. lia.
Qed.

Theorem next_none it c hint : Inv it c -> 0 <= ri_ptr it -> ri_end it <= W * zlen ws -> ri_next W b ws it hint = None ->
  run c (ri_end it) false.
Proof.
  intros (I1 & I2 & I3 & I4) Hp He H. unfold ri_next in H.
  destruct (ri_skip (S (length ws)) W b ws it) as [it1|] eqn:Hs.
  { destruct (_ =? 0) in H; [destruct (ri_extend _ _ _ _ _ _ _ _) in H|]; discriminate. }
  destruct (skip_none _ it Hs) as [Z1 Z2]; [unfold zlen in He; nia|].
  intros p k Hk Hr. rewrite I1 in *. assert (Hpp : ri_ptr it <= p) by nia.
  destruct (Z.eq_dec p (ri_ptr it)) as [->|Hne].
  - pose proof (I4 k Hk) as B. rewrite Z1, Z.testbit_0_l in B. destruct (Z.leb_spec (c - W * ri_ptr it) k); [|lia]. cbn [andb] in B. symmetry. exact B.
  - replace p with (ri_ptr it + (p - ri_ptr it)) by ring. rewrite Z2; [apply Z.testbit_0_l|lia|]. nia.
Qed.

(* a call that answers true never moves the word pointer backwards *)
Lemma next_ptr it hint s e it' : ri_next W b ws it hint = Some (s, e, it') -> ri_ptr it <= ri_ptr it'.
Proof.
  intros H. unfold ri_next in H.
  destruct (ri_skip (S (length ws)) W b ws it) as [it1|] eqn:Hs; [|discriminate].
  destruct (ri_skip_spec W b ws _ it it1 Hs) as (_ & _ & k & K0 & _ & K2 & _).
  destruct (_ =? 0) in H.
  - destruct (ri_extend _ _ _ _ _ _ _ _) as [it2 rend'] eqn:Hx. injection H as _ _ H3. subst it'.
    destruct (ri_extend_spec W b ws _ _ _ _ _ _ _ Hx) as (_ & k2 & K20 & _ & KD). cbn [ri_ptr ri_idx ri_end ri_word] in KD. cbn zeta in KD.
    destruct KD as [(A & _)|[(_ & A & _)|(_ & _ & A & _)]]; rewrite A.
    + destruct (k2 =? 0); cbn [ri_ptr]; lia.
    + cbn [ri_ptr]. lia.
    + cbn [ri_ptr]. lia.
  - injection H as _ _ H3. subst it'. cbn [ri_ptr]. lia.
Qed.

(* the WHOLE iteration, complete: as `chain`, and after the last range no position up to end holds b.  The fuel of `ranges`
   (one unit per position of the vector, plus one) always suffices because every call moves the cursor forward. *)
Fixpoint chainc (c en : Z) (rs : list (Z * Z)) : Prop :=
  match rs with
  | [] => run c en false
  | (s, e) :: r => exists e0, c <= s < e0 /\ run c s false /\ run s e0 true /\ e = Z.min e0 en /\ chainc e0 en r
  end.

Theorem ri_all_complete hint : forall fuel it c, Inv it c -> 0 <= ri_ptr it -> ri_end it <= W * zlen ws ->
  W * zlen ws - c < Z.of_nat fuel -> chainc c (ri_end it) (ri_all fuel W b ws it hint).
Proof.
  induction fuel as [|f IH]; intros it c HI Hp He Hf; cbn [ri_all].
  - cbn [chainc]. intros p k Hk Hr. lia.
  - destruct (ri_next W b ws it hint) as [[[s e] it']|] eqn:Hn.
    2:{ cbn [chainc]. exact (next_none it c hint HI Hp He Hn). }
    destruct (next_inv it c hint s e it' HI Hn) as (e0 & H1 & H2 & H3 & H4 & H5 & H6). pose proof (next_ptr it hint s e it' Hn) as Hpp.
    cbn [chainc]. exists e0. split; [exact H1|]. split; [exact H2|]. split; [exact H3|]. split; [exact H4|]. rewrite <- H5.
    destruct H6 as [(I' & _)|[(I' & _)|(Z0 & Ze & Zb)]]; [apply IH; [exact I'|lia|rewrite H5; exact He|lia]|apply IH; [exact I'|lia|rewrite H5; exact He|lia]|].
    destruct f as [|f']; cbn [ri_all]; [|rewrite (next_finished it' hint Z0 Ze)]; cbn [chainc]; intros p k Hk Hr; lia.
Qed.

Theorem ranges_complete start end_ hint : 0 <= start -> (start / W) * W < end_ -> end_ <= W * zlen ws ->
  chainc start end_ (ranges W b ws start end_ hint).
Proof.
  intros H0 Hlt He. unfold ranges. apply (ri_all_complete hint _ _ start (init_inv start end_ H0 Hlt)).
  - unfold ri_init. cbn [ri_ptr]. apply Z.div_pos; [|lia]. apply Z.mul_nonneg_nonneg; [apply Z.div_pos; lia|lia].
  - exact He.
  - assert (0 <= W * zlen ws) by (apply Z.mul_nonneg_nonneg; [lia|apply zlen_nonneg]). rewrite Nat2Z.inj_succ, Z2Nat.id by exact H. lia.
Qed.

(* ---- round 6: where the reported range lies relative to `end`.  Live: an iterator with a non-empty word stands on a word that
   starts before end (true after init, kept by every call).  The call's range starts in a word q that starts before end, and
   its unclipped end e0 lies at most at the end of a word q' that starts before end.  Consequences: when end is a multiple of
   the word width nothing is ever clipped (e = e0 <= end, s < end); in general s < e <= end unless the run starts at or after
   end inside the last, partial word (the recorded inverted range). *)
Definition Live (it : riter) : Prop := ri_word it <> 0 -> ri_idx it < ri_end it.

Lemma skip_live fuel it it1 : Live it -> ri_skip fuel W b ws it = Some it1 -> ri_idx it1 < ri_end it1.
Proof.
  intros HL H. destruct (ri_skip_spec W b ws fuel it it1 H) as (N0 & Ee & k & K0 & K1 & K2 & K3 & K4 & K5).
  destruct (Z.eq_dec k 0) as [E|E].
  - rewrite (K3 E) in *. apply HL. exact N0.
  - destruct (K4 ltac:(lia)) as (_ & _ & W2). rewrite Ee. exact W2.
Qed.

Theorem next_inv2 it c hint s e it' : Inv it c -> Live it -> ri_next W b ws it hint = Some (s, e, it') ->
  exists e0, c <= s < e0 /\ run c s false /\ run s e0 true /\ e = Z.min e0 (ri_end it) /\ ri_end it' = ri_end it /\
   ((Inv it' e0 /\ exists p k, 0 <= k < W /\ e0 = W * p + k /\ Z.testbit (M p) k = false)
    \/ (Inv it' e0 /\ ri_word it' = 0)
    \/ (ri_word it' = 0 /\ ri_idx it' >= ri_end it' /\ e0 >= ri_end it)) /\
   Live it' /\
   exists q q', W * q <= s < W * q + W /\ W * q < ri_end it /\ W * q' < ri_end it /\ e0 <= W * q' + W.
Proof.
  intros HI HL H. unfold ri_next in H.
  destruct (ri_skip (S (length ws)) W b ws it) as [it1|] eqn:Hs; [|discriminate].
  pose proof (skip_live _ it it1 HL Hs) as X1.
  destruct (skip_inv _ it c it1 HI Hs) as (c1 & (J1 & J2 & J3 & J4) & Hc & Hrun & Hn0 & He).
  pose proof (range_word_run W (ri_word it1) HW J3 Hn0) as R. cbn zeta in R.
  set (i := ctz (ri_word it1)) in *. set (bw := wlnot W (Z.lxor (ri_word it1) (wlnot W (shl_ones W i)))) in *.
  destruct R as (R1 & R2 & R3 & R4 & R5 & R6).
  set (p1 := ri_ptr it1) in *. set (x1 := ri_idx it1) in *.
  assert (Mi : c1 - x1 <= i /\ Z.testbit (M p1) i = true).
  { pose proof (J4 i R1) as B. rewrite R2 in B. symmetry in B. apply andb_true_iff in B. destruct B as [B1 B2]. apply Z.leb_le in B1. split; assumption. }
  assert (Mlow : forall k, 0 <= k -> c1 - x1 <= k < i -> Z.testbit (M p1) k = false).
  { intros k Hk0 Hk. pose proof (J4 k ltac:(lia)) as B. rewrite (R3 k) in B by lia. destruct (Z.leb_spec (c1 - x1) k); [|lia]. cbn [andb] in B. symmetry. exact B. }
  assert (Rlow : run c (x1 + i) false).
  { apply (run_app c c1); [exact Hrun|]. intros p k Hk Hr. assert (p = p1) by (apply (word_of_pos p p1 k Hk); lia). subst p. apply Mlow; lia. }
  destruct (Z.eqb_spec bw 0) as [B0|B0].
  - destruct (ri_extend (S (length ws)) W b ws (mkri p1 x1 (ri_end it1) 0) (x1 + i) (Z.min (x1 + W) (ri_end it1)) hint) as [it2 rend'] eqn:Hx.
    injection H as Hs1 Hs2 Hs3. subst s e it'.
    destruct (ri_extend_spec W b ws _ _ _ _ _ _ _ Hx) as (Ee & k & K0 & KF & KD). cbn [ri_ptr ri_idx ri_end ri_word] in *. cbn zeta in KD.
    assert (Mhigh : forall q, i <= q < W -> Z.testbit (M p1) q = true).
    { intros q Hq. pose proof (J4 q ltac:(lia)) as B. rewrite (proj1 R5 B0 q Hq) in B. symmetry in B. apply andb_true_iff in B. exact (proj2 B). }
    assert (Rfull : run (x1 + i) (x1 + W * k + W) true).
    { intros p q Hq Hr. assert (Hp : p1 <= p <= p1 + k) by nia. destruct (Z.eq_dec p p1) as [->|Hne].
      - apply Mhigh. lia.
      - destruct (KF (p - p1) ltac:(lia)) as [A _]. replace (p1 + (p - p1)) with p in A by ring. fold (M p) in A. rewrite A.
        rewrite ones_testbit by lia. destruct (Z.ltb_spec q W); [reflexivity|lia]. }
    assert (Hrk : (if k =? 0 then Z.min (x1 + W) (ri_end it1) else Z.min (x1 + W * k + W) (ri_end it1)) = Z.min (x1 + W * k + W) (ri_end it)).
    { rewrite He. destruct (Z.eqb_spec k 0) as [->|_]; [f_equal; ring|reflexivity]. }
    destruct KD as [(A & B)|[(A & B & C)|(A & B & C & D)]].
    + exists (x1 + W * k + W). split; [nia|]. split; [exact Rlow|]. split; [exact Rfull|]. split; [rewrite B; exact Hrk|]. split; [rewrite Ee; exact He|].
      assert (E2 : it2 = mkri (p1 + k) (W * (p1 + k)) (ri_end it1) 0).
      { rewrite A. destruct (Z.eqb_spec k 0) as [->|_]; f_equal; lia. }
      assert (Xk : W * (p1 + k) < ri_end it).
      { rewrite <- He. destruct (Z.eq_dec k 0) as [->|Hk0]; [lia|]. destruct (KF k ltac:(lia)) as [_ Hlt]. lia. }
      split; [|split; [rewrite E2; intros Hc0; cbn [ri_word] in Hc0; contradiction|exists p1, (p1 + k); split; [lia|split; [lia|split; [exact Xk|lia]]]]].
      rewrite E2. right. left. split; [|reflexivity]. replace (x1 + W * k + W) with (W * (p1 + k) + W) by lia. apply inv_zero.
    + exists (x1 + W * k + W). split; [nia|]. split; [exact Rlow|]. split; [exact Rfull|]. split; [rewrite C; exact Hrk|]. split; [rewrite Ee; exact He|].
      assert (Xk : W * (p1 + k) < ri_end it).
      { rewrite <- He. destruct (Z.eq_dec k 0) as [->|Hk0]; [lia|]. destruct (KF k ltac:(lia)) as [_ Hlt]. lia. }
      assert (Wz : ri_word it2 = 0) by (rewrite B; cbn [ri_word]; destruct (k =? 0); reflexivity).
      split; [|split; [intros Hc0; contradiction|exists p1, (p1 + k); split; [lia|split; [lia|split; [exact Xk|lia]]]]].
      right. right. split; [exact Wz|]. rewrite B. cbn [ri_idx ri_end]. split; [lia|lia].
    + rename C into D1. rename D into D2.
      pose proof (first_zero W (mword W b ws (p1 + k + 1)) HW (HM (p1 + k + 1)) B) as F. cbn zeta in F.
      set (j2 := ctz (wlnot W (mword W b ws (p1 + k + 1)))) in *. destruct F as (F1 & F2 & F3 & F4 & F5).
      exists (x1 + W * k + W + j2). split; [nia|]. split; [exact Rlow|]. split.
      { apply (run_app _ (x1 + W * k + W)); [exact Rfull|]. intros p q Hq Hr.
        assert (p = p1 + k + 1) by (apply (word_of_pos p (p1 + k + 1) q Hq); lia). subst p. apply F3. lia. }
      split; [rewrite D2, He; reflexivity|]. split; [rewrite Ee; exact He|].
      split; [|split; [rewrite D1; intros _; cbn [ri_idx ri_end]; lia|exists p1, (p1 + k + 1); split; [lia|split; [lia|split; [lia|lia]]]]].
      left. rewrite D1. split.
      * unfold Inv. cbn [ri_idx ri_ptr ri_word]. split; [lia|]. split; [lia|]. split; [exact F4|].
        intros q Hq. rewrite (F5 q Hq). replace (x1 + W * k + W + j2 - (x1 + W * k + W)) with j2 by ring. reflexivity.
      * exists (p1 + k + 1), j2. split; [exact F1|]. split; [lia|exact F2].
  - injection H as Hs1 Hs2 Hs3. subst s e it'. specialize (R6 B0). cbn zeta in R6. set (j := ctz bw) in *.
    destruct R6 as (S1 & S2 & S3 & S4 & S5).
    exists (x1 + j). split; [lia|]. split; [exact Rlow|]. split.
    { intros p q Hq Hr. assert (p = p1) by (apply (word_of_pos p p1 q Hq); lia). subst p.
      pose proof (J4 q Hq) as Bq. rewrite (S2 q) in Bq by lia. symmetry in Bq. apply andb_true_iff in Bq. exact (proj2 Bq). }
    split; [rewrite He; reflexivity|]. split; [exact He|].
    split; [|split; [intros _; cbn [ri_idx ri_end]; exact X1|exists p1, p1; split; [lia|split; [lia|split; [lia|lia]]]]].
    left. split.
    + unfold Inv. cbn [ri_idx ri_ptr ri_word]. split; [exact J1|]. split; [lia|]. split; [exact S4|].
      intros q Hq. rewrite (S5 q) by lia. rewrite (J4 q Hq). replace (x1 + j - x1) with j by ring.
      destruct (Z.leb_spec j q); [|reflexivity]. destruct (Z.leb_spec (c1 - x1) q); [reflexivity|lia].
    + exists p1, j. split; [lia|]. split; [lia|]. pose proof (J4 j ltac:(lia)) as Bj. rewrite S3 in Bj.
      destruct (Z.leb_spec (c1 - x1) j); [|lia]. cbn [andb] in Bj. symmetry. exact Bj.
Qed.


Lemma init_live start end_ : Live (ri_init W b ws start end_).
Proof.
  unfold Live, ri_init. cbn [ri_word ri_idx ri_end]. destruct (Z.ltb_spec (start / W * W) end_); [intros _; assumption|intros Hc; contradiction].
Qed.

(* end a multiple of the word width (how JitAllocator calls it: whole words): NOTHING is clipped.  The ranges are exactly
   increasing [s, e) inside [start, end), every position of a range holds b, no position between them does, and none after the
   last one up to end. *)
Fixpoint chaina (c en : Z) (rs : list (Z * Z)) : Prop :=
  match rs with
  | [] => run c en false
  | (s, e) :: r => c <= s < e /\ e <= en /\ run c s false /\ run s e true /\ chaina e en r
  end.

Theorem ri_all_aligned hint m : forall fuel it c, Inv it c -> Live it -> 0 <= ri_ptr it -> ri_end it = W * m -> m <= zlen ws ->
  W * zlen ws - c < Z.of_nat fuel -> chaina c (ri_end it) (ri_all fuel W b ws it hint).
Proof.
  induction fuel as [|f IH]; intros it c HI HL Hp He Hm Hf; cbn [ri_all].
  - cbn [chaina]. intros p k Hk Hr. nia.
  - destruct (ri_next W b ws it hint) as [[[s e] it']|] eqn:Hn.
    2:{ cbn [chaina]. apply (next_none it c hint HI Hp); [nia|exact Hn]. }
    destruct (next_inv2 it c hint s e it' HI HL Hn) as (e0 & H1 & H2 & H3 & H4 & H5 & H6 & HL' & q & q' & Q1 & Q2 & Q3 & Q4).
    pose proof (next_ptr it hint s e it' Hn) as Hpp.
    assert (Q5 : q' < m) by (rewrite He in Q3; nia).
    assert (E0 : e0 <= ri_end it) by (rewrite He; nia).
    assert (Ee : e = e0) by (rewrite H4; lia). clear H4. subst e.
    cbn [chaina]. split; [exact H1|]. split; [exact E0|]. split; [exact H2|]. split; [exact H3|]. rewrite <- H5.
    destruct H6 as [(I' & _)|[(I' & _)|(Z0 & Ze & Zb)]]; [apply (IH it' e0 I' HL'); [lia|rewrite H5; exact He|exact Hm|lia]|apply (IH it' e0 I' HL'); [lia|rewrite H5; exact He|exact Hm|lia]|].
    destruct f as [|f']; cbn [ri_all]; [|rewrite (next_finished it' hint Z0 Ze)]; cbn [chaina]; intros p k Hk Hr; lia.
Qed.

Theorem ranges_aligned start m hint : 0 <= start < W * m -> m <= zlen ws -> chaina start (W * m) (ranges W b ws start (W * m) hint).
Proof.
  intros H0 Hm. unfold ranges.
  assert (Hlt : start / W * W < W * m). { pose proof (Z.mul_div_le start W HW). lia. }
  apply (ri_all_aligned hint m _ _ start (init_inv start (W * m) ltac:(lia) Hlt) (init_live start (W * m))).
  - unfold ri_init. cbn [ri_ptr]. apply Z.div_pos; [|lia]. apply Z.mul_nonneg_nonneg; [apply Z.div_pos; lia|lia].
  - reflexivity.
  - exact Hm.
  - assert (0 <= W * zlen ws) by (apply Z.mul_nonneg_nonneg; [lia|apply zlen_nonneg]). rewrite Nat2Z.inj_succ, Z2Nat.id by exact H. lia.
Qed.


(* ---- round 6: MAXIMALITY.  When the hint exceeds end (the default hint is SIZE_MAX) and end lies inside the vector, the extend
   loop is never cut: it leaves only because the data ended or because it met a word that is not full. *)
Lemma ri_extend_uncut : forall fuel it rstart rend hint it' rend',
  ri_extend fuel W b ws it rstart rend hint = (it', rend') ->
  ri_end it < hint -> ri_end it < 2 ^ 64 -> 0 <= rstart <= rend -> rend <= ri_end it -> rend <= ri_idx it + W ->
  ri_end it <= ri_idx it + W * Z.of_nat fuel ->
  exists k, 0 <= k /\
    (forall j, 0 < j <= k -> mword W b ws (ri_ptr it + j) = Z.ones W /\ ri_idx it + W * j < ri_end it) /\
    let rk := if k =? 0 then rend else Z.min (ri_idx it + W * k + W) (ri_end it) in
    ((ri_idx it + W * k + W >= ri_end it /\ rend' = rk)
     \/ (ri_idx it + W * k + W < ri_end it /\ mword W b ws (ri_ptr it + k + 1) <> Z.ones W /\
         rend' = Z.min (ri_idx it + W * k + W + ctz (wlnot W (mword W b ws (ri_ptr it + k + 1)))) (ri_end it))).
Proof.
  induction fuel as [|f IH]; intros it rstart rend hint it' rend' H Hh H64 Hr Hre Hrw Hf; cbn [ri_extend] in H.
  - injection H as <- <-. exists 0. split; [lia|]. split; [intros j Hj; lia|]. left. cbn [Z.eqb]. split; [lia|reflexivity].
  - assert (Hm : (rend - rstart) mod 2 ^ 64 <? hint = true).
    { apply Z.ltb_lt. rewrite Z.mod_small by lia. lia. }
    rewrite Hm in H.
    destruct (Z.geb_spec (ri_idx it + W) (ri_end it)) as [Hge|Hlt].
    + injection H as <- <-. exists 0. split; [lia|]. split; [intros j Hj; lia|]. left. cbn [Z.eqb]. split; [lia|reflexivity].
    + fold (mword W b ws (ri_ptr it + 1)) in H. destruct (Z.eqb_spec (mword W b ws (ri_ptr it + 1)) (Z.ones W)) as [E1|E1]; cbn [negb] in H.
      * set (it1 := mkri (ri_ptr it + 1) (ri_idx it + W) (ri_end it) 0) in *.
        assert (G1 : 0 <= rstart <= Z.min (ri_idx it + W + W) (ri_end it)) by lia.
        assert (G2 : Z.min (ri_idx it + W + W) (ri_end it) <= ri_end it) by lia.
        assert (G3 : Z.min (ri_idx it + W + W) (ri_end it) <= ri_idx it + W + W) by lia.
        assert (G4 : ri_end it <= ri_idx it + W + W * Z.of_nat f) by (rewrite Nat2Z.inj_succ in Hf; lia).
        destruct (IH it1 rstart _ hint it' rend' H Hh H64 G1 G2 G3 G4) as (k1 & K0 & KF & KD). cbn [it1 ri_ptr ri_idx ri_end] in *.
        exists (k1 + 1). split; [lia|]. split.
        { intros j Hj. destruct (Z.eq_dec j 1) as [->|Hne]; [split; [exact E1|lia]|].
          destruct (KF (j - 1) ltac:(lia)) as [A B]. split; [rewrite <- A; f_equal; ring|lia]. }
        destruct (Z.eqb_spec (k1 + 1) 0) as [Hc|_]; [lia|]. cbn zeta in KD |- *.
        replace (ri_ptr it + (k1 + 1) + 1) with (ri_ptr it + 1 + k1 + 1) by ring.
        replace (ri_idx it + W * (k1 + 1)) with (ri_idx it + W + W * k1) by ring.
        destruct (Z.eqb_spec k1 0) as [K|K].
        { subst k1. rewrite !Z.mul_0_r, !Z.add_0_r in *. destruct KD as [(A & B)|(A & B & C)]; [left; split; [exact A|exact B]|right; split; [exact A|split; [exact B|exact C]]]. }
        { destruct KD as [(A & B)|(A & B & C)]; [left; split; [exact A|exact B]|right; split; [exact A|split; [exact B|exact C]]]. }
      * injection H as <- <-. exists 0. split; [lia|]. split; [intros j Hj; lia|]. right.
        rewrite !Z.mul_0_r, !Z.add_0_r. split; [lia|]. split; [exact E1|reflexivity].
Qed.

(* the same without an assumption on the hint: the loop may also stop because the range has reached the hint *)
Lemma ri_extend_cut : forall fuel it rstart rend hint it' rend',
  ri_extend fuel W b ws it rstart rend hint = (it', rend') ->
  ri_end it < 2 ^ 64 -> 0 <= rstart <= rend -> rend <= ri_end it -> rend <= ri_idx it + W ->
  ri_end it <= ri_idx it + W * Z.of_nat fuel ->
  exists k, 0 <= k /\
    (forall j, 0 < j <= k -> mword W b ws (ri_ptr it + j) = Z.ones W /\ ri_idx it + W * j < ri_end it) /\
    let rk := if k =? 0 then rend else Z.min (ri_idx it + W * k + W) (ri_end it) in
    ((hint <= rk - rstart /\ rend' = rk)
     \/ (ri_idx it + W * k + W >= ri_end it /\ rend' = rk)
     \/ (ri_idx it + W * k + W < ri_end it /\ mword W b ws (ri_ptr it + k + 1) <> Z.ones W /\
         rend' = Z.min (ri_idx it + W * k + W + ctz (wlnot W (mword W b ws (ri_ptr it + k + 1)))) (ri_end it))).
Proof.
  induction fuel as [|f IH]; intros it rstart rend hint it' rend' H H64 Hr Hre Hrw Hf; cbn [ri_extend] in H.
  - injection H as <- <-. exists 0. split; [lia|]. split; [intros j Hj; lia|]. right. left. cbn [Z.eqb]. split; [lia|reflexivity].
  - rewrite (Z.mod_small (rend - rstart) (2 ^ 64)) in H by lia.
    destruct (Z.ltb_spec (rend - rstart) hint) as [Hlt0|Hge0].
    2:{ injection H as <- <-. exists 0. split; [lia|]. split; [intros j Hj; lia|]. left. cbn [Z.eqb]. split; [lia|reflexivity]. }
    destruct (Z.geb_spec (ri_idx it + W) (ri_end it)) as [Hge|Hlt].
    + injection H as <- <-. exists 0. split; [lia|]. split; [intros j Hj; lia|]. right. left. cbn [Z.eqb]. split; [lia|reflexivity].
    + fold (mword W b ws (ri_ptr it + 1)) in H. destruct (Z.eqb_spec (mword W b ws (ri_ptr it + 1)) (Z.ones W)) as [E1|E1]; cbn [negb] in H.
      * set (it1 := mkri (ri_ptr it + 1) (ri_idx it + W) (ri_end it) 0) in *.
        assert (G1 : 0 <= rstart <= Z.min (ri_idx it + W + W) (ri_end it)) by lia.
        assert (G2 : Z.min (ri_idx it + W + W) (ri_end it) <= ri_end it) by lia.
        assert (G3 : Z.min (ri_idx it + W + W) (ri_end it) <= ri_idx it + W + W) by lia.
        assert (G4 : ri_end it <= ri_idx it + W + W * Z.of_nat f) by (rewrite Nat2Z.inj_succ in Hf; lia).
        destruct (IH it1 rstart _ hint it' rend' H H64 G1 G2 G3 G4) as (k1 & K0 & KF & KD). cbn [it1 ri_ptr ri_idx ri_end] in *.
        exists (k1 + 1). split; [lia|]. split.
        { intros j Hj. destruct (Z.eq_dec j 1) as [->|Hne]; [split; [exact E1|lia]|].
          destruct (KF (j - 1) ltac:(lia)) as [A B]. split; [rewrite <- A; f_equal; ring|lia]. }
        destruct (Z.eqb_spec (k1 + 1) 0) as [Hc|_]; [lia|]. cbn zeta in KD |- *.
        replace (ri_ptr it + (k1 + 1) + 1) with (ri_ptr it + 1 + k1 + 1) by ring.
        replace (ri_idx it + W * (k1 + 1)) with (ri_idx it + W + W * k1) by ring.
        destruct (Z.eqb_spec k1 0) as [K|K].
        { subst k1. rewrite !Z.mul_0_r, !Z.add_0_r in *. destruct KD as [(A & B)|[(A & B)|(A & B & C)]]; [left; split; [exact A|exact B]|right; left; split; [exact A|exact B]|right; right; split; [exact A|split; [exact B|exact C]]]. }
        { destruct KD as [(A & B)|[(A & B)|(A & B & C)]]; [left; split; [exact A|exact B]|right; left; split; [exact A|exact B]|right; right; split; [exact A|split; [exact B|exact C]]]. }
      * injection H as <- <-. exists 0. split; [lia|]. split; [intros j Hj; lia|]. right. right.
        rewrite !Z.mul_0_r, !Z.add_0_r. split; [lia|]. split; [exact E1|reflexivity].
Qed.

(* the end of a reported range is the end of the data or a position that does not hold b *)
Theorem next_maximal it c hint s e it' m : Inv it c -> Live it -> 0 <= ri_ptr it -> ri_end it = W * m -> m <= zlen ws ->
  ri_end it < hint -> ri_end it < 2 ^ 64 -> ri_next W b ws it hint = Some (s, e, it') ->
  e = ri_end it \/ exists p k, 0 <= k < W /\ e = W * p + k /\ Z.testbit (M p) k = false.
Proof.
  intros HI HL Hp0 He Hm Hh H64 H. unfold ri_next in H.
  destruct (ri_skip (S (length ws)) W b ws it) as [it1|] eqn:Hs; [|discriminate].
  pose proof (skip_live _ it it1 HL Hs) as X1.
  destruct (ri_skip_spec W b ws _ it it1 Hs) as (_ & _ & k0 & K00 & _ & K02 & _).
  destruct (skip_inv _ it c it1 HI Hs) as (c1 & (J1 & J2 & J3 & J4) & Hc & Hrun & Hn0 & Hee).
  pose proof (range_word_run W (ri_word it1) HW J3 Hn0) as R. cbn zeta in R.
  set (i := ctz (ri_word it1)) in *. set (bw := wlnot W (Z.lxor (ri_word it1) (wlnot W (shl_ones W i)))) in *.
  destruct R as (R1 & R2 & R3 & R4 & R5 & R6).
  set (p1 := ri_ptr it1) in *. set (x1 := ri_idx it1) in *.
  assert (Mi : c1 - x1 <= i).
  { pose proof (J4 i R1) as B. rewrite R2 in B. symmetry in B. apply andb_true_iff in B. destruct B as [B1 _]. apply Z.leb_le in B1. exact B1. }
  assert (Xm : p1 < m) by (rewrite Hee, He in X1; nia).
  assert (Xw : x1 + W <= ri_end it1) by (rewrite Hee, He; nia).
  destruct (Z.eqb_spec bw 0) as [B0|B0].
  - destruct (ri_extend (S (length ws)) W b ws (mkri p1 x1 (ri_end it1) 0) (x1 + i) (Z.min (x1 + W) (ri_end it1)) hint) as [it2 rend'] eqn:Hx.
    injection H as Hs1 Hs2 Hs3. subst s e it'.
    assert (U1 : ri_end it1 < hint) by (rewrite Hee; exact Hh).
    assert (U2 : ri_end it1 < 2 ^ 64) by (rewrite Hee; exact H64).
    assert (U0 : 0 <= x1) by (rewrite J1; nia).
    assert (U3 : 0 <= x1 + i <= Z.min (x1 + W) (ri_end it1)) by lia.
    assert (U4 : Z.min (x1 + W) (ri_end it1) <= ri_end it1) by lia.
    assert (U5 : Z.min (x1 + W) (ri_end it1) <= x1 + W) by lia.
    assert (U6 : ri_end it1 <= x1 + W * Z.of_nat (S (length ws))) by (rewrite Nat2Z.inj_succ; unfold zlen in Hm; rewrite Hee, He; nia).
    destruct (ri_extend_uncut _ (mkri p1 x1 (ri_end it1) 0) _ _ _ _ _ Hx U1 U2 U3 U4 U5 U6) as (k & K0 & KF & KD). cbn [ri_ptr ri_idx ri_end] in *.
    cbn zeta in KD. destruct KD as [(A & B)|(A & B & C)].
    + left. rewrite B. destruct (Z.eqb_spec k 0) as [->|Hk].
      * rewrite Hee in *. lia.
      * destruct (KF k ltac:(lia)) as [_ Hlt]. assert (p1 + k < m) by (rewrite Hee, He in Hlt; nia).
        assert (x1 + W * k + W <= ri_end it1) by (rewrite Hee, He; nia). rewrite Hee in *. lia.
    + right. pose proof (first_zero W (mword W b ws (p1 + k + 1)) HW (HM (p1 + k + 1)) B) as F. cbn zeta in F.
      set (j2 := ctz (wlnot W (mword W b ws (p1 + k + 1)))) in *. destruct F as (F1 & F2 & _).
      assert (p1 + k + 1 < m) by (rewrite Hee, He in A; nia).
      exists (p1 + k + 1), j2. split; [exact F1|]. split; [|exact F2]. rewrite C.
      assert (x1 + W * k + W + j2 <= ri_end it1) by (rewrite Hee, He; nia). lia.
  - injection H as Hs1 Hs2 Hs3. subst s e it'. specialize (R6 B0). cbn zeta in R6. set (j := ctz bw) in *.
    destruct R6 as (S1 & S2 & S3 & S4 & S5). right. exists p1, j. split; [lia|]. split; [lia|].
    pose proof (J4 j ltac:(lia)) as Bj. rewrite S3 in Bj. destruct (Z.leb_spec (c1 - x1) j); [|lia]. cbn [andb] in Bj. symmetry. exact Bj.
Qed.

(* for ANY hint: the end of a reported range is the end of the data, a position that does not hold b, or the range has reached
   the hint (only then may a run be cut) *)
Theorem next_maximal_or_hint it c hint s e it' m : Inv it c -> Live it -> 0 <= ri_ptr it -> ri_end it = W * m -> m <= zlen ws ->
  ri_end it < 2 ^ 64 -> ri_next W b ws it hint = Some (s, e, it') ->
  e = ri_end it \/ (exists p k, 0 <= k < W /\ e = W * p + k /\ Z.testbit (M p) k = false) \/ hint <= e - s.
Proof.
  intros HI HL Hp0 He Hm H64 H. unfold ri_next in H.
  destruct (ri_skip (S (length ws)) W b ws it) as [it1|] eqn:Hs; [|discriminate].
  pose proof (skip_live _ it it1 HL Hs) as X1.
  destruct (ri_skip_spec W b ws _ it it1 Hs) as (_ & _ & k0 & K00 & _ & K02 & _).
  destruct (skip_inv _ it c it1 HI Hs) as (c1 & (J1 & J2 & J3 & J4) & Hc & Hrun & Hn0 & Hee).
  pose proof (range_word_run W (ri_word it1) HW J3 Hn0) as R. cbn zeta in R.
  set (i := ctz (ri_word it1)) in *. set (bw := wlnot W (Z.lxor (ri_word it1) (wlnot W (shl_ones W i)))) in *.
  destruct R as (R1 & R2 & R3 & R4 & R5 & R6).
  set (p1 := ri_ptr it1) in *. set (x1 := ri_idx it1) in *.
  assert (Mi : c1 - x1 <= i).
  { pose proof (J4 i R1) as B. rewrite R2 in B. symmetry in B. apply andb_true_iff in B. destruct B as [B1 _]. apply Z.leb_le in B1. exact B1. }
  assert (Xm : p1 < m) by (rewrite Hee, He in X1; nia).
  assert (Xw : x1 + W <= ri_end it1) by (rewrite Hee, He; nia).
  destruct (Z.eqb_spec bw 0) as [B0|B0].
  - destruct (ri_extend (S (length ws)) W b ws (mkri p1 x1 (ri_end it1) 0) (x1 + i) (Z.min (x1 + W) (ri_end it1)) hint) as [it2 rend'] eqn:Hx.
    injection H as Hs1 Hs2 Hs3. subst s e it'.
    assert (U2 : ri_end it1 < 2 ^ 64) by (rewrite Hee; exact H64).
    assert (U0 : 0 <= x1) by (rewrite J1; nia).
    assert (U3 : 0 <= x1 + i <= Z.min (x1 + W) (ri_end it1)) by lia.
    assert (U4 : Z.min (x1 + W) (ri_end it1) <= ri_end it1) by lia.
    assert (U5 : Z.min (x1 + W) (ri_end it1) <= x1 + W) by lia.
    assert (U6 : ri_end it1 <= x1 + W * Z.of_nat (S (length ws))) by (rewrite Nat2Z.inj_succ; unfold zlen in Hm; rewrite Hee, He; nia).
    destruct (ri_extend_cut _ (mkri p1 x1 (ri_end it1) 0) _ _ _ _ _ Hx U2 U3 U4 U5 U6) as (k & K0 & KF & KD). cbn [ri_ptr ri_idx ri_end] in *.
    cbn zeta in KD. destruct KD as [(A0 & B0')|[(A & B)|(A & B & C)]].
    + right. right. rewrite B0'. exact A0.
    + left. rewrite B. destruct (Z.eqb_spec k 0) as [->|Hk].
      * rewrite Hee in *. lia.
      * destruct (KF k ltac:(lia)) as [_ Hlt]. assert (p1 + k < m) by (rewrite Hee, He in Hlt; nia).
        assert (x1 + W * k + W <= ri_end it1) by (rewrite Hee, He; nia). rewrite Hee in *. lia.
    + right. left. pose proof (first_zero W (mword W b ws (p1 + k + 1)) HW (HM (p1 + k + 1)) B) as F. cbn zeta in F.
      set (j2 := ctz (wlnot W (mword W b ws (p1 + k + 1)))) in *. destruct F as (F1 & F2 & _).
      assert (p1 + k + 1 < m) by (rewrite Hee, He in A; nia).
      exists (p1 + k + 1), j2. split; [exact F1|]. split; [|exact F2]. rewrite C.
      assert (x1 + W * k + W + j2 <= ri_end it1) by (rewrite Hee, He; nia). lia.
  - injection H as Hs1 Hs2 Hs3. subst s e it'. specialize (R6 B0). cbn zeta in R6. set (j := ctz bw) in *.
    destruct R6 as (S1 & S2 & S3 & S4 & S5). right. left. exists p1, j. split; [lia|]. split; [lia|].
    pose proof (J4 j ltac:(lia)) as Bj. rewrite S3 in Bj. destruct (Z.leb_spec (c1 - x1) j); [|lia]. cbn [andb] in Bj. symmetry. exact Bj.
Qed.


(* the same with MAXIMALITY: when moreover the hint exceeds end (default hint SIZE_MAX), every reported range ends at end or at a
   position that does not hold b; with `run c s false` before it, the reported ranges are exactly the maximal runs of b *)
Fixpoint chainx (c en : Z) (rs : list (Z * Z)) : Prop :=
  match rs with
  | [] => run c en false
  | (s, e) :: r => c <= s < e /\ e <= en /\ run c s false /\ run s e true /\
                   (e = en \/ exists p k, 0 <= k < W /\ e = W * p + k /\ Z.testbit (M p) k = false) /\ chainx e en r
  end.

Theorem ri_all_aligned_max hint m : forall fuel it c, Inv it c -> Live it -> 0 <= ri_ptr it -> ri_end it = W * m -> m <= zlen ws ->
  ri_end it < hint -> ri_end it < 2 ^ 64 -> W * zlen ws - c < Z.of_nat fuel -> chainx c (ri_end it) (ri_all fuel W b ws it hint).
Proof.
  induction fuel as [|f IH]; intros it c HI HL Hp He Hm Hh H64 Hf; cbn [ri_all].
  - cbn [chainx]. intros p k Hk Hr. nia.
  - destruct (ri_next W b ws it hint) as [[[s e] it']|] eqn:Hn.
    2:{ cbn [chainx]. apply (next_none it c hint HI Hp); [nia|exact Hn]. }
    destruct (next_inv2 it c hint s e it' HI HL Hn) as (e0 & H1 & H2 & H3 & H4 & H5 & H6 & HL' & q & q' & Q1 & Q2 & Q3 & Q4).
    pose proof (next_ptr it hint s e it' Hn) as Hpp.
    assert (Q5 : q' < m) by (rewrite He in Q3; nia).
    assert (E0 : e0 <= ri_end it) by (rewrite He; nia).
    assert (Ee : e = e0) by (rewrite H4; lia). clear H4. subst e.
    pose proof (next_maximal it c hint s e0 it' m HI HL Hp He Hm Hh H64 Hn) as Hmax.
    cbn [chainx]. split; [exact H1|]. split; [exact E0|]. split; [exact H2|]. split; [exact H3|]. split; [exact Hmax|]. rewrite <- H5.
    destruct H6 as [(I' & _)|[(I' & _)|(Z0 & Ze & Zb)]]; [apply (IH it' e0 I' HL'); [lia|rewrite H5; exact He|exact Hm|rewrite H5; exact Hh|rewrite H5; exact H64|lia]|apply (IH it' e0 I' HL'); [lia|rewrite H5; exact He|exact Hm|rewrite H5; exact Hh|rewrite H5; exact H64|lia]|].
    destruct f as [|f']; cbn [ri_all]; [|rewrite (next_finished it' hint Z0 Ze)]; cbn [chainx]; intros p k Hk Hr; lia.
Qed.

Theorem ranges_aligned_max start m hint : 0 <= start < W * m -> m <= zlen ws -> W * m < hint -> W * m < 2 ^ 64 ->
  chainx start (W * m) (ranges W b ws start (W * m) hint).
Proof.
  intros H0 Hm Hh H64. unfold ranges.
  assert (Hlt : start / W * W < W * m). { pose proof (Z.mul_div_le start W HW). lia. }
  apply (ri_all_aligned_max hint m _ _ start (init_inv start (W * m) ltac:(lia) Hlt) (init_live start (W * m))).
  - unfold ri_init. cbn [ri_ptr]. apply Z.div_pos; [|lia]. apply Z.mul_nonneg_nonneg; [apply Z.div_pos; lia|lia].
  - reflexivity.
  - exact Hm.
  - exact Hh.
  - exact H64.
  - assert (0 <= W * zlen ws) by (apply Z.mul_nonneg_nonneg; [lia|apply zlen_nonneg]). rewrite Nat2Z.inj_succ, Z2Nat.id by exact H. lia.
Qed.


(* ANY hint: a reported range ends at end, at a position that does not hold b, or has reached the hint (hint <= e - s) *)
Fixpoint chainh (hint c en : Z) (rs : list (Z * Z)) : Prop :=
  match rs with
  | [] => run c en false
  | (s, e) :: r => c <= s < e /\ e <= en /\ run c s false /\ run s e true /\
                   (e = en \/ (exists p k, 0 <= k < W /\ e = W * p + k /\ Z.testbit (M p) k = false) \/ hint <= e - s) /\ chainh hint e en r
  end.

Theorem ri_all_aligned_hint hint m : forall fuel it c, Inv it c -> Live it -> 0 <= ri_ptr it -> ri_end it = W * m -> m <= zlen ws ->
  ri_end it < 2 ^ 64 -> W * zlen ws - c < Z.of_nat fuel -> chainh hint c (ri_end it) (ri_all fuel W b ws it hint).
Proof.
  induction fuel as [|f IH]; intros it c HI HL Hp He Hm H64 Hf; cbn [ri_all].
  - cbn [chainh]. intros p k Hk Hr. nia.
  - destruct (ri_next W b ws it hint) as [[[s e] it']|] eqn:Hn.
    2:{ cbn [chainh]. apply (next_none it c hint HI Hp); [nia|exact Hn]. }
    destruct (next_inv2 it c hint s e it' HI HL Hn) as (e0 & H1 & H2 & H3 & H4 & H5 & H6 & HL' & q & q' & Q1 & Q2 & Q3 & Q4).
    pose proof (next_ptr it hint s e it' Hn) as Hpp.
    assert (Q5 : q' < m) by (rewrite He in Q3; nia).
    assert (E0 : e0 <= ri_end it) by (rewrite He; nia).
    assert (Ee : e = e0) by (rewrite H4; lia). clear H4. subst e.
    pose proof (next_maximal_or_hint it c hint s e0 it' m HI HL Hp He Hm H64 Hn) as Hmax.
    cbn [chainh]. split; [exact H1|]. split; [exact E0|]. split; [exact H2|]. split; [exact H3|]. split; [exact Hmax|]. rewrite <- H5.
    destruct H6 as [(I' & _)|[(I' & _)|(Z0 & Ze & Zb)]]; [apply (IH it' e0 I' HL'); [lia|rewrite H5; exact He|exact Hm|rewrite H5; exact H64|lia]|apply (IH it' e0 I' HL'); [lia|rewrite H5; exact He|exact Hm|rewrite H5; exact H64|lia]|].
    destruct f as [|f']; cbn [ri_all]; [|rewrite (next_finished it' hint Z0 Ze)]; cbn [chainh]; intros p k Hk Hr; lia.
Qed.

Theorem ranges_aligned_hint start m hint : 0 <= start < W * m -> m <= zlen ws -> W * m < 2 ^ 64 ->
  chainh hint start (W * m) (ranges W b ws start (W * m) hint).
Proof.
  intros H0 Hm H64. unfold ranges.
  assert (Hlt : start / W * W < W * m). { pose proof (Z.mul_div_le start W HW). lia. }
  apply (ri_all_aligned_hint hint m _ _ start (init_inv start (W * m) ltac:(lia) Hlt) (init_live start (W * m))).
  - unfold ri_init. cbn [ri_ptr]. apply Z.div_pos; [|lia]. apply Z.mul_nonneg_nonneg; [apply Z.div_pos; lia|lia].
  - reflexivity.
  - exact Hm.
  - exact H64.
  - assert (0 <= W * zlen ws) by (apply Z.mul_nonneg_nonneg; [lia|apply zlen_nonneg]). rewrite Nat2Z.inj_succ, Z2Nat.id by exact H. lia.
Qed.

End Compose.

(* the words the iterator looks at are W-bit values when the vector's words are *)
Lemma mword_ok W (b : bool) ws : 0 < W -> words_ok W ws -> forall p, word_ok W (mword W b ws p).
Proof.
  intros HW Hws p. unfold mword. pose proof (nthw_ok W ws p ltac:(lia) Hws) as Hx. destruct b; cbn [xor_mask].
  - rewrite Z.lxor_0_r. exact Hx.
  - change (Z.lxor (nthw ws p) (Z.ones W)) with (wlnot W (nthw ws p)). apply word_ok_of_bits; [lia| |].
    + apply wlnot_nonneg; [lia|exact (proj1 Hx)].
    + intros j Hj. rewrite wlnot_bit by lia. rewrite (word_ok_testbit_high W _ j) by (try lia; exact Hx). destruct (Z.ltb_spec j W); [lia|reflexivity].
Qed.

Theorem ranges_sound W (b : bool) ws start end_ hint : 0 < W -> words_ok W ws -> 0 <= start -> (start / W) * W < end_ ->
  chain W b ws start end_ (ranges W b ws start end_ hint).
Proof. intros HW Hws H0 Hlt. apply ranges_chain; [exact HW|apply mword_ok; assumption|exact H0|exact Hlt]. Qed.

Theorem ranges_sound_complete W (b : bool) ws start end_ hint : 0 < W -> words_ok W ws -> 0 <= start -> (start / W) * W < end_ ->
  end_ <= W * zlen ws -> chainc W b ws start end_ (ranges W b ws start end_ hint).
Proof. intros HW Hws H0 Hlt He. apply ranges_complete; [exact HW|apply mword_ok; assumption|exact H0|exact Hlt|exact He]. Qed.

Theorem ranges_aligned_sound W (b : bool) ws start m hint : 0 < W -> words_ok W ws -> 0 <= start < W * m -> m <= zlen ws ->
  chaina W b ws start (W * m) (ranges W b ws start (W * m) hint).
Proof. intros HW Hws H0 Hm. apply ranges_aligned; [exact HW|apply mword_ok; assumption|exact H0|exact Hm]. Qed.

Theorem ranges_aligned_max_sound W (b : bool) ws start m hint : 0 < W -> words_ok W ws -> 0 <= start < W * m -> m <= zlen ws ->
  W * m < hint -> W * m < 2 ^ 64 -> chainx W b ws start (W * m) (ranges W b ws start (W * m) hint).
Proof. intros HW Hws H0 Hm Hh H64. apply ranges_aligned_max; [exact HW|apply mword_ok; assumption|exact H0|exact Hm|exact Hh|exact H64]. Qed.

Theorem ranges_aligned_hint_sound W (b : bool) ws start m hint : 0 < W -> words_ok W ws -> 0 <= start < W * m -> m <= zlen ws ->
  W * m < 2 ^ 64 -> chainh W b ws hint start (W * m) (ranges W b ws start (W * m) hint).
Proof. intros HW Hws H0 Hm H64. apply ranges_aligned_hint; [exact HW|apply mword_ok; assumption|exact H0|exact Hm|exact H64]. Qed.

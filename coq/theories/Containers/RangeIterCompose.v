(* C18 (1), round 5 — BitVectorRangeIterator for EVERY word width: one call of next_range, composed from the word-level run
   (range_word_run), the skip loop (ri_skip_spec) and the extend loop (ri_extend_spec) under an iterator invariant.
   Positions are written W*p + k (word p, bit k); M p = ws[p] ^ xor_mask is the word the iterator looks at, so a set bit of M
   is a bit of the vector that equals the value b being searched. *)
From Coq Require Import ZArith List Bool Lia.
From Verif Require Import Containers.BitVecModel Containers.BitVecProofs Containers.RangeIterModel Containers.RangeIterGeneral.
Import ListNotations.
Local Open Scope Z_scope.

(* the first zero bit of a word that is not all ones: what exit (c) of the extend loop keeps *)
Lemma first_zero W bw : 0 < W -> word_ok W bw -> bw <> Z.ones W ->
  let j := ctz (wlnot W bw) in
  0 <= j < W /\ Z.testbit bw j = false /\ (forall k, 0 <= k < j -> Z.testbit bw k = true) /\
  word_ok W (Z.lxor bw (wlnot W (shl_ones W j))) /\
  forall k, 0 <= k < W -> Z.testbit (Z.lxor bw (wlnot W (shl_ones W j))) k = (j <=? k) && Z.testbit bw k.
Proof.
  intros HW Hw Hne. cbn zeta. set (w := wlnot W bw).
  assert (Hw0 : 0 <= w) by (apply wlnot_nonneg; [lia|exact (proj1 Hw)]).
  assert (Hwn : w <> 0).
  { intros E. apply Hne. apply Z.bits_inj'. intros k Hk. rewrite ones_testbit by lia.
    assert (B : Z.testbit w k = false) by (rewrite E; apply Z.testbit_0_l). unfold w in B. rewrite wlnot_bit in B by lia.
    destruct (Z.ltb_spec k W).
    - destruct (Z.testbit bw k); [reflexivity|discriminate].
    - apply (word_ok_testbit_high W bw k); [lia|exact Hw|lia]. }
  destruct (ctz_spec w ltac:(lia)) as (J0 & J1 & J2). set (j := ctz w) in *.
  assert (JW : j < W).
  { destruct (Z.ltb_spec j W) as [|Hge]; [assumption|]. unfold w in J1. rewrite wlnot_bit in J1 by lia.
    rewrite (word_ok_testbit_high W bw j) in J1 by (try lia; exact Hw). destruct (Z.ltb_spec j W); [lia|discriminate]. }
  assert (Bj : Z.testbit bw j = false).
  { unfold w in J1. rewrite wlnot_bit in J1 by lia. destruct (Z.ltb_spec j W); [|lia]. destruct (Z.testbit bw j); [discriminate|reflexivity]. }
  assert (Bl : forall k, 0 <= k < j -> Z.testbit bw k = true).
  { intros k Hk. pose proof (J2 k Hk) as B. unfold w in B. rewrite wlnot_bit in B by lia. destruct (Z.ltb_spec k W); [|lia].
    destruct (Z.testbit bw k); [reflexivity|discriminate]. }
  assert (Bits : forall k, 0 <= k -> Z.testbit (Z.lxor bw (wlnot W (shl_ones W j))) k = (k <? W) && (j <=? k) && Z.testbit bw k).
  { intros k Hk. rewrite Z.lxor_spec, wlnot_bit, shl_ones_bit by lia. destruct (Z.ltb_spec k W).
    - cbn [andb]. destruct (Z.leb_spec j k).
      + cbn [andb xorb]. destruct (Z.testbit bw k); reflexivity.
      + rewrite (Bl k) by lia. reflexivity.
    - cbn [andb xorb]. rewrite (word_ok_testbit_high W bw k) by (try lia; exact Hw). reflexivity. }
  split; [lia|]. split; [exact Bj|]. split; [exact Bl|]. split.
  - apply word_ok_of_bits; [lia| |].
    + apply Z.lxor_nonneg. split; intros _; [|exact (proj1 Hw)]. apply wlnot_nonneg; [lia|]. unfold shl_ones. apply Z.mod_pos_bound. apply Z.pow_pos_nonneg; lia.
    + intros k Hk. rewrite Bits by lia. destruct (Z.ltb_spec k W); [lia|reflexivity].
  - intros k Hk. rewrite Bits by lia. destruct (Z.ltb_spec k W); [|lia]. reflexivity.
Qed.

Section Compose.
Variables (W : Z) (b : bool) (ws : list Z).
Hypothesis HW : 0 < W.
Let M (p : Z) : Z := mword W b ws p.
Hypothesis HM : forall p, word_ok W (M p).

(* every position W*p+k of [lo, hi) holds the value v *)
Definition run (lo hi : Z) (v : bool) : Prop := forall p k, 0 <= k < W -> lo <= W * p + k < hi -> Z.testbit (M p) k = v.

(* iterator invariant with cursor c: index and pointer agree, and the iterator word holds exactly the bits of its word of M at
   or above the cursor *)
Definition Inv (it : riter) (c : Z) : Prop :=
  ri_idx it = W * ri_ptr it /\ ri_idx it <= c <= ri_idx it + W /\ word_ok W (ri_word it) /\
  forall k, 0 <= k < W -> Z.testbit (ri_word it) k = (c - ri_idx it <=? k) && Z.testbit (M (ri_ptr it)) k.

Lemma run_app lo mid hi v : run lo mid v -> run mid hi v -> run lo hi v.
Proof. intros A B p k Hk Hr. destruct (Z.lt_ge_cases (W * p + k) mid); [apply A|apply B]; lia. Qed.

Lemma word_of_pos p q k : 0 <= k < W -> W * q <= W * p + k < W * q + W -> p = q.
Proof. intros Hk H. nia. Qed.

Lemma skip_inv fuel it c it1 : Inv it c -> ri_skip fuel W b ws it = Some it1 ->
  exists c1, Inv it1 c1 /\ c <= c1 /\ run c c1 false /\ ri_word it1 <> 0 /\ ri_end it1 = ri_end it.
Proof.
  intros (I1 & I2 & I3 & I4) H. destruct (ri_skip_spec W b ws fuel it it1 H) as (N0 & Ee & k & K0 & K1 & K2 & K3 & K4 & K5).
  destruct (Z.eq_dec k 0) as [E|E].
  - rewrite (K3 E). exists c. split; [split; [exact I1|split; [exact I2|split; [exact I3|exact I4]]]|]. split; [lia|].
    split; [intros p q Hq Hr; lia|]. split; [rewrite <- (K3 E); exact N0|reflexivity].
  - destruct (K4 ltac:(lia)) as (W0 & W1 & W2). exists (ri_idx it1). split.
    + split; [rewrite K1, K2, I1; ring|]. split; [lia|]. split; [rewrite W1; apply HM|].
      intros q Hq. rewrite W1, K2. replace (ri_idx it1 - ri_idx it1) with 0 by ring. destruct (Z.leb_spec 0 q); [reflexivity|lia].
    + split; [rewrite K1; nia|]. split; [|split; [exact N0|exact Ee]].
      intros p q Hq Hr. rewrite K1, I1 in Hr.
      assert (Hp : ri_ptr it <= p < ri_ptr it + k) by nia.
      destruct (Z.eq_dec p (ri_ptr it)) as [->|Hne].
      * pose proof (I4 q Hq) as B. rewrite W0, Z.testbit_0_l in B. destruct (Z.leb_spec (c - ri_idx it) q); [|lia].
        cbn [andb] in B. symmetry. exact B.
      * replace p with (ri_ptr it + (p - ri_ptr it)) by ring. fold (M (ri_ptr it + (p - ri_ptr it))).
        unfold M. rewrite (K5 (p - ri_ptr it)) by lia. apply Z.testbit_0_l.
Qed.

Lemma inv_zero p0 en : Inv (mkri p0 (W * p0) en 0) (W * p0 + W).
Proof.
  unfold Inv. cbn [ri_idx ri_ptr ri_word]. split; [reflexivity|]. split; [lia|]. split; [split; [lia|apply Z.pow_pos_nonneg; lia]|].
  intros k Hk. rewrite Z.testbit_0_l. destruct (Z.leb_spec (W * p0 + W - W * p0) k); [lia|reflexivity].
Qed.

(* ONE CALL of next_range, every word width.  From an iterator with cursor c the call reports [s, e) such that, with e0 the end
   before clipping at `end`: no position of [c, s) holds b, every position of [s, e0) holds b, e = min e0 end, and the iterator
   is left (1) with cursor e0 where position e0 does not hold b (the run is maximal), or (2) with cursor e0 at a word boundary and
   an empty word (the run was cut by the hint), or (3) finished: empty word and index at or past end. *)
Theorem next_inv it c hint s e it' : Inv it c -> ri_next W b ws it hint = Some (s, e, it') ->
  exists e0, c <= s < e0 /\ run c s false /\ run s e0 true /\ e = Z.min e0 (ri_end it) /\ ri_end it' = ri_end it /\
   ((Inv it' e0 /\ exists p k, 0 <= k < W /\ e0 = W * p + k /\ Z.testbit (M p) k = false)
    \/ (Inv it' e0 /\ ri_word it' = 0)
    \/ (ri_word it' = 0 /\ ri_idx it' >= ri_end it' /\ e0 >= ri_end it)).
Proof.
  intros HI H. unfold ri_next in H.
  destruct (ri_skip (S (length ws)) W b ws it) as [it1|] eqn:Hs; [|discriminate].
  destruct (skip_inv _ it c it1 HI Hs) as (c1 & (J1 & J2 & J3 & J4) & Hc & Hrun & Hn0 & He).
  pose proof (range_word_run W (ri_word it1) HW J3 Hn0) as R. cbn zeta in R.
  set (i := ctz (ri_word it1)) in *. set (bw := wlnot W (Z.lxor (ri_word it1) (wlnot W (shl_ones W i)))) in *.
  destruct R as (R1 & R2 & R3 & R4 & R5 & R6).
  set (p1 := ri_ptr it1) in *. set (x1 := ri_idx it1) in *.
  assert (Mi : c1 - x1 <= i /\ Z.testbit (M p1) i = true).
  { pose proof (J4 i R1) as B. rewrite R2 in B. symmetry in B. apply andb_true_iff in B. destruct B as [B1 B2]. apply Z.leb_le in B1. split; assumption. }
  assert (Mlow : forall k, 0 <= k -> c1 - x1 <= k < i -> Z.testbit (M p1) k = false).
  { intros k Hk0 Hk. pose proof (J4 k ltac:(lia)) as B. rewrite (R3 k) in B by lia. destruct (Z.leb_spec (c1 - x1) k); [|lia]. cbn [andb] in B. symmetry. exact B. }
  assert (Rlow : run c (x1 + i) false).
  { apply (run_app c c1); [exact Hrun|]. intros p k Hk Hr. assert (p = p1) by (apply (word_of_pos p p1 k Hk); lia). subst p. apply Mlow; lia. }
  destruct (Z.eqb_spec bw 0) as [B0|B0].
  - destruct (ri_extend (S (length ws)) W b ws (mkri p1 x1 (ri_end it1) 0) (x1 + i) (Z.min (x1 + W) (ri_end it1)) hint) as [it2 rend'] eqn:Hx.
    injection H as Hs1 Hs2 Hs3. subst s e it'.
    destruct (ri_extend_spec W b ws _ _ _ _ _ _ _ Hx) as (Ee & k & K0 & KF & KD). cbn [ri_ptr ri_idx ri_end ri_word] in *. cbn zeta in KD.
    assert (Mhigh : forall q, i <= q < W -> Z.testbit (M p1) q = true).
    { intros q Hq. pose proof (J4 q ltac:(lia)) as B. rewrite (proj1 R5 B0 q Hq) in B. symmetry in B. apply andb_true_iff in B. exact (proj2 B). }
    assert (Rfull : run (x1 + i) (x1 + W * k + W) true).
    { intros p q Hq Hr. assert (Hp : p1 <= p <= p1 + k) by nia. destruct (Z.eq_dec p p1) as [->|Hne].
      - apply Mhigh. lia.
      - destruct (KF (p - p1) ltac:(lia)) as [A _]. replace (p1 + (p - p1)) with p in A by ring. fold (M p) in A. rewrite A.
        rewrite ones_testbit by lia. destruct (Z.ltb_spec q W); [reflexivity|lia]. }
    assert (Hrk : (if k =? 0 then Z.min (x1 + W) (ri_end it1) else Z.min (x1 + W * k + W) (ri_end it1)) = Z.min (x1 + W * k + W) (ri_end it)).
    { rewrite He. destruct (Z.eqb_spec k 0) as [->|_]; [f_equal; ring|reflexivity]. }
    destruct KD as [(A & B)|[(A & B & C)|(A & B & C & D)]].
    + exists (x1 + W * k + W). split; [nia|]. split; [exact Rlow|]. split; [exact Rfull|]. split; [rewrite B; exact Hrk|]. split; [rewrite Ee; exact He|].
      right. left. assert (E2 : it2 = mkri (p1 + k) (W * (p1 + k)) (ri_end it1) 0).
      { rewrite A. destruct (Z.eqb_spec k 0) as [->|_]; f_equal; lia. }
      rewrite E2. split; [|reflexivity]. replace (x1 + W * k + W) with (W * (p1 + k) + W) by lia. apply inv_zero.
    + exists (x1 + W * k + W). split; [nia|]. split; [exact Rlow|]. split; [exact Rfull|]. split; [rewrite C; exact Hrk|]. split; [rewrite Ee; exact He|].
      right. right. rewrite B. cbn [ri_word ri_idx ri_end]. split; [destruct (k =? 0); reflexivity|]. split; [lia|lia].
    + rename C into D1. rename D into D2.
      pose proof (first_zero W (mword W b ws (p1 + k + 1)) HW (HM (p1 + k + 1)) B) as F. cbn zeta in F.
      set (j2 := ctz (wlnot W (mword W b ws (p1 + k + 1)))) in *. destruct F as (F1 & F2 & F3 & F4 & F5).
      exists (x1 + W * k + W + j2). split; [nia|]. split; [exact Rlow|]. split.
      { apply (run_app _ (x1 + W * k + W)); [exact Rfull|]. intros p q Hq Hr.
        assert (p = p1 + k + 1) by (apply (word_of_pos p (p1 + k + 1) q Hq); lia). subst p. apply F3. lia. }
      split; [rewrite D2, He; reflexivity|]. split; [rewrite Ee; exact He|].
      left. rewrite D1. split.
      * unfold Inv. cbn [ri_idx ri_ptr ri_word]. split; [lia|]. split; [lia|]. split; [exact F4|].
        intros q Hq. rewrite (F5 q Hq). replace (x1 + W * k + W + j2 - (x1 + W * k + W)) with j2 by ring. reflexivity.
      * exists (p1 + k + 1), j2. split; [exact F1|]. split; [lia|exact F2].
  - injection H as Hs1 Hs2 Hs3. subst s e it'. specialize (R6 B0). cbn zeta in R6. set (j := ctz bw) in *.
    destruct R6 as (S1 & S2 & S3 & S4 & S5).
    exists (x1 + j). split; [lia|]. split; [exact Rlow|]. split.
    { intros p q Hq Hr. assert (p = p1) by (apply (word_of_pos p p1 q Hq); lia). subst p.
      pose proof (J4 q Hq) as Bq. rewrite (S2 q) in Bq by lia. symmetry in Bq. apply andb_true_iff in Bq. exact (proj2 Bq). }
    split; [rewrite He; reflexivity|]. split; [exact He|].
    left. split.
    + unfold Inv. cbn [ri_idx ri_ptr ri_word]. split; [exact J1|]. split; [lia|]. split; [exact S4|].
      intros q Hq. rewrite (S5 q) by lia. rewrite (J4 q Hq). replace (x1 + j - x1) with j by ring.
      destruct (Z.leb_spec j q); [|reflexivity]. destruct (Z.leb_spec (c1 - x1) q); [reflexivity|lia].
    + exists p1, j. split; [lia|]. split; [lia|]. pose proof (J4 j ltac:(lia)) as Bj. rewrite S3 in Bj.
      destruct (Z.leb_spec (c1 - x1) j); [|lia]. cbn [andb] in Bj. symmetry. exact Bj.
Qed.

(* init(start, end) establishes the invariant with cursor = start (when its first word starts before end) *)
Lemma init_inv start end_ : 0 <= start -> (start / W) * W < end_ -> Inv (ri_init W b ws start end_) start.
Proof.
  intros H0 Hlt. unfold ri_init, Inv. cbn [ri_idx ri_ptr ri_word].
  assert (Ep : start / W * W / W = start / W) by (apply Z.div_mul; lia). rewrite Ep.
  destruct (Z.ltb_spec (start / W * W) end_) as [_|]; [|lia].
  pose proof (Z.div_mod start W ltac:(lia)) as Hdm. pose proof (Z.mod_pos_bound start W HW) as Hmb.
  split; [ring|]. split; [lia|]. fold (mword W b ws (start / W)). fold (M (start / W)).
  assert (Bits : forall k, 0 <= k -> Z.testbit (Z.land (M (start / W)) (shl_ones W (start mod W))) k = Z.testbit (M (start / W)) k && ((k <? W) && (start mod W <=? k))).
  { intros k Hk. rewrite Z.land_spec, shl_ones_bit by lia. reflexivity. }
  split.
  - apply word_ok_of_bits; [lia| |].
    + apply Z.land_nonneg. left. exact (proj1 (HM _)).
    + intros k Hk. rewrite Bits by lia. destruct (Z.ltb_spec k W); [lia|]. cbn [andb]. apply andb_false_r.
  - intros k Hk. rewrite Bits by lia. replace (start - start / W * W) with (start mod W) by lia.
    destruct (Z.ltb_spec k W); [|lia]. cbn [andb]. apply andb_comm.
Qed.

(* a finished iterator answers false *)
Lemma next_finished it hint : ri_word it = 0 -> ri_idx it >= ri_end it -> ri_next W b ws it hint = None.
Proof.
  intros H0 He. unfold ri_next. cbn [ri_skip]. rewrite H0. cbn [Z.eqb].
  destruct (Z.geb_spec (ri_idx it + W) (ri_end it)); [reflexivity|lia].
Qed.

(* ALL the ranges of one iteration: they come in increasing order; between the cursor and a range start no position holds b;
   every position of a range (before clipping at end) holds b; the next search starts where the unclipped range ended *)
Fixpoint chain (c en : Z) (rs : list (Z * Z)) : Prop :=
  match rs with
  | [] => True
  | (s, e) :: r => exists e0, c <= s < e0 /\ run c s false /\ run s e0 true /\ e = Z.min e0 en /\ chain e0 en r
  end.

Theorem ri_all_chain hint : forall fuel it c, Inv it c -> chain c (ri_end it) (ri_all fuel W b ws it hint).
Proof.
  induction fuel as [|f IH]; intros it c HI; cbn [ri_all]; [exact I|].
  destruct (ri_next W b ws it hint) as [[[s e] it']|] eqn:Hn; [|exact I].
  destruct (next_inv it c hint s e it' HI Hn) as (e0 & H1 & H2 & H3 & H4 & H5 & H6). cbn [chain].
  exists e0. split; [exact H1|]. split; [exact H2|]. split; [exact H3|]. split; [exact H4|]. rewrite <- H5.
  destruct H6 as [(I' & _)|[(I' & _)|(Z0 & Ze & _)]]; [apply IH; exact I'|apply IH; exact I'|].
  destruct f as [|f']; cbn [ri_all]; [exact I|]. rewrite (next_finished it' hint Z0 Ze). exact I.
Qed.

Theorem ranges_chain start end_ hint : 0 <= start -> (start / W) * W < end_ -> chain start end_ (ranges W b ws start end_ hint).
Proof. intros H0 Hlt. unfold ranges. exact (ri_all_chain hint _ _ start (init_inv start end_ H0 Hlt)). Qed.

(* the answer false: the skip loop ran to the end over empty words only (fuel: one step per word up to end) *)
Lemma skip_none : forall fuel it, ri_skip (S fuel) W b ws it = None -> ri_end it <= ri_idx it + W + W * Z.of_nat fuel ->
  ri_word it = 0 /\ forall j, 0 < j -> ri_idx it + W * j < ri_end it -> M (ri_ptr it + j) = 0.
Proof.
  induction fuel as [|f IH]; intros it H Hf.
  - cbn [ri_skip] in H. destruct (Z.eqb_spec (ri_word it) 0) as [E0|E0]; [|discriminate]. split; [exact E0|]. intros j Hj Hlt. nia.
  - remember (S f) as f1 eqn:Ef. cbn [ri_skip] in H. destruct (Z.eqb_spec (ri_word it) 0) as [E0|E0]; [|discriminate]. split; [exact E0|].
    destruct (Z.geb_spec (ri_idx it + W) (ri_end it)) as [Hge|Hlt]; [intros j Hj Hl; nia|].
    subst f1. destruct (IH _ H) as [Z1 Z2]; [cbn [ri_idx ri_end]; lia|]. cbn [ri_word ri_idx ri_ptr ri_end] in Z1, Z2.
    intros j Hj Hl. destruct (Z.eq_dec j 1) as [->|Hne]; [exact Z1|].
    replace (ri_ptr it + j) with (ri_ptr it + 1 + (j - 1)) by ring. apply Z2; [lia|]. replace (W * (j - 1)) with (W * j - W) by ring. lia.
Qed.

Theorem next_none it c hint : Inv it c -> 0 <= ri_ptr it -> ri_end it <= W * zlen ws -> ri_next W b ws it hint = None ->
  run c (ri_end it) false.
Proof.
  intros (I1 & I2 & I3 & I4) Hp He H. unfold ri_next in H.
  destruct (ri_skip (S (length ws)) W b ws it) as [it1|] eqn:Hs.
  { destruct (_ =? 0) in H; [destruct (ri_extend _ _ _ _ _ _ _ _) in H|]; discriminate. }
  destruct (skip_none _ it Hs) as [Z1 Z2]; [unfold zlen in He; nia|].
  intros p k Hk Hr. rewrite I1 in *. assert (Hpp : ri_ptr it <= p) by nia.
  destruct (Z.eq_dec p (ri_ptr it)) as [->|Hne].
  - pose proof (I4 k Hk) as B. rewrite Z1, Z.testbit_0_l in B. destruct (Z.leb_spec (c - W * ri_ptr it) k); [|lia]. cbn [andb] in B. symmetry. exact B.
  - replace p with (ri_ptr it + (p - ri_ptr it)) by ring. rewrite Z2; [apply Z.testbit_0_l|lia|]. nia.
Qed.

(* a call that answers true never moves the word pointer backwards *)
Lemma next_ptr it hint s e it' : ri_next W b ws it hint = Some (s, e, it') -> ri_ptr it <= ri_ptr it'.
Proof.
  intros H. unfold ri_next in H.
  destruct (ri_skip (S (length ws)) W b ws it) as [it1|] eqn:Hs; [|discriminate].
  destruct (ri_skip_spec W b ws _ it it1 Hs) as (_ & _ & k & K0 & _ & K2 & _).
  destruct (_ =? 0) in H.
  - destruct (ri_extend _ _ _ _ _ _ _ _) as [it2 rend'] eqn:Hx. injection H as _ _ H3. subst it'.
    destruct (ri_extend_spec W b ws _ _ _ _ _ _ _ Hx) as (_ & k2 & K20 & _ & KD). cbn [ri_ptr ri_idx ri_end ri_word] in KD. cbn zeta in KD.
    destruct KD as [(A & _)|[(_ & A & _)|(_ & _ & A & _)]]; rewrite A.
    + destruct (k2 =? 0); cbn [ri_ptr]; lia.
    + cbn [ri_ptr]. lia.
    + cbn [ri_ptr]. lia.
  - injection H as _ _ H3. subst it'. cbn [ri_ptr]. lia.
Qed.

(* the WHOLE iteration, complete: as `chain`, and after the last range no position up to end holds b.  The fuel of `ranges`
   (one unit per position of the vector, plus one) always suffices because every call moves the cursor forward. *)
Fixpoint chainc (c en : Z) (rs : list (Z * Z)) : Prop :=
  match rs with
  | [] => run c en false
  | (s, e) :: r => exists e0, c <= s < e0 /\ run c s false /\ run s e0 true /\ e = Z.min e0 en /\ chainc e0 en r
  end.

Theorem ri_all_complete hint : forall fuel it c, Inv it c -> 0 <= ri_ptr it -> ri_end it <= W * zlen ws ->
  W * zlen ws - c < Z.of_nat fuel -> chainc c (ri_end it) (ri_all fuel W b ws it hint).
Proof.
  induction fuel as [|f IH]; intros it c HI Hp He Hf; cbn [ri_all].
  - cbn [chainc]. intros p k Hk Hr. lia.
  - destruct (ri_next W b ws it hint) as [[[s e] it']|] eqn:Hn.
    2:{ cbn [chainc]. exact (next_none it c hint HI Hp He Hn). }
    destruct (next_inv it c hint s e it' HI Hn) as (e0 & H1 & H2 & H3 & H4 & H5 & H6). pose proof (next_ptr it hint s e it' Hn) as Hpp.
    cbn [chainc]. exists e0. split; [exact H1|]. split; [exact H2|]. split; [exact H3|]. split; [exact H4|]. rewrite <- H5.
    destruct H6 as [(I' & _)|[(I' & _)|(Z0 & Ze & Zb)]]; [apply IH; [exact I'|lia|rewrite H5; exact He|lia]|apply IH; [exact I'|lia|rewrite H5; exact He|lia]|].
    destruct f as [|f']; cbn [ri_all]; [|rewrite (next_finished it' hint Z0 Ze)]; cbn [chainc]; intros p k Hk Hr; lia.
Qed.

Theorem ranges_complete start end_ hint : 0 <= start -> (start / W) * W < end_ -> end_ <= W * zlen ws ->
  chainc start end_ (ranges W b ws start end_ hint).
Proof.
  intros H0 Hlt He. unfold ranges. apply (ri_all_complete hint _ _ start (init_inv start end_ H0 Hlt)).
  - unfold ri_init. cbn [ri_ptr]. apply Z.div_pos; [|lia]. apply Z.mul_nonneg_nonneg; [apply Z.div_pos; lia|lia].
  - exact He.
  - assert (0 <= W * zlen ws) by (apply Z.mul_nonneg_nonneg; [lia|apply zlen_nonneg]). rewrite Nat2Z.inj_succ, Z2Nat.id by exact H. lia.
Qed.
End Compose.

(* the words the iterator looks at are W-bit values when the vector's words are *)
Lemma mword_ok W (b : bool) ws : 0 < W -> words_ok W ws -> forall p, word_ok W (mword W b ws p).
Proof.
  intros HW Hws p. unfold mword. pose proof (nthw_ok W ws p ltac:(lia) Hws) as Hx. destruct b; cbn [xor_mask].
  - rewrite Z.lxor_0_r. exact Hx.
  - change (Z.lxor (nthw ws p) (Z.ones W)) with (wlnot W (nthw ws p)). apply word_ok_of_bits; [lia| |].
    + apply wlnot_nonneg; [lia|exact (proj1 Hx)].
    + intros j Hj. rewrite wlnot_bit by lia. rewrite (word_ok_testbit_high W _ j) by (try lia; exact Hx). destruct (Z.ltb_spec j W); [lia|reflexivity].
Qed.

Theorem ranges_sound W (b : bool) ws start end_ hint : 0 < W -> words_ok W ws -> 0 <= start -> (start / W) * W < end_ ->
  chain W b ws start end_ (ranges W b ws start end_ hint).
Proof. intros HW Hws H0 Hlt. apply ranges_chain; [exact HW|apply mword_ok; assumption|exact H0|exact Hlt]. Qed.

Theorem ranges_sound_complete W (b : bool) ws start end_ hint : 0 < W -> words_ok W ws -> 0 <= start -> (start / W) * W < end_ ->
  end_ <= W * zlen ws -> chainc W b ws start end_ (ranges W b ws start end_ hint).
Proof. intros HW Hws H0 Hlt He. apply ranges_complete; [exact HW|apply mword_ok; assumption|exact H0|exact Hlt|exact He]. Qed.

(* C18 (5), round 6 — ArenaBitSet over ANY SEQUENCE of its in-place operations (set_bit, clear_all, fill_all, truncate, resize to a
   smaller size): the representation invariant is kept and the bits always equal the textbook bit function obtained by the same
   updates; preconditions are stated on the textbook size only.  (The allocating operations - resize growing, append,
   copy_from - and the binary operations have their own per-operation theorems.) *)
From Coq Require Import ZArith List Bool Lia.
From Verif Require Import Containers.ArenaModel Containers.ArenaProofs Containers.VecModel Containers.BitVecModel
  Containers.BitSetModel Containers.BitSetProofs.
Import ListNotations.
Local Open Scope Z_scope.

Inductive bsop := BsSet (i : Z) (v : bool) | BsClearAll | BsFillAll | BsTrunc (n : Z) | BsShrink (n : Z).

Definition bsstep (b : bitset) (o : bsop) : bitset :=
  match o with
  | BsSet i v => bs_set_bit b i v
  | BsClearAll => bs_clear_all b
  | BsFillAll => bs_fill_all b
  | BsTrunc n => bs_truncate b n
  | BsShrink n => snd (bs_resize (fun _ => true) (arena_init 1024 0) b n n false)
  end.

(* the textbook: a size and a bit function *)
Definition bstate := (Z * (Z -> bool))%type.
Definition bstext (s : bstate) (o : bsop) : bstate :=
  let '(n, f) := s in
  match o with
  | BsSet i v => (n, fun j => if j =? i then v else f j)
  | BsClearAll => (n, fun _ => false)
  | BsFillAll => (n, fun _ => true)
  | BsTrunc m => (Z.min n m, f)
  | BsShrink m => (m, f)
  end.
Definition bspre (s : bstate) (o : bsop) : Prop :=
  match o with BsSet i _ => 0 <= i < fst s | BsClearAll | BsFillAll => True | BsTrunc m => 0 <= m | BsShrink m => 0 <= m <= fst s end.

Definition BAbs (b : bitset) (s : bstate) : Prop := b_size b = fst s /\ forall j, 0 <= j < fst s -> bs_bit b j = snd s j.

Lemma shrink_indep mok a mok' a' b n i v : 0 <= n <= b_size b -> snd (bs_resize mok a b n i v) = snd (bs_resize mok' a' b n i v).
Proof. intros H. unfold bs_resize. destruct (Z.leb_spec n (b_size b)); [reflexivity|lia]. Qed.

Theorem bitset_step a b s o : bs_inv a b -> BAbs b s -> bspre s o -> bs_inv a (bsstep b o) /\ BAbs (bsstep b o) (bstext s o).
Proof.
  intros HI [Hn Hf] Hp. destruct s as [n f]. cbn [fst snd] in *. destruct o as [i v| | |m|m]; cbn [bsstep bstext bspre fst snd] in *.
  - destruct (bs_set_bit_sound a b i v HI ltac:(lia)) as (A & B & C). split; [exact A|]. split; [cbn [fst]; lia|]. cbn [fst snd].
    intros j Hj. rewrite C by lia. destruct (j =? i); [reflexivity|apply Hf; exact Hj].
  - destruct (bs_clear_all_sound a b HI) as (A & B & C). split; [exact A|]. split; [cbn [fst]; lia|]. cbn [fst snd]. intros j Hj. apply C. lia.
  - destruct (bs_fill_all_sound a b HI) as (A & B & C). split; [exact A|]. split; [cbn [fst]; lia|]. cbn [fst snd]. intros j Hj. apply C. lia.
  - destruct (bs_truncate_sound a b m HI Hp) as (A & B & C). split; [exact A|]. split; [cbn [fst]; lia|]. cbn [fst snd].
    intros j Hj. rewrite C by lia. apply Hf. lia.
  - pose proof (bs_resize_shrink_sound (fun _ => true) a b m m false HI ltac:(lia)) as H.
    rewrite (shrink_indep (fun _ => true) (arena_init 1024 0) (fun _ => true) a b m m false ltac:(lia)).
    destruct (bs_resize (fun _ : Z => true) a b m m false) as [[e a'] b']. cbn [snd].
    destruct H as (_ & _ & A & B & _ & _ & C). split; [exact A|]. split; [cbn [fst]; exact B|]. cbn [fst snd].
    intros j Hj. rewrite C by lia. apply Hf. lia.
Qed.

Fixpoint bspres (s : bstate) (ops : list bsop) : Prop := match ops with [] => True | o :: r => bspre s o /\ bspres (bstext s o) r end.

Theorem bitset_any_sequence a : forall ops b s, bs_inv a b -> BAbs b s -> bspres s ops ->
  bs_inv a (fold_left bsstep ops b) /\ BAbs (fold_left bsstep ops b) (fold_left bstext ops s).
Proof.
  induction ops as [|o r IH]; intros b s HI HA Hp; cbn [fold_left bspres] in *; [split; assumption|].
  destruct Hp as [P Pr]. destruct (bitset_step a b s o HI HA P) as [HI' HA']. apply IH; assumption.
Qed.

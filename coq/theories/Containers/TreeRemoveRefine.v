(* C18 (6) — the node-heap loop of ArenaTree::remove (TreeModel.remove_loop, variables g, p, q, f, gf, dir as in the C++)
   computes the abstract top-down removal of TreeRemoveAbs.v, iteration by iteration, under the path representation of
   TreeInsertRefine.v; then the unlink of q and the re-link of q in the place of the found node. *)
From Coq Require Import ZArith List Bool Lia Permutation.
From Verif Require Import Containers.TreeModel Containers.TreeGeneral Containers.TreeRotate Containers.TreeRecolor
  Containers.TreeInsertAbs Containers.TreeInsertRefine Containers.TreeRemoveAbs.
Import ListNotations.
Local Open Scope Z_scope.

(* ------------------------------------------------------------------ recolouring a node anywhere in path + focus *)
Definition frecolor (f : frame) (x : Z) (c : bool) : frame :=
  mkf (f_dir f) (f_id f) (if f_id f =? x then c else f_red f) (f_key f) (recolor (f_sib f) x c).
Definition zrecolor (zs : list frame) (x : Z) (c : bool) : list frame := map (fun f => frecolor f x c) zs.

Lemma recolor_fill f X x c : recolor (fill f X) x c = fill (frecolor f x c) (recolor X x c).
Proof. unfold fill, frecolor. cbn [f_dir f_id f_red f_key f_sib]. destruct (f_dir f); reflexivity. Qed.

Lemma child_set_red h x c i d : child (set_red h x c) i d = child h i d.
Proof.
  unfold child. destruct (Z.eq_dec i x) as [->|Hne].
  - destruct (Z_lt_le_dec 0 x).
    + rewrite hget_set_red_same by assumption. destruct d; reflexivity.
    + unfold set_red, hset. destruct x; try lia; reflexivity.
  - rewrite hget_set_red_other by assumption. reflexivity.
Qed.

Lemma key_set_red h x c i : key (set_red h x c) i = key h i.
Proof.
  unfold key. destruct (Z.eq_dec i x) as [->|Hne].
  - destruct (Z_lt_le_dec 0 x).
    + rewrite hget_set_red_same by assumption. reflexivity.
    + unfold set_red, hset. destruct x; try lia; reflexivity.
  - rewrite hget_set_red_other by assumption. reflexivity.
Qed.

Lemma is_red_set_red h x c i : 0 < x -> i <> 0 -> is_red (set_red h x c) i = if i =? x then c else is_red h i.
Proof.
  intros Hx Hi. unfold is_red. destruct (Z.eqb_spec i 0); [contradiction|].
  destruct (Z.eqb_spec i x) as [->|Hne]; [rewrite hget_set_red_same by assumption; reflexivity|rewrite hget_set_red_other by assumption; reflexivity].
Qed.

Lemma repz_set_red h x c : 0 < x -> x <> HEAD -> forall zs n, repz h zs n -> repz (set_red h x c) (zrecolor zs x c) n.
Proof.
  intros Hx Hh. induction zs as [|f zs IH]; intros n Hr; cbn [repz zrecolor map] in *.
  - rewrite child_set_red. exact Hr.
  - destruct Hr as (H0 & H1 & H2 & H3 & H4 & H5). cbn [frecolor f_dir f_id f_red f_key f_sib].
    split; [exact H0|]. split; [rewrite is_red_set_red by assumption; rewrite H1; reflexivity|].
    split; [rewrite key_set_red; exact H2|]. split; [rewrite child_set_red; exact H3|].
    split; [rewrite child_set_red; apply set_red_rep; assumption|apply IH; exact H5].
Qed.

Lemma zrecolor_notin zs x c : ~ In x (zids zs) -> zrecolor zs x c = zs.
Proof.
  induction zs as [|f zs IH]; intros H; cbn [zrecolor map]; [reflexivity|].
  assert (H1 : ~ In x (zids zs)) by (intros Hc; apply H; apply in_zids_cons; left; exact Hc).
  assert (H2 : x <> f_id f) by (intros ->; apply H; apply in_zids_cons; right; left; reflexivity).
  assert (H3 : ~ In x (bids (f_sib f))) by (intros Hc; apply H; apply in_zids_cons; right; right; exact Hc).
  fold (zrecolor zs x c). rewrite (IH H1). unfold frecolor. rewrite (recolor_notin _ _ _ H3).
  destruct (Z.eqb_spec (f_id f) x); [congruence|]. destruct f; reflexivity.
Qed.

Lemma child_set_child h x d c i d' : 0 < x -> child (set_child h x d c) i d' = if (i =? x) && Bool.eqb d d' then c else child h i d'.
Proof.
  intros Hx. unfold child. destruct (Z.eqb_spec i x) as [->|Hne]; cbn [andb].
  - rewrite hget_set_child_same by exact Hx. destruct d, d'; reflexivity.
  - rewrite hget_set_child_other by exact Hne. reflexivity.
Qed.

Lemma head_left_frame h h' : hget h' HEAD = hget h HEAD -> child h' HEAD false = child h HEAD false.
Proof. unfold child. intros ->. reflexivity. Qed.

(* ------------------------------------------------------------------ direction-agnostic facts about ids of fill *)
Lemma in_bids_fill f X i : In i (bids (fill f X)) <-> i = f_id f \/ In i (bids X) \/ In i (bids (f_sib f)).
Proof. rewrite bids_fill. destruct (f_dir f); rewrite in_app_iff; cbn [In]; intuition. Qed.

Lemma fill_nodup f X : NoDup (bids (fill f X)) ->
  NoDup (bids X) /\ NoDup (bids (f_sib f)) /\ ~ In (f_id f) (bids X) /\ ~ In (f_id f) (bids (f_sib f)) /\
  (forall i, In i (bids X) -> ~ In i (bids (f_sib f))).
Proof.
  rewrite bids_fill. destruct (f_dir f); intros H; destruct (nodup_app_parts _ _ H) as (N1 & N2 & D); apply NoDup_cons_iff in N2; destruct N2 as [N2 N3].
  - split; [exact N3|]. split; [exact N1|]. split; [exact N2|]. split; [intros Hi; apply (D _ Hi); left; reflexivity|].
    intros i Hi Hs. apply (D _ Hs). right. exact Hi.
  - split; [exact N1|]. split; [exact N3|]. split; [intros Hi; apply (D _ Hi); left; reflexivity|]. split; [exact N2|].
    intros i Hi Hs. apply (D _ Hi). right. exact Hs.
Qed.

Lemma frecolor_other f x c : f_id f <> x -> ~ In x (bids (f_sib f)) -> frecolor f x c = f.
Proof.
  intros H1 H2. unfold frecolor. rewrite (recolor_notin _ _ _ H2). destruct (Z.eqb_spec (f_id f) x); [contradiction|]. destruct f; reflexivity.
Qed.
Lemma frecolor_self f c : ~ In (f_id f) (bids (f_sib f)) -> frecolor f (f_id f) c = mkf (f_dir f) (f_id f) c (f_key f) (f_sib f).
Proof. intros H. unfold frecolor. rewrite (recolor_notin _ _ _ H), Z.eqb_refl. reflexivity. Qed.
Lemma frecolor_sib f x c : f_id f <> x -> frecolor f x c = mkf (f_dir f) (f_id f) (f_red f) (f_key f) (recolor (f_sib f) x c).
Proof. intros H. unfold frecolor. destruct (Z.eqb_spec (f_id f) x); [contradiction|]. reflexivity. Qed.

Lemma recolor_root_id t c : NoDup (bids t) -> recolor t (bid t) c = match t with BL => BL | BN l i _ k r => BN l i c k r end.
Proof.
  destruct t as [|l i ci k r]; [reflexivity|]. cbn [bid bids]. intros H. destruct (nodup_app_parts _ _ H) as (_ & N2 & D). apply NoDup_cons_iff in N2.
  apply recolor_root; [intros Hi; apply (D _ Hi); left; reflexivity|tauto].
Qed.

Lemma bid_in t : t <> BL -> In (bid t) (bids t).
Proof. destruct t; [intros H; contradiction|]. intros _. cbn. apply in_or_app. right. left. reflexivity. Qed.

(* ------------------------------------------------------------------ case B, colour flip: p black, s red, q red *)
Lemma set_red3_frame h x1 c1 x2 c2 x3 c3 i : i <> x1 -> i <> x2 -> i <> x3 ->
  hget (set_red (set_red (set_red h x1 c1) x2 c2) x3 c3) i = hget h i.
Proof. intros. rewrite !hget_set_red_other by assumption. reflexivity. Qed.

Lemma caseB_flip_rep h l p cp kp s (cs : bool) sk Sl Snl a q k b :
  let S := fill (mkf l s cs sk Snl) Sl in
  let Ot := fill (mkf l p cp kp S) (BN a q false k b) in
  rep h p Ot -> NoDup (bids Ot) -> (forall i, In i (bids Ot) -> 1 < i) ->
  let h' := set_red (set_red (set_red h p false) s true) q true in
  rep h' p (fill (mkf l p false kp (fill (mkf l s true sk Snl) Sl)) (BN a q true k b)) /\
  (forall i, ~ In i (bids Ot) -> hget h' i = hget h i).
Proof.
  intros S Ot Hr Hn Hp h'.
  destruct (fill_nodup _ _ Hn) as (NC & NS & PC & PS & DCS). cbn [f_id f_sib] in *.
  destruct (fill_nodup _ _ NS) as (NSl & NSnl & SSl & SSnl & DS). cbn [f_id f_sib] in *.
  assert (Hq : In q (bids (BN a q false k b))) by (cbn; apply in_or_app; right; left; reflexivity).
  assert (Hs : In s (bids S)) by (apply in_bids_fill; left; reflexivity).
  assert (Hps : p <> s) by (intros ->; contradiction).
  assert (Hpq : p <> q) by (intros ->; contradiction).
  assert (Hqs : q <> s) by (intros ->; apply (DCS s Hq Hs)).
  assert (Pp : 0 < p) by (assert (1 < p); [apply Hp; apply in_bids_fill; left; reflexivity|lia]).
  assert (Ps : 0 < s) by (assert (1 < s); [apply Hp; apply in_bids_fill; right; right; exact Hs|lia]).
  assert (Pq : 0 < q) by (assert (1 < q); [apply Hp; apply in_bids_fill; right; left; exact Hq|lia]).
  split.
  - pose proof (set_red_rep h p false Pp _ _ Hr) as R1.
    pose proof (set_red_rep _ s true Ps _ _ R1) as R2.
    pose proof (set_red_rep _ q true Pq _ _ R2) as R3. fold h' in R3.
    unfold Ot in R3. rewrite !recolor_fill in R3.
    rewrite (frecolor_self (mkf l p cp kp S)) in R3 by exact PS. cbn [f_dir f_id f_key f_sib] in R3.
    rewrite (recolor_notin (BN a q false k b) p) in R3 by exact PC.
    rewrite (frecolor_sib (mkf l p false kp S) s) in R3 by exact Hps. cbn [f_dir f_id f_red f_key f_sib] in R3.
    unfold S in R3 at 1. rewrite recolor_fill in R3.
    rewrite (frecolor_self (mkf l s cs sk Snl)) in R3 by exact SSnl. cbn [f_dir f_id f_key f_sib] in R3.
    rewrite (recolor_notin Sl s) in R3 by exact SSl.
    rewrite (recolor_notin (BN a q false k b) s) in R3 by (intros Hc; apply (DCS s Hc Hs)).
    rewrite frecolor_other in R3.
    2:{ cbn [f_id]. exact Hpq. }
    2:{ cbn [f_sib]. intros Hc. apply in_bids_fill in Hc. cbn [f_id f_sib] in Hc. destruct Hc as [Hc|[Hc|Hc]]; [contradiction| |].
        - apply (DCS q Hq). apply in_bids_fill. right. left. exact Hc.
        - apply (DCS q Hq). apply in_bids_fill. right. right. exact Hc. }
    cbn [bids] in NC. destruct (nodup_app_parts _ _ NC) as (_ & N2 & D). apply NoDup_cons_iff in N2.
    rewrite recolor_root in R3; [exact R3|intros Hc; apply (D _ Hc); left; reflexivity|tauto].
  - intros i Hi. apply set_red3_frame; intros ->; apply Hi.
    + apply in_bids_fill. left. reflexivity.
    + apply in_bids_fill. right. right. exact Hs.
    + apply in_bids_fill. right. left. exact Hq.
Qed.

(* ------------------------------------------------------------------ case B, recolouring after the rotation at p *)
Lemma recolor_blacken_root t : NoDup (bids t) -> t <> BL -> recolor t (bid t) false = blacken t.
Proof. intros H Hn. rewrite recolor_root_id by exact H. destruct t; [contradiction|reflexivity]. Qed.

Lemma recolor4_single l p kp s sk Sl Snl a q k b x y :
  let Y' := fill (mkf l s false sk Snl) (fill (mkf l p true kp Sl) (BN a q false k b)) in
  (x = p /\ y = bid Snl \/ x = bid Snl /\ y = p) -> NoDup (bids Y') -> Snl <> BL ->
  recolor (recolor (recolor (recolor Y' q true) s true) x false) y false =
  fill (mkf l s true sk (blacken Snl)) (fill (mkf l p false kp Sl) (BN a q true k b)).
Proof.
  intros Y' Hxy Hn HS.
  destruct (fill_nodup _ _ Hn) as (NP & NSnl & PsP & PsSnl & DPS). cbn [f_id f_sib] in *.
  destruct (fill_nodup _ _ NP) as (NC & NSl & PpC & PpSl & DCSl). cbn [f_id f_sib] in *.
  assert (Hq : In q (bids (BN a q false k b))) by (cbn; apply in_or_app; right; left; reflexivity).
  assert (HqP : In q (bids (fill (mkf l p true kp Sl) (BN a q false k b)))) by (apply in_bids_fill; right; left; exact Hq).
  assert (HpP : In p (bids (fill (mkf l p true kp Sl) (BN a q false k b)))) by (apply in_bids_fill; left; reflexivity).
  assert (Hsn : In (bid Snl) (bids Snl)) by (apply bid_in; exact HS).
  assert (Hqs : q <> s) by (intros ->; contradiction).
  assert (Hps : p <> s) by (intros ->; contradiction).
  assert (Hpq : p <> q) by (intros ->; contradiction).
  assert (Hqn : ~ In q (bids Snl)) by (apply DPS; exact HqP).
  assert (Hpn : ~ In p (bids Snl)) by (apply DPS; exact HpP).
  assert (Hnp : bid Snl <> p) by (intros E; apply Hpn; rewrite <- E; exact Hsn).
  assert (Hns : bid Snl <> s) by (intros E; apply PsSnl; rewrite <- E; exact Hsn).
  assert (HnP : ~ In (bid Snl) (bids (fill (mkf l p true kp Sl) (BN a q false k b)))) by (intros Hc; apply (DPS _ Hc Hsn)).
  cbn [bids] in NC. destruct (nodup_app_parts _ _ NC) as (_ & N2 & D). apply NoDup_cons_iff in N2.
  (* q red *)
  unfold Y'. rewrite !recolor_fill.
  rewrite (frecolor_other (mkf l s false sk Snl) q _ ltac:(cbn [f_id]; congruence) ltac:(cbn [f_sib]; exact Hqn)).
  rewrite (frecolor_other (mkf l p true kp Sl) q _ ltac:(cbn [f_id]; exact Hpq) ltac:(cbn [f_sib]; apply DCSl; exact Hq)).
  rewrite (recolor_root a q false k b true) by (try tauto; intros Hc; apply (D _ Hc); left; reflexivity).
  (* s red *)
  rewrite (frecolor_self (mkf l s false sk Snl)) by exact PsSnl. cbn [f_dir f_id f_key f_sib].
  rewrite (frecolor_other (mkf l p true kp Sl) s _ ltac:(cbn [f_id]; exact Hps) ltac:(cbn [f_sib]; intros Hc; apply PsP; apply in_bids_fill; right; right; exact Hc)).
  rewrite (recolor_notin (BN a q true k b) s) by (intros Hc; apply PsP; apply in_bids_fill; right; left; exact Hc).
  assert (Ex : forall T, recolor (recolor T x false) y false = recolor (recolor T p false) (bid Snl) false \/
                         recolor (recolor T x false) y false = recolor (recolor T (bid Snl) false) p false).
  { intros T. destruct Hxy as [[-> ->]|[-> ->]]; [left|right]; reflexivity. }
  assert (Hfin : forall u v, (u = p /\ v = bid Snl \/ u = bid Snl /\ v = p) ->
     recolor (recolor (fill (mkf l s true sk Snl) (fill (mkf l p true kp Sl) (BN a q true k b))) u false) v false =
     fill (mkf l s true sk (blacken Snl)) (fill (mkf l p false kp Sl) (BN a q true k b))).
  { assert (HqC : ~ In p (bids (BN a q true k b))) by exact PpC.
    assert (HnC : ~ In (bid Snl) (bids (BN a q true k b))) by (intros Hc; apply HnP; apply in_bids_fill; right; left; exact Hc).
    assert (HnSl : ~ In (bid Snl) (bids Sl)) by (intros Hc; apply HnP; apply in_bids_fill; right; right; exact Hc).
    intros u v [[-> ->]|[-> ->]]; rewrite !recolor_fill.
    - rewrite (frecolor_other (mkf l s true sk Snl) p _ ltac:(cbn [f_id]; congruence) ltac:(cbn [f_sib]; exact Hpn)).
      rewrite (frecolor_self (mkf l p true kp Sl)) by exact PpSl. cbn [f_dir f_id f_key f_sib].
      rewrite (recolor_notin (BN a q true k b) p) by exact HqC.
      rewrite (frecolor_sib (mkf l s true sk Snl) (bid Snl)) by (cbn [f_id]; congruence). cbn [f_dir f_id f_red f_key f_sib].
      rewrite (recolor_blacken_root Snl NSnl HS).
      rewrite (frecolor_other (mkf l p false kp Sl) (bid Snl) _ ltac:(cbn [f_id]; congruence) ltac:(cbn [f_sib]; exact HnSl)).
      rewrite (recolor_notin (BN a q true k b) (bid Snl)) by exact HnC. reflexivity.
    - rewrite (frecolor_sib (mkf l s true sk Snl) (bid Snl)) by (cbn [f_id]; congruence). cbn [f_dir f_id f_red f_key f_sib].
      rewrite (recolor_blacken_root Snl NSnl HS).
      rewrite (frecolor_other (mkf l p true kp Sl) (bid Snl) _ ltac:(cbn [f_id]; congruence) ltac:(cbn [f_sib]; exact HnSl)).
      rewrite (recolor_notin (BN a q true k b) (bid Snl)) by exact HnC.
      rewrite (frecolor_other (mkf l s true sk (blacken Snl)) p).
      2:{ cbn [f_id]. congruence. }
      2:{ cbn [f_sib]. destruct (blacken_keys Snl) as [_ ->]. exact Hpn. }
      rewrite (frecolor_self (mkf l p true kp Sl)) by exact PpSl. cbn [f_dir f_id f_key f_sib].
      rewrite (recolor_notin (BN a q true k b) p) by exact HqC. reflexivity. }
  rewrite <- !recolor_fill. apply Hfin. exact Hxy.
Qed.

Lemma recolor4_double l p kp s sk Snl i ik Il Inl a q k b x y :
  let Y' := fill (mkf l i false ik (fill (mkf l s true sk Snl) Inl)) (fill (mkf l p true kp Il) (BN a q false k b)) in
  (x = p /\ y = s \/ x = s /\ y = p) -> NoDup (bids Y') ->
  recolor (recolor (recolor (recolor Y' q true) i true) x false) y false =
  fill (mkf l i true ik (fill (mkf l s false sk Snl) Inl)) (fill (mkf l p false kp Il) (BN a q true k b)).
Proof.
  intros Y' Hxy Hn.
  destruct (fill_nodup _ _ Hn) as (NP & NS & PiP & PiS & DPS). cbn [f_id f_sib] in *.
  destruct (fill_nodup _ _ NP) as (NC & NIl & PpC & PpIl & DCIl). cbn [f_id f_sib] in *.
  destruct (fill_nodup _ _ NS) as (NInl & NSnl & PsInl & PsSnl & DIS). cbn [f_id f_sib] in *.
  set (PT := fill (mkf l p true kp Il) (BN a q false k b)) in *.
  set (ST := fill (mkf l s true sk Snl) Inl) in *.
  assert (Hq : In q (bids (BN a q false k b))) by (cbn; apply in_or_app; right; left; reflexivity).
  assert (HqP : In q (bids PT)) by (apply in_bids_fill; right; left; exact Hq).
  assert (HpP : In p (bids PT)) by (apply in_bids_fill; left; reflexivity).
  assert (HsS : In s (bids ST)) by (apply in_bids_fill; left; reflexivity).
  assert (Hqi : q <> i) by (intros ->; contradiction).
  assert (Hpi : p <> i) by (intros ->; contradiction).
  assert (Hsi : s <> i) by (intros ->; contradiction).
  assert (Hpq : p <> q) by (intros ->; contradiction).
  assert (Hps : p <> s) by (intros ->; apply (DPS s HpP HsS)).
  assert (Hqs : q <> s) by (intros ->; apply (DPS s HqP HsS)).
  assert (HqS : ~ In q (bids ST)) by (apply DPS; exact HqP).
  assert (HpS : ~ In p (bids ST)) by (apply DPS; exact HpP).
  assert (HsP : ~ In s (bids PT)) by (intros Hc; apply (DPS s Hc HsS)).
  cbn [bids] in NC. destruct (nodup_app_parts _ _ NC) as (_ & N2 & D). apply NoDup_cons_iff in N2.
  assert (E1 : recolor (recolor Y' q true) i true =
               fill (mkf l i true ik ST) (fill (mkf l p true kp Il) (BN a q true k b))).
  { unfold Y', PT. rewrite !recolor_fill.
    rewrite (frecolor_other (mkf l i false ik ST) q _ ltac:(cbn [f_id]; congruence) ltac:(cbn [f_sib]; exact HqS)).
    rewrite (frecolor_other (mkf l p true kp Il) q _ ltac:(cbn [f_id]; exact Hpq) ltac:(cbn [f_sib]; apply DCIl; exact Hq)).
    rewrite (recolor_root a q false k b true) by (try tauto; intros Hc; apply (D _ Hc); left; reflexivity).
    rewrite (frecolor_self (mkf l i false ik ST)) by exact PiS. cbn [f_dir f_id f_key f_sib].
    rewrite (frecolor_other (mkf l p true kp Il) i _ ltac:(cbn [f_id]; exact Hpi) ltac:(cbn [f_sib]; intros Hc; apply PiP; apply in_bids_fill; right; right; exact Hc)).
    rewrite (recolor_notin (BN a q true k b) i) by (intros Hc; apply PiP; apply in_bids_fill; right; left; exact Hc). reflexivity. }
  rewrite E1.
  assert (HpC : ~ In p (bids (BN a q true k b))) by exact PpC.
  assert (HsC : ~ In s (bids (BN a q true k b))) by (intros Hc; apply HsP; apply in_bids_fill; right; left; exact Hc).
  assert (HsIl : ~ In s (bids Il)) by (intros Hc; apply HsP; apply in_bids_fill; right; right; exact Hc).
  assert (Estp : recolor ST p false = ST) by (apply recolor_notin; exact HpS).
  assert (Ests : recolor ST s false = fill (mkf l s false sk Snl) Inl).
  { unfold ST. rewrite recolor_fill. rewrite (frecolor_self (mkf l s true sk Snl)) by exact PsSnl. cbn [f_dir f_id f_key f_sib].
    rewrite (recolor_notin Inl s) by exact PsInl. reflexivity. }
  assert (HpS' : ~ In p (bids (fill (mkf l s false sk Snl) Inl))).
  { intros Hc. apply HpS. apply in_bids_fill. apply in_bids_fill in Hc. exact Hc. }
  destruct Hxy as [[-> ->]|[-> ->]]; rewrite !recolor_fill.
  - rewrite (frecolor_other (mkf l i true ik ST) p _ ltac:(cbn [f_id]; congruence) ltac:(cbn [f_sib]; exact HpS)).
    rewrite (frecolor_self (mkf l p true kp Il)) by exact PpIl. cbn [f_dir f_id f_key f_sib].
    rewrite (recolor_notin (BN a q true k b) p) by exact HpC.
    rewrite (frecolor_sib (mkf l i true ik ST) s) by (cbn [f_id]; congruence). cbn [f_dir f_id f_red f_key f_sib].
    rewrite Ests.
    rewrite (frecolor_other (mkf l p false kp Il) s _ ltac:(cbn [f_id]; exact Hps) ltac:(cbn [f_sib]; exact HsIl)).
    rewrite (recolor_notin (BN a q true k b) s) by exact HsC. reflexivity.
  - rewrite (frecolor_sib (mkf l i true ik ST) s) by (cbn [f_id]; congruence). cbn [f_dir f_id f_red f_key f_sib].
    rewrite Ests.
    rewrite (frecolor_other (mkf l p true kp Il) s _ ltac:(cbn [f_id]; exact Hps) ltac:(cbn [f_sib]; exact HsIl)).
    rewrite (recolor_notin (BN a q true k b) s) by exact HsC.
    rewrite (frecolor_other (mkf l i true ik (fill (mkf l s false sk Snl) Inl)) p _ ltac:(cbn [f_id]; congruence) ltac:(cbn [f_sib]; exact HpS')).
    rewrite (frecolor_self (mkf l p true kp Il)) by exact PpIl. cbn [f_dir f_id f_key f_sib].
    rewrite (recolor_notin (BN a q true k b) p) by exact HpC. reflexivity.
Qed.

(* ------------------------------------------------------------------ rotations of remove on fill forms *)
Lemma rot_caseA d q cq k X y cy ky Yd Ynd :
  rot (fill (mkf d q cq k (fill (mkf d y cy ky Ynd) Yd)) X) d = Some (fill (mkf d y false ky Ynd) (fill (mkf d q true k Yd) X)).
Proof. unfold fill. cbn [f_dir f_id f_red f_key f_sib]. destruct d; reflexivity. Qed.

Lemma drot_caseB l p cp kp s cs sk Snl i ci ik Il Inl C :
  drot (fill (mkf l p cp kp (fill (mkf l s cs sk Snl) (fill (mkf l i ci ik Inl) Il))) C) l =
  Some (fill (mkf l i false ik (fill (mkf l s true sk Snl) Inl)) (fill (mkf l p true kp Il) C)).
Proof. unfold fill. cbn [f_dir f_id f_red f_key f_sib]. destruct l; reflexivity. Qed.

Lemma rot_caseB_single l p cp kp s cs sk Sl Snl C :
  rot (fill (mkf l p cp kp (fill (mkf l s cs sk Snl) Sl)) C) l = Some (fill (mkf l s false sk Snl) (fill (mkf l p true kp Sl) C)).
Proof. unfold fill. cbn [f_dir f_id f_red f_key f_sib]. destruct l; reflexivity. Qed.

(* which child of p is q *)
Definition pl_ok (zs : list frame) (p : Z) (last : bool) : Prop :=
  match zs with [] => p = HEAD /\ last = true | f :: _ => p = f_id f /\ last = f_dir f end.

Definition pl_dir (zs : list frame) : bool := match zs with [] => true | f :: _ => f_dir f end.
Definition pl_id (zs : list frame) : Z := match zs with [] => HEAD | f :: _ => f_id f end.

Lemma dir_detect h zs q C p last : repz h zs q -> Hyg 0 zs C -> In q (bids C) -> pl_ok zs p last -> (child h p true =? q) = last.
Proof.
  intros Hz Hy Hq Hp. destruct zs as [|f zs]; cbn [pl_ok] in Hp; destruct Hp as [-> ->].
  - cbn [repz] in Hz. rewrite Hz. apply Z.eqb_refl.
  - destruct (hyg_frame _ _ _ _ Hy) as (_ & _ & _ & _ & _ & F6 & _).
    cbn [repz] in Hz. destruct Hz as (_ & _ & _ & Hc & Hs & _). destruct (f_dir f) eqn:Ed; cbn [negb] in *.
    + rewrite Hc. apply Z.eqb_refl.
    + apply Z.eqb_neq. intros Hc'. rewrite (rep_bid _ _ _ Hs) in Hc'.
      destruct (hyg_focus _ _ _ Hy) as (_ & _ & PF & _). destruct (PF q Hq) as [Hq1 _].
      destruct (f_sib f) as [|sa sb sc sd se]; cbn [bid] in Hc'; [lia|]. apply (F6 q Hq). rewrite <- Hc'. cbn [bids]. apply in_or_app. right. left. reflexivity.
Qed.

Lemma t_ok_of_pl zs p last : pl_ok zs p last -> t_ok zs p.
Proof. unfold t_ok. destruct zs; cbn [pl_ok]; tauto. Qed.

(* case A on the heap: rotate at q, re-link below p *)
Lemma hcaseA h zs d q k X y ky Yd Ynd p last :
  let Y := fill (mkf d y true ky Ynd) Yd in
  let C := fill (mkf d q false k Y) X in
  repz h zs q -> rep h q C -> Hyg 0 zs C -> pl_ok zs p last ->
  let '(h1, c) := single_rotate h q d in
  let h2 := set_child h1 p last c in
  let fy := mkf d y false ky Ynd in let Fq := fill (mkf d q true k Yd) X in
  c = y /\ repz h2 (fy :: zs) q /\ rep h2 q Fq /\ Hyg 0 (fy :: zs) Fq /\
  (forall i, ~ In i (bids C) -> i <> p -> hget h2 i = hget h i) /\ child h2 HEAD false = child h HEAD false.
Proof.
  intros Y C Hz Hr Hy Hp.
  destruct (hyg_focus _ _ _ Hy) as (NC & DC & PC & PZ).
  assert (Hpos : ids_pos C) by (apply Forall_forall; intros i Hi; destruct (PC i Hi); lia).
  assert (Hq : In q (bids C)) by (apply in_bids_fill; left; reflexivity).
  pose proof (single_rotate_rep h q C d _ Hr NC Hpos (rot_caseA d q false k X y true ky Yd Ynd)) as HR.
  destruct (single_rotate h q d) as [h1 c]. destruct HR as [R1 R2]. cbn zeta.
  set (fy := mkf d y false ky Ynd). set (Fq := fill (mkf d q true k Yd) X).
  assert (Eids : bids (fill fy Fq) = bids C) by (apply (rot_keys _ _ _ (rot_caseA d q false k X y true ky Yd Ynd))).
  pose proof (relink_below h h1 zs q c C (fill fy Fq) Hz Hy Eids Hq R1 R2 p (t_ok_of_pl _ _ _ Hp)) as HL. cbn zeta in HL.
  rewrite (dir_detect h zs q C p last Hz Hy Hq Hp) in HL. destruct HL as (A1 & A2 & A3).
  set (h2 := set_child h1 p last c) in *.
  assert (Ec : c = y) by (rewrite (rep_bid _ _ _ A2); unfold fill, fy; cbn; destruct d; reflexivity).
  subst c. split; [reflexivity|].
  destruct (repz_unfold h2 fy zs Fq A2 A1) as [B1 B2].
  assert (Eq : child h2 (f_id fy) (f_dir fy) = q) by (rewrite (rep_bid _ _ _ B2); unfold Fq, fill; cbn; destruct d; reflexivity).
  rewrite Eq in B1, B2. split; [exact B1|]. split; [exact B2|]. split; [exact (hyg_congr 0 zs _ _ Eids Hy)|]. split; [exact A3|].
  assert (Hh : ~ In HEAD (bids C)) by (intros Hc; destruct (PC _ Hc); unfold HEAD in *; lia).
  assert (Pp : 0 < p).
  { destruct zs as [|f0 zs0]; cbn [pl_ok] in Hp; destruct Hp as [-> _]; [unfold HEAD; lia|]. destruct (hyg_frame _ _ _ _ Hy) as (F1 & _). lia. }
  unfold h2. rewrite child_set_child by exact Pp.
  assert (Hb : (HEAD =? p) && Bool.eqb last false = false).
  { destruct zs as [|f0 zs0]; cbn [pl_ok] in Hp; destruct Hp as [-> ->]; [rewrite Z.eqb_refl; reflexivity|].
    destruct (hyg_frame _ _ _ _ Hy) as (F1 & _). destruct (Z.eqb_spec HEAD (f_id f0)) as [E|E]; [unfold HEAD in E; lia|reflexivity]. }
  rewrite Hb. apply head_left_frame. apply R2. exact Hh.
Qed.

(* ------------------------------------------------------------------ case B on the heap *)
Lemma bids_fill_color l s c c' sk Snl Sl : bids (fill (mkf l s c sk Snl) Sl) = bids (fill (mkf l s c' sk Snl) Sl).
Proof. rewrite !bids_fill. reflexivity. Qed.

Lemma hcaseB_flip h fp zr s (cs : bool) sk Sl Snl a q k b :
  let l := f_dir fp in let C := BN a q false k b in
  f_sib fp = fill (mkf l s cs sk Snl) Sl ->
  repz h (fp :: zr) q -> rep h q C -> Hyg 0 (fp :: zr) C ->
  let h' := set_red (set_red (set_red h (f_id fp) false) s true) q true in
  let fp' := mkf l (f_id fp) false (f_key fp) (fill (mkf l s true sk Snl) Sl) in
  repz h' (fp' :: zr) q /\ rep h' q (BN a q true k b) /\ Hyg 0 (fp' :: zr) (BN a q true k b) /\
  (forall i, ~ In i (bids (fill fp C)) -> hget h' i = hget h i).
Proof.
  intros l C ES Hz Hr Hy h' fp'.
  destruct (repz_fold _ _ _ _ _ Hz Hr) as [Hrp Hz1].
  assert (Hy1 : Hyg 0 zr (fill fp C)) by exact Hy.
  destruct (hyg_focus _ _ _ Hy1) as (NO & DO & PO & PZ).
  rewrite fill_eta, ES in Hrp, NO, DO, PO. fold l in Hrp, NO, DO, PO.
  destruct (caseB_flip_rep h l (f_id fp) (f_red fp) (f_key fp) s cs sk Sl Snl a q k b Hrp NO (fun i Hi => proj1 (PO i Hi))) as [R1 R2].
  fold h' in R1, R2.
  assert (Hfr : forall i, ~ In i (bids (fill fp C)) -> hget h' i = hget h i).
  { intros i Hi. apply R2. rewrite fill_eta, ES in Hi. exact Hi. }
  assert (Hz1' : repz h' zr (f_id fp)).
  { apply (repz_frame h h'); [| |exact Hz1].
    - intros i Hi. apply R2. intros Hc. apply (DO i Hc Hi).
    - apply R2. intros Hc. destruct (PO _ Hc). unfold HEAD in *. lia. }
  change (fill (mkf l (f_id fp) false (f_key fp) (fill (mkf l s true sk Snl) Sl)) (BN a q true k b)) with (fill fp' (BN a q true k b)) in R1.
  destruct (repz_unfold h' fp' zr (BN a q true k b) R1 Hz1') as [B1 B2].
  assert (Eq : child h' (f_id fp') (f_dir fp') = q) by (rewrite (rep_bid _ _ _ B2); reflexivity).
  rewrite Eq in B1, B2. split; [exact B1|]. split; [exact B2|]. split; [|exact Hfr].
  apply (hyg_bids_eq 0 (fp :: zr) C); [|exact Hy]. cbn [plug]. apply bids_plug_congr.
  rewrite (fill_eta fp), ES. fold l. unfold fp'. rewrite !bids_fill. cbn [f_dir f_id f_sib].
  rewrite (bids_fill_color l s true cs sk Snl Sl). unfold C. cbn [bids]. reflexivity.
Qed.

Lemma set_red4_frame h x1 c1 x2 c2 x3 c3 x4 c4 i : i <> x1 -> i <> x2 -> i <> x3 -> i <> x4 ->
  hget (set_red (set_red (set_red (set_red h x1 c1) x2 c2) x3 c3) x4 c4) i = hget h i.
Proof. intros. rewrite !hget_set_red_other by assumption. reflexivity. Qed.

(* after the rotation at p: re-link below g, recolour q, the new subtree root and its two children; generic part *)
Lemma hcaseB_after_rot h h1 fp zr g c q C Lt cc ck Rt Nt :
  let Y' := BN Lt c cc ck Rt in
  repz h zr (f_id fp) -> Hyg 0 zr (fill fp C) -> t_ok zr g ->
  rep h1 c Y' -> (forall i, ~ In i (bids (fill fp C)) -> hget h1 i = hget h i) -> bids Y' = bids (fill fp C) ->
  In q (bids Y') -> Lt <> BL -> Rt <> BL ->
  recolor (recolor (recolor (recolor Y' q true) c true) (bid Lt) false) (bid Rt) false = Nt ->
  let h1' := set_child h1 g (child h g true =? f_id fp) c in
  let h2 := set_red (set_red h1' q true) c true in
  let h3 := set_red (set_red h2 (child h2 c false) false) (child h2 c true) false in
  repz h3 zr c /\ rep h3 c Nt /\ (forall i, ~ In i (bids (fill fp C)) -> i <> g -> hget h3 i = hget h i) /\
  child h3 HEAD false = child h HEAD false.
Proof.
  intros Y' Hz Hy Ht R1 R2 Eids Hq HLt HRt Erec h1' h2 h3.
  destruct (hyg_focus _ _ _ Hy) as (NO & DO & PO & PZ).
  assert (Hp : In (f_id fp) (bids (fill fp C))) by (apply in_bids_fill; left; reflexivity).
  destruct (relink_below h h1 zr (f_id fp) c (fill fp C) Y' Hz Hy Eids Hp R1 R2 g Ht) as (A1 & A2 & A3). fold h1' in A1, A2, A3.
  assert (Hc : In c (bids Y')) by (unfold Y'; cbn [bids]; apply in_or_app; right; left; reflexivity).
  pose proof A2 as A2'. unfold Y' in A2'. cbn [rep] in A2'. destruct A2' as (_ & _ & _ & _ & HrL & HrR).
  assert (ExL : child h1' c false = bid Lt) by (apply (rep_bid _ _ _ HrL)).
  assert (ExR : child h1' c true = bid Rt) by (apply (rep_bid _ _ _ HrR)).
  assert (Hx : In (child h1' c false) (bids Y')) by (rewrite ExL; unfold Y'; cbn [bids]; apply in_or_app; left; apply bid_in; exact HLt).
  assert (Hyy : In (child h1' c true) (bids Y')) by (rewrite ExR; unfold Y'; cbn [bids]; apply in_or_app; right; right; apply bid_in; exact HRt).
  rewrite <- ExL, <- ExR in Erec.
  assert (Pos : forall i, In i (bids Y') -> 0 < i /\ i <> HEAD /\ ~ In i (zids zr)).
  { intros i Hi. rewrite Eids in Hi. destruct (PO i Hi). split; [lia|]. split; [unfold HEAD; lia|]. apply DO. exact Hi. }
  assert (Ecf : child h2 c false = child h1' c false) by (unfold h2; rewrite !child_set_red; reflexivity).
  assert (Ect : child h2 c true = child h1' c true) by (unfold h2; rewrite !child_set_red; reflexivity).
  unfold h3. rewrite Ecf, Ect. unfold h2.
  set (x := child h1' c false) in *. set (y := child h1' c true) in *.
  destruct (Pos q Hq) as (Pq & Hqh & Zq). destruct (Pos c Hc) as (Pc & Hch & Zc).
  destruct (Pos x Hx) as (Px & Hxh & Zx). destruct (Pos y Hyy) as (Py & Hyh & Zy).
  split; [|split; [|split]].
  - pose proof (repz_set_red h1' q true Pq Hqh _ _ A1) as Z1. rewrite (zrecolor_notin _ _ _ Zq) in Z1.
    pose proof (repz_set_red _ c true Pc Hch _ _ Z1) as Z2. rewrite (zrecolor_notin _ _ _ Zc) in Z2.
    pose proof (repz_set_red _ x false Px Hxh _ _ Z2) as Z3. rewrite (zrecolor_notin _ _ _ Zx) in Z3.
    pose proof (repz_set_red _ y false Py Hyh _ _ Z3) as Z4. rewrite (zrecolor_notin _ _ _ Zy) in Z4. exact Z4.
  - pose proof (set_red_rep h1' q true Pq _ _ A2) as S1. pose proof (set_red_rep _ c true Pc _ _ S1) as S2.
    pose proof (set_red_rep _ x false Px _ _ S2) as S3. pose proof (set_red_rep _ y false Py _ _ S3) as S4.
    rewrite Erec in S4. exact S4.
  - intros i Hi Hg. rewrite set_red4_frame; [apply A3; assumption|..]; intros ->; apply Hi; rewrite <- Eids; assumption.
  - rewrite !child_set_red. unfold h1'.
    assert (Hh : ~ In HEAD (bids (fill fp C))) by (intros Hc'; destruct (PO _ Hc'); unfold HEAD in *; lia).
    assert (Pg : 0 < g).
    { unfold t_ok in Ht. destruct zr as [|ft zr']; [subst g; unfold HEAD; lia|]. subst g. destruct (hyg_frame _ _ _ _ Hy) as (F1 & _). lia. }
    rewrite child_set_child by exact Pg.
    assert (Hb : (HEAD =? g) && Bool.eqb (child h g true =? f_id fp) false = false).
    { unfold t_ok in Ht. destruct zr as [|ft zr']; subst g.
      - rewrite Z.eqb_refl. cbn [repz] in Hz. rewrite Hz, Z.eqb_refl. reflexivity.
      - destruct (hyg_frame _ _ _ _ Hy) as (F1 & _). destruct (Z.eqb_spec HEAD (f_id ft)) as [E|E]; [unfold HEAD in E; lia|reflexivity]. }
    rewrite Hb. apply head_left_frame. apply R2. exact Hh.
Qed.

Lemma hcaseB_single h fp zr g s (cs : bool) sk Sl Snl a q k b :
  let l := f_dir fp in let C := BN a q false k b in
  f_sib fp = fill (mkf l s cs sk Snl) Sl -> Snl <> BL ->
  repz h (fp :: zr) q -> rep h q C -> Hyg 0 (fp :: zr) C -> t_ok zr g ->
  let '(h0, c) := single_rotate h (f_id fp) l in
  let h1 := set_child h0 g (child h g true =? f_id fp) c in
  let h2 := set_red (set_red h1 q true) c true in
  let h3 := set_red (set_red h2 (child h2 c false) false) (child h2 c true) false in
  let fp1 := mkf l (f_id fp) false (f_key fp) Sl in let fc := mkf l s true sk (blacken Snl) in
  repz h3 (fp1 :: fc :: zr) q /\ rep h3 q (BN a q true k b) /\ Hyg 0 (fp1 :: fc :: zr) (BN a q true k b) /\
  (forall i, ~ In i (bids (fill fp C)) -> i <> g -> hget h3 i = hget h i) /\ child h3 HEAD false = child h HEAD false.
Proof.
  intros l C ES HS Hz Hr Hy Ht.
  destruct (repz_fold _ _ _ _ _ Hz Hr) as [Hrp Hz1].
  assert (Hy1 : Hyg 0 zr (fill fp C)) by exact Hy.
  destruct (hyg_focus _ _ _ Hy1) as (NO & DO & PO & PZ).
  assert (EO : fill fp C = fill (mkf l (f_id fp) (f_red fp) (f_key fp) (fill (mkf l s cs sk Snl) Sl)) C) by (rewrite fill_eta, ES; reflexivity).
  assert (Hpos : ids_pos (fill fp C)) by (apply Forall_forall; intros i Hi; destruct (PO i Hi); lia).
  pose proof (rot_caseB_single l (f_id fp) (f_red fp) (f_key fp) s cs sk Sl Snl C) as Hrot. rewrite <- EO in Hrot.
  pose proof (single_rotate_rep h (f_id fp) (fill fp C) l _ Hrp NO Hpos Hrot) as HR.
  destruct (single_rotate h (f_id fp) l) as [h0 c]. destruct HR as [R1 R2]. cbn zeta.
  set (PT := fill (mkf l (f_id fp) true (f_key fp) Sl) C) in *.
  assert (Ec : c = s) by (rewrite (rep_bid _ _ _ R1); unfold fill; cbn; destruct l; reflexivity). subst c.
  assert (Eids : bids (fill (mkf l s false sk Snl) PT) = bids (fill fp C)) by (apply (rot_keys _ _ _ Hrot)).
  assert (Hq : In q (bids (fill (mkf l s false sk Snl) PT))).
  { apply in_bids_fill. right. left. apply in_bids_fill. right. left. cbn. apply in_or_app. right. left. reflexivity. }
  assert (HPT : PT <> BL) by (unfold PT, fill; cbn; destruct l; discriminate).
  assert (Nd : NoDup (bids (fill (mkf l s false sk Snl) PT))) by (rewrite Eids; exact NO).
  set (Nt := fill (mkf l s true sk (blacken Snl)) (fill (mkf l (f_id fp) false (f_key fp) Sl) (BN a q true k b))).
  assert (HAR : let h1 := set_child h0 g (child h g true =? f_id fp) s in
                let h2 := set_red (set_red h1 q true) s true in
                let h3 := set_red (set_red h2 (child h2 s false) false) (child h2 s true) false in
                repz h3 zr s /\ rep h3 s Nt /\ (forall i, ~ In i (bids (fill fp C)) -> i <> g -> hget h3 i = hget h i) /\
                child h3 HEAD false = child h HEAD false).
  { assert (Ebp : bid PT = f_id fp) by (unfold PT, fill; cbn; destruct l; reflexivity).
    destruct l eqn:El.
    - apply (hcaseB_after_rot h h0 fp zr g s q C Snl false sk PT Nt Hz1 Hy1 Ht); [exact R1|exact R2|exact Eids|exact Hq|exact HS|exact HPT|].
      rewrite Ebp. apply (recolor4_single true (f_id fp) (f_key fp) s sk Sl Snl a q k b (bid Snl) (f_id fp)); [right; split; reflexivity|exact Nd|exact HS].
    - apply (hcaseB_after_rot h h0 fp zr g s q C PT false sk Snl Nt Hz1 Hy1 Ht); [exact R1|exact R2|exact Eids|exact Hq|exact HPT|exact HS|].
      rewrite Ebp. apply (recolor4_single false (f_id fp) (f_key fp) s sk Sl Snl a q k b (f_id fp) (bid Snl)); [left; split; reflexivity|exact Nd|exact HS]. }
  cbn zeta in HAR. destruct HAR as (A1 & A2 & A3 & A4).
  match goal with |- repz ?hh _ _ /\ _ => set (h3 := hh) in * end.
  set (fc := mkf l s true sk (blacken Snl)). set (fp1 := mkf l (f_id fp) false (f_key fp) Sl).
  change Nt with (fill fc (fill fp1 (BN a q true k b))) in A2.
  destruct (repz_unfold h3 fc zr _ A2 A1) as [B1 B2].
  assert (E1 : child h3 (f_id fc) (f_dir fc) = f_id fp1) by (rewrite (rep_bid _ _ _ B2); unfold fill; cbn; destruct l; reflexivity).
  rewrite E1 in B1, B2.
  destruct (repz_unfold h3 fp1 (fc :: zr) _ B2 B1) as [C1 C2].
  assert (E2 : child h3 (f_id fp1) (f_dir fp1) = q) by (rewrite (rep_bid _ _ _ C2); reflexivity).
  rewrite E2 in C1, C2. split; [exact C1|]. split; [exact C2|]. split; [|split; [exact A3|exact A4]].
  apply (hyg_bids_eq 0 (fp :: zr) C); [|exact Hy]. cbn [plug]. apply bids_plug_congr.
  rewrite <- Eids. unfold fc, fp1, PT. rewrite !bids_fill. cbn [f_dir f_id f_sib]. destruct (blacken_keys Snl) as [_ ->]. unfold C. cbn [bids]. reflexivity.
Qed.

Lemma hcaseB_double h fp zr g s (cs : bool) sk Snl i (ci : bool) ik Il Inl a q k b :
  let l := f_dir fp in let C := BN a q false k b in
  f_sib fp = fill (mkf l s cs sk Snl) (fill (mkf l i ci ik Inl) Il) ->
  repz h (fp :: zr) q -> rep h q C -> Hyg 0 (fp :: zr) C -> t_ok zr g ->
  let '(h0, c) := double_rotate h (f_id fp) l in
  let h1 := set_child h0 g (child h g true =? f_id fp) c in
  let h2 := set_red (set_red h1 q true) c true in
  let h3 := set_red (set_red h2 (child h2 c false) false) (child h2 c true) false in
  let fp1 := mkf l (f_id fp) false (f_key fp) Il in let fc := mkf l i true ik (fill (mkf l s false sk Snl) Inl) in
  repz h3 (fp1 :: fc :: zr) q /\ rep h3 q (BN a q true k b) /\ Hyg 0 (fp1 :: fc :: zr) (BN a q true k b) /\
  (forall j, ~ In j (bids (fill fp C)) -> j <> g -> hget h3 j = hget h j) /\ child h3 HEAD false = child h HEAD false.
Proof.
  intros l C ES Hz Hr Hy Ht.
  destruct (repz_fold _ _ _ _ _ Hz Hr) as [Hrp Hz1].
  assert (Hy1 : Hyg 0 zr (fill fp C)) by exact Hy.
  destruct (hyg_focus _ _ _ Hy1) as (NO & DO & PO & PZ).
  assert (EO : fill fp C = fill (mkf l (f_id fp) (f_red fp) (f_key fp) (fill (mkf l s cs sk Snl) (fill (mkf l i ci ik Inl) Il))) C) by (rewrite fill_eta, ES; reflexivity).
  assert (Hpos : ids_pos (fill fp C)) by (apply Forall_forall; intros j Hj; destruct (PO j Hj); lia).
  pose proof (drot_caseB l (f_id fp) (f_red fp) (f_key fp) s cs sk Snl i ci ik Il Inl C) as Hrot. rewrite <- EO in Hrot.
  pose proof (double_rotate_rep h (f_id fp) (fill fp C) l _ Hrp NO Hpos Hrot) as HR.
  destruct (double_rotate h (f_id fp) l) as [h0 c]. destruct HR as [R1 R2]. cbn zeta.
  set (PT := fill (mkf l (f_id fp) true (f_key fp) Il) C) in *.
  set (ST := fill (mkf l s true sk Snl) Inl) in *.
  assert (Ec : c = i) by (rewrite (rep_bid _ _ _ R1); unfold fill; cbn; destruct l; reflexivity). subst c.
  assert (Eids : bids (fill (mkf l i false ik ST) PT) = bids (fill fp C)) by (apply (drot_keys _ _ _ Hrot)).
  assert (Hq : In q (bids (fill (mkf l i false ik ST) PT))).
  { apply in_bids_fill. right. left. apply in_bids_fill. right. left. cbn. apply in_or_app. right. left. reflexivity. }
  assert (HPT : PT <> BL) by (unfold PT, fill; cbn; destruct l; discriminate).
  assert (HST : ST <> BL) by (unfold ST, fill; cbn; destruct l; discriminate).
  assert (Nd : NoDup (bids (fill (mkf l i false ik ST) PT))) by (rewrite Eids; exact NO).
  set (Nt := fill (mkf l i true ik (fill (mkf l s false sk Snl) Inl)) (fill (mkf l (f_id fp) false (f_key fp) Il) (BN a q true k b))).
  assert (HAR : let h1 := set_child h0 g (child h g true =? f_id fp) i in
                let h2 := set_red (set_red h1 q true) i true in
                let h3 := set_red (set_red h2 (child h2 i false) false) (child h2 i true) false in
                repz h3 zr i /\ rep h3 i Nt /\ (forall j, ~ In j (bids (fill fp C)) -> j <> g -> hget h3 j = hget h j) /\
                child h3 HEAD false = child h HEAD false).
  { assert (Ebp : bid PT = f_id fp) by (unfold PT, fill; cbn; destruct l; reflexivity).
    assert (Ebs : bid ST = s) by (unfold ST, fill; cbn; destruct l; reflexivity).
    destruct l eqn:El.
    - apply (hcaseB_after_rot h h0 fp zr g i q C ST false ik PT Nt Hz1 Hy1 Ht); [exact R1|exact R2|exact Eids|exact Hq|exact HST|exact HPT|].
      rewrite Ebp, Ebs. apply (recolor4_double true (f_id fp) (f_key fp) s sk Snl i ik Il Inl a q k b s (f_id fp)); [right; split; reflexivity|exact Nd].
    - apply (hcaseB_after_rot h h0 fp zr g i q C PT false ik ST Nt Hz1 Hy1 Ht); [exact R1|exact R2|exact Eids|exact Hq|exact HPT|exact HST|].
      rewrite Ebp, Ebs. apply (recolor4_double false (f_id fp) (f_key fp) s sk Snl i ik Il Inl a q k b (f_id fp) s); [left; split; reflexivity|exact Nd]. }
  cbn zeta in HAR. destruct HAR as (A1 & A2 & A3 & A4).
  match goal with |- repz ?hh _ _ /\ _ => set (h3 := hh) in * end.
  set (fc := mkf l i true ik (fill (mkf l s false sk Snl) Inl)). set (fp1 := mkf l (f_id fp) false (f_key fp) Il).
  change Nt with (fill fc (fill fp1 (BN a q true k b))) in A2.
  destruct (repz_unfold h3 fc zr _ A2 A1) as [B1 B2].
  assert (E1 : child h3 (f_id fc) (f_dir fc) = f_id fp1) by (rewrite (rep_bid _ _ _ B2); unfold fill; cbn; destruct l; reflexivity).
  rewrite E1 in B1, B2.
  destruct (repz_unfold h3 fp1 (fc :: zr) _ B2 B1) as [C1 C2].
  assert (E2 : child h3 (f_id fp1) (f_dir fp1) = q) by (rewrite (rep_bid _ _ _ C2); reflexivity).
  rewrite E2 in C1, C2. split; [exact C1|]. split; [exact C2|]. split; [|split; [exact A3|exact A4]].
  apply (hyg_bids_eq 0 (fp :: zr) C); [|exact Hy]. cbn [plug]. apply bids_plug_congr.
  rewrite <- Eids. unfold fc, fp1, PT, ST. rewrite !bids_fill. cbn [f_dir f_id f_sib]. rewrite !bids_fill. cbn [f_dir f_id f_sib]. unfold C. cbn [bids]. reflexivity.
Qed.

(* ------------------------------------------------------------------ one iteration of the C++ loop *)
Definition hrm_proc (h : ptrie) (g p q : Z) (last dir : bool) : ptrie * Z :=
  if negb (is_red h q) && negb (is_red h (child h q dir)) then
    if is_red h (child h q (negb dir)) then
      let '(h1, c) := single_rotate h q dir in (set_child h1 p last c, c)
    else if negb (child h p (negb last) =? 0) then
      let s := child h p (negb last) in
      if negb (is_red h (child h s (negb last))) && negb (is_red h (child h s last)) then
        (set_red (set_red (set_red h p false) s true) q true, p)
      else
        let dir2 := child h g true =? p in
        let '(h1, c) :=
          if is_red h (child h s last) then let '(h', c) := double_rotate h p last in (set_child h' g dir2 c, c)
          else if is_red h (child h s (negb last)) then let '(h', c) := single_rotate h p last in (set_child h' g dir2 c, c)
          else (h, child h g dir2) in
        let h2 := set_red (set_red h1 q true) c true in
        (set_red (set_red h2 (child h2 c false) false) (child h2 c true) false, p)
    else (h, p)
  else (h, p).

Lemma remove_loop_S fu h node g p q f gf dir :
  remove_loop (S fu) h node g p q f gf dir =
  if child h q dir =? 0 then (h, (g, p, q, f, gf))
  else
    let q' := child h q dir in
    let dir' := key h q' <? key h node in
    let fgf := if q' =? node then (q', p) else (f, gf) in
    let '(h', p') := hrm_proc h p q q' dir dir' in
    remove_loop fu h' node p p' q' (fst fgf) (snd fgf) dir'.
Proof.
  cbn [remove_loop]. destruct (child h q dir =? 0); [reflexivity|]. cbv zeta. unfold hrm_proc.
  set (q' := child h q dir). set (dir' := key h q' <? key h node).
  destruct (q' =? node); cbn [fst snd];
  (destruct (negb (is_red h q') && negb (is_red h (child h q' dir'))); [|reflexivity]);
  (destruct (is_red h (child h q' (negb dir'))); [destruct (single_rotate h q' dir'); reflexivity|]);
  (destruct (negb (child h q (negb dir) =? 0)); [|reflexivity]);
  (destruct (negb (is_red h (child h (child h q (negb dir)) (negb dir))) && negb (is_red h (child h (child h q (negb dir)) dir))); [reflexivity|]);
  (destruct (is_red h (child h (child h q (negb dir)) dir)); [destruct (double_rotate h q dir); reflexivity|]);
  (destruct (is_red h (child h (child h q (negb dir)) (negb dir))); [destruct (single_rotate h q dir); reflexivity|reflexivity]).
Qed.


Section RemoveLoop.
Variable kn : Z.


Lemma pl_ok_self zs : pl_ok zs (pl_id zs) (pl_dir zs).
Proof. destruct zs; cbn; auto. Qed.

Lemma rep_children h q a c k b : rep h q (BN a q c k b) ->
  is_red h q = c /\ key h q = k /\ forall d : bool, rep h (child h q d) (if d then b else a).
Proof. cbn [rep]. intros (_ & _ & H1 & H2 & H3 & H4). split; [exact H1|]. split; [exact H2|]. intros []; assumption. Qed.

End RemoveLoop.

Lemma if_negb {A} (d : bool) (x y : A) : (if negb d then x else y) = (if d then y else x).
Proof. destruct d; reflexivity. Qed.

Lemma pl_id_in zs C i : i = pl_id zs -> i <> HEAD -> In i (bids (plug zs C)).
Proof.
  destruct zs as [|f zs]; cbn [pl_id]; [intros -> H; contradiction|]. intros -> _. apply in_plug_ids. left. apply in_zids_cons. right. left. reflexivity.
Qed.

Lemma hrm_proc_spec kn h zs C g p q last :
  repz h zs q -> rep h q C -> C <> BL -> Hyg 0 zs C -> child h HEAD false = 0 ->
  pl_ok zs p last -> (forall fp zr, zs = fp :: zr -> t_ok zr g) ->
  let '(h', p') := hrm_proc h g p q last (bkey C <? kn) in
  exists zs' F', rproc kn zs C = At zs' F' /\ repz h' zs' q /\ rep h' q F' /\ Hyg 0 zs' F' /\ child h' HEAD false = 0 /\
    p' = pl_id zs' /\ (forall i, ~ In i (bids (plug zs C)) -> i <> HEAD -> hget h' i = hget h i).
Proof.
  intros Hz Hr HC Hy Hhl Hp Hg. destruct C as [|a q0 c k b]; [contradiction|].
  assert (q0 = q) by (symmetry; apply (rep_bid _ _ _ Hr)). subst q0.
  destruct (rep_children _ _ _ _ _ _ Hr) as (Hc & Hk & Hch).
  assert (Epid : p = pl_id zs) by (destruct zs; cbn [pl_ok pl_id] in *; tauto).
  cbn [bkey]. set (d := k <? kn). unfold hrm_proc, rproc. fold d.
  rewrite Hc, (rep_is_red _ _ _ (Hch d)), (rep_is_red _ _ _ (Hch (negb d))), if_negb.
  assert (Hsame : exists zs' F', At zs (BN a q c k b) = At zs' F' /\ repz h zs' q /\ rep h q F' /\ Hyg 0 zs' F' /\ child h HEAD false = 0 /\
            p = pl_id zs' /\ (forall i, ~ In i (bids (plug zs (BN a q c k b))) -> i <> HEAD -> hget h i = hget h i)).
  { exists zs, (BN a q c k b). split; [reflexivity|]. split; [exact Hz|]. split; [exact Hr|]. split; [exact Hy|]. split; [exact Hhl|]. split; [exact Epid|]. intros; reflexivity. }
  destruct (negb c && negb (bred (if d then b else a))) eqn:E1; [|exact Hsame].
  apply andb_prop in E1. destruct E1 as [Ec EX]. apply negb_true_iff in Ec. rewrite Ec in *.
  destruct (bred (if d then a else b)) eqn:EY.
  - (* case A *)
    destruct (if d then a else b) as [|ya y cy ky yb] eqn:EYs; [discriminate|]. cbn [bred] in EY. subst cy.
    assert (EC : BN a q false k b = fill (mkf d q false k (fill (mkf d y true ky (if d then ya else yb)) (if d then yb else ya))) (if d then b else a)).
    { rewrite <- (BN_as_fill ya y true ky yb d), <- EYs. apply BN_as_fill. }
    rewrite EC in Hr, Hy.
    pose proof (hcaseA h zs d q k (if d then b else a) y ky (if d then yb else ya) (if d then ya else yb) p last Hz Hr Hy Hp) as HA.
    destruct (single_rotate h q d) as [h1 c1]. cbn zeta in HA. destruct HA as (-> & A1 & A2 & A3 & A4 & A5).
    eexists _, _. split; [reflexivity|]. split; [exact A1|]. split; [exact A2|]. split; [exact A3|]. split; [rewrite A5; exact Hhl|].
    split; [reflexivity|]. intros i Hi Hh. apply A4.
    + intros Hc'. apply Hi. apply in_plug_ids. right. rewrite EC. exact Hc'.
    + intros ->. apply Hi. apply (pl_id_in zs _ _ Epid Hh).
  - destruct zs as [|fp zr].
    + cbn [pl_ok] in Hp. destruct Hp as [-> ->]. cbn [negb]. rewrite Hhl. cbn [Z.eqb negb]. exact Hsame.
    + cbn [pl_ok] in Hp. destruct Hp as [-> ->]. set (l := f_dir fp).
      pose proof Hz as Hz0. cbn [repz] in Hz0. destruct Hz0 as (_ & _ & _ & _ & HrS & _). fold l in HrS.
      rewrite (rep_bid _ _ _ HrS).
      destruct (f_sib fp) as [|sa s sc sk sb] eqn:ES; cbn [bid]; [cbn [Z.eqb negb]; exact Hsame|].
      assert (Ps : 1 < s).
      { destruct (hyg_focus _ _ _ Hy) as (_ & _ & _ & PZ). apply PZ. apply in_zids_cons. right. right. rewrite ES. cbn. apply in_or_app. right. left. reflexivity. }
      destruct (Z.eqb_spec s 0) as [|_]; [lia|]. cbn [negb].
      assert (HrS' : rep h s (BN sa s sc sk sb)).
      { pose proof (rep_bid _ _ _ HrS) as Es. cbn [bid] in Es. rewrite Es in HrS. exact HrS. }
      destruct (rep_children _ _ _ _ _ _ HrS') as (_ & _ & HchS).
      rewrite (rep_is_red _ _ _ (HchS (negb l))), (rep_is_red _ _ _ (HchS l)), if_negb.
      assert (ESf : BN sa s sc sk sb = fill (mkf l s sc sk (if l then sa else sb)) (if l then sb else sa)) by (apply BN_as_fill).
      pose proof (Hg fp zr eq_refl) as Ht.
      assert (Hfr : forall (hh : ptrie), (forall i, ~ In i (bids (fill fp (BN a q false k b))) -> i <> g -> hget hh i = hget h i) ->
                forall i, ~ In i (bids (plug (fp :: zr) (BN a q false k b))) -> i <> HEAD -> hget hh i = hget h i).
      { intros hh H i Hi Hh. apply H.
        - intros Hc'. apply Hi. cbn [plug]. apply in_plug_ids. right. exact Hc'.
        - intros ->. apply Hi. unfold t_ok in Ht. destruct zr as [|ft zr']; [congruence|]. apply in_plug_ids. left.
          apply in_zids_cons. left. rewrite Ht. apply in_zids_cons. right. left. reflexivity. }
      destruct (negb (bred (if l then sa else sb)) && negb (bred (if l then sb else sa))) eqn:E2.
      * (* flip *)
        rewrite ESf in ES.
        destruct (hcaseB_flip h fp zr s sc sk (if l then sb else sa) (if l then sa else sb) a q k b ES Hz Hr Hy) as (B1 & B2 & B3 & B4).
        eexists _, _. split; [reflexivity|]. fold l in B1, B3.
        assert (Esib : BN sa s true sk sb = fill (mkf l s true sk (if l then sa else sb)) (if l then sb else sa)) by (apply BN_as_fill).
        rewrite Esib. split; [exact B1|]. split; [exact B2|]. split; [exact B3|].
        split; [rewrite <- Hhl; apply head_left_frame; apply B4; intros Hc'; destruct (hyg_focus _ _ _ (Hy : Hyg 0 zr (fill fp (BN a q false k b)))) as (_ & _ & PO & _); destruct (PO _ Hc'); unfold HEAD in *; lia|].
        split; [reflexivity|]. intros i Hi Hh. apply B4. intros Hc'. apply Hi. cbn [plug]. apply in_plug_ids. right. exact Hc'.
      * destruct (bred (if l then sb else sa)) eqn:E3.
        -- (* double rotation *)
           destruct (if l then sb else sa) as [|ia i ci ik ib] eqn:EI; [discriminate|].
           assert (EIf : BN ia i ci ik ib = fill (mkf l i ci ik (if l then ia else ib)) (if l then ib else ia)) by (apply BN_as_fill).
           rewrite ESf, EIf in ES.
           pose proof (hcaseB_double h fp zr g s sc sk (if l then sa else sb) i ci ik (if l then ib else ia) (if l then ia else ib) a q k b ES Hz Hr Hy Ht) as HD.
           fold l in HD. destruct (double_rotate h (f_id fp) l) as [h0 c0]. cbn zeta in HD. destruct HD as (D1 & D2 & D3 & D4 & D5).
           eexists _, _. split; [reflexivity|]. split; [exact D1|]. split; [exact D2|]. split; [exact D3|]. split; [rewrite D5; exact Hhl|].
           split; [reflexivity|]. apply Hfr. exact D4.
        -- (* single rotation *)
           assert (E4 : bred (if l then sa else sb) = true) by (destruct (bred (if l then sa else sb)); [reflexivity|discriminate]).
           rewrite E4.
           assert (HS : (if l then sa else sb) <> BL) by (intros Hc'; rewrite Hc' in E4; discriminate).
           rewrite ESf in ES.
           pose proof (hcaseB_single h fp zr g s sc sk (if l then sb else sa) (if l then sa else sb) a q k b ES HS Hz Hr Hy Ht) as HD.
           fold l in HD. destruct (single_rotate h (f_id fp) l) as [h0 c0]. cbn zeta in HD. destruct HD as (D1 & D2 & D3 & D4 & D5).
           eexists _, _. split; [reflexivity|]. split; [exact D1|]. split; [exact D2|]. split; [exact D3|]. split; [rewrite D5; exact Hhl|].
           split; [reflexivity|]. apply Hfr. exact D4.
Qed.

(* ------------------------------------------------------------------ the found node f and the start gf of the final re-link walk *)
(* gf is null, the false root, or a path node strictly above the found node *)
Definition above (zs : list frame) (F : btree) (node gf : Z) : Prop :=
  gf = 0 \/ gf = HEAD \/ exists zb za, zs = zb ++ za /\ (za <> [] /\ gf = pl_id za) /\ In node (bid F :: map f_id zb).

Lemma above_push zs F node gf fq X : f_id fq = bid F -> above zs F node gf -> above (fq :: zs) X node gf.
Proof.
  intros E [H|[H|(zb & za & -> & H1 & H2)]]; [left; exact H|right; left; exact H|]. right. right.
  exists (fq :: zb), za. split; [reflexivity|]. split; [exact H1|]. cbn [map]. rewrite E. right. exact H2.
Qed.

Lemma above_found zs X : above (zs) X (bid X) (pl_id (tl zs)) \/ True.
Proof. right. exact I. Qed.

Lemma above_rproc kn zs C zs' F' node gf : rproc kn zs C = At zs' F' -> above zs C node gf -> above zs' F' node gf.
Proof.
  intros Hp [H|[H|(zb & za & E & H1 & H2)]]; [left; exact H|right; left; exact H|]. right. right.
  destruct (rproc_next kn _ _ _ _ Hp) as (_ & _ & Eb).
  unfold rproc in Hp. destruct C as [|a q c k b]; [injection Hp as <- <-; exists zb, za; auto|].
  set (d := k <? kn) in *.
  destruct (negb c && negb (bred (if d then b else a))); [|injection Hp as <- <-; exists zb, za; auto].
  destruct (bred (if d then a else b)).
  - destruct (if d then a else b) as [|ya y cy ky yb]; [injection Hp as <- <-; exists zb, za; auto|].
    injection Hp as <- <-. eexists (_ :: zb), za. split; [rewrite E; reflexivity|]. split; [exact H1|].
    rewrite Eb. cbn [map]. destruct H2 as [H2|H2]; [left; exact H2|right; right; exact H2].
  - destruct zs as [|fp zr]; [injection Hp as <- <-; exists zb, za; auto|].
    destruct (f_sib fp) as [|sa s sc sk sb]; [injection Hp as <- <-; exists zb, za; auto|].
    assert (Hgen : forall fp1 mid zs'' F'', f_id fp1 = f_id fp -> zs'' = fp1 :: mid ++ zr -> bid F'' = q ->
              exists zb' za', zs'' = zb' ++ za' /\ (za' <> [] /\ gf = pl_id za') /\ In node (bid F'' :: map f_id zb')).
    { intros fp1 mid zs'' F'' E1 -> E3. destruct zb as [|f0 zb0].
      - cbn [app] in E. subst za. exists [], (fp1 :: mid ++ zr). split; [reflexivity|]. split; [|rewrite E3; exact H2].
        split; [discriminate|]. cbn [pl_id] in *. rewrite E1. destruct H1 as [_ H1]; exact H1.
      - cbn [app] in E. injection E as <- ->. exists (fp1 :: mid ++ zb0), za. split; [cbn [app]; rewrite <- app_assoc; reflexivity|].
        split; [exact H1|]. rewrite E3. cbn [map bid] in *. rewrite E1. destruct H2 as [H2|[H2|H2]]; [left; exact H2|right; left; exact H2|].
        right. right. rewrite map_app. apply in_or_app. right. exact H2. }
    cbn [bid] in Eb.
    destruct (negb (bred (if f_dir fp then sa else sb)) && negb (bred (if f_dir fp then sb else sa))).
    + injection Hp as <- <-. eapply (Hgen _ []); [|reflexivity|reflexivity]. reflexivity.
    + destruct (bred (if f_dir fp then sb else sa)).
      * destruct (if f_dir fp then sb else sa) as [|ia i ci ik ib]; [injection Hp as <- <-; exists zb, za; auto|].
        injection Hp as <- <-. eapply (Hgen _ [_]); [|reflexivity|reflexivity]. reflexivity.
      * injection Hp as <- <-. eapply (Hgen _ [_]); [|reflexivity|reflexivity]. reflexivity.
Qed.

(* ------------------------------------------------------------------ keys in the heap never change during remove's loop *)
Lemma key_set_child h x d c i : key (set_child h x d c) i = key h i.
Proof.
  unfold key. destruct (Z.eq_dec i x) as [->|Hne].
  - destruct (Z_lt_le_dec 0 x).
    + rewrite hget_set_child_same by assumption. destruct d; reflexivity.
    + unfold set_child, hset. destruct x; try lia; reflexivity.
  - rewrite hget_set_child_other by assumption. reflexivity.
Qed.

Lemma key_single_rotate h r d i : key (fst (single_rotate h r d)) i = key h i.
Proof. unfold single_rotate. cbn [fst]. rewrite !key_set_red, !key_set_child. reflexivity. Qed.

Lemma key_double_rotate h r d i : key (fst (double_rotate h r d)) i = key h i.
Proof.
  unfold double_rotate. pose proof (key_single_rotate h (child h r (negb d)) (negb d)) as H1.
  destruct (single_rotate h (child h r (negb d)) (negb d)) as [h1 c]. cbn [fst] in H1.
  rewrite key_single_rotate, key_set_child. apply H1.
Qed.

Lemma key_hrm_proc h g p q last dir i : key (fst (hrm_proc h g p q last dir)) i = key h i.
Proof.
  unfold hrm_proc.
  destruct (negb (is_red h q) && negb (is_red h (child h q dir))); [|reflexivity].
  destruct (is_red h (child h q (negb dir))).
  - pose proof (key_single_rotate h q dir i) as H. destruct (single_rotate h q dir) as [h1 c]. cbn [fst] in *. rewrite key_set_child. exact H.
  - destruct (negb (child h p (negb last) =? 0)); [|reflexivity].
    destruct (negb (is_red h (child h (child h p (negb last)) (negb last))) && negb (is_red h (child h (child h p (negb last)) last))).
    + cbn [fst]. rewrite !key_set_red. reflexivity.
    + destruct (is_red h (child h (child h p (negb last)) last)).
      * pose proof (key_double_rotate h p last i) as H. destruct (double_rotate h p last) as [h1 c]. cbn [fst] in *.
        rewrite !key_set_red, key_set_child. exact H.
      * destruct (is_red h (child h (child h p (negb last)) (negb last))).
        -- pose proof (key_single_rotate h p last i) as H. destruct (single_rotate h p last) as [h1 c]. cbn [fst] in *.
           rewrite !key_set_red, key_set_child. exact H.
        -- cbn [fst]. rewrite !key_set_red. reflexivity.
Qed.

(* ------------------------------------------------------------------ keys identify nodes in a search tree *)
Lemma rep_key_in h : forall t n i, rep h n t -> In i (bids t) -> In (key h i) (bkeys t).
Proof.
  induction t as [|l IHl id red k r IHr]; intros n i Hr Hi; [contradiction|]. cbn [rep] in Hr. destruct Hr as (_ & _ & _ & Hk & Hl & Hrr).
  cbn [bids bkeys] in *. apply in_app_or in Hi. apply in_or_app. destruct Hi as [Hi|[<-|Hi]].
  - left. eapply IHl; eassumption.
  - right. left. symmetry. exact Hk.
  - right. right. eapply IHr; eassumption.
Qed.

Lemma rep_key_inj h : forall t n i j, rep h n t -> sortedb (bkeys t) = true -> In i (bids t) -> In j (bids t) -> key h i = key h j -> i = j.
Proof.
  induction t as [|l IHl id red k r IHr]; intros n i j Hr Hs Hi Hj E; [contradiction|].
  pose proof Hr as Hr0. cbn [rep] in Hr. destruct Hr as (_ & _ & _ & Hk & Hl & Hrr).
  cbn [bkeys] in Hs. destruct (sortedb_app _ _ _ Hs) as (Sl & Sr & Fl & Fr). rewrite Forall_forall in Fl, Fr.
  cbn [bids] in Hi, Hj. apply in_app_or in Hi. apply in_app_or in Hj.
  assert (KL : forall x, In x (bids l) -> key h x < k) by (intros x Hx; apply Fl; eapply rep_key_in; eassumption).
  assert (KR : forall x, In x (bids r) -> k < key h x) by (intros x Hx; apply Fr; eapply rep_key_in; eassumption).
  destruct Hi as [Hi|[<-|Hi]]; destruct Hj as [Hj|[<-|Hj]]; try reflexivity;
    try (specialize (KL _ Hi)); try (specialize (KR _ Hi)); try (pose proof (KL _ Hj)); try (pose proof (KR _ Hj)); try lia.
  - eapply IHl; eassumption.
  - eapply IHr; eassumption.
Qed.

Section SideNe.
Variable kn : Z.
Lemma side_key_ne f X x : f_dir f = (f_key f <? kn) -> sortedb (bkeys (fill f X)) = true -> In x (bkeys (f_sib f)) -> x <> kn.
Proof.
  intros Hd Hs Hx. rewrite bkeys_fill in Hs. destruct (f_dir f) eqn:Ed; symmetry in Hd.
  - apply Z.ltb_lt in Hd. destruct (sortedb_app _ _ _ Hs) as (_ & _ & Hl & _). rewrite Forall_forall in Hl. specialize (Hl x Hx). lia.
  - apply Z.ltb_ge in Hd. destruct (sortedb_app _ _ _ Hs) as (_ & _ & _ & Hr). rewrite Forall_forall in Hr. specialize (Hr x Hx). lia.
Qed.

(* the keys on the path after the push-down step: old path keys, or keys different from the searched one *)
Lemma rproc_pathkeys zs C zs' F' : dirs_ok kn zs -> sortedb (bkeys (plug zs C)) = true -> rproc kn zs C = At zs' F' ->
  forall k', In k' (bkey F' :: map f_key zs') -> In k' (bkey C :: map f_key zs) \/ k' <> kn.
Proof.
  intros D Hs Hp. destruct (rproc_next kn _ _ _ _ Hp) as (_ & Ek & _).
  unfold rproc in Hp. destruct C as [|a q c k b]; [injection Hp as <- <-; auto|].
  set (d := k <? kn) in *.
  destruct (negb c && negb (bred (if d then b else a))); [|injection Hp as <- <-; auto].
  destruct (bred (if d then a else b)).
  - destruct (if d then a else b) as [|ya y cy ky yb] eqn:EY; [injection Hp as <- <-; auto|].
    injection Hp as <- <-. intros k' Hk'. rewrite Ek in Hk'. cbn [map f_key] in Hk'. destruct Hk' as [<-|[<-|Hk']]; [left; left; reflexivity| |left; right; exact Hk'].
    right. pose proof (sorted_focus _ _ Hs) as Hc. rewrite (BN_as_fill a q c k b d) in Hc.
    apply (side_key_ne (mkf d q c k (if d then a else b)) (if d then b else a) ky); [reflexivity|exact Hc|]. cbn [f_sib]. rewrite EY. apply in_bkeys_root.
  - destruct zs as [|fp zr]; [injection Hp as <- <-; auto|].
    destruct (f_sib fp) as [|sa s sc sk sb] eqn:ES; [injection Hp as <- <-; auto|].
    inversion D as [|? ? Dp Dr]; subst. cbn [plug] in Hs. pose proof (sorted_focus _ _ Hs) as Hc.
    assert (Hside : forall x, In x (bkeys (BN sa s sc sk sb)) -> x <> kn).
    { intros x Hx. apply (side_key_ne fp (BN a q c k b) x Dp Hc). rewrite ES. exact Hx. }
    cbn [bkey] in Ek.
    destruct (negb (bred (if f_dir fp then sa else sb)) && negb (bred (if f_dir fp then sb else sa))).
    + injection Hp as <- <-. intros k' Hk'. left. exact Hk'.
    + destruct (bred (if f_dir fp then sb else sa)).
      * destruct (if f_dir fp then sb else sa) as [|ia i ci ik ib] eqn:EI; [injection Hp as <- <-; auto|].
        injection Hp as <- <-. intros k' Hk'. cbn [map f_key bkey] in *. destruct Hk' as [<-|[<-|[<-|Hk']]]; [left; left; reflexivity|left; right; left; reflexivity| |left; right; right; exact Hk'].
        right. apply Hside. cbn [bkeys]. destruct (f_dir fp); rewrite EI in *.
        -- apply in_or_app. right. right. apply in_bkeys_root.
        -- apply in_or_app. left. apply in_bkeys_root.
      * injection Hp as <- <-. intros k' Hk'. cbn [map f_key bkey] in *. destruct Hk' as [<-|[<-|[<-|Hk']]]; [left; left; reflexivity|left; right; left; reflexivity| |left; right; right; exact Hk'].
        right. apply Hside. apply in_bkeys_root.
Qed.
End SideNe.

Lemma rproc_pathids kn zs C zs' F' : rproc kn zs C = At zs' F' ->
  forall i, In i (bid C :: map f_id zs) -> In i (bid F' :: map f_id zs').
Proof.
  intros Hp. destruct (rproc_next kn _ _ _ _ Hp) as (_ & _ & Eb).
  unfold rproc in Hp. destruct C as [|a q c k b]; [injection Hp as <- <-; auto|].
  set (d := k <? kn) in *.
  destruct (negb c && negb (bred (if d then b else a))); [|injection Hp as <- <-; auto].
  destruct (bred (if d then a else b)).
  - destruct (if d then a else b) as [|ya y cy ky yb]; [injection Hp as <- <-; auto|].
    injection Hp as <- <-. intros i Hi. rewrite Eb. cbn [map] in *. destruct Hi as [Hi|Hi]; [left; exact Hi|right; right; exact Hi].
  - destruct zs as [|fp zr]; [injection Hp as <- <-; auto|].
    destruct (f_sib fp) as [|sa s sc sk sb]; [injection Hp as <- <-; auto|].
    destruct (negb (bred (if f_dir fp then sa else sb)) && negb (bred (if f_dir fp then sb else sa))).
    + injection Hp as <- <-. intros i Hi. exact Hi.
    + destruct (bred (if f_dir fp then sb else sa)).
      * destruct (if f_dir fp then sb else sa) as [|ia i0 ci ik ib]; [injection Hp as <- <-; auto|].
        injection Hp as <- <-. intros i Hi. cbn [map f_id bid In] in *. tauto.
      * injection Hp as <- <-. intros i Hi. cbn [map f_id bid In] in *. tauto.
Qed.

(* ------------------------------------------------------------------ the loop of remove *)
Section RSim.
Variables (node kn : Z).

Definition fstate (zs : list frame) (F : btree) (f gf : Z) : Prop :=
  (f = 0 /\ ~ In kn (bkey F :: map f_key zs)) \/
  (f = node /\ In node (bid F :: map f_id zs) /\ above zs F node gf).

Definition Rrel (h : ptrie) (s : rpos) (p q : Z) (dir : bool) (f gf : Z) : Prop :=
  child h HEAD false = 0 /\ key h node = kn /\ In node (bids (whole s)) /\
  match s with
  | AtHead T => q = HEAD /\ dir = true /\ rep h (child h HEAD true) T /\ Hyg 0 [] T /\ f = 0 /\ p = 0
  | At zs F => F <> BL /\ q = bid F /\ repz h zs q /\ rep h q F /\ Hyg 0 zs F /\ p = pl_id zs /\ dir = (bkey F <? kn) /\
               fstate zs F f gf
  end.

Lemma fstate_rproc zs C zs' F' f gf : dirs_ok kn zs -> sortedb (bkeys (plug zs C)) = true -> rproc kn zs C = At zs' F' ->
  fstate zs C f gf -> fstate zs' F' f gf.
Proof.
  intros D Hs Hp [[-> Hn]|(-> & Hi & Ha)].
  - left. split; [reflexivity|]. intros Hc. destruct (rproc_pathkeys kn _ _ _ _ D Hs Hp kn Hc) as [H|H]; [contradiction|apply H; reflexivity].
  - right. split; [reflexivity|]. split; [apply (rproc_pathids kn _ _ _ _ Hp); exact Hi|apply (above_rproc kn _ _ _ _ _ _ Hp); exact Ha].
Qed.

Lemma rrel_enter h zs0 C g p q' last f' gf' :
  child h HEAD false = 0 -> key h node = kn -> In node (bids (plug zs0 C)) -> repz h zs0 q' -> rep h q' C -> C <> BL -> Hyg 0 zs0 C ->
  pl_ok zs0 p last -> (forall fp zr, zs0 = fp :: zr -> t_ok zr g) -> dirs_ok kn zs0 -> sortedb (bkeys (plug zs0 C)) = true ->
  fstate zs0 C f' gf' ->
  let '(h', p') := hrm_proc h g p q' last (key h q' <? key h node) in
  Rrel h' (rproc kn zs0 C) p' q' (key h q' <? key h node) f' gf' /\
  (forall i, ~ In i (bids (plug zs0 C)) -> i <> HEAD -> hget h' i = hget h i).
Proof.
  intros Hhl Hkn Hin Hz Hr HC Hy Hp Hg D Hs Hf.
  assert (Ekq : key h q' = bkey C).
  { destruct C as [|ca cq cc ck cb]; [contradiction|]. cbn [rep] in Hr. cbn [bkey]. destruct Hr as (-> & _ & _ & Hk & _). exact Hk. }
  rewrite Ekq, Hkn.
  pose proof (hrm_proc_spec kn h zs0 C g p q' last Hz Hr HC Hy Hhl Hp Hg) as HS.
  pose proof (key_hrm_proc h g p q' last (bkey C <? kn) node) as HK.
  destruct (hrm_proc h g p q' last (bkey C <? kn)) as [h' p']. cbn [fst] in HK.
  destruct HS as (zs' & F' & Ep & Z' & R' & Y' & HL' & Epp & Fr). rewrite Ep.
  destruct (rproc_shape kn zs0 C) as (zs'' & F'' & Ep' & _ & Ei). rewrite Ep in Ep'. injection Ep' as <- <-.
  destruct (rproc_next kn _ _ _ _ Ep) as (_ & Ek & _).
  split; [|exact Fr].
  split; [exact HL'|]. split; [rewrite HK; exact Hkn|]. split; [cbn [whole]; rewrite Ei; exact Hin|].
  assert (Hq0 : q' <> 0) by (intros E0; apply HC; apply (rep_leaf_iff _ _ _ Hr); exact E0).
  split; [intros ->; apply Hq0; exact R'|]. split; [apply (rep_bid _ _ _ R')|]. split; [exact Z'|]. split; [exact R'|]. split; [exact Y'|].
  split; [exact Epp|]. split; [rewrite Ek; reflexivity|]. apply (fstate_rproc zs0 C zs' F' f' gf' D Hs Ep Hf).
Qed.

Lemma not_node_key h W r q' : rep h r W -> sortedb (bkeys W) = true -> In node (bids W) -> In q' (bids W) -> key h node = kn ->
  (q' =? node) = false -> key h q' <> kn.
Proof.
  intros Hr Hs Hn Hq Hk Hne E. apply Z.eqb_neq in Hne. apply Hne. apply (rep_key_inj h W r q' node Hr Hs Hq Hn). congruence.
Qed.

Lemma rrel_step h s p q dir f gf : RAll kn s -> Rrel h s p q dir f gf ->
  match rstep kn s with
  | None => child h q dir = 0
  | Some s' => child h q dir <> 0 /\
      let q' := child h q dir in let dir' := key h q' <? key h node in
      let fgf := if q' =? node then (q', p) else (f, gf) in
      let '(h', p') := hrm_proc h p q q' dir dir' in
      Rrel h' s' p' q' dir' (fst fgf) (snd fgf) /\
      (forall i, ~ In i (bids (whole s)) -> i <> HEAD -> hget h' i = hget h i)
  end.
Proof.
  intros (I & Hs & D) (Hhl & Hkn & Hin & R). unfold rstep. destruct s as [T|zs F]; cbn [rdown whole] in *.
  - destruct R as (-> & -> & HrT & Hy & -> & ->).
    destruct T as [|a r c k b]; [exact HrT|].
    assert (Er : child h HEAD true = r) by (apply (rep_bid _ _ _ HrT)).
    split; [rewrite Er; cbn [rep] in HrT; tauto|]. cbn zeta. rewrite Er in *.
    apply (rrel_enter h [] (BN a r c k b) 0 HEAD r true).
    + exact Hhl.
    + exact Hkn.
    + exact Hin.
    + cbn [repz]. exact Er.
    + exact HrT.
    + discriminate.
    + exact Hy.
    + split; reflexivity.
    + intros fp zr E. discriminate.
    + constructor.
    + exact Hs.
    + destruct (r =? node) eqn:En; cbn [fst snd].
      * apply Z.eqb_eq in En. right. split; [exact En|]. split; [left; cbn [bid]; exact En|left; reflexivity].
      * left. split; [reflexivity|]. cbn [bkey map]. intros [Hc|[]].
        apply (not_node_key h _ r r HrT Hs Hin ltac:(cbn; apply in_or_app; right; left; reflexivity) Hkn En).
        cbn [rep] in HrT. destruct HrT as (_ & _ & _ & Hk & _). congruence.
  - destruct R as (HF & -> & Hz & Hr & Hy & -> & -> & Hf). destruct F as [|a q c k b]; [contradiction|]. cbn [bid bkey] in *.
    set (d := k <? kn) in *.
    destruct (rep_children _ _ _ _ _ _ Hr) as (Hc & Hk & Hch).
    pose proof (Hch d) as HrX.
    destruct (if d then b else a) as [|xa xq xc xk xb] eqn:EX; [exact HrX|].
    assert (Eq' : child h q d = xq) by (apply (rep_bid _ _ _ HrX)).
    split; [rewrite Eq'; cbn [rep] in HrX; tauto|]. cbn zeta. rewrite Eq' in *.
    set (fq := mkf d q c k (if d then a else b)).
    assert (Epl : plug (fq :: zs) (BN xa xq xc xk xb) = plug zs (BN a q c k b)).
    { cbn [plug]. rewrite <- EX. unfold fq. rewrite <- (BN_as_fill a q c k b d). reflexivity. }
    cbn [whole]. rewrite <- Epl.
    apply (rrel_enter h (fq :: zs) (BN xa xq xc xk xb) (pl_id zs) q xq d).
    + exact Hhl.
    + exact Hkn.
    + rewrite Epl. exact Hin.
    + cbn [repz fq f_id f_red f_key f_dir f_sib]. pose proof Hr as Hr'. cbn [rep] in Hr'. destruct Hr' as (_ & Hq0 & _).
      split; [exact Hq0|]. split; [exact Hc|]. split; [exact Hk|]. split; [exact Eq'|]. split; [|exact Hz].
      pose proof (Hch (negb d)) as HrY. rewrite if_negb in HrY. exact HrY.
    + exact HrX.
    + discriminate.
    + apply (hyg_bids_eq 0 zs (BN a q c k b)); [rewrite Epl; reflexivity|exact Hy].
    + split; reflexivity.
    + intros fp zr E. injection E as _ <-. unfold t_ok. destruct zs; reflexivity.
    + constructor; [reflexivity|exact D].
    + rewrite Epl. exact Hs.
    + pose proof (rep_plug h zs q _ Hz Hr) as HrW.
      assert (Hxq : In xq (bids (plug zs (BN a q c k b)))).
      { rewrite <- Epl. apply in_plug_ids. right. cbn. apply in_or_app. right. left. reflexivity. }
      destruct (xq =? node) eqn:En; cbn [fst snd].
      * apply Z.eqb_eq in En. right. split; [exact En|]. split; [left; cbn [bid]; exact En|].
        destruct zs as [|fp zr]; [right; left; reflexivity|]. right. right. exists [fq], (fp :: zr). split; [reflexivity|].
        split; [split; [discriminate|reflexivity]|left; cbn [bid]; exact En].
      * destruct Hf as [[-> Hn]|(-> & Hi & Ha)].
        -- left. split; [reflexivity|]. cbn [bkey map fq f_key] in *. intros [Hc'|Hc']; [|exact (Hn Hc')].
           apply (not_node_key h _ _ xq HrW Hs Hin Hxq Hkn En). cbn [rep] in HrX. destruct HrX as (_ & _ & _ & Hkx & _). congruence.
        -- right. split; [reflexivity|]. split; [cbn [bid map fq f_id] in *; right; exact Hi|apply (above_push zs (BN a q c k b)); [reflexivity|exact Ha]].
Qed.

Theorem remove_loop_sim : forall fuel s h g p q dir f gf,
  RAll kn s -> Rrel h s p q dir f gf -> (rmeasure kn s < fuel)%nat ->
  exists e h' g' p' q' f' gf' dir',
    rloop kn fuel s = Some e /\ remove_loop fuel h node g p q f gf dir = (h', (g', p', q', f', gf')) /\
    Rrel h' e p' q' dir' f' gf' /\ RAll kn e /\ rstep kn e = None /\
    bkeys (whole e) = bkeys (whole s) /\ bids (whole e) = bids (whole s) /\
    (forall i, ~ In i (bids (whole s)) -> i <> HEAD -> hget h' i = hget h i).
Proof.
  induction fuel as [|fu IH]; intros s h g p q dir f gf A R Hm; [lia|].
  rewrite remove_loop_S. cbn [rloop]. pose proof (rrel_step h s p q dir f gf A R) as HS.
  destruct (rstep kn s) as [s'|] eqn:Es.
  - destruct HS as [Hne HS]. destruct (Z.eqb_spec (child h q dir) 0) as [E0|_]; [contradiction|]. cbn zeta in *.
    destruct (hrm_proc h p q (child h q dir) dir (key h (child h q dir) <? key h node)) as [h1 p1]. destruct HS as [HS Hfr1].
    destruct (rstep_all kn _ _ A Es) as (A' & Ek & Ei & Hm').
    destruct (IH s' h1 p p1 (child h q dir) _ _ _ A' HS ltac:(lia)) as (e & h' & g' & p' & q' & f' & gf' & dir' & E1 & E2 & R' & Ae & Hn & Ek' & Ei' & Hfr2).
    exists e, h', g', p', q', f', gf', dir'. split; [exact E1|]. split; [exact E2|]. split; [exact R'|]. split; [exact Ae|]. split; [exact Hn|].
    split; [congruence|]. split; [congruence|]. intros i Hi Hh. rewrite Hfr2; [apply Hfr1; assumption|rewrite Ei; exact Hi|exact Hh].
  - rewrite HS, Z.eqb_refl. exists s, h, g, p, q, f, gf, dir. split; [reflexivity|]. split; [reflexivity|]. split; [exact R|]. split; [exact A|].
    split; [exact Es|]. split; [reflexivity|]. split; [reflexivity|]. intros; reflexivity.
Qed.
End RSim.

(* ------------------------------------------------------------------ after the loop *)
Lemma repz_set_head h zs n c X : repz h zs n -> Hyg 0 zs X ->
  let h' := set_child h (pl_id zs) (pl_dir zs) c in
  repz h' zs c /\ (forall i, i <> pl_id zs -> hget h' i = hget h i) /\ child h' HEAD false = child h HEAD false.
Proof.
  intros Hz Hy. cbn zeta. destruct zs as [|f zs]; cbn [pl_id pl_dir].
  - split; [|split].
    + cbn [repz]. unfold child. rewrite hget_set_child_same by (unfold HEAD; lia). reflexivity.
    + intros i Hi. apply hget_set_child_other. exact Hi.
    + rewrite child_set_child by (unfold HEAD; lia). rewrite Z.eqb_refl. reflexivity.
  - destruct (hyg_frame _ _ _ _ Hy) as (F1 & _ & _ & F4 & F5 & _).
    split; [apply (repz_set_child h f zs n c); assumption|]. split; [intros i Hi; apply hget_set_child_other; exact Hi|].
    rewrite child_set_child by lia. destruct (Z.eqb_spec HEAD (f_id f)) as [E|E]; [unfold HEAD in E; lia|reflexivity].
Qed.

(* path segments: repz over an append *)
Fixpoint seg (h : ptrie) (zb : list frame) (m n : Z) : Prop :=
  match zb with
  | [] => m = n
  | f :: zb' => f_id f <> 0 /\ is_red h (f_id f) = f_red f /\ key h (f_id f) = f_key f /\
                child h (f_id f) (f_dir f) = n /\ rep h (child h (f_id f) (negb (f_dir f))) (f_sib f) /\ seg h zb' m (f_id f)
  end.

Lemma repz_app h : forall zb za n, repz h (zb ++ za) n <-> exists m, seg h zb m n /\ repz h za m.
Proof.
  induction zb as [|f zb IH]; intros za n; cbn [app seg repz].
  - split; [intros H; exists n; split; [reflexivity|exact H]|intros (m & -> & H); exact H].
  - rewrite IH. split.
    + intros (H0 & H1 & H2 & H3 & H4 & m & H5 & H6). exists m. repeat split; auto.
    + intros (m & (H0 & H1 & H2 & H3 & H4 & H5) & H6). repeat split; auto. exists m. split; assumption.
Qed.

Lemma seg_frame h h' : forall zb m n, (forall i, In i (zids zb) -> hget h' i = hget h i) -> seg h zb m n -> seg h' zb m n.
Proof.
  induction zb as [|f zb IH]; intros m n Hs Hr; cbn [seg] in *; [exact Hr|].
  destruct Hr as (H0 & H1 & H2 & H3 & H4 & H5).
  assert (Hf : hget h' (f_id f) = hget h (f_id f)) by (apply Hs; apply in_zids_cons; right; left; reflexivity).
  unfold is_red, key, child in *. rewrite Hf. split; [exact H0|]. split; [exact H1|]. split; [exact H2|]. split; [exact H3|]. split.
  - apply (rep_frame h h'); [|exact H4]. intros i Hi. apply Hs. apply in_zids_cons. right. right. exact Hi.
  - apply IH; [|exact H5]. intros i Hi. apply Hs. apply in_zids_cons. left. exact Hi.
Qed.

Lemma zids_app zb za i : In i (zids (zb ++ za)) <-> In i (zids zb) \/ In i (zids za).
Proof.
  induction zb as [|f zb IH]; cbn [app]; [unfold zids at 2; cbn; tauto|].
  rewrite !in_zids_cons, IH. tauto.
Qed.

Lemma seg_app h : forall a b m n, seg h (a ++ b) m n <-> exists m', seg h a m' n /\ seg h b m m'.
Proof.
  induction a as [|f a IH]; intros b m n; cbn [app seg].
  - split; [intros H; exists n; split; [reflexivity|exact H]|intros (m' & -> & H); exact H].
  - rewrite IH. split.
    + intros (H0 & H1 & H2 & H3 & H4 & m' & H5 & H6). exists m'. repeat split; auto.
    + intros (m' & (H0 & H1 & H2 & H3 & H4 & H5) & H6). repeat split; auto. exists m'. split; assumption.
Qed.

Lemma repz_child_head h zs n : repz h zs n -> child h (pl_id zs) (pl_dir zs) = n.
Proof. destruct zs as [|f zs]; cbn [repz pl_id pl_dir]; [auto|tauto]. Qed.

Definition relink_at (h : ptrie) (n : Z) (d : bool) (q f : Z) : ptrie :=
  let h1 := set_child h n d q in let fn := hget h1 f in
  hset h1 q (mktn (t_left fn) (t_right fn) (t_red fn) (t_key (hget h1 q))).

(* the walk from a path node above f down to the parent of f *)
Lemma relink_walk h node kn q : key h node = kn -> forall zmid zpost fuel m2,
  (length zmid < fuel)%nat -> seg h zmid m2 node -> repz h zpost m2 ->
  Forall (fun f => f_dir f = (f_key f <? kn)) zmid -> Forall (fun f => f_id f <> node) zmid ->
  relink_loop fuel h node (pl_id zpost) q node (pl_dir zpost) =
  relink_at h (pl_id (zmid ++ zpost)) (pl_dir (zmid ++ zpost)) q node.
Proof.
  intros Hkn. induction zmid as [|z zm IH] using rev_ind; intros zpost fuel m2 Hf Hseg Hz D N.
  - cbn [seg] in Hseg. subst m2. destruct fuel as [|fu]; [cbn in Hf; lia|]. cbn [relink_loop app].
    rewrite (repz_child_head _ _ _ Hz), Z.eqb_refl. reflexivity.
  - apply seg_app in Hseg. destruct Hseg as (m' & S1 & S2). cbn [seg] in S2. destruct S2 as (Z0 & Z1 & Z2 & Z3 & Z4 & Em). 
    rewrite app_length in Hf. cbn [length] in Hf. destruct fuel as [|fu]; [lia|]. cbn [relink_loop].
    rewrite (repz_child_head _ _ _ Hz). rewrite Em.
    apply Forall_app in D. destruct D as [D1 D2]. pose proof (Forall_inv D2) as Dz. cbn beta in Dz.
    apply Forall_app in N. destruct N as [N1 N2]. pose proof (Forall_inv N2) as Nz. cbn beta in Nz.
    destruct (Z.eqb_spec (f_id z) node) as [E|_]; [contradiction|].
    rewrite Z2, Hkn, <- Dz.
    assert (Hz' : repz h (z :: zpost) m').
    { cbn [repz]. rewrite Em in Hz. repeat split; auto. }
    rewrite <- app_assoc. cbn [app].
    apply (IH (z :: zpost) fu m' ltac:(lia) S1 Hz' D1 N1).
Qed.

Lemma pl_id_zids za : pl_id za = HEAD \/ In (pl_id za) (zids za).
Proof. destruct za as [|f za]; [left; reflexivity|right; apply in_zids_cons; right; left; reflexivity]. Qed.

(* the effect of the re-link: q takes the place of the found node *)
Lemma relink_effect h zb ff za q k :
  repz h (zb ++ ff :: za) 0 -> Hyg 0 (zb ++ ff :: za) BL -> ~ In q (zids (zb ++ ff :: za)) -> 1 < q -> key h q = k ->
  let h3 := relink_at h (pl_id za) (pl_dir za) q (f_id ff) in
  repz h3 (zb ++ mkf (f_dir ff) q (f_red ff) k (f_sib ff) :: za) 0 /\
  (forall i, i <> q -> i <> pl_id za -> hget h3 i = hget h i) /\ child h3 HEAD false = child h HEAD false.
Proof.
  intros Hz Hy Hq Pq Hk. cbn zeta. unfold relink_at.
  apply repz_app in Hz. destruct Hz as (m & Sb & Hz). cbn [repz] in Hz. destruct Hz as (F0 & F1 & F2 & F3 & F4 & Hza).
  assert (Hy' : Hyg 0 za (fill ff (plug zb BL))) by (unfold Hyg in *; rewrite plug_app in Hy; exact Hy).
  destruct (hyg_focus _ _ _ Hy') as (NO & DO & PO & PZ).
  assert (Hnode_in : In (f_id ff) (bids (fill ff (plug zb BL)))) by (apply in_bids_fill; left; reflexivity).
  destruct (repz_set_head h za (f_id ff) q _ Hza Hy') as (Z1 & Z2 & Z3).
  set (h1 := set_child h (pl_id za) (pl_dir za) q) in *.
  assert (Hnq : q <> pl_id za).
  { destruct (pl_id_zids za) as [E|E]; [rewrite E; unfold HEAD; lia|]. intros Eq. apply Hq. apply zids_app. right. apply in_zids_cons. left. rewrite Eq. exact E. }
  assert (Hnn : f_id ff <> pl_id za).
  { destruct (pl_id_zids za) as [E|E]; [rewrite E; destruct (PO _ Hnode_in); unfold HEAD; lia|]. intros Eq. apply (DO _ Hnode_in). rewrite Eq. exact E. }
  assert (Hqn : q <> f_id ff) by (intros ->; apply Hq; apply zids_app; right; apply in_zids_cons; right; left; reflexivity).
  rewrite (Z2 (f_id ff) Hnn), (Z2 q Hnq).
  set (fn := hget h (f_id ff)).
  set (h3 := hset h1 q (mktn (t_left fn) (t_right fn) (t_red fn) (t_key (hget h q)))).
  assert (Hq3 : hget h3 q = mktn (t_left fn) (t_right fn) (t_red fn) (t_key (hget h q))) by (unfold h3; apply hget_hset_same; lia).
  assert (Ho3 : forall i, i <> q -> hget h3 i = hget h1 i) by (intros i Hi; unfold h3; apply hget_hset_other; congruence).
  split; [|split].
  - apply repz_app. exists m. split.
    + apply (seg_frame h h3); [|exact Sb]. intros i Hi. rewrite Ho3.
      * apply Z2. intros Eq. destruct (pl_id_zids za) as [E|E].
        -- destruct (hyg_focus _ _ _ Hy) as (_ & _ & _ & PZ'). destruct (PZ' i ltac:(apply zids_app; left; exact Hi)). rewrite Eq, E in *. unfold HEAD in *. lia.
        -- apply (DO i); [apply in_bids_fill; right; left; apply in_plug_ids; left; exact Hi|rewrite Eq; exact E].
      * intros ->. apply Hq. apply zids_app. left. exact Hi.
    + cbn [repz f_id f_dir f_red f_key f_sib]. unfold is_red, key, child in *. rewrite Hq3. cbn [t_left t_right t_red t_key].
      destruct (Z.eqb_spec q 0); [lia|]. destruct (Z.eqb_spec (f_id ff) 0); [contradiction|].
      split; [lia|]. split; [exact F1|]. split; [exact Hk|]. split; [destruct (f_dir ff); exact F3|]. split.
      * assert (Ec : (if negb (f_dir ff) then t_right fn else t_left fn) = (if negb (f_dir ff) then t_right (hget h (f_id ff)) else t_left (hget h (f_id ff)))) by reflexivity.
        rewrite Ec. apply (rep_frame h h3); [|exact F4]. intros i Hi. rewrite Ho3.
        -- apply Z2. intros Eq. destruct (pl_id_zids za) as [E|E].
           ++ destruct (PO i ltac:(apply in_bids_fill; right; right; exact Hi)). rewrite Eq, E in *. unfold HEAD in *. lia.
           ++ apply (DO i); [apply in_bids_fill; right; right; exact Hi|rewrite Eq; exact E].
        -- intros ->. apply Hq. apply zids_app. right. apply in_zids_cons. right. right. exact Hi.
      * apply (repz_frame h1 h3); [| |exact Z1].
        -- intros i Hi. apply Ho3. intros ->. apply Hq. apply zids_app. right. apply in_zids_cons. left. exact Hi.
        -- apply Ho3. unfold HEAD. lia.
  - intros i H1 H2. rewrite Ho3 by exact H1. apply Z2. exact H2.
  - rewrite <- Z3. apply head_left_frame. apply Ho3. unfold HEAD. lia.
Qed.

(* ------------------------------------------------------------------ length of the path (for the fuel of the re-link walk) *)
Definition rplen (s : rpos) : nat := match s with AtHead _ => O | At zs _ => length zs end.

Lemma rproc_len kn zs C zs' F' : rproc kn zs C = At zs' F' -> (length zs' <= length zs + 1)%nat.
Proof.
  unfold rproc. destruct C as [|a q c k b]; [intros H; injection H as <- <-; lia|].
  destruct (negb c && negb (bred (if k <? kn then b else a))); [|intros H; injection H as <- <-; lia].
  destruct (bred (if k <? kn then a else b)).
  - destruct (if k <? kn then a else b); intros H; injection H as <- <-; cbn [length]; lia.
  - destruct zs as [|fp zr]; [intros H; injection H as <- <-; lia|].
    destruct (f_sib fp) as [|sa s sc sk sb]; [intros H; injection H as <- <-; lia|].
    destruct (negb (bred (if f_dir fp then sa else sb)) && negb (bred (if f_dir fp then sb else sa))); [intros H; injection H as <- <-; cbn [length]; lia|].
    destruct (bred (if f_dir fp then sb else sa)); [|intros H; injection H as <- <-; cbn [length]; lia].
    destruct (if f_dir fp then sb else sa); intros H; injection H as <- <-; cbn [length]; lia.
Qed.

Lemma rstep_len kn s s' : rstep kn s = Some s' -> (rplen s' <= rplen s + 2)%nat.
Proof.
  unfold rstep. destruct (rdown kn s) as [[zs C]|] eqn:Ed; [|discriminate]. intros H; injection H as <-.
  destruct (rproc_shape kn zs C) as (zs' & F' & Ep & _). rewrite Ep. pose proof (rproc_len kn _ _ _ _ Ep) as Hl. cbn [rplen].
  destruct s as [T|zs0 F]; cbn [rdown rplen] in *.
  - destruct T; [discriminate|]. injection Ed as <- _. cbn [length] in Hl. lia.
  - destruct F as [|a q c k b]; [discriminate|]. destruct (if k <? kn then b else a); [discriminate|]. injection Ed as <- _. cbn [length] in Hl. lia.
Qed.

Lemma rloop_len kn : forall fuel s e, RAll kn s -> rloop kn fuel s = Some e -> (rplen e + 2 * rmeasure kn e <= rplen s + 2 * rmeasure kn s)%nat.
Proof.
  induction fuel as [|fu IH]; intros s e A H; cbn [rloop] in H; [discriminate|].
  destruct (rstep kn s) as [s'|] eqn:Es; [|injection H as <-; lia].
  destruct (rstep_all kn _ _ A Es) as (A' & _ & _ & Hm). pose proof (rstep_len kn _ _ Es). specialize (IH s' e A' H). lia.
Qed.

(* the first frame that turned left holds the smallest key right of the focus *)
Lemma rctx_head_frame kn : forall zs R', dirs_ok kn zs -> rctx zs = kn :: R' ->
  exists zb ff za, zs = zb ++ ff :: za /\ f_key ff = kn /\ Forall (fun fr => f_key fr <> kn) zb.
Proof.
  induction zs as [|f zs IH]; intros R' D Hr; cbn [rctx] in Hr; [discriminate|].
  inversion D as [|? ? Df D']; subst.
  destruct (f_dir f) eqn:Ed.
  - cbn [app] in Hr. destruct (IH R' D' Hr) as (zb & ff & za & -> & E & Fz). exists (f :: zb), ff, za. split; [reflexivity|]. split; [exact E|].
    constructor; [|exact Fz]. symmetry in Df. apply Z.ltb_lt in Df. lia.
  - cbn [app] in Hr. injection Hr as Hk _. exists [], f, zs. split; [reflexivity|]. split; [exact Hk|constructor].
Qed.

Lemma zrename_split kn q k zb ff za : f_key ff = kn -> Forall (fun fr => f_key fr <> kn) zb ->
  zrename kn q k (zb ++ ff :: za) = zb ++ mkf (f_dir ff) q (f_red ff) k (f_sib ff) :: za.
Proof.
  intros E Fz. induction zb as [|f zb IH]; cbn [app zrename].
  - rewrite E, Z.eqb_refl. reflexivity.
  - inversion Fz as [|? ? H1 H2]; subst. destruct (Z.eqb_spec (f_key f) (f_key ff)); [contradiction|]. rewrite IH by exact H2. reflexivity.
Qed.

Lemma hyg_drop_leaf zs q c k : Hyg 0 zs (BN BL q c k BL) -> Hyg 0 zs BL /\ ~ In q (zids zs) /\ 1 < q.
Proof.
  intros Hy. destruct (hyg_focus _ _ _ Hy) as (_ & DF & PF & _).
  assert (Hq : In q (bids (BN BL q c k BL))) by (left; reflexivity).
  split; [|split; [apply DF; exact Hq|apply PF; exact Hq]].
  destruct Hy as [N P]. unfold Hyg. rewrite plug_ids in *. cbn [bids app] in *. split.
  - apply NoDup_remove_1 in N. exact N.
  - rewrite Forall_forall in *. intros i Hi. apply P. apply in_app_or in Hi. apply in_or_app. destruct Hi as [Hi|Hi]; [left; exact Hi|right; right; exact Hi].
Qed.

Lemma nodup_frame_ids : forall zs X, Hyg 0 zs X -> NoDup (map f_id zs).
Proof.
  induction zs as [|f zs IH]; intros X Hy; cbn [map]; [constructor|].
  destruct (hyg_frame _ _ _ _ Hy) as (_ & _ & _ & _ & F5 & _ & _ & _ & Hy').
  constructor; [|apply (IH _ Hy')]. intros Hi. apply F5. apply in_map_iff in Hi. destruct Hi as (g & Eg & Hg).
  apply in_split in Hg. destruct Hg as (u1 & u2 & ->). apply zids_app. right. apply in_zids_cons. right. left. symmetry. exact Eg.
Qed.

Lemma split_unique {A B} (key : A -> B) : forall a a' x x' b b', NoDup (map key (a ++ x :: b)) ->
  a ++ x :: b = a' ++ x' :: b' -> key x = key x' -> a = a' /\ x = x' /\ b = b'.
Proof.
  induction a as [|y a IH]; intros a' x x' b b' Hn E Ek.
  - destruct a' as [|y' a']; cbn [app] in E.
    + injection E as -> ->. auto.
    + exfalso. injection E as -> ->. cbn [app map] in Hn. apply NoDup_cons_iff in Hn. destruct Hn as [Hn _]. apply Hn.
      rewrite Ek, map_app. apply in_or_app. right. left. reflexivity.
  - destruct a' as [|y' a']; cbn [app] in E.
    + exfalso. injection E as E1 _. subst y. cbn [app map] in Hn. apply NoDup_cons_iff in Hn. destruct Hn as [Hn _]. apply Hn.
      rewrite <- Ek, map_app. apply in_or_app. right. left. reflexivity.
    + injection E as -> E. cbn [app map] in Hn. apply NoDup_cons_iff in Hn. destruct Hn as [_ Hn].
      destruct (IH a' x x' b b' Hn E Ek) as (-> & -> & ->). auto.
Qed.

Section Finish.
Variables (node kn : Z).

Lemma tree_remove_finish fuel h1 zs q c k p dir f gf :
  let F := BN BL q c k BL in
  RAll kn (At zs F) -> Rrel node kn h1 (At zs F) p q dir f gf -> (length zs < fuel)%nat ->
  let h2 := set_child h1 p (child h1 p true =? q) (child h1 q (child h1 q false =? 0)) in
  let h3 := if f =? q then h2
            else let n := if gf =? 0 then HEAD else gf in
                 relink_loop fuel h2 node n q f (if n =? HEAD then true else key h2 n <? key h2 node) in
  let W := if k =? kn then plug zs BL else plug (zrename kn q k zs) BL in
  rep h3 (child h3 HEAD true) W /\ NoDup (bids W) /\ (forall i, In i (bids W) -> 1 < i) /\
  (forall i, In i (bids W) -> In i (bids (plug zs F))) /\
  (forall i, ~ In i (bids (plug zs F)) -> i <> HEAD -> hget h3 i = hget h1 i).
Proof.
  intros F (I & Hs & D) (Hhl & Hkn & Hin & HF & _ & Hz & Hr & Hy & -> & _ & Hf) Hlen. cbn [whole] in Hs, Hin.
  pose proof Hr as Hr0. unfold F in Hr0. cbn [rep] in Hr0. destruct Hr0 as (_ & Hq0 & _ & Hkq & Hl & Hrr).
  cbn zeta. rewrite Hl, Z.eqb_refl, Hrr.
  assert (Hqin : In q (bids F)) by (left; reflexivity).
  rewrite (dir_detect h1 zs q F (pl_id zs) (pl_dir zs) Hz Hy Hqin (pl_ok_self zs)).
  destruct (hyg_drop_leaf _ _ _ _ Hy) as (HyL & Hqz & Pq).
  destruct (repz_set_head h1 zs q 0 F Hz Hy) as (Z1 & Z2 & Z3).
  set (h2 := set_child h1 (pl_id zs) (pl_dir zs) 0) in *.
  pose proof (rep_plug h1 zs q F Hz Hr) as HrW.
  assert (HknW : In kn (bkeys (plug zs F))) by (rewrite <- Hkn; apply (rep_key_in h1 _ _ node HrW Hin)).
  assert (HqW : In q (bids (plug zs F))) by (apply in_plug_ids; right; exact Hqin).
  assert (Hk2 : forall i, key h2 i = key h1 i) by (intros i; unfold h2; apply key_set_child).
  assert (HsW : sortedb (bkeys (plug zs F)) = true) by exact Hs.
  rewrite plug_keys in Hs, HknW. unfold F in Hs, HknW. cbn [bkeys app] in Hs, HknW.
  destruct (ctx_bounds_weak kn zs [k] D Hs) as [BL' BR].
  assert (Hfr2 : forall i, ~ In i (bids (plug zs F)) -> i <> HEAD -> hget h2 i = hget h1 i).
  { intros i Hi Hh. apply Z2. intros Eq. destruct (pl_id_zids zs) as [E|E]; [congruence|]. apply Hi. apply in_plug_ids. left. rewrite Eq. exact E. }
  destruct (Z.eqb_spec k kn) as [Ek|Ek].
  - (* the bottom node is the found node *)
    assert (Eqn : q = node) by (apply (rep_key_inj h1 _ _ q node HrW HsW HqW Hin); congruence).
    assert (Ef : f = q).
    { destruct Hf as [[_ Hn]|(-> & _)]; [exfalso; apply Hn; left; cbn [bkey]; exact Ek|symmetry; exact Eqn]. }
    rewrite Ef, Z.eqb_refl. split; [apply (rep_plug h2 zs 0 BL Z1); reflexivity|]. destruct HyL as [N P]. split; [exact N|].
    split; [rewrite Forall_forall in P; intros i Hi; apply P; exact Hi|].
    split; [intros i Hi; apply in_plug_ids in Hi; apply in_plug_ids; destruct Hi as [Hi|[]]; left; exact Hi|exact Hfr2].
  - (* q takes the place of the found node *)
    assert (Hinr : In kn (rctx zs)).
    { apply in_app_or in HknW. destruct HknW as [H|[H|H]]; [specialize (BL' _ H); lia|congruence|exact H]. }
    destruct (rctx zs) as [|r0 R'] eqn:Er; [contradiction|].
    assert (Er0 : r0 = kn).
    { apply sortedb_app_iff in Hs. destruct Hs as (_ & Hs' & _). destruct (sortedb_cons _ _ Hs') as [Hs'' _].
      pose proof (sorted_head_min _ _ _ Hs'' Hinr). specialize (BR r0 (or_introl eq_refl)). lia. }
    subst r0. destruct (rctx_head_frame kn zs R' D Er) as (zb & ff & za & Ezs & Ekf & Fzb).
    assert (Hffin : In (f_id ff) (zids zs)) by (rewrite Ezs; apply zids_app; right; apply in_zids_cons; right; left; reflexivity).
    assert (Hkff : key h1 (f_id ff) = kn).
    { pose proof Hz as Hz'. rewrite Ezs in Hz'. apply repz_app in Hz'. destruct Hz' as (m & _ & Hz'). cbn [repz] in Hz'. destruct Hz' as (_ & _ & Hk' & _). congruence. }
    assert (Effn : f_id ff = node).
    { apply (rep_key_inj h1 _ _ (f_id ff) node HrW HsW); [apply in_plug_ids; left; exact Hffin|exact Hin|congruence]. }
    assert (Hnq : node <> q) by (intros E; apply Ek; rewrite <- Hkq, <- E; exact Hkn).
    destruct Hf as [[_ Hn]|(-> & Hi & Ha)].
    { exfalso. apply Hn. right. rewrite Ezs, map_app. apply in_or_app. right. left. exact Ekf. }
    destruct (Z.eqb_spec node q) as [|_]; [contradiction|].
    pose proof (nodup_frame_ids zs F Hy) as Nids.
    (* where the walk starts *)
    assert (Hstart : exists zmid zpost, za = zmid ++ zpost /\ (if gf =? 0 then HEAD else gf) = pl_id zpost).
    { destruct Ha as [->|[->|(zb' & za' & E' & (Hne & Eg) & G2)]]; [exists za, []; rewrite app_nil_r; split; reflexivity|exists za, []; rewrite app_nil_r; split; reflexivity|].
      destruct G2 as [G2|G2]; [unfold F in G2; cbn [bid] in G2; congruence|].
      apply in_map_iff in G2. destruct G2 as (fn & En & Hn). apply in_split in Hn. destruct Hn as (v1 & v2 & ->).
      rewrite <- app_assoc in E'. cbn [app] in E'.
      assert (Hu : zb = v1 /\ ff = fn /\ za = v2 ++ za').
      { apply (split_unique f_id zb v1 ff fn za (v2 ++ za')); [rewrite <- Ezs; exact Nids|rewrite <- Ezs; exact E'|congruence]. }
      destruct Hu as (_ & _ & Eza). exists v2, za'. split; [exact Eza|].
      destruct za' as [|fg u2]; [contradiction|]. cbn [pl_id] in *. destruct (Z.eqb_spec gf 0) as [E0|_]; [|exact Eg].
      exfalso. destruct (hyg_focus _ _ _ Hy) as (_ & _ & _ & PZ). destruct (PZ (f_id fg)) as [H1 _]; [|lia].
      rewrite E'. apply zids_app. right. apply in_zids_cons. left. apply zids_app. right. apply in_zids_cons. right. left. reflexivity. }
    destruct Hstart as (zmid & zpost & Eza & En). rewrite En.
    (* direction at the start of the walk *)
    assert (Edir : (if pl_id zpost =? HEAD then true else key h2 (pl_id zpost) <? key h2 node) = pl_dir zpost).
    { destruct zpost as [|fg u2]; cbn [pl_id pl_dir]; [rewrite Z.eqb_refl; reflexivity|].
      assert (Hfg : In (f_id fg) (zids zs)).
      { rewrite Ezs, Eza. apply zids_app. right. apply in_zids_cons. left. apply zids_app. right. apply in_zids_cons. right. left. reflexivity. }
      destruct (hyg_focus _ _ _ Hy) as (_ & _ & _ & PZ). destruct (PZ _ Hfg) as [P1 _].
      destruct (Z.eqb_spec (f_id fg) HEAD) as [E|_]; [unfold HEAD in E; lia|].
      rewrite !Hk2, Hkn.
      assert (Dfg : f_dir fg = (f_key fg <? kn)).
      { unfold dirs_ok in D. rewrite Forall_forall in D. apply D. rewrite Ezs, Eza. apply in_or_app. right. right. apply in_or_app. right. left. reflexivity. }
      assert (Kfg : key h1 (f_id fg) = f_key fg).
      { pose proof Hz as Hz'. rewrite Ezs, Eza in Hz'. apply repz_app in Hz'. destruct Hz' as (m & _ & Hz').
        change (ff :: zmid ++ fg :: u2) with ((ff :: zmid) ++ fg :: u2) in Hz'. apply repz_app in Hz'. destruct Hz' as (m' & _ & Hz'').
        cbn [repz] in Hz''. tauto. }
      rewrite Kfg. symmetry. exact Dfg. }
    rewrite Edir.
    (* the walk *)
    pose proof Z1 as Z1'. rewrite Ezs, Eza in Z1'. apply repz_app in Z1'. destruct Z1' as (m1 & Sb & Z1').
    cbn [repz] in Z1'. destruct Z1' as (G0 & G1 & G2 & G3 & G4 & Z1').
    apply repz_app in Z1'. destruct Z1' as (m2 & Smid & Zpost). rewrite Effn in Smid.
    assert (Dmid : Forall (fun f0 => f_dir f0 = (f_key f0 <? kn)) zmid).
    { unfold dirs_ok in D. rewrite Forall_forall in *. intros x Hx. apply D. rewrite Ezs, Eza. apply in_or_app. right. right. apply in_or_app. left. exact Hx. }
    assert (Nmid : Forall (fun f0 => f_id f0 <> node) zmid).
    { rewrite Forall_forall. intros x Hx E. rewrite Ezs, Eza, map_app in Nids. cbn [map] in Nids. apply NoDup_remove_2 in Nids. apply Nids.
      apply in_or_app. right. rewrite map_app. apply in_or_app. left. rewrite Effn, <- E. apply in_map. exact Hx. }
    assert (Hlm : (length zmid < fuel)%nat).
    { rewrite Ezs, Eza in Hlen. rewrite !app_length in Hlen. cbn [length] in Hlen. rewrite app_length in Hlen. lia. }
    rewrite (relink_walk h2 node kn q ltac:(rewrite Hk2; exact Hkn) zmid zpost fuel m2 Hlm Smid Zpost Dmid Nmid).
    rewrite <- Eza.
    (* its effect *)
    assert (Z1e : repz h2 (zb ++ ff :: za) 0) by (rewrite <- Ezs; exact Z1).
    assert (HyLe : Hyg 0 (zb ++ ff :: za) BL) by (rewrite <- Ezs; exact HyL).
    assert (Hqze : ~ In q (zids (zb ++ ff :: za))) by (rewrite <- Ezs; exact Hqz).
    assert (Hkq2 : key h2 q = k) by (rewrite Hk2; exact Hkq).
    destruct (relink_effect h2 zb ff za q k Z1e HyLe Hqze Pq Hkq2) as (E1 & E2 & E3). cbn zeta in E1, E2, E3.
    rewrite <- Effn.
    set (h3 := relink_at h2 (pl_id za) (pl_dir za) q (f_id ff)) in *.
    rewrite Ezs, (zrename_split kn q k zb ff za Ekf Fzb).
    split; [apply (rep_plug h3 _ 0 BL E1); reflexivity|].
    (* ids of the result *)
    destruct (rename_ctx kn q k zs R' D Er) as (_ & _ & I3 & i0 & I' & I4 & I5).
    rewrite <- (zrename_split kn q k zb ff za Ekf Fzb), <- Ezs.
    destruct Hy as [N P]. rewrite plug_ids in N, P. unfold F in N, P. cbn [bids app] in N, P. rewrite I4 in N, P.
    rewrite plug_ids, I3, I5. cbn [bids app].
    split.
    + change (lidx zs ++ q :: i0 :: I') with (lidx zs ++ [q] ++ i0 :: I') in N. rewrite app_assoc in N. apply NoDup_remove_1 in N.
      rewrite <- app_assoc in N. exact N.
    + assert (Hsub : forall j, In j (lidx zs ++ q :: I') -> In j (lidx zs ++ q :: i0 :: I')).
      { intros j Hj. apply in_app_or in Hj. apply in_or_app. destruct Hj as [Hj|[Hj|Hj]]; [left; exact Hj|right; left; exact Hj|right; right; right; exact Hj]. }
      split; [rewrite Forall_forall in P; intros j Hj; apply P; apply Hsub; exact Hj|].
      split; [intros j Hj; rewrite plug_ids; unfold F; cbn [bids app]; rewrite I4; apply Hsub; exact Hj|].
      intros j Hj Hh. unfold h3. rewrite E2.
      * apply Hfr2; assumption.
      * intros ->. apply Hj. exact HqW.
      * intros Eq. destruct (pl_id_zids za) as [E|E]; [congruence|]. apply Hj. apply in_plug_ids. left. rewrite Ezs. apply zids_app. right. apply in_zids_cons. left. rewrite Eq. exact E.
Qed.
End Finish.

(* ------------------------------------------------------------------ ArenaTree::remove as a whole *)
Theorem tree_remove_refines_f fuel t T b node :
  rep (heap t) (root t) T -> NoDup (bids T) -> (forall i, In i (bids T) -> 1 < i) -> In node (bids T) ->
  bbh T = Some b -> sortedb (bkeys T) = true -> (2 * bheight T + 2 < fuel)%nat ->
  let kn := key (heap t) node in
  let t' := tree_remove_f fuel t node in
  exists R, zremove kn fuel T = Some R /\ rep (heap t') (root t') R /\ NoDup (bids R) /\ (forall i, In i (bids R) -> 1 < i) /\
    (forall i, In i (bids R) -> In i (bids T)) /\
    (forall i, ~ In i (bids T) -> i <> HEAD -> hget (heap t') i = hget (heap t) i).
Proof.
  intros Hr Hnd Hpos Hin Hb Hs Hh kn. cbn zeta. unfold tree_remove_f.
  set (h0 := hset (heap t) HEAD (mktn 0 (root t) false 0)).
  assert (Hh0 : hget h0 HEAD = mktn 0 (root t) false 0) by (unfold h0; apply hget_hset_same; unfold HEAD; lia).
  assert (Ho0 : forall i, i <> HEAD -> hget h0 i = hget (heap t) i) by (intros i Hi; unfold h0; apply hget_hset_other; congruence).
  assert (Hnh : node <> HEAD) by (specialize (Hpos _ Hin); unfold HEAD; lia).
  assert (A : RAll kn (AtHead T)) by (split; [exists b; exact Hb|split; [exact Hs|exact I]]).
  assert (R0 : Rrel node kn h0 (AtHead T) 0 HEAD true 0 0).
  { split; [unfold child; rewrite Hh0; reflexivity|]. split; [unfold key; rewrite Ho0 by exact Hnh; reflexivity|]. split; [exact Hin|].
    split; [reflexivity|]. split; [reflexivity|]. split.
    - assert (Er : child h0 HEAD true = root t) by (unfold child; rewrite Hh0; reflexivity). rewrite Er.
      apply (rep_frame (heap t)); [|exact Hr]. intros i Hi. apply Ho0. specialize (Hpos _ Hi). unfold HEAD. lia.
    - split; [|split; reflexivity]. split; [exact Hnd|]. apply Forall_forall. intros i Hi. specialize (Hpos _ Hi). split; lia. }
  destruct (remove_loop_sim node kn fuel (AtHead T) h0 0 0 HEAD true 0 0 A R0 ltac:(cbn [rmeasure]; lia))
    as (e & h1 & g & p & q & f & gf & dir' & E1 & E2 & R' & Ae & Hn & Ek & Ei & Hfrl). cbn [whole] in Hfrl.
  rewrite E2. pose proof (rloop_len kn fuel _ _ A E1) as Hlen. cbn [rplen rmeasure] in Hlen.
  destruct e as [T'|zs F].
  { exfalso. unfold rstep in Hn. cbn [rdown whole] in *. destruct T'; [rewrite <- Ei in Hin; exact Hin|discriminate]. }
  destruct (end_leaf kn zs F (proj1 Ae) Hn) as (q' & c & k & EF & _). subst F.
  assert (Eq : q = q') by (destruct R' as (_ & _ & _ & _ & Eq & _); exact Eq). subst q'.
  assert (Hl : (length zs < fuel)%nat) by (cbn [rplen] in Hlen; lia).
  destruct (tree_remove_finish node kn fuel h1 zs q c k p dir' f gf Ae R' Hl) as (F1 & F2 & F3 & F4 & F5). cbn zeta in F1, F2, F3, F4, F5.
  set (h2 := set_child h1 p (child h1 p true =? q) (child h1 q (child h1 q false =? 0))) in *.
  set (h3 := if f =? q then h2
             else relink_loop fuel h2 node (if gf =? 0 then HEAD else gf) q f
                    (if (if gf =? 0 then HEAD else gf) =? HEAD then true else key h2 (if gf =? 0 then HEAD else gf) <? key h2 node)) in *.
  set (W := if k =? kn then plug zs BL else plug (zrename kn q k zs) BL) in *.
  exists (blacken W). split; [unfold zremove; rewrite E1; reflexivity|].
  destruct (blacken_keys W) as [_ Eb]. rewrite Eb. cbn [heap root].
  cbn [whole] in Ei.
  assert (Hsub : forall i, In i (bids W) -> In i (bids T)) by (intros i Hi; rewrite <- Ei; apply F4; exact Hi).
  assert (Hfrall : forall i, ~ In i (bids T) -> i <> HEAD -> hget h3 i = hget (heap t) i).
  { intros i Hi Hhd. rewrite F5; [|rewrite Ei; exact Hi|exact Hhd]. rewrite Hfrl by assumption. apply Ho0. exact Hhd. }
  split; [|split; [exact F2|split; [exact F3|split; [exact Hsub|]]]].
  2:{ intros i Hi Hhd. destruct (Z.eqb_spec (child h3 HEAD true) 0) as [E0|E0]; [apply Hfrall; assumption|].
      rewrite hget_set_red_other; [apply Hfrall; assumption|]. intros ->. apply Hi. apply Hsub. rewrite (rep_bid _ _ _ F1). apply bid_in.
      intros EW. apply E0. apply (rep_leaf_iff _ _ _ F1). exact EW. }
  destruct (Z.eqb_spec (child h3 HEAD true) 0) as [E0|E0].
  - assert (EW : W = BL) by (apply (rep_leaf_iff _ _ _ F1); exact E0). rewrite EW in *. rewrite E0 in *. cbn [blacken]. exact F1.
  - assert (HW : W <> BL) by (intros EW; apply E0; apply (rep_leaf_iff _ _ _ F1); exact EW).
    pose proof (rep_bid _ _ _ F1) as Er. rewrite Er.
    assert (Pr : 0 < bid W) by (assert (1 < bid W); [apply F3; apply bid_in; exact HW|lia]).
    pose proof (set_red_rep h3 (bid W) false Pr _ _ F1) as Hfin. rewrite Er in Hfin.
    rewrite (recolor_blacken_root W F2 HW) in Hfin. exact Hfin.
Qed.

Theorem tree_remove_refines t T b node :
  rep (heap t) (root t) T -> NoDup (bids T) -> (forall i, In i (bids T) -> 1 < i) -> In node (bids T) ->
  bbh T = Some b -> sortedb (bkeys T) = true -> (bheight T < 98)%nat ->
  let kn := key (heap t) node in
  let t' := tree_remove t node in
  exists R, zremove kn 200 T = Some R /\ rep (heap t') (root t') R /\ NoDup (bids R) /\ (forall i, In i (bids R) -> 1 < i) /\
    (forall i, In i (bids R) -> In i (bids T)) /\
    (forall i, ~ In i (bids T) -> i <> HEAD -> hget (heap t') i = hget (heap t) i).
Proof. intros Hr Hnd Hpos Hin Hb Hs Hh. apply (tree_remove_refines_f 200 t T b node); try assumption. lia. Qed.


(* ------------------------------------------------------------------ size bounds: the result is not too high for the reading functions *)
Definition bsize (t : btree) : Z := Z.of_nat (length (bkeys t)).

Lemma bsize_node l i c k r : bsize (BN l i c k r) = bsize l + 1 + bsize r.
Proof. unfold bsize. cbn [bkeys]. rewrite app_length. cbn [length]. lia. Qed.

Lemma bbh_size t : forall b, bbh t = Some b -> 2 ^ (b - 1) <= bsize t + 1.
Proof.
  induction t as [|l IHl i c k r IHr]; intros b H.
  - cbn in H. inversion H; subst. cbn. lia.
  - rewrite bsize_node. destruct c.
    + destruct (bbh_red_inv _ _ _ _ _ H) as (Hl & Hr & _). specialize (IHl _ Hl). specialize (IHr _ Hr).
      assert (0 <= bsize r) by (unfold bsize; lia). lia.
    + destruct (bbh_black_inv' _ _ _ _ _ H) as (x & Hl & Hr & ->). specialize (IHl _ Hl). specialize (IHr _ Hr).
      pose proof (bbh_pos _ _ Hl). replace (x + 1 - 1) with (Z.succ (x - 1)) by lia. rewrite Z.pow_succ_r by lia. lia.
Qed.

Lemma size_height t : bsize t + 1 <= 2 ^ Z.of_nat (bheight t).
Proof.
  induction t as [|l IHl i c k r IHr]; [cbn; lia|]. rewrite bsize_node. cbn [bheight].
  rewrite Nat2Z.inj_succ, Z.pow_succ_r by lia.
  assert (2 ^ Z.of_nat (bheight l) <= 2 ^ Z.of_nat (Nat.max (bheight l) (bheight r))) by (apply Z.pow_le_mono_r; lia).
  assert (2 ^ Z.of_nat (bheight r) <= 2 ^ Z.of_nat (Nat.max (bheight l) (bheight r))) by (apply Z.pow_le_mono_r; lia).
  lia.
Qed.

(* the same in terms of the reading functions of the model *)
Theorem tree_remove_unbounded t T b node :
  rep (heap t) (root t) T -> NoDup (bids T) -> (forall i, In i (bids T) -> 1 < i) -> In node (bids T) ->
  bbh T = Some b -> sortedb (bkeys T) = true -> (bheight T < 98)%nat ->
  let kn := key (heap t) node in
  let t' := tree_remove t node in
  exists R b', rep (heap t') (root t') R /\
    bred R = false /\ bbh R = Some b' /\ Z.of_nat (bheight R) <= 2 * (b' - 1) /\
    tree_keys t = bkeys T /\ tree_keys t' = bkeys R /\ sortedb (tree_keys t') = true /\
    (exists L Rr, tree_keys t = L ++ kn :: Rr /\ tree_keys t' = L ++ Rr) /\
    (forall k, tree_get t' k <> 0 <-> In k (tree_keys t')) /\
    NoDup (bids R).
Proof.
  intros Hr Hnd Hpos Hin Hb Hs Hh kn. cbn zeta.
  destruct (tree_remove_refines t T b node Hr Hnd Hpos Hin Hb Hs Hh) as (R & HZ & HR & NR & PR & _ & _). cbn zeta in HZ, HR. fold kn in HZ.
  assert (Hkin : In kn (bkeys T)) by (apply (rep_key_in (heap t) T (root t) node Hr Hin)).
  destruct (zremove_correct kn 200 T b Hb Hs Hkin ltac:(lia)) as (R2 & HZ2 & (b' & Hb') & Hbr & L & Rr & E1 & E2 & HsR).
  rewrite HZ in HZ2. injection HZ2 as <-.
  destruct (bbh_height R b' Hb') as [Hb1 HhR]. rewrite Hbr in HhR.
  assert (Hsz : bsize R + 1 = bsize T) by (unfold bsize; rewrite E1, E2, !app_length; cbn [length]; lia).
  assert (Hb98 : b' - 1 < 98).
  { pose proof (bbh_size R b' Hb') as H1. pose proof (size_height T) as H2.
    assert (2 ^ Z.of_nat (bheight T) <= 2 ^ 97) by (apply Z.pow_le_mono_r; lia).
    destruct (Z_lt_le_dec (b' - 1) 98) as [|Hge]; [assumption|]. exfalso.
    assert (2 ^ 98 <= 2 ^ (b' - 1)) by (apply Z.pow_le_mono_r; lia).
    assert (2 ^ 97 < 2 ^ 98) by (apply Z.pow_lt_mono_r; lia). lia. }
  assert (HhR' : (bheight R < 200)%nat) by lia.
  assert (EkT : tree_keys t = bkeys T).
  { unfold tree_keys, tree_inorder. rewrite (inorder_rep 200 _ _ T Hr ltac:(lia)). apply bflat_keys. }
  assert (EkR : tree_keys (tree_remove t node) = bkeys R).
  { unfold tree_keys, tree_inorder. rewrite (inorder_rep 200 _ _ R HR HhR'). apply bflat_keys. }
  assert (Hnz : ids_nonzero R = true) by (apply ids_nonzero_of; intros i Hi; specialize (PR i Hi); lia).
  exists R, b'. split; [exact HR|]. split; [exact Hbr|]. split; [exact Hb'|]. split; [lia|]. split; [exact EkT|]. split; [exact EkR|].
  split; [rewrite EkR; exact HsR|]. split; [exists L, Rr; rewrite EkT, EkR; split; assumption|]. split; [|exact NR].
  intros k0. unfold tree_get. rewrite (get_loop_rep 200 _ _ R k0 HR HhR'), EkR. apply lookup_member; assumption.
Qed.

(* no bound on the height (see tree_insert_any_height) *)
Theorem tree_remove_any_height fuel t T b node :
  rep (heap t) (root t) T -> NoDup (bids T) -> (forall i, In i (bids T) -> 1 < i) -> In node (bids T) ->
  bbh T = Some b -> sortedb (bkeys T) = true -> (2 * bheight T + 2 < fuel)%nat ->
  let kn := key (heap t) node in
  let t' := tree_remove_f fuel t node in
  exists R b', rep (heap t') (root t') R /\
    bred R = false /\ bbh R = Some b' /\ Z.of_nat (bheight R) <= 2 * (b' - 1) /\
    sortedb (bkeys R) = true /\ (exists L Rr, bkeys T = L ++ kn :: Rr /\ bkeys R = L ++ Rr) /\
    (forall k, lookup R k <> 0 <-> In k (bkeys R)) /\
    (forall f', (bheight R < f')%nat ->
       (forall k, get_loop f' (heap t') (root t') k = lookup R k) /\ inorder f' (heap t') (root t') = bflat R) /\
    NoDup (bids R) /\ (forall i, In i (bids R) -> In i (bids T)) /\
    (* nothing else in the heap is touched *)
    (forall i, ~ In i (bids T) -> i <> HEAD -> hget (heap t') i = hget (heap t) i).
Proof.
  intros Hr Hnd Hpos Hin Hb Hs Hh kn. cbn zeta.
  destruct (tree_remove_refines_f fuel t T b node Hr Hnd Hpos Hin Hb Hs Hh) as (R & HZ & HR & NR & PR & Hsub & Hframe). cbn zeta in HZ, HR, Hframe. fold kn in HZ.
  assert (Hkin : In kn (bkeys T)) by (apply (rep_key_in (heap t) T (root t) node Hr Hin)).
  destruct (zremove_correct kn fuel T b Hb Hs Hkin ltac:(lia)) as (R2 & HZ2 & (b' & Hb') & Hbr & L & Rr & E1 & E2 & HsR).
  rewrite HZ in HZ2. injection HZ2 as <-.
  destruct (bbh_height R b' Hb') as [Hb1 HhR]. rewrite Hbr in HhR.
  assert (Hnz : ids_nonzero R = true) by (apply ids_nonzero_of; intros i Hi; specialize (PR i Hi); lia).
  exists R, b'. split; [exact HR|]. split; [exact Hbr|]. split; [exact Hb'|]. split; [lia|]. split; [exact HsR|].
  split; [exists L, Rr; split; assumption|]. split; [intros k; apply lookup_member; assumption|]. split; [|split; [exact NR|split; [exact Hsub|exact Hframe]]].
  intros f' Hf'. split; [intros k; apply get_loop_rep; assumption|apply inorder_rep; assumption].
Qed.

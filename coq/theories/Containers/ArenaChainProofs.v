(* C18 (5) — pointer-level chain: the pinned loop leaves a dangling link (refuted by the DESIGN 7.3' witness), the repaired
   loop yields exactly the chain of the list model, for every chain of up to 6 blocks with sizes in {1,2,3} (small scope). *)
From Coq Require Import ZArith List Bool Lia.
From Verif Require Import Containers.ArenaChainModel.
Import ListNotations.
Local Open Scope Z_scope.

(* DESIGN 7.3': Arena(1024); alloc 900, 1800, 3600, 4000, 9000; reset(kSoft); alloc 8000:
   blocks of 2000, 4048, 8144 (too small for 3600+4000? sizes as the implementation makes them), 16336 bytes; the current
   block is the first one; 8000 skips block 2 and fits block 3 *)
Definition witness_chain : cheap := mkchain 1 [2000; 4048; 8144; 16336].

Theorem pinned_scan_dangles :
  let '(h, fit) := scan_pinned 10 witness_chain 1 2 8000 in
  fit = 3 /\ cwalk 10 h 1 = None.
Proof. vm_compute. split; reflexivity. Qed.

Theorem fixed_scan_witness :
  let '(h, fit) := scan_fixed 10 witness_chain 1 2 8000 in
  fit = 3 /\ cwalk 10 h 1 = Some [1; 3; 4].
Proof. vm_compute. split; reflexivity. Qed.

(* small scope: all chains of 1..6 blocks with sizes in {1,2,3}, every position of the current block, every request 1..4 *)
Fixpoint all_sizes (n : nat) : list (list Z) :=
  match n with O => [[]] | S k => flat_map (fun l => [1 :: l; 2 :: l; 3 :: l]) (all_sizes k) end.

Fixpoint zip_ids (id : Z) (l : list Z) : list (Z * Z) := match l with [] => [] | s :: r => (id, s) :: zip_ids (id + 1) r end.

Definition list_eqb (a b : list Z) : bool :=
  (Nat.eqb (length a) (length b)) && forallb (fun p => fst p =? snd p) (combine a b).

(* the repaired loop: the chain that can be walked afterwards is [1..cur] followed by the list-level result; the returned
   block is the head of that result (0 if none) *)
Definition fixed_case_ok (sizes : list Z) (cur : Z) (size : Z) : bool :=
  let h := mkchain 1 sizes in
  let n := Z.of_nat (length sizes) in
  let '(h', fit) := scan_fixed 10 h cur (if cur <? n then cur + 1 else 0) size in
  let after := list_scan size (skipn (Z.to_nat cur) (zip_ids 1 sizes)) in
  let expect := map fst (firstn (Z.to_nat cur) (zip_ids 1 sizes)) ++ map fst after in
  (fit =? match after with [] => 0 | (id, _) :: _ => id end) &&
  match cwalk 10 h' 1 with Some l => list_eqb l expect | None => false end.

Definition fixed_all_ok (maxlen : nat) : bool :=
  forallb (fun len => forallb (fun sizes =>
    forallb (fun cur => forallb (fun size => fixed_case_ok sizes (Z.of_nat cur) size) [1; 2; 3; 4]) (seq 1 len))
    (all_sizes len)) (seq 1 maxlen).

Theorem fixed_scan_small_scope : fixed_all_ok 6 = true.
Proof. vm_compute. reflexivity. Qed.

(* the same exploration finds the dangling link of the pinned loop (so the exploration is able to see it) *)
Definition pinned_case_ok (sizes : list Z) (cur : Z) (size : Z) : bool :=
  let h := mkchain 1 sizes in
  let n := Z.of_nat (length sizes) in
  let '(h', fit) := scan_pinned 10 h cur (if cur <? n then cur + 1 else 0) size in
  match cwalk 10 h' 1 with Some _ => true | None => false end.

Theorem pinned_scan_small_scope_refuted : exists sizes cur size, In sizes (all_sizes 3) /\ pinned_case_ok sizes cur size = false.
Proof. exists [1; 1; 2], 1, 2. split; vm_compute; [intuition|reflexivity]. Qed.

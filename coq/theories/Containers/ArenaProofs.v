(* C18 (5) — proofs about the arena model: the representation invariant is kept by every operation, every block handed out
   is 8-aligned, lies inside a managed or dynamic block and is disjoint from every live block and every free slot entry. *)
From Coq Require Import ZArith List Bool Lia Permutation.
From Verif Require Import Base.ZBits Containers.ArenaModel.
Import ListNotations.
Local Open Scope Z_scope.

(* ------------------------------------------------------------------ regions *)
Definition disjoint (r1 r2 : addr * Z) : Prop :=
  a_blk (fst r1) <> a_blk (fst r2) \/
  a_off (fst r1) + snd r1 <= a_off (fst r2) \/ a_off (fst r2) + snd r2 <= a_off (fst r1).

Fixpoint pd (l : list (addr * Z)) : Prop :=
  match l with [] => True | r :: t => Forall (disjoint r) t /\ pd t end.

Lemma disjoint_sym r1 r2 : disjoint r1 r2 -> disjoint r2 r1.
Proof. unfold disjoint. intuition. Qed.

Lemma pd_perm l l' : Permutation l l' -> pd l -> pd l'.
Proof.
  induction 1; simpl; intros HH.
  - exact I.
  - destruct HH as [Hf Hp]. split; [|auto]. eapply Permutation_Forall; eauto.
  - destruct HH as [Hy [Hx Hp]]. inversion Hy; subst. repeat split; auto.
    constructor; [apply disjoint_sym; assumption|assumption].
  - auto.
Qed.

Lemma pd_cons r l : Forall (disjoint r) l -> pd l -> pd (r :: l).
Proof. simpl. auto. Qed.

Lemma pd_app_inv l1 l2 : pd (l1 ++ l2) -> pd l1 /\ pd l2.
Proof.
  induction l1; simpl; [auto|]. intros [Hf Hp]. destruct (IHl1 Hp). apply Forall_app in Hf. intuition.
Qed.

(* a region (address, size) lies in the space already handed out by the arena *)
Definition region_in (a : arena) (r : addr * Z) : Prop :=
  let p := fst r in let n := snd r in
  0 < n /\ 0 <= a_off p /\ a_off p mod 8 = 0 /\
  ((exists b, In b (firstn (cur a) (chain a)) /\ mb_id b = a_blk p /\ a_off p + n <= mb_size b)
   \/ (chain a <> [] /\ mb_id (cur_block a) = a_blk p /\ a_off p + n <= ptr a)
   \/ (exists b, In b (dyn a) /\ mb_id b = a_blk p /\ a_off p = 0 /\ n = mb_size b)).

Record inv (a : arena) : Prop := {
  i_ptr : 0 <= ptr a <= endp a;
  i_al : ptr a mod 8 = 0;
  i_end : endp a = mb_size (cur_block a);
  i_cur : chain a = [] \/ (cur a < length (chain a))%nat;
  i_ids : NoDup (map mb_id (chain a) ++ map mb_id (dyn a));
  i_fresh : forall b, In b (chain a ++ dyn a) -> 0 <= mb_id b < next_id a;
  i_reg : Forall (region_in a) (regions a);
  i_disj : pd (regions a);
  i_slots : length (slots a) = 8%nat;
  i_sz : forall b, In b (chain a) -> 0 <= mb_size b < 2 ^ 64;
  i_shift : 6 <= cur_shift a < 64 /\ 6 <= min_shift a < 64 /\ 6 <= max_shift a < 64;
  i_nid : 0 < next_id a
}.

(* ------------------------------------------------------------------ slot classes *)
Lemma slot_size_pos s : 0 <= s -> 0 < slot_size s /\ slot_size s mod 8 = 0.
Proof.
  intros Hs. unfold slot_size. pose proof (pow2_pos s Hs). split; [lia|].
  replace (16 * 2 ^ s) with ((2 * 2 ^ s) * 8) by ring. apply Z.mod_mul. lia.
Qed.

Lemma slot_index_eq size : slot_index size = Z.max (Z.log2 ((size - 1) mod 2 ^ 64)) 3 - 3.
Proof.
  unfold slot_index. rewrite Z.log2_lor; [reflexivity| |lia].
  apply Z.mod_pos_bound. lia.
Qed.

Lemma slot_index_nonneg size : 0 <= slot_index size.
Proof. rewrite slot_index_eq. lia. Qed.

(* the slot class is large enough for the request: nothing is handed out that is smaller than asked for *)
Lemma slot_size_fits size : 1 <= size <= 2 ^ 64 -> size <= slot_size (slot_index size).
Proof.
  intros Hs. rewrite slot_index_eq. rewrite Z.mod_small by lia.
  unfold slot_size.
  destruct (Z.eq_dec size 1) as [->|Hn]; [simpl; lia|].
  pose proof (Z.log2_spec (size - 1) ltac:(lia)) as [_ Hl].
  set (m := Z.max (Z.log2 (size - 1)) 3) in *.
  assert (Hm : Z.succ (Z.log2 (size - 1)) <= m + 1) by lia.
  assert (Hle : 2 ^ Z.succ (Z.log2 (size - 1)) <= 2 ^ (m + 1)) by (apply Z.pow_le_mono_r; lia).
  replace (16 * 2 ^ (m - 3)) with (2 ^ (m + 1)); [lia|].
  replace (m + 1) with (4 + (m - 3)) by lia. rewrite Z.pow_add_r by lia. reflexivity.
Qed.

Lemma slot_index_of_slot_size s : 0 <= s -> s + 4 < 64 -> slot_index (slot_size s) = s.
Proof.
  intros Hs Hlt. rewrite slot_index_eq. unfold slot_size.
  replace (16 * 2 ^ s) with (2 ^ (s + 4)) by (rewrite Z.pow_add_r by lia; change (2 ^ 4) with 16; ring).
  assert (2 ^ (s + 4) < 2 ^ 64) by (apply Z.pow_lt_mono_r; lia).
  assert (0 < 2 ^ (s + 4)) by (apply pow2_pos; lia).
  rewrite Z.mod_small by lia.
  change (2 ^ (s + 4) - 1) with (Z.pred (2 ^ (s + 4))). rewrite Z.log2_pred_pow2 by lia. lia.
Qed.

(* what the left-over loop carves out of `rem` bytes never exceeds them *)
Lemma leftover_step_fits rem : 16 <= rem < 2 ^ 64 ->
  let si := slot_index (rem / 2) in
  (si < 8 -> slot_size si <= rem) /\ (8 <= si -> 2048 <= rem).
Proof.
  intros Hr si. subst si. rewrite slot_index_eq.
  assert (Hh : 8 <= rem / 2) by (apply Z.div_le_lower_bound; lia).
  assert (Hh2 : 2 * (rem / 2) <= rem) by (apply Z.mul_div_le; lia).
  rewrite Z.mod_small by lia.
  pose proof (Z.log2_spec (rem / 2 - 1) ltac:(lia)) as [Hl _].
  set (L := Z.log2 (rem / 2 - 1)) in *.
  assert (HL : 0 <= L) by apply Z.log2_nonneg.
  split; intros Hsi.
  - unfold slot_size. destruct (Z.max_spec L 3) as [[? ->]|[? ->]].
    + replace (3 - 3) with 0 by lia. simpl. lia.
    + replace (16 * 2 ^ (L - 3)) with (2 * 2 ^ L); [lia|].
      replace L with (3 + (L - 3)) at 1 by lia. rewrite Z.pow_add_r by lia. change (2 ^ 3) with 8. ring.
  - assert (11 <= L) by lia.
    assert (2 ^ 11 <= 2 ^ L) by (apply Z.pow_le_mono_r; lia). change (2 ^ 11) with 2048 in *. lia.
Qed.

(* ------------------------------------------------------------------ list helpers *)
Lemma nodup_firstn_nth {A} (f : A -> Z) l k b c :
  NoDup (map f l) -> In b (firstn k l) -> nth_error l k = Some c -> f b <> f c.
Proof.
  revert k. induction l as [|x l IH]; intros [|k] Hnd Hin Hn; simpl in *; try contradiction; try discriminate.
  inversion Hnd as [|? ? Hx Hl]; subst. destruct Hin as [->|Hin].
  - intros He. apply Hx. rewrite He. apply in_map. eapply nth_error_In; eauto.
  - eapply IH; eauto.
Qed.

Lemma nodup_app_l {A} (l1 l2 : list A) : NoDup (l1 ++ l2) -> NoDup l1.
Proof.
  induction l1 as [|x l1 IH]; simpl; intros H; [constructor|]. inversion H; subst. constructor; [|auto].
  intros Hin. apply H2. apply in_or_app. left. assumption.
Qed.
Lemma nodup_app_r {A} (l1 l2 : list A) : NoDup (l1 ++ l2) -> NoDup l2.
Proof. induction l1 as [|x l1 IH]; simpl; intros H; [assumption|]. inversion H; subst. auto. Qed.
Lemma nodup_app_disj {A} (l1 l2 : list A) x : NoDup (l1 ++ l2) -> In x l1 -> In x l2 -> False.
Proof.
  induction l1 as [|y l1 IH]; simpl; intros Hnd H1 H2; [contradiction|].
  inversion Hnd; subst. destruct H1 as [->|H1].
  - apply H3. apply in_or_app. right. assumption.
  - eauto.
Qed.

Lemma nodup_remove_mid {A} (l1 l2 l3 : list A) : NoDup (l1 ++ l2 ++ l3) -> NoDup (l1 ++ l3).
Proof.
  induction l1 as [|x l1 IH]; simpl; intros H.
  - apply nodup_app_r in H. exact H.
  - inversion H; subst. constructor; [|auto].
    intros Hin. apply H2. apply in_app_or in Hin. apply in_or_app. destruct Hin; [left; assumption|right].
    apply in_or_app. right. assumption.
Qed.

Lemma firstn_skipn_S_cur {A} (l : list A) k d : (k < length l)%nat ->
  firstn (S k) l = firstn k l ++ [nth k l d].
Proof.
  revert k. induction l as [|x l IH]; intros [|k] H; simpl in *; try lia; [reflexivity|].
  f_equal. apply IH. lia.
Qed.

Lemma nth_firstn_S {A} (l : list A) k d : nth k (firstn (S k) l) d = nth k l d.
Proof. revert k. induction l as [|x l IH]; intros [|k]; try reflexivity. simpl. apply IH. Qed.

Lemma firstn_firstn_S {A} (l : list A) k : firstn k (firstn (S k) l) = firstn k l.
Proof. rewrite firstn_firstn. f_equal. lia. Qed.

Lemma length_firstn_S {A} (l : list A) k : (k < length l)%nat -> length (firstn (S k) l) = S k.
Proof. intros. rewrite firstn_length. lia. Qed.

Lemma scan_next_spec size l b rest : scan_next size l = Some (b, rest) ->
  exists skipped, l = skipped ++ b :: rest /\ size <= mb_size b.
Proof.
  revert b rest. induction l as [|x l IH]; simpl; intros b rest H; [discriminate|].
  destruct (Z.leb_spec size (mb_size x)).
  - inversion H; subst. exists []. split; [reflexivity|assumption].
  - destruct (IH _ _ H) as (sk & -> & Hs). exists (x :: sk). split; [reflexivity|assumption].
Qed.

(* ------------------------------------------------------------------ slots *)
Lemma slot_regions_app s1 s2 k : slot_regions (s1 ++ s2) k = slot_regions s1 k ++ slot_regions s2 (k + Z.of_nat (length s1)).
Proof.
  revert k. induction s1 as [|l s1 IH]; intros k; simpl slot_regions.
  - simpl. f_equal. lia.
  - rewrite IH. rewrite app_assoc. f_equal. f_equal. simpl length. lia.
Qed.

Lemma pop_slot_perm s i p s' k : pop_slot s i = Some (p, s') ->
  Permutation (slot_regions s k) ((p, slot_size (k + Z.of_nat i)) :: slot_regions s' k) /\ length s' = length s.
Proof.
  revert i s' k. induction s as [|l s IH]; intros [|i] s' k H; simpl in H; try discriminate.
  - destruct l as [|q l]; [discriminate|]. inversion H; subst. simpl. rewrite Z.add_0_r. split; reflexivity.
  - destruct (pop_slot s i) as [[q r']|] eqn:E; [|discriminate]. inversion H; subst.
    destruct (IH _ _ (k + 1) E) as [Hp Hl]. split; [|simpl; lia].
    simpl slot_regions. rewrite Hp.
    replace (k + 1 + Z.of_nat i) with (k + Z.of_nat (S i)) by lia.
    apply Permutation_sym, Permutation_middle.
Qed.

Lemma push_slot_perm s i p k : (i < length s)%nat ->
  Permutation (slot_regions (push_slot s i p) k) ((p, slot_size (k + Z.of_nat i)) :: slot_regions s k) /\
  length (push_slot s i p) = length s.
Proof.
  revert i k. induction s as [|l s IH]; intros [|i] k H; simpl in H; try lia.
  - simpl. rewrite Z.add_0_r. split; reflexivity.
  - destruct (IH i (k + 1) ltac:(lia)) as [Hp Hl]. split; [|simpl; lia].
    simpl slot_regions. rewrite Hp.
    replace (k + 1 + Z.of_nat i) with (k + Z.of_nat (S i)) by lia.
    apply Permutation_sym, Permutation_middle.
Qed.

Lemma slot_regions_empty k : slot_regions empty_slots k = [].
Proof. reflexivity. Qed.

(* ------------------------------------------------------------------ frame lemmas *)
Definition extends (a a' : arena) : Prop :=
  (forall b, In b (firstn (cur a) (chain a)) -> In b (firstn (cur a') (chain a'))) /\
  (chain a <> [] -> (chain a' <> [] /\ cur_block a' = cur_block a /\ ptr a <= ptr a') \/
                    (In (cur_block a) (firstn (cur a') (chain a')) /\ ptr a <= mb_size (cur_block a))) /\
  (forall b, In b (dyn a) -> In b (dyn a')).

Lemma region_in_extends a a' r : extends a a' -> region_in a r -> region_in a' r.
Proof.
  intros (E1 & E2 & E3) (Hn & Ho & Hal & H). repeat split; try assumption.
  destruct H as [(b & Hb & Hid & Hsz)|[(Hc & Hid & Hp)|(b & Hb & Hrest)]].
  - left. exists b. auto.
  - destruct (E2 Hc) as [(Hc' & Hcb & Hpp)|(Hin & Hsz)].
    + right. left. rewrite Hcb. repeat split; auto. lia.
    + left. exists (cur_block a). repeat split; auto. lia.
  - right. right. exists b. auto.
Qed.

Lemma extends_refl_with a a' :
  chain a' = chain a -> cur a' = cur a -> ptr a <= ptr a' -> (forall b, In b (dyn a) -> In b (dyn a')) -> extends a a'.
Proof.
  intros Hc Hk Hp Hd. unfold extends, cur_block. rewrite Hc, Hk. repeat split; auto.
Qed.

Definition used_ids (a : arena) : list Z := map mb_id (firstn (S (cur a)) (chain a)) ++ map mb_id (dyn a).

Lemma cur_block_nth_error a : (cur a < length (chain a))%nat -> nth_error (chain a) (cur a) = Some (cur_block a).
Proof. intros. unfold cur_block. apply nth_error_nth'. assumption. Qed.

Lemma cur_block_in_firstn_S a : (cur a < length (chain a))%nat -> In (cur_block a) (firstn (S (cur a)) (chain a)).
Proof.
  intros H. rewrite (firstn_skipn_S_cur _ _ zero_block H). apply in_or_app. right. left. reflexivity.
Qed.

Lemma in_firstn_le {A} (l : list A) k k' x : (k <= k')%nat -> In x (firstn k l) -> In x (firstn k' l).
Proof.
  revert k k'. induction l as [|y l IH]; intros [|k] [|k'] Hle Hin; simpl in *; try contradiction; try lia.
  destruct Hin; [left; assumption|right]. eapply IH; [|eassumption]. lia.
Qed.

Lemma region_blk_used a r : chain a = [] \/ (cur a < length (chain a))%nat -> region_in a r -> In (a_blk (fst r)) (used_ids a).
Proof.
  intros Hc (_ & _ & _ & H). unfold used_ids. apply in_or_app.
  destruct H as [(b & Hb & Hid & _)|[(Hne & Hid & _)|(b & Hb & Hid & _)]].
  - left. rewrite <- Hid. apply in_map. eapply in_firstn_le; [|exact Hb]. lia.
  - left. rewrite <- Hid. apply in_map. destruct Hc as [Hc|Hc]; [contradiction|]. apply cur_block_in_firstn_S. assumption.
  - right. rewrite <- Hid. apply in_map. assumption.
Qed.

Lemma region_below_ptr a r : inv a -> chain a <> [] -> region_in a r -> a_blk (fst r) = mb_id (cur_block a) ->
  a_off (fst r) + snd r <= ptr a.
Proof.
  intros I Hne (_ & _ & _ & H) Hblk.
  destruct (i_cur a I) as [Hc|Hc]; [contradiction|].
  pose proof (i_ids a I) as Hnd.
  destruct H as [(b & Hb & Hid & _)|[(_ & _ & Hp)|(b & Hb & Hid & _)]].
  - exfalso. apply (nodup_firstn_nth mb_id (chain a) (cur a) b (cur_block a)); auto.
    + eapply nodup_app_l; eauto.
    + apply cur_block_nth_error; assumption.
    + congruence.
  - assumption.
  - exfalso. apply (nodup_app_disj _ _ (mb_id (cur_block a)) Hnd).
    + apply in_map. eapply nth_error_In. apply cur_block_nth_error. assumption.
    + rewrite <- Hblk, <- Hid. apply in_map. assumption.
Qed.

Lemma new_at_ptr_disjoint a n : inv a -> chain a <> [] ->
  Forall (disjoint (mkaddr (mb_id (cur_block a)) (ptr a), n)) (regions a).
Proof.
  intros I Hne. pose proof (i_reg a I) as Hr. rewrite Forall_forall in *. intros r Hin.
  specialize (Hr r Hin). unfold disjoint. simpl.
  destruct (Z.eq_dec (mb_id (cur_block a)) (a_blk (fst r))) as [He|He]; [|left; assumption].
  right. right. eapply region_below_ptr; eauto.
Qed.

Lemma new_blk_disjoint a blk off n : inv a -> ~ In blk (used_ids a) ->
  Forall (disjoint (mkaddr blk off, n)) (regions a).
Proof.
  intros I Hnot. pose proof (i_reg a I) as Hr. rewrite Forall_forall in *. intros r Hin.
  left. simpl. intros He. apply Hnot. rewrite He. apply region_blk_used; [apply (i_cur a I)|auto].
Qed.

(* ------------------------------------------------------------------ the invariant under each state change *)
Lemma in_firstn {A} (l : list A) k x : In x (firstn k l) -> In x l.
Proof. revert k. induction l; intros [|k] H; simpl in *; try contradiction. destruct H; auto. right. eauto. Qed.

Lemma firstn_length_app {A} (l1 l2 : list A) : firstn (length l1) (l1 ++ l2) = l1.
Proof. induction l1; simpl; [destruct l2; reflexivity|]. f_equal. assumption. Qed.

Lemma nth_length_app {A} (l1 l2 : list A) b d : nth (length l1) (l1 ++ b :: l2) d = b.
Proof. induction l1; simpl; auto. Qed.

Lemma chain_nil_endp a : inv a -> chain a = [] -> endp a = 0.
Proof. intros I H. rewrite (i_end a I). unfold cur_block. rewrite H. destruct (cur a); reflexivity. Qed.

Lemma add_mod8 x n : x mod 8 = 0 -> n mod 8 = 0 -> (x + n) mod 8 = 0.
Proof. intros. rewrite Z.add_mod by lia. rewrite H, H0. reflexivity. Qed.

(* a region of n bytes is taken at the bump pointer (it becomes live or a slot entry) *)
Lemma inv_add_at_ptr a a' n : inv a -> 0 < n -> n mod 8 = 0 -> n <= endp a - ptr a ->
  chain a' = chain a -> cur a' = cur a -> endp a' = endp a -> dyn a' = dyn a -> next_id a' = next_id a ->
  cur_shift a' = cur_shift a -> min_shift a' = min_shift a -> max_shift a' = max_shift a ->
  ptr a' = ptr a + n ->
  Permutation (regions a') ((mkaddr (mb_id (cur_block a)) (ptr a), n) :: regions a) ->
  length (slots a') = 8%nat -> inv a'.
Proof.
  intros I Hn Hn8 Hfit Hc Hk He Hd Hid Hs1 Hs2 Hs3 Hp Hperm Hsl.
  assert (Hne : chain a <> []).
  { intros Hnil. pose proof (chain_nil_endp a I Hnil). pose proof (i_ptr a I). lia. }
  assert (Hcb : cur_block a' = cur_block a) by (unfold cur_block; rewrite Hc, Hk; reflexivity).
  constructor.
  - rewrite Hp, He. pose proof (i_ptr a I). lia.
  - rewrite Hp. apply add_mod8; [apply (i_al a I)|assumption].
  - rewrite He, Hcb. apply (i_end a I).
  - rewrite Hc, Hk. apply (i_cur a I).
  - rewrite Hc, Hd. apply (i_ids a I).
  - rewrite Hc, Hd, Hid. apply (i_fresh a I).
  - eapply Permutation_Forall; [apply Permutation_sym; exact Hperm|].
    constructor.
    + unfold region_in; simpl. pose proof (i_ptr a I). repeat split; try lia; [apply (i_al a I)|].
      right. left. rewrite Hc, Hcb, Hp. repeat split; auto. lia.
    + eapply Forall_impl; [|apply (i_reg a I)]. intros r Hr.
      eapply region_in_extends; [|exact Hr]. apply extends_refl_with; auto; try lia. rewrite Hd. auto.
  - eapply pd_perm; [apply Permutation_sym; exact Hperm|]. apply pd_cons; [|apply (i_disj a I)].
    apply new_at_ptr_disjoint; assumption.
  - assumption.
  - rewrite Hc. apply (i_sz a I).
  - rewrite Hs1, Hs2, Hs3. apply (i_shift a I).
  - rewrite Hid. apply (i_nid a I).
Qed.

(* regions only move between `live` and the slot lists *)
Lemma inv_perm a a' : inv a ->
  chain a' = chain a -> cur a' = cur a -> ptr a' = ptr a -> endp a' = endp a -> dyn a' = dyn a -> next_id a' = next_id a ->
  cur_shift a' = cur_shift a -> min_shift a' = min_shift a -> max_shift a' = max_shift a ->
  Permutation (regions a') (regions a) -> length (slots a') = 8%nat -> inv a'.
Proof.
  intros I Hc Hk Hp He Hd Hid Hs1 Hs2 Hs3 Hperm Hsl.
  assert (Hcb : cur_block a' = cur_block a) by (unfold cur_block; rewrite Hc, Hk; reflexivity).
  constructor.
  - rewrite Hp, He. apply (i_ptr a I).
  - rewrite Hp. apply (i_al a I).
  - rewrite He, Hcb. apply (i_end a I).
  - rewrite Hc, Hk. apply (i_cur a I).
  - rewrite Hc, Hd. apply (i_ids a I).
  - rewrite Hc, Hd, Hid. apply (i_fresh a I).
  - eapply Permutation_Forall; [apply Permutation_sym; exact Hperm|].
    eapply Forall_impl; [|apply (i_reg a I)]. intros r Hr.
    eapply region_in_extends; [|exact Hr]. apply extends_refl_with; auto; try lia. rewrite Hd. auto.
  - eapply pd_perm; [apply Permutation_sym; exact Hperm|]. apply (i_disj a I).
  - assumption.
  - rewrite Hc. apply (i_sz a I).
  - rewrite Hs1, Hs2, Hs3. apply (i_shift a I).
  - rewrite Hid. apply (i_nid a I).
Qed.

(* the current block becomes `b`, placed right after the old current block; the first n bytes of b are handed out *)
Lemma inv_switch_block a b rest nid n sh un :
  inv a -> 0 < n -> n mod 8 = 0 -> n <= mb_size b -> mb_size b < 2 ^ 64 -> 6 <= sh < 64 -> 0 < nid ->
  let before := firstn (S (cur a)) (chain a) in
  NoDup (map mb_id (before ++ b :: rest) ++ map mb_id (dyn a)) ->
  (forall x, In x ((before ++ b :: rest) ++ dyn a) -> 0 <= mb_id x < nid) ->
  (forall x, In x rest -> 0 <= mb_size x < 2 ^ 64) ->
  ~ In (mb_id b) (used_ids a) ->
  inv (mkarena (before ++ b :: rest) (length before) n (mb_size b) sh (min_shift a) (max_shift a) (has_static a) un
               (slots a) (dyn a) nid ((mkaddr (mb_id b) 0, n) :: live a)).
Proof.
  intros I Hn Hn8 Hfit Hsz Hsh Hnid before Hnd Hfr Hrsz Hnot.
  set (a' := mkarena _ _ _ _ _ _ _ _ _ _ _ _ _).
  assert (Hcb : cur_block a' = b) by (unfold cur_block, a'; simpl; apply nth_length_app).
  assert (Hext : extends a a').
  { unfold extends, a'; simpl. rewrite firstn_length_app. repeat split.
    - intros x Hx. unfold before. eapply in_firstn_le; [|exact Hx]. lia.
    - intros Hne. right. destruct (i_cur a I) as [Hc|Hc]; [contradiction|]. split.
      + apply cur_block_in_firstn_S. assumption.
      + pose proof (i_ptr a I). rewrite (i_end a I) in H. lia.
    - auto. }
  constructor; try (unfold a'; simpl; fail).
  - unfold a'; simpl. lia.
  - unfold a'; simpl. assumption.
  - rewrite Hcb. reflexivity.
  - right. unfold a'; simpl. rewrite app_length. simpl. lia.
  - exact Hnd.
  - exact Hfr.
  - change (regions a') with ((mkaddr (mb_id b) 0, n) :: regions a). constructor.
    + unfold region_in; simpl. repeat split; try lia.
      right. left. rewrite Hcb. repeat split; auto. unfold a'; simpl. intros Hx. eapply app_cons_not_nil. symmetry. exact Hx. unfold a'; simpl; lia.
    + eapply Forall_impl; [|apply (i_reg a I)]. intros r Hr. eapply region_in_extends; eauto.
  - change (regions a') with ((mkaddr (mb_id b) 0, n) :: regions a). apply pd_cons; [|apply (i_disj a I)].
    apply new_blk_disjoint; assumption.
  - apply (i_slots a I).
  - unfold a'; simpl. intros x Hx. apply in_app_or in Hx. destruct Hx as [Hx|[<-|Hx]].
    + apply (i_sz a I). eapply in_firstn. exact Hx.
    + lia.
    + auto.
  - unfold a'; simpl. pose proof (i_shift a I). lia.
  - exact Hnid.
Qed.

(* the blocks after the current one are released *)
Lemma inv_drop_after a : inv a -> inv (set_chain a (firstn (S (cur a)) (chain a))).
Proof.
  intros I. set (a' := set_chain a _).
  assert (Hch : chain a' = firstn (S (cur a)) (chain a)) by reflexivity.
  assert (Hsub : forall x, In x (chain a') -> In x (chain a)) by (intros x Hx; rewrite Hch in Hx; eapply in_firstn; exact Hx).
  assert (Hcb : cur_block a' = cur_block a) by (unfold cur_block; rewrite Hch; apply nth_firstn_S).
  assert (Hsplit : chain a = chain a' ++ skipn (S (cur a)) (chain a)) by (rewrite Hch; symmetry; apply firstn_skipn).
  constructor.
  - apply (i_ptr a I).
  - apply (i_al a I).
  - rewrite Hcb. apply (i_end a I).
  - destruct (i_cur a I) as [Hc|Hc].
    + left. rewrite Hch, Hc. reflexivity.
    + right. rewrite Hch. change (cur a') with (cur a). rewrite firstn_length. lia.
  - pose proof (i_ids a I) as Hnd. rewrite Hsplit, map_app, <- app_assoc in Hnd.
    apply nodup_remove_mid in Hnd. exact Hnd.
  - intros x Hx. apply (i_fresh a I). apply in_app_or in Hx. apply in_or_app. destruct Hx; [left; auto|right; assumption].
  - change (regions a') with (regions a).
    eapply Forall_impl; [|apply (i_reg a I)]. intros r Hr. eapply region_in_extends; [|exact Hr].
    unfold extends. change (cur a') with (cur a). change (dyn a') with (dyn a). change (ptr a') with (ptr a).
    rewrite Hch, firstn_firstn_S. repeat split; auto.
    intros Hne. left. rewrite <- Hch, Hcb. repeat split; try lia.
    rewrite Hch. destruct (chain a); [contradiction|]. simpl. discriminate.
  - apply (i_disj a I).
  - apply (i_slots a I).
  - intros x Hx. apply (i_sz a I). auto.
  - apply (i_shift a I).
  - apply (i_nid a I).
Qed.

(* ------------------------------------------------------------------ operations *)
Theorem inv_init mbs st : 1024 <= mbs <= 2 ^ 62 -> (st = 0 \/ 16 <= st < 2 ^ 64) -> inv (arena_init mbs st).
Proof.
  intros Hm Hst. unfold arena_init.
  assert (Hsh : 6 <= Z.log2 mbs + 1 < 64).
  { assert (10 <= Z.log2 mbs) by (apply Z.log2_le_pow2; [lia|]; change (2 ^ 10) with 1024; lia).
    assert (Z.log2 mbs <= 62) by (change 62 with (Z.log2 (2 ^ 62)); apply Z.log2_le_mono; lia). lia. }
  destruct (Z.eqb_spec st 0) as [->|Hne]; simpl negb; cbv iota.
  - constructor; cbn [chain cur ptr endp cur_shift min_shift max_shift slots dyn next_id live regions].
    + lia.
    + reflexivity.
    + reflexivity.
    + left. reflexivity.
    + constructor.
    + intros b [].
    + constructor.
    + exact I.
    + reflexivity.
    + intros b [].
    + lia.
    + lia.
  - destruct Hst as [?|Hst]; [contradiction|]. unfold kBlockHeader.
    constructor; cbn [chain cur ptr endp cur_shift min_shift max_shift slots dyn next_id live regions].
    + lia.
    + reflexivity.
    + reflexivity.
    + right. simpl. lia.
    + simpl. constructor; [intros []|constructor].
    + intros b [<-|[]]. simpl. lia.
    + constructor.
    + exact I.
    + reflexivity.
    + intros b [<-|[]]. simpl. lia.
    + lia.
    + lia.
Qed.

Lemma chain_split_cur a : chain a = firstn (S (cur a)) (chain a) ++ skipn (S (cur a)) (chain a).
Proof. symmetry. apply firstn_skipn. Qed.

Lemma used_ids_not_later a x : inv a -> In x (skipn (S (cur a)) (chain a)) -> ~ In (mb_id x) (used_ids a).
Proof.
  intros I Hx Hin. pose proof (i_ids a I) as Hnd. rewrite (chain_split_cur a), map_app in Hnd.
  unfold used_ids in Hin. apply in_app_or in Hin. destruct Hin as [Hin|Hin].
  - apply nodup_app_l in Hnd. eapply (nodup_app_disj _ _ (mb_id x) Hnd); [exact Hin|]. apply in_map. assumption.
  - rewrite <- app_assoc in Hnd. apply nodup_app_r in Hnd.
    eapply (nodup_app_disj _ _ (mb_id x) Hnd); [apply in_map; exact Hx|exact Hin].
Qed.

Lemma fresh_id_not_used a : inv a -> ~ In (next_id a) (map mb_id (chain a) ++ map mb_id (dyn a)).
Proof.
  intros I Hin. rewrite <- map_app in Hin. apply in_map_iff in Hin. destruct Hin as (b & He & Hb).
  pose proof (i_fresh a I b Hb). lia.
Qed.

Definition alloc_post (a a' : arena) (size : Z) (r : option addr) : Prop :=
  inv a' /\
  match r with
  | Some p => a_off p mod 8 = 0 /\ region_in a' (p, size) /\ Forall (disjoint (p, size)) (regions a) /\
              live a' = (p, size) :: live a /\ slots a' = slots a
  | None => live a' = live a /\ slots a' = slots a
  end.

Lemma alloc_oneshot_slow_sound mok a size : inv a -> 0 < size <= SIZE_MAX -> size mod 8 = 0 ->
  alloc_post a (snd (alloc_oneshot_slow mok a size)) size (fst (alloc_oneshot_slow mok a size)).
Proof.
  intros I Hs H8. unfold alloc_oneshot_slow.
  set (before := firstn (S (cur a)) (chain a)).
  set (after := skipn (S (cur a)) (chain a)).
  pose proof (i_shift a I) as Hsh.
  assert (Hpow : 64 <= 2 ^ cur_shift a <= 2 ^ 63).
  { split; [change 64 with (2 ^ 6)|]; apply Z.pow_le_mono_r; lia. }
  destruct (scan_next size after) as [[b rest]|] eqn:Hscan.
  - (* a retained block fits *)
    destruct (scan_next_spec _ _ _ _ Hscan) as (skipped & Haft & Hfit).
    assert (Hb_in : In b after) by (rewrite Haft; apply in_or_app; right; left; reflexivity).
    assert (Hchain : chain a = before ++ skipped ++ b :: rest) by (rewrite <- Haft; apply chain_split_cur).
    assert (Hinv : inv (mkarena (before ++ b :: rest) (length before) size (mb_size b) (cur_shift a) (min_shift a) (max_shift a)
                          (has_static a) ((unused a + (mb_size (cur_block a) - ptr a) mod 2 ^ 32) mod 2 ^ 32) (slots a) (dyn a) (next_id a)
                          ((mkaddr (mb_id b) 0, size) :: live a))).
    { apply inv_switch_block; auto; try lia; try apply (i_nid a I).
      - assert (In b (chain a)) by (rewrite Hchain; apply in_or_app; right; apply in_or_app; right; left; reflexivity).
        apply (i_sz a I b H).
      - pose proof (i_ids a I) as Hnd. rewrite Hchain in Hnd. rewrite !map_app in *. rewrite <- !app_assoc in *.
        apply nodup_remove_mid in Hnd. exact Hnd.
      - intros x Hx. apply (i_fresh a I). rewrite Hchain. apply in_app_or in Hx. apply in_or_app.
        destruct Hx as [Hx|Hx]; [left|right; assumption].
        apply in_app_or in Hx. apply in_or_app. destruct Hx; [left; assumption|right]. apply in_or_app. right. assumption.
      - intros x Hx. apply (i_sz a I). rewrite Hchain. apply in_or_app. right. apply in_or_app. right. right. assumption.
      - apply used_ids_not_later; assumption. }
    simpl. split; [exact Hinv|]. split; [reflexivity|]. split; [|split; [|split; reflexivity]].
    + pose proof (i_reg _ Hinv) as Hr. inversion Hr; subst. assumption.
    + pose proof (i_disj _ Hinv) as Hd. destruct Hd as [Hd _]. exact Hd.
  - (* no retained block fits: they are all released, a new block is requested *)
    pose proof (inv_drop_after a I) as I1. fold before in I1.
    set (big := size >? 2 ^ cur_shift a - kBlockSizeOverhead).
    destruct (big && (size >? SIZE_MAX - kBlockSizeOverhead)) eqn:Hover.
    { simpl. split; [exact I1|]. split; reflexivity. }
    set (block_size := if big then size + kBlockHeader else 2 ^ cur_shift a - kAllocOverhead).
    destruct (mok block_size).
    2:{ simpl. split; [exact I1|]. split; reflexivity. }
    assert (Hbs : size <= block_size - kBlockHeader /\ block_size - kBlockHeader < 2 ^ 64).
    { unfold block_size, big in *. unfold kBlockSizeOverhead, kBlockHeader, kAllocOverhead, SIZE_MAX in *.
      destruct (Z.gtb_spec size (2 ^ cur_shift a - 48)); simpl in Hover.
      - rewrite Z.gtb_ltb in Hover. apply Z.ltb_ge in Hover. lia.
      - lia. }
    set (nb := mkmb (next_id a) (block_size - kBlockHeader)).
    assert (Hinv : inv (mkarena (before ++ nb :: []) (length before) size (mb_size nb)
                          (Z.min (cur_shift a + 1) (max_shift a)) (min_shift a) (max_shift a)
                          (has_static a) ((unused a + (mb_size (cur_block a) - ptr a) mod 2 ^ 32) mod 2 ^ 32) (slots a) (dyn a) (next_id a + 1)
                          ((mkaddr (mb_id nb) 0, size) :: live a))).
    { pose proof (fresh_id_not_used a I) as Hfresh.
      apply inv_switch_block; auto; try (simpl; lia); try (pose proof (i_nid a I); lia).
      - pose proof (i_ids a I) as Hnd. rewrite (chain_split_cur a) in Hnd. fold before after in Hnd.
        rewrite map_app, <- app_assoc in Hnd. apply nodup_remove_mid in Hnd.
        rewrite map_app. simpl map. rewrite <- app_assoc. simpl app.
        apply NoDup_Add with (a := next_id a) (l := map mb_id before ++ map mb_id (dyn a)).
        + apply Add_app.
        + split; [exact Hnd|]. intros Hin. apply Hfresh. rewrite (chain_split_cur a). fold before after.
          rewrite map_app, <- app_assoc. apply in_app_or in Hin. apply in_or_app.
          destruct Hin; [left; assumption|right; apply in_or_app; right; assumption].
      - intros x Hx. apply in_app_or in Hx. destruct Hx as [Hx|Hx].
        + apply in_app_or in Hx. destruct Hx as [Hx|[<-|[]]].
          * assert (0 <= mb_id x < next_id a); [|lia]. apply (i_fresh a I). apply in_or_app. left. eapply in_firstn. exact Hx.
          * simpl. pose proof (i_nid a I). lia.
        + assert (0 <= mb_id x < next_id a); [|lia]. apply (i_fresh a I). apply in_or_app. right. assumption.
      - intros Hin. apply Hfresh. unfold used_ids in Hin. apply in_app_or in Hin. apply in_or_app.
        destruct Hin as [Hin|Hin]; [left|right; assumption].
        apply in_map_iff in Hin. destruct Hin as (y & Hy1 & Hy2). simpl in Hy1. rewrite <- Hy1. apply in_map. eapply in_firstn. exact Hy2. }
    simpl. split; [exact Hinv|]. split; [reflexivity|]. split; [|split; [|split; reflexivity]].
    + pose proof (i_reg _ Hinv) as Hr. inversion Hr; subst. assumption.
    + pose proof (i_disj _ Hinv) as Hd. destruct Hd as [Hd _]. exact Hd.
Qed.

Theorem alloc_oneshot_sound mok a size : inv a -> 0 < size <= SIZE_MAX -> size mod 8 = 0 ->
  alloc_post a (snd (alloc_oneshot mok a size)) size (fst (alloc_oneshot mok a size)).
Proof.
  intros I Hs H8. unfold alloc_oneshot.
  destruct (Z.gtb_spec size (endp a - ptr a)) as [Hgt|Hle].
  - apply alloc_oneshot_slow_sound; assumption.
  - cbn [fst snd].
    assert (Hinv : inv (set_bump a (ptr a + size) ((mkaddr (mb_id (cur_block a)) (ptr a), size) :: live a))).
    { eapply (inv_add_at_ptr a _ size); try reflexivity; auto; try lia. apply (i_slots a I). }
    split; [exact Hinv|]. cbn [a_off]. split; [apply (i_al a I)|].
    split; [|split; [|split; reflexivity]].
    + pose proof (i_reg _ Hinv) as Hr. inversion Hr; subst. assumption.
    + pose proof (i_disj _ Hinv) as Hd. destruct Hd as [Hd _]. exact Hd.
Qed.

(* ---- the left-over loop *)
Lemma leftover_sound fuel : forall a p rem s,
  inv (set_ptr_slots a p s) -> p + rem = endp a -> 0 <= rem < 2 ^ 64 ->
  let r := leftover fuel (mb_id (cur_block a)) p rem s in
  inv (set_ptr_slots a (fst r) (snd r)) /\ p <= fst r <= endp a.
Proof.
  induction fuel as [|f IH]; intros a p rem s I Hpr Hrem; cbn [leftover].
  - cbn [fst snd]. split; [exact I|lia].
  - destruct (Z.ltb_spec rem kMinSlot) as [Hlt|Hge]; [cbn [fst snd]; split; [exact I|lia]|].
    unfold kMinSlot in Hge.
    pose proof (leftover_step_fits rem ltac:(lia)) as [Hfit1 Hfit2]. cbv zeta in Hfit1, Hfit2.
    set (si := slot_index (rem / 2)) in *.
    pose proof (slot_index_nonneg (rem / 2)) as Hsi0. fold si in Hsi0.
    set (slot := fst (if si <? kSlotCount then (si, slot_size si) else (kSlotCount - 1, kMaxSlot))).
    set (ssz := snd (if si <? kSlotCount then (si, slot_size si) else (kSlotCount - 1, kMaxSlot))).
    assert (Hpair : (if si <? kSlotCount then (si, slot_size si) else (kSlotCount - 1, kMaxSlot)) = (slot, ssz))
      by (unfold slot, ssz; destruct (si <? kSlotCount); reflexivity).
    rewrite Hpair.
    assert (Hslot : 0 <= slot < 8 /\ ssz = slot_size slot /\ ssz <= rem).
    { unfold slot, ssz, kSlotCount, kMaxSlot. destruct (Z.ltb_spec si 8); cbn [fst snd].
      - repeat split; try lia.
      - repeat split; try lia; try reflexivity. }
    destruct Hslot as (Hs1 & Hs2 & Hs3).
    destruct (slot_size_pos slot ltac:(lia)) as [Hpos Hmod8]. rewrite <- Hs2 in *.
    set (s1 := push_slot s (Z.to_nat slot) (mkaddr (mb_id (cur_block a)) p)).
    assert (Hlen : length s = 8%nat) by (apply (i_slots _ I)).
    destruct (push_slot_perm s (Z.to_nat slot) (mkaddr (mb_id (cur_block a)) p) 0 ltac:(lia)) as [Hperm Hl1].
    assert (I1 : inv (set_ptr_slots a (p + ssz) s1)).
    { eapply (inv_add_at_ptr (set_ptr_slots a p s) _ ssz); try reflexivity; auto.
      - cbn. lia.
      - unfold regions. cbn [live slots set_ptr_slots ptr].
        change (cur_block (set_ptr_slots a p s)) with (cur_block a).
        unfold s1. rewrite Hperm. rewrite Z2Nat.id by lia. rewrite Z.add_0_l, <- Hs2.
        apply Permutation_sym, Permutation_middle.
      - cbn. unfold s1. rewrite Hl1. assumption. }
    specialize (IH a (p + ssz) (rem - ssz) s1 I1 ltac:(lia) ltac:(lia)).
    cbv zeta in IH. destruct IH as [IHa IHb]. split; [exact IHa|lia].
Qed.

Lemma pd_app_cross l1 l2 x y : pd (l1 ++ l2) -> In x l1 -> In y l2 -> disjoint x y.
Proof.
  induction l1 as [|z l1 IH]; simpl; intros Hp Hx Hy; [contradiction|].
  destruct Hp as [Hf Hp]. destruct Hx as [->|Hx].
  - rewrite Forall_forall in Hf. apply Hf. apply in_or_app. right. assumption.
  - auto.
Qed.

Definition ralloc_post (a a' : arena) (size : Z) (r : option (addr * Z)) : Prop :=
  inv a' /\
  match r with
  | Some (p, asz) => size <= asz /\ a_off p mod 8 = 0 /\ region_in a' (p, asz) /\
                     Forall (disjoint (p, asz)) (live a) /\ live a' = (p, asz) :: live a
  | None => live a' = live a
  end.

Theorem alloc_reusable_sound mok a size : inv a -> 1 <= size <= SIZE_MAX ->
  ralloc_post a (snd (alloc_reusable mok a size)) size (fst (alloc_reusable mok a size)).
Proof.
  intros I Hs. unfold alloc_reusable, SIZE_MAX in *.
  pose proof (slot_index_nonneg size) as Hsi0.
  set (si := slot_index size) in *.
  destruct (Z.ltb_spec si kSlotCount) as [Hsi|Hsi]; unfold kSlotCount in Hsi.
  - (* a slot class *)
    pose proof (slot_size_fits size ltac:(lia)) as Hfit. fold si in Hfit.
    destruct (slot_size_pos si Hsi0) as [Hpos Hm8].
    assert (Hasz : slot_size si <= 2048).
    { unfold slot_size. assert (2 ^ si <= 2 ^ 7) by (apply Z.pow_le_mono_r; lia). change (2 ^ 7) with 128 in *. lia. }
    set (asz := slot_size si) in *.
    destruct (pop_slot (slots a) (Z.to_nat si)) as [[p s']|] eqn:Hpop.
    + (* reuse of a released slot *)
      destruct (pop_slot_perm _ _ _ _ 0 Hpop) as [Hperm Hlen].
      rewrite Z2Nat.id, Z.add_0_l in Hperm by lia. fold asz in Hperm.
      cbn [fst snd].
      assert (Hinv : inv (set_slots a s' ((p, asz) :: live a))).
      { eapply (inv_perm a); try reflexivity; auto.
        - unfold regions. cbn [live slots set_slots]. rewrite Hperm. simpl. apply Permutation_middle.
        - cbn. rewrite Hlen. apply (i_slots a I). }
      assert (Hin : In (p, asz) (slot_regions (slots a) 0)).
      { eapply Permutation_in; [apply Permutation_sym; exact Hperm|]. left. reflexivity. }
      assert (Hreg : region_in a (p, asz)).
      { pose proof (i_reg a I) as Hr. rewrite Forall_forall in Hr. apply Hr. unfold regions. apply in_or_app. right. assumption. }
      split; [exact Hinv|]. split; [assumption|]. split; [apply Hreg|].
      split; [|split; [|reflexivity]].
      * pose proof (i_reg _ Hinv) as Hr. inversion Hr; subst. assumption.
      * rewrite Forall_forall. intros r Hr. apply disjoint_sym.
        eapply (pd_app_cross (live a) (slot_regions (slots a) 0)); eauto. apply (i_disj a I).
    + destruct (Z.geb_spec (endp a - ptr a) asz) as [Hge|Hlt].
      * (* bump *)
        cbn [fst snd].
        assert (Hinv : inv (set_bump a (ptr a + asz) ((mkaddr (mb_id (cur_block a)) (ptr a), asz) :: live a))).
        { eapply (inv_add_at_ptr a _ asz); try reflexivity; auto; try lia. apply (i_slots a I). }
        split; [exact Hinv|]. split; [assumption|]. cbn [a_off]. split; [apply (i_al a I)|].
        split; [|split; [|reflexivity]].
        -- pose proof (i_reg _ Hinv) as Hr. inversion Hr; subst. assumption.
        -- pose proof (i_disj _ Hinv) as Hd. destruct Hd as [Hd _].
           unfold regions in Hd. apply Forall_app in Hd. apply Hd.
      * (* the rest of the block goes to the slots, then a new block *)
        set (rem := endp a - ptr a) in *.
        assert (Hrem : 0 <= rem < 2 ^ 64).
        { unfold rem. pose proof (i_ptr a I). split; [lia|].
          lia. }
        assert (I0 : inv (set_ptr_slots a (ptr a) (slots a))).
        { eapply (inv_perm a); try reflexivity; auto. apply (i_slots a I). }
        pose proof (leftover_sound (Z.to_nat (rem / 16) + 1) a (ptr a) rem (slots a) I0 ltac:(unfold rem; lia) Hrem) as Hl.
        cbv zeta in Hl.
        destruct (leftover (Z.to_nat (rem / 16) + 1) (mb_id (cur_block a)) (ptr a) rem (slots a)) as [p' s'] eqn:El.
        cbn [fst snd] in Hl. destruct Hl as [I1 Hp'].
        set (a1 := set_ptr_slots a p' s') in *.
        pose proof (alloc_oneshot_slow_sound mok a1 asz I1 ltac:(unfold SIZE_MAX; lia) Hm8) as Hpost.
        destruct (alloc_oneshot_slow mok a1 asz) as [[p|] a2] eqn:Eslow; cbn [fst snd] in *.
        -- destruct Hpost as (I2 & Hal & Hreg & Hdis & Hlive & _).
           split; [exact I2|]. split; [assumption|]. split; [assumption|]. split; [assumption|].
           split; [|exact Hlive].
           unfold regions in Hdis. apply Forall_app in Hdis. apply Hdis.
        -- destruct Hpost as (I2 & Hlive & _). split; [exact I2|exact Hlive].
  - (* a dynamic block *)
    unfold kDynOverhead.
    destruct (Z.geb_spec size (2 ^ 64 - 1 - 24)) as [Hbig|Hok].
    { cbn [fst snd]. split; [exact I|reflexivity]. }
    destruct (mok (size + 24)); [|cbn [fst snd]; split; [exact I|reflexivity]].
    cbn [fst snd].
    set (a' := mkarena _ _ _ _ _ _ _ _ _ _ _ _ _).
    pose proof (fresh_id_not_used a I) as Hfresh.
    assert (Hext : extends a a').
    { apply extends_refl_with; try reflexivity; try lia. intros b Hb. right. assumption. }
    assert (Hnew : region_in a' (mkaddr (next_id a) 0, size)).
    { unfold region_in. cbn [fst snd a_off a_blk]. repeat split; try lia.
      right. right. exists (mkmb (next_id a) size). repeat split. left. reflexivity. }
    assert (Hdis : Forall (disjoint (mkaddr (next_id a) 0, size)) (regions a)).
    { apply new_blk_disjoint; [assumption|]. intros Hin. apply Hfresh. unfold used_ids in Hin.
      apply in_app_or in Hin. apply in_or_app. destruct Hin as [Hin|Hin]; [left|right; assumption].
      apply in_map_iff in Hin. destruct Hin as (y & Hy1 & Hy2). rewrite <- Hy1. apply in_map. eapply in_firstn. exact Hy2. }
    assert (Hinv : inv a').
    { constructor; try (apply I; fail).
      - change (NoDup (map mb_id (chain a) ++ next_id a :: map mb_id (dyn a))).
        apply NoDup_Add with (a := next_id a) (l := map mb_id (chain a) ++ map mb_id (dyn a)).
        + apply Add_app.
        + split; [apply (i_ids a I)|exact Hfresh].
      - intros b Hb. change (next_id a') with (next_id a + 1).
        apply in_app_or in Hb. destruct Hb as [Hb|[<-|Hb]].
        + assert (0 <= mb_id b < next_id a); [|lia]. apply (i_fresh a I). apply in_or_app. left. assumption.
        + simpl. pose proof (i_nid a I). lia.
        + assert (0 <= mb_id b < next_id a); [|lia]. apply (i_fresh a I). apply in_or_app. right. assumption.
      - change (regions a') with ((mkaddr (next_id a) 0, size) :: regions a). constructor; [exact Hnew|].
        eapply Forall_impl; [|apply (i_reg a I)]. intros r Hr. eapply region_in_extends; eauto.
      - change (regions a') with ((mkaddr (next_id a) 0, size) :: regions a). apply pd_cons; [exact Hdis|apply (i_disj a I)].
      - change (next_id a') with (next_id a + 1). pose proof (i_nid a I). lia. }
    split; [exact Hinv|]. split; [lia|]. split; [reflexivity|]. split; [exact Hnew|]. split; [|reflexivity].
    unfold regions in Hdis. apply Forall_app in Hdis. apply Hdis.
Qed.

(* ------------------------------------------------------------------ release *)
Lemma addr_eqb_eq x y : addr_eqb x y = true <-> x = y.
Proof.
  unfold addr_eqb. rewrite andb_true_iff, !Z.eqb_eq. destruct x, y; simpl. split.
  - intros [-> ->]. reflexivity.
  - intros H. inversion H. auto.
Qed.

Lemma remove_live_perm p n l : In (p, n) l -> pd l -> (forall r, In r l -> 0 < snd r) ->
  Permutation l ((p, n) :: remove_live p l).
Proof.
  induction l as [|[q m] l IH]; simpl; intros Hin Hpd Hpos; [contradiction|].
  destruct Hpd as [Hf Hpd].
  destruct (addr_eqb q p) eqn:E.
  - apply addr_eqb_eq in E. subst q. destruct Hin as [Hin|Hin].
    + inversion Hin; subst. reflexivity.
    + exfalso. rewrite Forall_forall in Hf. specialize (Hf _ Hin). unfold disjoint in Hf. simpl in Hf.
      pose proof (Hpos (p, m) (or_introl eq_refl)). pose proof (Hpos (p, n) (or_intror Hin)). simpl in *. lia.
  - destruct Hin as [Hin|Hin].
    + inversion Hin; subst. assert (addr_eqb p p = true) by (apply addr_eqb_eq; reflexivity). congruence.
    + rewrite perm_swap. apply perm_skip. apply IH; auto.
Qed.

Lemma regions_pos a r : inv a -> In r (regions a) -> 0 < snd r.
Proof. intros I Hin. pose proof (i_reg a I) as Hr. rewrite Forall_forall in Hr. apply (Hr r Hin). Qed.

Lemma remove_dyn_split id l : In id (map mb_id l) ->
  exists l1 b l2, l = l1 ++ b :: l2 /\ mb_id b = id /\ remove_dyn id l = l1 ++ l2.
Proof.
  induction l as [|x l IH]; simpl; intros Hin; [contradiction|].
  destruct (Z.eqb_spec (mb_id x) id) as [He|Hne].
  - exists [], x, l. auto.
  - destruct Hin as [?|Hin]; [contradiction|]. destruct (IH Hin) as (l1 & b & l2 & -> & Hb & Hr).
    exists (x :: l1), b, l2. simpl. rewrite Hr. auto.
Qed.

Lemma nodup_map_inj {A} (f : A -> Z) l x y : NoDup (map f l) -> In x l -> In y l -> f x = f y -> x = y.
Proof.
  induction l as [|z l IH]; simpl; intros Hnd Hx Hy He; [contradiction|].
  inversion Hnd; subst. destruct Hx as [->|Hx], Hy as [->|Hy]; auto.
  - exfalso. apply H1. rewrite He. apply in_map. assumption.
  - exfalso. apply H1. rewrite <- He. apply in_map. assumption.
Qed.

Theorem free_reusable_sound a p size n : inv a -> In (p, n) (live a) ->
  (slot_index size < 8 -> n = slot_size (slot_index size)) ->
  (8 <= slot_index size -> In (a_blk p) (map mb_id (dyn a))) ->
  inv (free_reusable a p size) /\ Permutation (live a) ((p, n) :: live (free_reusable a p size)).
Proof.
  intros I Hin Hslot Hdyn. unfold free_reusable.
  pose proof (slot_index_nonneg size) as Hsi0.
  assert (Hlp : Permutation (live a) ((p, n) :: remove_live p (live a))).
  { apply remove_live_perm; auto.
    - pose proof (i_disj a I) as Hd. unfold regions in Hd. apply pd_app_inv in Hd. apply Hd.
    - intros r Hr. apply (regions_pos a r I). unfold regions. apply in_or_app. left. assumption. }
  destruct (Z.ltb_spec (slot_index size) kSlotCount) as [Hsi|Hsi]; unfold kSlotCount in Hsi.
  - split; [|exact Hlp].
    destruct (push_slot_perm (slots a) (Z.to_nat (slot_index size)) p 0) as [Hperm Hlen].
    { rewrite (i_slots a I). lia. }
    rewrite Z2Nat.id, Z.add_0_l, <- (Hslot Hsi) in Hperm by lia.
    eapply (inv_perm a); try reflexivity; auto.
    + unfold regions. cbn [live slots set_slots].
      eapply Permutation_trans; [apply Permutation_app_head; exact Hperm|].
      eapply Permutation_trans; [apply Permutation_sym, Permutation_middle|].
      apply (Permutation_app_tail (slot_regions (slots a) 0) (Permutation_sym Hlp)).
    + cbn. rewrite Hlen. apply (i_slots a I).
  - split; [|exact Hlp]. cbn [live] in *.
    set (a' := mkarena _ _ _ _ _ _ _ _ _ _ _ _ _).
    destruct (remove_dyn_split _ _ (Hdyn Hsi)) as (d1 & b & d2 & Hd & Hb & Hrm).
    assert (Hperm : Permutation (regions a) ((p, n) :: regions a')).
    { unfold regions. cbn [live slots a']. apply (Permutation_app_tail (slot_regions (slots a) 0) Hlp). }
    assert (Hpd : pd ((p, n) :: regions a')) by (eapply pd_perm; [exact Hperm|apply (i_disj a I)]).
    assert (Hnd : NoDup (map mb_id (chain a) ++ map mb_id (dyn a))) by apply (i_ids a I).
    assert (Hb_in : In b (dyn a)) by (rewrite Hd; apply in_or_app; right; left; reflexivity).
    assert (Hpn : a_off p = 0 /\ n = mb_size b).
    { assert (Hr : region_in a (p, n)).
      { pose proof (i_reg a I) as Hr. rewrite Forall_forall in Hr. apply Hr. unfold regions. apply in_or_app. left. assumption. }
      destruct Hr as (_ & _ & _ & [(c & Hc & Hid & _)|[(Hne & Hid & _)|(c & Hc & Hid & Ho & Hsz)]]); cbn [fst snd] in *.
      - exfalso. apply (nodup_app_disj _ _ (a_blk p) Hnd).
        + rewrite <- Hid. apply in_map. eapply in_firstn. exact Hc.
        + apply Hdyn. assumption.
      - exfalso. apply (nodup_app_disj _ _ (a_blk p) Hnd).
        + rewrite <- Hid. apply in_map. destruct (i_cur a I) as [?|Hlt]; [contradiction|].
          eapply nth_error_In. apply cur_block_nth_error. assumption.
        + apply Hdyn. assumption.
      - assert (c = b); [|subst; auto].
        apply (nodup_map_inj mb_id (dyn a)); auto; [eapply nodup_app_r; eauto|congruence]. }
    constructor; try (apply I; fail).
    + cbn [chain dyn a']. rewrite Hrm. rewrite Hd, map_app in Hnd. simpl map in Hnd.
      rewrite map_app.
      replace (map mb_id (chain a) ++ map mb_id d1 ++ mb_id b :: map mb_id d2)
        with ((map mb_id (chain a) ++ map mb_id d1) ++ [mb_id b] ++ map mb_id d2) in Hnd by (rewrite <- app_assoc; reflexivity).
      apply nodup_remove_mid in Hnd. rewrite <- app_assoc in Hnd. exact Hnd.
    + intros x Hx. apply (i_fresh a I). cbn [chain dyn a'] in Hx. rewrite Hrm in Hx.
      apply in_app_or in Hx. apply in_or_app. destruct Hx as [Hx|Hx]; [left; assumption|right].
      rewrite Hd. apply in_app_or in Hx. apply in_or_app. destruct Hx; [left; assumption|right; right; assumption].
    + rewrite Forall_forall. intros r Hr.
      assert (Hra : region_in a r).
      { pose proof (i_reg a I) as Hall. rewrite Forall_forall in Hall. apply Hall.
        eapply Permutation_in; [apply Permutation_sym; exact Hperm|]. right. assumption. }
      destruct Hra as (H1 & H2 & H3 & H4). repeat split; auto.
      destruct H4 as [H4|[H4|(c & Hc & Hid & Ho & Hsz)]]; [left; exact H4|right; left; exact H4|].
      right. right. exists c. repeat split; auto.
      cbn [dyn a']. rewrite Hrm. rewrite Hd in Hc. apply in_app_or in Hc. apply in_or_app.
      destruct Hc as [Hc|[Hc|Hc]]; [left; assumption| |right; assumption].
      exfalso. subst c. destruct Hpd as [Hf _]. rewrite Forall_forall in Hf. specialize (Hf r Hr).
      unfold disjoint in Hf. cbn [fst snd] in Hf. destruct Hpn as [Hp0 Hpn]. lia.
    + destruct Hpd as [_ Hpd]. exact Hpd.
Qed.

(* ------------------------------------------------------------------ reset *)
Theorem reset_sound a hard : inv a ->
  inv (arena_reset a hard) /\ live (arena_reset a hard) = [] /\ regions (arena_reset a hard) = [] /\ dyn (arena_reset a hard) = [].
Proof.
  intros I. unfold arena_reset.
  set (c := if hard then if has_static a then firstn 1 (chain a) else [] else chain a).
  assert (Hsub : forall x, In x c -> In x (chain a)).
  { unfold c. destruct hard; [|auto]. destruct (has_static a); [|intros x []]. intros x Hx. eapply in_firstn. exact Hx. }
  assert (Hnd : NoDup (map mb_id c)).
  { pose proof (i_ids a I) as Hnd. apply nodup_app_l in Hnd. unfold c. destruct hard; [|assumption].
    destruct (has_static a); [|constructor].
    rewrite <- (firstn_skipn 1 (chain a)), map_app in Hnd. apply nodup_app_l in Hnd. exact Hnd. }
  split; [|repeat split; reflexivity].
  constructor; cbn [chain cur ptr endp cur_shift min_shift max_shift slots dyn next_id live].
  - assert (0 <= mb_size (nth 0 c zero_block)); [|lia].
    destruct c as [|b c']; simpl; [lia|]. apply (i_sz a I). apply Hsub. left. reflexivity.
  - reflexivity.
  - reflexivity.
  - destruct c; [left; reflexivity|right; simpl; lia].
  - simpl. rewrite app_nil_r. exact Hnd.
  - intros b Hb. rewrite app_nil_r in Hb. apply (i_fresh a I). apply in_or_app. left. auto.
  - constructor.
  - exact Logic.I.
  - reflexivity.
  - intros b Hb. apply (i_sz a I). auto.
  - pose proof (i_shift a I). destruct hard; lia.
  - apply (i_nid a I).
Qed.

(* ------------------------------------------------------------------ every operation sequence *)
Inductive aop := AOneshot (size : Z) | AReusable (size : Z) | AFree (p : addr) (size : Z) | AReset (hard : bool).

(* what the caller owes: one-shot sizes are multiples of 8 (asserted by Arena::alloc_oneshot), a released block is live and
   is released with a size of the class it was allocated with *)
Definition aop_ok (a : arena) (o : aop) : Prop :=
  match o with
  | AOneshot size => 0 < size <= SIZE_MAX /\ size mod 8 = 0
  | AReusable size => 1 <= size <= SIZE_MAX
  | AFree p size => exists n, In (p, n) (live a) /\ (slot_index size < 8 -> n = slot_size (slot_index size)) /\
                              (8 <= slot_index size -> In (a_blk p) (map mb_id (dyn a)))
  | AReset _ => True
  end.

Definition astep (mok : Z -> bool) (a : arena) (o : aop) : arena :=
  match o with
  | AOneshot size => snd (alloc_oneshot mok a size)
  | AReusable size => snd (alloc_reusable mok a size)
  | AFree p size => free_reusable a p size
  | AReset hard => arena_reset a hard
  end.

Inductive reachable (mok : Z -> bool) (a0 : arena) : arena -> Prop :=
| reach_0 : reachable mok a0 a0
| reach_step a o : reachable mok a0 a -> aop_ok a o -> reachable mok a0 (astep mok a o).

Theorem reachable_inv mok a0 a : inv a0 -> reachable mok a0 a -> inv a.
Proof.
  intros I0 H. induction H as [|a o Hr IH Hok]; [assumption|].
  destruct o as [size|size|p size|hard]; simpl in *.
  - destruct Hok. apply (alloc_oneshot_sound mok a size); assumption.
  - apply (alloc_reusable_sound mok a size); assumption.
  - destruct Hok as (n & H1 & H2 & H3). apply (free_reusable_sound a p size n); assumption.
  - apply reset_sound. assumption.
Qed.

(* the live blocks of every reachable state are pairwise disjoint, 8-aligned and inside the arena's blocks *)
Theorem reachable_live_disjoint mok a0 a : inv a0 -> reachable mok a0 a ->
  pd (live a) /\ Forall (fun r => a_off (fst r) mod 8 = 0 /\ region_in a r) (live a).
Proof.
  intros I0 H. pose proof (reachable_inv mok a0 a I0 H) as I.
  pose proof (i_disj a I) as Hd. unfold regions in Hd. apply pd_app_inv in Hd. split; [apply Hd|].
  pose proof (i_reg a I) as Hr. unfold regions in Hr. apply Forall_app in Hr. destruct Hr as [Hr _].
  eapply Forall_impl; [|exact Hr]. intros r Hreg. split; [apply Hreg|exact Hreg].
Qed.

Theorem stats_used_le_reserved a : inv a ->
  let '(_, used, reserved, _) := arena_stats a in 0 <= used <= reserved.
Proof.
  intros I. unfold arena_stats.
  assert (Hsum : forall l, (forall b, In b l -> 0 <= mb_size b) -> 0 <= sum_sizes l).
  { induction l; simpl; intros; [lia|]. pose proof (H a0 (or_introl eq_refl)). assert (0 <= sum_sizes l) by (apply IHl; auto). lia. }
  pose proof (i_ptr a I) as Hp. rewrite (i_end a I) in Hp.
  assert (Hnn : forall b, In b (chain a) -> 0 <= mb_size b) by (intros b Hb; apply (i_sz a I b Hb)).
  assert (H0 : 0 <= sum_sizes (firstn (cur a) (chain a))).
  { apply Hsum. intros b Hb. apply Hnn. eapply in_firstn. exact Hb. }
  split; [lia|].
  destruct (i_cur a I) as [Hc|Hc].
  - unfold cur_block in Hp. rewrite Hc in *. destruct (cur a); simpl in *; lia.
  - rewrite <- (firstn_skipn (cur a) (chain a)) at 2.
    assert (Happ : forall l1 l2, sum_sizes (l1 ++ l2) = sum_sizes l1 + sum_sizes l2).
    { induction l1; simpl; intros; [reflexivity|]. rewrite IHl1. lia. }
    rewrite Happ.
    assert (Hsk : skipn (cur a) (chain a) = cur_block a :: skipn (S (cur a)) (chain a)).
    { unfold cur_block. clear -Hc. revert Hc. generalize (cur a) as k. induction (chain a) as [|x l IH]; intros [|k] H; simpl in *; try lia; [reflexivity|].
      apply IH. lia. }
    rewrite Hsk. cbn [sum_sizes].
    assert (0 <= sum_sizes (skipn (S (cur a)) (chain a))).
    { apply Hsum. intros b Hb. apply Hnn. rewrite <- (firstn_skipn (S (cur a)) (chain a)). apply in_or_app. right. assumption. }
    lia.
Qed.

(* ------------------------------------------------------------------ facts used by the containers on top of the arena *)
(* sizes of one slot class: everything in (slot_size k / 2, slot_size k] (and [1, 16] for k = 0) is released into class k *)
Lemma slot_index_class k x : 0 <= k -> k + 4 < 64 -> x <= slot_size k -> (k = 0 -> 1 <= x) -> (1 <= k -> slot_size k < 2 * x) ->
  slot_index x = k.
Proof.
  intros Hk Hk64 Hle H0 H1. rewrite slot_index_eq. unfold slot_size in *.
  assert (Hp : 16 * 2 ^ k = 2 ^ (k + 4)) by (rewrite Z.pow_add_r by lia; change (2 ^ 4) with 16; ring).
  assert (Hlt64 : 2 ^ (k + 4) < 2 ^ 64) by (apply Z.pow_lt_mono_r; lia).
  destruct (Z.eq_dec k 0) as [->|Hn].
  - specialize (H0 eq_refl). simpl in Hle. rewrite Z.mod_small by lia.
    assert (Z.log2 (x - 1) <= 3).
    { destruct (Z.eq_dec x 1) as [->|]; [simpl; lia|]. apply Z.lt_succ_r. apply Z.log2_lt_pow2; [lia|]. simpl. lia. }
    lia.
  - specialize (H1 ltac:(lia)). rewrite Hp in *.
    assert (Hpk : 2 ^ (k + 4) = 2 * 2 ^ (k + 3)) by (replace (k + 4) with (1 + (k + 3)) by lia; rewrite Z.pow_add_r by lia; reflexivity).
    assert (0 < 2 ^ (k + 3)) by (apply pow2_pos; lia).
    rewrite Z.mod_small by lia.
    assert (Z.log2 (x - 1) = k + 3).
    { apply Z.log2_unique; [lia|]. replace (Z.succ (k + 3)) with (k + 4) by lia. lia. }
    lia.
Qed.

Lemma in_remove_dyn_other id l x : In x (map mb_id l) -> x <> id -> In x (map mb_id (remove_dyn id l)).
Proof.
  induction l as [|b l IH]; simpl; intros Hin Hne; [contradiction|].
  destruct (Z.eqb_spec (mb_id b) id).
  - destruct Hin as [Hin|Hin]; [lia|assumption].
  - simpl. destruct Hin; [left; assumption|right; auto].
Qed.

(* which size a reusable allocation reports, and what it does to the dynamic-block list *)
Lemma alloc_reusable_class mok a size p asz : 1 <= size <= SIZE_MAX ->
  fst (alloc_reusable mok a size) = Some (p, asz) ->
  (slot_index size < 8 /\ asz = slot_size (slot_index size) /\ dyn (snd (alloc_reusable mok a size)) = dyn a /\
   next_id a <= next_id (snd (alloc_reusable mok a size))) \/
  (8 <= slot_index size /\ asz = size /\ a_blk p = next_id a /\
   dyn (snd (alloc_reusable mok a size)) = mkmb (next_id a) size :: dyn a /\
   next_id (snd (alloc_reusable mok a size)) = next_id a + 1).
Proof.
  intros Hs. unfold alloc_reusable.
  destruct (Z.ltb_spec (slot_index size) kSlotCount) as [Hsi|Hsi]; unfold kSlotCount in Hsi.
  - intros H. left. split; [assumption|].
    destruct (pop_slot (slots a) (Z.to_nat (slot_index size))) as [[q s']|].
    { cbn [fst snd] in *. inversion H; subst. repeat split; try reflexivity; cbn; lia. }
    destruct (endp a - ptr a >=? slot_size (slot_index size)).
    { cbn [fst snd] in *. inversion H; subst. repeat split; try reflexivity; cbn; lia. }
    destruct (leftover _ _ _ _ _) as [p' s'].
    set (a1 := set_ptr_slots a p' s') in *.
    assert (Hd : dyn (snd (alloc_oneshot_slow mok a1 (slot_size (slot_index size)))) = dyn a /\
                 next_id a <= next_id (snd (alloc_oneshot_slow mok a1 (slot_size (slot_index size))))).
    { unfold alloc_oneshot_slow. destruct (scan_next _ _) as [[b rest]|]; [cbn; split; [reflexivity|lia]|].
      destruct (_ && _); [cbn; split; [reflexivity|lia]|]. destruct (mok _); cbn; split; try reflexivity; lia. }
    destruct (alloc_oneshot_slow mok a1 (slot_size (slot_index size))) as [[q|] a2]; cbn [fst snd] in *; [|discriminate].
    inversion H; subst. destruct Hd. repeat split; assumption.
  - intros H. right. split; [assumption|].
    destruct (size >=? SIZE_MAX - kDynOverhead); [cbn in H; discriminate|].
    destruct (mok (size + kDynOverhead)); [|cbn in H; discriminate].
    cbn [fst snd] in *. inversion H; subst. repeat split; reflexivity.
Qed.

(* an allocation never removes a dynamic block *)
Lemma alloc_reusable_dyn_mono mok a size x : In x (map mb_id (dyn a)) -> In x (map mb_id (dyn (snd (alloc_reusable mok a size)))).
Proof.
  intros Hin. unfold alloc_reusable.
  destruct (slot_index size <? kSlotCount).
  - destruct (pop_slot (slots a) (Z.to_nat (slot_index size))) as [[q s']|]; [exact Hin|].
    destruct (endp a - ptr a >=? slot_size (slot_index size)); [exact Hin|].
    destruct (leftover _ _ _ _ _) as [p' s'].
    set (a1 := set_ptr_slots a p' s').
    assert (Hd : dyn (snd (alloc_oneshot_slow mok a1 (slot_size (slot_index size)))) = dyn a).
    { unfold alloc_oneshot_slow. destruct (scan_next _ _) as [[b rest]|]; [reflexivity|].
      destruct (_ && _); [reflexivity|]. destruct (mok _); reflexivity. }
    destruct (alloc_oneshot_slow mok a1 (slot_size (slot_index size))) as [[q|] a2]; cbn [fst snd] in *; rewrite Hd; exact Hin.
  - destruct (size >=? SIZE_MAX - kDynOverhead); [exact Hin|].
    destruct (mok (size + kDynOverhead)); [|exact Hin]. cbn. right. exact Hin.
Qed.

Lemma live_region_blk_lt a p n : inv a -> In (p, n) (live a) -> a_blk p < next_id a.
Proof.
  intros I Hin.
  assert (Hr : region_in a (p, n)).
  { pose proof (i_reg a I) as Hr. rewrite Forall_forall in Hr. apply Hr. unfold regions. apply in_or_app. left. assumption. }
  pose proof (region_blk_used a (p, n) (i_cur a I) Hr) as Hu. cbn [fst] in Hu.
  unfold used_ids in Hu. apply in_app_or in Hu.
  assert (forall b, In b (chain a ++ dyn a) -> mb_id b < next_id a) by (intros b Hb; apply (i_fresh a I b Hb)).
  destruct Hu as [Hu|Hu]; apply in_map_iff in Hu; destruct Hu as (b & <- & Hb); apply H; apply in_or_app.
  - left. eapply in_firstn. exact Hb.
  - right. exact Hb.
Qed.

(* two live blocks inside the same dynamic block are the same block *)
Lemma dyn_live_unique a q n p m : inv a -> In (q, n) (live a) -> In (p, m) (live a) ->
  a_blk q = a_blk p -> In (a_blk q) (map mb_id (dyn a)) -> q = p.
Proof.
  intros I Hq Hp Hb Hd.
  assert (Hoff : forall x k, In (x, k) (live a) -> In (a_blk x) (map mb_id (dyn a)) -> a_off x = 0).
  { intros x k Hx Hxd.
    assert (Hr : region_in a (x, k)).
    { pose proof (i_reg a I) as Hr. rewrite Forall_forall in Hr. apply Hr. unfold regions. apply in_or_app. left. assumption. }
    pose proof (i_ids a I) as Hnd.
    destruct Hr as (_ & _ & _ & [(c & Hc & Hid & _)|[(Hne & Hid & _)|(c & Hc & Hid & Ho & _)]]); cbn [fst snd] in *.
    - exfalso. apply (nodup_app_disj _ _ (a_blk x) Hnd); [rewrite <- Hid; apply in_map; eapply in_firstn; exact Hc|exact Hxd].
    - exfalso. apply (nodup_app_disj _ _ (a_blk x) Hnd); [|exact Hxd].
      rewrite <- Hid. apply in_map. destruct (i_cur a I) as [?|Hlt]; [contradiction|].
      eapply nth_error_In. apply cur_block_nth_error. assumption.
    - exact Ho. }
  pose proof (Hoff q n Hq Hd) as H1. rewrite Hb in Hd. pose proof (Hoff p m Hp Hd) as H2.
  destruct q, p; cbn in *. subst. reflexivity.
Qed.

(* Arena::dup: the block is a fresh one-shot block (aligned, disjoint from everything live), large enough for the data and
   the terminator, holds the data followed by zero bytes *)
Theorem arena_dup_sound mok a data nt : inv a -> 0 < Z.of_nat (length data) < 2 ^ 63 ->
  let r := arena_dup mok a data nt in
  inv (snd r) /\
  match fst r with
  | Some (p, bytes) => exists asz, In (p, asz) (live (snd r)) /\ Forall (disjoint (p, asz)) (regions a) /\ a_off p mod 8 = 0 /\
                         Z.of_nat (length bytes) = asz /\ Z.of_nat (length data) + (if nt then 1 else 0) <= asz /\
                         firstn (length data) bytes = data /\ Forall (fun b => b = 0) (skipn (length data) bytes)
  | None => live (snd r) = live a
  end.
Proof.
  intros I Hlen. unfold arena_dup.
  set (size := Z.of_nat (length data)) in *.
  destruct (Z.eqb_spec size 0); [lia|].
  set (asz := ((size + (if nt then 1 else 0) + 7) / 8) * 8).
  assert (Hasz : size + (if nt then 1 else 0) <= asz < size + (if nt then 1 else 0) + 8 /\ asz mod 8 = 0).
  { unfold asz. split; [|apply Z.mod_mul; lia].
    pose proof (Z.div_mod (size + (if nt then 1 else 0) + 7) 8 ltac:(lia)).
    pose proof (Z.mod_pos_bound (size + (if nt then 1 else 0) + 7) 8 ltac:(lia)). lia. }
  destruct Hasz as [Ha1 Ha2].
  assert (Hb : 0 < asz <= SIZE_MAX) by (unfold SIZE_MAX; change (2 ^ 64) with (2 * 2 ^ 63); destruct nt; lia).
  pose proof (alloc_oneshot_sound mok a asz I Hb Ha2) as Hp. unfold alloc_post in Hp.
  destruct (alloc_oneshot mok a asz) as [[p|] a']; cbn [fst snd] in *; destruct Hp as [I' Hp]; (split; [exact I'|]).
  - destruct Hp as (Hal & _ & Hdis & Hlive & _). exists asz. split; [rewrite Hlive; left; reflexivity|]. split; [exact Hdis|]. split; [exact Hal|].
    split; [rewrite app_length, repeat_length; unfold size in *; destruct nt; lia|]. split; [lia|]. split.
    + rewrite firstn_app, firstn_all, Nat.sub_diag. cbn. apply app_nil_r.
    + rewrite skipn_app, skipn_all, Nat.sub_diag. cbn. apply Forall_forall. intros x Hx. apply repeat_spec in Hx. exact Hx.
  - apply Hp.
Qed.

(* Arena::sformat (with fixes/C18-arena-sformat-overflow.patch): the result is a fresh live block that holds the first
   min(length, 510) characters of the output, a terminator and zero padding; on failure nothing becomes live *)
Theorem arena_sformat_sound mok a text : inv a ->
  let r := arena_sformat mok a text in
  let kept := firstn 510 text in
  inv (snd r) /\
  match fst r with
  | Some (p, bytes) => exists asz, In (p, asz) (live (snd r)) /\ Forall (disjoint (p, asz)) (regions a) /\ a_off p mod 8 = 0 /\
                         Z.of_nat (length bytes) = asz /\ Z.of_nat (length kept) + 1 <= asz /\ (length kept <= 510)%nat /\
                         firstn (length kept) bytes = kept /\ Forall (fun b => b = 0) (skipn (length kept) bytes)
  | None => live (snd r) = live a
  end.
Proof.
  intros I. cbn zeta. unfold arena_sformat.
  set (kept := firstn 510 text).
  assert (Hk : (length kept <= 510)%nat) by (unfold kept; rewrite firstn_length; lia).
  pose proof (arena_dup_sound mok a (kept ++ [0]) false I) as H. rewrite app_length in H. cbn [length] in H.
  specialize (H ltac:(change (2 ^ 63) with 9223372036854775808; lia)). cbn zeta in H. destruct H as [H1 H2]. split; [exact H1|].
  destruct (fst (arena_dup mok a (kept ++ [0]) false)) as [[p bytes]|]; [|exact H2].
  destruct H2 as (asz & A1 & A2 & A3 & A4 & A5 & A6 & A7). exists asz.
  split; [exact A1|]. split; [exact A2|]. split; [exact A3|]. split; [exact A4|]. split; [lia|]. split; [exact Hk|].
  assert (Hb : bytes = (kept ++ [0]) ++ skipn (length kept + 1) bytes) by (rewrite <- A6 at 1; symmetry; apply firstn_skipn).
  split.
  - rewrite Hb, <- app_assoc. rewrite firstn_app, firstn_all, Nat.sub_diag. cbn [firstn]. apply app_nil_r.
  - rewrite Hb at 1. rewrite <- app_assoc. rewrite skipn_app, skipn_all, Nat.sub_diag. cbn [skipn app]. constructor; [reflexivity|exact A7].
Qed.

(* ArenaString<N>::set_data: short strings stay embedded (arena untouched, NUL-terminated copy); longer ones are duplicated into a
   fresh live arena block, NUL-terminated and zero-padded; on kOutOfMemory nothing becomes live *)
Theorem arena_string_set_sound mok a maxe data : inv a -> 0 <= maxe -> Z.of_nat (length data) < 2 ^ 63 ->
  let r := arena_string_set mok a maxe data in
  inv (snd r) /\
  match fst r with
  | Some (None, bytes) => Z.of_nat (length data) <= maxe /\ bytes = data ++ [0] /\ snd r = a
  | Some (Some p, bytes) => maxe < Z.of_nat (length data) /\
      exists asz, In (p, asz) (live (snd r)) /\ Forall (disjoint (p, asz)) (regions a) /\ Z.of_nat (length bytes) = asz /\
        Z.of_nat (length data) + 1 <= asz /\ firstn (length data) bytes = data /\ Forall (fun b => b = 0) (skipn (length data) bytes)
  | None => maxe < Z.of_nat (length data) /\ live (snd r) = live a
  end.
Proof.
  intros I Hm Hl. cbn zeta. unfold arena_string_set.
  destruct (Z.leb_spec (Z.of_nat (length data)) maxe) as [Hle|Hgt]; cbn [fst snd]; [split; [exact I|]; split; [exact Hle|split; reflexivity]|].
  pose proof (arena_dup_sound mok a data true I ltac:(lia)) as H. cbn zeta in H. destruct H as [H1 H2].
  destruct (arena_dup mok a data true) as [[[p bytes]|] a']; cbn [fst snd] in *.
  - split; [exact H1|]. split; [exact Hgt|]. destruct H2 as (asz & A1 & A2 & _ & A4 & A5 & A6 & A7). exists asz. repeat split; assumption.
  - split; [exact H1|]. split; [exact Hgt|exact H2].
Qed.

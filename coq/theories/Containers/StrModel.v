(* C18 (3) — executable model of asmjit::String (core/string.{h,cpp}): small-string (SSO, capacity 30), large (malloc) and
   external (StringTmp<N> embedded buffer) representations.

   The storage is an explicit byte buffer of capacity + 1 cells; fresh cells hold the poison value -1 (never 0), so the
   terminating NUL must be written by the operation itself. All writes are bounds-checked (SOverrun when outside, shown
   impossible in StrProofs.v). `mok` is the malloc oracle. The model follows the code with the repairs of
   fixes/C18-string-*.patch (an exactly fitting in-place format keeps its last character; assigning an empty
   string/char-run/hex block clears the string; a format whose allocation is refused leaves the string valid). *)
From Coq Require Import ZArith List Bool.
From Verif Require Import Containers.ArenaModel Containers.VecModel.
Import ListNotations.
Local Open Scope Z_scope.

Inductive skind := KSmall | KLarge | KExternal.
Inductive sop := OpAssign | OpAppend.
Inductive serr := SOk | SOutOfMemory | SInvalidArgument | SOverrun.

Record str := mkstr { s_kind : skind; s_buf : list Z; s_size : Z; s_cap : Z }.

Definition kSSOCapacity : Z := 30.
Definition kMinAllocSize : Z := 128.
Definition kMaxAllocSize : Z := SIZE_MAX - kGrowThreshold.

Definition str_empty : str := mkstr KSmall (zrepeat 0 (kSSOCapacity + 1)) 0 kSSOCapacity.
(* StringTmp<N>: embedded buffer of align_up(N + 1, 8) bytes *)
Definition str_tmp (n : Z) : str :=
  let bytes := ((n + 1 + 7) / 8) * 8 in
  mkstr KExternal (0 :: zrepeat poison (bytes - 1)) 0 (bytes - 1).

Definition str_abs (s : str) : list Z := zfirstn (s_size s) (s_buf s).
Definition str_nul_ok (s : str) : bool := nth (Z.to_nat (s_size s)) (s_buf s) poison =? 0.

Definition align_up (x a : Z) : Z := ((x + a - 1) / a) * a.
(* Support::align_up_power_of_2 on size_t *)
Definition aup2 (x : Z) : Z := (if x <=? 1 then 1 else 2 ^ (Z.log2 (x - 1) + 1)) mod 2 ^ 64.

(* String_grow_capacity(byte_size, min_byte_size) *)
Definition grow_capacity (byte_size min_size : Z) : Z :=
  let bs := if byte_size <? kMinAllocSize then kMinAllocSize else if byte_size <? 512 then 512 else byte_size in
  if bs <? min_size then
    let b1 := aup2 min_size in
    if b1 <? min_size then min_size
    else if b1 >? kGrowThreshold then
      let b2 := (min_size + min_size mod kGrowThreshold) mod 2 ^ 64 in
      if b2 <? min_size then min_size else Z.min b2 kMaxAllocSize
    else Z.min b1 kMaxAllocSize
  else Z.min bs kMaxAllocSize.

Definition fresh_buf (cap1 : Z) : list Z := zrepeat poison cap1.
Definition set_nul (buf : list Z) (i : Z) : option (list Z) := buf_write buf i [0].

(* String::prepare(op, size): Some (offset of the area to fill, new string) or None (allocation refused) ;
   the inner option is the bounds check *)
Definition str_prepare (mok : Z -> bool) (s : str) (op : sop) (size : Z) : option (option (Z * str)) :=
  match op with
  | OpAssign =>
    if size >? s_cap s then
      if size >=? kMaxAllocSize then None
      else let ncap1 := align_up (size + 1) kMinAllocSize in
           if mok ncap1 then
             Some (match set_nul (fresh_buf ncap1) size with
                   | Some b => Some (0, mkstr KLarge b size (ncap1 - 1)) | None => None end)
           else None
    else Some (match set_nul (s_buf s) size with
               | Some b => Some (0, mkstr (s_kind s) b size (s_cap s)) | None => None end)
  | OpAppend =>
    if size >=? kMaxAllocSize - s_size s - 1 then None
    else
      let nsize := size + s_size s in
      if nsize >? s_cap s then
        let ncap1 := grow_capacity (size + 1) (nsize + 1) in
        if ncap1 <? nsize + 1 then None
        else if mok ncap1 then
          Some (match buf_read (s_buf s) 0 (s_size s) with
                | Some old =>
                  match buf_write (fresh_buf ncap1) 0 old with
                  | Some b1 => match set_nul b1 nsize with
                               | Some b => Some (s_size s, mkstr KLarge b nsize (ncap1 - 1)) | None => None end
                  | None => None end
                | None => None end)
        else None
      else Some (match set_nul (s_buf s) nsize with
                 | Some b => Some (s_size s, mkstr (s_kind s) b nsize (s_cap s)) | None => None end)
  end.

(* prepare(op, n) + memcpy/memset of `mk n` (n bytes) into the prepared area; the bytes are produced only after the
   allocation succeeded (a refused request of 2^26 characters never materialises them) *)
Definition str_modify_n (mok : Z -> bool) (s : str) (op : sop) (n : Z) (mk : Z -> list Z) : serr * str :=
  match str_prepare mok s op n with
  | None => (SOutOfMemory, s)
  | Some None => (SOverrun, s)
  | Some (Some (off, s1)) =>
    match buf_write (s_buf s1) off (mk n) with
    | Some b => (SOk, mkstr (s_kind s1) b (s_size s1) (s_cap s1))
    | None => (SOverrun, s)
    end
  end.
Definition str_modify (mok : Z -> bool) (s : str) (op : sop) (text : list Z) : serr * str :=
  str_modify_n mok s op (zlength text) (fun _ => text).

(* String::clear() *)
(* the SSO buffer model starts at _small.data, i.e. byte 1 of the union: zeroing uptr[0] clears data[0..6] *)
Definition str_clear (s : str) : serr * str :=
  match s_kind s with
  | KSmall => match buf_write (s_buf s) 0 (zrepeat 0 7) with
              | Some b => (SOk, mkstr KSmall b 0 (s_cap s)) | None => (SOverrun, s) end
  | _ => match set_nul (s_buf s) 0 with
         | Some b => (SOk, mkstr (s_kind s) b 0 (s_cap s)) | None => (SOverrun, s) end
  end.

(* String::reset() *)
Definition str_reset (s : str) : str := str_empty.

(* String::swap(other) (std::swap of the raw representation), String& operator=(String&&) (swap, then other.reset()) and
   String(String&&) (take the raw representation, other._reset_internal()): on plain Strings (round 6) *)
Definition str_swap (a b : str) : str * str := (b, a).
Definition str_move_assign (a b : str) : str * str := (b, str_reset a).
Definition str_move_construct (b : str) : str * str := (b, str_empty).

(* _op_string / _op_chars / _op_hex: an empty input clears on assign (repaired), is a no-op on append *)
Definition str_op_text (mok : Z -> bool) (s : str) (op : sop) (text : list Z) : serr * str :=
  match text with
  | [] => match op with OpAssign => str_clear s | OpAppend => (SOk, s) end
  | _ => str_modify mok s op text
  end.
Definition str_op_char (mok : Z -> bool) (s : str) (op : sop) (c : Z) : serr * str := str_modify mok s op [c].
Definition str_op_chars (mok : Z -> bool) (s : str) (op : sop) (c n : Z) : serr * str :=
  if n =? 0 then match op with OpAssign => str_clear s | OpAppend => (SOk, s) end
  else str_modify_n mok s op n (zrepeat c).
Definition str_pad_end (mok : Z -> bool) (s : str) (n c : Z) : serr * str :=
  if n >? s_size s then str_op_chars mok s OpAppend c (n - s_size s) else (SOk, s).

(* String::assign(const char*, size) — its own allocation policy *)
Definition str_assign (mok : Z -> bool) (s : str) (text : list Z) : serr * str :=
  let size := zlength text in
  let finish (k : skind) (buf : list Z) (cap : Z) : serr * str :=
    match buf_write buf 0 text with
    | Some b1 => match set_nul b1 size with
                 | Some b => (SOk, mkstr k b size cap) | None => (SOverrun, s) end
    | None => (SOverrun, s)
    end in
  match s_kind s with
  | KSmall =>
    if size <=? kSSOCapacity then finish KSmall (s_buf s) kSSOCapacity
    else if mok (size + 1) then finish KLarge (fresh_buf (size + 1)) size else (SOutOfMemory, s)
  | _ =>
    if size <=? s_cap s then finish (s_kind s) (s_buf s) (s_cap s)
    else let cap1 := align_up (size + 1) 32 mod 2 ^ 64 in
         if cap1 <? size then (SOutOfMemory, s)
         else if mok cap1 then finish KLarge (fresh_buf cap1) (cap1 - 1) else (SOutOfMemory, s)
  end.

(* String::truncate *)
Definition str_truncate (s : str) (n : Z) : serr * str :=
  if n <? s_size s then
    match set_nul (s_buf s) n with
    | Some b => (SOk, mkstr (s_kind s) b n (s_cap s)) | None => (SOverrun, s) end
  else (SOk, s).

(* ---- numbers *)
Definition digit_char (r : Z) : Z := if r <? 10 then 48 + r else 55 + r.   (* "0123456789ABCDEF" *)
Fixpoint digits_rec (fuel : nat) (base i : Z) (acc : list Z) : list Z :=
  match fuel with
  | O => acc
  | S f => let acc' := digit_char (i mod base) :: acc in
           if i / base =? 0 then acc' else digits_rec f base (i / base) acc'
  end.
Definition digits (base i : Z) : list Z := digits_rec 64 base i [].

(* flags: bit0 show sign, bit1 show space, bit2 alternate, bit31 signed *)
Definition number_text (i base width flags : Z) : option (list Z) :=
  let base := if base =? 0 then 10 else base in
  let fsigned := Z.testbit flags 31 in
  let neg := fsigned && (i >=? 2 ^ 63) in
  let mag := if neg then (2 ^ 64 - i) mod 2 ^ 64 else i in
  let sign := if neg then [45] else if Z.testbit flags 0 then [43] else if Z.testbit flags 1 then [32] else [] in
  if negb ((base =? 2) || (base =? 8) || (base =? 10) || (base =? 16)) then None
  else
    let num := digits base mag in
    let alt := if Z.testbit flags 2 then
                 (if base =? 8 then (if i =? 0 then [] else [48]) else if base =? 16 then [48; 120] else [])
               else [] in
    let w := Z.min width 256 in
    let w := if w <=? zlength num then 0 else w - zlength num in
    Some (sign ++ alt ++ zrepeat 48 w ++ num).

Definition str_op_number (mok : Z -> bool) (s : str) (op : sop) (i base width flags : Z) : serr * str :=
  match number_text i base width flags with
  | None => (SInvalidArgument, s)
  | Some t => str_modify mok s op t
  end.

(* ---- hex *)
Definition hex_pair (b : Z) : list Z := [digit_char ((b / 16) mod 16); digit_char (b mod 16)].
Fixpoint hex_text (data : list Z) (sep : Z) : list Z :=
  match data with
  | [] => []
  | [b] => hex_pair b
  | b :: r => hex_pair b ++ (if sep =? 0 then [] else [sep]) ++ hex_text r sep
  end.
Definition str_op_hex (mok : Z -> bool) (s : str) (op : sop) (data : list Z) (sep : Z) : serr * str :=
  str_op_text mok s op (hex_text data sep).

(* ---- _op_vformat, given the text the format expands to (with fixes/C18-string-format-failure.patch: only an append is
   formatted straight into the buffer, and the terminator is restored when the output did not fit) *)
Definition str_op_format (mok : Z -> bool) (s : str) (op : sop) (text : list Z) : serr * str :=
  let start := match op with OpAssign => 0 | OpAppend => s_size s end in
  let remaining := s_cap s - start in
  let len := zlength text in
  if (match op with OpAppend => true | OpAssign => false end) && (remaining >=? 128) then
    (* vsnprintf straight into the buffer: at most `remaining` characters and the terminator *)
    let shown := zfirstn (Z.min len remaining) text in
    match buf_write (s_buf s) start (shown ++ [0]) with
    | None => (SOverrun, s)
    | Some b =>
      if len <=? remaining then (SOk, mkstr (s_kind s) b (start + len) (s_cap s))
      else match set_nul b start with
           | None => (SOverrun, s)
           | Some b1 => str_modify mok (mkstr (s_kind s) b1 (s_size s) (s_cap s)) op text
           end
    end
  else if len <? 1024 then str_op_text mok s op text
  else str_modify mok s op text.

Definition str_equals (s : str) (other : list Z) : bool :=
  (zlength other =? s_size s) && forallb (fun p => fst p =? snd p) (combine (str_abs s) other).

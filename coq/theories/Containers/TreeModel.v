(* C18 (6) — executable model of ArenaTree (support/arenatree.h): the iterative top-down red-black insertion and removal
   over a node heap. Node ids: 0 = null, 1 = the false root `head` of the C++ (a stack object), user nodes from 2.
   The loops run under a fuel (200 iterations: the loops descend one level per iteration). *)
From Coq Require Import ZArith List Bool.
Import ListNotations.
Local Open Scope Z_scope.

Record tnode := mktn { t_left : Z; t_right : Z; t_red : bool; t_key : Z }.
Definition tnull : tnode := mktn 0 0 false 0.

(* a binary trie indexed by positive numbers *)
Inductive ptrie := PLeaf | PNode (l : ptrie) (v : option tnode) (r : ptrie).
Fixpoint pget (t : ptrie) (p : positive) : option tnode :=
  match t with
  | PLeaf => None
  | PNode l v r => match p with xH => v | xO q => pget l q | xI q => pget r q end
  end.
Fixpoint pset (t : ptrie) (p : positive) (x : tnode) : ptrie :=
  match t with
  | PLeaf => match p with xH => PNode PLeaf (Some x) PLeaf | xO q => PNode (pset PLeaf q x) None PLeaf | xI q => PNode PLeaf None (pset PLeaf q x) end
  | PNode l v r => match p with xH => PNode l (Some x) r | xO q => PNode (pset l q x) v r | xI q => PNode l v (pset r q x) end
  end.

Record tree := mktree { heap : ptrie; root : Z }.
Definition tree_empty : tree := mktree PLeaf 0.
Definition HEAD : Z := 1.

Definition hget (h : ptrie) (id : Z) : tnode :=
  match id with Zpos p => match pget h p with Some x => x | None => tnull end | _ => tnull end.
Definition hset (h : ptrie) (id : Z) (x : tnode) : ptrie :=
  match id with Zpos p => pset h p x | _ => h end.

Definition child (h : ptrie) (id : Z) (dir : bool) : Z := if dir then t_right (hget h id) else t_left (hget h id).
Definition set_child (h : ptrie) (id : Z) (dir : bool) (c : Z) : ptrie :=
  let n := hget h id in
  hset h id (if dir then mktn (t_left n) c (t_red n) (t_key n) else mktn c (t_right n) (t_red n) (t_key n)).
Definition set_red (h : ptrie) (id : Z) (r : bool) : ptrie :=
  let n := hget h id in hset h id (mktn (t_left n) (t_right n) r (t_key n)).
Definition is_red (h : ptrie) (id : Z) : bool := if id =? 0 then false else t_red (hget h id).   (* _is_valid_red *)
Definition key (h : ptrie) (id : Z) : Z := t_key (hget h id).

(* _single_rotate / _double_rotate : (new heap, new subtree root) *)
Definition single_rotate (h : ptrie) (r : Z) (dir : bool) : ptrie * Z :=
  let save := child h r (negb dir) in
  let h1 := set_child h r (negb dir) (child h save dir) in
  let h2 := set_child h1 save dir r in
  let h3 := set_red h2 r true in
  (set_red h3 save false, save).
Definition double_rotate (h : ptrie) (r : Z) (dir : bool) : ptrie * Z :=
  let (h1, c) := single_rotate h (child h r (negb dir)) (negb dir) in
  single_rotate (set_child h1 r (negb dir) c) r dir.

(* ---- insert *)
Fixpoint insert_loop (fuel : nat) (h : ptrie) (node g p t q : Z) (dir last : bool) : ptrie :=
  match fuel with
  | O => h
  | S f =>
    let '(h1, q1) :=
      if q =? 0 then (set_child h p dir node, node)
      else if is_red h (child h q false) && is_red h (child h q true)
           then (set_red (set_red (set_red h q true) (child h q false) false) (child h q true) false, q)
           else (h, q) in
    let h2 :=
      if is_red h1 q1 && is_red h1 p then
        let '(h', s) := if q1 =? child h1 p last then single_rotate h1 g (negb last) else double_rotate h1 g (negb last) in
        set_child h' t (child h1 t true =? g) s
      else h1 in
    if q1 =? node then h2
    else
      let dir' := key h2 q1 <? key h2 node in
      insert_loop f h2 node p q1 (if g =? 0 then t else g) (child h2 q1 dir') dir' dir
  end.

(* the loops of the C++ have no fuel; `fuel` bounds the number of iterations of the model's loops (one level per iteration):
   the theorems hold for every fuel above twice the height of the tree, the executable model uses 200 *)
Definition tree_insert_f (fuel : nat) (t : tree) (node : Z) (k : Z) : tree :=
  let h0 := hset (heap t) node (mktn 0 0 false k) in
  if root t =? 0 then mktree h0 node
  else
    let h1 := hset h0 HEAD (mktn 0 (root t) false 0) in
    let h2 := set_red h1 node true in
    let h3 := insert_loop fuel h2 node 0 0 HEAD (root t) false false in
    let r := child h3 HEAD true in
    mktree (set_red h3 r false) r.
Definition tree_insert (t : tree) (node : Z) (k : Z) : tree := tree_insert_f 200 t node k.

(* ---- remove *)
Fixpoint remove_loop (fuel : nat) (h : ptrie) (node g p q f gf : Z) (dir : bool) : ptrie * (Z * Z * Z * Z * Z) :=
  match fuel with
  | O => (h, (g, p, q, f, gf))
  | S fu =>
    if child h q dir =? 0 then (h, (g, p, q, f, gf))
    else
      let last := dir in
      let g := p in let p := q in let q := child h q dir in
      let dir := key h q <? key h node in
      let '(f, gf) := if q =? node then (q, g) else (f, gf) in
      if negb (is_red h q) && negb (is_red h (child h q dir)) then
        if is_red h (child h q (negb dir)) then
          let '(h1, c) := single_rotate h q dir in
          remove_loop fu (set_child h1 p last c) node g c q f gf dir
        else if negb (child h p (negb last) =? 0) then
          let s := child h p (negb last) in
          if negb (is_red h (child h s (negb last))) && negb (is_red h (child h s last)) then
            remove_loop fu (set_red (set_red (set_red h p false) s true) q true) node g p q f gf dir
          else
            let dir2 := child h g true =? p in
            let '(h1, c) :=
              if is_red h (child h s last) then let '(h', c) := double_rotate h p last in (set_child h' g dir2 c, c)
              else if is_red h (child h s (negb last)) then let '(h', c) := single_rotate h p last in (set_child h' g dir2 c, c)
              else (h, child h g dir2) in
            let h2 := set_red (set_red h1 q true) c true in
            let h3 := set_red (set_red h2 (child h2 c false) false) (child h2 c true) false in
            remove_loop fu h3 node g p q f gf dir
        else remove_loop fu h node g p q f gf dir
      else remove_loop fu h node g p q f gf dir
  end.

Fixpoint relink_loop (fuel : nat) (h : ptrie) (node n q f : Z) (dir : bool) : ptrie :=
  match fuel with
  | O => h
  | S fu =>
    if child h n dir =? f then
      let h1 := set_child h n dir q in
      let fn := hget h1 f in
      hset h1 q (mktn (t_left fn) (t_right fn) (t_red fn) (t_key (hget h1 q)))
    else
      let n' := child h n dir in
      relink_loop fu h node n' q f (key h n' <? key h node)
  end.

(* remove(node): node must be in the tree *)
Definition tree_remove_f (fuel : nat) (t : tree) (node : Z) : tree :=
  let h0 := hset (heap t) HEAD (mktn 0 (root t) false 0) in
  let '(h1, (g, p, q, f, gf)) := remove_loop fuel h0 node 0 0 HEAD 0 0 true in
  let h2 := set_child h1 p (child h1 p true =? q) (child h1 q (child h1 q false =? 0)) in
  let h3 :=
    if f =? q then h2
    else let n := if gf =? 0 then HEAD else gf in
         relink_loop fuel h2 node n q f (if n =? HEAD then true else key h2 n <? key h2 node) in
  let r := child h3 HEAD true in
  mktree (if r =? 0 then h3 else set_red h3 r false) r.
Definition tree_remove (t : tree) (node : Z) : tree := tree_remove_f 200 t node.

(* get(key): id of the node or 0 *)
Fixpoint get_loop (fuel : nat) (h : ptrie) (n k : Z) : Z :=
  match fuel with
  | O => 0
  | S f => if n =? 0 then 0 else if key h n =? k then n else get_loop f h (child h n (key h n <? k)) k
  end.
Definition tree_get (t : tree) (k : Z) : Z := get_loop 200 (heap t) (root t) k.

(* in-order traversal: (key, id, red) *)
Fixpoint inorder (fuel : nat) (h : ptrie) (n : Z) : list (Z * Z * bool) :=
  match fuel with
  | O => []
  | S f => if n =? 0 then [] else inorder f h (child h n false) ++ (key h n, n, is_red h n) :: inorder f h (child h n true)
  end.
Definition tree_inorder (t : tree) : list (Z * Z * bool) := inorder 200 (heap t) (root t).
Definition tree_keys (t : tree) : list Z := map (fun x => fst (fst x)) (tree_inorder t).

(* red-black validity: black height of a valid subtree, None if a red node has a red child or the black heights differ *)
Fixpoint black_height (fuel : nat) (h : ptrie) (n : Z) : option Z :=
  match fuel with
  | O => None
  | S f =>
    if n =? 0 then Some 1
    else match black_height f h (child h n false), black_height f h (child h n true) with
         | Some a, Some b =>
           if negb (a =? b) then None
           else if is_red h n && (is_red h (child h n false) || is_red h (child h n true)) then None
           else Some (if is_red h n then a else a + 1)
         | _, _ => None
         end
  end.
Fixpoint sortedb (l : list Z) : bool :=
  match l with a :: ((b :: _) as r) => (a <? b) && sortedb r | _ => true end.
Definition rb_valid (t : tree) : bool :=
  negb (is_red (heap t) (root t)) && (match black_height 200 (heap t) (root t) with Some _ => true | None => false end) &&
  sortedb (tree_keys t).

(* preorder shape: (id, red) with 0 for null — compared with the implementation after every operation *)
Fixpoint shape (fuel : nat) (h : ptrie) (n : Z) : list Z :=
  match fuel with
  | O => []
  | S f => if n =? 0 then [0] else (n * 2 + (if is_red h n then 1 else 0)) :: shape f h (child h n false) ++ shape f h (child h n true)
  end.
Definition tree_shape (t : tree) : list Z := shape 200 (heap t) (root t).

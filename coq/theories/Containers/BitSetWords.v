(* C18 (7) — ArenaBitSet: the initialised words are 64-bit values (`winit`, kept by every operation, together with bs_inv),
   and with it the RANGE operations fill(start, count) / clear(start, count) at the bit-set level: they change exactly the
   bits of the range, whatever the uninitialised words beyond the size hold. *)
From Coq Require Import ZArith List Bool Lia.
From Verif Require Import Base.ZBits Containers.BitVecModel Containers.BitVecProofs Containers.ArenaModel Containers.VecModel
  Containers.BufLemmas Containers.BitSetModel Containers.BitSetProofs Containers.ArenaProofs.
Import ListNotations.
Local Open Scope Z_scope.

(* every word that holds bits of the set is a 64-bit value *)
Definition winit (b : bitset) : Prop := forall k, 0 <= k < words_per_bits (b_size b) -> word_ok 64 (wget (b_words b) k).
Definition bs_inv2 (a : arena) (b : bitset) : Prop := bs_inv a b /\ winit b.

(* the range operation only looks at the words of the range *)
Lemma bv_op_app W o : 0 < W -> forall p s i n, 0 <= i -> i + n <= W * zlen p -> bv_op W o (p ++ s) i n = bv_op W o p i n ++ s.
Proof.
  intros HW. induction p as [|w p IH]; intros s i n Hi Hn.
  - cbn [app bv_op]. unfold zlen in Hn. cbn [length Z.of_nat] in Hn. rewrite Z.mul_0_r in Hn. destruct s as [|x s]; [reflexivity|]. cbn [bv_op].
    destruct (Z.leb_spec n 0); [reflexivity|lia].
  - change ((w :: p) ++ s) with (w :: (p ++ s)). cbn [bv_op]. rewrite zlen_cons, Z.mul_add_distr_l, Z.mul_1_r in Hn.
    destruct (Z.leb_spec n 0); [reflexivity|]. destruct (Z.leb_spec W i).
    + rewrite IH by lia. reflexivity.
    + assert (Hside : 0 + (n - Z.min (W - i) n) <= W * zlen p).
      { pose proof (zlen_nonneg p). assert (0 <= W * zlen p) by (apply Z.mul_nonneg_nonneg; lia). pose proof (Z.min_spec (W - i) n). lia. }
      rewrite IH by (first [lia|exact Hside]). reflexivity.
Qed.

Lemma words_ok_prefix b : winit b -> 0 <= words_per_bits (b_size b) <= zlength (b_words b) ->
  words_ok 64 (firstn (Z.to_nat (words_per_bits (b_size b))) (b_words b)).
Proof.
  intros Hw Hl. apply Forall_forall. intros x Hx. apply (In_nth _ _ 0) in Hx. destruct Hx as (n & Hn & <-).
  rewrite firstn_length in Hn. rewrite nth_firstn_lt by lia.
  specialize (Hw (Z.of_nat n) ltac:(lia)). unfold wget in Hw. rewrite Nat2Z.id in Hw. exact Hw.
Qed.

Lemma wget_app_l p s k : 0 <= k < zlength p -> wget (p ++ s) k = wget p k.
Proof. intros H. unfold wget. apply app_nth1. unfold zlength in H. lia. Qed.
Lemma wget_app_r p s k : zlength p <= k -> wget (p ++ s) k = wget s (k - zlength p).
Proof. intros H. unfold wget, zlength in *. rewrite app_nth2 by lia. f_equal. lia. Qed.

Theorem bs_range_op_sound a b o start count : bs_inv2 a b -> 0 <= start -> 0 <= count -> start + count <= b_size b ->
  let b' := bs_with_words b (bv_op 64 o (b_words b) start count) in
  bs_inv2 a b' /\ b_size b' = b_size b /\
  forall j, 0 <= j < b_size b -> bs_bit b' j = if in_range start count j then (match o with OpFill => true | OpClear => false end) else bs_bit b j.
Proof.
  intros [B Hw] Hs Hc Hr. cbn zeta. pose proof B as (B1 & B2 & B3 & B4 & B5 & B6).
  destruct (wpb_le_cap b a B) as [Hm Hj].
  set (m := Z.to_nat (words_per_bits (b_size b))).
  set (p := firstn m (b_words b)). set (s := skipn m (b_words b)).
  assert (Esplit : b_words b = p ++ s) by (symmetry; apply firstn_skipn).
  assert (Hlp : zlen p = words_per_bits (b_size b)).
  { unfold zlen, p. rewrite firstn_length. unfold zlength in Hm. lia. }
  assert (Hpok : words_ok 64 p) by (apply words_ok_prefix; assumption).
  assert (Hsize : b_size b <= 64 * zlen p).
  { rewrite Hlp. rewrite (wpb_spec (b_size b) ltac:(lia)). destruct (div64_facts (b_size b) ltac:(lia)) as (D1 & D2 & D3).
    destruct (Z.eqb_spec (b_size b mod 64) 0); lia. }
  assert (Eop : bv_op 64 o (b_words b) start count = bv_op 64 o p start count ++ s).
  { rewrite Esplit at 1. apply bv_op_app; lia. }
  set (p' := bv_op 64 o p start count).
  assert (Hlp' : zlength p' = zlength p) by (unfold zlength, p'; rewrite bv_op_length; reflexivity).
  assert (Hp'ok : words_ok 64 p') by (apply bv_op_ok; [lia|lia|exact Hpok]).
  assert (Ezl : zlength p = words_per_bits (b_size b)) by (unfold zlength; unfold zlen in Hlp; exact Hlp).
  assert (Hbit : forall j, 0 <= j < 64 * zlen p -> Z.testbit (wget p' (j / 64)) (j mod 64) =
             if in_range start count j then (match o with OpFill => true | OpClear => false end) else Z.testbit (wget p (j / 64)) (j mod 64)).
  { intros j Hjr. pose proof (bv_op_get 64 o p start count j ltac:(lia) Hs Hc Hpok ltac:(lia) Hjr) as H. exact H. }
  assert (Hpre : forall k, 0 <= k < words_per_bits (b_size b) -> wget (b_words b) k = wget p k).
  { intros k Hk. rewrite Esplit. apply wget_app_l. lia. }
  unfold bs_with_words. cbn [b_size b_words b_cap b_data]. rewrite Eop. fold p'.
  split; [|split; [reflexivity|]].
  - split.
    + unfold bs_inv. cbn [b_size b_words b_cap b_data]. split; [exact B1|]. split; [exact B2|]. split; [exact B3|].
      split; [rewrite zlength_app, Hlp', <- zlength_app, <- Esplit; exact B4|]. split; [|exact B6].
      intros Ht. destruct (div64_facts (b_size b) ltac:(lia)) as (D1 & D2 & D3).
      assert (Hidx : 0 <= b_size b / 64 < words_per_bits (b_size b)).
      { rewrite (wpb_spec (b_size b) ltac:(lia)). destruct (Z.eqb_spec (b_size b mod 64) 0); [contradiction|lia]. }
      rewrite wget_app_l by lia.
      assert (Hwok : word_ok 64 (wget p' (b_size b / 64))).
      { unfold wget. apply (nthw_ok 64 p' (b_size b / 64)); [lia|exact Hp'ok]. }
      apply (word_ok_of_bits (b_size b mod 64)); [lia|exact (proj1 Hwok)|].
      intros t Htb. destruct (Z_lt_le_dec t 64) as [Hlt|Hge]; [|apply (word_ok_testbit_high 64 _ t ltac:(lia) Hwok Hge)].
      pose proof (Hbit (64 * (b_size b / 64) + t) ltac:(lia)) as Hb.
      replace ((64 * (b_size b / 64) + t) / 64) with (b_size b / 64) in Hb by (apply (Z.div_unique _ 64 _ t); lia).
      replace ((64 * (b_size b / 64) + t) mod 64) with t in Hb by (apply (Z.mod_unique _ 64 (b_size b / 64) t); lia).
      rewrite Hb. unfold in_range. destruct (Z.ltb_spec (64 * (b_size b / 64) + t) (start + count)); [lia|]. rewrite andb_false_r.
      rewrite <- Hpre by lia. specialize (B5 Ht). apply (word_ok_testbit_high (b_size b mod 64) _ t ltac:(lia) B5 Htb).
    + intros k Hk. cbn [b_size b_words] in *. rewrite wget_app_l by lia. unfold wget. apply (nthw_ok 64 p' k); [lia|exact Hp'ok].
  - intros j Hjr. unfold bs_bit. cbn [b_words]. rewrite !bv_get_wget.
    destruct (Hj j Hjr) as [Hk1 Hk2]. rewrite wget_app_l by lia. rewrite Hbit by lia. rewrite <- Hpre by lia. reflexivity.
Qed.

(* ------------------------------------------------------------------ every operation keeps the words 64-bit *)
Lemma word_ok_lor w m : word_ok 64 w -> word_ok 64 m -> word_ok 64 (Z.lor w m).
Proof.
  intros Hw Hm. apply word_ok_of_bits; [lia|apply Z.lor_nonneg; split; [exact (proj1 Hw)|exact (proj1 Hm)]|].
  intros j Hj. rewrite Z.lor_spec, (word_ok_testbit_high 64 w j), (word_ok_testbit_high 64 m j) by (try lia; assumption). reflexivity.
Qed.
Lemma word_ok_land_ones x e : 0 <= e <= 64 -> word_ok 64 (Z.land x (Z.ones e)).
Proof.
  intros He. rewrite Z.land_ones by lia. pose proof (Z.mod_pos_bound x (2 ^ e) ltac:(apply Z.pow_pos_nonneg; lia)).
  assert (2 ^ e <= 2 ^ 64) by (apply Z.pow_le_mono_r; lia). split; lia.
Qed.
Lemma word_ok_mod x : word_ok 64 (x mod 2 ^ 64).
Proof. apply Z.mod_pos_bound. reflexivity. Qed.
Lemma word_ok_pattern (v : bool) : word_ok 64 (if v then Z.ones 64 else 0).
Proof. destruct v; split; cbn; lia. Qed.

Theorem winit_empty : winit bitset_empty.
Proof. intros k Hk. cbn in Hk. lia. Qed.

Theorem winit_shrink mok a b new_size ideal v : bs_inv2 a b -> 0 <= new_size <= b_size b ->
  let '(e, a', b') := bs_resize mok a b new_size ideal v in winit b'.
Proof.
  intros [B Hw] Hn. pose proof B as (B1 & _). unfold bs_resize. destruct (Z.leb_spec new_size (b_size b)); [|lia].
  assert (Hwp : words_per_bits new_size <= words_per_bits (b_size b)).
  { unfold words_per_bits. apply Z.div_le_mono; lia. }
  intros k Hk. cbn [b_size b_words] in *.
  destruct (new_size mod 64 =? 0); [apply Hw; lia|].
  destruct (Z.eq_dec k (new_size / 64)) as [->|Hne].
  - destruct (Z_lt_le_dec (new_size / 64) (zlength (b_words b))).
    + rewrite wget_wset_same by (split; [apply Z.div_pos; lia|assumption]). apply word_ok_land_ones. pose proof (Z.mod_pos_bound new_size 64 ltac:(lia)). lia.
    + unfold wset. destruct (Z.ltb_spec (new_size / 64) (zlength (b_words b))); [lia|]. rewrite andb_false_r. apply Hw. lia.
  - rewrite wget_wset_other by (try lia; apply Z.div_pos; lia). apply Hw. lia.
Qed.

Theorem winit_set_bit a b i v : bs_inv2 a b -> 0 <= i < b_size b -> winit (bs_set_bit b i v).
Proof.
  intros [B Hw] Hi. pose proof B as (B1 & B2 & B3 & B4 & B5 & B6). destruct (wpb_le_cap b a B) as [Hm Hj].
  intros k Hk. unfold bs_set_bit, bs_with_words, bv_set, BW in *. cbn [b_size b_words] in *.
  destruct (Hj i Hi) as [Hi1 Hi2].
  change (nthw (b_words b) (i / 64)) with (wget (b_words b) (i / 64)).
  assert (Eupd : forall x, updw (b_words b) (Z.to_nat (i / 64)) x = wset (b_words b) (i / 64) x).
  { intros x. unfold wset. destruct (Z.leb_spec 0 (i / 64)); [|lia]. destruct (Z.ltb_spec (i / 64) (zlength (b_words b))); [|lia]. reflexivity. }
  rewrite Eupd. destruct (Z.eq_dec k (i / 64)) as [->|Hne].
  - rewrite wget_wset_same by lia. apply word_ok_lor; [|apply word_ok_mod].
    apply word_ok_of_bits; [lia|apply Z.land_nonneg; left; exact (proj1 (Hw _ Hk))|].
    intros j Hj'. rewrite Z.land_spec, (word_ok_testbit_high 64 _ j ltac:(lia) (Hw _ Hk) Hj'). reflexivity.
  - rewrite wget_wset_other by lia. apply Hw. exact Hk.
Qed.

Theorem winit_clear_all a b : bs_inv a b -> winit (bs_clear_all b).
Proof.
  intros B. destruct (wpb_le_cap b a B) as [Hm _]. intros k Hk. unfold bs_clear_all, bs_with_words in *. cbn [b_size b_words] in *.
  rewrite wget_wfill by lia. destruct (Z.leb_spec 0 k); [|lia].
  destruct (Z.ltb_spec k (0 + Z.of_nat (Z.to_nat (words_per_bits (b_size b))))); [|lia]. cbn [andb]. split; cbn; lia.
Qed.

Theorem winit_fill_all a b : bs_inv a b -> winit (bs_fill_all b).
Proof.
  intros B. pose proof B as (B1 & B2 & B3 & B4 & _). destruct (wpb_le_cap b a B) as [Hm _]. intros k Hk.
  rewrite (proj1 (proj2 (bs_fill_all_sound a b B))) in Hk.
  unfold bs_fill_all, bs_clear_unused, bs_with_words. cbn [b_size b_words b_data b_cap].
  set (ws := wfill (b_words b) 0 (Z.to_nat (words_per_bits (b_size b))) (Z.ones 64)) in *.
  assert (Hget : wget ws k = Z.ones 64).
  { unfold ws. rewrite wget_wfill by lia. destruct (Z.leb_spec 0 k); [|lia].
    destruct (Z.ltb_spec k (0 + Z.of_nat (Z.to_nat (words_per_bits (b_size b))))); [reflexivity|lia]. }
  destruct (b_size b mod 64 =? 0) eqn:E; cbn [b_size b_words].
  - rewrite Hget. split; cbn; lia.
  - destruct (Z.eq_dec k (b_size b / 64)) as [->|Hne].
    + assert (zlength ws = zlength (b_words b)) by (unfold ws; apply zlength_wfill).
      rewrite wget_wset_same by lia. apply word_ok_land_ones. pose proof (Z.mod_pos_bound (b_size b) 64 ltac:(lia)). lia.
    + rewrite wget_wset_other by (try lia; apply Z.div_pos; lia). rewrite Hget. split; cbn; lia.
Qed.

Lemma grow_words_ok ws old_size new_size v : 0 <= old_size < new_size -> new_size <= 64 * zlength ws ->
  (forall k, 0 <= k < words_per_bits old_size -> word_ok 64 (wget ws k)) ->
  forall k, 0 <= k < words_per_bits new_size -> word_ok 64 (wget (grow_words ws old_size new_size v) k).
Proof.
  intros Hn Hlen Hold k Hk. unfold grow_words.
  destruct (div64_facts old_size ltac:(lia)) as (O1 & O2 & O3). destruct (div64_facts new_size ltac:(lia)) as (N1 & N2 & N3).
  pose proof (wpb_spec old_size ltac:(lia)) as Wo. pose proof (wpb_spec new_size ltac:(lia)) as Wn.
  set (idx := old_size / 64) in *. set (sb := old_size mod 64) in *. set (eb := new_size mod 64) in *.
  set (pattern := if v then Z.ones 64 else 0).
  assert (Hpat : word_ok 64 pattern) by apply word_ok_pattern.
  assert (Hend : words_per_bits new_size <= zlength ws) by (rewrite Wn; destruct (Z.eqb_spec eb 0); lia).
  set (pr := if sb =? 0 then (ws, idx)
             else (wset ws idx (Z.lor (wget ws idx) (Z.shiftl (Z.shiftr pattern (64 - (if idx =? new_size / 64 then eb - sb else 64 - sb))) sb mod 2 ^ 64)), idx + 1)).
  assert (Hpr : zlength (fst pr) = zlength ws /\ idx <= snd pr <= idx + 1 /\ snd pr <= words_per_bits new_size /\
                forall j, 0 <= j < snd pr -> word_ok 64 (wget (fst pr) j)).
  { unfold pr. destruct (Z.eqb_spec sb 0) as [E|E]; cbn [fst snd].
    - split; [reflexivity|]. split; [lia|]. split.
      + rewrite Wn. assert (idx <= new_size / 64) by (apply Z.div_le_mono; lia). destruct (Z.eqb_spec eb 0); lia.
      + intros j Hj. apply Hold. rewrite Wo. destruct (Z.eqb_spec sb 0); lia.
    - split; [apply zlength_wset|]. split; [lia|]. split.
      + rewrite Wn. assert (idx <= new_size / 64) by (apply Z.div_le_mono; lia).
        destruct (Z.eqb_spec eb 0); [|lia]. destruct (Z.eq_dec idx (new_size / 64)); [|lia]. exfalso. lia.
      + intros j Hj. assert (Hidx : idx < zlength ws) by lia.
        destruct (Z.eq_dec j idx) as [->|Hne].
        * rewrite wget_wset_same by lia. apply word_ok_lor; [|apply word_ok_mod]. apply Hold. rewrite Wo. destruct (Z.eqb_spec sb 0); [contradiction|lia].
        * rewrite wget_wset_other by lia. apply Hold. rewrite Wo. destruct (Z.eqb_spec sb 0); lia. }
  fold pr. destruct pr as [ws1 idx1]. cbn [fst snd] in Hpr. destruct Hpr as (L1 & I1 & I2 & Ok1).
  set (ei := words_per_bits new_size) in *.
  set (ws2 := wfill ws1 idx1 (Z.to_nat (ei - idx1)) pattern).
  assert (L2 : zlength ws2 = zlength ws) by (unfold ws2; rewrite zlength_wfill; exact L1).
  assert (Ok2 : forall j, 0 <= j < ei -> word_ok 64 (wget ws2 j)).
  { intros j Hj. unfold ws2. rewrite wget_wfill by lia. destruct (Z.leb_spec idx1 j); cbn [andb].
    - destruct (Z.ltb_spec j (idx1 + Z.of_nat (Z.to_nat (ei - idx1)))); [exact Hpat|lia].
    - apply Ok1. lia. }
  destruct (Z.eqb_spec eb 0); [apply Ok2; exact Hk|].
  destruct (Z.eq_dec k (ei - 1)) as [->|Hne].
  - rewrite wget_wset_same by lia. apply word_ok_land_ones. lia.
  - rewrite wget_wset_other by lia. apply Ok2. exact Hk.
Qed.

Theorem winit_resize_grow mok a b new_size ideal v : inv a -> bs_inv2 a b -> b_size b < new_size <= ideal -> ideal < 2 ^ 31 ->
  let '(e, a', b') := bs_resize mok a b new_size ideal v in e = EOk -> winit b'.
Proof.
  intros I [B Hw] Hn Hi. pose proof (bs_resize_grow_gen mok a b new_size ideal v I B Hn Hi) as G.
  pose proof B as (B1 & B2 & B3 & B4 & B5 & B6). destruct (wpb_le_cap b a B) as [Hm _].
  unfold bs_resize in *. destruct (Z.leb_spec new_size (b_size b)); [lia|].
  assert (Hfin : forall (ws : list Z) d c, (forall k, 0 <= k < words_per_bits (b_size b) -> word_ok 64 (wget ws k)) ->
            bs_inv a (mkbs d (grow_words ws (b_size b) new_size v) new_size c) \/ True ->
            forall a', bs_inv a' (mkbs d (grow_words ws (b_size b) new_size v) new_size c) ->
            winit (mkbs d (grow_words ws (b_size b) new_size v) new_size c)).
  { intros ws d c Hok _ a' (C1 & C2 & C3 & C4 & _). cbn [b_size b_cap b_words] in *.
    intros k Hk. cbn [b_size b_words] in *. apply grow_words_ok; [lia| |exact Hok|exact Hk].
    rewrite grow_words_length in C4. rewrite C4. pose proof (Z.div_mod c 64 ltac:(lia)). lia. }
  destruct (new_size >? b_cap b).
  - destruct ((((ideal + 63) / 64 * 64) mod 2 ^ 64) <? new_size); [intros; discriminate|].
    destruct (alloc_reusable mok a ((((ideal + 63) / 64 * 64) mod 2 ^ 64) / 8)) as [[[p asz]|] a1]; [|intros; discriminate].
    intros _. destruct G as [_ [(_ & Gi & _)|(Ge & _)]]; [|discriminate].
    apply (Hfin _ _ _) with (a' := match b_data b with Some old => free_reusable a1 old (b_cap b / 8) | None => a1 end); [|right; exact Logic.I|exact Gi].
    intros k Hk. cbn [b_words]. rewrite wget_firstn_app by (unfold zlength in Hm; lia). apply Hw. exact Hk.
  - intros _. destruct G as [_ [(_ & Gi & _)|(Ge & _)]]; [|discriminate].
    apply (Hfin _ _ _ Hw (or_intror Logic.I) a Gi).
Qed.

Lemma word_ok_shiftl_bit (v : bool) bit : 0 <= bit < 64 -> word_ok 64 (Z.shiftl (Z.b2z v) bit).
Proof.
  intros Hb. destruct v; cbn [Z.b2z].
  - rewrite Z.shiftl_1_l. split; [apply Z.pow_nonneg; lia|apply Z.pow_lt_mono_r; lia].
  - rewrite Z.shiftl_0_l. split; cbn; lia.
Qed.

Theorem winit_append mok a b v : inv a -> bs_inv2 a b -> b_cap b < 2 ^ 30 ->
  let '(e, a', b') := bs_append mok a b v in e = EOk -> winit b'.
Proof.
  intros I [B Hw] Hc. pose proof B as (B1 & B2 & B3 & B4 & B5 & B6). unfold bs_append.
  change (2 ^ 30) with 1073741824 in Hc.
  destruct (Z.geb_spec (b_size b) (b_cap b)) as [Hge|Hlt].
  - assert (Hns : (b_size b + 1) mod 2 ^ 32 = b_size b + 1) by (apply Z.mod_small; change (2 ^ 32) with 4294967296; lia).
    rewrite Hns.
    set (ideal := if b_cap b <? 128 then 128 else if b_cap b <=? 16777216 * 8 then (b_cap b * 2) mod 2 ^ 32 else (b_cap b + 16777216 * 8) mod 2 ^ 32).
    assert (Hid : b_size b + 1 <= ideal /\ ideal < 2 ^ 31 /\ b_cap b <= ideal).
    { unfold ideal. change (2 ^ 31) with 2147483648. destruct (Z.ltb_spec (b_cap b) 128); [lia|].
      destruct (Z.leb_spec (b_cap b) (16777216 * 8)); rewrite Z.mod_small by (change (2 ^ 32) with 4294967296; lia); lia. }
    destruct Hid as (Hi1 & Hi2 & Hi3). destruct (Z.ltb_spec ideal (b_cap b)); [lia|].
    apply (winit_resize_grow mok a b (b_size b + 1) ideal v I (conj B Hw) ltac:(lia) Hi2).
  - intros _. destruct (div64_facts (b_size b) ltac:(lia)) as (D1 & D2 & D3).
    pose proof (Z.div_mod (b_cap b) 64 ltac:(lia)) as Hcd. rewrite B2 in Hcd.
    set (idx := b_size b / 64) in *. set (bit := b_size b mod 64) in *.
    assert (Hidx : 0 <= idx < zlength (b_words b)) by (rewrite B4; lia).
    intros k Hk. cbn [b_size b_words] in *.
    assert (Hkle : k <= idx).
    { rewrite (wpb_spec (b_size b + 1) ltac:(lia)) in Hk. assert ((b_size b + 1) / 64 <= idx + 1) by (apply Z.div_le_upper_bound; lia).
      destruct (Z.eqb_spec ((b_size b + 1) mod 64) 0) as [E|E]; [|].
      - assert ((b_size b + 1) / 64 = idx + 1 \/ (b_size b + 1) / 64 <= idx) by lia. lia.
      - destruct (Z.eq_dec ((b_size b + 1) / 64) (idx + 1)) as [E2|E2]; [|lia]. exfalso. apply E.
        pose proof (Z.div_mod (b_size b + 1) 64 ltac:(lia)). pose proof (Z.mod_pos_bound (b_size b + 1) 64 ltac:(lia)). lia. }
    destruct (Z.eq_dec k idx) as [->|Hne].
    + rewrite wget_wset_same by lia. destruct (Z.eqb_spec bit 0); [apply word_ok_shiftl_bit; lia|].
      apply word_ok_lor; [|apply word_ok_shiftl_bit; lia]. apply Hw. rewrite (wpb_spec (b_size b) ltac:(lia)). fold bit. destruct (Z.eqb_spec bit 0); [contradiction|]. fold idx. lia.
    + rewrite wget_wset_other by lia. apply Hw. rewrite (wpb_spec (b_size b) ltac:(lia)). fold idx bit. destruct (Z.eqb_spec bit 0); lia.
Qed.

(* ------------------------------------------------------------------ and_ / and_not / or_ with another bit set: the bits *)
Lemma wget_wcombine f src : forall n dst i k, 0 <= i -> i + Z.of_nat n <= zlength dst -> 0 <= k ->
  wget (wcombine f dst src i n) k = if (i <=? k) && (k <? i + Z.of_nat n) then f (wget dst k) (wget src k) else wget dst k.
Proof.
  induction n as [|n IH]; intros dst i k Hi Hlen Hk; cbn [wcombine].
  - destruct (Z.leb_spec i k); destruct (Z.ltb_spec k (i + Z.of_nat 0)); cbn [andb]; try reflexivity; lia.
  - rewrite IH by (rewrite ?zlength_wset; lia).
    destruct (Z.leb_spec (i + 1) k); destruct (Z.ltb_spec k (i + 1 + Z.of_nat n)); cbn [andb].
    + rewrite !wget_wset_other by lia. destruct (Z.leb_spec i k); [|lia]. destruct (Z.ltb_spec k (i + Z.of_nat (S n))); [reflexivity|lia].
    + rewrite wget_wset_other by lia. destruct (Z.leb_spec i k); [|lia]. destruct (Z.ltb_spec k (i + Z.of_nat (S n))); [lia|reflexivity].
    + destruct (Z.eq_dec k i) as [->|Hne].
      * rewrite wget_wset_same by lia. destruct (Z.leb_spec i i); [|lia]. destruct (Z.ltb_spec i (i + Z.of_nat (S n))); [reflexivity|lia].
      * rewrite wget_wset_other by lia. destruct (Z.leb_spec i k); [lia|]. reflexivity.
    + destruct (Z.eq_dec k i) as [->|Hne]; [lia|]. rewrite wget_wset_other by lia. destruct (Z.leb_spec i k); [lia|]. reflexivity.
Qed.

Lemma wpb_mono x y : 0 <= x <= y -> words_per_bits x <= words_per_bits y.
Proof. intros H. unfold words_per_bits. apply Z.div_le_mono; lia. Qed.

(* bits of `other` beyond its size inside its last word are clear *)
Lemma bs_bit_beyond a o j : bs_inv a o -> b_size o <= j -> j / 64 < words_per_bits (b_size o) -> bs_bit o j = false.
Proof.
  intros (B1 & B2 & B3 & B4 & B5 & B6) Hj Hk. unfold bs_bit. rewrite bv_get_wget.
  destruct (div64_facts (b_size o) ltac:(lia)) as (D1 & D2 & D3). destruct (div64_facts j ltac:(lia)) as (J1 & J2 & J3).
  rewrite (wpb_spec (b_size o) ltac:(lia)) in Hk. destruct (Z.eqb_spec (b_size o mod 64) 0) as [E|E].
  - assert (b_size o / 64 <= j / 64) by (apply Z.div_le_mono; lia). lia.
  - assert (Eq : j / 64 = b_size o / 64) by (assert (b_size o / 64 <= j / 64) by (apply Z.div_le_mono; lia); lia).
    rewrite Eq. apply (word_ok_testbit_high (b_size o mod 64) _ (j mod 64)); [lia|apply B5; exact E|lia].
Qed.

Lemma zlength_wcombine f src : forall n dst i, zlength (wcombine f dst src i n) = zlength dst.
Proof. induction n as [|n IH]; intros dst i; cbn [wcombine]; [reflexivity|]. rewrite IH. apply zlength_wset. Qed.

Lemma bs_bit_clear_unused x j : 0 <= j < b_size x -> bs_bit (bs_clear_unused x) j = bs_bit x j.
Proof.
  intros Hj. unfold bs_clear_unused, bs_with_words, bs_bit. destruct (b_size x mod 64 =? 0) eqn:E; [reflexivity|]. cbn [b_words].
  rewrite !bv_get_wget. destruct (div64_facts j ltac:(lia)) as (J1 & J2 & J3). destruct (div64_facts (b_size x) ltac:(lia)) as (D1 & D2 & D3).
  destruct (Z.eq_dec (j / 64) (b_size x / 64)) as [Eq|Ne].
  - rewrite Eq. unfold wset. destruct ((0 <=? b_size x / 64) && (b_size x / 64 <? zlength (b_words x))) eqn:Er; [|reflexivity].
    apply andb_prop in Er. destruct Er as [_ Er]. apply Z.ltb_lt in Er.
    unfold wget. rewrite nth_updw_same by (unfold zlength in Er; lia). rewrite Z.land_spec, ones_testbit by lia.
    destruct (Z.ltb_spec (j mod 64) (b_size x mod 64)); [apply andb_true_r|lia].
  - rewrite wget_wset_other by lia. reflexivity.
Qed.

Theorem bs_binary_bits a a' b o : bs_inv a b -> bs_inv a' o ->
  (forall j, 0 <= j < b_size b -> bs_bit (bs_and b o) j = bs_bit b j && ((j <? b_size o) && bs_bit o j)) /\
  (forall j, 0 <= j < b_size b -> bs_bit (bs_and_not b o) j = bs_bit b j && negb ((j <? b_size o) && bs_bit o j)) /\
  (forall j, 0 <= j < b_size b -> bs_bit (bs_or b o) j = bs_bit b j || ((j <? b_size o) && bs_bit o j)) /\
  b_size (bs_and b o) = b_size b /\ b_size (bs_and_not b o) = b_size b /\ b_size (bs_or b o) = b_size b.
Proof.
  intros B O. pose proof B as (B1 & B2 & B3 & B4 & B5 & B6). pose proof O as (O1 & _).
  destruct (wpb_le_cap b a B) as [Hm Hj]. destruct (wpb_le_cap o a' O) as [Hmo Hjo].
  set (tw := words_per_bits (b_size b)) in *. set (ow := words_per_bits (b_size o)) in *.
  assert (Hob : forall j, 0 <= j -> (j <? b_size o) && bs_bit o j = if j / 64 <? ow then bs_bit o j else false).
  { intros j Hj0. destruct (Z.ltb_spec j (b_size o)) as [Hlt|Hge]; cbn [andb].
    - destruct (Hjo j ltac:(lia)). destruct (Z.ltb_spec (j / 64) ow); [reflexivity|lia].
    - destruct (Z.ltb_spec (j / 64) ow); [|reflexivity]. symmetry. apply (bs_bit_beyond a' o j O Hge). assumption. }
  set (cm := words_per_bits (Z.min (b_size b) (b_size o))).
  assert (Hcm : 0 <= cm <= tw /\ cm <= ow /\ (cm < tw -> cm = ow)).
  { unfold cm, tw, ow. destruct (Z.min_spec (b_size b) (b_size o)) as [[H1 ->]|[H1 ->]].
    - split; [lia|]. split; [apply wpb_mono; lia|lia].
    - split; [split; [unfold words_per_bits; apply Z.div_pos; lia|apply wpb_mono; lia]|]. split; [lia|reflexivity]. }
  destruct Hcm as (Hc1 & Hc2 & Hc3).
  assert (Hbit : forall x k, 0 <= k < 64 -> Z.testbit (Z.lxor x (Z.ones 64)) k = negb (Z.testbit x k)).
  { intros x k Hk. rewrite Z.lxor_spec, ones_testbit by lia. destruct (Z.ltb_spec k 64); [|lia]. destruct (Z.testbit x k); reflexivity. }
  split; [|split; [|split; [|split; [reflexivity|split; [reflexivity|]]]]].
  - intros j Hjr. destruct (Hj j Hjr) as [K1 K2]. rewrite (Hob j ltac:(lia)).
    unfold bs_and, bs_with_words, bs_bit. cbn [b_words]. rewrite !bv_get_wget. fold tw ow.
    set (c := Z.min tw ow). assert (Hc : 0 <= c <= tw) by (unfold c; lia).
    rewrite wget_wfill by (rewrite ?zlength_wcombine; lia).
    destruct (Z.leb_spec c (j / 64)); cbn [andb].
    + destruct (Z.ltb_spec (j / 64) (c + Z.of_nat (Z.to_nat (tw - c)))); [|lia]. rewrite Z.bits_0.
      destruct (Z.ltb_spec (j / 64) ow); [unfold c in *; lia|]. rewrite andb_false_r. reflexivity.
    + rewrite wget_wcombine by lia. destruct (Z.leb_spec 0 (j / 64)); [|lia]. destruct (Z.ltb_spec (j / 64) (0 + Z.of_nat (Z.to_nat c))); [|lia]. cbn [andb].
      rewrite Z.land_spec. destruct (Z.ltb_spec (j / 64) ow); [reflexivity|unfold c in *; lia].
  - intros j Hjr. destruct (Hj j Hjr) as [K1 K2]. rewrite (Hob j ltac:(lia)). destruct (div64_facts j ltac:(lia)) as (J1 & J2 & J3).
    unfold bs_and_not, bs_with_words, bs_bit. cbn [b_words]. rewrite !bv_get_wget. fold cm.
    rewrite wget_wcombine by lia. destruct (Z.leb_spec 0 (j / 64)); [|lia]. cbn [andb].
    destruct (Z.ltb_spec (j / 64) (0 + Z.of_nat (Z.to_nat cm))).
    + rewrite Z.land_spec, Hbit by lia. destruct (Z.ltb_spec (j / 64) ow); [reflexivity|lia].
    + destruct (Z.ltb_spec (j / 64) ow); [lia|]. cbn [negb]. rewrite andb_true_r. reflexivity.
  - intros j Hjr. destruct (Hj j Hjr) as [K1 K2]. rewrite (Hob j ltac:(lia)).
    unfold bs_or. rewrite bs_bit_clear_unused by (unfold bs_with_words; cbn [b_size]; exact Hjr).
    unfold bs_with_words, bs_bit. cbn [b_words]. rewrite !bv_get_wget. fold cm.
    rewrite wget_wcombine by lia. destruct (Z.leb_spec 0 (j / 64)); [|lia]. cbn [andb].
    destruct (Z.ltb_spec (j / 64) (0 + Z.of_nat (Z.to_nat cm))).
    + rewrite Z.lor_spec. destruct (Z.ltb_spec (j / 64) ow); [reflexivity|lia].
    + destruct (Z.ltb_spec (j / 64) ow); [lia|]. rewrite orb_false_r. reflexivity.
  - unfold bs_or, bs_clear_unused, bs_with_words. cbn [b_size]. destruct (b_size b mod 64 =? 0); reflexivity.
Qed.

(* ------------------------------------------------------------------ and_ / and_not / or_ keep the invariants *)
Lemma bs_inv2_with_words a b ws' : bs_inv2 a b -> zlength ws' = zlength (b_words b) ->
  (forall k, 0 <= k < words_per_bits (b_size b) -> word_ok 64 (wget ws' k)) ->
  (b_size b mod 64 <> 0 -> forall t, b_size b mod 64 <= t < 64 -> Z.testbit (wget ws' (b_size b / 64)) t = false) ->
  bs_inv2 a (bs_with_words b ws').
Proof.
  intros [(B1 & B2 & B3 & B4 & B5 & B6) Hw] Hl Hok Ht. unfold bs_with_words. split.
  - unfold bs_inv. cbn [b_size b_cap b_words b_data]. split; [exact B1|]. split; [exact B2|]. split; [exact B3|]. split; [rewrite Hl; exact B4|]. split; [|exact B6].
    intros Hm. destruct (div64_facts (b_size b) ltac:(lia)) as (D1 & D2 & D3).
    assert (Hidx : 0 <= b_size b / 64 < words_per_bits (b_size b)).
    { rewrite (wpb_spec (b_size b) ltac:(lia)). destruct (Z.eqb_spec (b_size b mod 64) 0); [contradiction|lia]. }
    pose proof (Hok _ Hidx) as Hwk. apply (word_ok_of_bits (b_size b mod 64)); [lia|exact (proj1 Hwk)|].
    intros t Htb. destruct (Z_lt_le_dec t 64); [apply (Ht Hm); lia|apply (word_ok_testbit_high 64 _ t ltac:(lia) Hwk); lia].
  - intros k Hk. cbn [b_size b_words] in *. apply Hok. exact Hk.
Qed.

Lemma word_ok_land_l w x : word_ok 64 w -> word_ok 64 (Z.land w x).
Proof.
  intros Hw. apply word_ok_of_bits; [lia|apply Z.land_nonneg; left; exact (proj1 Hw)|].
  intros j Hj. rewrite Z.land_spec, (word_ok_testbit_high 64 w j ltac:(lia) Hw Hj). reflexivity.
Qed.

Theorem bs_binary_inv a a' b o : bs_inv2 a b -> bs_inv2 a' o ->
  bs_inv2 a (bs_and b o) /\ bs_inv2 a (bs_and_not b o) /\ bs_inv2 a (bs_or b o).
Proof.
  intros Bb Oo. pose proof Bb as [B Hwb]. pose proof Oo as [O Hwo]. pose proof B as (B1 & B2 & B3 & B4 & B5 & B6). pose proof O as (O1 & _).
  destruct (wpb_le_cap b a B) as [Hm Hj]. destruct (wpb_le_cap o a' O) as [Hmo Hjo].
  set (tw := words_per_bits (b_size b)) in *. set (ow := words_per_bits (b_size o)) in *.
  set (cm := words_per_bits (Z.min (b_size b) (b_size o))).
  assert (Hcm : 0 <= cm <= tw /\ cm <= ow).
  { unfold cm, tw, ow. destruct (Z.min_spec (b_size b) (b_size o)) as [[H1 ->]|[H1 ->]].
    - split; [lia|apply wpb_mono; lia].
    - split; [split; [unfold words_per_bits; apply Z.div_pos; lia|apply wpb_mono; lia]|lia]. }
  destruct Hcm as (Hc1 & Hc2).
  assert (Htail : b_size b mod 64 <> 0 -> forall t, b_size b mod 64 <= t < 64 -> Z.testbit (wget (b_words b) (b_size b / 64)) t = false).
  { intros Hm' t Ht. pose proof (Z.mod_pos_bound (b_size b) 64 ltac:(lia)). apply (word_ok_testbit_high (b_size b mod 64) _ t); [lia|apply B5; exact Hm'|lia]. }
  assert (Hidx : b_size b mod 64 <> 0 -> 0 <= b_size b / 64 < tw).
  { intros Hm'. destruct (div64_facts (b_size b) ltac:(lia)) as (D1 & D2 & D3). unfold tw. rewrite (wpb_spec (b_size b) ltac:(lia)).
    destruct (Z.eqb_spec (b_size b mod 64) 0); [contradiction|lia]. }
  (* the word of a combination: f (this word) (other word) on the first n words, else unchanged *)
  assert (Hcomb : forall f n, 0 <= n <= tw -> forall k, 0 <= k ->
            wget (wcombine f (b_words b) (b_words o) 0 (Z.to_nat n)) k = if k <? n then f (wget (b_words b) k) (wget (b_words o) k) else wget (b_words b) k).
  { intros f n Hn k Hk. rewrite wget_wcombine by lia. destruct (Z.leb_spec 0 k); [|lia]. cbn [andb].
    destruct (Z.ltb_spec k (0 + Z.of_nat (Z.to_nat n))); destruct (Z.ltb_spec k n); try reflexivity; lia. }
  split; [|split].
  - unfold bs_and. fold tw ow. set (c := Z.min tw ow). assert (Hc : 0 <= c <= tw) by (unfold c; lia).
    assert (Hget : forall k, 0 <= k < tw -> wget (wfill (wcombine Z.land (b_words b) (b_words o) 0 (Z.to_nat c)) c (Z.to_nat (tw - c)) 0) k =
                     if k <? c then Z.land (wget (b_words b) k) (wget (b_words o) k) else 0).
    { intros k Hk. rewrite wget_wfill by (rewrite ?zlength_wcombine; lia). destruct (Z.leb_spec c k); cbn [andb].
      - destruct (Z.ltb_spec k (c + Z.of_nat (Z.to_nat (tw - c)))); [|lia]. destruct (Z.ltb_spec k c); [lia|reflexivity].
      - rewrite Hcomb by lia. destruct (Z.ltb_spec k c); [reflexivity|lia]. }
    apply bs_inv2_with_words; [exact Bb|rewrite zlength_wfill, zlength_wcombine; reflexivity| |].
    + intros k Hk. rewrite Hget by exact Hk. destruct (k <? c); [apply word_ok_land_l; apply Hwb; exact Hk|split; cbn; lia].
    + intros Hm' t Ht. rewrite Hget by (apply Hidx; exact Hm'). destruct (b_size b / 64 <? c); [|apply Z.bits_0].
      rewrite Z.land_spec, (Htail Hm' t Ht). reflexivity.
  - unfold bs_and_not. fold cm.
    apply bs_inv2_with_words; [exact Bb|rewrite zlength_wcombine; reflexivity| |].
    + intros k Hk. rewrite Hcomb by lia. destruct (k <? cm); [apply word_ok_land_l|]; apply Hwb; exact Hk.
    + intros Hm' t Ht. rewrite Hcomb by (try lia; apply Hidx; exact Hm'). destruct (b_size b / 64 <? cm); [|apply (Htail Hm' t Ht)].
      rewrite Z.land_spec, (Htail Hm' t Ht). reflexivity.
  - unfold bs_or. fold cm. set (ws1 := wcombine Z.lor (b_words b) (b_words o) 0 (Z.to_nat cm)).
    assert (Hok1 : forall k, 0 <= k < tw -> word_ok 64 (wget ws1 k)).
    { intros k Hk. unfold ws1. rewrite Hcomb by lia. destruct (Z.ltb_spec k cm); [|apply Hwb; exact Hk].
      apply word_ok_lor; [apply Hwb; exact Hk|apply Hwo; fold ow; lia]. }
    assert (Hl1 : zlength ws1 = zlength (b_words b)) by (unfold ws1; apply zlength_wcombine).
    unfold bs_clear_unused, bs_with_words. cbn [b_size b_words b_data b_cap].
    destruct (Z.eqb_spec (b_size b mod 64) 0) as [E|E].
    + change (mkbs (b_data b) ws1 (b_size b) (b_cap b)) with (bs_with_words b ws1). apply bs_inv2_with_words; [exact Bb|exact Hl1|exact Hok1|intros Hm'; contradiction].
    + change (mkbs (b_data b) (wset ws1 (b_size b / 64) (Z.land (wget ws1 (b_size b / 64)) (Z.ones (b_size b mod 64)))) (b_size b) (b_cap b))
        with (bs_with_words b (wset ws1 (b_size b / 64) (Z.land (wget ws1 (b_size b / 64)) (Z.ones (b_size b mod 64))))).
      pose proof (Hidx E) as Hi. destruct (div64_facts (b_size b) ltac:(lia)) as (D1 & D2 & D3).
      apply bs_inv2_with_words; [exact Bb|rewrite zlength_wset; exact Hl1| |].
      * intros k Hk. destruct (Z.eq_dec k (b_size b / 64)) as [->|Hne].
        -- rewrite wget_wset_same by lia. apply word_ok_land_ones. lia.
        -- rewrite wget_wset_other by lia. apply Hok1. exact Hk.
      * intros _ t Ht. rewrite wget_wset_same by lia. rewrite Z.land_spec, ones_testbit by lia.
        destruct (Z.ltb_spec t (b_size b mod 64)); [lia|]. apply andb_false_r.
Qed.

(* ------------------------------------------------------------------ copy_from(arena, other) *)
Theorem bs_copy_from_sound mok a a' b o : inv a -> bs_inv2 a b -> bs_inv2 a' o -> b_size o < 2 ^ 31 ->
  let '(e, a1, b') := bs_copy_from mok a b o in
  inv a1 /\
  ((e = EOk /\ bs_inv2 a1 b' /\ b_size b' = b_size o /\ forall j, 0 <= j < b_size o -> bs_bit b' j = bs_bit o j)
   \/ (e = EOutOfMemory /\ b' = b /\ bs_inv a1 b)).
Proof.
  intros I [B Hwb] [O Hwo] Hn. pose proof B as (B1 & B2 & B3 & B4 & B5 & B6). pose proof O as (O1 & O2 & O3 & O4 & O5 & O6).
  destruct (wpb_le_cap o a' O) as [Hmo Hjo]. unfold bs_copy_from.
  destruct (Z.eqb_spec (b_size o) 0) as [E0|E0].
  - (* the other set is empty: only the size changes *)
    split; [exact I|]. left. split; [reflexivity|]. split; [|split; [cbn; lia|intros j Hj; lia]].
    split.
    + unfold bs_inv. cbn [b_size b_cap b_words b_data]. split; [lia|]. split; [exact B2|]. split; [exact B3|]. split; [exact B4|]. split; [|exact B6].
      intros Hm. exfalso. apply Hm. reflexivity.
    + intros k Hk. cbn in Hk. lia.
  - (* the final copy, given a set b1 with enough capacity *)
    assert (Hfin : forall a1 b1, bs_inv a1 b1 -> b_size b1 = 0 \/ b1 = b -> b_size o <= b_cap b1 ->
              let b' := mkbs (b_data b1) (wcombine (fun _ s => s) (b_words b1) (b_words o) 0 (Z.to_nat (words_per_bits (b_size o)))) (b_size o) (b_cap b1) in
              bs_inv2 a1 b' /\ b_size b' = b_size o /\ forall j, 0 <= j < b_size o -> bs_bit b' j = bs_bit o j).
    { intros a1 b1 (C1 & C2 & C3 & C4 & C5 & C6) _ Hcap. cbn zeta.
      assert (Hwl : words_per_bits (b_size o) <= zlength (b_words b1)).
      { rewrite C4. rewrite (wpb_spec (b_size o) ltac:(lia)). destruct (div64_facts (b_size o) ltac:(lia)) as (D1 & D2 & D3).
        pose proof (Z.div_mod (b_cap b1) 64 ltac:(lia)) as Hcd. rewrite C2 in Hcd. destruct (Z.eqb_spec (b_size o mod 64) 0); lia. }
      assert (Hget : forall k, 0 <= k < words_per_bits (b_size o) ->
                wget (wcombine (fun _ s => s) (b_words b1) (b_words o) 0 (Z.to_nat (words_per_bits (b_size o)))) k = wget (b_words o) k).
      { intros k Hk. rewrite wget_wcombine by lia. destruct (Z.leb_spec 0 k); [|lia].
        destruct (Z.ltb_spec k (0 + Z.of_nat (Z.to_nat (words_per_bits (b_size o))))); [reflexivity|lia]. }
      split; [|split; [reflexivity|]].
      - split.
        + unfold bs_inv. cbn [b_size b_cap b_words b_data]. split; [lia|]. split; [exact C2|]. split; [exact C3|].
          split; [rewrite zlength_wcombine; exact C4|]. split; [|exact C6].
          intros Hm. destruct (div64_facts (b_size o) ltac:(lia)) as (D1 & D2 & D3).
          rewrite Hget; [apply O5; exact Hm|]. rewrite (wpb_spec (b_size o) ltac:(lia)). destruct (Z.eqb_spec (b_size o mod 64) 0); [contradiction|lia].
        + intros k Hk. cbn [b_size b_words] in *. rewrite Hget by exact Hk. apply Hwo. exact Hk.
      - intros j Hj. unfold bs_bit. cbn [b_words]. rewrite !bv_get_wget. rewrite Hget by (apply Hjo; exact Hj). reflexivity. }
    destruct (Z.gtb_spec (b_size o) (b_cap b)) as [Hgt|Hle].
    + (* reallocation: the same arena traffic as a resize of the emptied set *)
      set (b0 := mkbs (b_data b) (b_words b) 0 (b_cap b)).
      assert (B0 : bs_inv a b0).
      { unfold bs_inv, b0. cbn [b_size b_cap b_words b_data]. split; [lia|]. split; [exact B2|]. split; [exact B3|]. split; [exact B4|]. split; [|exact B6].
        intros Hm. exfalso. apply Hm. reflexivity. }
      pose proof (bs_resize_grow_gen mok a b0 (b_size o) (b_size o) false I B0 ltac:(cbn; lia) Hn) as G.
      unfold bs_resize in G. cbn [b_size b_cap b_data b_words b0] in G.
      destruct (Z.leb_spec (b_size o) 0); [lia|].
      destruct (Z.gtb_spec (b_size o) (b_cap b)); [|lia].
      destruct ((((b_size o + 63) / 64 * 64) mod 2 ^ 64) <? b_size o).
      * destruct G as [G1 [(Ge & _)|(_ & _ & G3)]]; [discriminate|]. split; [exact I|]. right. split; [reflexivity|]. split; [reflexivity|exact B].
      * destruct (alloc_reusable mok a (((b_size o + 63) / 64 * 64) mod 2 ^ 64 / 8)) as [[[p asz]|] a1].
        -- destruct G as [G1 [(_ & Gi & _)|(Ge & _)]]; [|discriminate]. split; [exact G1|]. left. split; [reflexivity|].
           set (a2 := match b_data b with Some old => free_reusable a1 old (b_cap b / 8) | None => a1 end) in *.
           set (b1 := mkbs (Some p) (zrepeat poison (asz * 8 / 64)) 0 ((asz * 8) mod 2 ^ 32)).
           assert (C1 : bs_inv a2 b1).
           { destruct Gi as (C1 & C2 & C3 & C4 & _ & C6). cbn [b_size b_cap b_words b_data] in *. rewrite grow_words_length in C4.
             unfold bs_inv, b1. cbn [b_size b_cap b_words b_data]. split; [lia|]. split; [exact C2|]. split; [exact C3|].
             split; [|split; [intros Hm; exfalso; apply Hm; reflexivity|exact C6]].
             rewrite <- C4. cbn [words_per_bits]. unfold words_per_bits. cbn. rewrite Z.sub_0_r. reflexivity. }
           assert (Hcap1 : b_size o <= b_cap b1) by (destruct Gi as (C1' & _); cbn [b_size b_cap] in C1'; unfold b1; cbn [b_cap]; lia).
           apply (Hfin a2 b1 C1 (or_introl eq_refl) Hcap1).
        -- destruct G as [G1 [(Ge & _)|(_ & _ & G3)]]; [discriminate|]. split; [exact G1|]. right. split; [reflexivity|]. split; [reflexivity|].
           destruct G3 as (D1 & D2 & D3 & D4 & _ & D6). cbn [b_size b_cap b_words b_data] in *.
           unfold bs_inv. split; [exact B1|]. split; [exact B2|]. split; [exact B3|]. split; [exact B4|]. split; [exact B5|exact D6].
    + split; [exact I|]. left. split; [reflexivity|]. apply (Hfin a b B (or_intror eq_refl) Hle).
Qed.

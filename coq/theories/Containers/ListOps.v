(* C18 (7), round 6 — ArenaList over ANY SEQUENCE of operations: the node heap with first/last always represents the textbook
   list obtained by the same operations on a plain list (append, prepend, insert after / before a member, unlink a member,
   pop_first, pop), for lists of any length, with preconditions stated on the textbook list only. *)
From Coq Require Import ZArith List Bool Lia.
From Verif Require Import Containers.ListModel Containers.ListGeneral Containers.ListFrame.
Import ListNotations.
Local Open Scope Z_scope.

Fixpoint ins_after (ref n : Z) (l : list Z) : list Z :=
  match l with [] => [] | x :: r => if x =? ref then x :: n :: r else x :: ins_after ref n r end.
Fixpoint ins_before (ref n : Z) (l : list Z) : list Z :=
  match l with [] => [] | x :: r => if x =? ref then n :: x :: r else x :: ins_before ref n r end.
Fixpoint rem1 (n : Z) (l : list Z) : list Z :=
  match l with [] => [] | x :: r => if x =? n then r else x :: rem1 n r end.

Lemma ins_after_mid ref n : forall l1 l2, ~ In ref l1 -> ins_after ref n (l1 ++ ref :: l2) = l1 ++ ref :: n :: l2.
Proof.
  induction l1 as [|a l1 IH]; intros l2 H; cbn [app ins_after].
  - rewrite Z.eqb_refl. reflexivity.
  - destruct (Z.eqb_spec a ref) as [->|_]; [exfalso; apply H; left; reflexivity|]. rewrite IH; [reflexivity|]. intros Hc. apply H. right. exact Hc.
Qed.
Lemma ins_before_mid ref n : forall l1 l2, ~ In ref l1 -> ins_before ref n (l1 ++ ref :: l2) = l1 ++ n :: ref :: l2.
Proof.
  induction l1 as [|a l1 IH]; intros l2 H; cbn [app ins_before].
  - rewrite Z.eqb_refl. reflexivity.
  - destruct (Z.eqb_spec a ref) as [->|_]; [exfalso; apply H; left; reflexivity|]. rewrite IH; [reflexivity|]. intros Hc. apply H. right. exact Hc.
Qed.
Lemma rem1_mid n : forall l1 l2, ~ In n l1 -> rem1 n (l1 ++ n :: l2) = l1 ++ l2.
Proof.
  induction l1 as [|a l1 IH]; intros l2 H; cbn [app rem1].
  - rewrite Z.eqb_refl. reflexivity.
  - destruct (Z.eqb_spec a n) as [->|_]; [exfalso; apply H; left; reflexivity|]. rewrite IH; [reflexivity|]. intros Hc. apply H. right. exact Hc.
Qed.

Lemma split_first (x : Z) : forall l, In x l -> exists l1 l2, l = l1 ++ x :: l2 /\ ~ In x l1.
Proof.
  induction l as [|a l IH]; intros H; [destruct H|]. destruct (Z.eq_dec a x) as [->|Hne].
  - exists [], l. split; [reflexivity|intros []].
  - destruct H as [H|H]; [contradiction|]. destruct (IH H) as (l1 & l2 & E & Hn). exists (a :: l1), l2. split; [rewrite E; reflexivity|].
    intros [Hc|Hc]; [contradiction|exact (Hn Hc)].
Qed.

Inductive dlop := DApp (n : Z) | DPre (n : Z) | DInsA (ref n : Z) | DInsB (ref n : Z) | DUnl (n : Z) | DPopF | DPop.
Definition dlstep (d : dlist) (o : dlop) : dlist :=
  match o with
  | DApp n => dl_add d n true | DPre n => dl_add d n false
  | DInsA ref n => dl_insert d ref n true | DInsB ref n => dl_insert d ref n false
  | DUnl n => dl_unlink d n | DPopF => snd (dl_pop_first d) | DPop => snd (dl_pop d)
  end.
Definition dltext (l : list Z) (o : dlop) : list Z :=
  match o with
  | DApp n => l ++ [n] | DPre n => n :: l
  | DInsA ref n => ins_after ref n l | DInsB ref n => ins_before ref n l
  | DUnl n => rem1 n l | DPopF => tl l | DPop => removelast l
  end.
Definition dlpre (l : list Z) (o : dlop) : Prop :=
  match o with
  | DApp n | DPre n => n <> 0 /\ ~ In n l
  | DInsA ref n | DInsB ref n => In ref l /\ n <> 0 /\ ~ In n l
  | DUnl n => In n l
  | DPopF | DPop => l <> []
  end.

Theorem list_step d l o : drep d l -> dlpre l o -> drep (dlstep d o) (dltext l o).
Proof.
  intros H Hp. destruct o as [n|n|ref n|ref n|n| |]; cbn [dlstep dltext dlpre] in *.
  - destruct Hp as [A B]. apply dl_append_sound; assumption.
  - destruct Hp as [A B]. apply dl_prepend_sound; assumption.
  - destruct Hp as (A & B & C). destruct (split_first ref l A) as (l1 & l2 & E & Hn). subst l. rewrite (ins_after_mid ref n l1 l2 Hn).
    apply dl_insert_after_sound; assumption.
  - destruct Hp as (A & B & C). destruct (split_first ref l A) as (l1 & l2 & E & Hn). subst l. rewrite (ins_before_mid ref n l1 l2 Hn).
    apply dl_insert_before_sound; assumption.
  - destruct (split_first n l Hp) as (l1 & l2 & E & Hn). subst l. rewrite (rem1_mid n l1 l2 Hn). exact (proj1 (dl_unlink_sound d l1 n l2 H)).
  - destruct l as [|x r]; [contradiction|]. cbn [tl]. exact (proj2 (dl_pop_first_sound d x r H)).
  - destruct (exists_last Hp) as (l' & x & E). subst l. rewrite removelast_last. exact (proj2 (dl_pop_sound d l' x H)).
Qed.

Fixpoint dlpres (l : list Z) (ops : list dlop) : Prop := match ops with [] => True | o :: r => dlpre l o /\ dlpres (dltext l o) r end.
Fixpoint dltext_all (l : list Z) (ops : list dlop) : list Z := match ops with [] => l | o :: r => dltext_all (dltext l o) r end.

Theorem list_any_sequence : forall ops d l, drep d l -> dlpres l ops -> drep (fold_left dlstep ops d) (dltext_all l ops).
Proof.
  induction ops as [|o r IH]; intros d l H Hp; cbn [fold_left dltext_all dlpres] in *; [exact H|].
  destruct Hp as [P Pr]. apply IH; [apply list_step; assumption|exact Pr].
Qed.

(* from the empty list: the two walks of the real structure read the textbook list and its reverse *)
Theorem list_any_sequence_from_empty ops fuel : dlpres [] ops -> (length (dltext_all [] ops) < fuel)%nat ->
  let d := fold_left dlstep ops dlist_empty in
  walk fuel (dl_heap d) (dl_first d) true = dltext_all [] ops /\ walk fuel (dl_heap d) (dl_last d) false = rev (dltext_all [] ops).
Proof.
  intros Hp Hlen. cbn zeta. apply dl_walks_any_fuel; [|exact Hlen]. apply list_any_sequence; [apply drep_empty|exact Hp].
Qed.

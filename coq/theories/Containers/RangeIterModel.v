(* C18 (1) — executable model of BitVectorRangeIterator<T, B> (core/jitallocator.cpp; used by JitAllocator, property C09):
   ranges of consecutive bits equal to B inside [start, end) of a bit vector of W-bit words. Generic in the word size W. *)
From Coq Require Import ZArith List Bool.
From Verif Require Import Containers.BitVecModel.
Import ListNotations.
Local Open Scope Z_scope.

Record riter := mkri { ri_ptr : Z; ri_idx : Z; ri_end : Z; ri_word : Z }.

Definition xor_mask (W : Z) (b : bool) : Z := if b then 0 else Z.ones W.
Definition wlnot (W x : Z) : Z := Z.lxor x (Z.ones W).
Definition shl_ones (W i : Z) : Z := Z.shiftl (Z.ones W) i mod 2 ^ W.

(* init(data, bit_word_count, start, end) *)
Definition ri_init (W : Z) (b : bool) (ws : list Z) (start end_ : Z) : riter :=
  let idx := (start / W) * W in
  let ptr := idx / W in
  let bw := if idx <? end_ then Z.land (Z.lxor (nthw ws ptr) (xor_mask W b)) (shl_ones W (start mod W)) else 0 in
  mkri ptr idx end_ bw.

(* skip empty words *)
Fixpoint ri_skip (fuel : nat) (W : Z) (b : bool) (ws : list Z) (it : riter) : option riter :=
  match fuel with
  | O => None
  | S f =>
    if ri_word it =? 0 then
      let idx := ri_idx it + W in
      if idx >=? ri_end it then None
      else ri_skip f W b ws (mkri (ri_ptr it + 1) idx (ri_end it) (Z.lxor (nthw ws (ri_ptr it + 1)) (xor_mask W b)))
    else Some it
  end.

(* the loop that extends a range over following full words until the hint is reached *)
Fixpoint ri_extend (fuel : nat) (W : Z) (b : bool) (ws : list Z) (it : riter) (rstart rend hint : Z) : riter * Z :=
  match fuel with
  | O => (it, rend)
  | S f =>
    if (rend - rstart) mod 2 ^ 64 <? hint then
      let idx := ri_idx it + W in
      if idx >=? ri_end it then (mkri (ri_ptr it) idx (ri_end it) (ri_word it), rend)
      else
        let bw := Z.lxor (nthw ws (ri_ptr it + 1)) (xor_mask W b) in
        if negb (bw =? Z.ones W) then
          let j := ctz (wlnot W bw) in
          (mkri (ri_ptr it + 1) idx (ri_end it) (Z.lxor bw (wlnot W (shl_ones W j))), Z.min (idx + j) (ri_end it))
        else ri_extend f W b ws (mkri (ri_ptr it + 1) idx (ri_end it) 0) rstart (Z.min (idx + W) (ri_end it)) hint
    else (it, rend)
  end.

(* next_range(range_start, range_end, range_hint): None = false *)
Definition ri_next (W : Z) (b : bool) (ws : list Z) (it : riter) (hint : Z) : option (Z * Z * riter) :=
  match ri_skip (S (length ws)) W b ws it with
  | None => None
  | Some it1 =>
    let i := ctz (ri_word it1) in
    let rstart := ri_idx it1 + i in
    let bw := wlnot W (Z.lxor (ri_word it1) (wlnot W (shl_ones W i))) in
    if bw =? 0 then
      let rend := Z.min (ri_idx it1 + W) (ri_end it1) in
      let '(it2, rend') := ri_extend (S (length ws)) W b ws (mkri (ri_ptr it1) (ri_idx it1) (ri_end it1) 0) rstart rend hint in
      Some (rstart, rend', it2)
    else
      let j := ctz bw in
      let rend := Z.min (ri_idx it1 + j) (ri_end it1) in
      Some (rstart, rend, mkri (ri_ptr it1) (ri_idx it1) (ri_end it1) (wlnot W (Z.lxor bw (wlnot W (shl_ones W j)))))
  end.

(* all ranges *)
Fixpoint ri_all (fuel : nat) (W : Z) (b : bool) (ws : list Z) (it : riter) (hint : Z) : list (Z * Z) :=
  match fuel with
  | O => []
  | S f => match ri_next W b ws it hint with
           | None => []
           | Some (s, e, it') => (s, e) :: ri_all f W b ws it' hint
           end
  end.
Definition ranges (W : Z) (b : bool) (ws : list Z) (start end_ hint : Z) : list (Z * Z) :=
  ri_all (S (Z.to_nat (W * zlen ws))) W b ws (ri_init W b ws start end_) hint.

(* C18 (6) — the red-black tree model: small-scope theorem. Every sequence of at most `depth` operations drawn from
   insert k / remove k with k < nkeys keeps: the in-order traversal equal to the sorted abstract set, get(k) finding exactly
   the members, and the red-black invariants (black root, no red node with a red child, equal black heights) — also after
   removals. The bound is part of the statement; the general (unbounded) statement is not proved (see design/C18.md). *)
From Coq Require Import ZArith List Bool Lia.
From Verif Require Import Containers.TreeModel.
Import ListNotations.
Local Open Scope Z_scope.

Inductive top := TIns (k : Z) | TRem (k : Z).

(* abstract set as a sorted list of keys; `ids` maps a member key to its node id *)
Record tstate := mkts { ts_tree : tree; ts_ids : list (Z * Z); ts_next : Z }.
Definition ts_init : tstate := mkts tree_empty [] 2.

Fixpoint lookup (l : list (Z * Z)) (k : Z) : option Z :=
  match l with [] => None | (k', id) :: r => if k' =? k then Some id else lookup r k end.
Fixpoint sorted_insert (l : list (Z * Z)) (k id : Z) : list (Z * Z) :=
  match l with [] => [(k, id)] | (k', id') :: r => if k <? k' then (k, id) :: l else (k', id') :: sorted_insert r k id end.
Fixpoint sorted_remove (l : list (Z * Z)) (k : Z) : list (Z * Z) :=
  match l with [] => [] | (k', id') :: r => if k' =? k then r else (k', id') :: sorted_remove r k end.

Definition tapply (st : tstate) (o : top) : tstate :=
  match o with
  | TIns k => match lookup (ts_ids st) k with
              | Some _ => st
              | None => mkts (tree_insert (ts_tree st) (ts_next st) k) (sorted_insert (ts_ids st) k (ts_next st)) (ts_next st + 1)
              end
  | TRem k => match lookup (ts_ids st) k with
              | Some id => mkts (tree_remove (ts_tree st) id) (sorted_remove (ts_ids st) k) (ts_next st)
              | None => st
              end
  end.

Fixpoint list_eqb (a b : list Z) : bool :=
  match a, b with [], [] => true | x :: a', y :: b' => (x =? y) && list_eqb a' b' | _, _ => false end.

(* what must hold in every state *)
Definition tcheck (nkeys : Z) (st : tstate) : bool :=
  rb_valid (ts_tree st) &&
  list_eqb (tree_keys (ts_tree st)) (map fst (ts_ids st)) &&
  list_eqb (map (fun x => snd (fst x)) (tree_inorder (ts_tree st))) (map snd (ts_ids st)) &&
  forallb (fun k => tree_get (ts_tree st) k =? match lookup (ts_ids st) k with Some id => id | None => 0 end)
          (map Z.of_nat (seq 0 (Z.to_nat nkeys))).

Definition alphabet (nkeys : Z) : list top :=
  map (fun i => TIns (Z.of_nat i)) (seq 0 (Z.to_nat nkeys)) ++ map (fun i => TRem (Z.of_nat i)) (seq 0 (Z.to_nat nkeys)).

Fixpoint explore (nkeys : Z) (depth : nat) (st : tstate) : bool :=
  tcheck nkeys st &&
  match depth with
  | O => true
  | S d => forallb (fun o => explore nkeys d (tapply st o)) (alphabet nkeys)
  end.

Lemma explore_sound nkeys depth : forall st ops, explore nkeys depth st = true ->
  (length ops <= depth)%nat -> Forall (fun o => In o (alphabet nkeys)) ops ->
  tcheck nkeys (fold_left tapply ops st) = true.
Proof.
  induction depth as [|d IH]; intros st ops He Hl Ha.
  - destruct ops; [|simpl in Hl; lia]. simpl in *. apply andb_prop in He. apply He.
  - cbn [explore] in He. apply andb_prop in He. destruct He as [Hc Hf].
    destruct ops as [|o r]; [exact Hc|]. cbn [fold_left]. inversion Ha; subst.
    apply IH; [|simpl in Hl; lia|assumption].
    rewrite forallb_forall in Hf. apply Hf. assumption.
Qed.

(* all sequences of at most 6 operations over 4 keys (8 operations): 8^0 + ... + 8^6 = 299 593 states *)
Lemma explore_4_6 : explore 4 6 ts_init = true.
Proof. vm_compute. reflexivity. Qed.

(* insertions only go deeper: every order of inserting up to 8 distinct keys out of 8, then every single removal *)
Definition ins_alphabet (nkeys : Z) : list top := map (fun i => TIns (Z.of_nat i)) (seq 0 (Z.to_nat nkeys)).
Definition rem_alphabet (nkeys : Z) : list top := map (fun i => TRem (Z.of_nat i)) (seq 0 (Z.to_nat nkeys)).
Fixpoint explore_ins (nkeys : Z) (depth : nat) (st : tstate) : bool :=
  tcheck nkeys st && forallb (fun o => tcheck nkeys (tapply st o)) (rem_alphabet nkeys) &&
  match depth with
  | O => true
  | S d => forallb (fun o => match o with TIns k => match lookup (ts_ids st) k with Some _ => true | None => explore_ins nkeys d (tapply st o) end | _ => true end)
                   (ins_alphabet nkeys)
  end.

Lemma explore_ins_7 : explore_ins 7 7 ts_init = true.
Proof. vm_compute. reflexivity. Qed.

(* all sequences of at most 5 operations over 6 keys (12 operations): 271 453 states *)
Lemma explore_6_5 : explore 6 5 ts_init = true.
Proof. vm_compute. reflexivity. Qed.

(* the statement in terms of operation sequences *)
Theorem tree_small_scope : forall ops,
  ((length ops <= 6)%nat /\ Forall (fun o => In o (alphabet 4)) ops -> tcheck 4 (fold_left tapply ops ts_init) = true) /\
  ((length ops <= 5)%nat /\ Forall (fun o => In o (alphabet 6)) ops -> tcheck 6 (fold_left tapply ops ts_init) = true).
Proof.
  intros ops. split; intros [Hl Ha].
  - apply (explore_sound 4 6); [exact explore_4_6|exact Hl|exact Ha].
  - apply (explore_sound 6 5); [exact explore_6_5|exact Hl|exact Ha].
Qed.

(* C18 (5) — executable model of asmjit::Arena (support/arena.{h,cpp}) at address level.

   Addresses are (block id, byte offset from block->data()). Block ids are handed out by the model in the order in which
   malloc succeeds (static block = id 0); the correspondence harness canonicalises real pointers the same way.
   `mok : Z -> bool` is the malloc oracle (does a request of that many bytes succeed?).
   The model follows the code with the three repairs proposed in fixes/C18-arena-*.patch applied (the chain is a list, so a
   skipped block is simply absent after _alloc_oneshot; a hard reset always releases the dynamic blocks).
   The pointer-level behaviour of the pinned scan loop is modelled separately in ArenaChainModel.v.
   `live` is ghost state (the blocks handed out and not yet released); it never influences a result. *)
From Coq Require Import ZArith List Bool.
Import ListNotations.
Local Open Scope Z_scope.

Record addr := mkaddr { a_blk : Z; a_off : Z }.
Record mblock := mkmb { mb_id : Z; mb_size : Z }.

Definition addr_eqb (x y : addr) : bool := (a_blk x =? a_blk y) && (a_off x =? a_off y).

Record arena := mkarena {
  chain : list mblock;      (* _first_block -> next -> ... ; [] = the static zero block *)
  cur : nat;                (* position of _current_block in chain *)
  ptr : Z;                  (* _ptr - current->data() *)
  endp : Z;                 (* _end - current->data() *)
  cur_shift : Z; min_shift : Z; max_shift : Z;
  has_static : bool;
  unused : Z;               (* _unused_byte_count (uint32) *)
  slots : list (list addr); (* _reusable_slots[8], each a LIFO list *)
  dyn : list mblock;        (* _dynamic_blocks, newest first; mb_size = requested size *)
  next_id : Z;              (* next block id *)
  live : list (addr * Z)    (* ghost: (address, allocated size) of every block handed out and not released *)
}.

Definition SIZE_MAX : Z := 2 ^ 64 - 1.
Definition kSlotCount : Z := 8.
Definition kMinSlot : Z := 16.
Definition kMaxSlot : Z := 2048.
Definition kBlockHeader : Z := 16.       (* sizeof(ManagedBlock) *)
Definition kAllocOverhead : Z := 32.     (* Globals::kAllocOverhead *)
Definition kBlockSizeOverhead : Z := 48. (* header + kAllocOverhead + kArenaAlignmentOverhead(0) *)
Definition kDynOverhead : Z := 24.       (* align_up(sizeof(DynamicBlock) + sizeof(DynamicBlock* ), 8) *)

Definition zero_block : mblock := mkmb (-1) 0.
Definition cur_block (a : arena) : mblock := nth (cur a) (chain a) zero_block.

(* bit_size_of<size_t> - 4 - clz((size - 1) | 0xF) *)
Definition slot_index (size : Z) : Z := Z.log2 (Z.lor ((size - 1) mod 2 ^ 64) 15) - 3.
Definition slot_size (s : Z) : Z := 16 * 2 ^ s.

(* ---- record updates *)
Definition set_bump (a : arena) (p : Z) (lv : list (addr * Z)) : arena :=
  mkarena (chain a) (cur a) p (endp a) (cur_shift a) (min_shift a) (max_shift a) (has_static a) (unused a)
          (slots a) (dyn a) (next_id a) lv.
Definition set_slots (a : arena) (s : list (list addr)) (lv : list (addr * Z)) : arena :=
  mkarena (chain a) (cur a) (ptr a) (endp a) (cur_shift a) (min_shift a) (max_shift a) (has_static a) (unused a)
          s (dyn a) (next_id a) lv.
Definition set_ptr_slots (a : arena) (p : Z) (s : list (list addr)) : arena :=
  mkarena (chain a) (cur a) p (endp a) (cur_shift a) (min_shift a) (max_shift a) (has_static a) (unused a)
          s (dyn a) (next_id a) (live a).
Definition set_chain (a : arena) (c : list mblock) : arena :=
  mkarena c (cur a) (ptr a) (endp a) (cur_shift a) (min_shift a) (max_shift a) (has_static a) (unused a)
          (slots a) (dyn a) (next_id a) (live a).

Definition empty_slots : list (list addr) := repeat [] 8.

(* Arena::_init *)
Definition arena_init (min_block_size static_size : Z) : arena :=
  let sh := Z.log2 min_block_size + 1 in
  let st := negb (static_size =? 0) in
  let c := if st then [mkmb 0 (static_size - kBlockHeader)] else [] in
  mkarena c 0 0 (if st then static_size - kBlockHeader else 0) sh sh 26 st 0 empty_slots [] 1 [].

(* first following block that is large enough; the blocks skipped on the way are released *)
Fixpoint scan_next (size : Z) (l : list mblock) : option (mblock * list mblock) :=
  match l with
  | [] => None
  | b :: r => if size <=? mb_size b then Some (b, r) else scan_next size r
  end.

(* Arena::_alloc_oneshot (slow path) *)
Definition alloc_oneshot_slow (mok : Z -> bool) (a : arena) (size : Z) : option addr * arena :=
  let cb := cur_block a in
  let unused_here := (mb_size cb - ptr a) mod 2 ^ 32 in
  let before := firstn (S (cur a)) (chain a) in
  let after := skipn (S (cur a)) (chain a) in
  match scan_next size after with
  | Some (b, rest) =>
      let p := mkaddr (mb_id b) 0 in
      (Some p, mkarena (before ++ b :: rest) (length before) size (mb_size b) (cur_shift a) (min_shift a) (max_shift a)
                       (has_static a) ((unused a + unused_here) mod 2 ^ 32) (slots a) (dyn a) (next_id a)
                       ((p, size) :: live a))
  | None =>
      let a1 := set_chain a before in
      let bs := 2 ^ cur_shift a in
      let big := size >? bs - kBlockSizeOverhead in
      if big && (size >? SIZE_MAX - kBlockSizeOverhead) then (None, a1)
      else
        let block_size := if big then size + kBlockHeader else bs - kAllocOverhead in
        if mok block_size then
          let nb := mkmb (next_id a) (block_size - kBlockHeader) in
          let p := mkaddr (next_id a) 0 in
          (Some p, mkarena (before ++ [nb]) (length before) size (block_size - kBlockHeader)
                           (Z.min (cur_shift a + 1) (max_shift a)) (min_shift a) (max_shift a)
                           (has_static a) ((unused a + unused_here) mod 2 ^ 32) (slots a) (dyn a) (next_id a + 1)
                           ((p, size) :: live a))
        else (None, a1)
  end.

(* Arena::alloc_oneshot(size) — inline fast path + slow path *)
Definition alloc_oneshot (mok : Z -> bool) (a : arena) (size : Z) : option addr * arena :=
  if size >? endp a - ptr a then alloc_oneshot_slow mok a size
  else let p := mkaddr (mb_id (cur_block a)) (ptr a) in
       (Some p, set_bump a (ptr a + size) ((p, size) :: live a)).

Fixpoint push_slot (s : list (list addr)) (i : nat) (p : addr) : list (list addr) :=
  match s, i with
  | [], _ => []
  | l :: r, O => (p :: l) :: r
  | l :: r, S k => l :: push_slot r k p
  end.
Fixpoint pop_slot (s : list (list addr)) (i : nat) : option (addr * list (list addr)) :=
  match s, i with
  | [], _ => None
  | l :: r, O => match l with [] => None | p :: l' => Some (p, l' :: r) end
  | l :: r, S k => match pop_slot r k with Some (p, r') => Some (p, l :: r') | None => None end
  end.

(* Arena_make_block_leftover_reusable: carve [p, p + rem) of the current block into reusable slots *)
Fixpoint leftover (fuel : nat) (blk : Z) (p rem : Z) (s : list (list addr)) : Z * list (list addr) :=
  match fuel with
  | O => (p, s)
  | S f =>
    if rem <? kMinSlot then (p, s)
    else let si := slot_index (rem / 2) in
         let (slot, ssz) := if si <? kSlotCount then (si, slot_size si) else (kSlotCount - 1, kMaxSlot) in
         leftover f blk (p + ssz) (rem - ssz) (push_slot s (Z.to_nat slot) (mkaddr blk p))
  end.

Fixpoint remove_dyn (id : Z) (l : list mblock) : list mblock :=
  match l with [] => [] | b :: r => if mb_id b =? id then r else b :: remove_dyn id r end.
Fixpoint remove_live (p : addr) (l : list (addr * Z)) : list (addr * Z) :=
  match l with [] => [] | (q, n) :: r => if addr_eqb q p then r else (q, n) :: remove_live p r end.

(* Arena::_alloc_reusable: returns (pointer, allocated_size) *)
Definition alloc_reusable (mok : Z -> bool) (a : arena) (size : Z) : option (addr * Z) * arena :=
  let si := slot_index size in
  if si <? kSlotCount then
    let asz := slot_size si in
    match pop_slot (slots a) (Z.to_nat si) with
    | Some (p, s') => (Some (p, asz), set_slots a s' ((p, asz) :: live a))
    | None =>
      let rem := endp a - ptr a in
      if rem >=? asz then
        let p := mkaddr (mb_id (cur_block a)) (ptr a) in
        (Some (p, asz), set_bump a (ptr a + asz) ((p, asz) :: live a))
      else
        let (p', s') := leftover (Z.to_nat (rem / 16) + 1) (mb_id (cur_block a)) (ptr a) rem (slots a) in
        let a1 := set_ptr_slots a p' s' in
        match alloc_oneshot_slow mok a1 asz with
        | (Some p, a2) => (Some (p, asz), a2)
        | (None, a2) => (None, a2)
        end
    end
  else
    if size >=? SIZE_MAX - kDynOverhead then (None, a)
    else if mok (size + kDynOverhead) then
      let p := mkaddr (next_id a) 0 in
      (Some (p, size),
       mkarena (chain a) (cur a) (ptr a) (endp a) (cur_shift a) (min_shift a) (max_shift a) (has_static a) (unused a)
               (slots a) (mkmb (next_id a) size :: dyn a) (next_id a + 1) ((p, size) :: live a))
    else (None, a).

(* Arena::free_reusable(p, size) *)
Definition free_reusable (a : arena) (p : addr) (size : Z) : arena :=
  let si := slot_index size in
  if si <? kSlotCount then set_slots a (push_slot (slots a) (Z.to_nat si) p) (remove_live p (live a))
  else mkarena (chain a) (cur a) (ptr a) (endp a) (cur_shift a) (min_shift a) (max_shift a) (has_static a) (unused a)
               (slots a) (remove_dyn (a_blk p) (dyn a)) (next_id a) (remove_live p (live a)).

(* Arena::reset(policy) with the hard-reset repair: dynamic blocks and slots are always released *)
Definition arena_reset (a : arena) (hard : bool) : arena :=
  let c := if hard then (if has_static a then firstn 1 (chain a) else []) else chain a in
  let sh := if hard then min_shift a else cur_shift a in
  mkarena c 0 0 (mb_size (nth 0 c zero_block)) sh (min_shift a) (max_shift a) (has_static a) 0 empty_slots [] (next_id a) [].

(* Arena::statistics(): (block_count, used_size, reserved_size, overhead_size) *)
Fixpoint sum_sizes (l : list mblock) : Z := match l with [] => 0 | b :: r => mb_size b + sum_sizes r end.
Definition arena_stats (a : arena) : Z * Z * Z * Z :=
  (match chain a with [] => 1 | _ => Z.of_nat (length (chain a)) end,
   sum_sizes (firstn (cur a) (chain a)) + ptr a, sum_sizes (chain a), unused a).

(* all free slot entries with the size of their class *)
Fixpoint slot_regions (s : list (list addr)) (k : Z) : list (addr * Z) :=
  match s with [] => [] | l :: r => map (fun p => (p, slot_size k)) l ++ slot_regions r (k + 1) end.
Definition regions (a : arena) : list (addr * Z) := live a ++ slot_regions (slots a) 0.

(* Arena::dup(data, size, null_terminate): one-shot block of align_up(size + nt, 8) bytes holding a copy of the data, the last
   8 bytes cleared first (padding + terminator). Returns the address and the bytes of the block. *)
Definition arena_dup (mok : Z -> bool) (a : arena) (data : list Z) (null_terminate : bool) : option (addr * list Z) * arena :=
  let size := Z.of_nat (length data) in
  if size =? 0 then (None, a)
  else
    let asz := ((size + (if null_terminate then 1 else 0) + 7) / 8) * 8 in
    match alloc_oneshot mok a asz with
    | (Some p, a') => (Some (p, data ++ repeat 0 (Z.to_nat (asz - size))), a')
    | (None, a') => (None, a')
    end.

(* Arena::sformat(fmt, ...): vsnprintf into char buf[512] limited to 511 bytes (at most 510 characters and the terminator), then
   dup(buf, length + 1). `text` is what the format expands to. Model = code with fixes/C18-arena-sformat-overflow.patch: the
   length used after vsnprintf is the number of characters really stored (the pinned code used vsnprintf's return value, the
   length the complete output would have, as an index into the 512-byte buffer). *)
Definition arena_sformat (mok : Z -> bool) (a : arena) (text : list Z) : option (addr * list Z) * arena :=
  arena_dup mok a (firstn 510 text ++ [0]) false.

(* ArenaString<N>::set_data: embedded when the size is at most max_embedded, else Arena::dup(.., true) *)
Definition arena_string_set (mok : Z -> bool) (a : arena) (max_embedded : Z) (data : list Z) : option (option addr * list Z) * arena :=
  let size := Z.of_nat (length data) in
  if size <=? max_embedded then (Some (None, data ++ [0]), a)
  else match arena_dup mok a data true with
       | (Some (p, bytes), a') => (Some (Some p, bytes), a')
       | (None, a') => (None, a')
       end.

(* C18 (7), round 5 — ArenaList at full strength: what the operations do NOT change.  ListGeneral.v proves that each
   operation turns a heap representing the list l into a heap representing the expected list; this file adds the frame:
   the link words of every node that is neither a member of the list nor the node handed to the operation are left
   exactly as they were (so two lists over one arena, or a node that sits in another list, are not disturbed). *)
From Coq Require Import ZArith List Bool Lia.
From Verif Require Import Containers.ListModel Containers.ListGeneral.
Import ListNotations.
Local Open Scope Z_scope.

(* the links of a member of the list are members of the list, or the outer ends p / q *)
Lemma dseg_links h : forall l p q x, dseg h p l q -> In x l ->
  (l_prev (lget h x) = p \/ In (l_prev (lget h x)) l) /\ (l_next (lget h x) = q \/ In (l_next (lget h x)) l).
Proof.
  induction l as [|y r IH]; intros p q x Hs Hi; [destruct Hi|].
  cbn [dseg] in Hs. destruct Hs as (S1 & S2 & S3). destruct Hi as [E|Hi].
  - subst y. split; [left; exact S1|]. rewrite S2. destruct r as [|z r']; cbn [hd]; [left; reflexivity|right; right; left; reflexivity].
  - destruct (IH y q x S3 Hi) as [[A|A] [B|B]].
    + split; [right; left; symmetry; exact A|left; exact B].
    + split; [right; left; symmetry; exact A|right; right; exact B].
    + split; [right; right; exact A|left; exact B].
    + split; [right; right; exact A|right; right; exact B].
Qed.

Lemma drep_links d l x : drep d l -> In x l ->
  (l_prev (lget (dl_heap d) x) = 0 \/ In (l_prev (lget (dl_heap d) x)) l) /\
  (l_next (lget (dl_heap d) x) = 0 \/ In (l_next (lget (dl_heap d) x)) l).
Proof. intros (_ & _ & _ & _ & Hs) Hi. exact (dseg_links _ _ _ _ _ Hs Hi). Qed.

Lemma drep_ends d l dir : drep d l -> ends d dir = 0 \/ In (ends d dir) l.
Proof.
  intros (_ & _ & Hf & Hl & _). destruct l as [|x r].
  - left. destruct dir; cbn [ends]; [rewrite Hl|rewrite Hf]; reflexivity.
  - right. destruct dir; cbn [ends]; [rewrite Hl; apply (last_in (x :: r)); discriminate|rewrite Hf; left; reflexivity].
Qed.

Lemma heap_set_end d h dir v : dl_heap (set_end d h dir v) = h.
Proof. destruct dir; reflexivity. Qed.

(* append / prepend *)
Theorem dl_add_frame d l node dir j : drep d l -> ~ In j l -> j <> node ->
  lget (dl_heap (dl_add d node dir)) j = lget (dl_heap d) j.
Proof.
  intros H Hj Hn. unfold dl_add. destruct (drep_ends d l dir H) as [E|E].
  - rewrite E. cbn [Z.eqb dl_heap]. rewrite lget_set_lnk_other by exact Hn. apply lget_lset'_other. exact Hn.
  - destruct (Z.eqb_spec (ends d dir) 0) as [E0|E0].
    + cbn [dl_heap]. rewrite lget_set_lnk_other by exact Hn. apply lget_lset'_other. exact Hn.
    + rewrite heap_set_end. rewrite lget_set_lnk_other by (intros X; apply Hj; rewrite X; exact E).
      rewrite lget_set_lnk_other by exact Hn. apply lget_lset'_other. exact Hn.
Qed.

(* insert_after / insert_before *)
Theorem dl_insert_frame d l ref node dir j : drep d l -> In ref l -> ~ In j l -> j <> node -> ~ In node l ->
  lget (dl_heap (dl_insert d ref node dir)) j = lget (dl_heap d) j.
Proof.
  intros H Hr Hj Hn Hnl. unfold dl_insert.
  set (h0 := lset' (dl_heap d) node (mkln 0 0)).
  assert (Hrn : ref <> node) by (intros X; apply Hnl; rewrite <- X; exact Hr).
  assert (Hjr : j <> ref) by (intros X; apply Hj; rewrite X; exact Hr).
  assert (O0 : forall i, i <> node -> lget h0 i = lget (dl_heap d) i) by (intros i Hi; apply lget_lset'_other; exact Hi).
  assert (Hnext : lnk h0 ref dir = 0 \/ In (lnk h0 ref dir) l).
  { unfold lnk. rewrite O0 by exact Hrn. destruct (drep_links d l ref H Hr) as [A B]. destruct dir; assumption. }
  destruct (Z.eqb_spec (lnk h0 ref dir) 0) as [E0|E0].
  - cbn [dl_heap]. rewrite !lget_set_lnk_other by assumption. apply O0. exact Hn.
  - destruct Hnext as [X|Hnext]; [contradiction|]. cbn [dl_heap]. rewrite 2!lget_set_lnk_other by exact Hn.
    rewrite lget_set_lnk_other by (intros X; apply Hj; rewrite X; exact Hnext).
    rewrite lget_set_lnk_other by exact Hjr. apply O0. exact Hn.
Qed.

(* unlink *)
Theorem dl_unlink_frame d l node j : drep d l -> In node l -> ~ In j l ->
  lget (dl_heap (dl_unlink d node)) j = lget (dl_heap d) j.
Proof.
  intros H Hi Hj. unfold dl_unlink. destruct (drep_links d l node H Hi) as [A B].
  assert (Hjn : j <> node) by (intros X; apply Hj; rewrite X; exact Hi).
  set (h := dl_heap d) in *. set (pv := l_prev (lget h node)) in *. set (nx := l_next (lget h node)) in *.
  destruct (Z.eqb_spec pv 0) as [P0|P0]; destruct (Z.eqb_spec nx 0) as [N0|N0]; cbn [dl_heap];
    rewrite lget_lset'_other by exact Hjn.
  - reflexivity.
  - destruct B as [X|B]; [contradiction|]. apply lget_set_lnk_other. intros X. apply Hj. rewrite X. exact B.
  - destruct A as [X|A]; [contradiction|]. apply lget_set_lnk_other. intros X. apply Hj. rewrite X. exact A.
  - destruct A as [X|A]; [contradiction|]. destruct B as [X|B]; [contradiction|].
    rewrite lget_set_lnk_other by (intros X; apply Hj; rewrite X; exact B).
    apply lget_set_lnk_other. intros X. apply Hj. rewrite X. exact A.
Qed.

(* pop_first / pop *)
Theorem dl_pop_first_frame d l j : drep d l -> l <> [] -> ~ In j l ->
  lget (dl_heap (snd (dl_pop_first d))) j = lget (dl_heap d) j.
Proof.
  intros H Hne Hj. unfold dl_pop_first.
  assert (Hf : In (dl_first d) l).
  { destruct H as (_ & _ & Hf & _). rewrite Hf. apply hd_in. exact Hne. }
  destruct (drep_links d l _ H Hf) as [_ B].
  destruct (Z.eqb_spec (l_next (lget (dl_heap d) (dl_first d))) 0) as [E0|E0]; cbn [snd dl_heap]; [reflexivity|].
  destruct B as [X|B]; [contradiction|].
  rewrite lget_set_lnk_other by (intros X; apply Hj; rewrite X; exact Hf).
  apply lget_set_lnk_other. intros X. apply Hj. rewrite X. exact B.
Qed.

Theorem dl_pop_frame d l j : drep d l -> l <> [] -> ~ In j l ->
  lget (dl_heap (snd (dl_pop d))) j = lget (dl_heap d) j.
Proof.
  intros H Hne Hj. unfold dl_pop.
  assert (Hf : In (dl_last d) l).
  { destruct H as (_ & _ & _ & Hl & _). rewrite Hl. apply last_in. exact Hne. }
  destruct (drep_links d l _ H Hf) as [A _].
  destruct (Z.eqb_spec (l_prev (lget (dl_heap d) (dl_last d))) 0) as [E0|E0]; cbn [snd dl_heap]; [reflexivity|].
  destruct A as [X|A]; [contradiction|].
  rewrite lget_set_lnk_other by (intros X; apply Hj; rewrite X; exact Hf).
  apply lget_set_lnk_other. intros X. apply Hj. rewrite X. exact A.
Qed.

(* two lists over one node heap: an operation on the first keeps the representation of the second *)
Theorem dl_add_keeps_other_list d l node dir l' f' t' : drep d l -> ~ In node l' -> (forall x, In x l' -> ~ In x l) ->
  drep (mkdl (dl_heap d) f' t') l' -> drep (mkdl (dl_heap (dl_add d node dir)) f' t') l'.
Proof.
  intros H Hn Hd (N & Z0 & Hf & Hl & Hs). unfold drep. cbn [dl_heap dl_first dl_last] in *.
  split; [exact N|]. split; [exact Z0|]. split; [exact Hf|]. split; [exact Hl|].
  apply (dseg_frame (dl_heap d)); [|exact Hs]. intros x Hx. apply (dl_add_frame d l node dir x H (Hd x Hx)).
  intros X. apply Hn. rewrite <- X. exact Hx.
Qed.

(* the walks read the list back for EVERY fuel above its length (round 6: the 1000 of dl_forward / dl_backward is only the fuel
   the executable model happens to use) *)
Theorem dl_walks_any_fuel d l fuel : drep d l -> (length l < fuel)%nat ->
  walk fuel (dl_heap d) (dl_first d) true = l /\ walk fuel (dl_heap d) (dl_last d) false = rev l.
Proof.
  intros H Hlen. pose proof H as (N & Z0 & Hf & Hl & Hs). split.
  - rewrite Hf. apply (walk_forward _ l 0 fuel Hs Z0 Hlen).
  - apply drep_mirror in H. destruct H as (_ & Z0' & Hf' & _ & Hs'). cbn [mirror dl_first dl_heap] in Hf', Hs'.
    rewrite Hf'. change false with (negb true). rewrite <- walk_mh.
    apply (walk_forward _ (rev l) 0 fuel Hs' Z0'). rewrite rev_length. exact Hlen.
Qed.

(* C18 (7) — ArenaList, UNBOUNDED: the intrusive doubly linked list over a node heap represents an abstract list of distinct
   non-null node ids; append / prepend, insert_after / insert_before, unlink, pop_first / pop are the textbook list operations
   (lists of any length), and the walks in both directions read the list back. *)
From Coq Require Import ZArith List Bool Lia Permutation.
From Verif Require Import Containers.ArenaModel Containers.ListModel.
Import ListNotations.
Local Open Scope Z_scope.

(* ---- the heap as a map *)
Lemma lget_lset_same h : forall id n, lget (lset h id n) id = n.
Proof.
  induction h as [|[i m] h IH]; intros id n; cbn [lset lget].
  - rewrite Z.eqb_refl. reflexivity.
  - destruct (Z.eqb_spec i id); cbn [lget]; [subst; rewrite Z.eqb_refl; reflexivity|].
    destruct (Z.eqb_spec i id); [contradiction|]. apply IH.
Qed.
Lemma lget_lset_other h : forall id n j, j <> id -> lget (lset h id n) j = lget h j.
Proof.
  induction h as [|[i m] h IH]; intros id n j Hne; cbn [lset lget].
  - destruct (Z.eqb_spec id j); [congruence|reflexivity].
  - destruct (Z.eqb_spec i id); cbn [lget].
    + subst. destruct (Z.eqb_spec id j); [congruence|reflexivity].
    + destruct (i =? j); [reflexivity|]. apply IH. exact Hne.
Qed.
Lemma lget_lset'_same h id n : id <> 0 -> lget (lset' h id n) id = n.
Proof. intros H. unfold lset'. destruct (Z.eqb_spec id 0); [contradiction|]. apply lget_lset_same. Qed.
Lemma lget_lset'_other h id n j : j <> id -> lget (lset' h id n) j = lget h j.
Proof. intros H. unfold lset'. destruct (id =? 0); [reflexivity|]. apply lget_lset_other. exact H. Qed.

(* node x of the list: its links are its neighbours (0 at the ends) *)
Fixpoint dseg (h : lheap) (p : Z) (l : list Z) (q : Z) : Prop :=
  match l with
  | [] => True
  | x :: r => l_prev (lget h x) = p /\ l_next (lget h x) = hd q r /\ dseg h x r q
  end.

Definition drep (d : dlist) (l : list Z) : Prop :=
  NoDup l /\ ~ In 0 l /\ dl_first d = hd 0 l /\ dl_last d = last l 0 /\ dseg (dl_heap d) 0 l 0.

Lemma dseg_frame h h' : forall l p q, (forall x, In x l -> lget h' x = lget h x) -> dseg h p l q -> dseg h' p l q.
Proof.
  induction l as [|x r IH]; intros p q Hs H; cbn [dseg] in *; [exact I|].
  destruct H as (H1 & H2 & H3). rewrite (Hs x (or_introl eq_refl)). split; [exact H1|]. split; [exact H2|].
  apply IH; [|exact H3]. intros y Hy. apply Hs. right. exact Hy.
Qed.

Lemma last_cons (r : list Z) : forall x p, last (x :: r) p = last r x.
Proof.
  induction r as [|y r IH]; intros x p; [reflexivity|]. change (last (x :: y :: r) p) with (last (y :: r) p).
  rewrite (IH y p), (IH y x). reflexivity.
Qed.

Lemma dseg_app h : forall l1 l2 p q, dseg h p (l1 ++ l2) q <-> dseg h p l1 (hd q l2) /\ dseg h (last l1 p) l2 q.
Proof.
  induction l1 as [|x r IH]; intros l2 p q.
  - cbn [app dseg last]. tauto.
  - change ((x :: r) ++ l2) with (x :: (r ++ l2)). cbn [dseg]. rewrite IH.
    assert (E1 : hd q (r ++ l2) = hd (hd q l2) r) by (destruct r; reflexivity).
    assert (E2 : last (x :: r) p = last r x) by apply last_cons.
    rewrite E1, E2. tauto.
Qed.

(* ---- mirror symmetry: swapping prev/next and first/last reverses the list *)
Definition swapn (n : lnode) : lnode := mkln (l_next n) (l_prev n).
Definition mh (h : lheap) : lheap := map (fun p => (fst p, swapn (snd p))) h.
Definition mirror (d : dlist) : dlist := mkdl (mh (dl_heap d)) (dl_last d) (dl_first d).

Lemma lget_mh h : forall id, lget (mh h) id = swapn (lget h id).
Proof. induction h as [|[i n] h IH]; intros id; cbn [mh map lget fst snd]; [reflexivity|]. destruct (i =? id); [reflexivity|apply IH]. Qed.
Lemma mh_lset h : forall id n, mh (lset h id n) = lset (mh h) id (swapn n).
Proof.
  induction h as [|[i m] h IH]; intros id n; cbn [mh map lset fst snd]; [reflexivity|].
  destruct (i =? id); cbn [map fst snd]; [reflexivity|]. f_equal. apply IH.
Qed.
Lemma mh_lset' h id n : mh (lset' h id n) = lset' (mh h) id (swapn n).
Proof. unfold lset'. destruct (id =? 0); [reflexivity|apply mh_lset]. Qed.
Lemma mh_mh h : mh (mh h) = h.
Proof. induction h as [|[i [a b]] h IH]; cbn; [reflexivity|]. f_equal. exact IH. Qed.
Lemma mirror_mirror d : mirror (mirror d) = d.
Proof. destruct d. unfold mirror. cbn. rewrite mh_mh. reflexivity. Qed.
Lemma lnk_mh h id dir : lnk (mh h) id dir = lnk h id (negb dir).
Proof. unfold lnk. rewrite lget_mh. destruct dir; reflexivity. Qed.
Lemma set_lnk_mh h id dir v : set_lnk (mh h) id dir v = mh (set_lnk h id (negb dir) v).
Proof. unfold set_lnk. rewrite mh_lset', lget_mh. destruct dir; reflexivity. Qed.

Lemma last_rev (l : list Z) q : last (rev l) q = hd q l.
Proof. destruct l as [|x r]; [reflexivity|]. cbn [rev hd]. apply last_last. Qed.
Lemma hd_rev (l : list Z) q : hd q (rev l) = last l q.
Proof. rewrite <- (rev_involutive l) at 2. rewrite last_rev. reflexivity. Qed.

Lemma dseg_mirror h : forall l p q, dseg h p l q <-> dseg (mh h) q (rev l) p.
Proof.
  induction l as [|x r IH]; intros p q; [cbn; tauto|].
  cbn [rev dseg]. rewrite dseg_app, (IH x q). cbn [dseg hd]. rewrite last_rev, !lget_mh. cbn [swapn l_prev l_next]. tauto.
Qed.

Lemma drep_mirror d l : drep d l <-> drep (mirror d) (rev l).
Proof.
  unfold drep, mirror. cbn [dl_heap dl_first dl_last]. rewrite hd_rev, last_rev, <- dseg_mirror.
  split; intros (H1 & H2 & H3 & H4 & H5); (split; [|split; [|split; [|split]]]); auto.
  - apply NoDup_rev. exact H1.
  - intros Hc. apply H2. apply in_rev. exact Hc.
  - rewrite <- (rev_involutive l). apply NoDup_rev. exact H1.
  - intros Hc. apply H2. apply in_rev in Hc. exact Hc.
Qed.

(* ---- operations commute with the mirror *)
Lemma ends_mirror d dir : ends (mirror d) dir = ends d (negb dir).
Proof. destruct dir; reflexivity. Qed.
Lemma set_end_mirror d h dir v : set_end (mirror d) (mh h) dir v = mirror (set_end d h (negb dir) v).
Proof. destruct dir; reflexivity. Qed.

Lemma mh_fresh h node : lset' (mh h) node (mkln 0 0) = mh (lset' h node (mkln 0 0)).
Proof. rewrite mh_lset'. reflexivity. Qed.

Lemma dl_add_mirror d node dir : dl_add (mirror d) node dir = mirror (dl_add d node (negb dir)).
Proof.
  unfold dl_add. rewrite ends_mirror. cbn [mirror dl_heap]. rewrite mh_fresh, !set_lnk_mh, negb_involutive.
  destruct (ends d (negb dir) =? 0); [reflexivity|]. fold (mirror d). rewrite set_end_mirror. reflexivity.
Qed.

Lemma dl_insert_mirror d ref node dir : dl_insert (mirror d) ref node dir = mirror (dl_insert d ref node (negb dir)).
Proof.
  unfold dl_insert. cbn [mirror dl_heap]. rewrite mh_fresh, lnk_mh, !set_lnk_mh.
  set (h0 := lset' (dl_heap d) node (mkln 0 0)).
  destruct (lnk h0 ref (negb dir) =? 0).
  - fold (mirror d). rewrite set_end_mirror, !set_lnk_mh, negb_involutive. destruct dir; reflexivity.
  - rewrite !set_lnk_mh, negb_involutive. reflexivity.
Qed.

Lemma dl_pop_mirror d : dl_pop (mirror d) = (fst (dl_pop_first d), mirror (snd (dl_pop_first d))).
Proof.
  unfold dl_pop, dl_pop_first. cbn [mirror dl_heap dl_first dl_last]. rewrite lget_mh. cbn [swapn l_prev].
  destruct (l_next (lget (dl_heap d) (dl_first d)) =? 0); cbn [fst snd]; [reflexivity|]. rewrite !set_lnk_mh. reflexivity.
Qed.

(* ---- the operations *)
Lemma lget_set_lnk_same h id dir v : id <> 0 ->
  lget (set_lnk h id dir v) id = if dir then mkln (l_prev (lget h id)) v else mkln v (l_next (lget h id)).
Proof. intros H. unfold set_lnk. apply lget_lset'_same. exact H. Qed.
Lemma lget_set_lnk_other h id dir v j : j <> id -> lget (set_lnk h id dir v) j = lget h j.
Proof. intros H. unfold set_lnk. apply lget_lset'_other. exact H. Qed.

Theorem dl_prepend_sound d l node : drep d l -> node <> 0 -> ~ In node l -> drep (dl_add d node false) (node :: l).
Proof.
  intros (N & Z0 & Hf & Hl & Hs) Hn Hni. unfold dl_add. cbn [ends negb]. rewrite Hf.
  set (h0 := lset' (dl_heap d) node (mkln 0 0)).
  assert (G0 : lget h0 node = mkln 0 0) by (apply lget_lset'_same; exact Hn).
  assert (O0 : forall j, j <> node -> lget h0 j = lget (dl_heap d) j) by (intros j Hj; apply lget_lset'_other; exact Hj).
  destruct l as [|z r]; cbn [hd].
  - cbn [Z.eqb]. unfold drep. cbn [dl_heap dl_first dl_last hd last dseg].
    split; [constructor; [intros []|constructor]|]. split; [intros [H|[]]; congruence|]. split; [reflexivity|]. split; [reflexivity|].
    rewrite lget_set_lnk_same by exact Hn. rewrite G0. cbn. auto.
  - assert (Hz0 : z <> 0) by (intros E; apply Z0; left; exact E).
    assert (Hzn : z <> node) by (intros E; apply Hni; left; exact E).
    destruct (Z.eqb_spec z 0); [contradiction|]. cbn [set_end].
    apply NoDup_cons_iff in N. destruct N as [Nz Nr]. cbn [dseg] in Hs. destruct Hs as (S1 & S2 & S3).
    unfold drep. cbn [dl_heap dl_first dl_last hd].
    split; [constructor; [exact Hni|constructor; assumption]|]. split; [intros [H|H]; [congruence|exact (Z0 H)]|]. split; [reflexivity|].
    split; [rewrite Hl, (last_cons (z :: r) node 0), (last_cons r z node), (last_cons r z 0); reflexivity|].
    set (h1 := set_lnk h0 node true z). set (h2 := set_lnk h1 z false node).
    assert (Gn : lget h2 node = mkln 0 z).
    { unfold h2. rewrite lget_set_lnk_other by congruence. unfold h1. rewrite lget_set_lnk_same by exact Hn. rewrite G0. reflexivity. }
    assert (Gz : lget h2 z = mkln node (l_next (lget (dl_heap d) z))).
    { unfold h2. rewrite lget_set_lnk_same by exact Hz0. unfold h1. rewrite lget_set_lnk_other by exact Hzn. rewrite O0 by exact Hzn. reflexivity. }
    cbn [dseg hd]. rewrite Gn, Gz. cbn [l_prev l_next]. split; [reflexivity|]. split; [reflexivity|]. split; [reflexivity|]. split; [exact S2|].
    apply (dseg_frame (dl_heap d)); [|exact S3]. intros x Hx. unfold h2, h1.
    rewrite lget_set_lnk_other by (intros E; apply Nz; rewrite <- E; exact Hx).
    rewrite lget_set_lnk_other by (intros E; apply Hni; right; rewrite <- E; exact Hx).
    apply O0. intros E. apply Hni. right. rewrite <- E. exact Hx.
Qed.

Theorem dl_append_sound d l node : drep d l -> node <> 0 -> ~ In node l -> drep (dl_add d node true) (l ++ [node]).
Proof.
  intros H Hn Hni. apply drep_mirror. rewrite rev_app_distr. cbn [rev app].
  change true with (negb false). rewrite <- dl_add_mirror. apply dl_prepend_sound; [apply drep_mirror in H; exact H|exact Hn|].
  intros Hc. apply Hni. apply in_rev. exact Hc.
Qed.

Lemma last_ne (l : list Z) a b : l <> [] -> last l a = last l b.
Proof. destruct l as [|x l]; [intros H; contradiction|]. intros _. rewrite !last_cons. reflexivity. Qed.
Lemma last_app_cons (l1 : list Z) x r p : last (l1 ++ x :: r) p = last (x :: r) p.
Proof.
  induction l1 as [|a l1 IH]; [reflexivity|]. change ((a :: l1) ++ x :: r) with (a :: (l1 ++ x :: r)).
  rewrite last_cons, <- IH. apply last_ne. destruct l1; discriminate.
Qed.
Lemma hd_app_cons (l1 : list Z) x r p : hd p (l1 ++ x :: r) = hd x l1.
Proof. destruct l1; reflexivity. Qed.

Lemma nodup_app_parts' (l1 l2 : list Z) : NoDup (l1 ++ l2) -> NoDup l1 /\ NoDup l2 /\ (forall a, In a l1 -> ~ In a l2).
Proof.
  induction l1 as [|a l1 IH]; cbn [app]; intros H; [split; [constructor|split; [exact H|intros ? []]]|].
  apply NoDup_cons_iff in H. destruct H as [Ha H]. destruct (IH H) as (H1 & H2 & H3). split; [|split; [exact H2|]].
  - constructor; [intros Hc; apply Ha; apply in_or_app; left; exact Hc|exact H1].
  - intros b [<-|Hb]; [intros Hc; apply Ha; apply in_or_app; right; exact Hc|apply H3; exact Hb].
Qed.

Lemma nodup_split3 (l1 : list Z) x l2 : NoDup (l1 ++ x :: l2) ->
  NoDup l1 /\ NoDup l2 /\ ~ In x l1 /\ ~ In x l2 /\ (forall a, In a l1 -> ~ In a l2).
Proof.
  intros N. pose proof (NoDup_remove_2 _ _ _ N) as Nx. apply NoDup_remove_1 in N.
  destruct (nodup_app_parts' _ _ N) as (H1 & H2 & H3). split; [exact H1|]. split; [exact H2|].
  split; [intros H; apply Nx; apply in_or_app; left; exact H|]. split; [intros H; apply Nx; apply in_or_app; right; exact H|exact H3].
Qed.

Lemma nodup_insert_mid' (x : Z) L R : NoDup (L ++ R) -> ~ In x (L ++ R) -> NoDup (L ++ x :: R).
Proof. intros H1 H2. apply (Permutation_NoDup (l := x :: L ++ R)); [apply Permutation_middle|]. constructor; assumption. Qed.

Theorem dl_insert_after_sound d l1 ref l2 node : drep d (l1 ++ ref :: l2) -> node <> 0 -> ~ In node (l1 ++ ref :: l2) ->
  drep (dl_insert d ref node true) (l1 ++ ref :: node :: l2).
Proof.
  intros (N & Z0 & Hf & Hl & Hs) Hn Hni. unfold dl_insert. cbn [negb].
  set (h := dl_heap d) in *.
  set (h0 := lset' h node (mkln 0 0)).
  assert (Hrn : ref <> node) by (intros E; apply Hni; apply in_or_app; right; left; exact E).
  assert (Hr0 : ref <> 0) by (intros E; apply Z0; apply in_or_app; right; left; exact E).
  assert (G0 : lget h0 node = mkln 0 0) by (apply lget_lset'_same; exact Hn).
  assert (O0 : forall j, j <> node -> lget h0 j = lget h j) by (intros j Hj; apply lget_lset'_other; exact Hj).
  apply dseg_app in Hs. destruct Hs as [S1 S2]. cbn [dseg hd] in S1, S2. destruct S2 as (R1 & R2 & S3).
  assert (Enext : lnk h0 ref true = hd 0 l2) by (unfold lnk; rewrite O0 by exact Hrn; exact R2).
  rewrite Enext.
  destruct (nodup_split3 _ _ _ N) as (N1 & N2 & X1 & X2 & D12).
  assert (Hn1 : forall x, In x l1 -> x <> node) by (intros x Hx ->; apply Hni; apply in_or_app; left; exact Hx).
  assert (Hn2 : forall x, In x l2 -> x <> node) by (intros x Hx ->; apply Hni; apply in_or_app; right; right; exact Hx).
  assert (NewN : NoDup (l1 ++ ref :: node :: l2)).
  { change (l1 ++ ref :: node :: l2) with (l1 ++ [ref] ++ node :: l2). rewrite app_assoc. apply nodup_insert_mid'.
    - rewrite <- app_assoc. exact N.
    - rewrite <- app_assoc. exact Hni. }
  assert (NewZ : ~ In 0 (l1 ++ ref :: node :: l2)).
  { intros Hc. apply in_app_or in Hc. destruct Hc as [Hc|[Hc|[Hc|Hc]]]; [apply Z0; apply in_or_app; left; exact Hc|congruence|congruence|apply Z0; apply in_or_app; right; right; exact Hc]. }
  set (h1 := set_lnk h0 ref true node).
  assert (G1r : lget h1 ref = mkln (l_prev (lget h ref)) node) by (unfold h1; rewrite lget_set_lnk_same by exact Hr0; rewrite O0 by exact Hrn; reflexivity).
  destruct l2 as [|y r2]; cbn [hd] in *.
  - cbn [Z.eqb set_end dl_first dl_last]. set (h3 := set_lnk (set_lnk h1 node false ref) node true 0).
    assert (Gn : lget h3 node = mkln ref 0) by (unfold h3; rewrite !lget_set_lnk_same by exact Hn; reflexivity).
    assert (Gr : lget h3 ref = mkln (l_prev (lget h ref)) node) by (unfold h3; rewrite !lget_set_lnk_other by exact Hrn; exact G1r).
    assert (Go : forall x, x <> ref -> x <> node -> lget h3 x = lget h x).
    { intros x H1 H2. unfold h3, h1. rewrite !lget_set_lnk_other by assumption. apply O0. exact H2. }
    unfold drep. cbn [dl_heap dl_first dl_last]. split; [exact NewN|]. split; [exact NewZ|].
    split; [rewrite Hf, !hd_app_cons; reflexivity|]. split; [rewrite !last_app_cons, (last_cons [node] ref 0); reflexivity|].
    apply dseg_app. cbn [hd dseg]. split.
    + apply (dseg_frame h); [|exact S1]. intros x Hx. apply Go; [intros ->; contradiction|apply Hn1; exact Hx].
    + rewrite Gr, Gn. cbn [l_prev l_next]. auto.
  - assert (Hy0 : y <> 0) by (intros E; apply Z0; apply in_or_app; right; right; left; exact E).
    destruct (Z.eqb_spec y 0); [contradiction|].
    assert (Hyr : y <> ref) by (intros E; apply X2; left; exact E).
    assert (Hyn : y <> node) by (apply Hn2; left; reflexivity).
    set (h2 := set_lnk h1 y false node). set (h3 := set_lnk (set_lnk h2 node false ref) node true y).
    assert (Gn : lget h3 node = mkln ref y) by (unfold h3; rewrite !lget_set_lnk_same by exact Hn; reflexivity).
    assert (Gr : lget h3 ref = mkln (l_prev (lget h ref)) node).
    { unfold h3. rewrite !lget_set_lnk_other by exact Hrn. unfold h2. rewrite lget_set_lnk_other by congruence. exact G1r. }
    assert (Gy : lget h3 y = mkln node (l_next (lget h y))).
    { unfold h3. rewrite !lget_set_lnk_other by exact Hyn. unfold h2. rewrite lget_set_lnk_same by exact Hy0.
      unfold h1. rewrite lget_set_lnk_other by exact Hyr. rewrite O0 by exact Hyn. reflexivity. }
    assert (Go : forall x, x <> ref -> x <> node -> x <> y -> lget h3 x = lget h x).
    { intros x H1 H2 H3. unfold h3, h2, h1. rewrite !lget_set_lnk_other by assumption. apply O0. exact H2. }
    cbn [dseg] in S3. destruct S3 as (Y1 & Y2 & S4). apply NoDup_cons_iff in N2. destruct N2 as [Ny N2].
    unfold drep. cbn [dl_heap dl_first dl_last]. split; [exact NewN|]. split; [exact NewZ|].
    split; [rewrite Hf, !hd_app_cons; reflexivity|].
    split; [rewrite Hl, !last_app_cons, (last_cons (node :: y :: r2) ref 0), (last_cons (y :: r2) node ref), (last_cons (y :: r2) ref 0); rewrite !(last_cons r2 y); reflexivity|].
    apply dseg_app. cbn [hd dseg]. split.
    + apply (dseg_frame h); [|exact S1]. intros x Hx. apply Go; [intros ->; contradiction|apply Hn1; exact Hx|intros ->; apply (D12 y Hx); left; reflexivity].
    + rewrite Gr, Gn, Gy. cbn [l_prev l_next]. split; [exact R1|]. split; [reflexivity|]. split; [reflexivity|]. split; [reflexivity|]. split; [reflexivity|]. split; [exact Y2|].
      apply (dseg_frame h); [|exact S4]. intros x Hx. apply Go.
      * intros ->. apply X2. right. exact Hx.
      * apply Hn2. right. exact Hx.
      * intros ->. contradiction.
Qed.

Theorem dl_insert_before_sound d l1 ref l2 node : drep d (l1 ++ ref :: l2) -> node <> 0 -> ~ In node (l1 ++ ref :: l2) ->
  drep (dl_insert d ref node false) (l1 ++ node :: ref :: l2).
Proof.
  intros H Hn Hni. apply drep_mirror.
  assert (E1 : rev (l1 ++ node :: ref :: l2) = rev l2 ++ ref :: node :: rev l1).
  { rewrite rev_app_distr. cbn [rev]. rewrite <- !app_assoc. reflexivity. }
  assert (E2 : rev (l1 ++ ref :: l2) = rev l2 ++ ref :: rev l1).
  { rewrite rev_app_distr. cbn [rev]. rewrite <- !app_assoc. reflexivity. }
  rewrite E1. change false with (negb true). rewrite <- dl_insert_mirror.
  apply dl_insert_after_sound; [rewrite <- E2; apply drep_mirror in H; exact H|exact Hn|].
  rewrite <- E2. intros Hc. apply Hni. apply in_rev. exact Hc.
Qed.

(* ---- unlink *)
Lemma dseg_set_head h h' y r p p' q : dseg h p (y :: r) q -> ~ In y r ->
  lget h' y = mkln p' (l_next (lget h y)) -> (forall x, In x r -> lget h' x = lget h x) -> dseg h' p' (y :: r) q.
Proof.
  cbn [dseg]. intros (H1 & H2 & H3) Hy Gy Go. rewrite Gy. cbn [l_prev l_next]. split; [reflexivity|]. split; [exact H2|].
  apply (dseg_frame h); assumption.
Qed.

Lemma dseg_set_tail h h' : forall l p q q', NoDup l -> dseg h p l q ->
  (forall x, In x l -> x <> last l 0 -> lget h' x = lget h x) ->
  (l <> [] -> lget h' (last l 0) = mkln (l_prev (lget h (last l 0))) q') -> dseg h' p l q'.
Proof.
  induction l as [|x r IH]; intros p q q' N H Go Gl; cbn [dseg] in *; [exact I|].
  destruct H as (H1 & H2 & H3). apply NoDup_cons_iff in N. destruct N as [Nx N].
  destruct r as [|y r'].
  - cbn [last] in Gl. rewrite (Gl ltac:(discriminate)). cbn [l_prev l_next hd]. auto.
  - assert (Ex : x <> last (x :: y :: r') 0).
    { rewrite last_cons. intros E. apply Nx. rewrite E. destruct (exists_last (l := y :: r') ltac:(discriminate)) as (l' & a & El).
      rewrite El. rewrite last_last. apply in_or_app. right. left. reflexivity. }
    rewrite (Go x (or_introl eq_refl) Ex). split; [exact H1|]. split; [exact H2|].
    apply (IH x q q' N H3).
    + intros z Hz Hne. apply Go; [right; exact Hz|]. rewrite last_cons. rewrite (last_ne (y :: r') x 0 ltac:(discriminate)). exact Hne.
    + intros _. rewrite last_cons, (last_ne (y :: r') x 0 ltac:(discriminate)) in Gl. apply Gl. discriminate.
Qed.

Lemma last_in (l : list Z) : l <> [] -> In (last l 0) l.
Proof. intros H. destruct (exists_last H) as (l' & a & ->). rewrite last_last. apply in_or_app. right. left. reflexivity. Qed.
Lemma hd_in (l : list Z) : l <> [] -> In (hd 0 l) l.
Proof. destruct l; [intros H; contradiction|]. intros _. left. reflexivity. Qed.

Theorem dl_unlink_sound d l1 node l2 : drep d (l1 ++ node :: l2) ->
  drep (dl_unlink d node) (l1 ++ l2) /\ lget (dl_heap (dl_unlink d node)) node = mkln 0 0.
Proof.
  intros (N & Z0 & Hf & Hl & Hs). unfold dl_unlink. set (h := dl_heap d) in *.
  apply dseg_app in Hs. destruct Hs as [S1 S2]. cbn [dseg hd] in S1, S2. destruct S2 as (R1 & R2 & S3). rewrite R1, R2.
  set (a := last l1 0). set (y := hd 0 l2).
  destruct (nodup_split3 _ _ _ N) as (N1 & N2 & X1 & X2 & D12).
  assert (Hn0 : node <> 0) by (intros E; apply Z0; apply in_or_app; right; left; exact E).
  assert (Ha : l1 <> [] -> In a l1 /\ a <> 0 /\ a <> node).
  { intros H. pose proof (last_in l1 H) as Hi. fold a in Hi. split; [exact Hi|]. split; [intros E; apply Z0; apply in_or_app; left; rewrite <- E; exact Hi|intros E; apply X1; rewrite <- E; exact Hi]. }
  assert (Hy : l2 <> [] -> In y l2 /\ y <> 0 /\ y <> node).
  { intros H. pose proof (hd_in l2 H) as Hi. fold y in Hi. split; [exact Hi|]. split; [intros E; apply Z0; apply in_or_app; right; right; rewrite <- E; exact Hi|intros E; apply X2; rewrite <- E; exact Hi]. }
  assert (Ea : a = 0 <-> l1 = []).
  { split; [|intros ->; reflexivity]. intros E. destruct l1 as [|b l1']; [reflexivity|]. destruct (Ha ltac:(discriminate)) as (_ & H & _). contradiction. }
  assert (Ey : y = 0 <-> l2 = []).
  { split; [|intros ->; reflexivity]. intros E. destruct l2 as [|b l2']; [reflexivity|]. destruct (Hy ltac:(discriminate)) as (_ & H & _). contradiction. }
  set (h1 := if a =? 0 then h else set_lnk h a true y).
  set (h2 := if y =? 0 then h1 else set_lnk h1 y false a).
  assert (Eheap : forall f1 f2, dl_heap (let '(h1', f) := if a =? 0 then (h, f1) else (set_lnk h a true y, f2) in
                    let '(h2', l) := if y =? 0 then (h1', a) else (set_lnk h1' y false a, dl_last d) in
                    mkdl (lset' h2' node (mkln 0 0)) f l) = lset' h2 node (mkln 0 0)).
  { intros f1 f2. unfold h2, h1. destruct (a =? 0); destruct (y =? 0); reflexivity. }
  assert (Efirst : forall hh, dl_first (let '(h1', f) := if a =? 0 then (h, y) else (set_lnk h a true y, dl_first d) in
                    let '(h2', l) := if y =? 0 then (h1', a) else (set_lnk h1' y false a, dl_last d) in
                    mkdl (hh h2') f l) = hd 0 (l1 ++ l2)).
  { intros hh. destruct (Z.eqb_spec a 0) as [E1|E1].
    - apply Ea in E1. subst l1. cbn [app]. destruct (y =? 0); reflexivity.
    - assert (l1 <> []) by (intros E; apply E1; apply Ea; exact E). destruct (y =? 0); cbn [dl_first]; rewrite Hf; destruct l1; [contradiction|reflexivity|contradiction|reflexivity]. }
  assert (Elast : forall hh, dl_last (let '(h1', f) := if a =? 0 then (h, y) else (set_lnk h a true y, dl_first d) in
                    let '(h2', l) := if y =? 0 then (h1', a) else (set_lnk h1' y false a, dl_last d) in
                    mkdl (hh h2') f l) = last (l1 ++ l2) 0).
  { intros hh. destruct (Z.eqb_spec y 0) as [E1|E1].
    - apply Ey in E1. subst l2. rewrite app_nil_r. destruct (a =? 0); reflexivity.
    - assert (Hne : l2 <> []) by (intros E; apply E1; apply Ey; exact E). destruct l2 as [|b l2']; [contradiction|].
      destruct (a =? 0); cbn [dl_last]; rewrite Hl, !last_app_cons, (last_cons (b :: l2') node 0); apply last_ne; discriminate. }
  set (hf := lset' h2 node (mkln 0 0)).
  assert (Gnode : lget hf node = mkln 0 0) by (apply lget_lset'_same; exact Hn0).
  assert (Go : forall x, x <> node -> x <> a -> x <> y -> lget hf x = lget h x).
  { intros x H1 H2 H3. unfold hf. rewrite lget_lset'_other by exact H1. unfold h2, h1.
    destruct (y =? 0); destruct (a =? 0); rewrite ?lget_set_lnk_other by assumption; reflexivity. }
  assert (Hay : l1 <> [] -> l2 <> [] -> a <> y).
  { intros H1 H2 E. destruct (Ha H1) as (I1 & _). destruct (Hy H2) as (I2 & _). apply (D12 a I1). rewrite E. exact I2. }
  assert (Ga : l1 <> [] -> lget hf a = mkln (l_prev (lget h a)) y).
  { intros H. destruct (Ha H) as (_ & A0 & An). unfold hf. rewrite lget_lset'_other by exact An. unfold h2, h1.
    assert (E1 : (a =? 0) = false) by (apply Z.eqb_neq; exact A0). rewrite E1.
    destruct (Z.eqb_spec y 0) as [E2|E2].
    - rewrite lget_set_lnk_same by exact A0. reflexivity.
    - assert (H2 : l2 <> []) by (intros E; apply E2; apply Ey; exact E).
      rewrite lget_set_lnk_other by (apply Hay; assumption). rewrite lget_set_lnk_same by exact A0. reflexivity. }
  assert (Gy : l2 <> [] -> lget hf y = mkln a (l_next (lget h y))).
  { intros H. destruct (Hy H) as (_ & Y0 & Yn). unfold hf. rewrite lget_lset'_other by exact Yn. unfold h2.
    assert (E1 : (y =? 0) = false) by (apply Z.eqb_neq; exact Y0). rewrite E1. rewrite lget_set_lnk_same by exact Y0. unfold h1.
    destruct (Z.eqb_spec a 0) as [E2|E2]; [reflexivity|].
    assert (H1 : l1 <> []) by (intros E; apply E2; apply Ea; exact E).
    rewrite lget_set_lnk_other by (intros E; apply (Hay H1 H); symmetry; exact E). reflexivity. }
  split; [|rewrite Eheap; exact Gnode].
  unfold drep. rewrite Eheap, Efirst, Elast.
  split; [apply NoDup_remove_1 in N; exact N|]. split; [intros Hc; apply Z0; apply in_app_or in Hc; apply in_or_app; destruct Hc as [Hc|Hc]; [left; exact Hc|right; right; exact Hc]|].
  split; [reflexivity|]. split; [reflexivity|]. fold hf.
  apply dseg_app. fold a y. split.
  - apply (dseg_set_tail h hf l1 0 node y N1 S1).
    + intros x Hx Hne. fold a in Hne. apply Go; [intros ->; contradiction|exact Hne|].
      intros E. destruct l2 as [|b l2']; [subst y; cbn in E; apply Z0; apply in_or_app; left; rewrite <- E; exact Hx|].
      apply (D12 x Hx). rewrite E. left. reflexivity.
    + intros H. fold a. apply Ga. exact H.
  - destruct l2 as [|b r]; [exact I|]. cbn [hd] in y. apply NoDup_cons_iff in N2. destruct N2 as [Nb N2].
    apply (dseg_set_head h hf b r node a 0 S3 Nb).
    + apply (Gy ltac:(discriminate)).
    + intros x Hx. apply Go.
      * intros ->. apply X2. right. exact Hx.
      * intros E. destruct l1 as [|c l1']; [subst a; cbn in E; apply Z0; apply in_or_app; right; right; right; rewrite <- E; exact Hx|].
        destruct (Ha ltac:(discriminate)) as (Ia & _). apply (D12 a Ia). rewrite <- E. right. exact Hx.
      * intros ->. contradiction.
Qed.

(* ---- pop_first / pop *)
Theorem dl_pop_first_sound d x r : drep d (x :: r) -> fst (dl_pop_first d) = x /\ drep (snd (dl_pop_first d)) r.
Proof.
  intros (N & Z0 & Hf & Hl & Hs). unfold dl_pop_first. cbn [hd] in Hf. rewrite Hf. cbn [dseg] in Hs. destruct Hs as (S1 & S2 & S3). rewrite S2.
  apply NoDup_cons_iff in N. destruct N as [Nx N].
  assert (Hx0 : x <> 0) by (intros E; apply Z0; left; exact E).
  destruct r as [|y r']; cbn [hd].
  - cbn [Z.eqb fst snd]. split; [reflexivity|]. unfold drep. cbn. repeat split; auto.
  - assert (Hy0 : y <> 0) by (intros E; apply Z0; right; left; exact E).
    destruct (Z.eqb_spec y 0); [contradiction|]. cbn [fst snd]. split; [reflexivity|].
    assert (Hyx : y <> x) by (intros E; apply Nx; left; exact E).
    set (hf := set_lnk (set_lnk (dl_heap d) y false 0) x true 0).
    unfold drep. cbn [dl_heap dl_first dl_last hd]. split; [exact N|]. split; [intros Hc; apply Z0; right; exact Hc|]. split; [reflexivity|].
    split; [rewrite Hl, (last_cons (y :: r') x 0); apply last_ne; discriminate|].
    apply NoDup_cons_iff in N. destruct N as [Ny N].
    apply (dseg_set_head (dl_heap d) hf y r' x 0 0 S3 Ny).
    + unfold hf. rewrite lget_set_lnk_other by exact Hyx. rewrite lget_set_lnk_same by exact Hy0. reflexivity.
    + intros z Hz. unfold hf. rewrite lget_set_lnk_other by (intros E; apply Nx; right; rewrite <- E; exact Hz).
      rewrite lget_set_lnk_other by (intros E; apply Ny; rewrite <- E; exact Hz). reflexivity.
Qed.

Theorem dl_pop_sound d l x : drep d (l ++ [x]) -> fst (dl_pop d) = x /\ drep (snd (dl_pop d)) l.
Proof.
  intros H. apply drep_mirror in H. rewrite rev_app_distr in H. cbn [rev app] in H.
  destruct (dl_pop_first_sound (mirror d) x (rev l) H) as [E1 E2].
  pose proof (dl_pop_mirror (mirror d)) as Hm. rewrite mirror_mirror in Hm. rewrite Hm. cbn [fst snd].
  split; [exact E1|]. apply drep_mirror. rewrite mirror_mirror. exact E2.
Qed.

(* ---- the walks read the list back *)
Lemma walk_forward h : forall l p fuel, dseg h p l 0 -> ~ In 0 l -> (length l < fuel)%nat -> walk fuel h (hd 0 l) true = l.
Proof.
  induction l as [|x r IH]; intros p fuel Hs Z0 Hf; destruct fuel as [|fu]; cbn [length] in Hf; try lia; cbn [walk hd].
  - reflexivity.
  - cbn [dseg] in Hs. destruct Hs as (_ & S2 & S3). destruct (Z.eqb_spec x 0) as [E|_]; [exfalso; apply Z0; left; exact E|].
    f_equal. unfold lnk. rewrite S2. apply (IH x fu S3); [intros Hc; apply Z0; right; exact Hc|lia].
Qed.

Lemma walk_mh fuel : forall h id dir, walk fuel (mh h) id dir = walk fuel h id (negb dir).
Proof. induction fuel as [|fu IH]; intros h id dir; cbn [walk]; [reflexivity|]. destruct (id =? 0); [reflexivity|]. rewrite lnk_mh, IH. reflexivity. Qed.

Theorem dl_walks_sound d l : drep d l -> (length l < 1000)%nat -> dl_forward d = l /\ dl_backward d = rev l.
Proof.
  intros H Hlen. pose proof H as (N & Z0 & Hf & Hl & Hs). split.
  - unfold dl_forward. rewrite Hf. apply (walk_forward _ l 0 1000 Hs Z0 Hlen).
  - apply drep_mirror in H. destruct H as (_ & Z0' & Hf' & _ & Hs'). cbn [mirror dl_first dl_heap] in Hf', Hs'.
    unfold dl_backward. rewrite Hf'. change false with (negb true). rewrite <- walk_mh.
    apply (walk_forward _ (rev l) 0 1000 Hs' Z0'). rewrite rev_length. exact Hlen.
Qed.

Lemma drep_empty : drep dlist_empty [].
Proof. unfold drep, dlist_empty. cbn. repeat split; auto. constructor. Qed.

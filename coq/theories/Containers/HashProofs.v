(* C18 (4) — proofs about the hash-table model. *)
From Coq Require Import ZArith List Bool Lia Permutation.
From Verif Require Import Base.ZBits Containers.ArenaModel Containers.ArenaProofs Containers.VecModel Containers.VecProofs Containers.HashModel.
Import ListNotations.
Local Open Scope Z_scope.

(* ------------------------------------------------------------------ division by multiplication with the reciprocal *)
(* Granlund-Montgomery style criterion: with e = rcp * d - 2^s >= 0, qmax = floor((2^32-1)/d), rmax = (2^32-1) mod d,
   qmax * e < rcp and qmax * e + rmax * rcp < 2^s, the quotient floor(h * rcp / 2^s) is floor(h / d) for EVERY h < 2^32 *)
Lemma rcp_div_exact d m s h : 0 < d -> 0 <= s -> 0 < m ->
  0 <= m * d - 2 ^ s -> (2 ^ 32 - 1) / d * (m * d - 2 ^ s) < m ->
  (2 ^ 32 - 1) / d * (m * d - 2 ^ s) + (2 ^ 32 - 1) mod d * m < 2 ^ s ->
  0 <= h < 2 ^ 32 -> (h * m) / 2 ^ s = h / d.
Proof.
  intros Hd Hs Hm He Hc1 Hc2 Hh.
  set (e := m * d - 2 ^ s) in *.
  set (qmax := (2 ^ 32 - 1) / d) in *. set (rmax := (2 ^ 32 - 1) mod d) in *.
  set (q := h / d). set (r := h mod d).
  assert (Hdm : h = d * q + r) by (apply Z.div_mod; lia).
  assert (Hmax : 2 ^ 32 - 1 = d * qmax + rmax) by (apply Z.div_mod; lia).
  assert (Hr : 0 <= r < d) by (apply Z.mod_pos_bound; lia).
  assert (Hrm : 0 <= rmax < d) by (apply Z.mod_pos_bound; lia).
  assert (Hq0 : 0 <= q) by (apply Z.div_pos; lia).
  assert (Hqmax : q <= qmax) by (apply Z.div_le_mono; lia).
  assert (Hpow : 0 < 2 ^ s) by (apply pow2_pos; lia).
  symmetry. apply (Z.div_unique_pos (h * m) (2 ^ s) q (q * e + r * m)).
  - split; [nia|].
    destruct (Z.eq_dec q qmax) as [Heq|Hne].
    + assert (r <= rmax) by nia. assert (r * m <= rmax * m) by nia. subst q. rewrite Heq. lia.
    + assert (q + 1 <= qmax) by lia.
      assert (r * m <= (d - 1) * m) by nia.
      assert ((q + 1) * e <= qmax * e) by nia.
      nia.
  - unfold e. rewrite Hdm. ring.
Qed.

Theorem row_ok_mod r : row_ok r = true -> forall h, 0 <= h < 2 ^ 32 ->
  calc_mod_gen (p_prime r) (p_rcp r) (p_shift r) h = h mod p_prime r.
Proof.
  unfold row_ok. intros Hok h Hh.
  repeat (apply andb_prop in Hok; destruct Hok as [Hok ?]).
  apply Z.ltb_lt in Hok. apply Z.leb_le in H6. apply Z.ltb_lt in H5. apply Z.ltb_lt in H4. apply Z.ltb_lt in H3.
  apply Z.ltb_lt in H2. apply Z.leb_le in H1. apply Z.ltb_lt in H0. apply Z.ltb_lt in H.
  set (d := p_prime r) in *. set (m := p_rcp r) in *. set (s := p_shift r) in *.
  unfold calc_mod_gen.
  assert (Hhm : 0 <= h * m < 2 ^ 64).
  { split; [nia|]. change (2 ^ 64) with (2 ^ 32 * 2 ^ 32). nia. }
  rewrite (Z.mod_small (h * m)) by lia.
  rewrite Z.shiftr_div_pow2 by lia.
  rewrite (rcp_div_exact d m s h) by lia.
  assert (Hq : 0 <= h / d <= h).
  { split; [apply Z.div_pos; lia|]. apply Z.div_le_upper_bound; nia. }
  rewrite (Z.mod_small (h / d)) by lia.
  assert (Hqd : 0 <= h / d * d <= h).
  { split; [nia|]. rewrite Z.mul_comm. apply Z.mul_div_le. lia. }
  rewrite (Z.mod_small (h / d * d)) by lia.
  assert (Hmod : h mod d = h - h / d * d) by (rewrite Z.mod_eq by lia; ring).
  rewrite <- Hmod. apply Z.mod_small.
  pose proof (Z.mod_pos_bound h d ltac:(lia)). lia.
Qed.

(* the initial table (one embedded bucket: count = 1, rcp = 1, shift = 0) *)
Lemma calc_mod_initial h : 0 <= h < 2 ^ 32 -> calc_mod_gen 1 1 0 h = 0.
Proof.
  intros Hh. rewrite (row_ok_mod (mkrow 1 1 0 1)); [|reflexivity|assumption]. simpl. apply Z.mod_1_r.
Qed.

Fixpoint sorted_primes (l : list prow) : bool :=
  match l with
  | a :: ((b :: _) as r) => (p_prime a <? p_prime b) && sorted_primes r
  | _ => true
  end.

(* ------------------------------------------------------------------ the table as a finite map: representation invariant *)
Definition mod_ok (h : hash) : Prop := forall hc, 0 <= hc < 2 ^ 32 -> calc_mod h hc = hc mod h_count h.

Definition bucket_ok (h : hash) (i : nat) (b : list hnode) : Prop :=
  forall n, In n b -> Z.of_nat i = calc_mod h (hn_hash n) /\ 0 <= hn_hash n < 2 ^ 32.

Fixpoint buckets_ok_from (h : hash) (i : nat) (bs : list (list hnode)) : Prop :=
  match bs with [] => True | b :: r => bucket_ok h i b /\ buckets_ok_from h (S i) r end.

Definition hash_inv (h : hash) : Prop :=
  0 < h_count h < 2 ^ 32 /\ Z.of_nat (length (h_buckets h)) = h_count h /\ mod_ok h /\
  buckets_ok_from h 0 (h_buckets h) /\ h_size h = Z.of_nat (length (hash_abs h)) /\ NoDup (map hn_id (hash_abs h)).

Lemma hash_inv_empty : hash_inv hash_empty.
Proof.
  unfold hash_inv, hash_empty, hash_abs; cbn [h_count h_buckets h_size concat app length map].
  split; [lia|]. split; [reflexivity|]. split.
  - intros hc Hhc. unfold calc_mod; cbn [h_count h_rcp h_shift]. rewrite calc_mod_initial by assumption. symmetry. apply Z.mod_1_r.
  - split; [split; [intros x []|exact I]|]. split; [reflexivity|constructor].
Qed.

(* ---- bucket lists *)
Lemma upd_bucket_length bs i f : length (upd_bucket bs i f) = length bs.
Proof. revert i. induction bs; intros [|i]; simpl; auto. Qed.

Lemma upd_bucket_concat_cons bs i n : (i < length bs)%nat -> Permutation (concat (upd_bucket bs i (cons n))) (n :: concat bs).
Proof.
  revert i. induction bs as [|b r IH]; intros [|i] H; simpl in *; try lia.
  - reflexivity.
  - rewrite IH by lia. apply Permutation_sym, Permutation_middle.
Qed.

Lemma buckets_ok_upd h bs k i n : buckets_ok_from h k bs -> (i < length bs)%nat ->
  Z.of_nat (k + i) = calc_mod h (hn_hash n) -> 0 <= hn_hash n < 2 ^ 32 ->
  buckets_ok_from h k (upd_bucket bs i (cons n)).
Proof.
  revert k i. induction bs as [|b r IH]; intros k [|i] Hok Hi Hm Hh; simpl in *; try lia.
  - destruct Hok as [Hb Hr]. split; [|exact Hr]. intros x [<-|Hx]; [split; [rewrite <- Hm; f_equal; lia|exact Hh]|apply Hb; exact Hx].
  - destruct Hok as [Hb Hr]. split; [exact Hb|]. apply IH; auto; [lia|]. rewrite <- Hm. f_equal. lia.
Qed.

Lemma buckets_ok_same_mod h h' k bs : (forall hc, calc_mod h' hc = calc_mod h hc) -> buckets_ok_from h k bs -> buckets_ok_from h' k bs.
Proof.
  intros He. revert k. induction bs as [|b r IH]; intros k; simpl; [auto|]. intros [Hb Hr]. split; [|auto].
  intros n Hn. rewrite He. apply Hb. exact Hn.
Qed.

Lemma calc_mod_range h hc : hash_inv h -> 0 <= hc < 2 ^ 32 -> 0 <= calc_mod h hc < h_count h.
Proof. intros (Hc & _ & Hm & _) Hhc. rewrite Hm by assumption. apply Z.mod_pos_bound. lia. Qed.

Lemma buckets_ok_in h k bs n : buckets_ok_from h k bs -> In n (concat bs) -> 0 <= hn_hash n < 2 ^ 32.
Proof.
  revert k. induction bs as [|b r IH]; intros k Hok Hin; simpl in *; [contradiction|].
  destruct Hok as [Hb Hr]. apply in_app_or in Hin. destruct Hin as [Hin|Hin]; [apply (Hb n Hin)|eapply IH; eauto].
Qed.

(* a node is found in the bucket its hash selects *)
Lemma buckets_ok_locate h k bs n : buckets_ok_from h k bs -> In n (concat bs) ->
  exists i, (i < length bs)%nat /\ Z.of_nat (k + i) = calc_mod h (hn_hash n) /\ In n (nth i bs []).
Proof.
  revert k. induction bs as [|b r IH]; intros k Hok Hin; simpl in *; [contradiction|].
  destruct Hok as [Hb Hr]. apply in_app_or in Hin. destruct Hin as [Hin|Hin].
  - exists 0%nat. split; [lia|]. split; [rewrite Nat.add_0_r; apply (Hb n Hin)|exact Hin].
  - destruct (IH (S k) Hr Hin) as (i & Hi & Hm & Hn). exists (S i). split; [lia|]. split; [rewrite <- Hm; f_equal; lia|exact Hn].
Qed.

Lemma nth_in_concat {A} (bs : list (list A)) i x : In x (nth i bs []) -> In x (concat bs).
Proof.
  revert i. induction bs as [|b r IH]; intros [|i] H; simpl in *; try contradiction.
  - apply in_or_app. left. exact H.
  - apply in_or_app. right. eapply IH. exact H.
Qed.

(* ---- rehash: every node lands in the bucket selected by the new row; nothing is lost or duplicated *)
Lemma rehash_nodes_spec count rcp shift nodes init :
  0 < count -> (forall hc, 0 <= hc < 2 ^ 32 -> calc_mod_gen count rcp shift hc = hc mod count) ->
  (forall n, In n nodes -> 0 <= hn_hash n < 2 ^ 32) -> Z.of_nat (length init) = count ->
  let h' := mkhash None [] 0 count 0 rcp shift 0 in
  buckets_ok_from h' 0 init ->
  let r := rehash_nodes count rcp shift nodes init in
  length r = length init /\ Permutation (concat r) (rev nodes ++ concat init) /\ buckets_ok_from h' 0 r.
Proof.
  intros Hc Hmod. revert init. induction nodes as [|n nodes IH]; intros init Hn Hlen h' Hok; cbn [rehash_nodes fold_left].
  - simpl. auto.
  - assert (Hnh : 0 <= hn_hash n < 2 ^ 32) by (apply Hn; left; reflexivity).
    pose proof (Hmod _ Hnh) as Hm. pose proof (Z.mod_pos_bound (hn_hash n) count Hc) as Hb.
    set (i := Z.to_nat (calc_mod_gen count rcp shift (hn_hash n))).
    assert (Hi : (i < length init)%nat) by (unfold i; rewrite Hm; lia).
    assert (Hok' : buckets_ok_from h' 0 (upd_bucket init i (cons n))).
    { apply buckets_ok_upd; auto. unfold i, calc_mod; cbn. rewrite Z2Nat.id by (rewrite Hm; lia). reflexivity. }
    specialize (IH (upd_bucket init i (cons n)) ltac:(intros x Hx; apply Hn; right; exact Hx)
                   ltac:(rewrite upd_bucket_length; exact Hlen) Hok').
    cbv zeta in IH. fold (rehash_nodes count rcp shift nodes (upd_bucket init i (cons n))) in *.
    destruct IH as (H1 & H2 & H3). rewrite upd_bucket_length in H1. split; [exact H1|]. split; [|exact H3].
    rewrite H2. rewrite (upd_bucket_concat_cons init i n Hi). cbn [rev]. rewrite <- app_assoc. cbn [app].
    apply Permutation_app_head. reflexivity.
Qed.

Lemma buckets_ok_repeat h k m : buckets_ok_from h k (repeat [] m).
Proof. revert k. induction m; intros k; simpl; [exact I|]. split; [intros n []|apply IHm]. Qed.

Lemma concat_repeat_nil {A} m : concat (repeat (@nil A) m) = [].
Proof. induction m; simpl; auto. Qed.

(* the pure effect of _rehash on a table, whatever block the arena hands out *)
Lemma hash_rehash_pure h row p : hash_inv h -> row_ok row = true ->
  let nb := rehash_nodes (p_prime row) (p_rcp row) (p_shift row) (concat (h_buckets h)) (repeat [] (Z.to_nat (p_prime row))) in
  let h' := mkhash p nb (h_size h) (p_prime row) (p_grow row) (p_rcp row) (p_shift row) 0 in
  forall pidx, hash_inv (mkhash p nb (h_size h) (p_prime row) (p_grow row) (p_rcp row) (p_shift row) pidx) /\
               Permutation (concat nb) (hash_abs h).
Proof.
  intros (Hc & Hlen & Hm & Hok & Hsz & Hnd) Hrow nb h' pidx.
  pose proof (row_ok_mod row Hrow) as Hmod.
  assert (Hprime : 0 < p_prime row < 2 ^ 32).
  { unfold row_ok in Hrow. repeat (apply andb_prop in Hrow; destruct Hrow as [Hrow ?]).
    apply Z.ltb_lt in Hrow. apply Z.ltb_lt in H2. lia. }
  destruct (rehash_nodes_spec (p_prime row) (p_rcp row) (p_shift row) (concat (h_buckets h)) (repeat [] (Z.to_nat (p_prime row))))
    as (H1 & H2 & H3); try lia.
  - exact Hmod.
  - intros n Hn. eapply buckets_ok_in; eauto.
  - rewrite repeat_length. lia.
  - apply buckets_ok_repeat.
  - fold nb in H1, H2, H3. rewrite concat_repeat_nil, app_nil_r in H2.
    assert (Hperm : Permutation (concat nb) (hash_abs h)) by (rewrite H2; apply Permutation_sym, Permutation_rev).
    split; [|exact Hperm].
    unfold hash_inv, hash_abs; cbn [h_count h_buckets h_size h_rcp h_shift].
    split; [exact Hprime|]. split; [rewrite H1, repeat_length; lia|]. split.
    + intros hc Hhc. unfold calc_mod; cbn. apply Hmod. exact Hhc.
    + split; [eapply buckets_ok_same_mod; [|exact H3]; intros hc; reflexivity|].
      split; [rewrite Hsz; f_equal; apply Permutation_length; apply Permutation_sym; exact Hperm|].
      eapply Permutation_NoDup; [|exact Hnd]. apply Permutation_map. apply Permutation_sym. exact Hperm.
Qed.

(* ------------------------------------------------------------------ insert / remove / get *)
Lemma nodup_map_inj_hn (l : list hnode) x y : NoDup (map hn_id l) -> In x l -> In y l -> hn_id x = hn_id y -> x = y.
Proof.
  induction l as [|z l IH]; simpl; intros Hnd Hx Hy He; [contradiction|].
  inversion Hnd; subst. destruct Hx as [->|Hx], Hy as [->|Hy]; auto.
  - exfalso. apply H1. rewrite He. apply in_map. assumption.
  - exfalso. apply H1. rewrite <- He. apply in_map. assumption.
Qed.

Lemma default_row_ok : row_ok (mkrow 1 1 0 1) = true.
Proof. vm_compute. reflexivity. Qed.

Lemma nth_row_ok primes i : forallb row_ok primes = true -> row_ok (nth i primes (mkrow 1 1 0 1)) = true.
Proof.
  intros H. destruct (nth_in_or_default i primes (mkrow 1 1 0 1)) as [Hin| ->]; [|exact default_row_ok].
  rewrite forallb_forall in H. apply H. exact Hin.
Qed.

Lemma hash_rehash_refines primes mok a h pidx : forallb row_ok primes = true -> hash_inv h ->
  hash_inv (snd (hash_rehash primes mok a h pidx)) /\ Permutation (hash_abs (snd (hash_rehash primes mok a h pidx))) (hash_abs h).
Proof.
  intros Hp Hh. unfold hash_rehash.
  set (row := nth (Z.to_nat pidx) primes (mkrow 1 1 0 1)).
  destruct (alloc_reusable mok a (p_prime row * 8)) as [[[p asz]|] a1]; cbn [snd]; [|split; [exact Hh|reflexivity]].
  destruct (hash_rehash_pure h row (Some p) Hh (nth_row_ok primes _ Hp) pidx) as [H1 H2].
  split; [exact H1|exact H2].
Qed.

Definition hash_link (h : hash) (n : hnode) : hash :=
  mkhash (h_data h) (upd_bucket (h_buckets h) (Z.to_nat (calc_mod h (hn_hash n))) (cons n)) (h_size h + 1) (h_count h) (h_grow h)
         (h_rcp h) (h_shift h) (h_pidx h).

Lemma hash_link_refines h n : hash_inv h -> 0 <= hn_hash n < 2 ^ 32 -> ~ In (hn_id n) (map hn_id (hash_abs h)) ->
  hash_inv (hash_link h n) /\ Permutation (hash_abs (hash_link h n)) (n :: hash_abs h).
Proof.
  intros Hh Hn Hfresh. pose proof Hh as (Hc & Hlen & Hm & Hok & Hsz & Hnd).
  set (m := calc_mod h (hn_hash n)).
  pose proof (calc_mod_range h (hn_hash n) Hh Hn) as Hmr. fold m in Hmr.
  assert (Hi : (Z.to_nat m < length (h_buckets h))%nat) by lia.
  assert (Hperm : Permutation (hash_abs (hash_link h n)) (n :: hash_abs h)) by (apply upd_bucket_concat_cons; exact Hi).
  split; [|exact Hperm].
  unfold hash_inv. cbn [hash_link h_count h_buckets h_size]. split; [exact Hc|]. split; [rewrite upd_bucket_length; exact Hlen|].
  split; [exact Hm|]. split.
  - apply (buckets_ok_same_mod h); [intros; reflexivity|]. apply buckets_ok_upd; auto. cbn. fold m. rewrite Z2Nat.id by lia. reflexivity.
  - split.
    + rewrite (Permutation_length Hperm). cbn [length]. rewrite Hsz. lia.
    + eapply Permutation_NoDup; [apply Permutation_map, Permutation_sym; exact Hperm|]. cbn [map]. constructor; assumption.
Qed.

Theorem hash_insert_refines primes mok a h n : forallb row_ok primes = true -> hash_inv h ->
  0 <= hn_hash n < 2 ^ 32 -> ~ In (hn_id n) (map hn_id (hash_abs h)) ->
  hash_inv (snd (hash_insert primes mok a h n)) /\ Permutation (hash_abs (snd (hash_insert primes mok a h n))) (n :: hash_abs h).
Proof.
  intros Hp Hh Hn Hfresh. destruct (hash_link_refines h n Hh Hn Hfresh) as [Hh1 Hperm].
  unfold hash_insert. fold (hash_link h n). set (h1 := hash_link h n) in *.
  destruct (h_size h1 >? h_grow h1); [|cbn [snd]; split; [exact Hh1|exact Hperm]].
  destruct (Z.min (h_pidx h1 + 2) (Z.of_nat (length primes) - 1) >? h_pidx h1); [|cbn [snd]; split; [exact Hh1|exact Hperm]].
  destruct (hash_rehash_refines primes mok a h1 (Z.min (h_pidx h1 + 2) (Z.of_nat (length primes) - 1)) Hp Hh1) as [H1 H2].
  split; [exact H1|]. rewrite H2. exact Hperm.
Qed.

Lemma remove_node_spec id l l' : remove_node id l = Some l' ->
  exists l1 x l2, l = l1 ++ x :: l2 /\ hn_id x = id /\ l' = l1 ++ l2.
Proof.
  revert l'. induction l as [|y l IH]; simpl; intros l' H; [discriminate|].
  destruct (Z.eqb_spec (hn_id y) id).
  - inversion H; subst. exists [], y, l'. auto.
  - destruct (remove_node id l) as [r|]; [|discriminate]. inversion H; subst.
    destruct (IH r eq_refl) as (l1 & x & l2 & -> & Hx & ->). exists (y :: l1), x, l2. auto.
Qed.

Lemma remove_node_none id l : remove_node id l = None -> ~ In id (map hn_id l).
Proof.
  induction l as [|y l IH]; simpl; intros H; [tauto|].
  destruct (Z.eqb_spec (hn_id y) id); [discriminate|]. destruct (remove_node id l); [discriminate|].
  intros [Hy|Hin]; [contradiction|]. apply IH; auto.
Qed.

Lemma upd_bucket_concat_set bs i b' : (i < length bs)%nat ->
  exists pre post, concat bs = pre ++ nth i bs [] ++ post /\ concat (upd_bucket bs i (fun _ => b')) = pre ++ b' ++ post.
Proof.
  revert i. induction bs as [|b r IH]; intros [|i] H; simpl in *; try lia.
  - exists [], (concat r). auto.
  - destruct (IH i ltac:(lia)) as (pre & post & H1 & H2). exists (b ++ pre), post. rewrite H1, H2, <- !app_assoc. auto.
Qed.

Lemma buckets_ok_set h bs k i b' : buckets_ok_from h k bs -> (forall x, In x b' -> In x (nth i bs [])) ->
  buckets_ok_from h k (upd_bucket bs i (fun _ => b')).
Proof.
  revert k i. induction bs as [|b r IH]; intros k [|i] Hok Hsub; simpl in *; auto.
  - destruct Hok as [Hb Hr]. split; [|exact Hr]. intros x Hx. apply Hb. apply Hsub. exact Hx.
  - destruct Hok as [Hb Hr]. split; [exact Hb|]. apply IH; auto.
Qed.

(* _remove: a stored node is found, unlinked, the size decreases; a node that is not stored is reported as absent and
   nothing changes *)
Theorem hash_remove_refines h n : hash_inv h -> 0 <= hn_hash n < 2 ^ 32 ->
  (In n (hash_abs h) -> fst (hash_remove h n) = true /\ hash_inv (snd (hash_remove h n)) /\
                        Permutation (hash_abs h) (n :: hash_abs (snd (hash_remove h n)))) /\
  (~ In (hn_id n) (map hn_id (hash_abs h)) -> hash_remove h n = (false, h)).
Proof.
  intros Hh Hn. pose proof Hh as (Hc & Hlen & Hm & Hok & Hsz & Hnd). unfold hash_remove.
  set (m := calc_mod h (hn_hash n)).
  pose proof (calc_mod_range h (hn_hash n) Hh Hn) as Hmr. fold m in Hmr.
  assert (Hi : (Z.to_nat m < length (h_buckets h))%nat) by lia.
  unfold bucket. split.
  - intros Hin.
    destruct (buckets_ok_locate h 0 (h_buckets h) n Hok Hin) as (i & Hil & Him & Hinb).
    assert (i = Z.to_nat m) by (unfold m; lia). subst i.
    destruct (remove_node (hn_id n) (nth (Z.to_nat m) (h_buckets h) [])) as [b'|] eqn:Er.
    2:{ exfalso. apply remove_node_none in Er. apply Er. apply in_map. exact Hinb. }
    destruct (remove_node_spec _ _ _ Er) as (l1 & x & l2 & Hb & Hx & ->).
    destruct (upd_bucket_concat_set (h_buckets h) (Z.to_nat m) (l1 ++ l2) Hi) as (pre & post & Hc1 & Hc2).
    rewrite Hb in Hc1.
    assert (Hxn : x = n).
    { apply (nodup_map_inj_hn (hash_abs h)); auto.
      - unfold hash_abs. rewrite Hc1. apply in_or_app. right. apply in_or_app. left. apply in_or_app. right. left. reflexivity. }
    subst x. cbn [fst snd].
    assert (Hperm : Permutation (hash_abs h) (n :: pre ++ (l1 ++ l2) ++ post)).
    { unfold hash_abs. rewrite Hc1. rewrite <- !app_assoc. cbn [app].
      apply Permutation_sym. rewrite (app_assoc pre l1 (l2 ++ post)), (app_assoc pre l1 (n :: l2 ++ post)).
      apply Permutation_middle. }
    split; [reflexivity|]. split.
    + unfold hash_inv; cbn [h_count h_buckets h_size]. split; [exact Hc|]. split; [rewrite upd_bucket_length; exact Hlen|].
      split; [exact Hm|]. split.
      * apply (buckets_ok_same_mod h); [intros; reflexivity|]. apply buckets_ok_set; [exact Hok|].
        intros y Hy. rewrite Hb. apply in_app_or in Hy. apply in_or_app. destruct Hy; [left; assumption|right; right; assumption].
      * unfold hash_abs; cbn [h_buckets]. rewrite Hc2. split.
        -- pose proof (Permutation_length Hperm) as Hl. cbn [length] in Hl. lia.
        -- pose proof (Permutation_NoDup (Permutation_map hn_id Hperm) Hnd) as Hnd'. cbn [map] in Hnd'. inversion Hnd'; assumption.
    + unfold hash_abs at 2; cbn [h_buckets]. rewrite Hc2. exact Hperm.
  - intros Hnot.
    destruct (remove_node (hn_id n) (nth (Z.to_nat m) (h_buckets h) [])) as [b'|] eqn:Er; [|reflexivity].
    exfalso. destruct (remove_node_spec _ _ _ Er) as (l1 & x & l2 & Hb & Hx & _).
    apply Hnot. rewrite <- Hx. apply in_map. apply (nth_in_concat (h_buckets h) (Z.to_nat m)). rewrite Hb. apply in_or_app. right. left. reflexivity.
Qed.

(* get(key): the node returned is stored and has the key; when nothing is returned no stored node with this hash code has the key *)
Theorem hash_get_refines h hc key : hash_inv h -> 0 <= hc < 2 ^ 32 ->
  match hash_get h hc key with
  | Some n => In n (hash_abs h) /\ hn_key n = key /\ calc_mod h (hn_hash n) = calc_mod h hc
  | None => forall n, In n (hash_abs h) -> hn_hash n = hc -> hn_key n <> key
  end.
Proof.
  intros Hh Hhc. pose proof Hh as (Hc & Hlen & Hm & Hok & Hsz & Hnd). unfold hash_get, bucket.
  set (m := calc_mod h hc). pose proof (calc_mod_range h hc Hh Hhc) as Hmr. fold m in Hmr.
  destruct (find (fun n => hn_key n =? key) (nth (Z.to_nat m) (h_buckets h) [])) as [n|] eqn:Ef.
  - apply find_some in Ef. destruct Ef as [Hin Hk]. apply Z.eqb_eq in Hk.
    split; [eapply nth_in_concat; exact Hin|]. split; [exact Hk|].
    assert (Hloc : forall k bs i x, buckets_ok_from h k bs -> In x (nth i bs []) -> (i < length bs)%nat -> Z.of_nat (k + i) = calc_mod h (hn_hash x)).
    { intros k bs. revert k. induction bs as [|b r IH]; intros k [|i] x Hok' Hx Hi; simpl in *; try lia.
      - destruct Hok' as [Hb _]. rewrite Nat.add_0_r. apply (Hb x Hx).
      - destruct Hok' as [_ Hr]. rewrite <- (IH (S k) i x Hr Hx ltac:(lia)). f_equal. lia. }
    rewrite <- (Hloc 0%nat (h_buckets h) (Z.to_nat m) n Hok Hin ltac:(lia)). unfold m. lia.
  - intros n Hin Hh' Hk.
    destruct (buckets_ok_locate h 0 (h_buckets h) n Hok Hin) as (i & Hil & Him & Hinb).
    assert (i = Z.to_nat m) by (unfold m; rewrite <- Hh'; lia). subst i.
    pose proof (find_none _ _ Ef n Hinb) as Hf. cbn in Hf. apply Z.eqb_neq in Hf. contradiction.
Qed.

(* ------------------------------------------------------------------ the bucket array is a live block of the arena *)
Definition hash_arena_inv (a : arena) (h : hash) : Prop :=
  match h_data h with None => True | Some p => owns 8 a p (h_count h) end.

Lemma owns_exact_after_alloc mok a count p asz : inv a -> 1 <= count -> count * 8 <= SIZE_MAX ->
  fst (alloc_reusable mok a (count * 8)) = Some (p, asz) ->
  owns 8 (snd (alloc_reusable mok a (count * 8))) p count /\
  (8 <= slot_index (count * 8) -> a_blk p = next_id a).
Proof.
  intros I Hc Hmax Hres.
  pose proof (alloc_reusable_sound mok a (count * 8) I ltac:(lia)) as Hpost. rewrite Hres in Hpost.
  destruct Hpost as (I1 & Hfit & _ & _ & _ & Hlive).
  pose proof (alloc_reusable_class mok a (count * 8) p asz ltac:(lia) Hres) as Hcls.
  destruct Hcls as [(Hsi & Hasz & Hdyn & _)|(Hsi & Hasz & Hblk & Hdyn & _)].
  - split; [|intros; lia]. exists asz. split; [rewrite Hlive; left; reflexivity|]. split; [exact Hfit|]. split; [intros _; exact Hasz|intros; lia].
  - split; [|intros _; exact Hblk]. exists asz. split; [rewrite Hlive; left; reflexivity|]. split; [exact Hfit|]. split; [intros; lia|].
    intros _. rewrite Hdyn, Hblk. left. reflexivity.
Qed.

Theorem hash_rehash_arena primes mok a h pidx : forallb row_ok primes = true -> inv a -> hash_inv h -> hash_arena_inv a h ->
  inv (fst (hash_rehash primes mok a h pidx)) /\ hash_arena_inv (fst (hash_rehash primes mok a h pidx)) (snd (hash_rehash primes mok a h pidx)) /\
  keeps_others a (fst (hash_rehash primes mok a h pidx)) (h_data h).
Proof.
  intros Hp I Hh Ha. unfold hash_rehash.
  set (row := nth (Z.to_nat pidx) primes (mkrow 1 1 0 1)).
  pose proof (nth_row_ok primes (Z.to_nat pidx) Hp) as Hrow. fold row in Hrow.
  assert (Hprime : 0 < p_prime row < 2 ^ 32).
  { unfold row_ok in Hrow. repeat (apply andb_prop in Hrow; destruct Hrow as [Hrow ?]).
    apply Z.ltb_lt in Hrow. apply Z.ltb_lt in H2. lia. }
  assert (Hbs : 1 <= p_prime row * 8 <= SIZE_MAX) by (unfold SIZE_MAX; change (2 ^ 64) with (2 ^ 32 * 4294967296); lia).
  destruct (alloc_reusable mok a (p_prime row * 8)) as [[[p asz]|] a1] eqn:Ealloc.
  2:{ cbn [fst snd]. pose proof (alloc_reusable_sound mok a (p_prime row * 8) I Hbs) as Hpost. rewrite Ealloc in Hpost. cbn [fst snd] in Hpost.
      destruct Hpost as [I1 Hlive]. split; [exact I1|]. split.
      - unfold hash_arena_inv in *. destruct (h_data h) as [q|]; [|exact Logic.I].
        destruct Ha as (oasz & Hin & Hle & Hc1 & Hc2). exists oasz. rewrite Hlive. repeat split; auto.
        intros H8. replace a1 with (snd (alloc_reusable mok a (p_prime row * 8))) by (rewrite Ealloc; reflexivity).
        apply alloc_reusable_dyn_mono. auto.
      - pose proof (alloc_keeps mok a (p_prime row * 8) I Hbs) as Hk. rewrite Ealloc in Hk. apply keeps_weaken. exact Hk. }
  pose proof (alloc_reusable_sound mok a (p_prime row * 8) I Hbs) as Hpost. rewrite Ealloc in Hpost. cbn [fst snd] in Hpost.
  destruct Hpost as (I1 & Hfit & _ & _ & Hdis & Hlive).
  pose proof (owns_exact_after_alloc mok a (p_prime row) p asz I ltac:(lia) ltac:(lia)) as Hown. rewrite Ealloc in Hown. cbn [fst snd] in Hown.
  destruct (Hown eq_refl) as [Hown1 Hfresh]. clear Hown.
  cbn [fst snd]. unfold hash_arena_inv in *. cbn [h_data h_count].
  destruct (h_data h) as [old|] eqn:Ed.
  - destruct Ha as (oasz & Hoin & Hole & Hoc1 & Hoc2).
    pose proof Hh as (Hc & _).
    assert (Hoin1 : In (old, oasz) (live a1)) by (rewrite Hlive; right; exact Hoin).
    destruct (free_reusable_sound a1 old (h_count h * 8) oasz I1 Hoin1 Hoc1) as [I2 Hperm].
    { intros H8. replace a1 with (snd (alloc_reusable mok a (p_prime row * 8))) by (rewrite Ealloc; reflexivity).
      apply alloc_reusable_dyn_mono. auto. }
    assert (Hpold : p <> old).
    { intros ->. rewrite Forall_forall in Hdis. specialize (Hdis _ Hoin). unfold disjoint in Hdis. cbn [fst snd] in Hdis. lia. }
    assert (Hkeep : forall q n, In (q, n) (live a1) -> q <> old -> In (q, n) (live (free_reusable a1 old (h_count h * 8)))).
    { intros q n Hq Hne. eapply Permutation_in in Hq; [|exact Hperm]. destruct Hq as [Hq|Hq]; [inversion Hq; congruence|exact Hq]. }
    split; [exact I2|]. split.
    + destruct Hown1 as (asz' & Hin' & Hle' & Hc1' & Hc2'). exists asz'. split; [apply Hkeep; [exact Hin'|exact Hpold]|].
      split; [exact Hle'|]. split; [exact Hc1'|]. intros H8. specialize (Hc2' H8). specialize (Hfresh H8).
      unfold free_reusable. destruct (slot_index (h_count h * 8) <? kSlotCount); [exact Hc2'|].
      cbn [dyn]. apply in_remove_dyn_other; [exact Hc2'|]. pose proof (live_region_blk_lt a old oasz I Hoin). lia.
    + eapply keeps_trans.
      * pose proof (alloc_keeps mok a (p_prime row * 8) I Hbs) as Hk. rewrite Ealloc in Hk. exact Hk.
      * apply (free_keeps a1 old (h_count h * 8) oasz I1 Hoin1 Hoc1).
        intros H8. replace a1 with (snd (alloc_reusable mok a (p_prime row * 8))) by (rewrite Ealloc; reflexivity).
        apply alloc_reusable_dyn_mono. auto.
  - split; [exact I1|]. split; [exact Hown1|].
    pose proof (alloc_keeps mok a (p_prime row * 8) I Hbs) as Hk. rewrite Ealloc in Hk. apply keeps_weaken. exact Hk.
Qed.

Theorem hash_insert_arena primes mok a h n : forallb row_ok primes = true -> inv a -> hash_inv h -> hash_arena_inv a h ->
  0 <= hn_hash n < 2 ^ 32 -> ~ In (hn_id n) (map hn_id (hash_abs h)) ->
  inv (fst (hash_insert primes mok a h n)) /\ hash_arena_inv (fst (hash_insert primes mok a h n)) (snd (hash_insert primes mok a h n)).
Proof.
  intros Hp I Hh Ha Hn Hfresh. destruct (hash_link_refines h n Hh Hn Hfresh) as [Hh1 _].
  unfold hash_insert. fold (hash_link h n). set (h1 := hash_link h n) in *.
  assert (Ha1 : hash_arena_inv a h1) by exact Ha.
  destruct (h_size h1 >? h_grow h1); [|cbn [fst snd]; auto].
  destruct (Z.min (h_pidx h1 + 2) (Z.of_nat (length primes) - 1) >? h_pidx h1); [|cbn [fst snd]; auto].
  destruct (hash_rehash_arena primes mok a h1 (Z.min (h_pidx h1 + 2) (Z.of_nat (length primes) - 1)) Hp I Hh1 Ha1) as (H1 & H2 & _).
  auto.
Qed.

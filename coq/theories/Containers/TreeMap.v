(* C18 (6), round 6 — ArenaTree as the textbook FINITE MAP key -> node: after insert, get answers the new node for the new key and
   exactly what it answered before for every other key; after remove (of the node found for a member key), get answers null for
   that key and exactly what it answered before for every other key.  (TreeOps.v gives the key list; this file the association,
   using that the operations never write a key, TreeKeys.v.) *)
From Coq Require Import ZArith List Bool Lia Permutation.
From Verif Require Import Containers.TreeModel Containers.TreeGeneral Containers.TreeRotate Containers.TreeRecolor
  Containers.TreeInsertAbs Containers.TreeInsertRefine Containers.TreeRemoveAbs Containers.TreeRemoveRefine Containers.TreeOps Containers.TreeKeys.
Import ListNotations.
Local Open Scope Z_scope.

Lemma sorted_mid_notin L k R : sortedb (L ++ k :: R) = true -> ~ In k (L ++ R).
Proof.
  intros H. destruct (sortedb_app _ _ _ H) as (_ & _ & Fl & Fr). rewrite Forall_forall in Fl, Fr.
  intros Hc. apply in_app_or in Hc. destruct Hc as [Hc|Hc]; [specialize (Fl _ Hc)|specialize (Fr _ Hc)]; lia.
Qed.

Lemma lookup_zero T k : sortedb (bkeys T) = true -> (forall i, In i (bids T) -> 1 < i) -> ~ In k (bkeys T) -> lookup T k = 0.
Proof.
  intros Hs Hi Hn. destruct (Z.eq_dec (lookup T k) 0) as [E|E]; [exact E|].
  exfalso. apply Hn. apply (lookup_member T k Hs (ids_nonzero_of_gt1 T Hi)). exact E.
Qed.

Theorem tinv_insert_map t keys I node kn : TInv t keys I -> 1 < node -> ~ In node I -> ~ In kn keys -> Z.of_nat (length keys) + 2 < 2 ^ 49 ->
  forall k, tree_get (tree_insert t node kn) k = if k =? kn then node else tree_get t k.
Proof.
  intros (T & b & Hr & Hnd & Hi & Hb & Hred & Hs & Hk) Hn Hfresh Hnk Hlen k. subst keys.
  assert (Hh : (bheight T < 97)%nat) by (apply (small_height T b Hb Hred); unfold bsize; lia).
  assert (Hi1 : forall i, In i (bids T) -> 1 < i) by (intros i Hx; exact (proj1 (Hi i Hx))).
  assert (Hi' : forall i, In i (bids T) -> 1 < i /\ i <> node).
  { intros i Hin. destruct (Hi i Hin) as [A B]. split; [exact A|]. intros E. apply Hfresh. rewrite <- E. exact B. }
  destruct (tree_insert_any_height node kn 200 t T b Hr Hnd Hi' Hn Hb Hred Hs Hnk ltac:(lia))
    as (R & b' & Rr & Rred & Rb & Rh & Rs & (L & Rt & K1 & K2) & Rl & Rf & Rnd & Rids & Rframe).
  unfold tree_insert.
  assert (RH : (bheight R < 200)%nat).
  { assert (bsize R + 1 < 2 ^ 49). { unfold bsize. rewrite K2, app_length. cbn [length]. rewrite K1, app_length in Hlen. lia. }
    pose proof (small_height R b' Rb Rred H). lia. }
  assert (Eg' : tree_get (tree_insert_f 200 t node kn) k = lookup R k) by (unfold tree_get; exact (proj1 (Rf 200%nat RH) k)).
  assert (Eg : tree_get t k = lookup T k) by (unfold tree_get; apply get_loop_rep; [exact Hr|lia]).
  rewrite Eg', Eg.
  assert (Rgt : forall i, In i (bids R) -> 1 < i).
  { intros i Hin. apply Rids in Hin. destruct Hin as [->|Hin]; [exact Hn|exact (Hi1 i Hin)]. }
  destruct (Z.eqb_spec k kn) as [->|Hne].
  - assert (Hin : In kn (bkeys R)) by (rewrite K2; apply in_or_app; right; left; reflexivity).
    destruct (lookup_in _ R _ kn Rr Rs Hin) as [A B].
    apply (rep_key_inj _ R _ _ _ Rr Rs A); [apply Rids; left; reflexivity|]. rewrite B. symmetry. apply tree_insert_sets_key. exact Hn.
  - destruct (in_dec Z.eq_dec k (bkeys T)) as [Hin|Hnin].
    + destruct (lookup_in _ T _ k Hr Hs Hin) as [A B].
      assert (HinR : In k (bkeys R)).
      { rewrite K2. rewrite K1 in Hin. apply in_app_or in Hin. apply in_or_app. destruct Hin as [Hin|Hin]; [left; exact Hin|right; right; exact Hin]. }
      destruct (lookup_in _ R _ k Rr Rs HinR) as [A' B'].
      apply (rep_key_inj _ R _ _ _ Rr Rs A'); [apply Rids; right; exact A|]. rewrite B'.
      rewrite tree_insert_keeps_keys; [symmetry; exact B|specialize (Hi1 _ A); unfold HEAD; lia|exact (proj2 (Hi' _ A))].
    + rewrite (lookup_zero T k Hs Hi1 Hnin). apply (lookup_zero R k Rs Rgt).
      rewrite K2. rewrite K1 in Hnin. intros Hc. apply in_app_or in Hc. destruct Hc as [Hc|[Hc|Hc]]; [apply Hnin; apply in_or_app; left; exact Hc|lia|apply Hnin; apply in_or_app; right; exact Hc].
Qed.

Theorem tinv_remove_map t keys I kn : TInv t keys I -> In kn keys -> Z.of_nat (length keys) + 1 < 2 ^ 49 ->
  forall k, tree_get (tree_remove t (tree_get t kn)) k = if k =? kn then 0 else tree_get t k.
Proof.
  intros (T & b & Hr & Hnd & Hi & Hb & Hred & Hs & Hk) Hin Hlen k. subst keys.
  assert (Hh : (bheight T < 97)%nat) by (apply (small_height T b Hb Hred); unfold bsize; lia).
  assert (Egn : tree_get t kn = lookup T kn) by (unfold tree_get; apply get_loop_rep; [exact Hr|lia]).
  rewrite Egn. destruct (lookup_in _ T _ kn Hr Hs Hin) as [Nin Nkey].
  assert (Hi1 : forall i, In i (bids T) -> 1 < i) by (intros i Hx; exact (proj1 (Hi i Hx))).
  destruct (tree_remove_any_height 200 t T b (lookup T kn) Hr Hnd Hi1 Nin Hb Hs ltac:(lia))
    as (R & b' & Rr & Rred & Rb & Rh & Rs & (L & Rt & K1 & K2) & Rl & Rf & Rnd & Rids & Rframe).
  unfold tree_remove. rewrite Nkey in K1.
  assert (RH : (bheight R < 200)%nat).
  { assert (bsize R + 1 < 2 ^ 49). { unfold bsize. rewrite K2, app_length. rewrite K1, app_length in Hlen. cbn [length] in Hlen. lia. }
    pose proof (small_height R b' Rb Rred H). lia. }
  assert (Eg' : tree_get (tree_remove_f 200 t (lookup T kn)) k = lookup R k) by (unfold tree_get; exact (proj1 (Rf 200%nat RH) k)).
  assert (Eg : tree_get t k = lookup T k) by (unfold tree_get; apply get_loop_rep; [exact Hr|lia]).
  rewrite Eg', Eg.
  assert (Rgt : forall i, In i (bids R) -> 1 < i) by (intros i Hx; apply Hi1; apply Rids; exact Hx).
  assert (Hgone : ~ In kn (bkeys R)) by (rewrite K2; apply sorted_mid_notin; rewrite <- K1; exact Hs).
  destruct (Z.eqb_spec k kn) as [->|Hne]; [apply (lookup_zero R kn Rs Rgt Hgone)|].
  destruct (in_dec Z.eq_dec k (bkeys T)) as [HinT|Hnin].
  - destruct (lookup_in _ T _ k Hr Hs HinT) as [A B].
    assert (HinR : In k (bkeys R)).
    { rewrite K2. rewrite K1 in HinT. apply in_app_or in HinT. apply in_or_app. destruct HinT as [H0|[H0|H0]]; [left; exact H0|lia|right; exact H0]. }
    destruct (lookup_in _ R _ k Rr Rs HinR) as [A' B'].
    apply (rep_key_inj _ T _ _ _ Hr Hs (Rids _ A') A). rewrite B.
    rewrite <- (tree_remove_keeps_keys 200 t (lookup T kn) (lookup R k)); [exact B'|specialize (Rgt _ A'); unfold HEAD; lia].
  - rewrite (lookup_zero T k Hs Hi1 Hnin). apply (lookup_zero R k Rs Rgt).
    rewrite K2. rewrite K1 in Hnin. intros Hc. apply in_app_or in Hc. apply Hnin. apply in_or_app. destruct Hc as [Hc|Hc]; [left; exact Hc|right; right; exact Hc].
Qed.

(* ---- any sequence: get of the model state is the textbook finite map (function update) *)
Definition kmap (m : Z -> Z) (o : kop) : Z -> Z :=
  match o with KIns n k => fun x => if x =? k then n else m x | KRem k => fun x => if x =? k then 0 else m x end.
Fixpoint kmap_all (m : Z -> Z) (ops : list kop) : Z -> Z := match ops with [] => m | o :: r => kmap_all (kmap m o) r end.

Lemma kmap_all_ext ops : forall m m', (forall x, m x = m' x) -> forall x, kmap_all m ops x = kmap_all m' ops x.
Proof.
  induction ops as [|o r IH]; intros m m' H x; cbn [kmap_all]; [apply H|]. apply IH. intros y. destruct o; cbn [kmap]; destruct (y =? k); auto.
Qed.

Theorem tree_any_sequence_map : forall ops t keys I, TInv t keys I -> kpres keys I ops ->
  forall k, tree_get (fold_left kstep ops t) k = kmap_all (tree_get t) ops k.
Proof.
  induction ops as [|o r IH]; intros t keys I HI Hp k; cbn [fold_left kmap_all kpres] in *; [reflexivity|].
  destruct Hp as [P Pr]. destruct (tinv_step t keys I o HI P) as (HI' & _ & _).
  rewrite (IH _ _ _ HI' Pr k). apply kmap_all_ext. intros x. destruct o as [n kk|kk]; cbn [kstep kmap kpre] in *.
  - destruct P as (P1 & P2 & P3 & P4). apply (tinv_insert_map t keys I n kk HI P1 P2 P3 P4).
  - destruct P as (P1 & P2). apply (tinv_remove_map t keys I kk HI P1 P2).
Qed.

Theorem tree_map_from_empty ops : kpres [] [] ops -> forall k, tree_get (fold_left kstep ops tree_empty) k = kmap_all (fun _ => 0) ops k.
Proof.
  intros Hp k. rewrite (tree_any_sequence_map ops tree_empty [] [] tinv_empty Hp k). apply kmap_all_ext. intros x. reflexivity.
Qed.

(* C18 — non-vacuity: concrete instances that satisfy the hypotheses of the round 3-5 theorems (and the conclusions computed on
   them), so that none of those theorems holds only because its premises are unsatisfiable. *)
From Coq Require Import ZArith List Bool Lia.
From Verif Require Import Containers.BitVecModel Containers.BitVecProofs Containers.ArenaModel Containers.ArenaProofs
  Containers.VecModel Containers.HashModel Containers.HashProofs Containers.NameHashModel Containers.NameHashProofs
  Containers.TreeModel Containers.TreeGeneral Containers.TreeRotate Containers.TreeInsertAbs Containers.TreeInsertRefine
  Containers.TreeRemoveAbs Containers.TreeRemoveRefine Containers.ListModel Containers.ListGeneral
  Containers.BitSetModel Containers.BitSetProofs Containers.BitSetWords Containers.RangeIterModel Containers.RangeIterGeneral
  Containers.ArenaChainModel Containers.ArenaChainGeneral.
Import ListNotations.
Local Open Scope Z_scope.

(* a tree with the keys 10, 20 (node ids 2, 3), built by the model itself *)
Definition ex_tree : tree := tree_insert (tree_insert tree_empty 2 10) 3 20.
Definition ex_T : btree := BN BL 2 false 10 (BN BL 3 true 20 BL).

Example ex_tree_hypotheses :
  rep (heap ex_tree) (root ex_tree) ex_T /\ NoDup (bids ex_T) /\ (forall i, In i (bids ex_T) -> 1 < i /\ i <> 4) /\ 1 < 4 /\
  bbh ex_T = Some 2 /\ bred ex_T = false /\ sortedb (bkeys ex_T) = true /\ ~ In 15 (bkeys ex_T) /\ In 3 (bids ex_T) /\
  (2 * bheight ex_T + 2 < 200)%nat /\ key (heap ex_tree) 3 = 20.
Proof.
  split; [vm_compute; repeat split; auto; discriminate|]. split; [repeat constructor; cbn; intuition discriminate|].
  split; [cbn; intros i [<-|[<-|[]]]; split; lia|]. split; [lia|]. split; [reflexivity|]. split; [reflexivity|]. split; [reflexivity|].
  split; [cbn; intuition discriminate|]. split; [cbn; auto|]. split; [cbn; lia|reflexivity].
Qed.

(* ... and what insert / remove compute on it: 15 goes between 10 and 20; removing node 3 leaves [10] *)
Example ex_tree_insert_remove :
  tree_keys (tree_insert ex_tree 4 15) = [10; 15; 20] /\ rb_valid (tree_insert ex_tree 4 15) = true /\
  tree_keys (tree_remove ex_tree 3) = [10] /\ rb_valid (tree_remove ex_tree 3) = true.
Proof. vm_compute. repeat split; reflexivity. Qed.

(* the loop invariants at the start of the loops *)
Example ex_insert_invariant : AInv 4 15 NoRot2 [] ex_T.
Proof. apply (AInv_init 4 15 ex_T 2); reflexivity. Qed.
Example ex_remove_invariant : RAll 20 (AtHead ex_T).
Proof. split; [exists 2; reflexivity|split; [reflexivity|exact I]]. Qed.

(* a list with three nodes, built by the model *)
Example ex_list : drep (dl_add (dl_add (dl_add dlist_empty 5 true) 6 true) 4 false) [4; 5; 6].
Proof.
  apply (dl_prepend_sound _ [5; 6] 4); [|lia|cbn; intuition discriminate].
  apply (dl_append_sound _ [5] 6); [|lia|cbn; intuition discriminate].
  apply (dl_append_sound _ [] 5); [apply drep_empty|lia|cbn; tauto].
Qed.

(* bit sets: the empty one, and one obtained by a resize through the arena *)
Example ex_bitset_empty : inv (arena_init 1024 0) /\ bs_inv2 (arena_init 1024 0) bitset_empty.
Proof.
  split; [apply inv_init; [vm_compute; intuition discriminate|left; reflexivity]|]. split; [|apply winit_empty].
  unfold bs_inv, bitset_empty; cbn [b_size b_cap b_words b_data].
  split; [lia|]. split; [reflexivity|]. split; [reflexivity|]. split; [reflexivity|]. split; [|reflexivity]. intros Hm. exfalso. apply Hm. reflexivity.
Qed.
Example ex_bitset_ops :
  let '(e, a, b) := bs_resize_pub (fun _ => true) (arena_init 1024 0) bitset_empty 70 true in
  e = EOk /\ b_size b = 70 /\ bs_bit b 69 = true /\
  bs_bit (bs_with_words b (bv_op 64 OpClear (b_words b) 60 8)) 63 = false /\ bs_bit (bs_with_words b (bv_op 64 OpClear (b_words b) 60 8)) 68 = true /\
  bs_bit (bs_and b b) 5 = true /\ bs_bit (bs_and_not b b) 5 = false.
Proof. vm_compute. repeat split; reflexivity. Qed.

(* named tables: the empty one and one that holds the two colliding names *)
Example ex_named_table : named_table hash_empty /\ bytes_ok name_a /\ bytes_ok name_b /\
  let h := snd (hash_insert [] (fun _ => true) (arena_init 1024 0) (snd (hash_insert [] (fun _ => true) (arena_init 1024 0) hash_empty (name_node 1 name_a))) (name_node 2 name_b)) in
  name_get h name_a = Some (name_node 1 name_a) /\ name_get h name_b = Some (name_node 2 name_b) /\ name_get h [1] = None.
Proof.
  split; [intros n []|]. split; [repeat constructor; lia|]. split; [repeat constructor; lia|]. vm_compute. repeat split; reflexivity.
Qed.

(* range iterator words, pointer-level chain *)
Example ex_range_word : word_ok 64 44 /\ 44 <> 0 /\ ctz 44 = 2.
Proof. split; [split; cbn; lia|split; [discriminate|reflexivity]]. Qed.
Example ex_chain : chain_at (mkchain 1 [100; 200; 300]) 2 [(2, 200); (3, 300)] /\ cfind (mkchain 1 [100; 200; 300]) 1 = Some (mkcb 1 2 100).
Proof. split; [cbn; repeat split; try lia; eexists; split; [reflexivity|]; repeat split; try lia; eexists; split; reflexivity|reflexivity]. Qed.

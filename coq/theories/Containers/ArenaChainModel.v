(* C18 (5) — the block chain of Arena::_alloc_oneshot at POINTER level (ids with a `next` field, released blocks leave the
   heap), for the scan loop that runs after a soft reset: the pinned loop and the loop repaired by
   fixes/C18-arena-soft-reset.patch. ArenaModel.v abstracts the chain to a list; this file relates the two. *)
From Coq Require Import ZArith List Bool.
Import ListNotations.
Local Open Scope Z_scope.

Record cblock := mkcb { cb_id : Z; cb_next : Z; cb_size : Z }.
Definition cheap := list cblock.

Fixpoint cfind (h : cheap) (id : Z) : option cblock :=
  match h with [] => None | b :: r => if cb_id b =? id then Some b else cfind r id end.
Fixpoint cset_next (h : cheap) (id nx : Z) : cheap :=
  match h with [] => [] | b :: r => if cb_id b =? id then mkcb id nx (cb_size b) :: r else b :: cset_next r id nx end.
Fixpoint cfree (h : cheap) (id : Z) : cheap :=
  match h with [] => [] | b :: r => if cb_id b =? id then r else b :: cfree r id end.

(* while (next) { if (size <= next->size) return next; block_to_free = next; cur->next = next; next = next->next; free(block_to_free); } *)
Fixpoint scan_pinned (fuel : nat) (h : cheap) (cur next size : Z) : cheap * Z :=
  match fuel with
  | O => (h, 0)
  | S f =>
    if next =? 0 then (h, 0)
    else match cfind h next with
         | None => (h, -1)                      (* dereference of a released block *)
         | Some b => if size <=? cb_size b then (h, next)
                     else let h1 := cset_next h cur next in
                          scan_pinned f (cfree h1 next) cur (cb_next b) size
         end
  end.

(* repaired: next = next->next; cur->next = next; free(block_to_free) *)
Fixpoint scan_fixed (fuel : nat) (h : cheap) (cur next size : Z) : cheap * Z :=
  match fuel with
  | O => (h, 0)
  | S f =>
    if next =? 0 then (h, 0)
    else match cfind h next with
         | None => (h, -1)
         | Some b => if size <=? cb_size b then (h, next)
                     else let h1 := cset_next h cur (cb_next b) in
                          scan_fixed f (cfree h1 next) cur (cb_next b) size
         end
  end.

(* walking the chain from `first` (what statistics() and reset(kHard) do): Some ids, or None when a link points to a block
   that is not in the heap any more *)
Fixpoint cwalk (fuel : nat) (h : cheap) (id : Z) : option (list Z) :=
  match fuel with
  | O => None
  | S f => if id =? 0 then Some []
           else match cfind h id with
                | None => None
                | Some b => match cwalk f h (cb_next b) with Some l => Some (id :: l) | None => None end
                end
  end.

(* a chain 1 -> 2 -> ... -> n with the given sizes *)
Fixpoint mkchain (id : Z) (sizes : list Z) : cheap :=
  match sizes with
  | [] => []
  | s :: r => mkcb id (match r with [] => 0 | _ => id + 1 end) s :: mkchain (id + 1) r
  end.

(* list-level result of the repaired scan (ArenaModel.scan_next on the ids after `cur`) *)
Fixpoint list_scan (size : Z) (l : list (Z * Z)) : list (Z * Z) :=   (* blocks kept after cur: the first that fits and what follows *)
  match l with [] => [] | (id, s) :: r => if size <=? s then (id, s) :: r else list_scan size r end.

(* C18 (7) — ArenaList: small-scope theorem (every sequence of at most 5 operations); ArenaPool: general theorem. *)
From Coq Require Import ZArith List Bool Lia.
From Verif Require Import Containers.ArenaModel Containers.ArenaProofs Containers.ListModel.
Import ListNotations.
Local Open Scope Z_scope.

Inductive lop := LAppend | LPrepend | LInsertAfter (j : nat) | LInsertBefore (j : nat) | LUnlink (j : nat) | LPopFirst | LPop.

(* concrete list, textbook list of node ids, next fresh id *)
Record lstate := mkls { ls_d : dlist; ls_abs : list Z; ls_next : Z }.
Definition ls_init : lstate := mkls dlist_empty [] 1.

Fixpoint insert_at (l : list Z) (j : nat) (x : Z) : list Z :=
  match j, l with O, _ => x :: l | S k, y :: r => y :: insert_at r k x | S _, [] => [x] end.
Fixpoint remove_at (l : list Z) (j : nat) : list Z :=
  match j, l with _, [] => [] | O, _ :: r => r | S k, y :: r => y :: remove_at r k end.

Definition lapply (st : lstate) (o : lop) : lstate :=
  let d := ls_d st in let l := ls_abs st in let n := ls_next st in
  match o with
  | LAppend => mkls (dl_add d n true) (l ++ [n]) (n + 1)
  | LPrepend => mkls (dl_add d n false) (n :: l) (n + 1)
  | LInsertAfter j => match nth_error l j with Some r => mkls (dl_insert d r n true) (insert_at l (S j) n) (n + 1) | None => st end
  | LInsertBefore j => match nth_error l j with Some r => mkls (dl_insert d r n false) (insert_at l j n) (n + 1) | None => st end
  | LUnlink j => match nth_error l j with Some r => mkls (dl_unlink d r) (remove_at l j) n | None => st end
  | LPopFirst => match l with [] => st | _ :: r => mkls (snd (dl_pop_first d)) r n end
  | LPop => match l with [] => st | _ => mkls (snd (dl_pop d)) (removelast l) n end
  end.

Fixpoint list_eqb (a b : list Z) : bool :=
  match a, b with [], [] => true | x :: a', y :: b' => (x =? y) && list_eqb a' b' | _, _ => false end.

(* forward walk = the textbook list, backward walk = its reverse, first/last are its ends, the popped nodes are the ends *)
Definition lcheck (st : lstate) : bool :=
  list_eqb (dl_forward (ls_d st)) (ls_abs st) && list_eqb (dl_backward (ls_d st)) (rev (ls_abs st)) &&
  (dl_first (ls_d st) =? hd 0 (ls_abs st)) && (dl_last (ls_d st) =? last (ls_abs st) 0) &&
  (fst (dl_pop_first (ls_d st)) =? hd 0 (ls_abs st)) && (fst (dl_pop (ls_d st)) =? last (ls_abs st) 0).

Definition lalphabet : list lop :=
  [LAppend; LPrepend; LPopFirst; LPop; LInsertAfter 0; LInsertAfter 1; LInsertAfter 2; LInsertBefore 0; LInsertBefore 1; LInsertBefore 2;
   LUnlink 0; LUnlink 1; LUnlink 2].

Fixpoint lexplore (depth : nat) (st : lstate) : bool :=
  lcheck st && match depth with O => true | S d => forallb (fun o => lexplore d (lapply st o)) lalphabet end.

Lemma lexplore_sound depth : forall st ops, lexplore depth st = true -> (length ops <= depth)%nat ->
  Forall (fun o => In o lalphabet) ops -> lcheck (fold_left lapply ops st) = true.
Proof.
  induction depth as [|d IH]; intros st ops He Hl Ha.
  - destruct ops; [|simpl in Hl; lia]. simpl in *. apply andb_prop in He. apply He.
  - cbn [lexplore] in He. apply andb_prop in He. destruct He as [Hc Hf].
    destruct ops as [|o r]; [exact Hc|]. cbn [fold_left]. inversion Ha; subst.
    apply IH; [|simpl in Hl; lia|assumption]. rewrite forallb_forall in Hf. apply Hf. assumption.
Qed.

Lemma lexplore_5 : lexplore 5 ls_init = true.
Proof. vm_compute. reflexivity. Qed.

Theorem list_small_scope : forall ops, (length ops <= 5)%nat -> Forall (fun o => In o lalphabet) ops ->
  lcheck (fold_left lapply ops ls_init) = true.
Proof. intros. apply (lexplore_sound 5); [exact lexplore_5|assumption|assumption]. Qed.

(* ------------------------------------------------------------------ ArenaPool *)
(* every pooled item is a block the arena handed out (one-shot blocks stay live until reset), pooled items are distinct *)
Definition pool_inv (a : arena) (p : pool) (sz : Z) : Prop := NoDup p /\ forall x, In x p -> In (x, sz) (live a).

Theorem pool_alloc_sound mok a p item : inv a -> 0 < item <= 2 ^ 32 ->
  let sz := ((item + 7) / 8) * 8 in
  pool_inv a p sz ->
  let '(r, a', p') := pool_alloc mok a p item in
  inv a' /\ pool_inv a' p' sz /\
  match r with Some x => In (x, sz) (live a') /\ ~ In x p' | None => p' = p /\ live a' = live a end.
Proof.
  intros I Hitem sz [Hnd Hin]. unfold pool_alloc. destruct p as [|x r].
  - fold sz.
    assert (Hsz : 0 < sz <= SIZE_MAX /\ sz mod 8 = 0).
    { unfold sz, SIZE_MAX. split; [|apply Z.mod_mul; lia].
      pose proof (Z.div_mod (item + 7) 8 ltac:(lia)). pose proof (Z.mod_pos_bound (item + 7) 8 ltac:(lia)).
      change (2 ^ 64) with (2 ^ 32 * 2 ^ 32). lia. }
    destruct Hsz as [Hs1 Hs2].
    pose proof (alloc_oneshot_sound mok a sz I Hs1 Hs2) as Hp. unfold alloc_post in Hp.
    destruct (alloc_oneshot mok a sz) as [[x|] a']; cbn [fst snd] in Hp; destruct Hp as [I' Hp].
    + destruct Hp as (_ & _ & _ & Hl & _). split; [exact I'|]. split; [split; [constructor|intros y []]|].
      split; [rewrite Hl; left; reflexivity|intros []].
    + destruct Hp as [Hl _]. split; [exact I'|]. split; [split; [constructor|intros y []]|]. split; [reflexivity|exact Hl].
  - inversion Hnd; subst. split; [exact I|]. split; [split; [assumption|intros y Hy; apply Hin; right; exact Hy]|].
    split; [apply Hin; left; reflexivity|assumption].
Qed.

Theorem pool_release_sound a p sz x : pool_inv a p sz -> In (x, sz) (live a) -> ~ In x p -> pool_inv a (pool_release p x) sz.
Proof.
  intros [Hnd Hin] Hx Hn. unfold pool_release. split; [constructor; assumption|].
  intros y [<-|Hy]; [exact Hx|apply Hin; exact Hy].
Qed.

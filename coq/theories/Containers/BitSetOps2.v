(* C18 (5), round 7 — ArenaBitSet over ANY SEQUENCE of in-place operations INCLUDING the range operations fill_bits / clear_bits:
   the stronger invariant bs_inv2 (representation invariant + the words that hold bits are 64-bit values, whatever the words
   beyond the size hold) is kept by every step and the bits follow the textbook (size, bit function). *)
From Coq Require Import ZArith List Bool Lia.
From Verif Require Import Containers.ArenaModel Containers.ArenaProofs Containers.VecModel Containers.BitVecModel Containers.BitVecProofs
  Containers.BitSetModel Containers.BitSetProofs Containers.BitSetWords Containers.BitSetOps.
Import ListNotations.
Local Open Scope Z_scope.

Inductive bsop2 := B2In (o : bsop) | B2Fill (start count : Z) | B2Clear (start count : Z).
Definition bsstep2 (b : bitset) (o : bsop2) : bitset :=
  match o with B2In o' => bsstep b o' | B2Fill s c => bs_fill_bits b s c | B2Clear s c => bs_clear_bits b s c end.
Definition bstext2 (s : bstate) (o : bsop2) : bstate :=
  match o with
  | B2In o' => bstext s o'
  | B2Fill st c => (fst s, fun j => if in_range st c j then true else snd s j)
  | B2Clear st c => (fst s, fun j => if in_range st c j then false else snd s j)
  end.
Definition bspre2 (s : bstate) (o : bsop2) : Prop :=
  match o with B2In o' => bspre s o' | B2Fill st c | B2Clear st c => 0 <= st /\ 0 <= c /\ st + c <= fst s end.

Lemma truncate_is_shrink a b n : 0 <= n -> bs_resize (fun _ : Z => true) a b (Z.min (b_size b) n) 0 false = (EOk, a, bs_truncate b n).
Proof.
  intros Hn. unfold bs_resize, bs_truncate, bs_clear_unused, bs_with_words. cbn [b_size b_words b_data b_cap].
  destruct (Z.leb_spec (Z.min (b_size b) n) (b_size b)); [|lia]. destruct (Z.min (b_size b) n mod 64 =? 0); reflexivity.
Qed.

(* the in-place operations of BitSetOps keep the 64-bit-words part of the invariant *)
Lemma winit_bsstep a b s o : bs_inv2 a b -> BAbs b s -> bspre s o -> winit (bsstep b o).
Proof.
  intros HI2 [Hn _] Hp. pose proof HI2 as [HI Hw]. pose proof HI as (B1 & _).
  destruct o as [i v| | |m|m]; cbn [bsstep bspre] in *.
  - apply (winit_set_bit a b i v HI2). lia.
  - apply (winit_clear_all a b HI).
  - apply (winit_fill_all a b HI).
  - pose proof (winit_shrink (fun _ : Z => true) a b (Z.min (b_size b) m) 0 false HI2 ltac:(lia)) as H.
    rewrite (truncate_is_shrink a b m Hp) in H. exact H.
  - pose proof (winit_shrink (fun _ : Z => true) (arena_init 1024 0) b m m false) as H.
    assert (HI2' : bs_inv2 a b) by exact HI2.
    pose proof (winit_shrink (fun _ : Z => true) a b m m false HI2 ltac:(lia)) as H'.
    rewrite (shrink_indep (fun _ => true) (arena_init 1024 0) (fun _ => true) a b m m false ltac:(lia)).
    destruct (bs_resize (fun _ : Z => true) a b m m false) as [[e a'] b']. exact H'.
Qed.

Theorem bitset_step2 a b s o : bs_inv2 a b -> BAbs b s -> bspre2 s o -> bs_inv2 a (bsstep2 b o) /\ BAbs (bsstep2 b o) (bstext2 s o).
Proof.
  intros HI2 HA Hp. destruct o as [o'|st c|st c]; cbn [bsstep2 bstext2 bspre2] in *.
  - destruct (bitset_step a b s o' (proj1 HI2) HA Hp) as [A B]. split; [split; [exact A|exact (winit_bsstep a b s o' HI2 HA Hp)]|exact B].
  - destruct HA as [Hn Hf]. destruct Hp as (P1 & P2 & P3).
    pose proof (bs_range_op_sound a b OpFill st c HI2 P1 P2 ltac:(lia)) as H. cbn zeta in H. destruct H as (A & B & C).
    split; [exact A|]. split; [cbn [fst]; unfold bs_fill_bits, bv_fill, BW; lia|]. cbn [fst snd]. intros j Hj.
    unfold bs_fill_bits, bv_fill, BW. rewrite C by lia. destruct (in_range st c j); [reflexivity|apply Hf; exact Hj].
  - destruct HA as [Hn Hf]. destruct Hp as (P1 & P2 & P3).
    pose proof (bs_range_op_sound a b OpClear st c HI2 P1 P2 ltac:(lia)) as H. cbn zeta in H. destruct H as (A & B & C).
    split; [exact A|]. split; [cbn [fst]; unfold bs_clear_bits, bv_clear, BW; lia|]. cbn [fst snd]. intros j Hj.
    unfold bs_clear_bits, bv_clear, BW. rewrite C by lia. destruct (in_range st c j); [reflexivity|apply Hf; exact Hj].
Qed.

Fixpoint bspres2 (s : bstate) (ops : list bsop2) : Prop := match ops with [] => True | o :: r => bspre2 s o /\ bspres2 (bstext2 s o) r end.

Theorem bitset_any_sequence2 a : forall ops b s, bs_inv2 a b -> BAbs b s -> bspres2 s ops ->
  bs_inv2 a (fold_left bsstep2 ops b) /\ BAbs (fold_left bsstep2 ops b) (fold_left bstext2 ops s).
Proof.
  induction ops as [|o r IH]; intros b s HI HA Hp; cbn [fold_left bspres2] in *; [split; assumption|].
  destruct Hp as [P Pr]. destruct (bitset_step2 a b s o HI HA P) as [HI' HA']. apply IH; assumption.
Qed.

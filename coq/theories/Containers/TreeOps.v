(* C18 (6), round 6 — ArenaTree over ANY SEQUENCE of operations, and completeness of the proven state checker.
   TInv t keys I: the node heap holds a red-black search tree with a black root whose in-order key sequence is the textbook
   sorted list `keys`, with distinct node ids > 1 drawn from the set I of ids handed out so far.  The invariant holds for the
   empty tree and is kept by insert (fresh id, new key) and by remove (of the node that get finds for a member key); the key
   list changes as the textbook sorted list does; and after every step the state checker that the model driver evaluates on
   each executed command (tree_state_ok) accepts — so "ok=1" in the correspondence stream is a theorem, not an observation. *)
From Coq Require Import ZArith List Bool Lia Permutation.
From Verif Require Import Containers.TreeModel Containers.TreeGeneral Containers.TreeRotate Containers.TreeRecolor
  Containers.TreeInsertAbs Containers.TreeInsertRefine Containers.TreeRemoveAbs Containers.TreeRemoveRefine.
Import ListNotations.
Local Open Scope Z_scope.

(* ---- the checker is complete: it reads back every represented tree whose height is below its fuel *)
Lemma extract_complete fuel : forall h n t, rep h n t -> (bheight t < fuel)%nat -> extract fuel h n = Some t.
Proof.
  induction fuel as [|f IH]; intros h n t Hr Hh; [lia|].
  destruct t as [|l id red k r]; cbn [rep] in Hr; cbn [extract].
  - subst n. reflexivity.
  - destruct Hr as (-> & Hid & Hred & Hk & Hl & Hrr). cbn [bheight] in Hh.
    destruct (Z.eqb_spec id 0); [contradiction|].
    rewrite (IH h _ l Hl ltac:(lia)), (IH h _ r Hrr ltac:(lia)), Hred, Hk. reflexivity.
Qed.

Lemma ids_nonzero_of_gt1 t : (forall i, In i (bids t) -> 1 < i) -> ids_nonzero t = true.
Proof.
  induction t as [|l IHl id red k r IHr]; intros H; cbn [ids_nonzero]; [reflexivity|].
  cbn [bids] in H. rewrite IHl, IHr.
  - assert (1 < id) by (apply H; apply in_or_app; right; left; reflexivity). destruct (Z.eqb_spec id 0); [lia|reflexivity].
  - intros i Hi. apply H. apply in_or_app. right. right. exact Hi.
  - intros i Hi. apply H. apply in_or_app. left. exact Hi.
Qed.

Theorem tree_state_ok_complete t T b : rep (heap t) (root t) T -> (bheight T < 200)%nat ->
  (forall i, In i (bids T) -> 1 < i) -> bbh T = Some b -> bred T = false -> sortedb (bkeys T) = true -> tree_state_ok t = true.
Proof.
  intros Hr Hh Hi Hb Hred Hs. unfold tree_state_ok. rewrite (extract_complete 200 _ _ T Hr Hh).
  rewrite Hs, (ids_nonzero_of_gt1 T Hi), Hred, Hb. reflexivity.
Qed.

(* ---- get on a search tree returns a node of the tree that carries the key *)
Lemma lookup_in h : forall T n k, rep h n T -> sortedb (bkeys T) = true -> In k (bkeys T) ->
  In (lookup T k) (bids T) /\ key h (lookup T k) = k.
Proof.
  induction T as [|l IHl id red kk r IHr]; intros n k Hr Hs Hin; [destruct Hin|].
  cbn [rep] in Hr. destruct Hr as (-> & Hid & Hred & Hk & Hl & Hrr).
  cbn [bkeys] in Hs, Hin. destruct (sortedb_app _ _ _ Hs) as (Sl & Sr & Fl & Fr). rewrite Forall_forall in Fl, Fr.
  cbn [lookup bids]. destruct (Z.eqb_spec kk k) as [->|Hne].
  - split; [apply in_or_app; right; left; reflexivity|exact Hk].
  - apply in_app_or in Hin. destruct (Z.ltb_spec kk k).
    + destruct Hin as [Hin|[Hin|Hin]]; [specialize (Fl _ Hin); lia|contradiction|].
      destruct (IHr _ k Hrr Sr Hin) as [A B]. split; [apply in_or_app; right; right; exact A|exact B].
    + destruct Hin as [Hin|[Hin|Hin]]; [|contradiction|specialize (Fr _ Hin); lia].
      destruct (IHl _ k Hl Sl Hin) as [A B]. split; [apply in_or_app; left; exact A|exact B].
Qed.

(* ---- the invariant *)
Definition TInv (t : tree) (keys I : list Z) : Prop :=
  exists T b, rep (heap t) (root t) T /\ NoDup (bids T) /\ (forall i, In i (bids T) -> 1 < i /\ In i I) /\
    bbh T = Some b /\ bred T = false /\ sortedb (bkeys T) = true /\ bkeys T = keys.

(* fewer than 2^49 - 1 keys: the height stays below the 98 that the executable model's loop fuel (200) covers *)
Lemma small_height T b : bbh T = Some b -> bred T = false -> bsize T + 1 < 2 ^ 49 -> (bheight T < 97)%nat.
Proof.
  intros Hb Hred Hs. pose proof (bbh_size T b Hb) as H1. destruct (bbh_height T b Hb) as [H2 H3]. rewrite Hred in H3.
  assert (b - 1 < 49). { destruct (Z.lt_ge_cases (b - 1) 49); [assumption|]. assert (2 ^ 49 <= 2 ^ (b - 1)) by (apply Z.pow_le_mono_r; lia). lia. }
  lia.
Qed.

Theorem tinv_empty : TInv tree_empty [] [].
Proof.
  exists BL, 1. cbn. split; [reflexivity|]. split; [constructor|]. split; [intros i []|]. repeat split; reflexivity.
Qed.

Theorem tinv_insert t keys I node kn : TInv t keys I -> 1 < node -> ~ In node I -> ~ In kn keys -> Z.of_nat (length keys) + 2 < 2 ^ 49 ->
  let t' := tree_insert t node kn in
  exists L R, keys = L ++ R /\ TInv t' (L ++ kn :: R) (node :: I) /\ tree_state_ok t' = true /\
    (forall k, tree_get t' k <> 0 <-> k = kn \/ In k keys) /\
    (forall i, ~ In i I -> i <> HEAD -> i <> node -> hget (heap t') i = hget (heap t) i).
Proof.
  intros (T & b & Hr & Hnd & Hi & Hb & Hred & Hs & Hk) Hn Hfresh Hnk Hlen. cbn zeta. subst keys.
  assert (Hh : (bheight T < 97)%nat) by (apply (small_height T b Hb Hred); unfold bsize; lia).
  assert (Hi' : forall i, In i (bids T) -> 1 < i /\ i <> node).
  { intros i Hin. destruct (Hi i Hin) as [A B]. split; [exact A|]. intros E. apply Hfresh. rewrite <- E. exact B. }
  destruct (tree_insert_any_height node kn 200 t T b Hr Hnd Hi' Hn Hb Hred Hs Hnk ltac:(lia))
    as (R & b' & Rr & Rred & Rb & Rh & Rs & (L & Rt & K1 & K2) & Rl & Rf & Rnd & Rids & Rframe).
  unfold tree_insert.
  assert (RH : (bheight R < 200)%nat).
  { assert (bsize R + 1 < 2 ^ 49). { unfold bsize. rewrite K2, app_length. cbn [length]. rewrite K1, app_length in Hlen. lia. }
    pose proof (small_height R b' Rb Rred H). lia. }
  assert (Rgt : forall i, In i (bids R) -> 1 < i /\ In i (node :: I)).
  { intros i Hin. apply Rids in Hin. destruct Hin as [->|Hin]; [split; [exact Hn|left; reflexivity]|].
    destruct (Hi i Hin) as [A B]. split; [exact A|right; exact B]. }
  exists L, Rt. split; [exact K1|]. split.
  { exists R, b'. split; [exact Rr|]. split; [exact Rnd|]. split; [exact Rgt|]. split; [exact Rb|]. split; [exact Rred|]. split; [exact Rs|exact K2]. }
  split; [apply (tree_state_ok_complete _ R b' Rr RH); [intros i Hin; exact (proj1 (Rgt i Hin))|exact Rb|exact Rred|exact Rs]|].
  split.
  - intros k. unfold tree_get. rewrite (proj1 (Rf 200%nat RH) k). exact (Rl k).
  - intros i Hni Hh1 Hh2. apply Rframe; [intros Hin; apply Hni; exact (proj2 (Hi i Hin))|exact Hh1|exact Hh2].
Qed.

Theorem tinv_remove t keys I kn : TInv t keys I -> In kn keys -> Z.of_nat (length keys) + 1 < 2 ^ 49 ->
  let node := tree_get t kn in
  let t' := tree_remove t node in
  exists L R, keys = L ++ kn :: R /\ TInv t' (L ++ R) I /\ tree_state_ok t' = true /\ node <> 0 /\ key (heap t) node = kn /\
    (forall k, tree_get t' k <> 0 <-> In k (L ++ R)) /\
    (forall i, ~ In i I -> i <> HEAD -> hget (heap t') i = hget (heap t) i).
Proof.
  intros (T & b & Hr & Hnd & Hi & Hb & Hred & Hs & Hk) Hin Hlen. cbn zeta. subst keys.
  assert (Hh : (bheight T < 97)%nat) by (apply (small_height T b Hb Hred); unfold bsize; lia).
  assert (Eg : tree_get t kn = lookup T kn) by (unfold tree_get; apply get_loop_rep; [exact Hr|lia]).
  rewrite Eg. destruct (lookup_in _ T _ kn Hr Hs Hin) as [Nin Nkey].
  assert (Hi1 : forall i, In i (bids T) -> 1 < i) by (intros i Hx; exact (proj1 (Hi i Hx))).
  destruct (tree_remove_any_height 200 t T b (lookup T kn) Hr Hnd Hi1 Nin Hb Hs ltac:(lia))
    as (R & b' & Rr & Rred & Rb & Rh & Rs & (L & Rt & K1 & K2) & Rl & Rf & Rnd & Rids & Rframe).
  unfold tree_remove. rewrite Nkey in K1.
  assert (RH : (bheight R < 200)%nat).
  { assert (bsize R + 1 < 2 ^ 49). { unfold bsize. rewrite K2, app_length. rewrite K1, app_length in Hlen. cbn [length] in Hlen. lia. }
    pose proof (small_height R b' Rb Rred H). lia. }
  assert (Rgt : forall i, In i (bids R) -> 1 < i /\ In i I) by (intros i Hx; apply Hi; apply Rids; exact Hx).
  exists L, Rt. split; [exact K1|]. split.
  { exists R, b'. split; [exact Rr|]. split; [exact Rnd|]. split; [exact Rgt|]. split; [exact Rb|]. split; [exact Rred|]. split; [exact Rs|exact K2]. }
  split; [apply (tree_state_ok_complete _ R b' Rr RH); [intros i Hx; exact (proj1 (Rgt i Hx))|exact Rb|exact Rred|exact Rs]|].
  split; [specialize (Hi1 _ Nin); lia|]. split; [exact Nkey|]. split.
  - intros k. unfold tree_get. rewrite (proj1 (Rf 200%nat RH) k). rewrite <- K2. exact (Rl k).
  - intros i Hni Hh1. apply Rframe; [intros Hx; apply Hni; exact (proj2 (Hi i Hx))|exact Hh1].
Qed.

(* what a state satisfying the invariant answers: the keys in order, get = membership, and the checker accepts *)
Theorem tinv_reads t keys I : TInv t keys I -> Z.of_nat (length keys) + 1 < 2 ^ 49 ->
  tree_keys t = keys /\ sortedb keys = true /\ (forall k, tree_get t k <> 0 <-> In k keys) /\ tree_state_ok t = true.
Proof.
  intros (T & b & Hr & Hnd & Hi & Hb & Hred & Hs & Hk) Hlen. subst keys.
  assert (Hh : (bheight T < 97)%nat) by (apply (small_height T b Hb Hred); unfold bsize; lia).
  assert (Hi1 : forall i, In i (bids T) -> 1 < i) by (intros i Hx; exact (proj1 (Hi i Hx))).
  split; [unfold tree_keys, tree_inorder; rewrite (inorder_rep 200 _ _ T Hr ltac:(lia)); apply bflat_keys|]. split; [exact Hs|]. split.
  - intros k. unfold tree_get. rewrite (get_loop_rep 200 _ _ T k Hr ltac:(lia)). apply lookup_member; [exact Hs|apply ids_nonzero_of_gt1; exact Hi1].
  - apply (tree_state_ok_complete t T b Hr ltac:(lia) Hi1 Hb Hred Hs).
Qed.

(* ---- the textbook: a strictly sorted list of keys *)
Fixpoint sins (k : Z) (l : list Z) : list Z := match l with [] => [k] | x :: r => if k <? x then k :: x :: r else x :: sins k r end.
Fixpoint srem (k : Z) (l : list Z) : list Z := match l with [] => [] | x :: r => if x =? k then r else x :: srem k r end.

Lemma sins_mid : forall L k R, sortedb (L ++ k :: R) = true -> sins k (L ++ R) = L ++ k :: R.
Proof.
  induction L as [|a L IH]; intros k R H.
  - cbn [app] in *. destruct R as [|x r]; [reflexivity|]. cbn [sortedb] in H. apply andb_prop in H. destruct H as [H _]. cbn [sins]. rewrite H. reflexivity.
  - change ((a :: L) ++ k :: R) with (a :: (L ++ k :: R)) in H. destruct (sortedb_cons _ _ H) as [Hs Hf].
    rewrite Forall_forall in Hf. assert (a < k) by (apply Hf; apply in_or_app; right; left; reflexivity).
    change ((a :: L) ++ R) with (a :: (L ++ R)). cbn [sins]. destruct (Z.ltb_spec k a); [lia|]. rewrite (IH k R Hs). reflexivity.
Qed.

Lemma srem_mid : forall L k R, sortedb (L ++ k :: R) = true -> srem k (L ++ k :: R) = L ++ R.
Proof.
  induction L as [|a L IH]; intros k R H.
  - cbn [app srem]. rewrite Z.eqb_refl. reflexivity.
  - change ((a :: L) ++ k :: R) with (a :: (L ++ k :: R)) in *. destruct (sortedb_cons _ _ H) as [Hs Hf].
    rewrite Forall_forall in Hf. assert (a < k) by (apply Hf; apply in_or_app; right; left; reflexivity).
    cbn [srem]. destruct (Z.eqb_spec a k); [lia|]. rewrite (IH k R Hs). reflexivity.
Qed.

Lemma length_sins k : forall l, length (sins k l) = S (length l).
Proof. induction l as [|x r IH]; [reflexivity|]. cbn [sins]. destruct (k <? x); cbn [length]; [reflexivity|]. rewrite IH. reflexivity. Qed.
Lemma length_srem k : forall l, (length (srem k l) <= length l)%nat.
Proof. induction l as [|x r IH]; [cbn; lia|]. cbn [srem]. destruct (x =? k); cbn [length]; lia. Qed.

(* ---- any sequence of operations *)
Inductive kop := KIns (node k : Z) | KRem (k : Z).
Definition kstep (t : tree) (o : kop) : tree :=
  match o with KIns n k => tree_insert t n k | KRem k => tree_remove t (tree_get t k) end.
Definition kkeys (keys : list Z) (o : kop) : list Z := match o with KIns _ k => sins k keys | KRem k => srem k keys end.
Definition kids (I : list Z) (o : kop) : list Z := match o with KIns n _ => n :: I | KRem _ => I end.
(* preconditions, in textbook terms only: a fresh node id and a new key for insert, a member key for remove, and fewer than
   2^49 - 2 keys (the loop fuel of the executable model; the any_height theorems have no such bound) *)
Definition kpre (keys I : list Z) (o : kop) : Prop :=
  match o with
  | KIns n k => 1 < n /\ ~ In n I /\ ~ In k keys /\ Z.of_nat (length keys) + 2 < 2 ^ 49
  | KRem k => In k keys /\ Z.of_nat (length keys) + 1 < 2 ^ 49
  end.
Fixpoint kpres (keys I : list Z) (ops : list kop) : Prop :=
  match ops with [] => True | o :: r => kpre keys I o /\ kpres (kkeys keys o) (kids I o) r end.

Theorem tinv_step t keys I o : TInv t keys I -> kpre keys I o ->
  TInv (kstep t o) (kkeys keys o) (kids I o) /\ tree_state_ok (kstep t o) = true /\
  (forall i, ~ In i (kids I o) -> i <> HEAD -> hget (heap (kstep t o)) i = hget (heap t) i).
Proof.
  intros HI Hp. destruct o as [n k|k]; cbn [kstep kkeys kids kpre] in *.
  - destruct Hp as (P1 & P2 & P3 & P4). destruct (tinv_insert t keys I n k HI P1 P2 P3 P4) as (L & R & E & HI' & Hok & _ & Hfr).
    pose proof HI' as (T' & _ & _ & _ & _ & _ & _ & S' & K'). rewrite K' in S'.
    subst keys. rewrite (sins_mid L k R S'). split; [exact HI'|]. split; [exact Hok|].
    intros i Hni Hh. apply Hfr; [intros Hx; apply Hni; right; exact Hx|exact Hh|intros Hx; apply Hni; left; symmetry; exact Hx].
  - destruct Hp as (P1 & P2). pose proof HI as (T0 & _ & _ & _ & _ & _ & _ & S0 & K0). rewrite K0 in S0. clear K0.
    destruct (tinv_remove t keys I k HI P1 P2) as (L & R & E & HI' & Hok & _ & _ & _ & Hfr).
    subst keys. rewrite (srem_mid L k R S0). split; [exact HI'|]. split; [exact Hok|exact Hfr].
Qed.

Fixpoint kkeys_all (keys : list Z) (ops : list kop) : list Z := match ops with [] => keys | o :: r => kkeys_all (kkeys keys o) r end.
Fixpoint kids_all (I : list Z) (ops : list kop) : list Z := match ops with [] => I | o :: r => kids_all (kids I o) r end.

Theorem tree_any_sequence : forall ops t keys I, TInv t keys I -> kpres keys I ops ->
  TInv (fold_left kstep ops t) (kkeys_all keys ops) (kids_all I ops) /\
  (forall i, ~ In i (kids_all I ops) -> i <> HEAD -> hget (heap (fold_left kstep ops t)) i = hget (heap t) i).
Proof.
  induction ops as [|o r IH]; intros t keys I HI Hp; cbn [fold_left kkeys_all kids_all kpres] in *; [split; [exact HI|reflexivity]|].
  destruct Hp as [P Pr]. destruct (tinv_step t keys I o HI P) as (HI' & _ & Hfr).
  destruct (IH _ _ _ HI' Pr) as [A B]. split; [exact A|]. intros i Hni Hh. rewrite (B i Hni Hh). apply Hfr; [|exact Hh].
  intros Hx. apply Hni. clear -Hx. revert Hx. generalize (kids I o). induction r as [|o' r' IHr]; intros J Hx; cbn [kids_all]; [exact Hx|].
  apply IHr. destruct o'; cbn [kids]; [right; exact Hx|exact Hx].
Qed.

(* from the empty tree: after ANY sequence of inserts of new keys (with fresh node ids) and removes of member keys, the tree
   reads back as the textbook sorted list, get is membership, and the state checker accepts *)
Theorem tree_any_sequence_from_empty ops : kpres [] [] ops -> Z.of_nat (length (kkeys_all [] ops)) + 1 < 2 ^ 49 ->
  let t := fold_left kstep ops tree_empty in
  tree_keys t = kkeys_all [] ops /\ sortedb (tree_keys t) = true /\ (forall k, tree_get t k <> 0 <-> In k (kkeys_all [] ops)) /\
  tree_state_ok t = true.
Proof.
  intros Hp Hlen. cbn zeta. destruct (tree_any_sequence ops tree_empty [] [] tinv_empty Hp) as [HI _].
  destruct (tinv_reads _ _ _ HI Hlen) as (A & B & C & D). split; [exact A|]. split; [rewrite A; exact B|]. split; [exact C|exact D].
Qed.

(* C18 (4') — names as ArenaHash keys: the name hash is a 32-bit value (Horner polynomial in 65599 modulo 2^32), names are
   identified by their key encoding, and a table whose nodes carry hash_name(name) finds a node by name exactly when a node
   with that name is stored — whatever collisions the hash produces (exhibited: two 6-letter names with the same hash). *)
From Coq Require Import ZArith List Bool Lia Permutation.
From Verif Require Import Containers.ArenaModel Containers.HashModel Containers.HashProofs Containers.NameHashModel.
Import ListNotations.
Local Open Scope Z_scope.

Lemma hash_fold_range : forall l h0, 0 <= h0 < 2 ^ 32 -> 0 <= fold_left hash_char l h0 < 2 ^ 32.
Proof. induction l as [|c l IH]; intros h0 H; cbn [fold_left]; [exact H|]. apply IH. unfold hash_char. apply Z.mod_pos_bound. reflexivity. Qed.

Theorem hash_name_range l : 0 <= hash_name l < 2 ^ 32.
Proof. apply hash_fold_range. split; [lia|reflexivity]. Qed.

(* Horner form: the wrap-around can be taken once at the end *)
Definition poly (l : list Z) (h0 : Z) : Z := fold_left (fun h c => h * 65599 + c) l h0.

Lemma hash_fold_poly : forall l h0, fold_left hash_char l (h0 mod 2 ^ 32) = poly l h0 mod 2 ^ 32.
Proof.
  induction l as [|c l IH]; intros h0; [reflexivity|].
  change (poly (c :: l) h0) with (poly l (h0 * 65599 + c)). cbn [fold_left].
  rewrite <- (IH (h0 * 65599 + c)). f_equal. unfold hash_char.
  rewrite Z.add_mod, Z.mul_mod, Z.mod_mod by discriminate. rewrite <- Z.mul_mod, <- Z.add_mod by discriminate. reflexivity.
Qed.

Theorem hash_name_poly l : hash_name l = poly l 0 mod 2 ^ 32.
Proof. unfold hash_name. rewrite <- hash_fold_poly. reflexivity. Qed.

Theorem hash_name_app l1 l2 : hash_name (l1 ++ l2) = fold_left hash_char l2 (hash_name l1).
Proof. unfold hash_name. apply fold_left_app. Qed.

(* the key encoding is injective on byte strings *)
Definition bytes_ok (l : list Z) : Prop := Forall (fun c => 0 <= c < 256) l.

Lemma name_key_nonneg l : bytes_ok l -> 0 <= name_key l.
Proof. induction 1; cbn [name_key]; lia. Qed.

Theorem name_key_inj : forall l1 l2, bytes_ok l1 -> bytes_ok l2 -> name_key l1 = name_key l2 -> l1 = l2.
Proof.
  induction l1 as [|a l1 IH]; intros l2 H1 H2 E; destruct l2 as [|b l2]; cbn [name_key] in E.
  - reflexivity.
  - inversion H2; subst. pose proof (name_key_nonneg l2 H4). lia.
  - inversion H1; subst. pose proof (name_key_nonneg l1 H4). lia.
  - inversion H1; subst. inversion H2; subst.
    assert (a = b /\ name_key l1 = name_key l2).
    { assert (Ea : (a + 1 + 257 * name_key l1) mod 257 = a + 1) by (replace (a + 1 + 257 * name_key l1) with ((a + 1) + name_key l1 * 257) by ring; rewrite Z.mod_add by lia; apply Z.mod_small; lia).
      assert (Eb : (b + 1 + 257 * name_key l2) mod 257 = b + 1) by (replace (b + 1 + 257 * name_key l2) with ((b + 1) + name_key l2 * 257) by ring; rewrite Z.mod_add by lia; apply Z.mod_small; lia).
      rewrite E in Ea. split; lia. }
    destruct H as [-> E']. f_equal. apply IH; assumption.
Qed.

(* lookup by name: found exactly when a node with that name is stored *)
Definition named_table (h : hash) : Prop :=
  forall n, In n (hash_abs h) -> exists bytes, bytes_ok bytes /\ hn_hash n = hash_name bytes /\ hn_key n = name_key bytes.

Theorem name_get_correct h bytes : hash_inv h -> named_table h -> bytes_ok bytes ->
  match name_get h bytes with
  | Some n => In n (hash_abs h) /\ hn_hash n = hash_name bytes /\ hn_key n = name_key bytes
  | None => forall n, In n (hash_abs h) -> hn_key n <> name_key bytes
  end.
Proof.
  intros Hi Ht Hb. unfold name_get. pose proof (hash_get_refines h (hash_name bytes) (name_key bytes) Hi (hash_name_range bytes)) as H.
  destruct (hash_get h (hash_name bytes) (name_key bytes)) as [n|].
  - destruct H as (H1 & H2 & _). split; [exact H1|]. split; [|exact H2].
    destruct (Ht n H1) as (bs & B1 & B2 & B3). rewrite B2. f_equal. apply name_key_inj; [exact B1|exact Hb|congruence].
  - intros n Hn E. destruct (Ht n Hn) as (bs & B1 & B2 & B3).
    assert (bs = bytes) by (apply name_key_inj; [exact B1|exact Hb|congruence]). subst bs. apply (H n Hn B2 E).
Qed.

(* a collision of the name hash: "flvs3t" and "03jio1" *)
Definition name_a : list Z := [102; 108; 118; 115; 51; 116].
Definition name_b : list Z := [48; 51; 106; 105; 111; 49].
Theorem name_hash_collision : hash_name name_a = 677318532 /\ hash_name name_b = 677318532 /\ name_key name_a <> name_key name_b.
Proof. split; [vm_compute; reflexivity|]. split; [vm_compute; reflexivity|]. vm_compute. discriminate. Qed.

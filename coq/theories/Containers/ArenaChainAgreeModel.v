(* C18 (5) — executable cross-check used by the model driver on every alloc_oneshot of a run: the pointer-level scan loop
   (ArenaChainModel.scan_fixed on a heap of blocks with `next` fields built from the arena state; block ids shifted by one so
   that 0 stays the null pointer) and the list-level scan of ArenaModel (scan_next) select the same block and leave the same
   chain. The agreement for chains of any length is a theorem (ArenaChainGeneral.scan_fixed_general). *)
From Coq Require Import ZArith List Bool.
From Verif Require Import Containers.ArenaModel Containers.ArenaChainModel.
Import ListNotations.
Local Open Scope Z_scope.

Fixpoint link_blocks (l : list (Z * Z)) : cheap :=
  match l with
  | [] => []
  | (i, s) :: r => mkcb i (match r with [] => 0 | (j, _) :: _ => j end) s :: link_blocks r
  end.

Fixpoint zlist_eqb (a b : list Z) : bool :=
  match a, b with [], [] => true | x :: a', y :: b' => (x =? y) && zlist_eqb a' b' | _, _ => false end.

Definition chain_scan_agrees (a : arena) (size : Z) : bool :=
  match nth_error (chain a) (cur a) with
  | None => true
  | Some cb =>
    let after := skipn (S (cur a)) (chain a) in
    let l := map (fun b => (mb_id b + 1, mb_size b)) after in
    let cid := mb_id cb + 1 in
    let first := match l with [] => 0 | (j, _) :: _ => j end in
    let h := mkcb cid first (mb_size cb) :: link_blocks l in
    let '(h', found) := scan_fixed (S (length l)) h cid first size in
    let walk := cwalk (S (S (length l))) h' cid in
    match scan_next size after, walk with
    | Some (b, rest), Some w => (found =? mb_id b + 1) && zlist_eqb w (cid :: (mb_id b + 1) :: map (fun x => mb_id x + 1) rest)
    | None, Some w => (found =? 0) && zlist_eqb w [cid]
    | _, None => false
    end
  end.

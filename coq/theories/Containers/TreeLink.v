(* C18 (6) — building block: linking a fresh red leaf below a node whose child slot is empty (the `q = node;
   p->_set_child(dir, node)` step of insert) turns the representation of the parent's subtree into the subtree with the
   new leaf; nothing else is touched. *)
From Coq Require Import ZArith List Bool Lia.
From Verif Require Import Containers.TreeModel Containers.TreeGeneral Containers.TreeRotate.
Import ListNotations.
Local Open Scope Z_scope.

Definition leaf (id k : Z) : btree := BN BL id true k BL.

Theorem link_leaf_rep h p l rp kp r node k (dir : bool) :
  rep h p (BN l p rp kp r) -> NoDup (bids (BN l p rp kp r)) -> 0 < p -> 0 < node -> ~ In node (bids (BN l p rp kp r)) ->
  (if dir then r = BL else l = BL) ->
  let h0 := hset h node (mktn 0 0 true k) in
  let h' := set_child h0 p dir node in
  rep h' p (if dir then BN l p rp kp (leaf node k) else BN (leaf node k) p rp kp r) /\
  (forall id, id <> p -> id <> node -> hget h' id = hget h id).
Proof.
  intros Hr Hnd Hp Hn Hnot Hslot h0 h'.
  cbn [bids] in Hnd, Hnot.
  assert (Hnp : node <> p) by (intros ->; apply Hnot; apply in_or_app; right; left; reflexivity).
  assert (Hnl : ~ In node (bids l)) by (intros Hin; apply Hnot; apply in_or_app; left; exact Hin).
  assert (Hnr : ~ In node (bids r)) by (intros Hin; apply Hnot; apply in_or_app; right; right; exact Hin).
  destruct (nodup_app_parts _ _ Hnd) as (_ & Npr & Nlp).
  assert (Hpl : ~ In p (bids l)) by (intros Hin; apply (Nlp p Hin); left; reflexivity).
  assert (Hpr : ~ In p (bids r)) by (apply NoDup_cons_iff in Npr; apply Npr).
  cbn [rep] in Hr. destruct Hr as (_ & Hp0 & Hred & Hk & Hl & Hrr).
  assert (Hother : forall id, id <> p -> id <> node -> hget h' id = hget h id).
  { intros id H1 H2. unfold h', set_child, h0. rewrite !hget_hset_other by congruence. reflexivity. }
  assert (Hnode : hget h' node = mktn 0 0 true k).
  { unfold h', set_child. rewrite hget_hset_other by congruence. unfold h0. apply hget_hset_same. exact Hn. }
  assert (Hh0p : hget h0 p = hget h p) by (unfold h0; apply hget_hset_other; congruence).
  assert (Hpn : hget h' p = if dir then mktn (t_left (hget h p)) node (t_red (hget h p)) (t_key (hget h p))
                            else mktn node (t_right (hget h p)) (t_red (hget h p)) (t_key (hget h p))).
  { unfold h', set_child. rewrite hget_hset_same by exact Hp. rewrite Hh0p. destruct dir; reflexivity. }
  assert (Hleaf : rep h' node (leaf node k)).
  { unfold leaf. cbn [rep]. unfold is_red, key, child. rewrite Hnode. cbn [t_left t_right t_red t_key].
    destruct (Z.eqb_spec node 0); [lia|]. repeat split; auto; lia. }
  assert (Hframe : forall s m, ~ In node (bids s) -> ~ In p (bids s) -> rep h m s -> rep h' m s).
  { intros s m H1 H2 Hm. apply (rep_frame h h' s m); [|exact Hm]. intros id Hid. apply Hother; intros ->; contradiction. }
  split; [|exact Hother].
  assert (Hred' : is_red h' p = rp) by (unfold is_red in *; rewrite Hpn; destruct dir; exact Hred).
  assert (Hk' : key h' p = kp) by (unfold key in *; rewrite Hpn; destruct dir; exact Hk).
  destruct dir.
  - subst r.
    change (p = p /\ p <> 0 /\ is_red h' p = rp /\ key h' p = kp /\ rep h' (child h' p false) l /\ rep h' (child h' p true) (leaf node k)).
    assert (Hcl : child h' p false = child h p false) by (unfold child; rewrite Hpn; reflexivity).
    assert (Hcr : child h' p true = node) by (unfold child; rewrite Hpn; reflexivity).
    rewrite Hcl, Hcr. split; [reflexivity|]. split; [lia|]. split; [exact Hred'|]. split; [exact Hk'|]. split; [|exact Hleaf].
    apply Hframe; assumption.
  - subst l.
    change (p = p /\ p <> 0 /\ is_red h' p = rp /\ key h' p = kp /\ rep h' (child h' p false) (leaf node k) /\ rep h' (child h' p true) r).
    assert (Hcl : child h' p false = node) by (unfold child; rewrite Hpn; reflexivity).
    assert (Hcr : child h' p true = child h p true) by (unfold child; rewrite Hpn; reflexivity).
    rewrite Hcl, Hcr. split; [reflexivity|]. split; [lia|]. split; [exact Hred'|]. split; [exact Hk'|]. split; [exact Hleaf|].
    apply Hframe; assumption.
Qed.

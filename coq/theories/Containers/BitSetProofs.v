(* C18 (7) — ArenaBitSet: growing (the second half of _resize, with fixes/C18-bitset-resize-grow.patch) keeps every old bit,
   gives every new bit the requested value and leaves the unused bits of the last word clear — for every old/new size and
   whatever the uninitialised words hold. *)
From Coq Require Import ZArith List Bool Lia.
From Verif Require Import Base.ZBits Containers.BitVecModel Containers.BitVecProofs Containers.ArenaModel Containers.VecModel
  Containers.BufLemmas Containers.BitSetModel.
Import ListNotations.
Local Open Scope Z_scope.

Lemma zlength_updw ws i v : zlength (updw ws i v) = zlength ws.
Proof. unfold zlength. rewrite updw_length. reflexivity. Qed.

Lemma zlength_wset ws i v : zlength (wset ws i v) = zlength ws.
Proof. unfold wset. destruct (_ && _); [apply zlength_updw|reflexivity]. Qed.

Lemma wget_wset_same ws i v : 0 <= i < zlength ws -> wget (wset ws i v) i = v.
Proof.
  intros H. unfold wset, wget. destruct (Z.leb_spec 0 i); [|lia]. destruct (Z.ltb_spec i (zlength ws)); [|lia]. cbn [andb].
  apply nth_updw_same. unfold zlength in *. lia.
Qed.

Lemma wget_wset_other ws i k v : 0 <= i -> 0 <= k -> i <> k -> wget (wset ws i v) k = wget ws k.
Proof.
  intros Hi Hk Hne. unfold wset, wget. destruct (_ && _); [|reflexivity]. apply nth_updw_other. lia.
Qed.

Lemma wget_wfill n : forall ws i v k, 0 <= i -> 0 <= k -> i + Z.of_nat n <= zlength ws ->
  wget (wfill ws i n v) k = if (i <=? k) && (k <? i + Z.of_nat n) then v else wget ws k.
Proof.
  induction n as [|n IH]; intros ws i v k Hi Hk Hlen; cbn [wfill].
  - replace (i + Z.of_nat 0) with i by lia. destruct (Z.leb_spec i k), (Z.ltb_spec k i); cbn [andb]; try reflexivity; lia.
  - rewrite IH by (rewrite ?zlength_wset; lia).
    destruct (Z.leb_spec (i + 1) k), (Z.ltb_spec k (i + 1 + Z.of_nat n)), (Z.leb_spec i k), (Z.ltb_spec k (i + Z.of_nat (S n)));
      cbn [andb]; try reflexivity; try lia;
      first [apply wget_wset_other; lia | (assert (k = i) by lia; subst k; apply wget_wset_same; lia)].
Qed.

Lemma zlength_wfill n : forall ws i v, zlength (wfill ws i n v) = zlength ws.
Proof. induction n; intros; cbn [wfill]; [reflexivity|]. rewrite IHn. apply zlength_wset. Qed.

Lemma bv_get_wget ws j : bv_get 64 ws j = Z.testbit (wget ws (j / 64)) (j mod 64).
Proof. reflexivity. Qed.

Lemma pattern_bits (v : bool) k : 0 <= k < 64 -> Z.testbit (if v then Z.ones 64 else 0) k = v.
Proof. intros. destruct v; [apply Z.ones_spec_low; lia|apply Z.testbit_0_l]. Qed.

Lemma wpb_spec n : 0 <= n -> words_per_bits n = n / 64 + (if n mod 64 =? 0 then 0 else 1).
Proof.
  intros. unfold words_per_bits. pose proof (Z.div_mod n 64 ltac:(lia)). pose proof (Z.mod_pos_bound n 64 ltac:(lia)).
  destruct (Z.eqb_spec (n mod 64) 0).
  - replace (n + 63) with (63 + n / 64 * 64) by lia. rewrite Z.div_add by lia. change (63 / 64) with 0. lia.
  - replace (n + 63) with ((n mod 64 + 63) + n / 64 * 64) by lia. rewrite Z.div_add by lia.
    assert ((n mod 64 + 63) / 64 = 1); [|lia]. symmetry. apply Z.div_unique with (r := n mod 64 - 1); lia.
Qed.

(* the word holding bit old_size: only the bits below old_size mod 64 may be set *)
Definition tail_clear (ws : list Z) (size : Z) : Prop := size mod 64 <> 0 -> 0 <= wget ws (size / 64) < 2 ^ (size mod 64).

Theorem grow_words_get ws old_size new_size v j : 0 <= old_size < new_size -> new_size <= 64 * zlength ws ->
  tail_clear ws old_size -> 0 <= j < new_size ->
  bv_get 64 (grow_words ws old_size new_size v) j = if j <? old_size then bv_get 64 ws j else v.
Proof.
  intros Hsz Hlen Htail Hj. unfold grow_words.
  set (idx := old_size / 64). set (sb := old_size mod 64). set (eb := new_size mod 64).
  set (pattern := if v then Z.ones 64 else 0).
  pose proof (Z.div_mod old_size 64 ltac:(lia)) as Ho. pose proof (Z.mod_pos_bound old_size 64 ltac:(lia)) as Hob.
  pose proof (Z.div_mod new_size 64 ltac:(lia)) as Hn. pose proof (Z.mod_pos_bound new_size 64 ltac:(lia)) as Hnb.
  pose proof (Z.div_mod j 64 ltac:(lia)) as Hjd. pose proof (Z.mod_pos_bound j 64 ltac:(lia)) as Hjb.
  fold idx sb in Ho, Hob. fold eb in Hn, Hnb.
  set (e := new_size / 64) in *. set (wj := j / 64) in *. set (bj := j mod 64) in *.
  assert (Hidx0 : 0 <= idx) by (apply Z.div_pos; lia).
  assert (Hwj0 : 0 <= wj) by (apply Z.div_pos; lia).
  assert (Hie : idx <= e) by (apply Z.div_le_mono; lia).
  assert (Hwje : wj <= e) by (apply Z.div_le_mono; lia).
  rewrite (wpb_spec new_size ltac:(lia)). fold e eb.
  assert (Helen : e + (if eb =? 0 then 0 else 1) <= zlength ws) by (destruct (Z.eqb_spec eb 0); lia).
  rewrite bv_get_wget. fold wj bj.
  (* first step *)
  set (nb := if idx =? e then eb - sb else 64 - sb).
  set (w1 := Z.lor (wget ws idx) (Z.shiftl (Z.shiftr pattern (64 - nb)) sb mod 2 ^ 64)).
  set (st := if sb =? 0 then (ws, idx) else (wset ws idx w1, idx + 1)).
  replace (let '(ws1, idx1) := st in _) with
    (let ws2 := wfill (fst st) (snd st) (Z.to_nat (e + (if eb =? 0 then 0 else 1) - snd st)) pattern in
     if eb =? 0 then ws2 else wset ws2 (e + (if eb =? 0 then 0 else 1) - 1) (Z.land (wget ws2 (e + (if eb =? 0 then 0 else 1) - 1)) (Z.ones eb)))
    by (destruct st; reflexivity).
  cbv zeta.
  assert (Hst : zlength (fst st) = zlength ws /\ snd st = idx + (if sb =? 0 then 0 else 1) /\
                (forall k, 0 <= k -> k <> idx -> wget (fst st) k = wget ws k) /\
                wget (fst st) idx = (if sb =? 0 then wget ws idx else w1)).
  { unfold st. destruct (Z.eqb_spec sb 0); cbn [fst snd].
    - repeat split; auto; lia.
    - split; [apply zlength_wset|]. split; [reflexivity|]. split; [intros k Hk Hne; apply wget_wset_other; lia|].
      apply wget_wset_same. lia. }
  destruct Hst as (Hl1 & Hi1 & Hoth & Hsame).
  set (ws1 := fst st) in *. set (idx1 := snd st) in *.
  set (endi := e + (if eb =? 0 then 0 else 1)) in *.
  assert (Hi1' : idx <= idx1 <= idx + 1) by (rewrite Hi1; destruct (sb =? 0); lia).
  assert (Hfill : forall k, 0 <= k -> wget (wfill ws1 idx1 (Z.to_nat (endi - idx1)) pattern) k =
                    if (idx1 <=? k) && (k <? endi) then pattern else wget ws1 k).
  { intros k Hk. destruct (Z.le_gt_cases idx1 endi).
    - rewrite wget_wfill by (rewrite ?Z2Nat.id; lia). rewrite Z2Nat.id by lia. replace (idx1 + (endi - idx1)) with endi by lia. reflexivity.
    - replace (Z.to_nat (endi - idx1)) with 0%nat by lia. cbn [wfill].
      destruct (Z.leb_spec idx1 k), (Z.ltb_spec k endi); cbn; try reflexivity; lia. }
  (* bits of w1 *)
  assert (Hw1 : sb <> 0 -> Z.testbit w1 bj = if bj <? sb then Z.testbit (wget ws idx) bj else (if bj <? sb + nb then v else false)).
  { intros Hsb. specialize (Htail Hsb). fold idx sb in Htail.
    assert (Hnbb : 0 < nb <= 64 - sb) by (unfold nb; destruct (Z.eqb_spec idx e); lia).
    unfold w1. rewrite Z.lor_spec. rewrite mod_pow2_testbit by lia.
    destruct (Z.ltb_spec bj sb) as [Hlt|Hge].
    - rewrite Z.shiftl_spec_low by lia. rewrite andb_false_r, orb_false_r. reflexivity.
    - assert (Hhigh : Z.testbit (wget ws idx) bj = false).
      { destruct (Z.eq_dec (wget ws idx) 0) as [->|Hnz]; [apply Z.testbit_0_l|].
        apply Z.bits_above_log2; [lia|]. apply Z.log2_lt_pow2; [lia|].
        assert (2 ^ sb <= 2 ^ bj) by (apply Z.pow_le_mono_r; lia). lia. }
      rewrite Hhigh. cbn [orb]. rewrite Z.shiftl_spec by lia. rewrite Z.shiftr_spec by lia.
      destruct (Z.ltb_spec bj 64); [|lia]. cbn [andb].
      destruct (Z.ltb_spec bj (sb + nb)).
      + unfold pattern. apply pattern_bits. lia.
      + unfold pattern. destruct v; [apply Z.ones_spec_high; lia|apply Z.testbit_0_l]. }
  (* case analysis on the word of j *)
  assert (Hres : Z.testbit (wget (wfill ws1 idx1 (Z.to_nat (endi - idx1)) pattern) wj) bj =
                 if j <? old_size then Z.testbit (wget ws wj) bj else v).
  { rewrite Hfill by lia.
    destruct (Z.ltb_spec j old_size) as [Hjo|Hjo].
    - (* an old bit: its word is idx or earlier *)
      assert (wj <= idx) by (apply Z.div_le_mono; lia).
      destruct (Z.leb_spec idx1 wj) as [Hge|Hlt]; cbn [andb].
      + (* only possible when sb = 0 ... then wj = idx and j >= old_size *)
        destruct (Z.eqb_spec sb 0); [lia|lia].
      + destruct (Z.eq_dec wj idx) as [Heq|Hne].
        * rewrite Heq, Hsame. destruct (Z.eqb_spec sb 0); [lia|]. rewrite Hw1 by assumption.
          destruct (Z.ltb_spec bj sb); [reflexivity|lia].
        * rewrite Hoth by lia. reflexivity.
    - (* a new bit *)
      assert (idx <= wj) by (apply Z.div_le_mono; lia).
      destruct (Z.leb_spec idx1 wj) as [Hge|Hlt]; cbn [andb].
      + destruct (Z.ltb_spec wj endi); [unfold pattern; apply pattern_bits; lia|].
        (* wj >= endi: then wj = e and eb = 0, impossible as j < new_size *)
        unfold endi in *. destruct (Z.eqb_spec eb 0); lia.
      + (* wj = idx, sb <> 0 *)
        assert (Hwi : wj = idx) by (destruct (Z.eqb_spec sb 0); lia). destruct (Z.eqb_spec sb 0); [lia|].
        rewrite Hwi, Hsame, Hw1 by assumption.
        destruct (Z.ltb_spec bj sb); [lia|].
        assert (bj < sb + nb); [|destruct (Z.ltb_spec bj (sb + nb)); [reflexivity|lia]].
        unfold nb. destruct (Z.eqb_spec idx e); lia. }
  destruct (Z.eqb_spec eb 0) as [He0|He0]; [exact Hres|].
  (* the final mask of the last word *)
  assert (Hendi : endi = e + 1) by (unfold endi; destruct (Z.eqb_spec eb 0); lia).
  replace (endi - 1) with e by lia.
  destruct (Z.eq_dec wj e) as [Heq|Hne].
  - rewrite Heq. rewrite wget_wset_same by (rewrite zlength_wfill; lia).
    rewrite Z.land_spec, ones_testbit by lia. rewrite <- Heq, Hres.
    destruct (Z.ltb_spec bj eb); [apply andb_true_r|lia].
  - rewrite wget_wset_other by lia. exact Hres.
Qed.

(* after growing, the unused bits of the last word are clear again *)
Theorem grow_words_tail ws old_size new_size v : 0 <= old_size < new_size -> new_size <= 64 * zlength ws ->
  tail_clear (grow_words ws old_size new_size v) new_size.
Proof.
  intros Hsz Hlen Hnz. unfold grow_words.
  set (st := if old_size mod 64 =? 0 then (ws, old_size / 64) else _).
  assert (Hl : zlength (fst st) = zlength ws) by (unfold st; destruct (old_size mod 64 =? 0); cbn [fst]; [reflexivity|apply zlength_wset]).
  destruct st as [ws1 idx1]. cbn [fst] in Hl.
  destruct (Z.eqb_spec (new_size mod 64) 0); [contradiction|].
  pose proof (Z.mod_pos_bound new_size 64 ltac:(lia)).
  rewrite (wpb_spec new_size ltac:(lia)). destruct (Z.eqb_spec (new_size mod 64) 0); [contradiction|].
  replace (new_size / 64 + 1 - 1) with (new_size / 64) by lia.
  assert (H0 : 0 <= new_size / 64) by (apply Z.div_pos; lia).
  pose proof (Z.div_mod new_size 64 ltac:(lia)).
  rewrite wget_wset_same by (rewrite zlength_wfill; lia).
  rewrite Z.land_ones by lia. apply Z.mod_pos_bound. apply pow2_pos. lia.
Qed.

Lemma grow_words_length ws old_size new_size v : zlength (grow_words ws old_size new_size v) = zlength ws.
Proof.
  unfold grow_words.
  set (st := if old_size mod 64 =? 0 then (ws, old_size / 64) else _).
  assert (Hl : zlength (fst st) = zlength ws) by (unfold st; destruct (old_size mod 64 =? 0); cbn [fst]; [reflexivity|apply zlength_wset]).
  destruct st as [ws1 idx1]. cbn [fst] in Hl.
  destruct (new_size mod 64 =? 0); rewrite ?zlength_wset, zlength_wfill; exact Hl.
Qed.

(* ------------------------------------------------------------------ resize as a whole (on top of the arena) *)
From Verif Require Import Containers.ArenaProofs Containers.VecProofs.

(* representation invariant: capacity a multiple of 64 bits below 2^32, capacity/64 words, size <= capacity, unused bits of the
   last word clear, the word array is a live arena block released as capacity/8 bytes *)
Definition bs_inv (a : arena) (b : bitset) : Prop :=
  0 <= b_size b <= b_cap b /\ b_cap b mod 64 = 0 /\ b_cap b < 2 ^ 32 /\ zlength (b_words b) = b_cap b / 64 /\
  tail_clear (b_words b) (b_size b) /\
  match b_data b with None => b_cap b = 0 | Some p => 0 < b_cap b /\ owns 1 a p (b_cap b / 8) end.

Definition bs_bit (b : bitset) (j : Z) : bool := bv_get 64 (b_words b) j.

Lemma wget_firstn_app ws n rest k : 0 <= k < Z.of_nat n -> (n <= length ws)%nat -> wget (firstn n ws ++ rest) k = wget ws k.
Proof.
  intros Hk Hn. unfold wget. rewrite app_nth1 by (rewrite firstn_length; lia). apply nth_firstn_lt. lia.
Qed.

(* growing (new_size > size) on kOk: old bits kept, new bits = v, invariant kept, arena invariant kept;
   kOutOfMemory: bit set untouched *)
Theorem bs_resize_grow_gen mok a b new_size ideal v : inv a -> bs_inv a b -> b_size b < new_size <= ideal -> ideal < 2 ^ 31 ->
  let '(e, a', b') := bs_resize mok a b new_size ideal v in
  inv a' /\
  ((e = EOk /\ bs_inv a' b' /\ b_size b' = new_size /\
    forall j, 0 <= j < new_size -> bs_bit b' j = if j <? b_size b then bs_bit b j else v)
   \/ (e = EOutOfMemory /\ b' = b /\ bs_inv a' b)).
Proof.
  intros I (B1 & B2 & B3 & B4 & B5 & B6) Hn Hi. unfold bs_resize.
  destruct (Z.leb_spec new_size (b_size b)); [lia|].
  pose proof (Z.div_mod (b_cap b) 64 ltac:(lia)) as Hcd. rewrite B2 in Hcd.
  destruct (Z.gtb_spec new_size (b_cap b)) as [Hgt|Hle].
  - (* reallocation *)
    set (min_bits := ((ideal + 63) / 64 * 64) mod 2 ^ 64).
    assert (Hmb : ideal <= (ideal + 63) / 64 * 64 < ideal + 64 /\ ((ideal + 63) / 64 * 64) mod 64 = 0).
    { pose proof (Z.div_mod (ideal + 63) 64 ltac:(lia)). pose proof (Z.mod_pos_bound (ideal + 63) 64 ltac:(lia)).
      split; [lia|apply Z.mod_mul; lia]. }
    destruct Hmb as [Hmb1 Hmb2].
    assert (Hmin : min_bits = (ideal + 63) / 64 * 64).
    { unfold min_bits. apply Z.mod_small. change (2 ^ 64) with (2 ^ 31 * 8589934592). lia. }
    destruct (Z.ltb_spec min_bits new_size); [lia|].
    set (bytes := min_bits / 8).
    assert (Hbytes : bytes * 8 = min_bits /\ 1 <= bytes < 2 ^ 29).
    { unfold bytes. rewrite Hmin in *.
      assert (Hm8 : ((ideal + 63) / 64 * 64) mod 8 = 0).
      { replace ((ideal + 63) / 64 * 64) with (((ideal + 63) / 64 * 8) * 8) by ring. apply Z.mod_mul. lia. }
      pose proof (Z.div_mod ((ideal + 63) / 64 * 64) 8 ltac:(lia)). rewrite Hm8 in H1.
      change (2 ^ 29) with 536870912. change (2 ^ 31) with 2147483648 in Hi. lia. }
    destruct Hbytes as [Hb8 Hbr].
    destruct (alloc_reusable mok a bytes) as [[[p asz]|] a1] eqn:Ealloc.
    2:{ (* refused *)
        pose proof (alloc_reusable_sound mok a bytes I ltac:(unfold SIZE_MAX; change (2 ^ 64) with (2 ^ 29 * 34359738368); lia)) as Hp.
        rewrite Ealloc in Hp. cbn [fst snd] in Hp. destruct Hp as [I1 Hlive].
        split; [exact I1|]. right. split; [reflexivity|]. split; [reflexivity|].
        unfold bs_inv. split; [exact B1|]. split; [exact B2|]. split; [exact B3|]. split; [exact B4|]. split; [exact B5|].
        destruct (b_data b) as [q|]; [|exact B6]. destruct B6 as [Hc Hown]. split; [exact Hc|].
        pose proof (alloc_keeps mok a bytes I ltac:(unfold SIZE_MAX; change (2 ^ 64) with (2 ^ 29 * 34359738368); lia)) as K.
        rewrite Ealloc in K. cbn [snd] in K. eapply owns_preserved; [exact K|exact Hown|discriminate]. }
    (* allocated *)
    assert (Hbsz : 1 <= bytes <= SIZE_MAX) by (unfold SIZE_MAX; change (2 ^ 64) with (2 ^ 29 * 34359738368); lia).
    pose proof (alloc_reusable_sound mok a bytes I Hbsz) as Hp. rewrite Ealloc in Hp. cbn [fst snd] in Hp.
    destruct Hp as (I1 & Hfit & _ & _ & Hdis & Hlive).
    pose proof (owns_after_alloc mok a 1 bytes p asz I ltac:(lia) ltac:(lia) ltac:(right; left; apply Z.mod_1_r)) as Hown.
    rewrite Ealloc in Hown. cbn [fst snd] in Hown. specialize (Hown eq_refl). cbv zeta in Hown.
    destruct Hown as (Hown & _ & _ & _ & Hfresh).
    pose proof (alloc_reusable_class mok a bytes p asz ltac:(lia)) as Hcls. rewrite Ealloc in Hcls. cbn [fst snd] in Hcls.
    specialize (Hcls eq_refl).
    assert (Hasz : asz mod 8 = 0 /\ asz < 2 ^ 29).
    { destruct Hcls as [(Hsi & -> & _)|(_ & -> & _)].
      - pose proof (slot_index_nonneg bytes). destruct (slot_size_pos (slot_index bytes) H1) as [_ Hm]. split; [exact Hm|].
        unfold slot_size. assert (2 ^ slot_index bytes <= 2 ^ 7) by (apply Z.pow_le_mono_r; lia). change (2 ^ 7) with 128 in *.
        change (2 ^ 29) with 536870912. lia.
      - split; [|lia]. rewrite Hmin in Hb8.
        replace bytes with ((ideal + 63) / 64 * 8); [apply Z.mod_mul; lia|]. lia. }
    destruct Hasz as [Ha8 Ha29].
    rewrite Z.div_1_r in Hown. rewrite Z.min_l in Hown by (change (2 ^ 29) with 536870912 in Ha29; lia).
    rewrite Z.div_1_r, Z.min_l, Z.mul_1_r in Hfresh by (change (2 ^ 29) with 536870912 in Ha29; lia).
    pose proof (Z.div_mod asz 8 ltac:(lia)) as Ha8d. rewrite Ha8 in Ha8d.
    set (cap_bits := asz * 8).
    assert (Hcap : cap_bits mod 2 ^ 32 = cap_bits /\ cap_bits mod 64 = 0 /\ cap_bits / 64 = asz / 8 /\ cap_bits / 8 = asz /\ new_size <= cap_bits).
    { unfold cap_bits. split; [apply Z.mod_small; change (2 ^ 32) with (2 ^ 29 * 8); lia|]. split.
      - replace (asz * 8) with (asz / 8 * 64) by lia. apply Z.mod_mul. lia.
      - split; [replace (asz * 8) with (asz / 8 * 64) by lia; apply Z.div_mul; lia|]. split; [apply Z.div_mul; lia|lia]. }
    destruct Hcap as (Hc1 & Hc2 & Hc3 & Hc4 & Hc5).
    set (old := b_size b) in *.
    assert (Hwo : 0 <= words_per_bits old <= b_cap b / 64 /\ words_per_bits old <= asz / 8).
    { rewrite (wpb_spec old ltac:(lia)). pose proof (Z.div_mod old 64 ltac:(lia)). pose proof (Z.mod_pos_bound old 64 ltac:(lia)).
      assert (0 <= old / 64) by (apply Z.div_pos; lia).
      destruct (Z.eqb_spec (old mod 64) 0); split; try lia. }
    destruct Hwo as [Hwo1 Hwo2].
    set (nwords := firstn (Z.to_nat (words_per_bits old)) (b_words b) ++ zrepeat poison (cap_bits / 64 - words_per_bits old)).
    assert (Hnl : zlength nwords = asz / 8).
    { unfold nwords. rewrite zlength_app, zlength_zrepeat by lia. unfold zlength at 1. rewrite firstn_length.
      unfold zlength in B4. lia. }
    assert (Hnget : forall k, 0 <= k < words_per_bits old -> wget nwords k = wget (b_words b) k).
    { intros k Hk. unfold nwords. apply wget_firstn_app; [lia|]. unfold zlength in B4. lia. }
    assert (Hntail : tail_clear nwords old).
    { intros Hm. rewrite Hnget; [apply B5; exact Hm|].
      rewrite (wpb_spec old ltac:(lia)). destruct (Z.eqb_spec (old mod 64) 0); [contradiction|].
      assert (0 <= old / 64) by (apply Z.div_pos; lia). lia. }
    assert (Hnbits : forall j, 0 <= j < old -> bv_get 64 nwords j = bv_get 64 (b_words b) j).
    { intros j Hj. rewrite !bv_get_wget. rewrite Hnget; [reflexivity|].
      rewrite (wpb_spec old ltac:(lia)). pose proof (Z.div_mod j 64 ltac:(lia)). pose proof (Z.mod_pos_bound j 64 ltac:(lia)).
      pose proof (Z.div_mod old 64 ltac:(lia)). pose proof (Z.mod_pos_bound old 64 ltac:(lia)).
      assert (0 <= j / 64) by (apply Z.div_pos; lia). assert (j / 64 <= old / 64) by (apply Z.div_le_mono; lia).
      destruct (Z.eqb_spec (old mod 64) 0); lia. }
    assert (Hlen64 : new_size <= 64 * zlength nwords) by (rewrite Hnl; lia).
    (* the arena after releasing the old array *)
    assert (Harena : exists a2, a2 = (match b_data b with Some oldp => free_reusable a1 oldp (b_cap b / 8) | None => a1 end) /\
                       inv a2 /\ owns 1 a2 p asz).
    { destruct (b_data b) as [oldp|] eqn:Ed.
      - destruct B6 as [Hc0 (oasz & Hoin & Hole & Hoc1 & Hoc2)]. rewrite Z.mul_1_r in *.
        assert (Hoin1 : In (oldp, oasz) (live a1)) by (rewrite Hlive; right; exact Hoin).
        assert (Hoc2' : 8 <= slot_index (b_cap b / 8) -> In (a_blk oldp) (map mb_id (dyn a1))).
        { intros H8. replace a1 with (snd (alloc_reusable mok a bytes)) by (rewrite Ealloc; reflexivity). apply alloc_reusable_dyn_mono. auto. }
        destruct (free_reusable_sound a1 oldp (b_cap b / 8) oasz I1 Hoin1 Hoc1 Hoc2') as [I2 Hperm].
        eexists. split; [reflexivity|]. split; [exact I2|].
        pose proof (free_keeps a1 oldp (b_cap b / 8) oasz I1 Hoin1 Hoc1 Hoc2') as K.
        eapply owns_preserved; [exact K|exact Hown|].
        intros He. inversion He; subst oldp. rewrite Forall_forall in Hdis. specialize (Hdis _ Hoin). unfold disjoint in Hdis. cbn [fst snd] in Hdis.
        assert (0 < oasz) by (assert (0 < b_cap b / 8); [apply Z.div_str_pos; lia|lia]). lia.
      - eexists. split; [reflexivity|]. split; [exact I1|exact Hown]. }
    destruct Harena as (a2 & Ha2 & I2 & Hown2). rewrite <- Ha2.
    split; [exact I2|]. left. split; [reflexivity|]. rewrite Hc1. split; [|split; [reflexivity|]].
    + unfold bs_inv. cbn [b_size b_cap b_words b_data]. split; [lia|]. split; [exact Hc2|]. split; [change (2 ^ 32) with (2 ^ 29 * 8); unfold cap_bits; lia|].
      split; [|split; [apply grow_words_tail; [lia|exact Hlen64]|split; [unfold cap_bits; lia|rewrite Hc4; exact Hown2]]].
      rewrite grow_words_length. rewrite Hnl, Hc3. reflexivity.
    + intros j Hj. unfold bs_bit. cbn [b_words]. rewrite grow_words_get by (try lia; assumption).
      destruct (Z.ltb_spec j old); [apply Hnbits; lia|reflexivity].
  - (* enough capacity: no arena traffic *)
    split; [exact I|]. left. split; [reflexivity|].
    assert (Hlen64 : new_size <= 64 * zlength (b_words b)) by (rewrite B4; lia).
    split; [|split; [reflexivity|]].
    + unfold bs_inv. cbn [b_size b_cap b_words b_data]. split; [lia|]. split; [exact B2|]. split; [exact B3|].
      split; [|split; [apply grow_words_tail; [lia|exact Hlen64]|exact B6]].
      rewrite grow_words_length. exact B4.
    + intros j Hj. unfold bs_bit. cbn [b_words]. apply grow_words_get; try lia; assumption.
Qed.

Theorem bs_resize_grow_sound mok a b new_size v : inv a -> bs_inv a b -> b_size b < new_size < 2 ^ 31 ->
  let '(e, a', b') := bs_resize mok a b new_size new_size v in
  inv a' /\
  ((e = EOk /\ bs_inv a' b' /\ b_size b' = new_size /\
    forall j, 0 <= j < new_size -> bs_bit b' j = if j <? b_size b then bs_bit b j else v)
   \/ (e = EOutOfMemory /\ b' = b /\ bs_inv a' b)).
Proof. intros I B H. apply bs_resize_grow_gen; [exact I|exact B|lia|lia]. Qed.


(* ------------------------------------------------------------------ shrinking, append, release *)
Lemma div64_facts n : 0 <= n -> 0 <= n / 64 /\ 0 <= n mod 64 < 64 /\ n = 64 * (n / 64) + n mod 64.
Proof.
  intros H. pose proof (Z.div_mod n 64 ltac:(lia)). pose proof (Z.mod_pos_bound n 64 ltac:(lia)).
  assert (0 <= n / 64) by (apply Z.div_pos; lia). lia.
Qed.

(* resize to a smaller or equal size: no arena traffic, kOk, the bits below the new size are kept, the unused bits of the
   new last word are cleared *)
Theorem bs_resize_shrink_sound mok a b new_size ideal v : bs_inv a b -> 0 <= new_size <= b_size b ->
  let '(e, a', b') := bs_resize mok a b new_size ideal v in
  e = EOk /\ a' = a /\ bs_inv a b' /\ b_size b' = new_size /\ b_cap b' = b_cap b /\ b_data b' = b_data b /\
  forall j, 0 <= j < new_size -> bs_bit b' j = bs_bit b j.
Proof.
  intros (B1 & B2 & B3 & B4 & B5 & B6) Hn. unfold bs_resize.
  destruct (Z.leb_spec new_size (b_size b)); [|lia].
  destruct (div64_facts new_size ltac:(lia)) as (D1 & D2 & D3).
  pose proof (Z.div_mod (b_cap b) 64 ltac:(lia)) as Hcd. rewrite B2 in Hcd.
  split; [reflexivity|]. split; [reflexivity|].
  destruct (Z.eqb_spec (new_size mod 64) 0) as [E|E].
  - split; [|split; [reflexivity|split; [reflexivity|split; [reflexivity|intros; reflexivity]]]].
    unfold bs_inv; cbn [b_size b_cap b_words b_data].
    split; [lia|]. split; [exact B2|]. split; [exact B3|]. split; [exact B4|]. split; [|exact B6].
    intros Hm. contradiction.
  - assert (Hidx : new_size / 64 < zlength (b_words b)) by (rewrite B4; lia).
    split; [|split; [reflexivity|split; [reflexivity|split; [reflexivity|]]]].
    + unfold bs_inv; cbn [b_size b_cap b_words b_data].
      split; [lia|]. split; [exact B2|]. split; [exact B3|]. split; [rewrite zlength_wset; exact B4|]. split; [|exact B6].
      intros _. rewrite wget_wset_same by lia. rewrite Z.land_ones by lia. apply Z.mod_pos_bound. apply Z.pow_pos_nonneg; lia.
    + intros j Hj. unfold bs_bit; cbn [b_words]. rewrite !bv_get_wget.
      destruct (div64_facts j ltac:(lia)) as (J1 & J2 & J3).
      destruct (Z.eq_dec (j / 64) (new_size / 64)) as [Eq|Ne].
      * rewrite Eq, wget_wset_same by lia. rewrite Z.land_spec, ones_testbit by lia.
        destruct (Z.ltb_spec (j mod 64) (new_size mod 64)); [apply andb_true_r|lia].
      * rewrite wget_wset_other by lia. reflexivity.
Qed.

Lemma shiftl_b2z_testbit (v : bool) bit j : 0 <= bit -> 0 <= j -> Z.testbit (Z.shiftl (Z.b2z v) bit) j = v && (bit =? j).
Proof.
  intros Hb Hj. destruct v; cbn [Z.b2z andb].
  - rewrite Z.shiftl_1_l, Z.pow2_bits_eqb by lia. reflexivity.
  - rewrite Z.shiftl_0_l. apply Z.bits_0.
Qed.

(* append(arena, value): the inline fast path and _append (growth policy 128 / double / +threshold, through _resize) *)
Theorem bs_append_sound mok a b v : inv a -> bs_inv a b -> b_cap b < 2 ^ 30 ->
  let '(e, a', b') := bs_append mok a b v in
  inv a' /\
  ((e = EOk /\ bs_inv a' b' /\ b_size b' = b_size b + 1 /\
    forall j, 0 <= j < b_size b + 1 -> bs_bit b' j = if j <? b_size b then bs_bit b j else v)
   \/ (e = EOutOfMemory /\ b' = b /\ bs_inv a' b)).
Proof.
  intros I B Hc. pose proof B as (B1 & B2 & B3 & B4 & B5 & B6). unfold bs_append.
  change (2 ^ 30) with 1073741824 in Hc.
  destruct (Z.geb_spec (b_size b) (b_cap b)) as [Hge|Hlt].
  - (* _append *)
    assert (Hsz : b_size b = b_cap b) by lia.
    assert (Hns : (b_size b + 1) mod 2 ^ 32 = b_size b + 1) by (apply Z.mod_small; change (2 ^ 32) with 4294967296; lia).
    rewrite Hns.
    set (ideal := if b_cap b <? 128 then 128 else if b_cap b <=? 16777216 * 8 then (b_cap b * 2) mod 2 ^ 32 else (b_cap b + 16777216 * 8) mod 2 ^ 32).
    assert (Hid : b_size b + 1 <= ideal /\ ideal < 2 ^ 31 /\ b_cap b <= ideal).
    { unfold ideal. change (2 ^ 31) with 2147483648. destruct (Z.ltb_spec (b_cap b) 128); [lia|].
      destruct (Z.leb_spec (b_cap b) (16777216 * 8)).
      - rewrite Z.mod_small by (change (2 ^ 32) with 4294967296; lia). lia.
      - rewrite Z.mod_small by (change (2 ^ 32) with 4294967296; lia). lia. }
    destruct Hid as (Hi1 & Hi2 & Hi3).
    destruct (Z.ltb_spec ideal (b_cap b)); [lia|].
    pose proof (bs_resize_grow_gen mok a b (b_size b + 1) ideal v I B ltac:(lia) Hi2) as H1.
    destruct (bs_resize mok a b (b_size b + 1) ideal v) as [[e a'] b']. exact H1.
  - (* inline *)
    destruct (div64_facts (b_size b) ltac:(lia)) as (D1 & D2 & D3).
    pose proof (Z.div_mod (b_cap b) 64 ltac:(lia)) as Hcd. rewrite B2 in Hcd.
    set (idx := b_size b / 64) in *. set (bit := b_size b mod 64) in *.
    assert (Hidx : 0 <= idx < zlength (b_words b)) by (rewrite B4; lia).
    set (w0 := wget (b_words b) idx).
    set (w := if bit =? 0 then Z.shiftl (Z.b2z v) bit else Z.lor w0 (Z.shiftl (Z.b2z v) bit)).
    assert (Hw0 : bit <> 0 -> 0 <= w0 < 2 ^ bit) by (intros Hb; apply B5; exact Hb).
    assert (Hwbits : forall k, 0 <= k -> Z.testbit w k = ((negb (bit =? 0)) && Z.testbit w0 k) || (v && (bit =? k))).
    { intros k Hk. unfold w. destruct (Z.eqb_spec bit 0); cbn [negb andb orb].
      - apply shiftl_b2z_testbit; lia.
      - rewrite Z.lor_spec, shiftl_b2z_testbit by lia. reflexivity. }
    assert (Hwnn : 0 <= w).
    { unfold w. destruct (Z.eqb_spec bit 0).
      - apply Z.shiftl_nonneg. destruct v; cbn; lia.
      - apply Z.lor_nonneg. split; [apply Hw0; assumption|apply Z.shiftl_nonneg; destruct v; cbn; lia]. }
    assert (Hw0high : forall k, bit <= k -> ((negb (bit =? 0)) && Z.testbit w0 k) = false).
    { intros k Hk. destruct (Z.eqb_spec bit 0); cbn [negb andb]; [reflexivity|].
      apply (word_ok_testbit_high bit w0 k); [lia|apply Hw0; assumption|exact Hk]. }
    split; [exact I|]. left. split; [reflexivity|]. split; [|split; [reflexivity|]].
    + unfold bs_inv; cbn [b_size b_cap b_words b_data].
      split; [lia|]. split; [exact B2|]. split; [exact B3|]. split; [rewrite zlength_wset; exact B4|]. split; [|exact B6].
      intros Hm.
      assert (Hb63 : bit + 1 < 64).
      { destruct (Z.eq_dec (bit + 1) 64) as [E|E]; [|lia]. exfalso. apply Hm.
        replace (b_size b + 1) with ((idx + 1) * 64) by lia. apply Z.mod_mul. lia. }
      assert (Eq : (b_size b + 1) / 64 = idx) by (symmetry; apply (Z.div_unique _ 64 idx (bit + 1)); lia).
      assert (Em : (b_size b + 1) mod 64 = bit + 1) by (symmetry; apply (Z.mod_unique _ 64 idx (bit + 1)); lia).
      rewrite Eq, Em, wget_wset_same by lia.
      apply (word_ok_of_bits (bit + 1) w); [lia|exact Hwnn|].
      intros k Hk. rewrite Hwbits by lia. rewrite Hw0high by lia. destruct (Z.eqb_spec bit k); [lia|]. apply andb_false_r.
    + intros j Hj. unfold bs_bit; cbn [b_words]. rewrite !bv_get_wget.
      destruct (div64_facts j ltac:(lia)) as (J1 & J2 & J3).
      destruct (Z.eq_dec (j / 64) idx) as [Eq|Ne].
      * rewrite Eq, wget_wset_same by lia. rewrite Hwbits by lia. fold w0.
        destruct (Z.ltb_spec j (b_size b)).
        -- assert (j mod 64 < bit) by lia. destruct (Z.eqb_spec bit (j mod 64)); [lia|].
           destruct (Z.eqb_spec bit 0); [lia|]. cbn [negb andb]. rewrite andb_false_r, orb_false_r. reflexivity.
        -- assert (j mod 64 = bit) by lia. rewrite H0. rewrite Hw0high by lia. rewrite Z.eqb_refl, andb_true_r. reflexivity.
      * assert (j < b_size b) by (destruct (Z.ltb_spec j (b_size b)); [assumption|exfalso; apply Ne; assert (j = b_size b) by lia; subst j; reflexivity]).
        destruct (Z.ltb_spec j (b_size b)); [|lia]. rewrite wget_wset_other by lia. reflexivity.
Qed.

(* release(arena): the word array goes back to the arena with capacity/8 bytes (its own release class), the bit set is empty,
   every other live block stays live *)
Theorem bs_release_sound a b : inv a -> bs_inv a b ->
  let r := bs_release a b in
  inv (fst r) /\ bs_inv (fst r) (snd r) /\ b_size (snd r) = 0 /\ keeps_others a (fst r) (b_data b).
Proof.
  intros I B. pose proof B as (B1 & B2 & B3 & B4 & B5 & B6). unfold bs_release.
  destruct (b_data b) as [p|] eqn:Ed; cbn [fst snd].
  - destruct B6 as [Hc0 (asz & Hin & Hle & Hc1 & Hc2)]. rewrite Z.mul_1_r in *.
    destruct (free_reusable_sound a p (b_cap b / 8) asz I Hin Hc1 Hc2) as [I' _].
    split; [exact I'|]. split; [|split; [reflexivity|apply (free_keeps a p (b_cap b / 8) asz I Hin Hc1 Hc2)]].
    unfold bs_inv, bitset_empty; cbn [b_size b_cap b_words b_data].
    split; [lia|]. split; [reflexivity|]. split; [reflexivity|]. split; [reflexivity|]. split; [|reflexivity].
    intros Hm. exfalso. apply Hm. reflexivity.
  - split; [exact I|]. split; [exact B|]. split; [lia|apply keeps_others_refl].
Qed.

(* ------------------------------------------------------------------ set_bit at the bit-set level *)
Lemma set_word_bits w b (v : bool) k : 0 <= b < 64 -> 0 <= k ->
  Z.testbit (Z.lor (Z.land w (wnot 64 (Z.shiftl 1 b mod 2 ^ 64))) (Z.shiftl (Z.b2z v) b mod 2 ^ 64)) k =
  (k <? 64) && ((Z.testbit w k && negb (b =? k)) || (v && (b =? k))).
Proof.
  intros Hb Hk. rewrite Z.lor_spec, Z.land_spec, wnot_testbit, !mod_pow2_testbit by lia.
  change (Z.shiftl 1 b) with (Z.shiftl (Z.b2z true) b). rewrite !shiftl_b2z_testbit by lia. cbn [andb].
  destruct (k <? 64), (b =? k), (Z.testbit w k), v; reflexivity.
Qed.

(* set_bit(index, value) for index < size: the invariant is kept (the unused bits stay clear), bit `index` holds the value,
   every other bit is unchanged *)
Theorem bs_set_bit_sound a b i v : bs_inv a b -> 0 <= i < b_size b ->
  bs_inv a (bs_set_bit b i v) /\ b_size (bs_set_bit b i v) = b_size b /\
  forall j, 0 <= j < b_size b -> bs_bit (bs_set_bit b i v) j = if j =? i then v else bs_bit b j.
Proof.
  intros (B1 & B2 & B3 & B4 & B5 & B6) Hi.
  destruct (div64_facts i ltac:(lia)) as (I1 & I2 & I3).
  destruct (div64_facts (b_size b) ltac:(lia)) as (D1 & D2 & D3).
  pose proof (Z.div_mod (b_cap b) 64 ltac:(lia)) as Hcd. rewrite B2 in Hcd.
  assert (Hidx : 0 <= i / 64 < zlength (b_words b)) by (rewrite B4; lia).
  unfold bs_set_bit, bs_with_words, bv_set, BW.
  change (nthw (b_words b) (i / 64)) with (wget (b_words b) (i / 64)).
  set (w := wget (b_words b) (i / 64)).
  set (neww := Z.lor (Z.land w (wnot 64 (Z.shiftl 1 (i mod 64) mod 2 ^ 64))) (Z.shiftl (Z.b2z v) (i mod 64) mod 2 ^ 64)).
  assert (Eupd : updw (b_words b) (Z.to_nat (i / 64)) neww = wset (b_words b) (i / 64) neww).
  { unfold wset. destruct (Z.leb_spec 0 (i / 64)); [|lia]. destruct (Z.ltb_spec (i / 64) (zlength (b_words b))); [|lia]. reflexivity. }
  rewrite Eupd.
  split; [|split; [reflexivity|]].
  - unfold bs_inv; cbn [b_size b_cap b_words b_data].
    split; [exact B1|]. split; [exact B2|]. split; [exact B3|]. split; [rewrite zlength_wset; exact B4|]. split; [|exact B6].
    intros Hm. specialize (B5 Hm).
    destruct (Z.eq_dec (i / 64) (b_size b / 64)) as [Eq|Ne].
    + rewrite <- Eq, wget_wset_same by lia. rewrite <- Eq in B5. fold w in B5.
      apply (word_ok_of_bits (b_size b mod 64) neww); [lia| |].
      * unfold neww. apply Z.lor_nonneg. split; [apply Z.land_nonneg; left; lia|].
        apply Z.mod_pos_bound. reflexivity.
      * intros k Hk. unfold neww. rewrite set_word_bits by lia.
        rewrite (word_ok_testbit_high (b_size b mod 64) w k) by (try lia; exact B5).
        destruct (Z.eqb_spec (i mod 64) k); [lia|]. cbn [andb negb orb]. rewrite andb_false_r. apply andb_false_r.
    + rewrite wget_wset_other by lia. exact B5.
  - intros j Hj. unfold bs_bit; cbn [b_words]. rewrite !bv_get_wget.
    destruct (div64_facts j ltac:(lia)) as (J1 & J2 & J3).
    destruct (Z.eq_dec (j / 64) (i / 64)) as [Eq|Ne].
    + rewrite Eq, wget_wset_same by lia. unfold neww. rewrite set_word_bits by lia. fold w.
      destruct (Z.ltb_spec (j mod 64) 64); [|lia]. cbn [andb].
      destruct (Z.eqb_spec j i) as [E|E].
      * subst j. rewrite Z.eqb_refl. cbn [negb]. rewrite andb_false_r, andb_true_r. reflexivity.
      * destruct (Z.eqb_spec (i mod 64) (j mod 64)); [lia|]. cbn [negb]. rewrite andb_true_r, andb_false_r, orb_false_r. reflexivity.
    + destruct (Z.eqb_spec j i) as [E|E]; [subst j; contradiction|]. rewrite wget_wset_other by lia. reflexivity.
Qed.

(* ------------------------------------------------------------------ clear_all / fill_all / truncate at the bit-set level *)
Lemma wpb_le_cap b a : bs_inv a b -> 0 <= words_per_bits (b_size b) <= zlength (b_words b) /\
  (forall j, 0 <= j < b_size b -> 0 <= j / 64 < words_per_bits (b_size b)).
Proof.
  intros (B1 & B2 & B3 & B4 & B5 & B6).
  pose proof (Z.div_mod (b_cap b) 64 ltac:(lia)) as Hcd. rewrite B2 in Hcd.
  destruct (div64_facts (b_size b) ltac:(lia)) as (D1 & D2 & D3).
  rewrite (wpb_spec (b_size b) ltac:(lia)). rewrite B4. split.
  - destruct (Z.eqb_spec (b_size b mod 64) 0); lia.
  - intros j Hj. destruct (div64_facts j ltac:(lia)) as (J1 & J2 & J3).
    assert (j / 64 <= b_size b / 64) by (apply Z.div_le_mono; lia).
    destruct (Z.eqb_spec (b_size b mod 64) 0); lia.
Qed.

Theorem bs_clear_all_sound a b : bs_inv a b ->
  bs_inv a (bs_clear_all b) /\ b_size (bs_clear_all b) = b_size b /\ forall j, 0 <= j < b_size b -> bs_bit (bs_clear_all b) j = false.
Proof.
  intros B. pose proof B as (B1 & B2 & B3 & B4 & B5 & B6). destruct (wpb_le_cap b a B) as [Hw Hj].
  unfold bs_clear_all, bs_with_words.
  set (n := Z.to_nat (words_per_bits (b_size b))).
  assert (Hn : Z.of_nat n = words_per_bits (b_size b)) by (unfold n; lia).
  assert (Hget : forall k, 0 <= k < words_per_bits (b_size b) -> wget (wfill (b_words b) 0 n 0) k = 0).
  { intros k Hk. rewrite wget_wfill by lia. destruct (Z.leb_spec 0 k); [|lia]. destruct (Z.ltb_spec k (0 + Z.of_nat n)); [reflexivity|lia]. }
  split; [|split; [reflexivity|]].
  - unfold bs_inv; cbn [b_size b_cap b_words b_data]. split; [exact B1|]. split; [exact B2|]. split; [exact B3|].
    split; [rewrite zlength_wfill; exact B4|]. split; [|exact B6].
    intros Hm. destruct (div64_facts (b_size b) ltac:(lia)) as (D1 & D2 & D3).
    rewrite Hget.
    + split; [lia|]. apply Z.pow_pos_nonneg; lia.
    + rewrite (wpb_spec (b_size b) ltac:(lia)). destruct (Z.eqb_spec (b_size b mod 64) 0); [contradiction|lia].
  - intros j Hjr. unfold bs_bit; cbn [b_words]. rewrite bv_get_wget, Hget by (apply Hj; exact Hjr). apply Z.bits_0.
Qed.

Theorem bs_fill_all_sound a b : bs_inv a b ->
  bs_inv a (bs_fill_all b) /\ b_size (bs_fill_all b) = b_size b /\ forall j, 0 <= j < b_size b -> bs_bit (bs_fill_all b) j = true.
Proof.
  intros B. pose proof B as (B1 & B2 & B3 & B4 & B5 & B6). destruct (wpb_le_cap b a B) as [Hw Hj].
  unfold bs_fill_all, bs_clear_unused, bs_with_words. cbn [b_size b_words b_data b_cap].
  set (n := Z.to_nat (words_per_bits (b_size b))).
  assert (Hn : Z.of_nat n = words_per_bits (b_size b)) by (unfold n; lia).
  set (ws := wfill (b_words b) 0 n (Z.ones 64)).
  assert (Hget : forall k, 0 <= k < words_per_bits (b_size b) -> wget ws k = Z.ones 64).
  { intros k Hk. unfold ws. rewrite wget_wfill by lia. destruct (Z.leb_spec 0 k); [|lia]. destruct (Z.ltb_spec k (0 + Z.of_nat n)); [reflexivity|lia]. }
  assert (Hlen : zlength ws = b_cap b / 64) by (unfold ws; rewrite zlength_wfill; exact B4).
  destruct (div64_facts (b_size b) ltac:(lia)) as (D1 & D2 & D3).
  pose proof (Z.div_mod (b_cap b) 64 ltac:(lia)) as Hcd. rewrite B2 in Hcd.
  destruct (Z.eqb_spec (b_size b mod 64) 0) as [E|E]; cbn [b_size b_words b_data b_cap].
  - split; [|split; [reflexivity|]].
    + unfold bs_inv; cbn [b_size b_cap b_words b_data]. split; [exact B1|]. split; [exact B2|]. split; [exact B3|]. split; [exact Hlen|].
      split; [intros Hm; contradiction|exact B6].
    + intros j Hjr. unfold bs_bit; cbn [b_words]. rewrite bv_get_wget, Hget by (apply Hj; exact Hjr).
      destruct (div64_facts j ltac:(lia)) as (J1 & J2 & J3). rewrite ones_testbit by lia. apply Z.ltb_lt. lia.
  - assert (Hidx : 0 <= b_size b / 64 < zlength ws) by (rewrite Hlen; lia).
    assert (Hidxw : 0 <= b_size b / 64 < words_per_bits (b_size b)).
    { rewrite (wpb_spec (b_size b) ltac:(lia)). destruct (Z.eqb_spec (b_size b mod 64) 0); [contradiction|lia]. }
    split; [|split; [reflexivity|]].
    + unfold bs_inv; cbn [b_size b_cap b_words b_data]. split; [exact B1|]. split; [exact B2|]. split; [exact B3|].
      split; [rewrite zlength_wset; exact Hlen|]. split; [|exact B6].
      intros _. rewrite wget_wset_same by lia. rewrite Z.land_ones by lia. apply Z.mod_pos_bound. apply Z.pow_pos_nonneg; lia.
    + intros j Hjr. unfold bs_bit; cbn [b_words]. rewrite bv_get_wget.
      destruct (div64_facts j ltac:(lia)) as (J1 & J2 & J3).
      destruct (Z.eq_dec (j / 64) (b_size b / 64)) as [Eq|Ne].
      * rewrite Eq, wget_wset_same by lia. rewrite Hget by exact Hidxw. rewrite Z.land_spec, !ones_testbit by lia.
        apply andb_true_intro. split; apply Z.ltb_lt; lia.
      * rewrite wget_wset_other by lia. rewrite Hget by (apply Hj; exact Hjr). rewrite ones_testbit by lia. apply Z.ltb_lt. lia.
Qed.

(* truncate(n) is resize to min(size, n) *)
Theorem bs_truncate_sound a b n : bs_inv a b -> 0 <= n ->
  bs_inv a (bs_truncate b n) /\ b_size (bs_truncate b n) = Z.min (b_size b) n /\
  forall j, 0 <= j < Z.min (b_size b) n -> bs_bit (bs_truncate b n) j = bs_bit b j.
Proof.
  intros B Hn. pose proof B as (B1 & _). set (mok := fun _ : Z => true).
  pose proof (bs_resize_shrink_sound mok a b (Z.min (b_size b) n) 0 false B ltac:(lia)) as H.
  assert (E : bs_resize mok a b (Z.min (b_size b) n) 0 false = (EOk, a, bs_truncate b n)).
  { unfold bs_resize, bs_truncate, bs_clear_unused, bs_with_words. cbn [b_size b_words b_data b_cap].
    destruct (Z.leb_spec (Z.min (b_size b) n) (b_size b)); [|lia]. destruct (Z.min (b_size b) n mod 64 =? 0); reflexivity. }
  rewrite E in H. destruct H as (_ & _ & H1 & H2 & _ & _ & H3). auto.
Qed.

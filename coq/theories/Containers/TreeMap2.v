(* C18 (6), round 7 — consequences of the finite-map theorems: get returns a node that carries the key it was asked for, two
   different member keys are answered with different nodes, and after remove no key is answered with the removed node (so the
   node may be handed to insert again). *)
From Coq Require Import ZArith List Bool Lia Permutation.
From Verif Require Import Containers.TreeModel Containers.TreeGeneral Containers.TreeRotate Containers.TreeRecolor
  Containers.TreeInsertAbs Containers.TreeInsertRefine Containers.TreeRemoveAbs Containers.TreeRemoveRefine Containers.TreeOps Containers.TreeKeys Containers.TreeMap.
Import ListNotations.
Local Open Scope Z_scope.

Theorem tinv_get_key t keys I k : TInv t keys I -> Z.of_nat (length keys) + 1 < 2 ^ 49 -> In k keys ->
  key (heap t) (tree_get t k) = k /\ 1 < tree_get t k /\ In (tree_get t k) I.
Proof.
  intros (T & b & Hr & Hnd & Hi & Hb & Hred & Hs & Hk) Hlen Hin. subst keys.
  assert (Hh : (bheight T < 97)%nat) by (apply (small_height T b Hb Hred); unfold bsize; lia).
  assert (Eg : tree_get t k = lookup T k) by (unfold tree_get; apply get_loop_rep; [exact Hr|lia]).
  rewrite Eg. destruct (lookup_in _ T _ k Hr Hs Hin) as [A B]. split; [exact B|]. exact (Hi _ A).
Qed.

Theorem tinv_get_injective t keys I k1 k2 : TInv t keys I -> Z.of_nat (length keys) + 1 < 2 ^ 49 -> In k1 keys -> In k2 keys ->
  tree_get t k1 = tree_get t k2 -> k1 = k2.
Proof.
  intros HI Hlen H1 H2 E. destruct (tinv_get_key t keys I k1 HI Hlen H1) as [A _]. destruct (tinv_get_key t keys I k2 HI Hlen H2) as [B _].
  rewrite E in A. congruence.
Qed.

Theorem tinv_remove_gone t keys I kn : TInv t keys I -> In kn keys -> Z.of_nat (length keys) + 1 < 2 ^ 49 ->
  forall k, tree_get (tree_remove t (tree_get t kn)) k <> tree_get t kn.
Proof.
  intros HI Hin Hlen k. rewrite (tinv_remove_map t keys I kn HI Hin Hlen k).
  destruct (tinv_get_key t keys I kn HI Hlen Hin) as (_ & Hgt & _).
  destruct (Z.eqb_spec k kn) as [->|Hne]; [lia|]. intros E.
  assert (Hk : In k keys).
  { apply (proj1 (proj2 (proj2 (tinv_reads t keys I HI Hlen)))). rewrite E. lia. }
  apply Hne. exact (tinv_get_injective t keys I k kn HI Hlen Hk Hin E).
Qed.

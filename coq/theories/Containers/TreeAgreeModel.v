(* C18 (6) — executable cross-check used by the model driver on every tree operation of a run: the heap model of
   ArenaTree::insert / remove (TreeModel.v) and the proven abstract functions (TreeInsertAbs.zinsert, TreeRemoveAbs.zremove)
   give the same tree (same shape, ids, colours, keys). This agreement is a theorem for both (TreeInsertRefine.v, TreeRemoveRefine.v); the run-time
   check stays as a regression test of the statement. *)
From Coq Require Import ZArith List Bool.
From Verif Require Import Containers.TreeModel Containers.TreeGeneral Containers.TreeInsertAbs Containers.TreeRemoveAbs.
Import ListNotations.
Local Open Scope Z_scope.

Fixpoint btree_eqb (a b : btree) : bool :=
  match a, b with
  | BL, BL => true
  | BN l i c k r, BN l' i' c' k' r' => btree_eqb l l' && (i =? i') && Bool.eqb c c' && (k =? k') && btree_eqb r r'
  | _, _ => false
  end.

Definition insert_agrees (t : tree) (node k : Z) : bool :=
  match extract 200 (heap t) (root t) with
  | Some T =>
    let t' := tree_insert t node k in
    match extract 200 (heap t') (root t'), (match T with BL => Some (BN BL node false k BL) | _ => zinsert node k 200 T end) with
    | Some R', Some R => btree_eqb R' R
    | _, _ => false
    end
  | None => false
  end.

Definition remove_agrees (t : tree) (node : Z) : bool :=
  match extract 200 (heap t) (root t) with
  | Some T =>
    let t' := tree_remove t node in
    match extract 200 (heap t') (root t'), zremove (key (heap t) node) 200 T with
    | Some R', Some R => btree_eqb R' R
    | _, _ => false
    end
  | None => false
  end.

(* C18 (7) — executable model of ArenaBitSet (support/arenabitset_p.h, arenabitset.cpp) on top of the arena and the bit-vector
   models: 64-bit words, size and capacity in bits (uint32). The storage is a word list of capacity/64 cells (fresh cells
   hold the poison value -1). _resize follows the code with fixes/C18-bitset-resize-grow.patch. *)
From Coq Require Import ZArith List Bool.
From Verif Require Import Containers.BitVecModel Containers.ArenaModel Containers.VecModel.
Import ListNotations.
Local Open Scope Z_scope.

Record bitset := mkbs { b_data : option addr; b_words : list Z; b_size : Z; b_cap : Z }.
Definition bitset_empty : bitset := mkbs None [] 0 0.
Definition BW : Z := 64.
Definition words_per_bits (n : Z) : Z := (n + 63) / 64.

Definition wget (ws : list Z) (i : Z) : Z := nth (Z.to_nat i) ws 0.
Definition wset (ws : list Z) (i : Z) (v : Z) : list Z := if (0 <=? i) && (i <? zlength ws) then updw ws (Z.to_nat i) v else ws.
Fixpoint wfill (ws : list Z) (i : Z) (n : nat) (v : Z) : list Z :=
  match n with O => ws | S k => wfill (wset ws i v) (i + 1) k v end.

(* the bits of the set *)
Definition bs_bits (b : bitset) : list bool := map (fun j => bv_get BW (b_words b) j) (zseq 0 (Z.to_nat (b_size b))).

(* the second half of _resize when growing: give the bits [old_size, new_size) the value v (words beyond the old size are
   uninitialised), keep the old bits, clear the unused bits of the new last word *)
Definition grow_words (ws : list Z) (old_size new_size : Z) (v : bool) : list Z :=
  let idx := old_size / 64 in let start_bit := old_size mod 64 in let end_bit := new_size mod 64 in
  let pattern := if v then Z.ones 64 else 0 in
  let '(ws1, idx1) :=
    if start_bit =? 0 then (ws, idx)
    else let num_bits := if idx =? new_size / 64 then end_bit - start_bit else 64 - start_bit in
         (wset ws idx (Z.lor (wget ws idx) (Z.shiftl (Z.shiftr pattern (64 - num_bits)) start_bit mod 2 ^ 64)), idx + 1) in
  let end_index := words_per_bits new_size in
  let ws2 := wfill ws1 idx1 (Z.to_nat (end_index - idx1)) pattern in
  if end_bit =? 0 then ws2 else wset ws2 (end_index - 1) (Z.land (wget ws2 (end_index - 1)) (Z.ones end_bit)).

(* _resize(arena, new_size, ideal_capacity, new_bits_value) *)
Definition bs_resize (mok : Z -> bool) (a : arena) (b : bitset) (new_size ideal : Z) (v : bool) : verr * arena * bitset :=
  if new_size <=? b_size b then
    let idx := new_size / 64 in let bit := new_size mod 64 in
    let ws := if bit =? 0 then b_words b else wset (b_words b) idx (Z.land (wget (b_words b) idx) (Z.ones bit)) in
    (EOk, a, mkbs (b_data b) ws new_size (b_cap b))
  else
    let old_size := b_size b in
    let grow :=
      if new_size >? b_cap b then
        let min_bits := (((ideal + 63) / 64) * 64) mod 2 ^ 64 in
        if min_bits <? new_size then None
        else match alloc_reusable mok a (min_bits / 8) with
             | (None, a1) => Some (EOutOfMemory, a1, b)
             | (Some (p, asz), a1) =>
               let cap_bits := asz * 8 in
               let nwords := firstn (Z.to_nat (words_per_bits old_size)) (b_words b) ++
                             zrepeat poison (cap_bits / 64 - words_per_bits old_size) in
               let a2 := match b_data b with Some old => free_reusable a1 old (b_cap b / 8) | None => a1 end in
               Some (EOk, a2, mkbs (Some p) nwords old_size (cap_bits mod 2 ^ 32))
             end
      else Some (EOk, a, b) in
    match grow with
    | None => (EOutOfMemory, a, b)
    | Some (EOk, a2, b1) => (EOk, a2, mkbs (b_data b1) (grow_words (b_words b1) old_size new_size v) new_size (b_cap b1))
    | Some r => r
    end.

Definition bs_resize_pub mok a b n v := bs_resize mok a b n n v.

(* append(arena, value): inline fast path, else _append *)
Definition bs_append (mok : Z -> bool) (a : arena) (b : bitset) (v : bool) : verr * arena * bitset :=
  let index := b_size b in
  if index >=? b_cap b then
    let kThreshold := 16777216 * 8 in
    let new_size := (b_size b + 1) mod 2 ^ 32 in
    let ideal := if b_cap b <? 128 then 128 else if b_cap b <=? kThreshold then (b_cap b * 2) mod 2 ^ 32 else (b_cap b + kThreshold) mod 2 ^ 32 in
    if ideal <? b_cap b then
      if b_size b =? 4294967295 then (EOutOfMemory, a, b) else bs_resize mok a b new_size new_size v
    else bs_resize mok a b new_size ideal v
  else
    let idx := index / 64 in let bit := index mod 64 in
    let w := if bit =? 0 then Z.shiftl (Z.b2z v) bit else Z.lor (wget (b_words b) idx) (Z.shiftl (Z.b2z v) bit) in
    (EOk, a, mkbs (b_data b) (wset (b_words b) idx w) (index + 1) (b_cap b)).

Definition bs_with_words (b : bitset) (ws : list Z) : bitset := mkbs (b_data b) ws (b_size b) (b_cap b).
Definition bs_clear_unused (b : bitset) : bitset :=
  let idx := b_size b / 64 in let bit := b_size b mod 64 in
  if bit =? 0 then b else bs_with_words b (wset (b_words b) idx (Z.land (wget (b_words b) idx) (Z.ones bit))).

Definition bs_set_bit (b : bitset) (i : Z) (v : bool) : bitset := bs_with_words b (bv_set BW (b_words b) i v).
Definition bs_bit_at (b : bitset) (i : Z) : bool := bv_get BW (b_words b) i.
Definition bs_fill_bits (b : bitset) (start count : Z) : bitset := bs_with_words b (bv_fill BW (b_words b) start count).
Definition bs_clear_bits (b : bitset) (start count : Z) : bitset := bs_with_words b (bv_clear BW (b_words b) start count).
Definition bs_clear_all (b : bitset) : bitset := bs_with_words b (wfill (b_words b) 0 (Z.to_nat (words_per_bits (b_size b))) 0).
Definition bs_fill_all (b : bitset) : bitset :=
  bs_clear_unused (bs_with_words b (wfill (b_words b) 0 (Z.to_nat (words_per_bits (b_size b))) (Z.ones 64))).
Definition bs_truncate (b : bitset) (n : Z) : bitset := bs_clear_unused (mkbs (b_data b) (b_words b) (Z.min (b_size b) n) (b_cap b)).
Definition bs_release (a : arena) (b : bitset) : arena * bitset :=
  match b_data b with Some p => (free_reusable a p (b_cap b / 8), bitset_empty) | None => (a, b) end.

(* ---- binary operations with another bit set `o` (its words beyond its size are not read past words_per_bits) *)
Fixpoint wcombine (f : Z -> Z -> Z) (dst src : list Z) (i : Z) (n : nat) : list Z :=
  match n with O => dst | S k => wcombine f (wset dst i (f (wget dst i) (wget src i))) src (i + 1) k end.

(* and_(other): common words are and-ed, the remaining words of `this` become 0 *)
Definition bs_and (b o : bitset) : bitset :=
  let tw := words_per_bits (b_size b) in let ow := words_per_bits (b_size o) in let c := Z.min tw ow in
  bs_with_words b (wfill (wcombine Z.land (b_words b) (b_words o) 0 (Z.to_nat c)) c (Z.to_nat (tw - c)) 0).
(* and_not(other): dst & ~src on the words of min(size, other.size) *)
Definition bs_and_not (b o : bitset) : bitset :=
  let c := words_per_bits (Z.min (b_size b) (b_size o)) in
  bs_with_words b (wcombine (fun d s => Z.land d (Z.lxor s (Z.ones 64))) (b_words b) (b_words o) 0 (Z.to_nat c)).
(* or_(other): dst | src on the words of min(size, other.size), then the unused bits of the last word are cleared *)
Definition bs_or (b o : bitset) : bitset :=
  let c := words_per_bits (Z.min (b_size b) (b_size o)) in
  bs_clear_unused (bs_with_words b (wcombine Z.lor (b_words b) (b_words o) 0 (Z.to_nat c))).
(* copy_from(arena, other) *)
Definition bs_copy_from (mok : Z -> bool) (a : arena) (b o : bitset) : verr * arena * bitset :=
  let new_size := b_size o in
  if new_size =? 0 then (EOk, a, mkbs (b_data b) (b_words b) 0 (b_cap b))
  else
    let fin (a2 : arena) (b1 : bitset) :=
      (EOk, a2, mkbs (b_data b1) (wcombine (fun _ s => s) (b_words b1) (b_words o) 0 (Z.to_nat (words_per_bits new_size))) new_size (b_cap b1)) in
    if new_size >? b_cap b then
      let min_bits := (((new_size + 63) / 64) * 64) mod 2 ^ 64 in
      if min_bits <? new_size then (EOutOfMemory, a, b)
      else
      match alloc_reusable mok a (min_bits / 8) with
      | (None, a1) => (EOutOfMemory, a1, b)
      | (Some (p, asz), a1) =>
        let cap_bits := asz * 8 in
        let a2 := match b_data b with Some old => free_reusable a1 old (b_cap b / 8) | None => a1 end in
        fin a2 (mkbs (Some p) (zrepeat poison (cap_bits / 64)) 0 (cap_bits mod 2 ^ 32))
      end
    else fin a b.

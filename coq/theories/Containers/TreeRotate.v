(* C18 (6) — building blocks for the unbounded tree proof: the node heap (binary trie) behaves like a finite map, updates
   of nodes outside a subtree do not change what the subtree represents (frame rule), and the rotations of ArenaTree
   (_single_rotate, _double_rotate) turn the heap representation of a tree into the representation of the rotated tree:
   same keys in the same in-order sequence, same node identities, colours as in the C++. For arbitrary heaps and trees. *)
From Coq Require Import ZArith List Bool Lia.
From Verif Require Import Containers.TreeModel Containers.TreeGeneral.
Import ListNotations.
Local Open Scope Z_scope.

(* ---- the trie is a map *)
Lemma pget_pset_same t p x : pget (pset t p x) p = Some x.
Proof. revert t. induction p; intros [|l v r]; cbn; auto. Qed.

Lemma pget_leaf p : pget PLeaf p = None.
Proof. destruct p; reflexivity. Qed.

Lemma pget_pset_other t p q x : p <> q -> pget (pset t p x) q = pget t q.
Proof.
  revert t q. induction p; intros [|l v r] [q|q|] Hne; cbn; try congruence; rewrite ?pget_leaf; auto;
    try (rewrite IHp by congruence; rewrite ?pget_leaf; reflexivity).
Qed.

Lemma hget_hset_same h id x : 0 < id -> hget (hset h id x) id = x.
Proof. destruct id; try lia. intros _. cbn. rewrite pget_pset_same. reflexivity. Qed.

Lemma hget_hset_other h id id' x : id <> id' -> hget (hset h id x) id' = hget h id'.
Proof.
  intros Hne. destruct id, id'; cbn; try reflexivity. rewrite pget_pset_other by congruence. reflexivity.
Qed.

(* ---- frame rule *)
Fixpoint bids (t : btree) : list Z := match t with BL => [] | BN l id _ _ r => bids l ++ id :: bids r end.

Lemma rep_frame h h' : forall t n, (forall id, In id (bids t) -> hget h' id = hget h id) -> rep h n t -> rep h' n t.
Proof.
  induction t as [|l IHl id red k r IHr]; intros n Hsame Hr; cbn [rep] in *; [exact Hr|].
  destruct Hr as (-> & Hid & Hred & Hk & Hl & Hrr).
  assert (Hnode : hget h' id = hget h id) by (apply Hsame; cbn; apply in_or_app; right; left; reflexivity).
  unfold is_red, key, child in *. rewrite Hnode. repeat split; auto.
  - apply IHl; [|exact Hl]. intros x Hx. apply Hsame. cbn. apply in_or_app. left. exact Hx.
  - apply IHr; [|exact Hrr]. intros x Hx. apply Hsame. cbn. apply in_or_app. right. right. exact Hx.
Qed.

Lemma rep_root_id h n t : rep h n t -> n = match t with BL => 0 | BN _ id _ _ _ => id end.
Proof. destruct t; cbn; intuition. Qed.

Lemma rep_ids_pos h : forall t n, rep h n t -> Forall (fun id => id <> 0) (bids t).
Proof.
  induction t as [|l IHl id red k r IHr]; intros n Hr; cbn in *; [constructor|].
  destruct Hr as (_ & Hid & _ & _ & Hl & Hrr). apply Forall_app. split; [eapply IHl; eauto|constructor; [exact Hid|eapply IHr; eauto]].
Qed.

(* ---- the abstract rotation: dir = false rotates left (the right child comes up), dir = true rotates right *)
Definition rot (t : btree) (dir : bool) : option btree :=
  match dir, t with
  | false, BN a x _ kx (BN b y _ ky c) => Some (BN (BN a x true kx b) y false ky c)
  | true, BN (BN a y _ ky b) x _ kx c => Some (BN a y false ky (BN b x true kx c))
  | _, _ => None
  end.

Lemma rot_keys t dir t' : rot t dir = Some t' -> bkeys t' = bkeys t /\ bids t' = bids t.
Proof.
  destruct dir, t as [|[|a y ry ky b] x rx kx [|b' y' ry' ky' c]]; cbn; intros H; inversion H; subst; cbn;
    rewrite <- ?app_assoc; cbn; rewrite <- ?app_assoc; split; reflexivity.
Qed.

(* node ids are positive in the model (0 = null); a positive id is needed for heap updates to take effect *)
Definition ids_pos (t : btree) : Prop := Forall (fun id => 0 < id) (bids t).

Theorem single_rotate_rep h n t dir t' : rep h n t -> NoDup (bids t) -> ids_pos t -> rot t dir = Some t' ->
  let '(h', n') := single_rotate h n dir in
  rep h' n' t' /\ (forall id, ~ In id (bids t) -> hget h' id = hget h id).
Proof.
  intros Hr Hnd Hpos Hrot. unfold single_rotate.
  destruct dir.
  - (* rotate right: t = BN (BN a y _ ky b) x _ kx c *)
    destruct t as [|[|a y ry ky b] x rx kx c]; cbn [rot] in Hrot; try discriminate. inversion Hrot; subst t'. clear Hrot.
    cbn [rep] in Hr. destruct Hr as (-> & Hx & Hrx & Hkx & (Hyid & Hy & Hry & Hky & Ha & Hb) & Hc).
    cbn [negb]. rewrite Hyid.
    cbn [bids] in Hnd, Hpos.
    assert (Hxy : x <> y).
    { intros ->. rewrite <- app_assoc in Hnd. cbn in Hnd. apply NoDup_remove_2 in Hnd. apply Hnd.
      apply in_or_app. right. apply in_or_app. right. left. reflexivity. }
    assert (Hxpos : 0 < x /\ 0 < y).
    { unfold ids_pos in Hpos. rewrite Forall_forall in Hpos. split; apply Hpos; cbn.
      - apply in_or_app. right. left. reflexivity.
      - apply in_or_app. left. apply in_or_app. right. left. reflexivity. }
    destruct Hxpos as [Hxp Hyp].
    (* the four updates *)
    set (h1 := set_child h x false (child h y true)).
    set (h2 := set_child h1 y true x).
    set (h3 := set_red h2 x true).
    set (h4 := set_red h3 y false).
    assert (Hother : forall id, id <> x -> id <> y -> hget h4 id = hget h id).
    { intros id H1 H2. unfold h4, h3, h2, h1, set_red, set_child.
      rewrite !hget_hset_other by congruence. reflexivity. }
    assert (Hnx : hget h4 x = mktn (child h y true) (t_right (hget h x)) true (t_key (hget h x))).
    { unfold h4, set_red. rewrite hget_hset_other by congruence.
      unfold h3, set_red. rewrite hget_hset_same by lia.
      unfold h2, set_child. rewrite hget_hset_other by congruence.
      unfold h1, set_child. rewrite hget_hset_same by lia. cbn [t_left t_right t_red t_key]. reflexivity. }
    assert (Hny : hget h4 y = mktn (t_left (hget h y)) x false (t_key (hget h y))).
    { unfold h4, set_red. rewrite hget_hset_same by lia.
      unfold h3, set_red. rewrite hget_hset_other by congruence.
      unfold h2, set_child. rewrite hget_hset_same by lia.
      unfold h1, set_child. rewrite hget_hset_other by congruence. cbn [t_left t_right t_red t_key]. reflexivity. }
    assert (Hnotin : forall s, (forall id, In id (bids s) -> id <> x /\ id <> y) -> forall m, rep h m s -> rep h4 m s).
    { intros s Hs m Hm. apply (rep_frame h h4 s m); [|exact Hm]. intros id Hid. destruct (Hs id Hid). apply Hother; assumption. }
    assert (Hdisj : forall id, (In id (bids a) \/ In id (bids b) \/ In id (bids c)) -> id <> x /\ id <> y).
    { intros id Hin. rewrite <- app_assoc in Hnd. cbn in Hnd.
      (* bids = a ++ y :: b ++ x :: c *)
      split; intros ->.
      - (* x occurs once *)
        assert (Hnd' : NoDup (bids a ++ y :: bids b ++ x :: bids c)) by exact Hnd.
        rewrite app_comm_cons, app_assoc in Hnd'. apply NoDup_remove_2 in Hnd'. apply Hnd'.
        destruct Hin as [Hin|[Hin|Hin]]; apply in_or_app; [left; apply in_or_app; left; exact Hin|left; apply in_or_app; right; right; exact Hin|right; exact Hin].
      - apply NoDup_remove_2 in Hnd. apply Hnd.
        destruct Hin as [Hin|[Hin|Hin]]; apply in_or_app; [left; exact Hin|right; apply in_or_app; left; exact Hin|right; apply in_or_app; right; right; exact Hin]. }
    split.
    + cbn [rep]. unfold is_red, key, child. rewrite Hny. cbn [t_left t_right t_red t_key].
      destruct (Z.eqb_spec y 0); [lia|]. split; [reflexivity|]. split; [lia|]. split; [reflexivity|].
      split; [exact Hky|]. split.
      * apply Hnotin; [intros id Hid; apply Hdisj; left; exact Hid|exact Ha].
      * rewrite Hnx. cbn [t_left t_right t_red t_key]. destruct (Z.eqb_spec x 0); [lia|].
        split; [reflexivity|]. split; [lia|]. split; [reflexivity|]. split; [exact Hkx|]. split.
        -- apply Hnotin; [intros id Hid; apply Hdisj; right; left; exact Hid|exact Hb].
        -- apply Hnotin; [intros id Hid; apply Hdisj; right; right; exact Hid|exact Hc].
    + intros id Hnot. apply Hother; intros ->; apply Hnot; cbn.
      * apply in_or_app. right. left. reflexivity.
      * apply in_or_app. left. apply in_or_app. right. left. reflexivity.
  - (* rotate left: t = BN a x _ kx (BN b y _ ky c) *)
    destruct t as [|a x rx kx [|b y ry ky c]]; cbn [rot] in Hrot; try discriminate. inversion Hrot; subst t'. clear Hrot.
    cbn [rep] in Hr. destruct Hr as (-> & Hx & Hrx & Hkx & Ha & (Hyid & Hy & Hry & Hky & Hb & Hc)).
    cbn [negb]. rewrite Hyid.
    cbn [bids] in Hnd, Hpos.
    assert (Hxy : x <> y).
    { intros ->. apply NoDup_remove_2 in Hnd. apply Hnd. apply in_or_app. right. apply in_or_app. right. left. reflexivity. }
    assert (Hxpos : 0 < x /\ 0 < y).
    { unfold ids_pos in Hpos. rewrite Forall_forall in Hpos. split; apply Hpos; cbn.
      - apply in_or_app. right. left. reflexivity.
      - apply in_or_app. right. right. apply in_or_app. right. left. reflexivity. }
    destruct Hxpos as [Hxp Hyp].
    set (h1 := set_child h x true (child h y false)).
    set (h2 := set_child h1 y false x).
    set (h3 := set_red h2 x true).
    set (h4 := set_red h3 y false).
    assert (Hother : forall id, id <> x -> id <> y -> hget h4 id = hget h id).
    { intros id H1 H2. unfold h4, h3, h2, h1, set_red, set_child.
      rewrite !hget_hset_other by congruence. reflexivity. }
    assert (Hnx : hget h4 x = mktn (t_left (hget h x)) (child h y false) true (t_key (hget h x))).
    { unfold h4, set_red. rewrite hget_hset_other by congruence.
      unfold h3, set_red. rewrite hget_hset_same by lia.
      unfold h2, set_child. rewrite hget_hset_other by congruence.
      unfold h1, set_child. rewrite hget_hset_same by lia. cbn [t_left t_right t_red t_key]. reflexivity. }
    assert (Hny : hget h4 y = mktn x (t_right (hget h y)) false (t_key (hget h y))).
    { unfold h4, set_red. rewrite hget_hset_same by lia.
      unfold h3, set_red. rewrite hget_hset_other by congruence.
      unfold h2, set_child. rewrite hget_hset_same by lia.
      unfold h1, set_child. rewrite hget_hset_other by congruence. cbn [t_left t_right t_red t_key]. reflexivity. }
    assert (Hnotin : forall s, (forall id, In id (bids s) -> id <> x /\ id <> y) -> forall m, rep h m s -> rep h4 m s).
    { intros s Hs m Hm. apply (rep_frame h h4 s m); [|exact Hm]. intros id Hid. destruct (Hs id Hid). apply Hother; assumption. }
    assert (Hdisj : forall id, (In id (bids a) \/ In id (bids b) \/ In id (bids c)) -> id <> x /\ id <> y).
    { intros id Hin. split; intros ->.
      - apply NoDup_remove_2 in Hnd. apply Hnd.
        destruct Hin as [Hin|[Hin|Hin]]; apply in_or_app; [left; exact Hin|right; apply in_or_app; left; exact Hin|right; apply in_or_app; right; right; exact Hin].
      - assert (Hnd' : NoDup (bids a ++ x :: bids b ++ y :: bids c)) by exact Hnd.
        rewrite app_comm_cons, app_assoc in Hnd'. apply NoDup_remove_2 in Hnd'. apply Hnd'.
        destruct Hin as [Hin|[Hin|Hin]]; apply in_or_app; [left; apply in_or_app; left; exact Hin|left; apply in_or_app; right; right; exact Hin|right; exact Hin]. }
    split.
    + cbn [rep]. unfold is_red, key, child. rewrite Hny. cbn [t_left t_right t_red t_key].
      destruct (Z.eqb_spec y 0); [lia|]. split; [reflexivity|]. split; [lia|]. split; [reflexivity|].
      split; [exact Hky|]. split.
      * rewrite Hnx. cbn [t_left t_right t_red t_key]. destruct (Z.eqb_spec x 0); [lia|].
        split; [reflexivity|]. split; [lia|]. split; [reflexivity|]. split; [exact Hkx|]. split.
        -- apply Hnotin; [intros id Hid; apply Hdisj; left; exact Hid|exact Ha].
        -- apply Hnotin; [intros id Hid; apply Hdisj; right; left; exact Hid|exact Hb].
      * apply Hnotin; [intros id Hid; apply Hdisj; right; right; exact Hid|exact Hc].
    + intros id Hnot. apply Hother; intros ->; apply Hnot; cbn.
      * apply in_or_app. right. left. reflexivity.
      * apply in_or_app. right. right. apply in_or_app. right. left. reflexivity.
Qed.

(* ---- _double_rotate *)
Definition drot (t : btree) (dir : bool) : option btree :=
  match dir, t with
  | false, BN a x _ kx (BN (BN b z _ kz c) y _ ky d) => Some (BN (BN a x true kx b) z false kz (BN c y true ky d))
  | true, BN (BN a y _ ky (BN b z _ kz c)) x _ kx d => Some (BN (BN a y true ky b) z false kz (BN c x true kx d))
  | _, _ => None
  end.

Lemma drot_keys t dir t' : drot t dir = Some t' -> bkeys t' = bkeys t /\ bids t' = bids t.
Proof.
  destruct dir.
  - destruct t as [|[|a y ry ky [|b z rz kz c]] x rx kx d]; cbn; intros H; inversion H; subst; cbn;
      repeat (rewrite <- ?app_assoc; cbn); split; reflexivity.
  - destruct t as [|a x rx kx [|[|b z rz kz c] y ry ky d]]; cbn; intros H; inversion H; subst; cbn;
      repeat (rewrite <- ?app_assoc; cbn); split; reflexivity.
Qed.

Lemma nodup_app_parts {A} (l1 l2 : list A) : NoDup (l1 ++ l2) -> NoDup l1 /\ NoDup l2 /\ (forall x, In x l1 -> ~ In x l2).
Proof.
  induction l1 as [|a l1 IH]; cbn; intros H.
  - split; [constructor|]. split; [exact H|]. intros x [].
  - inversion H; subst. destruct (IH H3) as (N1 & N2 & N3). split; [constructor; [|exact N1]|].
    + intros Hin. apply H2. apply in_or_app. left. exact Hin.
    + split; [exact N2|]. intros x [<-|Hx]; [intros Hin; apply H2; apply in_or_app; right; exact Hin|apply N3; exact Hx].
Qed.

Ltac bids_norm s := unfold s; cbn [bids]; repeat (rewrite <- app_assoc || rewrite <- app_comm_cons); reflexivity.

Theorem double_rotate_rep h n t dir t' : rep h n t -> NoDup (bids t) -> ids_pos t -> drot t dir = Some t' ->
  let '(h', n') := double_rotate h n dir in
  rep h' n' t' /\ (forall id, ~ In id (bids t) -> hget h' id = hget h id).
Proof.
  intros Hr Hnd Hpos Hd. unfold double_rotate.
  destruct dir.
  - (* dir = true: t = BN (BN a y _ ky (BN b z _ kz c)) x _ kx d ; first rotate the left child to the left *)
    destruct t as [|[|a y ry ky [|b z rz kz c]] x rx kx d]; cbn [drot] in Hd; try discriminate. inversion Hd; subst t'. clear Hd.
    set (s := BN a y ry ky (BN b z rz kz c)) in *.
    cbn [rep] in Hr. destruct Hr as (-> & Hx & Hrx & Hkx & Hs & Hdd). fold s in Hs.
    cbn [negb].
    cbn [bids] in Hnd, Hpos. fold (bids s) in Hnd, Hpos.
    change (bids a ++ y :: bids b ++ z :: bids c) with (bids s) in Hnd, Hpos.
    destruct (nodup_app_parts _ _ Hnd) as (Ns & Nxd & Nsx).
    assert (Hpos_s : ids_pos s) by (unfold ids_pos in *; apply Forall_app in Hpos; apply Hpos).
    pose proof (single_rotate_rep h (child h x false) s false (BN (BN a y true ky b) z false kz c) Hs Ns Hpos_s eq_refl) as H1.
    destruct (single_rotate h (child h x false) false) as [h1 c1]. destruct H1 as [Hrep1 Hfr1].
    assert (Hc1 : c1 = z) by (cbn [rep] in Hrep1; apply Hrep1).
    assert (Hxs : ~ In x (bids s)) by (intros Hin; apply (Nsx x Hin); left; reflexivity).
    assert (Hxpos : 0 < x) by (unfold ids_pos in Hpos; rewrite Forall_forall in Hpos; apply Hpos; apply in_or_app; right; left; reflexivity).
    set (h2 := set_child h1 x false c1).
    (* h2 represents BN s' x rx kx d *)
    assert (Hrep2 : rep h2 x (BN (BN (BN a y true ky b) z false kz c) x rx kx d)).
    { assert (Hnx : hget h2 x = mktn c1 (t_right (hget h x)) (t_red (hget h x)) (t_key (hget h x))).
      { unfold h2, set_child. rewrite hget_hset_same by lia. rewrite (Hfr1 x Hxs). reflexivity. }
      assert (Hoth : forall id, id <> x -> hget h2 id = hget h1 id) by (intros id Hne; unfold h2, set_child; apply hget_hset_other; congruence).
      assert (Hl : child h2 x false = c1) by (unfold child; rewrite Hnx; reflexivity).
      assert (Hrg : child h2 x true = child h x true) by (unfold child; rewrite Hnx; reflexivity).
      assert (Hred2 : is_red h2 x = rx) by (unfold is_red in *; rewrite Hnx; exact Hrx).
      assert (Hkey2 : key h2 x = kx) by (unfold key in *; rewrite Hnx; exact Hkx).
      change (x = x /\ x <> 0 /\ is_red h2 x = rx /\ key h2 x = kx /\
              rep h2 (child h2 x false) (BN (BN a y true ky b) z false kz c) /\ rep h2 (child h2 x true) d).
      rewrite Hl, Hrg. split; [reflexivity|]. split; [lia|]. split; [exact Hred2|]. split; [exact Hkey2|]. split.
      - apply (rep_frame h1 h2); [|exact Hrep1].
        intros id Hid. apply Hoth. intros ->. apply Hxs.
        replace (bids s) with (bids (BN (BN a y true ky b) z false kz c)); [exact Hid|].
        bids_norm s.
      - apply (rep_frame h h2); [|exact Hdd].
        intros id Hid. rewrite Hoth.
        + apply Hfr1. intros Hin. apply (Nsx id Hin). right. exact Hid.
        + intros ->. apply NoDup_cons_iff in Nxd. destruct Nxd as [Hn0 _]. exact (Hn0 Hid). }
    assert (Hnd2 : NoDup (bids (BN (BN (BN a y true ky b) z false kz c) x rx kx d))).
    { replace (bids (BN (BN (BN a y true ky b) z false kz c) x rx kx d)) with (bids s ++ x :: bids d); [exact Hnd|].
      bids_norm s. }
    assert (Hpos2 : ids_pos (BN (BN (BN a y true ky b) z false kz c) x rx kx d)).
    { unfold ids_pos. replace (bids (BN (BN (BN a y true ky b) z false kz c) x rx kx d)) with (bids s ++ x :: bids d); [exact Hpos|].
      bids_norm s. }
    pose proof (single_rotate_rep h2 x _ true (BN (BN a y true ky b) z false kz (BN c x true kx d)) Hrep2 Hnd2 Hpos2 eq_refl) as H2.
    fold h2. destruct (single_rotate h2 x true) as [h3 c3]. destruct H2 as [Hrep3 Hfr3].
    split; [exact Hrep3|].
    intros id Hnot.
    assert (Hnot2 : ~ In id (bids (BN (BN (BN a y true ky b) z false kz c) x rx kx d))).
    { intros Hin. apply Hnot. replace (bids (BN s x rx kx d)) with (bids (BN (BN (BN a y true ky b) z false kz c) x rx kx d)); [exact Hin|]. bids_norm s. }
    rewrite (Hfr3 id Hnot2).
    assert (Hidx : id <> x) by (intros ->; apply Hnot; cbn; apply in_or_app; right; left; reflexivity).
    unfold h2, set_child. rewrite hget_hset_other by congruence. apply Hfr1.
    intros Hin. apply Hnot. cbn. apply in_or_app. left. exact Hin.
  - (* dir = false: t = BN a x _ kx (BN (BN b z _ kz c) y _ ky d) ; first rotate the right child to the right *)
    destruct t as [|a x rx kx [|[|b z rz kz c] y ry ky d]]; cbn [drot] in Hd; try discriminate. inversion Hd; subst t'. clear Hd.
    set (s := BN (BN b z rz kz c) y ry ky d) in *.
    cbn [rep] in Hr. destruct Hr as (-> & Hx & Hrx & Hkx & Haa & Hs). fold s in Hs.
    cbn [negb].
    cbn [bids] in Hnd, Hpos.
    change ((bids b ++ z :: bids c) ++ y :: bids d) with (bids s) in Hnd, Hpos.
    destruct (nodup_app_parts _ _ Hnd) as (Na & Nxs & Nax).
    apply NoDup_cons_iff in Nxs. destruct Nxs as [Hxs Ns].
    assert (Hpos_s : ids_pos s).
    { unfold ids_pos in *. apply Forall_app in Hpos. destruct Hpos as [_ Hp]. inversion Hp; assumption. }
    pose proof (single_rotate_rep h (child h x true) s true (BN b z false kz (BN c y true ky d)) Hs Ns Hpos_s eq_refl) as H1.
    destruct (single_rotate h (child h x true) true) as [h1 c1]. destruct H1 as [Hrep1 Hfr1].
    assert (Hc1 : c1 = z) by (cbn [rep] in Hrep1; apply Hrep1).
    assert (Hxpos : 0 < x) by (unfold ids_pos in Hpos; rewrite Forall_forall in Hpos; apply Hpos; apply in_or_app; right; left; reflexivity).
    set (h2 := set_child h1 x true c1).
    assert (Hids' : bids (BN b z false kz (BN c y true ky d)) = bids s) by (bids_norm s).
    assert (Hrep2 : rep h2 x (BN a x rx kx (BN b z false kz (BN c y true ky d)))).
    { assert (Hnx : hget h2 x = mktn (t_left (hget h x)) c1 (t_red (hget h x)) (t_key (hget h x))).
      { unfold h2, set_child. rewrite hget_hset_same by lia. rewrite (Hfr1 x Hxs). reflexivity. }
      assert (Hoth : forall id, id <> x -> hget h2 id = hget h1 id) by (intros id Hne; unfold h2, set_child; apply hget_hset_other; congruence).
      assert (Hl : child h2 x false = child h x false) by (unfold child; rewrite Hnx; reflexivity).
      assert (Hrg : child h2 x true = c1) by (unfold child; rewrite Hnx; reflexivity).
      assert (Hred2 : is_red h2 x = rx) by (unfold is_red in *; rewrite Hnx; exact Hrx).
      assert (Hkey2 : key h2 x = kx) by (unfold key in *; rewrite Hnx; exact Hkx).
      change (x = x /\ x <> 0 /\ is_red h2 x = rx /\ key h2 x = kx /\
              rep h2 (child h2 x false) a /\ rep h2 (child h2 x true) (BN b z false kz (BN c y true ky d))).
      rewrite Hl, Hrg. split; [reflexivity|]. split; [lia|]. split; [exact Hred2|]. split; [exact Hkey2|]. split.
      - apply (rep_frame h h2); [|exact Haa].
        intros id Hid. rewrite Hoth.
        + apply Hfr1. intros Hin. apply (Nax id Hid). right. exact Hin.
        + intros ->. apply (Nax x Hid). left. reflexivity.
      - apply (rep_frame h1 h2); [|exact Hrep1].
        intros id Hid. apply Hoth. intros ->. apply Hxs. rewrite <- Hids'. exact Hid. }
    assert (Hflat : bids (BN a x rx kx (BN b z false kz (BN c y true ky d))) = bids a ++ x :: bids s) by (bids_norm s).
    assert (Hnd2 : NoDup (bids (BN a x rx kx (BN b z false kz (BN c y true ky d))))) by (rewrite Hflat; exact Hnd).
    assert (Hpos2 : ids_pos (BN a x rx kx (BN b z false kz (BN c y true ky d)))) by (unfold ids_pos; rewrite Hflat; exact Hpos).
    pose proof (single_rotate_rep h2 x _ false (BN (BN a x true kx b) z false kz (BN c y true ky d)) Hrep2 Hnd2 Hpos2 eq_refl) as H2.
    fold h2. destruct (single_rotate h2 x false) as [h3 c3]. destruct H2 as [Hrep3 Hfr3].
    split; [exact Hrep3|].
    intros id Hnot.
    assert (Hnot2 : ~ In id (bids (BN a x rx kx (BN b z false kz (BN c y true ky d))))) by (rewrite Hflat; exact Hnot).
    rewrite (Hfr3 id Hnot2).
    assert (Hidx : id <> x) by (intros ->; apply Hnot; cbn; apply in_or_app; right; left; reflexivity).
    unfold h2, set_child. rewrite hget_hset_other by congruence. apply Hfr1.
    intros Hin. apply Hnot. cbn [bids]. apply in_or_app. right. right. exact Hin.
Qed.

(* C18 (6) — building block: recolouring a node (_make_red / _make_black, the colour flips of insert and remove) changes the
   colour of that node in the represented tree and nothing else — keys, node identities and the in-order sequence stay. *)
From Coq Require Import ZArith List Bool Lia.
From Verif Require Import Containers.TreeModel Containers.TreeGeneral Containers.TreeRotate.
Import ListNotations.
Local Open Scope Z_scope.

Fixpoint recolor (t : btree) (x : Z) (c : bool) : btree :=
  match t with
  | BL => BL
  | BN l id red k r => BN (recolor l x c) id (if id =? x then c else red) k (recolor r x c)
  end.

Lemma recolor_keys t x c : bkeys (recolor t x c) = bkeys t /\ bids (recolor t x c) = bids t.
Proof. induction t as [|l [IHl1 IHl2] id red k r [IHr1 IHr2]]; cbn; [auto|]. rewrite IHl1, IHl2, IHr1, IHr2. auto. Qed.

Lemma hget_set_red_same h x c : 0 < x -> hget (set_red h x c) x = mktn (t_left (hget h x)) (t_right (hget h x)) c (t_key (hget h x)).
Proof. intros. unfold set_red. apply hget_hset_same. assumption. Qed.

Lemma hget_set_red_other h x c id : id <> x -> hget (set_red h x c) id = hget h id.
Proof. intros. unfold set_red. apply hget_hset_other. congruence. Qed.

Theorem set_red_rep h x c : 0 < x -> forall t n, rep h n t -> rep (set_red h x c) n (recolor t x c).
Proof.
  intros Hx. induction t as [|l IHl id red k r IHr]; intros n Hr; cbn [rep recolor] in *; [exact Hr|].
  destruct Hr as (-> & Hid & Hred & Hk & Hl & Hrr).
  destruct (Z.eqb_spec id x) as [->|Hne].
  - assert (Hn : hget (set_red h x c) x = mktn (t_left (hget h x)) (t_right (hget h x)) c (t_key (hget h x))) by (apply hget_set_red_same; exact Hx).
    unfold is_red, key, child in *. rewrite Hn. cbn [t_left t_right t_red t_key].
    destruct (Z.eqb_spec x 0); [lia|]. repeat split; auto.
  - assert (Hn : hget (set_red h x c) id = hget h id) by (apply hget_set_red_other; exact Hne).
    unfold is_red, key, child in *. rewrite Hn. repeat split; auto.
Qed.

(* is_red of the null id is false and set_red on it is a no-op: _make_black(nullptr children) never happens on a real node *)
Lemma set_red_null h c : set_red h 0 c = h.
Proof. reflexivity. Qed.

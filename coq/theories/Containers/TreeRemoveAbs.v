(* C18 (6) — the top-down red-black removal of ArenaTree::remove ("search and push a red down") as a function on abstract
   trees with a path, iteration by iteration as the C++ loop runs, and its UNBOUNDED invariant: every intermediate tree obeys
   the red-black rules (the root may be red), and the loop ends at a red leaf (or at the only node). *)
From Coq Require Import ZArith List Bool Lia.
From Verif Require Import Containers.TreeModel Containers.TreeGeneral Containers.TreeRotate Containers.TreeInsertAbs.
Import ListNotations.
Local Open Scope Z_scope.

(* where q is: the false root (its right child is the tree), or a node reached by the path zs with the subtree F below it *)
Inductive rpos := AtHead (T : btree) | At (zs : list frame) (F : btree).

Section Remove.
Variable kn : Z.

(* while (q->has_child(dir)): move to the child; result: the path of the child and the child's subtree *)
Definition rdown (s : rpos) : option (list frame * btree) :=
  match s with
  | AtHead T => match T with BL => None | _ => Some ([], T) end
  | At zs (BN a q c k b) =>
    let d := k <? kn in
    match (if d then b else a) with BL => None | X => Some (mkf d q c k (if d then a else b) :: zs, X) end
  | At _ BL => None
  end.

(* push the red node down at the node just entered *)
Definition rproc (zs : list frame) (C : btree) : rpos :=
  match C with
  | BL => At zs C
  | BN a q c k b =>
    let d := k <? kn in let X := if d then b else a in let Y := if d then a else b in
    if negb c && negb (bred X) then
      if bred Y then
        match Y with
        | BN ya y _ ky yb => At (mkf d y false ky (if d then ya else yb) :: zs) (fill (mkf d q true k (if d then yb else ya)) X)
        | BL => At zs C
        end
      else
        match zs with
        | [] => At zs C
        | fp :: zr =>
          let l := f_dir fp in
          match f_sib fp with
          | BL => At zs C
          | BN sa s sc sk sb =>
            let Sl := if l then sb else sa in let Snl := if l then sa else sb in
            if negb (bred Snl) && negb (bred Sl) then
              At (mkf l (f_id fp) false (f_key fp) (BN sa s true sk sb) :: zr) (BN a q true k b)
            else if bred Sl then
              match Sl with
              | BN ia i _ ik ib =>
                At (mkf l (f_id fp) false (f_key fp) (if l then ib else ia) ::
                    mkf l i true ik (fill (mkf l s false sk Snl) (if l then ia else ib)) :: zr) (BN a q true k b)
              | BL => At zs C
              end
            else At (mkf l (f_id fp) false (f_key fp) Sl :: mkf l s true sk (blacken Snl) :: zr) (BN a q true k b)
          end
        end
    else At zs C
  end.

Definition rstep (s : rpos) : option rpos :=
  match rdown s with None => None | Some (zs, C) => Some (rproc zs C) end.

Fixpoint rloop (fuel : nat) (s : rpos) : option rpos :=
  match fuel with
  | O => None
  | S f => match rstep s with None => Some s | Some s' => rloop f s' end
  end.

(* ------------------------------------------------------------------ building blocks for black heights *)
Lemma bbh_mk_black l i k r a : bbh l = Some a -> bbh r = Some a -> bbh (BN l i false k r) = Some (a + 1).
Proof. intros H1 H2. cbn [bbh]. rewrite H1, H2, Z.eqb_refl. reflexivity. Qed.
Lemma bbh_mk_red l i k r a : bbh l = Some a -> bbh r = Some a -> bred l = false -> bred r = false -> bbh (BN l i true k r) = Some a.
Proof. intros H1 H2 H3 H4. cbn [bbh]. rewrite H1, H2, H3, H4, Z.eqb_refl. reflexivity. Qed.
Lemma bbh_black_inv' l i k r a : bbh (BN l i false k r) = Some a -> exists x, bbh l = Some x /\ bbh r = Some x /\ a = x + 1.
Proof. intros H. destruct (bbh_black_inv _ _ _ _ _ H) as [H1 H2]. exists (a - 1). repeat split; auto. lia. Qed.
Lemma bbh_blacken t a : bbh t = Some a -> bbh (blacken t) = Some (if bred t then a + 1 else a).
Proof.
  destruct t as [|l i [|] k r]; cbn [blacken bred]; intros H; [exact H| |exact H].
  destruct (bbh_red_inv _ _ _ _ _ H) as (_ & _ & _ & _ & H'). exact H'.
Qed.
Lemma bbh_pos t a : bbh t = Some a -> 1 <= a.
Proof. intros H. destruct (bbh_height t a H). assumption. Qed.
Lemma bbh_one_leaf t : bbh t = Some 1 -> bred t = false -> t = BL.
Proof.
  destruct t as [|l i [|] k r]; [reflexivity|discriminate|]. intros H _. exfalso.
  destruct (bbh_black_inv' _ _ _ _ _ H) as (x & H1 & _ & E). pose proof (bbh_pos _ _ H1). lia.
Qed.

(* ------------------------------------------------------------------ the invariant *)
Definition nextc (F : btree) : btree := match F with BL => BL | BN a _ _ k b => if k <? kn then b else a end.
Definition otherc (F : btree) : btree := match F with BL => BL | BN a _ _ k b => if k <? kn then a else b end.

(* the parent of the node being processed is red, or the node itself is, or the parent is the root with a sibling that is not red *)
Definition Ppar (zs : list frame) (C : btree) : Prop :=
  match zs with [] => True | fp :: zr => f_red fp = true \/ bred C = true \/ (zr = [] /\ bred (f_sib fp) = false) end.

Definition RInv (s : rpos) : Prop :=
  match s with
  | AtHead T => exists bb, bbh T = Some bb
  | At zs F => F <> BL /\ (exists bb, bbh (plug zs F) = Some bb) /\
               (bred F = true \/ bred (nextc F) = true \/ (zs = [] /\ bred (otherc F) = false))
  end.

(* replacing a subtree by one of the same black height whose root is red only if the old root was *)
Lemma bbh_fill_weaken f x x' v : bbh x = bbh x' -> (bred x' = true -> bred x = true) -> bbh (fill f x) = Some v -> bbh (fill f x') = Some v.
Proof.
  intros H1 H2. unfold fill. destruct (f_dir f); cbn [bbh]; rewrite <- H1.
  - destruct (bbh (f_sib f)); [|auto]. destruct (bbh x); [|auto]. destruct (negb (z =? z0)); [auto|].
    destruct (f_red f); cbn [andb]; [|auto]. destruct (bred (f_sib f)); cbn [orb]; [auto|].
    destruct (bred x') eqn:E; [rewrite (H2 eq_refl); auto|]. destruct (bred x); [discriminate|auto].
  - destruct (bbh x); [|auto]. destruct (bbh (f_sib f)); [|auto]. destruct (negb (z =? z0)); [auto|].
    destruct (f_red f); cbn [andb]; [|auto].
    destruct (bred x') eqn:E; [rewrite (H2 eq_refl); auto|]. destruct (bred x); cbn [orb]; [discriminate|auto].
Qed.

Lemma bbh_plug_weaken zs x x' v : bbh x = bbh x' -> (bred x' = true -> bred x = true) -> bbh (plug zs x) = Some v -> bbh (plug zs x') = Some v.
Proof.
  destruct zs as [|f zs]; cbn [plug]; [intros H _ H3; rewrite <- H; exact H3|].
  intros H1 H2 H3. destruct (bbh_plug_inv zs _ _ H3) as [w Hw].
  pose proof (bbh_fill_weaken f x x' w H1 H2 Hw) as Hw'.
  rewrite <- (bbh_plug_congr zs (fill f x) (fill f x')); [exact H3|congruence|rewrite !bred_fill; reflexivity].
Qed.

Lemma BN_as_fill a q c k b (d : bool) : BN a q c k b = fill (mkf d q c k (if d then a else b)) (if d then b else a).
Proof. unfold fill. cbn. destruct d; reflexivity. Qed.

Lemma bbh_fill_mk_black f x a : f_red f = false -> bbh x = Some a -> bbh (f_sib f) = Some a -> bbh (fill f x) = Some (a + 1).
Proof. intros Hf H1 H2. unfold fill. destruct (f_dir f); rewrite Hf; apply bbh_mk_black; assumption. Qed.
Lemma bbh_fill_mk_red f x a : f_red f = true -> bbh x = Some a -> bbh (f_sib f) = Some a -> bred x = false -> bred (f_sib f) = false ->
  bbh (fill f x) = Some a.
Proof. intros Hf H1 H2 H3 H4. unfold fill. destruct (f_dir f); rewrite Hf; apply bbh_mk_red; assumption. Qed.

(* case A: q black, next child black, other child red: single rotation at q *)
Lemma caseA_bbh d q k X y ky Yd Ynd v : bbh (fill (mkf d q false k (fill (mkf d y true ky Ynd) Yd)) X) = Some v -> bred X = false ->
  bbh (fill (mkf d y false ky Ynd) (fill (mkf d q true k Yd) X)) = Some v.
Proof.
  intros H HX. destruct (bbh_fill_inv _ _ _ H) as (a & H1 & H2 & _ & Hv). cbn [f_sib f_red] in *. subst v.
  destruct (bbh_fill_inv _ _ _ H2) as (a' & H3 & H4 & H5 & Ha). cbn [f_sib f_red] in *. subst a'.
  destruct (H5 eq_refl) as [H6 H7].
  apply bbh_fill_mk_black; [reflexivity| |exact H4]. cbn [f_sib].
  apply bbh_fill_mk_red; auto.
Qed.

(* case B: q, its children and its sibling s are black; colour flip, single or double rotation at p *)
Lemma caseB_bbh l p (cp : bool) kp s sk Sl Snl a q k b v Nt :
  bbh (fill (mkf l p cp kp (fill (mkf l s false sk Snl) Sl)) (BN a q false k b)) = Some v -> bred a = false -> bred b = false ->
  ((bred Sl = false /\ bred Snl = false /\ Nt = fill (mkf l p false kp (fill (mkf l s true sk Snl) Sl)) (BN a q true k b)) \/
   (bred Sl = false /\ bred Snl = true /\ Nt = fill (mkf l s true sk (blacken Snl)) (fill (mkf l p false kp Sl) (BN a q true k b))) \/
   (exists i ik Il Inl, Sl = fill (mkf l i true ik Inl) Il /\
      Nt = fill (mkf l i true ik (fill (mkf l s false sk Snl) Inl)) (fill (mkf l p false kp Il) (BN a q true k b)))) ->
  exists x, bbh Nt = Some (x + 1) /\ v = (if cp then x + 1 else x + 2).
Proof.
  intros H Ha Hb Hcase.
  destruct (bbh_fill_inv _ _ _ H) as (a0 & H1 & H2 & _ & Hv). cbn [f_sib f_red] in *.
  destruct (bbh_black_inv' _ _ _ _ _ H1) as (x & Hxa & Hxb & Ea). subst a0.
  destruct (bbh_fill_inv _ _ _ H2) as (x' & H3 & H4 & _ & Ex). cbn [f_sib f_red] in *. assert (x' = x) by lia. subst x'.
  assert (Hq : bbh (BN a q true k b) = Some x) by (apply bbh_mk_red; assumption).
  exists x. split; [|destruct cp; lia].
  destruct Hcase as [(C1 & C2 & ->)|[(C1 & C2 & ->)|(i & ik & Il & Inl & E & ->)]].
  - apply bbh_fill_mk_black; [reflexivity|exact Hq|]. cbn [f_sib]. apply bbh_fill_mk_red; auto.
  - apply bbh_fill_mk_red; [reflexivity| | |apply bred_fill|destruct Snl; reflexivity].
    + apply bbh_fill_mk_black; [reflexivity|exact Hq|exact H3].
    + cbn [f_sib]. rewrite (bbh_blacken _ _ H4), C2. reflexivity.
  - subst Sl. destruct (bbh_fill_inv _ _ _ H3) as (y & I1 & I2 & I3 & Ey). cbn [f_sib f_red] in *. subst y.
    destruct (I3 eq_refl) as [I4 I5].
    apply bbh_fill_mk_red; [reflexivity| | |apply bred_fill|apply bred_fill].
    + apply bbh_fill_mk_black; [reflexivity|exact Hq|exact I1].
    + cbn [f_sib]. apply bbh_fill_mk_black; [reflexivity|exact I2|exact H4].
Qed.

Lemma fill_eta f x : fill f x = fill (mkf (f_dir f) (f_id f) (f_red f) (f_key f) (f_sib f)) x.
Proof. reflexivity. Qed.

Theorem rproc_inv zs C : C <> BL -> (exists bb, bbh (plug zs C) = Some bb) -> Ppar zs C -> RInv (rproc zs C).
Proof.
  destruct C as [|a q c k b]; [intros H; contradiction|]. intros _ (bb & V) Hp. unfold rproc.
  set (d := k <? kn). set (X := if d then b else a). set (Y := if d then a else b).
  assert (Hnext : nextc (BN a q c k b) = X) by reflexivity.
  assert (Hother : otherc (BN a q c k b) = Y) by reflexivity.
  destruct (negb c && negb (bred X)) eqn:E1.
  2:{ cbn [RInv]. split; [discriminate|]. split; [exists bb; exact V|]. rewrite Hnext. cbn [bred].
      destruct c; [left; reflexivity|]. destruct (bred X); [right; left; reflexivity|discriminate]. }
  apply andb_prop in E1. destruct E1 as [Ec EX]. apply negb_true_iff in Ec, EX. subst c.
  destruct (bbh_plug_inv zs _ _ V) as [w Hw].
  destruct (bred Y) eqn:EY.
  - (* case A *)
    destruct Y as [|ya y cy ky yb] eqn:EYs; [discriminate|]. cbn [bred] in EY. subst cy.
    cbn [RInv]. split; [unfold fill; cbn; destruct d; discriminate|]. split; [|left; apply bred_fill].
    exists bb. cbn [plug].
    rewrite <- (bbh_plug_congr zs (BN a q false k b)); [exact V| |rewrite bred_fill; reflexivity].
    rewrite Hw. symmetry.
    apply caseA_bbh; [|exact EX].
    rewrite <- (BN_as_fill ya y true ky yb d). rewrite <- EYs. unfold X, Y in *. rewrite <- (BN_as_fill a q false k b d). exact Hw.
  - destruct zs as [|fp zr].
    + cbn [RInv]. split; [discriminate|]. split; [exists bb; exact V|]. right. right. split; [reflexivity|]. rewrite Hother. exact EY.
    + cbn [plug] in V. destruct (bbh_plug_inv zr _ _ V) as [v Hv].
      assert (Hab : bred a = false /\ bred b = false) by (unfold X, Y in *; destruct d; auto).
      destruct Hab as [Hra Hrb].
      destruct (f_sib fp) as [|sa s sc sk sb] eqn:ES.
      * exfalso. destruct (bbh_fill_inv _ _ _ Hv) as (a0 & H1 & H2 & _). rewrite ES in H2. cbn in H2. inversion H2; subst a0.
        destruct (bbh_black_inv' _ _ _ _ _ H1) as (x & Hx & _ & E). pose proof (bbh_pos _ _ Hx). lia.
      * set (l := f_dir fp). set (Sl := if l then sb else sa). set (Snl := if l then sa else sb).
        assert (Hsc : sc = false).
        { cbn [Ppar] in Hp. destruct Hp as [Hp|[Hp|[_ Hp]]]; [|discriminate|rewrite ES in Hp; exact Hp].
          destruct (bbh_fill_inv _ _ _ Hv) as (_ & _ & _ & H & _). destruct (H Hp) as [_ H']. rewrite ES in H'. exact H'. }
        subst sc.
        assert (ESf : BN sa s false sk sb = fill (mkf l s false sk Snl) Sl) by (apply BN_as_fill).
        rewrite fill_eta, ES, ESf in Hv. fold l in Hv.
        assert (Hfin : forall Nt zs' Cq, plug zs' Cq = plug zr Nt -> Cq = BN a q true k b ->
                 (bred Nt = true -> True) ->
                 (exists x, bbh Nt = Some (x + 1) /\ v = (if f_red fp then x + 1 else x + 2)) -> RInv (At zs' Cq)).
        { intros Nt zs' Cq Hpl -> _ (x & HN & Ev). cbn [RInv]. split; [discriminate|]. split; [|left; reflexivity].
          rewrite Hpl. destruct (f_red fp) eqn:Efp.
          - exists bb. apply (bbh_plug_weaken zr (fill fp (BN a q false k b))); [|intros _; rewrite bred_fill; exact Efp|exact V].
            rewrite fill_eta, ES, ESf. fold l. rewrite Efp, Hv, HN, Ev. reflexivity.
          - cbn [Ppar] in Hp. destruct Hp as [Hp|[Hp|[Hp _]]]; [congruence|discriminate|]. subst zr. cbn [plug]. eauto. }
        destruct (negb (bred Snl) && negb (bred Sl)) eqn:E2.
        -- apply andb_prop in E2. destruct E2 as [E2 E3]. apply negb_true_iff in E2, E3.
           apply (Hfin (fill (mkf l (f_id fp) false (f_key fp) (fill (mkf l s true sk Snl) Sl)) (BN a q true k b))); [|reflexivity|auto|].
           ++ cbn [plug]. f_equal. unfold fill, Sl, Snl. cbn [f_dir f_id f_red f_key f_sib]. destruct l; reflexivity.
           ++ apply (caseB_bbh l (f_id fp) (f_red fp) (f_key fp) s sk Sl Snl a q k b v _ Hv Hra Hrb). left. auto.
        -- destruct (bred Sl) eqn:E3.
           ++ destruct Sl as [|ia i ci ik ib] eqn:ESl; [discriminate|]. cbn [bred] in E3. subst ci.
              apply (Hfin (fill (mkf l i true ik (fill (mkf l s false sk Snl) (if l then ia else ib))) (fill (mkf l (f_id fp) false (f_key fp) (if l then ib else ia)) (BN a q true k b)))); [reflexivity|reflexivity|auto|].
              apply (caseB_bbh l (f_id fp) (f_red fp) (f_key fp) s sk (BN ia i true ik ib) Snl a q k b v _ Hv Hra Hrb). right. right.
              exists i, ik, (if l then ib else ia), (if l then ia else ib). split; [apply BN_as_fill|reflexivity].
           ++ assert (E4 : bred Snl = true) by (destruct (bred Snl); [reflexivity|discriminate]).
              apply (Hfin (fill (mkf l s true sk (blacken Snl)) (fill (mkf l (f_id fp) false (f_key fp) Sl) (BN a q true k b)))); [reflexivity|reflexivity|auto|].
              apply (caseB_bbh l (f_id fp) (f_red fp) (f_key fp) s sk Sl Snl a q k b v _ Hv Hra Hrb). right. left. auto.
Qed.

Theorem rstep_inv s s' : RInv s -> rstep s = Some s' -> RInv s'.
Proof.
  unfold rstep. destruct s as [T|zs F]; intros V H; cbn [RInv] in V; cbn [rdown] in H.
  - destruct T as [|a q c k b]; [discriminate|]. injection H as <-. apply (rproc_inv [] (BN a q c k b)); [discriminate|exact V|exact I].
  - destruct V as (HF & (bb & V) & P). destruct F as [|a q c k b]; [discriminate|].
    set (d := k <? kn) in *.
    destruct (if d then b else a) as [|xa xq xc xk xb] eqn:EX; [discriminate|]. injection H as <-.
    apply (rproc_inv (mkf d q c k (if d then a else b) :: zs) (BN xa xq xc xk xb)); [discriminate| |].
    + exists bb. cbn [plug]. rewrite <- EX. rewrite <- (BN_as_fill a q c k b d). exact V.
    + cbn [Ppar f_red f_sib]. cbn [bred nextc otherc] in P. fold d in P. rewrite EX in P.
      destruct P as [P|[P|[P1 P2]]]; [left; exact P|right; left; exact P|right; right; split; assumption].
Qed.

(* rproc moves nothing: same in-order keys and node ids *)
Lemma rproc_shape zs C : exists zs' F', rproc zs C = At zs' F' /\ bkeys (plug zs' F') = bkeys (plug zs C) /\ bids (plug zs' F') = bids (plug zs C).
Proof.
  unfold rproc. destruct C as [|a q c k b]; [eexists _, _; split; [reflexivity|split; reflexivity]|].
  set (d := k <? kn).
  destruct (negb c && negb (bred (if d then b else a))); [|eexists _, _; split; [reflexivity|split; reflexivity]].
  destruct (bred (if d then a else b)).
  - destruct (if d then a else b) as [|ya y cy ky yb] eqn:EY; [eexists _, _; split; [reflexivity|split; reflexivity]|].
    eexists _, _. split; [reflexivity|]. cbn [plug].
    split; [apply bkeys_plug_congr|apply bids_plug_congr]; unfold fill; cbn [f_dir f_id f_red f_key f_sib];
      destruct d; rewrite EY; cbn [bkeys bids]; repeat (rewrite <- app_assoc || rewrite <- app_comm_cons); reflexivity.
  - destruct zs as [|fp zr]; [eexists _, _; split; [reflexivity|split; reflexivity]|].
    destruct (f_sib fp) as [|sa s sc sk sb] eqn:ES; [eexists _, _; split; [reflexivity|split; reflexivity]|].
    set (l := f_dir fp).
    destruct (negb (bred (if l then sa else sb)) && negb (bred (if l then sb else sa))).
    + eexists _, _. split; [reflexivity|]. cbn [plug].
      split; [apply bkeys_plug_congr|apply bids_plug_congr]; unfold fill; fold l; cbn [f_dir f_id f_red f_key f_sib]; rewrite ES;
        destruct l; reflexivity.
    + destruct (bred (if l then sb else sa)).
      * destruct (if l then sb else sa) as [|ia i ci ik ib] eqn:EI; [eexists _, _; split; [reflexivity|split; reflexivity]|].
        eexists _, _. split; [reflexivity|]. cbn [plug].
        split; [apply bkeys_plug_congr|apply bids_plug_congr]; unfold fill; fold l; cbn [f_dir f_id f_red f_key f_sib]; rewrite ES;
          destruct l; rewrite EI; cbn [bkeys bids]; repeat (rewrite <- app_assoc || rewrite <- app_comm_cons); reflexivity.
      * eexists _, _. split; [reflexivity|]. cbn [plug].
        split; [apply bkeys_plug_congr|apply bids_plug_congr]; unfold fill; fold l; cbn [f_dir f_id f_red f_key f_sib]; rewrite ES;
          destruct l; cbn [bkeys bids]; rewrite ?(proj1 (blacken_keys sa)), ?(proj2 (blacken_keys sa)), ?(proj1 (blacken_keys sb)), ?(proj2 (blacken_keys sb));
          repeat (rewrite <- app_assoc || rewrite <- app_comm_cons); reflexivity.
Qed.

(* ------------------------------------------------------------------ search directions stay consistent with the keys *)
Local Notation dirs_ok := (dirs_ok kn).

Lemma side_key f X x : f_dir f = (f_key f <? kn) -> sortedb (bkeys (fill f X)) = true -> In x (bkeys (f_sib f)) -> (x <? kn) = f_dir f.
Proof.
  intros Hd Hs Hx. rewrite bkeys_fill in Hs. destruct (f_dir f) eqn:Ed; symmetry in Hd.
  - apply Z.ltb_lt in Hd. destruct (sortedb_app _ _ _ Hs) as (_ & _ & Hl & _). rewrite Forall_forall in Hl. specialize (Hl x Hx).
    apply Z.ltb_lt. lia.
  - apply Z.ltb_ge in Hd. destruct (sortedb_app _ _ _ Hs) as (_ & _ & _ & Hr). rewrite Forall_forall in Hr. specialize (Hr x Hx).
    apply Z.ltb_ge. lia.
Qed.

Lemma sorted_focus zs X : sortedb (bkeys (plug zs X)) = true -> sortedb (bkeys X) = true.
Proof.
  rewrite plug_keys. intros H. apply sortedb_app_iff in H. destruct H as (_ & H & _). apply sortedb_app_iff in H. tauto.
Qed.

Lemma in_bkeys_root a q c k b : In k (bkeys (BN a q c k b)).
Proof. cbn. apply in_or_app. right. left. reflexivity. Qed.

Lemma rproc_dirs zs C zs' F' : dirs_ok zs -> sortedb (bkeys (plug zs C)) = true -> rproc zs C = At zs' F' -> dirs_ok zs'.
Proof.
  intros D Hs. unfold rproc. destruct C as [|a q c k b]; [intros H; injection H as <- <-; exact D|].
  set (d := k <? kn).
  destruct (negb c && negb (bred (if d then b else a))); [|intros H; injection H as <- <-; exact D].
  destruct (bred (if d then a else b)).
  - destruct (if d then a else b) as [|ya y cy ky yb] eqn:EY; [intros H; injection H as <- <-; exact D|].
    intros H; injection H as <- <-. constructor; [|exact D]. cbn [f_dir f_key].
    pose proof (sorted_focus _ _ Hs) as Hc. rewrite (BN_as_fill a q c k b d) in Hc.
    symmetry. apply (side_key (mkf d q c k (if d then a else b)) (if d then b else a) ky); [reflexivity|exact Hc|]. cbn [f_sib]. rewrite EY. apply in_bkeys_root.
  - destruct zs as [|fp zr]; [intros H; injection H as <- <-; exact D|].
    destruct (f_sib fp) as [|sa s sc sk sb] eqn:ES; [intros H; injection H as <- <-; exact D|].
    set (l := f_dir fp).
    inversion D as [|? ? Dp Dr]; subst.
    cbn [plug] in Hs. pose proof (sorted_focus _ _ Hs) as Hc.
    assert (Hside : forall x, In x (bkeys (BN sa s sc sk sb)) -> l = (x <? kn)).
    { intros x Hx. symmetry. apply (side_key fp (BN a q c k b) x Dp Hc). rewrite ES. exact Hx. }
    destruct (negb (bred (if l then sa else sb)) && negb (bred (if l then sb else sa))).
    + intros H; injection H as <- <-. constructor; [exact Dp|exact Dr].
    + destruct (bred (if l then sb else sa)).
      * destruct (if l then sb else sa) as [|ia i ci ik ib] eqn:EI; [intros H; injection H as <- <-; exact D|].
        intros H; injection H as <- <-. constructor; [exact Dp|]. constructor; [|exact Dr]. cbn [f_dir f_key].
        apply Hside. cbn [bkeys]. destruct l; rewrite EI in *.
        -- apply in_or_app. right. right. apply in_bkeys_root.
        -- apply in_or_app. left. apply in_bkeys_root.
      * intros H; injection H as <- <-. constructor; [exact Dp|]. constructor; [|exact Dr]. cbn [f_dir f_key].
        apply Hside. apply in_bkeys_root.
Qed.

(* ------------------------------------------------------------------ the loop *)
Definition whole (s : rpos) : btree := match s with AtHead T => T | At zs F => plug zs F end.

Definition RAll (s : rpos) : Prop :=
  RInv s /\ sortedb (bkeys (whole s)) = true /\ match s with AtHead _ => True | At zs _ => dirs_ok zs end.

Definition rmeasure (s : rpos) : nat := match s with AtHead T => S (bheight T) | At _ F => bheight (nextc F) end.

Lemma nextc_fill d q c k Y X : d = (k <? kn) -> nextc (fill (mkf d q c k Y) X) = X.
Proof. intros ->. unfold fill. cbn [f_dir f_id f_red f_key f_sib]. destruct (k <? kn) eqn:E; cbn [nextc]; rewrite E; reflexivity. Qed.

Lemma rproc_next zs C zs' F' : rproc zs C = At zs' F' -> nextc F' = nextc C /\ bkey F' = bkey C /\ bid F' = bid C.
Proof.
  unfold rproc. destruct C as [|a q c k b]; [intros H; injection H as <- <-; auto|].
  set (d := k <? kn).
  destruct (negb c && negb (bred (if d then b else a))); [|intros H; injection H as <- <-; auto].
  destruct (bred (if d then a else b)).
  - destruct (if d then a else b) as [|ya y cy ky yb] eqn:EY; [intros H; injection H as <- <-; auto|].
    intros H; injection H as <- <-. split; [rewrite nextc_fill by reflexivity; reflexivity|]. unfold fill; cbn; destruct d; auto.
  - destruct zs as [|fp zr]; [intros H; injection H as <- <-; auto|].
    destruct (f_sib fp) as [|sa s sc sk sb] eqn:ES; [intros H; injection H as <- <-; auto|].
    destruct (negb (bred (if f_dir fp then sa else sb)) && negb (bred (if f_dir fp then sb else sa))); [intros H; injection H as <- <-; auto|].
    destruct (bred (if f_dir fp then sb else sa)); [|intros H; injection H as <- <-; auto].
    destruct (if f_dir fp then sb else sa) as [|ia i ci ik ib]; intros H; injection H as <- <-; auto.
Qed.

Theorem rstep_all s s' : RAll s -> rstep s = Some s' ->
  RAll s' /\ bkeys (whole s') = bkeys (whole s) /\ bids (whole s') = bids (whole s) /\ (rmeasure s' < rmeasure s)%nat.
Proof.
  intros (I & Hs & D) H. pose proof (rstep_inv _ _ I H) as I'.
  unfold rstep in H. destruct (rdown s) as [[zs C]|] eqn:Ed; [|discriminate]. injection H as <-.
  destruct (rproc_shape zs C) as (zs' & F' & Ep & Ek & Ei). rewrite Ep in *. cbn [whole].
  assert (Hw : plug zs C = whole s /\ dirs_ok zs /\ (bheight (nextc C) < rmeasure s)%nat).
  { destruct s as [T|zs0 F]; cbn [rdown whole rmeasure] in *.
    - destruct T as [|a q c k b]; [discriminate|]. injection Ed as <- <-. split; [reflexivity|]. split; [constructor|].
      cbn [nextc bheight]. destruct (k <? kn); lia.
    - destruct F as [|a q c k b]; [discriminate|]. set (d := k <? kn) in *.
      destruct (if d then b else a) as [|xa xq xc xk xb] eqn:EX; [discriminate|]. injection Ed as <- <-.
      split; [cbn [plug]; rewrite <- EX; rewrite <- (BN_as_fill a q c k b d); reflexivity|]. split; [constructor; [reflexivity|exact D]|].
      cbn [nextc]. fold d. rewrite EX. cbn [bheight]. destruct (xk <? kn); lia. }
  destruct Hw as (Hw & Dz & Hm). rewrite Ek, Ei, Hw.
  split; [|split; [reflexivity|split; [reflexivity|]]].
  - split; [exact I'|]. split; [cbn [whole]; rewrite Ek, Hw; exact Hs|]. apply (rproc_dirs zs C zs' F' Dz); [rewrite Hw; exact Hs|exact Ep].
  - cbn [rmeasure]. destruct (rproc_next _ _ _ _ Ep) as (En & _). rewrite En. exact Hm.
Qed.

Theorem rloop_spec : forall fuel s, RAll s -> (rmeasure s < fuel)%nat ->
  exists e, rloop fuel s = Some e /\ RAll e /\ rstep e = None /\ bkeys (whole e) = bkeys (whole s) /\ bids (whole e) = bids (whole s).
Proof.
  induction fuel as [|f IH]; intros s A Hm; [lia|]. cbn [rloop].
  destruct (rstep s) as [s'|] eqn:E.
  - destruct (rstep_all _ _ A E) as (A' & Ek & Ei & Hm').
    destruct (IH s' A' ltac:(lia)) as (e & He & Ae & Hn & Ek' & Ei'). exists e. split; [exact He|]. split; [exact Ae|]. split; [exact Hn|]. split; congruence.
  - exists s. split; [reflexivity|]. split; [exact A|]. split; [exact E|]. split; reflexivity.
Qed.

(* ------------------------------------------------------------------ after the loop: unlink q, put q in the place of the found node *)
Fixpoint zrename (q k : Z) (zs : list frame) : list frame :=
  match zs with
  | [] => []
  | f :: zs' => if f_key f =? kn then mkf (f_dir f) q (f_red f) k (f_sib f) :: zs' else f :: zrename q k zs'
  end.

Definition rfinish (e : rpos) : btree :=
  match e with
  | AtHead T => T
  | At zs BL => plug zs BL
  | At zs (BN a q c k b) =>
    let U := match a with BL => b | _ => a end in
    blacken (if k =? kn then plug zs U else plug (zrename q k zs) U)
  end.

Definition zremove (fuel : nat) (T : btree) : option btree :=
  match rloop fuel (AtHead T) with Some e => Some (rfinish e) | None => None end.

(* the loop ends at a leaf that is red, or at the only node of the tree *)
Lemma end_leaf zs F : RInv (At zs F) -> rstep (At zs F) = None -> exists q c k, F = BN BL q c k BL /\ (c = true \/ zs = []).
Proof.
  intros (HF & (bb & V) & P) Hn. destruct F as [|a q c k b]; [contradiction|].
  assert (Hx : nextc (BN a q c k b) = BL).
  { unfold rstep in Hn. cbn [rdown nextc] in *. destruct (if k <? kn then b else a); [reflexivity|discriminate]. }
  destruct (bbh_plug_inv zs _ _ V) as [w Hw].
  assert (Hleaf : forall x, bbh a = Some x -> bbh b = Some x -> (c = true \/ bred (otherc (BN a q c k b)) = false) -> bred a = false /\ bred b = false -> a = BL /\ b = BL).
  { intros x Ha Hb _ [Ra Rb]. cbn [nextc] in Hx. destruct (k <? kn).
    - subst b. cbn in Hb. inversion Hb; subst x. split; [apply bbh_one_leaf; assumption|reflexivity].
    - subst a. cbn in Ha. inversion Ha; subst x. split; [reflexivity|apply bbh_one_leaf; assumption]. }
  destruct c.
  - destruct (bbh_red_inv _ _ _ _ _ Hw) as (Ha & Hb & Ra & Rb & _).
    destruct (Hleaf w Ha Hb (or_introl eq_refl) (conj Ra Rb)) as [-> ->]. exists q, true, k. split; [reflexivity|left; reflexivity].
  - destruct P as [P|[P|[P1 P2]]]; [discriminate|rewrite Hx in P; discriminate|].
    destruct (bbh_black_inv' _ _ _ _ _ Hw) as (x & Ha & Hb & _).
    assert (Rab : bred a = false /\ bred b = false).
    { cbn [nextc otherc] in Hx, P2. destruct (k <? kn); subst; split; auto. }
    destruct (Hleaf x Ha Hb (or_intror P2) Rab) as [-> ->]. exists q, false, k. split; [reflexivity|right; exact P1].
Qed.

Lemma bbh_fill_rename f q k x : bbh (fill (mkf (f_dir f) q (f_red f) k (f_sib f)) x) = bbh (fill f x).
Proof. unfold fill. cbn. destruct (f_dir f); reflexivity. Qed.

Lemma bbh_plug_rename q k : forall zs x, bbh (plug (zrename q k zs) x) = bbh (plug zs x).
Proof.
  induction zs as [|f zs IH]; intros x; cbn [zrename]; [reflexivity|].
  destruct (f_key f =? kn); cbn [plug]; [|apply IH].
  apply bbh_plug_congr; [apply bbh_fill_rename|rewrite !bred_fill; reflexivity].
Qed.

Lemma bred_blacken t : bred (blacken t) = false.
Proof. destruct t; reflexivity. Qed.

(* red-black rules of the result *)
Theorem rfinish_rb zs F : RInv (At zs F) -> rstep (At zs F) = None -> exists b, bbh (rfinish (At zs F)) = Some b /\ bred (rfinish (At zs F)) = false.
Proof.
  intros I Hn. destruct (end_leaf zs F I Hn) as (q & c & k & -> & Hc). destruct I as (_ & (bb & V) & _).
  cbn [rfinish].
  assert (Hu : exists w, bbh (plug zs BL) = Some w).
  { destruct Hc as [-> | ->]; [|exists 1; reflexivity]. exists bb.
    apply (bbh_plug_weaken zs (BN BL q true k BL)); [reflexivity|discriminate|exact V]. }
  destruct Hu as [w Hw].
  assert (Hr : exists w', bbh (if k =? kn then plug zs BL else plug (zrename q k zs) BL) = Some w').
  { destruct (k =? kn); [eauto|]. rewrite bbh_plug_rename. eauto. }
  destruct Hr as [w' Hw']. eexists. split; [apply (bbh_blacken _ _ Hw')|apply bred_blacken].
Qed.

(* ------------------------------------------------------------------ keys of the result *)
Lemma ctx_bounds_weak : forall zs M, dirs_ok zs -> sortedb (lctx zs ++ M ++ rctx zs) = true ->
  (forall x, In x (lctx zs) -> x < kn) /\ (forall y, In y (rctx zs) -> kn <= y).
Proof.
  induction zs as [|f zs IH]; intros M D Hs; cbn [lctx rctx] in *; [split; intros ? []|].
  inversion D as [|? ? Df D']; subst.
  set (A := if f_dir f then bkeys (f_sib f) ++ [f_key f] else []) in *.
  set (B := if f_dir f then [] else f_key f :: bkeys (f_sib f)) in *.
  assert (Hs' : sortedb (lctx zs ++ (A ++ M ++ B) ++ rctx zs) = true).
  { repeat rewrite <- app_assoc in Hs. repeat rewrite <- app_assoc. exact Hs. }
  destruct (IH _ D' Hs') as [IL IR].
  apply sortedb_app_iff in Hs'. destruct Hs' as (_ & Hs' & _). apply sortedb_app_iff in Hs'. destruct Hs' as (Hm & _ & _).
  apply sortedb_app_iff in Hm. destruct Hm as (SA & Hm & _). apply sortedb_app_iff in Hm. destruct Hm as (_ & SB & _).
  destruct (f_dir f) eqn:Ed; subst A B; symmetry in Df.
  - apply Z.ltb_lt in Df. split; [|intros y Hy; cbn [app] in Hy; apply IR; exact Hy].
    intros x Hx. apply in_app_or in Hx. destruct Hx as [Hx|Hx]; [apply IL; exact Hx|].
    apply in_app_or in Hx. destruct Hx as [Hx|[<-|[]]]; [|exact Df].
    apply sortedb_app_iff in SA. destruct SA as (_ & _ & L). specialize (L x (f_key f) Hx (or_introl eq_refl)). lia.
  - apply Z.ltb_ge in Df. split; [intros x Hx; rewrite app_nil_r in Hx; apply IL; exact Hx|].
    intros y Hy. apply in_app_or in Hy. destruct Hy as [[<-|Hy]|Hy]; [exact Df| |apply IR; exact Hy].
    destruct (sortedb_cons _ _ SB) as [_ Hf]. rewrite Forall_forall in Hf. specialize (Hf y Hy). lia.
Qed.

Lemma rename_ctx q k : forall zs R', dirs_ok zs -> rctx zs = kn :: R' ->
  lctx (zrename q k zs) = lctx zs /\ rctx (zrename q k zs) = k :: R' /\
  lidx (zrename q k zs) = lidx zs /\ exists i I', ridx zs = i :: I' /\ ridx (zrename q k zs) = q :: I'.
Proof.
  induction zs as [|f zs IH]; intros R' D Hr; cbn [rctx] in Hr; [discriminate|].
  inversion D as [|? ? Df D']; subst. cbn [zrename].
  destruct (Z.eqb_spec (f_key f) kn) as [E|E].
  - assert (Ed : f_dir f = false) by (rewrite Df, E; apply Z.ltb_irrefl).
    cbn [lctx rctx lidx ridx f_dir f_key f_sib f_id]. rewrite Ed in *. cbn [app] in *. injection Hr as _ <-.
    split; [reflexivity|]. split; [reflexivity|]. split; [reflexivity|]. eexists _, _. split; reflexivity.
  - destruct (f_dir f) eqn:Ed.
    + cbn [app] in Hr. destruct (IH R' D' Hr) as (I1 & I2 & I3 & i & I' & I4 & I5).
      cbn [lctx rctx lidx ridx]. rewrite Ed, I1, I2, I3, I4, I5. cbn [app]. repeat split; auto. eexists _, _. split; reflexivity.
    + cbn [app] in Hr. injection Hr as Hk _. contradiction.
Qed.

Lemma sorted_head_min l x y : sortedb (x :: l) = true -> In y (x :: l) -> x <= y.
Proof. intros Hs [<-|Hy]; [lia|]. destruct (sortedb_cons _ _ Hs) as [_ Hf]. rewrite Forall_forall in Hf. specialize (Hf y Hy). lia. Qed.

Theorem rfinish_keys zs F : RAll (At zs F) -> rstep (At zs F) = None -> In kn (bkeys (plug zs F)) ->
  exists L Rr, bkeys (plug zs F) = L ++ kn :: Rr /\ bkeys (rfinish (At zs F)) = L ++ Rr.
Proof.
  intros (I & Hs & D) Hn Hin. cbn [whole] in Hs. destruct (end_leaf zs F I Hn) as (q & c & k & -> & Hc).
  cbn [rfinish]. destruct (blacken_keys (if k =? kn then plug zs BL else plug (zrename q k zs) BL)) as [-> _].
  rewrite plug_keys in *. cbn [bkeys app] in *.
  destruct (Z.eqb_spec k kn) as [->|Hk].
  - exists (lctx zs), (rctx zs). split; [reflexivity|]. rewrite plug_keys. reflexivity.
  - destruct (ctx_bounds_weak zs [k] D Hs) as [BL' BR].
    assert (Hinr : In kn (rctx zs)).
    { apply in_app_or in Hin. destruct Hin as [Hin|[Hin|Hin]]; [specialize (BL' _ Hin); lia|congruence|exact Hin]. }
    destruct (rctx zs) as [|r0 R'] eqn:Er; [contradiction|].
    assert (Er0 : r0 = kn).
    { apply sortedb_app_iff in Hs. destruct Hs as (_ & Hs & _). destruct (sortedb_cons _ _ Hs) as [Hs' _].
      pose proof (sorted_head_min _ _ _ Hs' Hinr). specialize (BR r0 (or_introl eq_refl)). lia. }
    subst r0. destruct (rename_ctx q k zs R' D Er) as (E1 & E2 & _).
    exists (lctx zs ++ [k]), R'. split; [rewrite <- app_assoc; reflexivity|].
    rewrite plug_keys, E1, E2. cbn [bkeys app]. rewrite <- app_assoc. reflexivity.
Qed.

Lemma sorted_remove_mid L x R : sortedb (L ++ x :: R) = true -> sortedb (L ++ R) = true.
Proof.
  intros H. apply sortedb_app_iff in H. destruct H as (S1 & S2 & LL). destruct (sortedb_cons _ _ S2) as [S3 _].
  apply sortedb_app_iff. split; [exact S1|]. split; [exact S3|]. intros a b Ha Hb. apply LL; [exact Ha|right; exact Hb].
Qed.

(* remove from a red-black search tree that holds the key *)
Theorem zremove_correct fuel T b : bbh T = Some b -> sortedb (bkeys T) = true -> In kn (bkeys T) -> (S (bheight T) < fuel)%nat ->
  exists R, zremove fuel T = Some R /\ (exists b', bbh R = Some b') /\ bred R = false /\
    exists L Rr, bkeys T = L ++ kn :: Rr /\ bkeys R = L ++ Rr /\ sortedb (bkeys R) = true.
Proof.
  intros Hb Hs Hin Hf.
  assert (A : RAll (AtHead T)) by (split; [exists b; exact Hb|split; [exact Hs|exact I]]).
  destruct (rloop_spec fuel (AtHead T) A Hf) as (e & He & Ae & Hn & Ek & _). cbn [whole] in Ek.
  unfold zremove. rewrite He. exists (rfinish e). split; [reflexivity|].
  destruct e as [T'|zs F].
  - exfalso. unfold rstep in Hn. cbn [rdown whole] in *. destruct T'; [rewrite <- Ek in Hin; exact Hin|discriminate].
  - cbn [whole] in Ek. destruct (rfinish_rb zs F (proj1 Ae) Hn) as (b' & Hb' & Hr).
    split; [eauto|]. split; [exact Hr|].
    destruct (rfinish_keys zs F Ae Hn ltac:(rewrite Ek; exact Hin)) as (L & Rr & E1 & E2).
    exists L, Rr. rewrite <- Ek. split; [exact E1|]. split; [exact E2|]. rewrite E2. apply (sorted_remove_mid L kn Rr). rewrite <- E1, Ek. exact Hs.
Qed.
End Remove.

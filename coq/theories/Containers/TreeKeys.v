(* C18 (6), round 6 — the tree operations NEVER WRITE A KEY: for every heap (no invariant needed), every fuel and every cell,
   the key field after insert / remove is the key field before, except the cell of the inserted node (which gets the new key)
   and the false root HEAD.  Together with the refinement theorems this fixes the association key <-> node for the whole life
   of a node: a node found under a key stays under that key until it is removed. *)
From Coq Require Import ZArith List Bool Lia.
From Verif Require Import Containers.TreeModel Containers.TreeGeneral Containers.TreeRotate Containers.TreeRecolor Containers.TreeInsertRefine.
Import ListNotations.
Local Open Scope Z_scope.

Lemma hset_nonpos h id x : id <= 0 -> hset h id x = h.
Proof. intros H. unfold hset. destruct id; [reflexivity|lia|reflexivity]. Qed.

Lemma key_hset_keep h id x i : t_key x = key h id -> key (hset h id x) i = key h i.
Proof.
  intros Hk. unfold key. destruct (Z.eq_dec i id) as [->|Hne].
  - destruct (Z_lt_le_dec 0 id); [rewrite hget_hset_same by assumption; exact Hk|rewrite hset_nonpos by assumption; reflexivity].
  - rewrite hget_hset_other by (intros E; apply Hne; symmetry; exact E). reflexivity.
Qed.

Lemma key_set_child h id d c i : key (set_child h id d c) i = key h i.
Proof. unfold set_child. apply key_hset_keep. destruct d; reflexivity. Qed.
Lemma key_set_red h id r i : key (set_red h id r) i = key h i.
Proof. unfold set_red. apply key_hset_keep. reflexivity. Qed.

Lemma key_single_rotate h r dir i : key (fst (single_rotate h r dir)) i = key h i.
Proof. unfold single_rotate. cbn [fst]. rewrite !key_set_red, !key_set_child. reflexivity. Qed.
Lemma key_double_rotate h r dir i : key (fst (double_rotate h r dir)) i = key h i.
Proof.
  unfold double_rotate. destruct (single_rotate h (child h r (negb dir)) (negb dir)) as [h1 c] eqn:E.
  rewrite key_single_rotate, key_set_child. change h1 with (fst (h1, c)). rewrite <- E. apply key_single_rotate.
Qed.

Ltac keys := repeat (rewrite key_set_red || rewrite key_set_child || rewrite key_single_rotate || rewrite key_double_rotate).

Lemma key_insert_loop i : forall fuel h node g p t q dir last, key (insert_loop fuel h node g p t q dir last) i = key h i.
Proof.
  induction fuel as [|f IH]; intros h node g p t q dir last; cbn [insert_loop]; [reflexivity|].
  set (step1 := if q =? 0 then (set_child h p dir node, node)
      else if is_red h (child h q false) && is_red h (child h q true)
           then (set_red (set_red (set_red h q true) (child h q false) false) (child h q true) false, q) else (h, q)).
  assert (K1 : key (fst step1) i = key h i).
  { unfold step1. destruct (q =? 0); [cbn [fst]; keys; reflexivity|]. destruct (is_red h (child h q false) && is_red h (child h q true)); cbn [fst]; keys; reflexivity. }
  destruct step1 as [h1 q1]. cbn [fst] in K1.
  set (h2 := if is_red h1 q1 && is_red h1 p then
        let '(h', s) := if q1 =? child h1 p last then single_rotate h1 g (negb last) else double_rotate h1 g (negb last) in
        set_child h' t (child h1 t true =? g) s else h1).
  assert (K2 : key h2 i = key h i).
  { unfold h2. destruct (is_red h1 q1 && is_red h1 p); [|exact K1]. destruct (q1 =? child h1 p last).
    - destruct (single_rotate h1 g (negb last)) as [h' s] eqn:E. rewrite key_set_child. change h' with (fst (h', s)). rewrite <- E, key_single_rotate. exact K1.
    - destruct (double_rotate h1 g (negb last)) as [h' s] eqn:E. rewrite key_set_child. change h' with (fst (h', s)). rewrite <- E, key_double_rotate. exact K1. }
  destruct (q1 =? node); [exact K2|]. rewrite IH. exact K2.
Qed.

Theorem tree_insert_keeps_keys fuel t node kn i : i <> HEAD -> i <> node ->
  key (heap (tree_insert_f fuel t node kn)) i = key (heap t) i.
Proof.
  intros Hh Hn. unfold tree_insert_f.
  assert (K0 : key (hset (heap t) node (mktn 0 0 false kn)) i = key (heap t) i).
  { unfold key. rewrite hget_hset_other by (intros E; apply Hn; symmetry; exact E). reflexivity. }
  destruct (root t =? 0); cbn [heap]; [exact K0|].
  rewrite key_set_red, key_insert_loop, key_set_red. unfold key. rewrite hget_hset_other by (intros E; apply Hh; symmetry; exact E). exact K0.
Qed.

Theorem tree_insert_sets_key fuel t node kn : 1 < node -> key (heap (tree_insert_f fuel t node kn)) node = kn.
Proof.
  intros Hn. unfold tree_insert_f.
  assert (K0 : key (hset (heap t) node (mktn 0 0 false kn)) node = kn) by (unfold key; rewrite hget_hset_same by lia; reflexivity).
  destruct (root t =? 0); cbn [heap]; [exact K0|].
  rewrite key_set_red, key_insert_loop, key_set_red. unfold key. rewrite hget_hset_other by (unfold HEAD; lia). exact K0.
Qed.

Lemma key_remove_loop i : forall fuel h node g p q f gf dir, key (fst (remove_loop fuel h node g p q f gf dir)) i = key h i.
Proof.
  induction fuel as [|fu IH]; intros h node g p q f gf dir; cbn [remove_loop]; [reflexivity|].
  destruct (child h q dir =? 0); [reflexivity|].
  set (q' := child h q dir). set (dir' := key h q' <? key h node).
  destruct (if q' =? node then (q', p) else (f, gf)) as [f' gf'].
  destruct (negb (is_red h q') && negb (is_red h (child h q' dir'))); [|apply IH].
  destruct (is_red h (child h q' (negb dir'))).
  { destruct (single_rotate h q' dir') as [h1 c] eqn:E. rewrite IH, key_set_child. change h1 with (fst (h1, c)). rewrite <- E. apply key_single_rotate. }
  destruct (negb (child h q (negb dir) =? 0)); [|apply IH].
  set (s := child h q (negb dir)).
  destruct (negb (is_red h (child h s (negb dir))) && negb (is_red h (child h s dir))).
  { rewrite IH. keys. reflexivity. }
  set (dir2 := child h p true =? q).
  set (pr := if is_red h (child h s dir) then let '(h', c) := double_rotate h q dir in (set_child h' p dir2 c, c)
             else if is_red h (child h s (negb dir)) then let '(h', c) := single_rotate h q dir in (set_child h' p dir2 c, c)
             else (h, child h p dir2)).
  assert (K1 : key (fst pr) i = key h i).
  { unfold pr. destruct (is_red h (child h s dir)).
    - destruct (double_rotate h q dir) as [h' c] eqn:E. cbn [fst]. rewrite key_set_child. change h' with (fst (h', c)). rewrite <- E. apply key_double_rotate.
    - destruct (is_red h (child h s (negb dir))); [|reflexivity].
      destruct (single_rotate h q dir) as [h' c] eqn:E. cbn [fst]. rewrite key_set_child. change h' with (fst (h', c)). rewrite <- E. apply key_single_rotate. }
  destruct pr as [h1 c]. cbn [fst] in K1. rewrite IH. keys. exact K1.
Qed.

Lemma key_relink_loop i : forall fuel h node n q f dir, key (relink_loop fuel h node n q f dir) i = key h i.
Proof.
  induction fuel as [|fu IH]; intros h node n q f dir; cbn [relink_loop]; [reflexivity|].
  destruct (child h n dir =? f); [|apply IH].
  rewrite key_hset_keep by reflexivity. apply key_set_child.
Qed.

Theorem tree_remove_keeps_keys fuel t node i : i <> HEAD -> key (heap (tree_remove_f fuel t node)) i = key (heap t) i.
Proof.
  intros Hh. unfold tree_remove_f.
  set (h0 := hset (heap t) HEAD (mktn 0 (root t) false 0)).
  assert (K0 : key h0 i = key (heap t) i) by (unfold h0, key; rewrite hget_hset_other by (intros E; apply Hh; symmetry; exact E); reflexivity).
  pose proof (key_remove_loop i fuel h0 node 0 0 HEAD 0 0 true) as K1.
  destruct (remove_loop fuel h0 node 0 0 HEAD 0 0 true) as [h1 [[[[g p] q] f] gf]]. cbn [fst] in K1.
  set (h2 := set_child h1 p (child h1 p true =? q) (child h1 q (child h1 q false =? 0))).
  assert (K2 : key h2 i = key (heap t) i) by (unfold h2; rewrite key_set_child, K1; exact K0).
  set (h3 := if f =? q then h2 else _).
  assert (K3 : key h3 i = key (heap t) i) by (unfold h3; destruct (f =? q); [exact K2|rewrite key_relink_loop; exact K2]).
  cbn [heap]. destruct (child h3 HEAD true =? 0); [exact K3|rewrite key_set_red; exact K3].
Qed.

(* C18 (1) — BitVectorRangeIterator: small-scope theorem at word size 4 (the C++ is a template over the word type; the model
   is generic in W): for every vector of 1..2 words and every 0 <= start <= end <= bits, and every vector of 3 words with
   end = 12, every hint in {1,2,5,100}, both polarities: the ranges returned are exactly the maximal runs of B-bits in
   [start, end) (possibly split at a word boundary once the hint is reached) — PROVIDED no B-bit lies between `end` and the
   end of its word. Without that proviso the iterator returns an inverted range (refuted below). *)
From Coq Require Import ZArith List Bool Lia.
From Verif Require Import Containers.BitVecModel Containers.RangeIterModel.
Import ListNotations.
Local Open Scope Z_scope.

Definition W4 : Z := 4.
Definition isb (b : bool) (ws : list Z) (j : Z) : bool := Bool.eqb (bv_get W4 ws j) b.

Fixpoint zrange (lo : Z) (n : nat) : list Z := match n with O => [] | S k => lo :: zrange (lo + 1) k end.

(* the specification, as a checker over the list of returned ranges *)
Fixpoint ranges_ok (b : bool) (ws : list Z) (start end_ hint : Z) (prev_end : Z) (first : bool) (rs : list (Z * Z)) : bool :=
  match rs with
  | [] => (* nothing left: no B-bit in [prev_end, end) *)
    forallb (fun j => negb (isb b ws j)) (zrange prev_end (Z.to_nat (end_ - prev_end)))
  | (s, e) :: r =>
    (prev_end <=? s) && (s <? e) && (e <=? end_) &&
    forallb (fun j => isb b ws j) (zrange s (Z.to_nat (e - s))) &&                       (* only B-bits inside *)
    forallb (fun j => negb (isb b ws j)) (zrange prev_end (Z.to_nat (s - prev_end))) &&  (* nothing skipped *)
    (* the end is the end of the run, or the search end, or a split at a word boundary after the hint was reached *)
    ((e =? end_) || negb (isb b ws e) || ((e mod W4 =? 0) && (hint <=? e - s))) &&
    ranges_ok b ws start end_ hint e false r
  end.

Definition no_b_after_end (b : bool) (ws : list Z) (end_ : Z) : bool :=
  forallb (fun j => negb (isb b ws j)) (zrange end_ (Z.to_nat (((end_ + W4 - 1) / W4) * W4 - end_))).

Definition case_ok (b : bool) (ws : list Z) (start end_ hint : Z) : bool :=
  if no_b_after_end b ws end_ then ranges_ok b ws start end_ hint start true (ranges W4 b ws start end_ hint) else true.

Fixpoint all_words (n : nat) : list (list Z) :=
  match n with O => [[]] | S k => flat_map (fun l => map (fun w => w :: l) (zrange 0 16)) (all_words k) end.

Definition hints : list Z := [1; 2; 5; 100].

Definition explore_n (n : nat) (only_full_end : bool) : bool :=
  let bits := W4 * Z.of_nat n in
  forallb (fun ws =>
    forallb (fun b =>
      forallb (fun start =>
        forallb (fun end_ =>
          if (start <=? end_) && (negb only_full_end || (end_ =? bits)) then forallb (fun h => case_ok b ws start end_ h) hints else true)
          (zrange 0 (S (Z.to_nat bits))))
        (zrange 0 (S (Z.to_nat bits))))
      [true; false])
    (all_words n).

Theorem range_iter_small_scope : explore_n 1 false = true /\ explore_n 2 false = true /\ explore_n 3 true = true.
Proof. vm_compute. repeat split. Qed.

(* without the proviso: one word 1000b, search [0, 2) for 1-bits -> "range" (3, 2) *)
Theorem range_iter_unaligned_end_refuted :
  ranges W4 true [8] 0 2 100 = [(3, 2)].
Proof. vm_compute. reflexivity. Qed.

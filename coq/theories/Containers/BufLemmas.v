(* C18 — lemmas about the bounds-checked cell buffers shared by the vector and string models *)
From Coq Require Import ZArith List Bool Lia.
From Verif Require Import Containers.ArenaModel Containers.VecModel.
Import ListNotations.
Local Open Scope Z_scope.

Lemma zlength_nonneg {A} (l : list A) : 0 <= zlength l.
Proof. unfold zlength. lia. Qed.
Lemma zlength_nil {A} : zlength (@nil A) = 0.
Proof. reflexivity. Qed.
Lemma zlength_cons {A} (x : A) l : zlength (x :: l) = 1 + zlength l.
Proof. unfold zlength. simpl length. lia. Qed.
Lemma zlength_app {A} (l1 l2 : list A) : zlength (l1 ++ l2) = zlength l1 + zlength l2.
Proof. unfold zlength. rewrite app_length. lia. Qed.
Lemma zlength_zrepeat {A} (x : A) n : 0 <= n -> zlength (zrepeat x n) = n.
Proof. intros. unfold zlength, zrepeat. rewrite repeat_length. lia. Qed.
Lemma zlength_zfirstn {A} n (l : list A) : 0 <= n <= zlength l -> zlength (zfirstn n l) = n.
Proof. intros. unfold zlength, zfirstn in *. rewrite firstn_length. lia. Qed.
Lemma zlength_zskipn {A} n (l : list A) : 0 <= n <= zlength l -> zlength (zskipn n l) = zlength l - n.
Proof. intros. unfold zlength, zskipn in *. rewrite skipn_length. lia. Qed.
Lemma zlength_0_nil {A} (l : list A) : zlength l = 0 -> l = [].
Proof. unfold zlength. destruct l; simpl; [reflexivity|lia]. Qed.

Lemma zfirstn_zskipn {A} n (l : list A) : zfirstn n l ++ zskipn n l = l.
Proof. apply firstn_skipn. Qed.
Lemma zfirstn_0 {A} (l : list A) : zfirstn 0 l = [].
Proof. reflexivity. Qed.
Lemma zskipn_0 {A} (l : list A) : zskipn 0 l = l.
Proof. reflexivity. Qed.
Lemma zfirstn_all {A} n (l : list A) : zlength l <= n -> zfirstn n l = l.
Proof. intros. unfold zfirstn, zlength in *. apply firstn_all2. lia. Qed.
Lemma zskipn_all {A} n (l : list A) : zlength l <= n -> zskipn n l = [].
Proof. intros. unfold zskipn, zlength in *. apply skipn_all2. lia. Qed.

Lemma zfirstn_app_l {A} n (l1 l2 : list A) : 0 <= n <= zlength l1 -> zfirstn n (l1 ++ l2) = zfirstn n l1.
Proof.
  intros. unfold zfirstn, zlength in *. rewrite firstn_app.
  replace (Z.to_nat n - length l1)%nat with 0%nat by lia. simpl. apply app_nil_r.
Qed.
Lemma zfirstn_app_r {A} n (l1 l2 : list A) : zlength l1 <= n -> zfirstn n (l1 ++ l2) = l1 ++ zfirstn (n - zlength l1) l2.
Proof.
  intros. unfold zfirstn, zlength in *. rewrite firstn_app. rewrite firstn_all2 by lia.
  f_equal. f_equal. lia.
Qed.
Lemma zskipn_app_l {A} n (l1 l2 : list A) : 0 <= n <= zlength l1 -> zskipn n (l1 ++ l2) = zskipn n l1 ++ l2.
Proof.
  intros. unfold zskipn, zlength in *. rewrite skipn_app.
  replace (Z.to_nat n - length l1)%nat with 0%nat by lia. reflexivity.
Qed.
Lemma zskipn_app_r {A} n (l1 l2 : list A) : zlength l1 <= n -> zskipn n (l1 ++ l2) = zskipn (n - zlength l1) l2.
Proof.
  intros. unfold zskipn, zlength in *. rewrite skipn_app. rewrite skipn_all2 by lia. simpl. f_equal. lia.
Qed.
Lemma zfirstn_zfirstn {A} n m (l : list A) : 0 <= n <= m -> zfirstn n (zfirstn m l) = zfirstn n l.
Proof. intros. unfold zfirstn. rewrite firstn_firstn. f_equal. lia. Qed.
Lemma zskipn_zskipn {A} n m (l : list A) : 0 <= n -> 0 <= m -> zskipn n (zskipn m l) = zskipn (n + m) l.
Proof.
  intros. unfold zskipn. rewrite Z2Nat.inj_add by lia.
  generalize (Z.to_nat n) as j. generalize (Z.to_nat m) as k. clear. intros k. revert l.
  induction k; intros l j; simpl.
  - rewrite Nat.add_0_r. reflexivity.
  - replace (j + S k)%nat with (S (j + k)) by lia. destruct l; simpl; [destruct j; reflexivity|apply IHk].
Qed.
Lemma zfirstn_zskipn_comm {A} n m (l : list A) : 0 <= n -> 0 <= m -> zfirstn n (zskipn m l) = zskipn m (zfirstn (m + n) l).
Proof.
  intros. unfold zfirstn, zskipn. rewrite Z2Nat.inj_add by lia.
  revert l. generalize (Z.to_nat m) as k. generalize (Z.to_nat n) as j. clear.
  intros j k. induction k; intros l; simpl; [reflexivity|]. destruct l; simpl; [destruct j; reflexivity|apply IHk].
Qed.

(* the buffer splits into the part before i, n cells, and the rest *)
Lemma buf_split3 {A} (l : list A) i n : 0 <= i -> 0 <= n ->
  l = zfirstn i l ++ zfirstn n (zskipn i l) ++ zskipn (i + n) l.
Proof.
  intros. rewrite <- (zfirstn_zskipn i l) at 1. f_equal.
  rewrite <- (zfirstn_zskipn n (zskipn i l)) at 1. f_equal. rewrite zskipn_zskipn by lia. f_equal. lia.
Qed.

(* ---- buf_write / buf_read / buf_move *)
Lemma buf_write_some buf i xs : 0 <= i -> i + zlength xs <= zlength buf ->
  buf_write buf i xs = Some (zfirstn i buf ++ xs ++ zskipn (i + zlength xs) buf).
Proof.
  intros. unfold buf_write. destruct (Z.leb_spec 0 i); [|lia]. destruct (Z.leb_spec (i + zlength xs) (zlength buf)); [|lia]. reflexivity.
Qed.
Lemma buf_write_inv buf i xs b : buf_write buf i xs = Some b ->
  0 <= i /\ i + zlength xs <= zlength buf /\ b = zfirstn i buf ++ xs ++ zskipn (i + zlength xs) buf /\ zlength b = zlength buf.
Proof.
  unfold buf_write. destruct (Z.leb_spec 0 i); [|discriminate]. destruct (Z.leb_spec (i + zlength xs) (zlength buf)); [|discriminate].
  simpl. intros Hb. inversion Hb; subst. pose proof (zlength_nonneg xs). repeat split; try lia.
  rewrite !zlength_app, zlength_zfirstn, zlength_zskipn by lia. lia.
Qed.
Lemma buf_write_none buf i xs : buf_write buf i xs = None -> i < 0 \/ zlength buf < i + zlength xs.
Proof.
  unfold buf_write. destruct (Z.leb_spec 0 i); [|lia]. destruct (Z.leb_spec (i + zlength xs) (zlength buf)); [discriminate|lia].
Qed.
Lemma buf_read_some buf i n : 0 <= i -> 0 <= n -> i + n <= zlength buf -> buf_read buf i n = Some (zfirstn n (zskipn i buf)).
Proof.
  intros. unfold buf_read. destruct (Z.leb_spec 0 i); [|lia]. destruct (Z.leb_spec 0 n); [|lia].
  destruct (Z.leb_spec (i + n) (zlength buf)); [|lia]. reflexivity.
Qed.
Lemma buf_read_none buf i n : buf_read buf i n = None -> i < 0 \/ n < 0 \/ zlength buf < i + n.
Proof.
  unfold buf_read. destruct (Z.leb_spec 0 i); [|lia]. destruct (Z.leb_spec 0 n); [|lia].
  destruct (Z.leb_spec (i + n) (zlength buf)); [discriminate|lia].
Qed.

(* what is in front of a written area is unchanged; the written prefix reads back *)
Lemma write_prefix {A} (buf : list A) i xs : 0 <= i -> i + zlength xs <= zlength buf ->
  zfirstn (i + zlength xs) (zfirstn i buf ++ xs ++ zskipn (i + zlength xs) buf) = zfirstn i buf ++ xs.
Proof.
  intros. pose proof (zlength_nonneg xs). rewrite app_assoc.
  rewrite zfirstn_app_l by (rewrite zlength_app, zlength_zfirstn by lia; lia).
  apply zfirstn_all. rewrite zlength_app, zlength_zfirstn by lia. lia.
Qed.
Lemma write_keeps_front {A} (buf : list A) i xs k : 0 <= k <= i -> i + zlength xs <= zlength buf ->
  zfirstn k (zfirstn i buf ++ xs ++ zskipn (i + zlength xs) buf) = zfirstn k buf.
Proof.
  intros. pose proof (zlength_nonneg xs). rewrite zfirstn_app_l by (rewrite zlength_zfirstn by lia; lia).
  apply zfirstn_zfirstn. lia.
Qed.

(* memmove(dst + idx + 1, dst + idx, n) then a store at idx: the list insertion *)
Lemma insert_cells buf idx n x : 0 <= idx -> 0 <= n -> idx + n + 1 <= zlength buf ->
  exists b1 b, buf_move buf (idx + 1) idx n = Some b1 /\ buf_write b1 idx [x] = Some b /\ zlength b = zlength buf /\
    zfirstn (idx + n + 1) b = zfirstn idx buf ++ x :: zfirstn n (zskipn idx buf).
Proof.
  intros Hi Hn Hlen. unfold buf_move. rewrite buf_read_some by lia.
  set (xs := zfirstn n (zskipn idx buf)).
  assert (Hxs : zlength xs = n) by (unfold xs; rewrite zlength_zfirstn; [reflexivity|rewrite zlength_zskipn by lia; lia]).
  rewrite buf_write_some by lia. eexists. eexists. split; [reflexivity|].
  set (b1 := zfirstn (idx + 1) buf ++ xs ++ zskipn (idx + 1 + zlength xs) buf).
  assert (Hb1 : zlength b1 = zlength buf).
  { unfold b1. rewrite !zlength_app, zlength_zfirstn, zlength_zskipn by lia. lia. }
  rewrite buf_write_some by (change (zlength [x]) with 1; lia). split; [reflexivity|]. change (zlength [x]) with 1. fold b1.
  split.
  - rewrite !zlength_app, zlength_zfirstn, zlength_zskipn by lia. change (zlength [x]) with 1. lia.
  - assert (Hf : zfirstn idx b1 = zfirstn idx buf).
    { unfold b1. rewrite zfirstn_app_l by (rewrite zlength_zfirstn by lia; lia). apply zfirstn_zfirstn. lia. }
    assert (Hs : zskipn (idx + 1) b1 = xs ++ zskipn (idx + 1 + zlength xs) buf).
    { unfold b1. rewrite zskipn_app_r by (rewrite zlength_zfirstn by lia; lia).
      rewrite zlength_zfirstn by lia. replace (idx + 1 - (idx + 1)) with 0 by lia. apply zskipn_0. }
    rewrite Hf, Hs.
    replace (zfirstn idx buf ++ [x] ++ xs ++ zskipn (idx + 1 + zlength xs) buf)
      with ((zfirstn idx buf ++ [x] ++ xs) ++ zskipn (idx + 1 + zlength xs) buf) by (rewrite <- !app_assoc; reflexivity).
    rewrite zfirstn_app_l by (rewrite !zlength_app, zlength_zfirstn by lia; change (zlength [x]) with 1; lia).
    rewrite zfirstn_all by (rewrite !zlength_app, zlength_zfirstn by lia; change (zlength [x]) with 1; lia).
    reflexivity.
Qed.

(* memmove(dst + i, dst + i + 1, n): the list removal (the first i + n cells afterwards) *)
Lemma remove_cells buf i n : 0 <= i -> 0 < n -> i + 1 + n <= zlength buf ->
  exists b, buf_move buf i (i + 1) n = Some b /\ zlength b = zlength buf /\
    zfirstn (i + n) b = zfirstn i buf ++ zfirstn n (zskipn (i + 1) buf).
Proof.
  intros Hi Hn Hlen. unfold buf_move. rewrite buf_read_some by lia.
  set (xs := zfirstn n (zskipn (i + 1) buf)).
  assert (Hxs : zlength xs = n) by (unfold xs; rewrite zlength_zfirstn; [reflexivity|rewrite zlength_zskipn by lia; lia]).
  rewrite buf_write_some by lia. eexists. split; [reflexivity|]. split.
  - rewrite !zlength_app, zlength_zfirstn, zlength_zskipn by lia. lia.
  - rewrite <- Hxs at 1. apply write_prefix; lia.
Qed.

(* C18 (4') — ArenaHash with string keys as CodeHolder uses it for named labels: the hash of a name
   (Support::hash_string / hash_char: h' = h * 65599 + c, 32-bit wrap-around) and the encoding of a name as a table key.
   A named node is stored with hash code hash_name(name) and is found by comparing the names (memcmp in LabelByName::matches). *)
From Coq Require Import ZArith List Bool.
From Verif Require Import Containers.ArenaModel Containers.HashModel.
Import ListNotations.
Local Open Scope Z_scope.

Definition hash_char (h c : Z) : Z := (h * 65599 + c) mod 2 ^ 32.
Definition hash_name (bytes : list Z) : Z := fold_left hash_char bytes 0.

(* a name as a number: injective on byte strings (zero bytes and the length count) *)
Fixpoint name_key (bytes : list Z) : Z := match bytes with [] => 0 | c :: r => (c + 1) + 257 * name_key r end.

Definition name_node (id : Z) (bytes : list Z) : hnode := mkhn id (hash_name bytes) (name_key bytes).
Definition name_get (h : hash) (bytes : list Z) : option hnode := hash_get h (hash_name bytes) (name_key bytes).

(* C18 (1) — proofs about the bit-vector model: word-level operations = bit-list operations, for every word size W > 0,
   every index and count. *)
From Coq Require Import ZArith List Bool Lia.
From Verif Require Import Base.ZBits Containers.BitVecModel.
Import ListNotations.
Local Open Scope Z_scope.

(* ------------------------------------------------------------------ words *)
Lemma word_ok_testbit_high W w j : 0 <= W -> word_ok W w -> W <= j -> Z.testbit w j = false.
Proof.
  intros HW [H0 H1] Hj.
  destruct (Z.eq_dec w 0) as [->|Hn]; [apply Z.testbit_0_l|].
  apply Z.bits_above_log2; [lia|].
  apply Z.log2_lt_pow2; [lia|].
  eapply Z.lt_le_trans; [exact H1|]. apply Z.pow_le_mono_r; lia.
Qed.

Lemma mod_pow2_testbit W x j : 0 <= W -> 0 <= j -> Z.testbit (x mod 2 ^ W) j = (j <? W) && Z.testbit x j.
Proof.
  intros HW Hj. destruct (Z.ltb_spec j W).
  - rewrite Z.mod_pow2_bits_low by lia. reflexivity.
  - rewrite Z.mod_pow2_bits_high by lia. reflexivity.
Qed.

Lemma ones_testbit n j : 0 <= n -> 0 <= j -> Z.testbit (Z.ones n) j = (j <? n).
Proof.
  intros Hn Hj. destruct (Z.ltb_spec j n).
  - apply Z.ones_spec_low. lia.
  - apply Z.ones_spec_high. lia.
Qed.

Lemma mod_pow2_word_ok W x : 0 <= W -> word_ok W (x mod 2 ^ W).
Proof. intros. unfold word_ok. apply Z.mod_pos_bound. apply pow2_pos; lia. Qed.

Lemma word_ok_of_bits W w : 0 <= W -> 0 <= w -> (forall j, W <= j -> Z.testbit w j = false) -> word_ok W w.
Proof.
  intros HW H0 Hb. split; [assumption|].
  destruct (Z.eq_dec w 0) as [->|Hn]; [apply pow2_pos; lia|].
  destruct (Z.lt_ge_cases w (2 ^ W)) as [|Hge]; [assumption|exfalso].
  assert (Hl : W <= Z.log2 w) by (apply Z.log2_le_pow2; lia).
  specialize (Hb (Z.log2 w) Hl). rewrite Z.bit_log2 in Hb by lia. discriminate.
Qed.

Lemma range_mask_spec W n b j : 0 < W -> 0 <= b -> 0 <= n -> b + n <= W -> 0 <= j ->
  Z.testbit (range_mask W n b) j = (b <=? j) && (j <? b + n).
Proof.
  intros HW Hb Hn Hbn Hj. unfold range_mask.
  rewrite mod_pow2_testbit by lia.
  destruct (Z.leb_spec b j) as [Hbj|Hbj].
  - rewrite Z.shiftl_spec by lia. rewrite Z.shiftr_spec by lia.
    rewrite ones_testbit by lia.
    destruct (Z.ltb_spec j W), (Z.ltb_spec (j - b + (W - n)) W), (Z.ltb_spec j (b + n)); simpl; try reflexivity; lia.
  - rewrite Z.shiftl_spec_low by lia. rewrite andb_false_r. reflexivity.
Qed.

Lemma range_mask_ok W n b : 0 < W -> word_ok W (range_mask W n b).
Proof. intros. apply mod_pow2_word_ok. lia. Qed.

Lemma wnot_testbit W m j : 0 <= W -> 0 <= j -> Z.testbit (wnot W m) j = xorb (Z.testbit m j) (j <? W).
Proof. intros. unfold wnot. rewrite Z.lxor_spec, ones_testbit by lia. reflexivity. Qed.

Lemma apply_op_testbit W o w m j : 0 < W -> 0 <= j -> word_ok W w -> word_ok W m ->
  Z.testbit (apply_op W o w m) j =
  match o with OpFill => Z.testbit w j || Z.testbit m j | OpClear => Z.testbit w j && negb (Z.testbit m j) end.
Proof.
  intros HW Hj Hw Hm. destruct o; simpl.
  - apply Z.lor_spec.
  - rewrite Z.land_spec, wnot_testbit by lia.
    destruct (Z.ltb_spec j W).
    + rewrite xorb_true_r. reflexivity.
    + rewrite (word_ok_testbit_high W w j) by (assumption || lia). reflexivity.
Qed.

Lemma apply_op_ok W o w m : 0 < W -> word_ok W w -> word_ok W m -> word_ok W (apply_op W o w m).
Proof.
  intros HW Hw Hm. apply word_ok_of_bits; [lia| |].
  - destruct o; simpl.
    + apply Z.lor_nonneg. split; [apply Hw|apply Hm].
    + apply Z.land_nonneg. left. apply Hw.
  - intros j Hj. rewrite apply_op_testbit by (assumption || lia).
    rewrite (word_ok_testbit_high W w j), (word_ok_testbit_high W m j) by (assumption || lia). destruct o; reflexivity.
Qed.

(* ------------------------------------------------------------------ lists of words *)
Lemma zlen_cons {A} (a : A) l : zlen (a :: l) = 1 + zlen l.
Proof. unfold zlen. simpl length. lia. Qed.
Lemma zlen_nonneg {A} (l : list A) : 0 <= zlen l.
Proof. unfold zlen. lia. Qed.

Lemma nthw_cons_0 w ws : nthw (w :: ws) 0 = w.
Proof. reflexivity. Qed.
Lemma nthw_cons_pos w ws i : 0 < i -> nthw (w :: ws) i = nthw ws (i - 1).
Proof.
  intros. unfold nthw. replace (Z.to_nat i) with (S (Z.to_nat (i - 1))) by lia. reflexivity.
Qed.

(* the index arithmetic of a bit of the tail *)
Lemma div_mod_shift W j : 0 < W -> W <= j -> j / W = (j - W) / W + 1 /\ j mod W = (j - W) mod W.
Proof.
  intros HW Hj. replace j with ((j - W) + 1 * W) at 1 3 by ring.
  rewrite Z.div_add, Z.mod_add by lia. split; reflexivity.
Qed.

Lemma bv_get_cons_low W w ws j : 0 < W -> 0 <= j < W -> bv_get W (w :: ws) j = Z.testbit w j.
Proof.
  intros HW Hj. unfold bv_get. rewrite Z.div_small, Z.mod_small by lia. reflexivity.
Qed.

Lemma bv_get_cons_high W w ws j : 0 < W -> W <= j -> bv_get W (w :: ws) j = bv_get W ws (j - W).
Proof.
  intros HW Hj. unfold bv_get. destruct (div_mod_shift W j HW Hj) as [-> ->].
  rewrite nthw_cons_pos.
  - f_equal. f_equal. lia.
  - assert (0 <= (j - W) / W) by (apply Z.div_pos; lia). lia.
Qed.

(* ------------------------------------------------------------------ fill / clear *)
Lemma bv_op_length W o ws i n : length (bv_op W o ws i n) = length ws.
Proof.
  revert i n. induction ws as [|w ws IH]; intros; simpl; [reflexivity|].
  destruct (n <=? 0); [reflexivity|]. destruct (W <=? i); simpl; rewrite IH; reflexivity.
Qed.

Lemma bv_op_ok W o ws i n : 0 < W -> 0 <= i -> words_ok W ws -> words_ok W (bv_op W o ws i n).
Proof.
  intros HW. revert i n. induction ws as [|w ws IH]; intros i n Hi Hok; simpl; [constructor|].
  inversion Hok; subst.
  destruct (n <=? 0); [assumption|]. destruct (Z.leb_spec W i).
  - constructor; [assumption|]. apply IH; [lia|assumption].
  - constructor.
    + apply apply_op_ok; [lia|assumption|apply range_mask_ok; lia].
    + apply IH; [lia|assumption].
Qed.

Definition in_range (i n j : Z) : bool := (i <=? j) && (j <? i + n).

Lemma bv_op_get W o ws i n j : 0 < W -> 0 <= i -> 0 <= n -> words_ok W ws -> i + n <= W * zlen ws -> 0 <= j < W * zlen ws ->
  bv_get W (bv_op W o ws i n) j =
  if in_range i n j then (match o with OpFill => true | OpClear => false end) else bv_get W ws j.
Proof.
  intros HW. revert i n j. induction ws as [|w ws IH]; intros i n j Hi Hn Hok Hin Hj.
  - unfold zlen in Hj. simpl in Hj. lia.
  - inversion Hok as [|? ? Hw Hws]; subst. rewrite zlen_cons in *. simpl.
    destruct (Z.leb_spec n 0) as [Hn0|Hn0].
    { unfold in_range. destruct (Z.leb_spec i j), (Z.ltb_spec j (i + n)); simpl; try reflexivity; lia. }
    destruct (Z.leb_spec W i) as [HWi|HWi].
    + (* word skipped *)
      destruct (Z.lt_ge_cases j W) as [HjW|HjW].
      * rewrite !bv_get_cons_low by lia.
        unfold in_range. destruct (Z.leb_spec i j); simpl; [lia|reflexivity].
      * rewrite !bv_get_cons_high by lia. rewrite IH by (assumption || lia).
        unfold in_range. replace (i - W <=? j - W) with (i <=? j) by (apply Bool.eq_iff_eq_true; rewrite !Z.leb_le; lia).
        replace (j - W <? i - W + n) with (j <? i + n) by (apply Bool.eq_iff_eq_true; rewrite !Z.ltb_lt; lia).
        reflexivity.
    + (* first touched word / following words *)
      set (k := Z.min (W - i) n).
      assert (Hk : 0 < k <= W - i /\ k <= n) by (unfold k; lia).
      destruct (Z.lt_ge_cases j W) as [HjW|HjW].
      * rewrite !bv_get_cons_low by lia.
        rewrite apply_op_testbit by (try lia; try assumption; apply range_mask_ok; lia).
        rewrite range_mask_spec by lia.
        unfold in_range.
        assert (Heq : (j <? i + k) = (j <? i + n)).
        { apply Bool.eq_iff_eq_true; rewrite !Z.ltb_lt. unfold k. lia. }
        rewrite Heq. destruct ((i <=? j) && (j <? i + n)); destruct o; simpl;
          rewrite ?orb_true_r, ?orb_false_r, ?andb_true_r, ?andb_false_r; reflexivity.
      * rewrite !bv_get_cons_high by lia.
        destruct (Z.eq_dec k n) as [Hkn|Hkn].
        -- (* everything was in the first word *)
           rewrite IH by (try assumption; lia).
           unfold in_range.
           destruct (Z.leb_spec 0 (j - W)), (Z.ltb_spec (j - W) (0 + (n - k))), (Z.leb_spec i j), (Z.ltb_spec j (i + n));
             simpl; try reflexivity; lia.
        -- assert (k = W - i) by (unfold k in *; lia).
           rewrite IH by (try assumption; lia).
           unfold in_range.
           destruct (Z.leb_spec 0 (j - W)), (Z.ltb_spec (j - W) (0 + (n - k))), (Z.leb_spec i j), (Z.ltb_spec j (i + n));
             simpl; try reflexivity; lia.
Qed.

Theorem bv_fill_get W ws i n j : 0 < W -> 0 <= i -> 0 <= n -> words_ok W ws -> i + n <= W * zlen ws -> 0 <= j < W * zlen ws ->
  bv_get W (bv_fill W ws i n) j = if in_range i n j then true else bv_get W ws j.
Proof. intros. unfold bv_fill. rewrite bv_op_get by assumption. reflexivity. Qed.

Theorem bv_clear_get W ws i n j : 0 < W -> 0 <= i -> 0 <= n -> words_ok W ws -> i + n <= W * zlen ws -> 0 <= j < W * zlen ws ->
  bv_get W (bv_clear W ws i n) j = if in_range i n j then false else bv_get W ws j.
Proof. intros. unfold bv_clear. rewrite bv_op_get by assumption. reflexivity. Qed.

(* ------------------------------------------------------------------ single-bit operations *)
Lemma updw_length ws i v : length (updw ws i v) = length ws.
Proof. revert i. induction ws; intros [|i]; simpl; auto. Qed.

Lemma nth_updw_same ws i v : (i < length ws)%nat -> nth i (updw ws i v) 0 = v.
Proof. revert i. induction ws; intros [|i] H; simpl in *; try lia; auto. apply IHws. lia. Qed.

Lemma nth_updw_other ws i k v : i <> k -> nth k (updw ws i v) 0 = nth k ws 0.
Proof. revert i k. induction ws; intros [|i] [|k] H; simpl in *; try congruence; auto. Qed.

Lemma updw_ok W ws i v : words_ok W ws -> word_ok W v -> words_ok W (updw ws i v).
Proof.
  intros Hok Hv. revert i. unfold words_ok in *. induction Hok; intros [|i]; simpl; constructor; auto.
Qed.

Lemma nthw_ok W ws i : 0 <= W -> words_ok W ws -> word_ok W (nthw ws i).
Proof.
  intros HW Hok. unfold nthw. generalize (Z.to_nat i) as k. induction Hok; intros [|k]; simpl; auto;
    split; try lia; apply pow2_pos; lia.
Qed.

Lemma bit_index_split W i : 0 < W -> 0 <= i -> 0 <= i / W /\ 0 <= i mod W < W /\ i = W * (i / W) + i mod W.
Proof.
  intros. split; [apply Z.div_pos; lia|]. split; [apply Z.mod_pos_bound; lia|]. apply Z.div_mod. lia.
Qed.

Lemma word_index_lt W n i : 0 < W -> 0 <= i < W * n -> (i / W < n).
Proof. intros. apply Z.div_lt_upper_bound; lia. Qed.

Lemma shiftl_bit_testbit W v b j : 0 < W -> 0 <= b < W -> 0 <= j ->
  Z.testbit (Z.shiftl (Z.b2z v) b mod 2 ^ W) j = v && (j =? b).
Proof.
  intros HW Hb Hj. rewrite mod_pow2_testbit by lia. destruct v; simpl Z.b2z.
  - rewrite Z.shiftl_1_l, Z.pow2_bits_eqb by lia. rewrite Z.eqb_sym.
    destruct (Z.eqb_spec j b); [subst; destruct (Z.ltb_spec b W); [reflexivity|lia]|apply andb_false_r].
  - rewrite Z.shiftl_0_l, Z.testbit_0_l. apply andb_false_r.
Qed.

Lemma set_word_testbit W w b v j : 0 < W -> word_ok W w -> 0 <= b < W -> 0 <= j ->
  Z.testbit (Z.lor (Z.land w (wnot W (Z.shiftl 1 b mod 2 ^ W))) (Z.shiftl (Z.b2z v) b mod 2 ^ W)) j =
  if j =? b then v else Z.testbit w j.
Proof.
  intros HW Hw Hb Hj. rewrite Z.lor_spec, Z.land_spec, wnot_testbit by lia.
  change 1 with (Z.b2z true) at 1. rewrite !shiftl_bit_testbit by lia.
  destruct (Z.eqb_spec j b).
  - subst. simpl. destruct (Z.ltb_spec b W); [|lia]. simpl. rewrite andb_false_r. destruct v; reflexivity.
  - simpl. rewrite andb_false_r, orb_false_r.
    destruct (Z.ltb_spec j W); [apply andb_true_r|].
    rewrite (word_ok_testbit_high W w j) by (assumption || lia). reflexivity.
Qed.

Lemma set_word_ok W w b v : 0 < W -> word_ok W w -> 0 <= b < W ->
  word_ok W (Z.lor (Z.land w (wnot W (Z.shiftl 1 b mod 2 ^ W))) (Z.shiftl (Z.b2z v) b mod 2 ^ W)).
Proof.
  intros HW Hw Hb. apply word_ok_of_bits; [lia| |].
  - apply Z.lor_nonneg. split; [apply Z.land_nonneg; left; apply Hw|apply Z.mod_pos_bound, pow2_pos; lia].
  - intros j Hj. rewrite set_word_testbit by (assumption || lia).
    destruct (Z.eqb_spec j b); [lia|]. apply (word_ok_testbit_high W w j); assumption || lia.
Qed.

Theorem bv_set_get W ws i v j : 0 < W -> words_ok W ws -> 0 <= i < W * zlen ws -> 0 <= j < W * zlen ws ->
  bv_get W (bv_set W ws i v) j = if j =? i then v else bv_get W ws j.
Proof.
  intros HW Hok Hi Hj. unfold bv_get, bv_set.
  destruct (bit_index_split W i HW (proj1 Hi)) as (Hi1 & Hi2 & Hi3).
  destruct (bit_index_split W j HW (proj1 Hj)) as (Hj1 & Hj2 & Hj3).
  pose proof (word_index_lt W (zlen ws) i HW Hi) as Hil.
  destruct (Z.eq_dec (j / W) (i / W)) as [He|He].
  - rewrite He. unfold nthw at 1. rewrite nth_updw_same by (unfold zlen in Hil; lia).
    rewrite set_word_testbit by first [lia | apply nthw_ok; [lia|assumption]].
    destruct (Z.eqb_spec (j mod W) (i mod W)), (Z.eqb_spec j i); try reflexivity; try lia.
  - unfold nthw at 1. rewrite nth_updw_other by lia.
    destruct (Z.eqb_spec j i); [subst; congruence|reflexivity].
Qed.

Theorem bv_set_ok W ws i v : 0 < W -> words_ok W ws -> 0 <= i -> words_ok W (bv_set W ws i v) /\ length (bv_set W ws i v) = length ws.
Proof.
  intros HW Hok Hi. destruct (bit_index_split W i HW Hi) as (Hi1 & Hi2 & Hi3).
  unfold bv_set. split; [|apply updw_length].
  apply updw_ok; [assumption|]. apply set_word_ok; [lia|apply nthw_ok; [lia|assumption]|lia].
Qed.

Theorem bv_or_bit_get W ws i v j : 0 < W -> words_ok W ws -> 0 <= i < W * zlen ws -> 0 <= j < W * zlen ws ->
  bv_get W (bv_or_bit W ws i v) j = if j =? i then v || bv_get W ws j else bv_get W ws j.
Proof.
  intros HW Hok Hi Hj. unfold bv_get, bv_or_bit.
  destruct (bit_index_split W i HW (proj1 Hi)) as (Hi1 & Hi2 & Hi3).
  destruct (bit_index_split W j HW (proj1 Hj)) as (Hj1 & Hj2 & Hj3).
  pose proof (word_index_lt W (zlen ws) i HW Hi) as Hil.
  destruct (Z.eq_dec (j / W) (i / W)) as [He|He].
  - rewrite He. unfold nthw at 1. rewrite nth_updw_same by (unfold zlen in Hil; lia).
    rewrite Z.lor_spec, shiftl_bit_testbit by lia.
    destruct (Z.eqb_spec (j mod W) (i mod W)), (Z.eqb_spec j i); try lia; try (subst j; congruence);
      rewrite ?andb_true_r, ?andb_false_r, ?orb_false_r; try reflexivity; apply orb_comm.
  - unfold nthw at 1. rewrite nth_updw_other by lia.
    destruct (Z.eqb_spec j i); [subst; congruence|reflexivity].
Qed.

Theorem bv_xor_bit_get W ws i v j : 0 < W -> words_ok W ws -> 0 <= i < W * zlen ws -> 0 <= j < W * zlen ws ->
  bv_get W (bv_xor_bit W ws i v) j = if j =? i then xorb (bv_get W ws j) v else bv_get W ws j.
Proof.
  intros HW Hok Hi Hj. unfold bv_get, bv_xor_bit.
  destruct (bit_index_split W i HW (proj1 Hi)) as (Hi1 & Hi2 & Hi3).
  destruct (bit_index_split W j HW (proj1 Hj)) as (Hj1 & Hj2 & Hj3).
  pose proof (word_index_lt W (zlen ws) i HW Hi) as Hil.
  destruct (Z.eq_dec (j / W) (i / W)) as [He|He].
  - rewrite He. unfold nthw at 1. rewrite nth_updw_same by (unfold zlen in Hil; lia).
    rewrite Z.lxor_spec, shiftl_bit_testbit by lia.
    destruct (Z.eqb_spec (j mod W) (i mod W)), (Z.eqb_spec j i); try lia; try (subst j; congruence);
      rewrite ?andb_true_r, ?andb_false_r, ?xorb_false_r; reflexivity.
  - unfold nthw at 1. rewrite nth_updw_other by lia.
    destruct (Z.eqb_spec j i); [subst; congruence|reflexivity].
Qed.

(* ------------------------------------------------------------------ index_of *)
Lemma ctz_pos_spec p : 0 <= ctz_pos p /\ Z.testbit (Zpos p) (ctz_pos p) = true /\
  forall j, 0 <= j < ctz_pos p -> Z.testbit (Zpos p) j = false.
Proof.
  induction p as [p IH|p IH|].
  - change (ctz_pos p~1) with 0. split; [lia|]. split; [reflexivity|]. intros; lia.
  - change (ctz_pos p~0) with (1 + ctz_pos p). destruct IH as (H0 & H1 & H2). split; [lia|]. split.
    + replace (1 + ctz_pos p) with (Z.succ (ctz_pos p)) by lia.
      change (Zpos p~0) with (2 * Zpos p). rewrite Z.testbit_even_succ by lia. exact H1.
    + intros j Hj. change (Zpos p~0) with (2 * Zpos p).
      destruct (Z.eq_dec j 0) as [->|Hn]; [apply Z.testbit_even_0|].
      replace j with (Z.succ (j - 1)) by lia. rewrite Z.testbit_even_succ by lia. apply H2. lia.
  - change (ctz_pos 1) with 0. split; [lia|]. split; [reflexivity|]. intros; lia.
Qed.

Lemma ctz_spec z : 0 < z -> 0 <= ctz z /\ Z.testbit z (ctz z) = true /\ forall j, 0 <= j < ctz z -> Z.testbit z j = false.
Proof. intros H. destruct z; try lia. apply ctz_pos_spec. Qed.

Lemma search_bits_testbit W w start (value : bool) j : 0 < W -> 0 <= start -> 0 <= j ->
  Z.testbit (Z.land (Z.lxor w (if value then 0 else Z.ones W)) (Z.shiftl (Z.ones W) start mod 2 ^ W)) j =
  xorb (Z.testbit w j) (if value then false else (j <? W)) && ((j <? W) && (start <=? j)).
Proof.
  intros HW Hs Hj. rewrite Z.land_spec, Z.lxor_spec, mod_pow2_testbit by lia.
  replace (Z.testbit (if value then 0 else Z.ones W) j) with (if value then false else (j <? W)).
  2:{ destruct value; [rewrite Z.testbit_0_l; reflexivity|rewrite ones_testbit by lia; reflexivity]. }
  f_equal. destruct (Z.ltb_spec j W); [|reflexivity]. simpl.
  destruct (Z.leb_spec start j).
  + rewrite Z.shiftl_spec, ones_testbit by lia. destruct (Z.ltb_spec (j - start) W); [reflexivity|lia].
  + apply Z.shiftl_spec_low. lia.
Qed.


Lemma search_bits_nonneg W w start (value : bool) : 0 < W -> word_ok W w ->
  0 <= Z.land (Z.lxor w (if value then 0 else Z.ones W)) (Z.shiftl (Z.ones W) start mod 2 ^ W).
Proof.
  intros HW Hw. apply Z.land_nonneg. right. apply Z.mod_pos_bound, pow2_pos. lia.
Qed.

Lemma search_bit_meaning (value a : bool) (inW : bool) : inW = true ->
  (xorb a (if value then false else inW) = true <-> a = value) /\
  (xorb a (if value then false else inW) = false <-> a = negb value).
Proof. intros ->. destruct value, a; simpl; split; split; congruence. Qed.

Lemma bv_index_of_rec_spec W ws base start value : 0 < W -> words_ok W ws -> 0 <= start ->
  match bv_index_of_rec W ws base start value with
  | Some r => start <= r - base < W * zlen ws /\ bv_get W ws (r - base) = value /\
              forall j, start <= j < r - base -> bv_get W ws j = negb value
  | None => forall j, start <= j < W * zlen ws -> bv_get W ws j = negb value
  end.
Proof.
  intros HW. revert base start. induction ws as [|w ws IH]; intros base start Hok Hs.
  - simpl. intros j Hj. unfold zlen in Hj; simpl in Hj; lia.
  - inversion Hok as [|? ? Hw Hws]; subst. rewrite zlen_cons. pose proof (zlen_nonneg ws) as Hl.
    cbn [bv_index_of_rec].
    destruct (Z.leb_spec W start).
    + specialize (IH (base + W) (start - W) Hws ltac:(lia)).
      destruct (bv_index_of_rec W ws (base + W) (start - W) value) as [r|].
      * destruct IH as (A & B & C). split; [lia|]. split.
        -- rewrite bv_get_cons_high by lia. replace (r - base - W) with (r - (base + W)) by lia. exact B.
        -- intros j Hj. rewrite bv_get_cons_high by lia. apply C. lia.
      * intros j Hj. rewrite bv_get_cons_high by lia. apply IH. lia.
    + set (bits := Z.land (Z.lxor w (if value then 0 else Z.ones W)) (Z.shiftl (Z.ones W) start mod 2 ^ W)).
      assert (Hbits : forall j, 0 <= j -> Z.testbit bits j =
                xorb (Z.testbit w j) (if value then false else (j <? W)) && ((j <? W) && (start <=? j))).
      { intros j Hj. unfold bits. apply search_bits_testbit; lia. }
      destruct (Z.eqb_spec bits 0) as [Hz|Hnz].
      * assert (Hword : forall j, start <= j < W -> Z.testbit w j = negb value).
        { intros j Hj. assert (Hb : Z.testbit bits j = false) by (rewrite Hz; apply Z.testbit_0_l).
          rewrite Hbits in Hb by lia.
          destruct (Z.ltb_spec j W); [|lia]. destruct (Z.leb_spec start j); [|lia].
          simpl in Hb. rewrite andb_true_r in Hb.
          apply (search_bit_meaning value (Z.testbit w j) true eq_refl). exact Hb. }
        specialize (IH (base + W) 0 Hws ltac:(lia)).
        destruct (bv_index_of_rec W ws (base + W) 0 value) as [r|].
        -- destruct IH as (A & B & C). split; [lia|]. split.
           ++ rewrite bv_get_cons_high by lia. replace (r - base - W) with (r - (base + W)) by lia. exact B.
           ++ intros j Hj. destruct (Z.lt_ge_cases j W).
              ** rewrite bv_get_cons_low by lia. apply Hword. lia.
              ** rewrite bv_get_cons_high by lia. apply C. lia.
        -- intros j Hj. destruct (Z.lt_ge_cases j W).
           ** rewrite bv_get_cons_low by lia. apply Hword. lia.
           ** rewrite bv_get_cons_high by lia. apply IH. lia.
      * assert (Hpos : 0 < bits).
        { pose proof (search_bits_nonneg W w start value HW Hw). fold bits in H0. lia. }
        destruct (ctz_spec bits Hpos) as (C0 & C1 & C2).
        set (c := ctz bits) in *.
        rewrite Hbits in C1 by lia.
        destruct (Z.ltb_spec c W); [|rewrite andb_false_r in C1; discriminate].
        destruct (Z.leb_spec start c); [|rewrite andb_false_r in C1; discriminate].
        simpl in C1. rewrite andb_true_r in C1.
        replace (base + c - base) with c by lia.
        split; [nia|]. split.
        -- rewrite bv_get_cons_low by lia.
           apply (search_bit_meaning value (Z.testbit w c) true eq_refl). exact C1.
        -- intros j Hj. rewrite bv_get_cons_low by lia.
           specialize (C2 j ltac:(lia)). rewrite Hbits in C2 by lia.
           destruct (Z.ltb_spec j W); [|lia]. destruct (Z.leb_spec start j); [|lia].
           simpl in C2. rewrite andb_true_r in C2.
           apply (search_bit_meaning value (Z.testbit w j) true eq_refl). exact C2.
Qed.

(* bit_vector_index_of returns the LEAST index >= start whose bit equals `value`; None (the C++ loop would leave the array)
   exactly when there is no such bit *)
Theorem bv_index_of_spec W ws start value : 0 < W -> words_ok W ws -> 0 <= start ->
  match bv_index_of W ws start value with
  | Some r => start <= r < W * zlen ws /\ bv_get W ws r = value /\ forall j, start <= j < r -> bv_get W ws j = negb value
  | None => forall j, start <= j < W * zlen ws -> bv_get W ws j = negb value
  end.
Proof.
  intros HW Hok Hs. unfold bv_index_of.
  pose proof (bv_index_of_rec_spec W ws 0 start value HW Hok Hs) as H.
  destruct (bv_index_of_rec W ws 0 start value) as [r|]; [|exact H].
  rewrite Z.sub_0_r in H. exact H.
Qed.

(* ------------------------------------------------------------------ the bit-list view *)
Lemma zseq_length lo n : length (zseq lo n) = n.
Proof. revert lo. induction n; intros; simpl; auto. Qed.

Lemma zseq_nth lo n k d : (k < n)%nat -> nth k (zseq lo n) d = lo + Z.of_nat k.
Proof.
  revert lo k. induction n; intros lo [|k] H; simpl; try lia.
  rewrite IHn by lia. lia.
Qed.

Lemma to_bits_length W ws : length (to_bits W ws) = Z.to_nat (W * zlen ws).
Proof. unfold to_bits. rewrite map_length, zseq_length. reflexivity. Qed.

Lemma to_bits_nth W ws k : (k < Z.to_nat (W * zlen ws))%nat -> nth k (to_bits W ws) false = bv_get W ws (Z.of_nat k).
Proof.
  intros H. unfold to_bits.
  rewrite (nth_indep _ false (bv_get W ws 0)) by (rewrite map_length, zseq_length; exact H).
  rewrite map_nth. rewrite zseq_nth by exact H. reflexivity.
Qed.

Lemma nth_repeat_lt {A} (v d : A) m k : (k < m)%nat -> nth k (repeat v m) d = v.
Proof. revert k. induction m; intros [|k] H; simpl; try lia; auto. apply IHm. lia. Qed.

Lemma nth_skipn_add {A} (l : list A) m k d : nth k (skipn m l) d = nth (m + k) l d.
Proof. revert l. induction m; intros [|a l]; simpl; auto. destruct k; reflexivity. Qed.

Lemma nth_firstn_lt {A} (l : list A) m k d : (k < m)%nat -> nth k (firstn m l) d = nth k l d.
Proof. revert l k. induction m; intros [|a l] [|k] H; simpl; try lia; auto. apply IHm. lia. Qed.

Lemma bits_fill_nth l i n v k : 0 <= i -> 0 <= n -> (Z.to_nat (i + n) <= length l)%nat -> (k < length l)%nat ->
  nth k (bits_fill l i n v) false = if in_range i n (Z.of_nat k) then v else nth k l false.
Proof.
  intros Hi Hn Hlen Hk. unfold bits_fill, in_range.
  destruct (Z.leb_spec i (Z.of_nat k)) as [H1|H1]; simpl.
  - rewrite app_nth2 by (rewrite firstn_length; lia).
    rewrite firstn_length. replace (Init.Nat.min (Z.to_nat i) (length l)) with (Z.to_nat i) by lia.
    destruct (Z.ltb_spec (Z.of_nat k) (i + n)) as [H2|H2].
    + rewrite app_nth1 by (rewrite repeat_length; lia).
      apply nth_repeat_lt. lia.
    + rewrite app_nth2 by (rewrite repeat_length; lia). rewrite repeat_length.
      rewrite nth_skipn_add. f_equal. lia.
  - rewrite app_nth1 by (rewrite firstn_length; lia).
    apply nth_firstn_lt. lia.
Qed.

Lemma bits_fill_length l i n v : 0 <= i -> 0 <= n -> (Z.to_nat (i + n) <= length l)%nat ->
  length (bits_fill l i n v) = length l.
Proof.
  intros. unfold bits_fill. rewrite !app_length, firstn_length, repeat_length, skipn_length. lia.
Qed.

(* fill / clear on the words = overwriting the bit range [i, i+n) of the boolean list *)
Theorem bv_op_to_bits W o ws i n : 0 < W -> 0 <= i -> 0 <= n -> words_ok W ws -> i + n <= W * zlen ws ->
  to_bits W (bv_op W o ws i n) = bits_fill (to_bits W ws) i n (match o with OpFill => true | OpClear => false end).
Proof.
  intros HW Hi Hn Hok Hin.
  assert (Hzl : zlen (bv_op W o ws i n) = zlen ws) by (unfold zlen; rewrite bv_op_length; reflexivity).
  apply (nth_ext _ _ false false).
  - rewrite bits_fill_length by (rewrite ?to_bits_length; lia). rewrite !to_bits_length, Hzl. reflexivity.
  - intros k Hk. rewrite to_bits_length, Hzl in Hk.
    rewrite to_bits_nth by (rewrite Hzl; exact Hk).
    rewrite bits_fill_nth by (rewrite ?to_bits_length; lia).
    rewrite bv_op_get by (try assumption; lia).
    rewrite to_bits_nth by exact Hk. reflexivity.
Qed.

Theorem bv_set_to_bits W ws i v : 0 < W -> words_ok W ws -> 0 <= i < W * zlen ws ->
  to_bits W (bv_set W ws i v) = bits_fill (to_bits W ws) i 1 v.
Proof.
  intros HW Hok Hi.
  assert (Hzl : zlen (bv_set W ws i v) = zlen ws) by (unfold zlen, bv_set; rewrite updw_length; reflexivity).
  apply (nth_ext _ _ false false).
  - rewrite bits_fill_length by (rewrite ?to_bits_length; lia). rewrite !to_bits_length, Hzl. reflexivity.
  - intros k Hk. rewrite to_bits_length, Hzl in Hk.
    rewrite to_bits_nth by (rewrite Hzl; exact Hk).
    rewrite bits_fill_nth by (rewrite ?to_bits_length; lia).
    rewrite bv_set_get by (try assumption; lia).
    rewrite to_bits_nth by exact Hk. unfold in_range.
    destruct (Z.eqb_spec (Z.of_nat k) i), (Z.leb_spec i (Z.of_nat k)), (Z.ltb_spec (Z.of_nat k) (i + 1)); simpl; try reflexivity; lia.
Qed.


Theorem bv_op_as_bit_list W o ws i n : 0 < W -> 0 <= i -> 0 <= n -> words_ok W ws -> i + n <= W * zlen ws ->
  to_bits W (bv_op W o ws i n) = bits_fill (to_bits W ws) i n (match o with OpFill => true | OpClear => false end) /\
  length (bv_op W o ws i n) = length ws /\ words_ok W (bv_op W o ws i n).
Proof.
  intros. split; [apply bv_op_to_bits; assumption|]. split; [apply bv_op_length|apply bv_op_ok; assumption].
Qed.

(* C18 (3) — proofs about the String model: every operation keeps the representation invariant (size <= capacity, buffer of
   capacity + 1 cells, NUL at data[size]), never touches a cell outside the buffer, produces exactly the bytes of the
   textbook string operation, and leaves the string untouched when the allocation is refused. *)
From Coq Require Import ZArith List Bool Lia.
From Verif Require Import Base.ZBits Containers.BitVecProofs Containers.ArenaModel Containers.VecModel Containers.BufLemmas Containers.StrModel.
Import ListNotations.
Local Open Scope Z_scope.

Definition znth (l : list Z) (i : Z) : Z := nth (Z.to_nat i) l poison.

Definition str_inv (s : str) : Prop :=
  0 <= s_size s <= s_cap s /\ zlength (s_buf s) = s_cap s + 1 /\ znth (s_buf s) (s_size s) = 0 /\
  (s_kind s = KSmall -> s_cap s = kSSOCapacity).

Lemma str_nul_ok_iff s : str_nul_ok s = true <-> znth (s_buf s) (s_size s) = 0.
Proof. unfold str_nul_ok, znth. apply Z.eqb_eq. Qed.

(* ---- cells of a written buffer *)
Lemma znth_app_l l1 l2 i : 0 <= i < zlength l1 -> znth (l1 ++ l2) i = znth l1 i.
Proof. intros. unfold znth, zlength in *. apply app_nth1. lia. Qed.
Lemma znth_app_r l1 l2 i : zlength l1 <= i -> znth (l1 ++ l2) i = znth l2 (i - zlength l1).
Proof. intros. unfold znth, zlength in *. rewrite app_nth2 by lia. f_equal. lia. Qed.
Lemma znth_zfirstn l n i : 0 <= i < n -> znth (zfirstn n l) i = znth l i.
Proof. intros. unfold znth, zfirstn. apply nth_firstn_lt. lia. Qed.
Lemma znth_zskipn l n i : 0 <= n -> 0 <= i -> znth (zskipn n l) i = znth l (n + i).
Proof. intros. unfold znth, zskipn. rewrite nth_skipn_add. f_equal. lia. Qed.

Lemma znth_write_out buf i xs b k : buf_write buf i xs = Some b -> 0 <= k -> (k < i \/ i + zlength xs <= k) -> znth b k = znth buf k.
Proof.
  intros Hw Hk Hout. apply buf_write_inv in Hw. destruct Hw as (Hi & Hle & -> & _).
  pose proof (zlength_nonneg xs).
  destruct Hout as [Hlt|Hge].
  - rewrite znth_app_l by (rewrite zlength_zfirstn by lia; lia). apply znth_zfirstn. lia.
  - rewrite znth_app_r by (rewrite zlength_zfirstn by lia; lia). rewrite zlength_zfirstn by lia.
    rewrite znth_app_r by lia. rewrite znth_zskipn by lia. f_equal. lia.
Qed.
Lemma znth_write_in buf i xs b k : buf_write buf i xs = Some b -> i <= k < i + zlength xs -> znth b k = znth xs (k - i).
Proof.
  intros Hw Hk. apply buf_write_inv in Hw. destruct Hw as (Hi & Hle & -> & _).
  rewrite znth_app_r by (rewrite zlength_zfirstn by lia; lia). rewrite zlength_zfirstn by lia.
  apply znth_app_l. lia.
Qed.

Lemma set_nul_spec buf i : 0 <= i < zlength buf ->
  exists b, set_nul buf i = Some b /\ zlength b = zlength buf /\ znth b i = 0 /\ zfirstn i b = zfirstn i buf.
Proof.
  intros Hi. unfold set_nul. rewrite buf_write_some by (change (zlength [0]) with 1; lia).
  eexists. split; [reflexivity|]. change (zlength [0]) with 1. split; [|split].
  - rewrite !zlength_app, zlength_zfirstn, zlength_zskipn by lia. change (zlength [0]) with 1. lia.
  - rewrite znth_app_r by (rewrite zlength_zfirstn by lia; lia). rewrite zlength_zfirstn by lia.
    replace (i - i) with 0 by lia. reflexivity.
  - change 1 with (zlength [0]). apply write_keeps_front; [lia|change (zlength [0]) with 1; lia].
Qed.

Lemma align_up_ge x a : 0 < a -> x <= align_up x a < x + a.
Proof.
  intros Ha. unfold align_up.
  pose proof (Z.div_mod (x + a - 1) a ltac:(lia)). pose proof (Z.mod_pos_bound (x + a - 1) a ltac:(lia)). nia.
Qed.

Lemma zlength_fresh n : 0 <= n -> zlength (fresh_buf n) = n.
Proof. intros. unfold fresh_buf. apply zlength_zrepeat. assumption. Qed.

(* ------------------------------------------------------------------ prepare *)
Definition prepare_post (s : str) (op : sop) (size : Z) (r : option (option (Z * str))) : Prop :=
  match r with
  | None => True
  | Some None => False
  | Some (Some (off, s1)) =>
    str_inv s1 /\ off = (match op with OpAssign => 0 | OpAppend => s_size s end) /\ s_size s1 = off + size /\
    zfirstn off (s_buf s1) = (match op with OpAssign => [] | OpAppend => str_abs s end)
  end.

Lemma str_abs_len s : str_inv s -> zlength (str_abs s) = s_size s.
Proof. intros (H1 & H2 & _). unfold str_abs. apply zlength_zfirstn. lia. Qed.

Theorem str_prepare_sound mok s op size : str_inv s -> 0 <= size -> prepare_post s op size (str_prepare mok s op size).
Proof.
  intros (S1 & S2 & S3 & S4) Hsz. unfold str_prepare, prepare_post.
  destruct op.
  - (* assign *)
    destruct (Z.gtb_spec size (s_cap s)) as [Hgt|Hle].
    + destruct (size >=? kMaxAllocSize); [exact I|].
      pose proof (align_up_ge (size + 1) kMinAllocSize ltac:(reflexivity)) as Hal.
      set (ncap1 := align_up (size + 1) kMinAllocSize) in *.
      destruct (mok ncap1); [|exact I].
      assert (Hfl : zlength (fresh_buf ncap1) = ncap1) by (apply zlength_fresh; lia).
      destruct (set_nul_spec (fresh_buf ncap1) size ltac:(lia)) as (b & -> & Hlen & Hnul & Hpre).
      rewrite Hfl in Hlen.
      split; [|split; [reflexivity|split; [simpl; lia|reflexivity]]].
      unfold str_inv; cbn [s_size s_cap s_buf s_kind]. split; [lia|]. split; [lia|]. split; [exact Hnul|discriminate].
    + destruct (set_nul_spec (s_buf s) size ltac:(lia)) as (b & -> & Hlen & Hnul & Hpre).
      split; [|split; [reflexivity|split; [simpl; lia|reflexivity]]].
      unfold str_inv; cbn [s_size s_cap s_buf s_kind]. split; [lia|]. split; [lia|]. split; [exact Hnul|exact S4].
  - (* append *)
    destruct (size >=? kMaxAllocSize - s_size s - 1); [exact I|].
    destruct (Z.gtb_spec (size + s_size s) (s_cap s)) as [Hgt|Hle].
    + set (ncap1 := grow_capacity (size + 1) (size + s_size s + 1)).
      destruct (Z.ltb_spec ncap1 (size + s_size s + 1)) as [|Hge]; [exact I|].
      destruct (mok ncap1); [|exact I].
      rewrite buf_read_some by lia. rewrite zskipn_0. fold (str_abs s).
      assert (Habs : zlength (str_abs s) = s_size s) by (unfold str_abs; apply zlength_zfirstn; lia).
      rewrite buf_write_some by (rewrite ?zlength_fresh by lia; lia).
      rewrite zfirstn_0. cbn [app].
      set (b1 := str_abs s ++ zskipn (0 + zlength (str_abs s)) (fresh_buf ncap1)).
      assert (Hb1 : zlength b1 = ncap1).
      { unfold b1. rewrite zlength_app, zlength_zskipn by (rewrite ?zlength_fresh by lia; lia). rewrite zlength_fresh by lia. lia. }
      destruct (set_nul_spec b1 (size + s_size s) ltac:(lia)) as (b & -> & Hlen & Hnul & Hpre).
      split; [|split; [reflexivity|split; [simpl; lia|]]].
      * unfold str_inv; cbn [s_size s_cap s_buf s_kind]. split; [lia|]. split; [lia|]. split; [exact Hnul|discriminate].
      * cbn [s_buf]. rewrite <- (zfirstn_zfirstn (s_size s) (size + s_size s)) by lia. rewrite Hpre.
        rewrite zfirstn_zfirstn by lia. unfold b1. rewrite zfirstn_app_l by lia. apply zfirstn_all. lia.
    + destruct (set_nul_spec (s_buf s) (size + s_size s) ltac:(lia)) as (b & -> & Hlen & Hnul & Hpre).
      split; [|split; [reflexivity|split; [simpl; lia|]]].
      * unfold str_inv; cbn [s_size s_cap s_buf s_kind]. split; [lia|]. split; [lia|]. split; [exact Hnul|exact S4].
      * cbn [s_buf]. rewrite <- (zfirstn_zfirstn (s_size s) (size + s_size s)) by lia. rewrite Hpre.
        rewrite zfirstn_zfirstn by lia. reflexivity.
Qed.

(* ------------------------------------------------------------------ prepare + fill *)
Definition text_of (op : sop) (old text : list Z) : list Z := match op with OpAssign => text | OpAppend => old ++ text end.

Definition modify_post (s : str) (op : sop) (text : list Z) (r : serr * str) : Prop :=
  let '(e, s') := r in
  (e = SOk /\ str_inv s' /\ str_abs s' = text_of op (str_abs s) text) \/ (e = SOutOfMemory /\ s' = s).

Theorem str_modify_n_sound mok s op n mk : str_inv s -> zlength (mk n) = n ->
  modify_post s op (mk n) (str_modify_n mok s op n mk).
Proof.
  intros Hs Hlen. pose proof (zlength_nonneg (mk n)) as Hn0. rewrite Hlen in Hn0.
  unfold str_modify_n, modify_post.
  pose proof (str_prepare_sound mok s op n Hs Hn0) as Hp. unfold prepare_post in Hp.
  destruct (str_prepare mok s op n) as [[[off s1]|]|]; [|contradiction|right; auto].
  destruct Hp as ((T1 & T2 & T3 & T4) & Hoff & Hsize & Hpre).
  assert (Hoff0 : 0 <= off) by (destruct op; subst off; [lia|destruct Hs; lia]).
  destruct (buf_write (s_buf s1) off (mk n)) as [b|] eqn:Hw.
  2:{ exfalso. apply buf_write_none in Hw. lia. }
  left. split; [reflexivity|].
  pose proof (buf_write_inv _ _ _ _ Hw) as (_ & _ & Hb & Hblen).
  split.
  - unfold str_inv; cbn [s_size s_cap s_buf s_kind]. split; [exact T1|]. split; [lia|]. split; [|exact T4].
    rewrite (znth_write_out _ _ _ _ _ Hw) by lia. exact T3.
  - unfold str_abs at 1. cbn [s_size s_buf]. rewrite Hsize, <- Hlen at 1. rewrite Hb.
    rewrite write_prefix by lia. rewrite Hpre. destruct op; reflexivity.
Qed.

Theorem str_modify_sound mok s op text : str_inv s -> modify_post s op text (str_modify mok s op text).
Proof. intros Hs. unfold str_modify. apply (str_modify_n_sound mok s op (zlength text) (fun _ => text)); auto. Qed.

Lemma str_clear_sound s : str_inv s -> fst (str_clear s) = SOk /\ str_inv (snd (str_clear s)) /\ str_abs (snd (str_clear s)) = [].
Proof.
  intros (S1 & S2 & S3 & S4). unfold str_clear. destruct (s_kind s) eqn:Ek.
  - specialize (S4 eq_refl). unfold kSSOCapacity in *.
    rewrite buf_write_some by (rewrite ?zlength_zrepeat by lia; lia). cbn [fst snd].
    split; [reflexivity|]. split; [|reflexivity].
    unfold str_inv; cbn [s_size s_cap s_buf s_kind]. split; [lia|]. split.
    + rewrite !zlength_app, zlength_zfirstn, zlength_zskipn, zlength_zrepeat by (rewrite ?zlength_zrepeat by lia; lia). lia.
    + split; [reflexivity|intros _; unfold kSSOCapacity; lia].
  - destruct (set_nul_spec (s_buf s) 0 ltac:(lia)) as (b & -> & Hlen & Hnul & _). cbn [fst snd].
    split; [reflexivity|]. split; [|reflexivity].
    unfold str_inv; cbn [s_size s_cap s_buf s_kind]. split; [lia|]. split; [lia|]. split; [exact Hnul|discriminate].
  - destruct (set_nul_spec (s_buf s) 0 ltac:(lia)) as (b & -> & Hlen & Hnul & _). cbn [fst snd].
    split; [reflexivity|]. split; [|reflexivity].
    unfold str_inv; cbn [s_size s_cap s_buf s_kind]. split; [lia|]. split; [lia|]. split; [exact Hnul|discriminate].
Qed.

(* _op_string / _op_hex: an empty text clears on assign and is a no-op on append — the textbook result either way *)
Theorem str_op_text_sound mok s op text : str_inv s -> modify_post s op text (str_op_text mok s op text).
Proof.
  intros Hs. unfold str_op_text. destruct text as [|c text].
  - destruct op.
    + destruct (str_clear_sound s Hs) as (He & Hi & Ha). unfold modify_post. destruct (str_clear s) as [e s']. cbn [fst snd] in *.
      left. auto.
    + unfold modify_post. left. split; [reflexivity|]. split; [exact Hs|]. cbn. rewrite app_nil_r. reflexivity.
  - apply str_modify_sound. exact Hs.
Qed.

Theorem str_op_char_sound mok s op c : str_inv s -> modify_post s op [c] (str_op_char mok s op c).
Proof. intros. apply str_modify_sound. assumption. Qed.

Theorem str_op_chars_sound mok s op c n : str_inv s -> 0 <= n -> modify_post s op (zrepeat c n) (str_op_chars mok s op c n).
Proof.
  intros Hs Hn. unfold str_op_chars. destruct (Z.eqb_spec n 0) as [->|Hne].
  - change (zrepeat c 0) with (@nil Z). destruct op.
    + destruct (str_clear_sound s Hs) as (He & Hi & Ha). unfold modify_post. destruct (str_clear s) as [e s']. cbn [fst snd] in *. left. auto.
    + unfold modify_post. left. split; [reflexivity|]. split; [exact Hs|]. cbn. rewrite app_nil_r. reflexivity.
  - apply str_modify_n_sound; [exact Hs|]. apply zlength_zrepeat. lia.
Qed.

Theorem str_truncate_sound s n : str_inv s -> 0 <= n ->
  fst (str_truncate s n) = SOk /\ str_inv (snd (str_truncate s n)) /\ str_abs (snd (str_truncate s n)) = zfirstn n (str_abs s).
Proof.
  intros Hs Hn. pose proof Hs as (S1 & S2 & S3 & S4). unfold str_truncate.
  destruct (Z.ltb_spec n (s_size s)).
  - destruct (set_nul_spec (s_buf s) n ltac:(lia)) as (b & -> & Hlen & Hnul & Hpre). cbn [fst snd].
    split; [reflexivity|]. split.
    + unfold str_inv; cbn [s_size s_cap s_buf s_kind]. split; [lia|]. split; [lia|]. split; [exact Hnul|exact S4].
    + unfold str_abs; cbn [s_size s_buf]. rewrite Hpre. symmetry. apply zfirstn_zfirstn. lia.
  - cbn [fst snd]. split; [reflexivity|]. split; [exact Hs|]. symmetry. apply zfirstn_all. rewrite str_abs_len by exact Hs. lia.
Qed.

Lemma assign_cap_ok n : 0 <= n -> n <= align_up (n + 1) 32 mod 2 ^ 64 -> n + 1 <= align_up (n + 1) 32 mod 2 ^ 64.
Proof.
  intros Hn Hle. pose proof (align_up_ge (n + 1) 32 ltac:(lia)) as Hal.
  pose proof (Z.div_mod (align_up (n + 1) 32) (2 ^ 64) ltac:(lia)) as Hdm.
  pose proof (Z.mod_pos_bound (align_up (n + 1) 32) (2 ^ 64) ltac:(lia)) as Hb.
  assert (Hq : 0 <= align_up (n + 1) 32 / 2 ^ 64) by (apply Z.div_pos; lia).
  destruct (Z.eq_dec (align_up (n + 1) 32 / 2 ^ 64) 0) as [H0|Hne].
  - rewrite H0 in Hdm. lia.
  - exfalso. assert (1 <= align_up (n + 1) 32 / 2 ^ 64) by lia. nia.
Qed.

(* String::assign(data, size) *)
Theorem str_assign_sound mok s text : str_inv s ->
  let '(e, s') := str_assign mok s text in
  (e = SOk /\ str_inv s' /\ str_abs s' = text) \/ (e = SOutOfMemory /\ s' = s).
Proof.
  intros Hs. pose proof Hs as (S1 & S2 & S3 & S4). unfold str_assign.
  pose proof (zlength_nonneg text) as Ht0.
  assert (Hfin : forall k buf cap, zlength buf = cap + 1 -> zlength text <= cap -> (k = KSmall -> cap = kSSOCapacity) ->
            let r := match buf_write buf 0 text with
                     | Some b1 => match set_nul b1 (zlength text) with Some b => (SOk, mkstr k b (zlength text) cap) | None => (SOverrun, s) end
                     | None => (SOverrun, s) end in
            fst r = SOk /\ str_inv (snd r) /\ str_abs (snd r) = text).
  { intros k buf cap Hb Hle Hk. cbv zeta.
    rewrite buf_write_some by lia. rewrite zfirstn_0. cbn [app].
    set (b1 := text ++ zskipn (0 + zlength text) buf).
    assert (Hb1 : zlength b1 = cap + 1) by (unfold b1; rewrite zlength_app, zlength_zskipn by lia; lia).
    destruct (set_nul_spec b1 (zlength text) ltac:(lia)) as (b & -> & Hlen & Hnul & Hpre). cbn [fst snd].
    split; [reflexivity|]. split.
    - unfold str_inv; cbn [s_size s_cap s_buf s_kind]. split; [lia|]. split; [lia|]. split; [exact Hnul|exact Hk].
    - unfold str_abs; cbn [s_size s_buf]. rewrite Hpre. unfold b1. rewrite zfirstn_app_l by lia. apply zfirstn_all. lia. }
  assert (Hwrap : forall r : serr * str, fst r = SOk /\ str_inv (snd r) /\ str_abs (snd r) = text ->
            let '(e, s') := r in (e = SOk /\ str_inv s' /\ str_abs s' = text) \/ (e = SOutOfMemory /\ s' = s)).
  { intros [e s'] (H1 & H2 & H3). cbn [fst snd] in *. left. auto. }
  assert (Hbig : s_kind s <> KSmall ->
            let '(e, s') :=
              (if zlength text <=? s_cap s
               then match buf_write (s_buf s) 0 text with
                    | Some b1 => match set_nul b1 (zlength text) with Some b => (SOk, mkstr (s_kind s) b (zlength text) (s_cap s)) | None => (SOverrun, s) end
                    | None => (SOverrun, s) end
               else let cap1 := align_up (zlength text + 1) 32 mod 2 ^ 64 in
                    if cap1 <? zlength text then (SOutOfMemory, s)
                    else if mok cap1
                         then match buf_write (fresh_buf cap1) 0 text with
                              | Some b1 => match set_nul b1 (zlength text) with Some b => (SOk, mkstr KLarge b (zlength text) (cap1 - 1)) | None => (SOverrun, s) end
                              | None => (SOverrun, s) end
                         else (SOutOfMemory, s)) in
            (e = SOk /\ str_inv s' /\ str_abs s' = text) \/ (e = SOutOfMemory /\ s' = s)).
  { intros Hk. destruct (Z.leb_spec (zlength text) (s_cap s)).
    - apply Hwrap. apply Hfin; auto; intros; contradiction.
    - cbv zeta. set (cap1 := align_up (zlength text + 1) 32 mod 2 ^ 64).
      destruct (Z.ltb_spec cap1 (zlength text)); [right; auto|].
      destruct (mok cap1); [|right; auto].
      pose proof (assign_cap_ok (zlength text) Ht0 ltac:(fold cap1; lia)) as Hc. fold cap1 in Hc.
      apply Hwrap. apply Hfin; [rewrite zlength_fresh by lia; lia|lia|discriminate]. }
  destruct (s_kind s) eqn:Ek.
  - specialize (S4 eq_refl).
    destruct (Z.leb_spec (zlength text) kSSOCapacity).
    + apply Hwrap. apply Hfin; auto. lia.
    + destruct (mok (zlength text + 1)); [|right; auto].
      apply Hwrap. apply Hfin; [apply zlength_fresh; lia|lia|discriminate].
  - apply Hbig. discriminate.
  - apply Hbig. discriminate.
Qed.

(* ------------------------------------------------------------------ numbers *)
Definition digit_val (c : Z) : Z := if c <? 58 then c - 48 else c - 55.
Fixpoint dval (base : Z) (l : list Z) : Z :=
  match l with [] => 0 | c :: r => digit_val c * base ^ zlength r + dval base r end.
Definition digit_ok (base c : Z) : Prop := 0 <= digit_val c < base /\ ((48 <= c <= 57) \/ (65 <= c <= 70)).

Lemma digit_char_val base r : 0 <= r < base -> base <= 16 -> digit_val (digit_char r) = r /\ digit_ok base (digit_char r).
Proof.
  intros Hr Hb. unfold digit_ok, digit_val, digit_char.
  destruct (Z.ltb_spec r 10).
  - destruct (Z.ltb_spec (48 + r) 58); [|lia]. split; [lia|]. split; [lia|left; lia].
  - destruct (Z.ltb_spec (55 + r) 58); [lia|]. split; [lia|]. split; [lia|right; lia].
Qed.

Lemma digits_rec_spec base fuel : 2 <= base <= 16 -> forall i acc, 0 <= i < base ^ Z.of_nat fuel -> (0 < fuel)%nat ->
  Forall (digit_ok base) acc ->
  dval base (digits_rec fuel base i acc) = i * base ^ zlength acc + dval base acc /\
  Forall (digit_ok base) (digits_rec fuel base i acc) /\
  zlength acc < zlength (digits_rec fuel base i acc).
Proof.
  intros Hb. induction fuel as [|f IH]; intros i acc Hi Hf Hacc; [lia|].
  cbn [digits_rec].
  pose proof (Z.mod_pos_bound i base ltac:(lia)) as Hm.
  pose proof (Z.div_mod i base ltac:(lia)) as Hdm.
  destruct (digit_char_val base (i mod base) Hm ltac:(lia)) as [Hv Hok].
  assert (Hacc' : Forall (digit_ok base) (digit_char (i mod base) :: acc)) by (constructor; assumption).
  pose proof (zlength_nonneg acc) as Hl0.
  destruct (Z.eqb_spec (i / base) 0) as [Hq|Hq].
  - split; [|split; [exact Hacc'|rewrite zlength_cons; lia]].
    cbn [dval]. rewrite Hv. rewrite Hq in Hdm. replace (i mod base) with i by lia. reflexivity.
  - assert (Hq0 : 0 < i / base).
    { assert (0 <= i / base) by (apply Z.div_pos; lia). lia. }
    destruct f as [|f'].
    { exfalso. change (Z.of_nat 1) with 1 in Hi. rewrite Z.pow_1_r in Hi. assert (i / base = 0) by (apply Z.div_small; lia). lia. }
    assert (Hi' : 0 <= i / base < base ^ Z.of_nat (S f')).
    { split; [lia|]. apply Z.div_lt_upper_bound; [lia|].
      replace (Z.of_nat (S (S f'))) with (1 + Z.of_nat (S f')) in Hi by lia. rewrite Z.pow_add_r in Hi by lia. lia. }
    destruct (IH (i / base) (digit_char (i mod base) :: acc) Hi' ltac:(lia) Hacc') as (H1 & H2 & H3).
    split; [|split; [exact H2|rewrite zlength_cons in H3; lia]].
    rewrite H1. cbn [dval]. rewrite Hv, zlength_cons.
    replace (1 + zlength acc) with (zlength acc + 1) by lia. rewrite Z.pow_add_r by lia. rewrite Z.pow_1_r.
    rewrite Hdm at 3. ring.
Qed.

(* the digits written by _op_number denote the number: for every 64-bit value and every supported base *)
Theorem digits_roundtrip base i : (base = 2 \/ base = 8 \/ base = 10 \/ base = 16) -> 0 <= i < 2 ^ 64 ->
  dval base (digits base i) = i /\ Forall (digit_ok base) (digits base i) /\ 1 <= zlength (digits base i).
Proof.
  intros Hb Hi. unfold digits.
  assert (Hb2 : 2 <= base <= 16) by lia.
  assert (Hpow : 2 ^ 64 <= base ^ Z.of_nat 64) by (change (Z.of_nat 64) with 64; apply Z.pow_le_mono_l; lia).
  destruct (digits_rec_spec base 64 Hb2 i [] ltac:(lia) ltac:(lia) ltac:(constructor)) as (H1 & H2 & H3).
  rewrite H1. cbn [dval]. change (zlength (@nil Z)) with 0 in *. rewrite Z.pow_0_r. split; [ring|]. split; [exact H2|lia].
Qed.

(* ------------------------------------------------------------------ hex *)
Lemma hex_text_length data sep : zlength (hex_text data sep) =
  if zlength data =? 0 then 0 else if sep =? 0 then 2 * zlength data else 3 * zlength data - 1.
Proof.
  induction data as [|b r IH]; [reflexivity|].
  pose proof (zlength_nonneg r) as Hr. rewrite zlength_cons.
  destruct (Z.eqb_spec (1 + zlength r) 0); [lia|].
  destruct r as [|c r'].
  - cbn [hex_text]. change (zlength (@nil Z)) with 0. destruct (sep =? 0); reflexivity.
  - cbn [hex_text] in *. rewrite !zlength_app. change (zlength (hex_pair b)) with 2. rewrite IH.
    rewrite zlength_cons in *. destruct (Z.eqb_spec (1 + zlength r') 0); [pose proof (zlength_nonneg r'); lia|].
    destruct (Z.eqb_spec sep 0); [change (zlength (@nil Z)) with 0|change (zlength [sep]) with 1]; lia.
Qed.

Lemma hex_pair_val b : 0 <= b < 256 ->
  digit_val (nth 0 (hex_pair b) 0) * 16 + digit_val (nth 1 (hex_pair b) 0) = b.
Proof.
  intros Hb. cbn [hex_pair nth].
  assert (H1 : 0 <= (b / 16) mod 16 < 16) by (apply Z.mod_pos_bound; lia).
  assert (H2 : 0 <= b mod 16 < 16) by (apply Z.mod_pos_bound; lia).
  destruct (digit_char_val 16 ((b / 16) mod 16) H1 ltac:(lia)) as [-> _].
  destruct (digit_char_val 16 (b mod 16) H2 ltac:(lia)) as [-> _].
  assert (b / 16 < 16) by (apply Z.div_lt_upper_bound; lia).
  rewrite (Z.mod_small (b / 16)) by (split; [apply Z.div_pos; lia|lia]).
  pose proof (Z.div_mod b 16 ltac:(lia)). lia.
Qed.

(* ------------------------------------------------------------------ number / hex / format as string operations *)
Theorem str_op_number_sound mok s op i base width flags : str_inv s ->
  match number_text i base width flags with
  | Some t => modify_post s op t (str_op_number mok s op i base width flags)
  | None => str_op_number mok s op i base width flags = (SInvalidArgument, s)
  end.
Proof.
  intros Hs. unfold str_op_number. destruct (number_text i base width flags); [apply str_modify_sound; exact Hs|reflexivity].
Qed.

Theorem str_op_hex_sound mok s op data sep : str_inv s -> modify_post s op (hex_text data sep) (str_op_hex mok s op data sep).
Proof. intros. unfold str_op_hex. apply str_op_text_sound. assumption. Qed.

(* _op_vformat, given the text the format expands to: on success the content is the textbook result; a refused allocation
   leaves a valid string with the same bytes, size, capacity and kind (cells behind the terminator may have been written) *)
Theorem str_op_format_sound mok s op text : str_inv s ->
  let '(e, s') := str_op_format mok s op text in
  (e = SOk /\ str_inv s' /\ str_abs s' = text_of op (str_abs s) text) \/
  (e = SOutOfMemory /\ str_inv s' /\ str_abs s' = str_abs s /\ s_size s' = s_size s /\ s_cap s' = s_cap s /\ s_kind s' = s_kind s).
Proof.
  intros Hs. pose proof Hs as (S1 & S2 & S3 & S4). unfold str_op_format.
  pose proof (zlength_nonneg text) as Ht0.
  assert (Hmod : forall s0 r, str_inv s0 -> str_abs s0 = str_abs s -> s_size s0 = s_size s -> s_cap s0 = s_cap s -> s_kind s0 = s_kind s ->
            modify_post s0 op text r ->
            let '(e, s') := r in
            (e = SOk /\ str_inv s' /\ str_abs s' = text_of op (str_abs s) text) \/
            (e = SOutOfMemory /\ str_inv s' /\ str_abs s' = str_abs s /\ s_size s' = s_size s /\ s_cap s' = s_cap s /\ s_kind s' = s_kind s)).
  { intros s0 [e s'] H0 Ha Hz Hc Hk [(-> & H1 & H2)|(-> & ->)]; [left; rewrite H2, Ha; auto|right; auto 10]. }
  destruct op; cbn [andb].
  - destruct (zlength text <? 1024).
    + apply (Hmod s); auto. apply str_op_text_sound. exact Hs.
    + apply (Hmod s); auto. apply str_modify_sound. exact Hs.
  - destruct (Z.geb_spec (s_cap s - s_size s) 128) as [Hbig|Hsmall].
    2:{ destruct (zlength text <? 1024).
        + apply (Hmod s); auto. apply str_op_text_sound. exact Hs.
        + apply (Hmod s); auto. apply str_modify_sound. exact Hs. }
    set (start := s_size s) in *. set (remaining := s_cap s - start) in *.
    set (shown := zfirstn (Z.min (zlength text) remaining) text).
    assert (Hshown : zlength shown = Z.min (zlength text) remaining) by (unfold shown; apply zlength_zfirstn; lia).
    assert (Hwb : buf_write (s_buf s) start (shown ++ [0]) =
                  Some (zfirstn start (s_buf s) ++ (shown ++ [0]) ++ zskipn (start + zlength (shown ++ [0])) (s_buf s)))
      by (apply buf_write_some; [lia|rewrite zlength_app, Hshown; change (zlength [0]) with 1; lia]).
    rewrite Hwb.
    set (b := zfirstn start (s_buf s) ++ (shown ++ [0]) ++ zskipn (start + zlength (shown ++ [0])) (s_buf s)) in *.
    assert (Hblen : zlength b = s_cap s + 1) by (apply buf_write_inv in Hwb; lia).
    assert (Hfront : zfirstn start b = zfirstn start (s_buf s)).
    { unfold b. rewrite zfirstn_app_l by (rewrite zlength_zfirstn by lia; lia). apply zfirstn_zfirstn. lia. }
    destruct (Z.leb_spec (zlength text) remaining) as [Hfit|Hnofit].
    + left. split; [reflexivity|].
      assert (Hsh : shown = text) by (unfold shown; rewrite Z.min_l by lia; apply zfirstn_all; lia).
      split.
      * unfold str_inv; cbn [s_size s_cap s_buf s_kind]. unfold remaining in *. split; [lia|]. split; [lia|]. split; [|exact S4].
        rewrite (znth_write_in _ _ _ _ _ Hwb) by (rewrite zlength_app, Hshown; change (zlength [0]) with 1; lia).
        rewrite znth_app_r by lia. rewrite Hshown, Z.min_l by lia.
        replace (start + zlength text - start - zlength text) with 0 by lia. reflexivity.
      * unfold str_abs at 1; cbn [s_size s_buf text_of]. unfold b. rewrite Hsh.
        replace ((text ++ [0]) ++ zskipn (start + zlength (text ++ [0])) (s_buf s))
          with (text ++ [0] ++ zskipn (start + zlength (text ++ [0])) (s_buf s)) by (rewrite <- app_assoc; reflexivity).
        rewrite app_assoc.
        rewrite zfirstn_app_l by (rewrite zlength_app, zlength_zfirstn by lia; lia).
        rewrite zfirstn_all by (rewrite zlength_app, zlength_zfirstn by lia; lia). reflexivity.
    + destruct (set_nul_spec b start ltac:(lia)) as (b1 & -> & Hl1 & Hn1 & Hp1).
      apply (Hmod (mkstr (s_kind s) b1 (s_size s) (s_cap s))); try reflexivity.
      * unfold str_inv; cbn [s_size s_cap s_buf s_kind]. split; [lia|]. split; [lia|]. split; [exact Hn1|exact S4].
      * unfold str_abs; cbn [s_size s_buf]. fold start. rewrite Hp1. exact Hfront.
      * apply str_modify_sound.
        unfold str_inv; cbn [s_size s_cap s_buf s_kind]. split; [lia|]. split; [lia|]. split; [exact Hn1|exact S4].
Qed.

(* ------------------------------------------------------------------ every operation sequence *)
Inductive strop :=
| SAssign (text : list Z) | SOpText (op : sop) (text : list Z) | SOpChar (op : sop) (c : Z) | SOpChars (op : sop) (c n : Z)
| SPadEnd (n c : Z) | SNumber (op : sop) (i base width flags : Z) | SHex (op : sop) (data : list Z) (sep : Z)
| SFormat (op : sop) (text : list Z) | STruncate (n : Z) | SClear | SReset.

Definition sstep (mok : Z -> bool) (s : str) (o : strop) : serr * str :=
  match o with
  | SAssign text => str_assign mok s text
  | SOpText op text => str_op_text mok s op text
  | SOpChar op c => str_op_char mok s op c
  | SOpChars op c n => if 0 <=? n then str_op_chars mok s op c n else (SOk, s)
  | SPadEnd n c => str_pad_end mok s n c
  | SNumber op i base width flags => str_op_number mok s op i base width flags
  | SHex op data sep => str_op_hex mok s op data sep
  | SFormat op text => str_op_format mok s op text
  | STruncate n => if 0 <=? n then str_truncate s n else (SOk, s)
  | SClear => str_clear s
  | SReset => (SOk, str_reset s)
  end.

(* the textbook string (a list of bytes) *)
Definition tstep (l : list Z) (o : strop) : list Z :=
  match o with
  | SAssign text => text
  | SOpText op text => text_of op l text
  | SOpChar op c => text_of op l [c]
  | SOpChars op c n => if 0 <=? n then text_of op l (zrepeat c n) else l
  | SPadEnd n c => if n >? zlength l then l ++ zrepeat c (n - zlength l) else l
  | SNumber op i base width flags => match number_text i base width flags with Some t => text_of op l t | None => l end
  | SHex op data sep => text_of op l (hex_text data sep)
  | SFormat op text => text_of op l text
  | STruncate n => if 0 <=? n then zfirstn n l else l
  | SClear => []
  | SReset => []
  end.

Definition is_format (o : strop) : bool := match o with SFormat _ _ => true | _ => false end.

Lemma str_inv_empty : str_inv str_empty.
Proof. unfold str_inv, str_empty. vm_compute. repeat split; intros; discriminate. Qed.

(* one operation: on kOk the invariant holds and the content is the textbook result; a refused operation (out of memory,
   bad base) leaves a valid string with exactly the same bytes (for everything but a format even the same cells) *)
Theorem sstep_refines mok s l o : str_inv s -> str_abs s = l ->
  let '(e, s') := sstep mok s o in
  (e = SOk /\ str_inv s' /\ str_abs s' = tstep l o) \/
  ((e = SOutOfMemory \/ e = SInvalidArgument) /\ str_inv s' /\ str_abs s' = l /\ (is_format o = false -> s' = s) /\ s_size s' = s_size s).
Proof.
  intros Hs Habs.
  assert (Hmod : forall op text r, modify_post s op text r ->
            let '(e, s') := r in
            (e = SOk /\ str_inv s' /\ str_abs s' = text_of op l text) \/
            ((e = SOutOfMemory \/ e = SInvalidArgument) /\ str_inv s' /\ str_abs s' = l /\ (false = false -> s' = s) /\ s_size s' = s_size s)).
  { intros op text [e s'] [(-> & H1 & H2)|(-> & ->)]; [left; rewrite H2, Habs; auto|right; auto 10]. }
  destruct o; cbn [sstep tstep is_format].
  - pose proof (str_assign_sound mok s text Hs) as Hq. destruct (str_assign mok s text) as [e s'].
    destruct Hq as [Hq|(-> & ->)]; [left; exact Hq|right; auto 10].
  - apply (Hmod op text). apply str_op_text_sound. exact Hs.
  - apply (Hmod op [c]). apply str_op_char_sound. exact Hs.
  - destruct (Z.leb_spec 0 n); [|left; auto]. apply (Hmod op (zrepeat c n)). apply str_op_chars_sound; assumption.
  - unfold str_pad_end. rewrite <- Habs, str_abs_len by exact Hs. destruct (Z.gtb_spec n (s_size s)).
    + pose proof (str_op_chars_sound mok s OpAppend c (n - s_size s) Hs ltac:(destruct Hs; lia)) as Hq.
      apply (Hmod OpAppend) in Hq. destruct (str_op_chars mok s OpAppend c (n - s_size s)) as [e s'].
      rewrite Habs. exact Hq.
    + left. auto.
  - pose proof (str_op_number_sound mok s op i base width flags Hs) as Hq.
    destruct (number_text i base width flags) as [t|].
    + apply (Hmod op t). exact Hq.
    + rewrite Hq. right. auto 10.
  - apply (Hmod op (hex_text data sep)). apply str_op_hex_sound. exact Hs.
  - pose proof (str_op_format_sound mok s op text Hs) as Hq. destruct (str_op_format mok s op text) as [e s'].
    destruct Hq as [(-> & H1 & H2)|(-> & H1 & H2 & H3 & _)]; [left; rewrite H2, Habs; auto|right].
    split; [left; reflexivity|]. split; [exact H1|]. split; [rewrite H2; exact Habs|]. split; [discriminate|exact H3].
  - destruct (Z.leb_spec 0 n); [|left; auto].
    destruct (str_truncate_sound s n Hs ltac:(lia)) as (He & Hi & Ha). destruct (str_truncate s n) as [e s']. cbn [fst snd] in *.
    left. rewrite Ha, Habs. auto.
  - destruct (str_clear_sound s Hs) as (He & Hi & Ha). destruct (str_clear s) as [e s']. cbn [fst snd] in *. left. auto.
  - left. split; [reflexivity|]. split; [apply str_inv_empty|reflexivity].
Qed.

(* a whole script: whatever the operations and whichever allocations are refused, the string is valid and holds the
   textbook bytes *)
Fixpoint srun (mok : Z -> bool) (s : str) (l : list Z) (ops : list strop) : str * list Z :=
  match ops with
  | [] => (s, l)
  | o :: r =>
    let '(e, s') := sstep mok s o in
    match e with
    | SOk => srun mok s' (tstep l o) r
    | _ => srun mok s' l r
    end
  end.

Theorem srun_refines mok ops : forall s l, str_inv s -> str_abs s = l ->
  str_inv (fst (srun mok s l ops)) /\ str_abs (fst (srun mok s l ops)) = snd (srun mok s l ops).
Proof.
  induction ops as [|o r IH]; intros s l Hs Habs; cbn [srun].
  - auto.
  - pose proof (sstep_refines mok s l o Hs Habs) as H. destruct (sstep mok s o) as [e s1].
    destruct H as [(-> & H1 & H2)|(He & H1 & H2 & _)].
    + apply IH; auto.
    + destruct He as [-> | ->]; apply IH; auto.
Qed.

(* C18 (2) — executable model of ArenaVector<T> (support/arenavector.{h,cpp}) on top of the arena model.

   The storage is an explicit buffer of `v_cap` cells (fresh cells hold the poison value -1, never 0); every memcpy /
   memmove / memset of the C++ is a bounds-checked buffer operation: an access outside the buffer makes the operation
   return EOverrun — VecProofs.v shows that this never happens. `isz` is sizeof(T); the grow table is a parameter
   (translated from arenavector.cpp into coq/gen/C18Tables.v on every run). *)
From Coq Require Import ZArith List Bool.
From Verif Require Import Containers.ArenaModel.
Import ListNotations.
Local Open Scope Z_scope.

Inductive verr := EOk | EOutOfMemory | EOverrun.

Record vec := mkvec { v_data : option addr; v_buf : list Z; v_size : Z; v_cap : Z }.
Definition vec_empty : vec := mkvec None [] 0 0.

Definition poison : Z := -1.
Definition zlength {A} (l : list A) : Z := Z.of_nat (length l).
Definition zfirstn {A} (n : Z) (l : list A) := firstn (Z.to_nat n) l.
Definition zskipn {A} (n : Z) (l : list A) := skipn (Z.to_nat n) l.
Definition zrepeat {A} (x : A) (n : Z) := repeat x (Z.to_nat n).

(* the textbook content *)
Definition vec_abs (v : vec) : list Z := zfirstn (v_size v) (v_buf v).

(* ---- bounds-checked buffer primitives *)
Definition buf_write (buf : list Z) (i : Z) (xs : list Z) : option (list Z) :=
  if (0 <=? i) && (i + zlength xs <=? zlength buf)
  then Some (zfirstn i buf ++ xs ++ zskipn (i + zlength xs) buf) else None.
Definition buf_read (buf : list Z) (i n : Z) : option (list Z) :=
  if (0 <=? i) && (0 <=? n) && (i + n <=? zlength buf) then Some (zfirstn n (zskipn i buf)) else None.
Definition buf_move (buf : list Z) (dst src n : Z) : option (list Z) :=
  match buf_read buf src n with Some xs => buf_write buf dst xs | None => None end.

(* ---- growth policy *)
Definition kGrowThreshold : Z := 16777216.
(* ArenaVector_expand_byte_size *)
Definition expand_byte_size (grow_table : list Z) (byte_size : Z) : Z :=
  if byte_size <=? kGrowThreshold then
    let idx := Z.log2 (Z.lor (byte_size - 1) 1) + 1 in
    2 ^ (nth (Z.to_nat idx) grow_table 0)
  else ((byte_size + 1 + kGrowThreshold - 1) / kGrowThreshold) * kGrowThreshold.

Definition is_valid_size (n : Z) : bool := n <? 4294967295.

(* ArenaVector_reserve_with_byte_size *)
Definition vec_realloc (mok : Z -> bool) (isz : Z) (a : arena) (v : vec) (byte_size : Z) : verr * arena * vec :=
  match alloc_reusable mok a byte_size with
  | (None, a1) => (EOutOfMemory, a1, v)
  | (Some (p, asz), a1) =>
    let ncap := Z.min (asz / isz) 4294967295 in   (* uint32 capacity; clamped as proposed in fixes/C18-vector-capacity-u32.patch *)
    match buf_read (v_buf v) 0 (match v_data v with Some _ => v_size v | None => 0 end) with
    | None => (EOverrun, a1, v)
    | Some xs =>
      match buf_write (zrepeat poison ncap) 0 xs with
      | None => (EOverrun, a1, v)
      | Some nb =>
        let a2 := match v_data v with Some old => free_reusable a1 old (v_cap v * isz) | None => a1 end in
        (EOk, a2, mkvec (Some p) nb (v_size v) ncap)
      end
    end
  end.

(* ArenaVector_reserve_fit / _reserve_grow (the out-of-line functions) *)
Definition vec_reserve_gen (grow : option (list Z)) (mok : Z -> bool) (isz : Z) (a : arena) (v : vec) (n : Z) : verr * arena * vec :=
  if v_cap v >=? n then (EOk, a, v)
  else if negb (is_valid_size n) then (EOutOfMemory, a, v)
  else let bs := n * isz in
       vec_realloc mok isz a v (match grow with Some t => expand_byte_size t bs | None => bs end).
Definition vec_reserve_fit := vec_reserve_gen None.
Definition vec_reserve_grow (t : list Z) := vec_reserve_gen (Some t).

(* ArenaVector_grow = _reserve_additional(n) *)
Definition vec_grow (t : list Z) (mok : Z -> bool) (isz : Z) (a : arena) (v : vec) (n : Z) : verr * arena * vec :=
  if v_size v + n >? SIZE_MAX then (EOutOfMemory, a, v) else vec_reserve_grow t mok isz a v (v_size v + n).

(* reserve_additional(arena, n): inline test, then grow *)
Definition vec_reserve_additional (t : list Z) mok isz a v (n : Z) : verr * arena * vec :=
  if v_cap v - v_size v <? n then vec_grow t mok isz a v n else (EOk, a, v).
(* reserve_additional(arena): room for one more item *)
Definition vec_reserve_one (t : list Z) mok isz a v : verr * arena * vec :=
  if v_size v =? v_cap v then vec_grow t mok isz a v 1 else (EOk, a, v).

Definition with_buf (v : vec) (b : list Z) (size : Z) : vec := mkvec (v_data v) b size (v_cap v).

(* resize_fit / resize_grow *)
Definition vec_resize (grow : option (list Z)) mok isz a v (n : Z) : verr * arena * vec :=
  match (if v_cap v <? n then vec_reserve_gen grow mok isz a v n else (EOk, a, v)) with
  | (EOk, a1, v1) =>
    if v_size v1 <? n then
      match buf_write (v_buf v1) (v_size v1) (zrepeat 0 (n - v_size v1)) with
      | Some b => (EOk, a1, with_buf v1 b (n mod 2 ^ 32))
      | None => (EOverrun, a1, v1)
      end
    else (EOk, a1, with_buf v1 (v_buf v1) (n mod 2 ^ 32))
  | r => r
  end.

Definition vec_append t mok isz a v (x : Z) : verr * arena * vec :=
  match vec_reserve_one t mok isz a v with
  | (EOk, a1, v1) =>
    match buf_write (v_buf v1) (v_size v1) [x] with
    | Some b => (EOk, a1, with_buf v1 b (v_size v1 + 1))
    | None => (EOverrun, a1, v1)
    end
  | r => r
  end.

(* insert(arena, index, item); prepend = insert at 0 *)
Definition vec_insert t mok isz a v (idx x : Z) : verr * arena * vec :=
  match vec_reserve_one t mok isz a v with
  | (EOk, a1, v1) =>
    match buf_move (v_buf v1) (idx + 1) idx (v_size v1 - idx) with
    | Some b1 =>
      match buf_write b1 idx [x] with
      | Some b => (EOk, a1, with_buf v1 b (v_size v1 + 1))
      | None => (EOverrun, a1, v1)
      end
    | None => (EOverrun, a1, v1)
    end
  | r => r
  end.

(* concat(arena, other) *)
Definition vec_concat t mok isz a v (other : vec) : verr * arena * vec :=
  match (if v_cap v - v_size v <? v_size other then vec_reserve_additional t mok isz a v (v_size other) else (EOk, a, v)) with
  | (EOk, a1, v1) =>
    if v_size other =? 0 then (EOk, a1, v1) else
    match buf_read (v_buf other) 0 (v_size other) with
    | Some xs =>
      match buf_write (v_buf v1) (v_size v1) xs with
      | Some b => (EOk, a1, with_buf v1 b (v_size v1 + v_size other))
      | None => (EOverrun, a1, v1)
      end
    | None => (EOverrun, a1, v1)
    end
  | r => r
  end.

(* remove_at(i) *)
Definition vec_remove_at (v : vec) (i : Z) : verr * vec :=
  let size' := v_size v - 1 in
  let n := size' - i in
  if n =? 0 then (EOk, with_buf v (v_buf v) size')
  else match buf_move (v_buf v) i (i + 1) n with
       | Some b => (EOk, with_buf v b size')
       | None => (EOverrun, v)
       end.

(* pop(): (item, vector) *)
Definition vec_pop (v : vec) : option Z * vec :=
  match buf_read (v_buf v) (v_size v - 1) 1 with
  | Some [x] => (Some x, with_buf v (v_buf v) (v_size v - 1))
  | _ => (None, v)
  end.

Definition vec_clear (v : vec) : vec := with_buf v (v_buf v) 0.
Definition vec_truncate (v : vec) (n : Z) : vec := with_buf v (v_buf v) (Z.min (v_size v) n).

(* release(arena): the size passed to free_reusable is capacity * sizeof(T) computed in size_t
   (fixes/C18-vector-release-size.patch; the pinned code multiplies in 32 bits) *)
Definition vec_release (isz : Z) (a : arena) (v : vec) : arena * vec :=
  match v_data v with
  | Some p => (free_reusable a p (v_cap v * isz), vec_empty)
  | None => (a, v)
  end.

(* index_of(value) : size_t (SIZE_MAX = not found) *)
Fixpoint index_of_rec (l : list Z) (x : Z) (i : Z) : Z :=
  match l with [] => SIZE_MAX | y :: r => if y =? x then i else index_of_rec r x (i + 1) end.
Definition vec_index_of (v : vec) (x : Z) : Z := index_of_rec (vec_abs v) x 0.
(* last_index_of(value) (the pinned header forwards to Span::index_of; fixes/C18-vector-last-index-of.patch) *)
Definition vec_last_index_of (v : vec) (x : Z) : Z :=
  let l := vec_abs v in
  let r := index_of_rec (rev l) x 0 in
  if r =? SIZE_MAX then SIZE_MAX else zlength l - 1 - r.

(* ---- the same reservation logic without the cell buffer (data pointer, size, capacity only); used by the driver for the
   4 GiB probes where a cell list cannot be materialised. VecProofs.reserve_shape_agrees: it is the projection of
   vec_reserve_gen / vec_release. *)
Definition vshape : Type := (option addr * Z * Z)%type.
Definition shape_of (v : vec) : vshape := (v_data v, v_size v, v_cap v).

Definition realloc_shape (mok : Z -> bool) (isz : Z) (a : arena) (s : vshape) (byte_size : Z) : verr * arena * vshape :=
  let '(data, size, cap) := s in
  match alloc_reusable mok a byte_size with
  | (None, a1) => (EOutOfMemory, a1, s)
  | (Some (p, asz), a1) =>
    let ncap := Z.min (asz / isz) 4294967295 in
    let a2 := match data with Some old => free_reusable a1 old (cap * isz) | None => a1 end in
    (EOk, a2, (Some p, size, ncap))
  end.

Definition reserve_shape (grow : option (list Z)) (mok : Z -> bool) (isz : Z) (a : arena) (s : vshape) (n : Z) : verr * arena * vshape :=
  let '(data, size, cap) := s in
  if cap >=? n then (EOk, a, s)
  else if negb (is_valid_size n) then (EOutOfMemory, a, s)
  else let bs := n * isz in
       realloc_shape mok isz a s (match grow with Some t => expand_byte_size t bs | None => bs end).

Definition release_shape (isz : Z) (a : arena) (s : vshape) : arena * vshape :=
  let '(data, size, cap) := s in
  match data with
  | Some p => (free_reusable a p (cap * isz), (None, 0, 0))
  | None => (a, s)
  end.

(* C18 (7) — executable models of ArenaList (support/arenalist.h: intrusive doubly linked list over a node heap; id 0 = null)
   and ArenaPool (support/arenapool.h: LIFO free list of fixed-size items in front of Arena::alloc_oneshot). *)
From Coq Require Import ZArith List Bool.
From Verif Require Import Containers.ArenaModel.
Import ListNotations.
Local Open Scope Z_scope.

Record lnode := mkln { l_prev : Z; l_next : Z }.
Definition lheap := list (Z * lnode).
Record dlist := mkdl { dl_heap : lheap; dl_first : Z; dl_last : Z }.
Definition dlist_empty : dlist := mkdl [] 0 0.

Fixpoint lget (h : lheap) (id : Z) : lnode :=
  match h with [] => mkln 0 0 | (i, n) :: r => if i =? id then n else lget r id end.
Fixpoint lset (h : lheap) (id : Z) (n : lnode) : lheap :=
  match h with [] => [(id, n)] | (i, m) :: r => if i =? id then (i, n) :: r else (i, m) :: lset r id n end.
Definition lset' (h : lheap) (id : Z) (n : lnode) : lheap := if id =? 0 then h else lset h id n.

(* _list_nodes[dir]: dir false = prev, true = next *)
Definition lnk (h : lheap) (id : Z) (dir : bool) : Z := if dir then l_next (lget h id) else l_prev (lget h id).
Definition set_lnk (h : lheap) (id : Z) (dir : bool) (v : Z) : lheap :=
  let n := lget h id in lset' h id (if dir then mkln (l_prev n) v else mkln v (l_next n)).
Definition ends (d : dlist) (dir : bool) : Z := if dir then dl_last d else dl_first d.
Definition set_end (d : dlist) (h : lheap) (dir : bool) (v : Z) : dlist :=
  if dir then mkdl h (dl_first d) v else mkdl h v (dl_last d).

(* _add_node(node, dir): dir true = append, false = prepend; the node comes with null links *)
Definition dl_add (d : dlist) (node : Z) (dir : bool) : dlist :=
  let prev := ends d dir in
  let h0 := lset' (dl_heap d) node (mkln 0 0) in
  let h1 := set_lnk h0 node (negb dir) prev in
  if prev =? 0 then mkdl h1 node node
  else set_end d (set_lnk h1 prev dir node) dir node.

(* _insert_node(ref, node, dir): dir true = insert_after *)
Definition dl_insert (d : dlist) (ref node : Z) (dir : bool) : dlist :=
  let h0 := lset' (dl_heap d) node (mkln 0 0) in
  let next := lnk h0 ref dir in
  let h1 := set_lnk h0 ref dir node in
  let '(h2, d2) := if next =? 0 then (h1, set_end d h1 dir node) else (set_lnk h1 next (negb dir) node, d) in
  let h3 := set_lnk (set_lnk h2 node (negb dir) ref) node dir next in
  mkdl h3 (dl_first d2) (dl_last d2).

Definition dl_unlink (d : dlist) (node : Z) : dlist :=
  let h := dl_heap d in
  let prev := l_prev (lget h node) in let next := l_next (lget h node) in
  let '(h1, f) := if prev =? 0 then (h, next) else (set_lnk h prev true next, dl_first d) in
  let '(h2, l) := if next =? 0 then (h1, prev) else (set_lnk h1 next false prev, dl_last d) in
  mkdl (lset' h2 node (mkln 0 0)) f l.

(* pop_first / pop: (node, list) *)
Definition dl_pop_first (d : dlist) : Z * dlist :=
  let node := dl_first d in
  let h := dl_heap d in
  let next := l_next (lget h node) in
  if next =? 0 then (node, mkdl h 0 0)
  else (node, mkdl (set_lnk (set_lnk h next false 0) node true 0) next (dl_last d)).
Definition dl_pop (d : dlist) : Z * dlist :=
  let node := dl_last d in
  let h := dl_heap d in
  let prev := l_prev (lget h node) in
  if prev =? 0 then (node, mkdl h 0 0)
  else (node, mkdl (set_lnk (set_lnk h prev true 0) node false 0) (dl_first d) prev).

(* walks *)
Fixpoint walk (fuel : nat) (h : lheap) (id : Z) (dir : bool) : list Z :=
  match fuel with O => [] | S f => if id =? 0 then [] else id :: walk f h (lnk h id dir) dir end.
Definition dl_forward (d : dlist) : list Z := walk 1000 (dl_heap d) (dl_first d) true.
Definition dl_backward (d : dlist) : list Z := walk 1000 (dl_heap d) (dl_last d) false.

(* ---- ArenaPool<T, Size>: Link* _data *)
Definition pool := list addr.
Definition pool_alloc (mok : Z -> bool) (a : arena) (p : pool) (item_size : Z) : option addr * arena * pool :=
  match p with
  | x :: r => (Some x, a, r)
  | [] => let '(r, a') := alloc_oneshot mok a (((item_size + 7) / 8) * 8) in (r, a', [])
  end.
Definition pool_release (p : pool) (x : addr) : pool := x :: p.

(* C18 (6) — the node-heap loop of ArenaTree::insert (TreeModel.insert_loop, variables g, p, t, q, dir, last exactly as in the
   C++) computes the abstract top-down insertion of TreeInsertAbs.v: a simulation, iteration by iteration, under a
   representation invariant over the node heap (the path from the false root to q and the subtree below q). Together with
   TreeInsertAbs.zinsert_correct: insert keeps the red-black rules and the set semantics for trees of ANY size. *)
From Coq Require Import ZArith List Bool Lia Permutation.
From Verif Require Import Containers.TreeModel Containers.TreeGeneral Containers.TreeRotate Containers.TreeRecolor
  Containers.TreeLink Containers.TreeInsertAbs.
Import ListNotations.
Local Open Scope Z_scope.

(* the path part of the heap: the nodes from the false root HEAD down to the parent of n, with the subtrees not taken *)
Fixpoint repz (h : ptrie) (zs : list frame) (n : Z) : Prop :=
  match zs with
  | [] => child h HEAD true = n
  | f :: zs' => f_id f <> 0 /\ is_red h (f_id f) = f_red f /\ key h (f_id f) = f_key f /\
                child h (f_id f) (f_dir f) = n /\ rep h (child h (f_id f) (negb (f_dir f))) (f_sib f) /\ repz h zs' (f_id f)
  end.

(* every id stored in the path: path nodes and the subtrees not taken *)
Definition zids (zs : list frame) : list Z := lidx zs ++ ridx zs.

Lemma rep_is_red h n t : rep h n t -> is_red h n = bred t.
Proof. destruct t; cbn [rep bred]; [intros ->; reflexivity|]. intros (-> & _ & H & _). exact H. Qed.
Lemma rep_bid h n t : rep h n t -> n = bid t.
Proof. destruct t; cbn [rep bid]; [auto|]. intros (-> & _). reflexivity. Qed.
Lemma rep_leaf_iff h n t : rep h n t -> (n = 0 <-> t = BL).
Proof. destruct t; cbn [rep]; [intros ->; tauto|]. intros (-> & Hn & _). split; [intros; contradiction|discriminate]. Qed.

Lemma in_zids_cons f zs i : In i (zids (f :: zs)) <-> In i (zids zs) \/ i = f_id f \/ In i (bids (f_sib f)).
Proof.
  unfold zids. cbn [lidx ridx]. rewrite !in_app_iff. destruct (f_dir f); cbn [In]; rewrite ?in_app_iff; cbn [In]; intuition.
Qed.

Lemma in_plug_ids zs X i : In i (bids (plug zs X)) <-> In i (zids zs) \/ In i (bids X).
Proof. rewrite plug_ids. unfold zids. rewrite !in_app_iff. tauto. Qed.

(* frame rule for the path *)
Lemma repz_frame h h' : forall zs n, (forall i, In i (zids zs) -> hget h' i = hget h i) -> hget h' HEAD = hget h HEAD ->
  repz h zs n -> repz h' zs n.
Proof.
  induction zs as [|f zs IH]; intros n Hs Hh Hr; cbn [repz] in *.
  - unfold child in *. rewrite Hh. exact Hr.
  - destruct Hr as (H0 & H1 & H2 & H3 & H4 & H5).
    assert (Hf : hget h' (f_id f) = hget h (f_id f)) by (apply Hs; apply in_zids_cons; right; left; reflexivity).
    unfold is_red, key, child in *. rewrite Hf. split; [exact H0|]. split; [exact H1|]. split; [exact H2|]. split; [exact H3|]. split.
    + apply (rep_frame h h'); [|exact H4]. intros i Hi. apply Hs. apply in_zids_cons. right. right. exact Hi.
    + apply IH; [|exact Hh|exact H5]. intros i Hi. apply Hs. apply in_zids_cons. left. exact Hi.
Qed.

(* folding the last path step into the focus, and back *)
Lemma repz_fold h f zs n X : repz h (f :: zs) n -> rep h n X -> rep h (f_id f) (fill f X) /\ repz h zs (f_id f).
Proof.
  cbn [repz]. intros (H0 & H1 & H2 & H3 & H4 & H5) Hx. split; [|exact H5].
  unfold fill. destruct (f_dir f); cbn [negb] in *; cbn [rep]; rewrite H3; repeat split; auto.
Qed.

Lemma repz_unfold h f zs X : rep h (f_id f) (fill f X) -> repz h zs (f_id f) ->
  repz h (f :: zs) (child h (f_id f) (f_dir f)) /\ rep h (child h (f_id f) (f_dir f)) X.
Proof.
  unfold fill. cbn [repz]. destruct (f_dir f); cbn [negb rep]; intros (_ & H0 & H1 & H2 & H3 & H4) Hz; repeat split; auto.
Qed.

Lemma rep_plug h : forall zs n X, repz h zs n -> rep h n X -> rep h (child h HEAD true) (plug zs X).
Proof.
  induction zs as [|f zs IH]; intros n X Hz Hx; cbn [plug].
  - cbn [repz] in Hz. rewrite Hz. exact Hx.
  - destruct (repz_fold _ _ _ _ _ Hz Hx) as [H1 H2]. apply (IH _ _ H2 H1).
Qed.

(* ------------------------------------------------------------------ id hygiene: distinct ids, none is null, HEAD or the new node *)
Section Refine.
Variables (node kn : Z).

Definition Hyg (nd : Z) (zs : list frame) (X : btree) : Prop :=
  NoDup (bids (plug zs X)) /\ Forall (fun i => 1 < i /\ i <> nd) (bids (plug zs X)).

Lemma hyg_focus nd zs X : Hyg nd zs X ->
  NoDup (bids X) /\ (forall i, In i (bids X) -> ~ In i (zids zs)) /\ (forall i, In i (bids X) -> 1 < i /\ i <> nd) /\
  (forall i, In i (zids zs) -> 1 < i /\ i <> nd).
Proof.
  unfold Hyg. rewrite plug_ids. intros [Hn Hf]. rewrite Forall_forall in Hf.
  destruct (nodup_app_parts _ _ Hn) as (N1 & N2 & D1). destruct (nodup_app_parts _ _ N2) as (N3 & N4 & D2).
  split; [exact N3|]. split.
  - intros i Hi Hz. unfold zids in Hz. apply in_app_or in Hz. destruct Hz as [Hz|Hz].
    + apply (D1 i Hz). apply in_or_app. left. exact Hi.
    + apply (D2 i Hi Hz).
  - split.
    + intros i Hi. apply Hf. apply in_or_app. right. apply in_or_app. left. exact Hi.
    + intros i Hi. apply Hf. unfold zids in Hi. apply in_app_or in Hi. apply in_or_app.
      destruct Hi as [Hi|Hi]; [left; exact Hi|right; apply in_or_app; right; exact Hi].
Qed.

(* what hygiene says about the last path step *)
Lemma hyg_frame nd f zs X : Hyg nd (f :: zs) X ->
  1 < f_id f /\ f_id f <> nd /\ ~ In (f_id f) (bids X) /\ ~ In (f_id f) (bids (f_sib f)) /\ ~ In (f_id f) (zids zs) /\
  (forall i, In i (bids X) -> ~ In i (bids (f_sib f))) /\
  (forall i, In i (bids (f_sib f)) -> ~ In i (zids zs)) /\ (forall i, In i (bids X) -> ~ In i (zids zs)) /\ Hyg nd zs (fill f X).
Proof.
  intros H. assert (H' : Hyg nd zs (fill f X)) by exact H.
  destruct (hyg_focus _ _ _ H') as (N & D & P & _). rewrite bids_fill in N, D, P.
  assert (Hin : In (f_id f) (if f_dir f then bids (f_sib f) ++ f_id f :: bids X else bids X ++ f_id f :: bids (f_sib f))).
  { destruct (f_dir f); apply in_or_app; right; left; reflexivity. }
  destruct (P _ Hin) as [P1 P2]. split; [exact P1|]. split; [exact P2|].
  assert (Hparts : ~ In (f_id f) (bids X) /\ ~ In (f_id f) (bids (f_sib f)) /\ (forall i, In i (bids X) -> ~ In i (bids (f_sib f)))).
  { destruct (f_dir f).
    - destruct (nodup_app_parts _ _ N) as (_ & N2 & D1). inversion N2; subst. split; [assumption|]. split.
      + intros Hi. apply (D1 _ Hi). left. reflexivity.
      + intros i Hi Hs. apply (D1 _ Hs). right. exact Hi.
    - destruct (nodup_app_parts _ _ N) as (_ & N2 & D1). inversion N2; subst. split.
      + intros Hi. apply (D1 _ Hi). left. reflexivity.
      + split; [assumption|]. intros i Hi Hs. apply (D1 _ Hi). right. exact Hs. }
  destruct Hparts as (A1 & A2 & A3). split; [exact A1|]. split; [exact A2|]. split; [apply D; exact Hin|]. split; [exact A3|].
  split; [|split; [|exact H']].
  - intros i Hi. apply D. destruct (f_dir f); apply in_or_app; [left; exact Hi|right; right; exact Hi].
  - intros i Hi. apply D. destruct (f_dir f); apply in_or_app; [right; right; exact Hi|left; exact Hi].
Qed.

(* ------------------------------------------------------------------ q == nullptr: p->_set_child(dir, node) *)
Lemma hget_set_child_same h id d c : 0 < id ->
  hget (set_child h id d c) id = (if d then mktn (t_left (hget h id)) c (t_red (hget h id)) (t_key (hget h id))
                                   else mktn c (t_right (hget h id)) (t_red (hget h id)) (t_key (hget h id))).
Proof. intros H. unfold set_child. apply hget_hset_same. exact H. Qed.
Lemma hget_set_child_other h id d c i : i <> id -> hget (set_child h id d c) i = hget h i.
Proof. intros H. unfold set_child. apply hget_hset_other. congruence. Qed.

(* replacing the child pointer of the last path node *)
Lemma repz_set_child h f zs n c : repz h (f :: zs) n -> 1 < f_id f -> ~ In (f_id f) (bids (f_sib f)) -> ~ In (f_id f) (zids zs) ->
  repz (set_child h (f_id f) (f_dir f) c) (f :: zs) c.
Proof.
  cbn [repz]. intros (H0 & H1 & H2 & H3 & H4 & H5) Hp Hs Hz.
  set (h1 := set_child h (f_id f) (f_dir f) c).
  assert (Hn : hget h1 (f_id f) = (if f_dir f then mktn (t_left (hget h (f_id f))) c (t_red (hget h (f_id f))) (t_key (hget h (f_id f)))
                                   else mktn c (t_right (hget h (f_id f))) (t_red (hget h (f_id f))) (t_key (hget h (f_id f)))))
    by (apply hget_set_child_same; lia).
  assert (Ho : forall i, i <> f_id f -> hget h1 i = hget h i) by (intros i Hi; apply hget_set_child_other; exact Hi).
  split; [exact H0|]. unfold is_red, key, child in *. rewrite Hn.
  destruct (f_dir f); cbn [negb t_left t_right t_red t_key] in *.
  - split; [exact H1|]. split; [exact H2|]. split; [reflexivity|]. split.
    + apply (rep_frame h h1); [|exact H4]. intros i Hi. apply Ho. intros ->. contradiction.
    + apply (repz_frame h h1); [| |exact H5]; [intros i Hi; apply Ho; intros ->; contradiction|apply Ho; unfold HEAD; lia].
  - split; [exact H1|]. split; [exact H2|]. split; [reflexivity|]. split.
    + apply (rep_frame h h1); [|exact H4]. intros i Hi. apply Ho. intros ->. contradiction.
    + apply (repz_frame h h1); [| |exact H5]; [intros i Hi; apply Ho; intros ->; contradiction|apply Ho; unfold HEAD; lia].
Qed.

Lemma rep_new_leaf h : 1 < node -> hget h node = mktn 0 0 true kn -> rep h node (BN BL node true kn BL).
Proof.
  intros Hn Hg. cbn [rep]. unfold is_red, key, child. rewrite Hg. cbn [t_left t_right t_red t_key].
  destruct (Z.eqb_spec node 0); [lia|]. repeat split; auto; lia.
Qed.

(* ------------------------------------------------------------------ the colour flip *)
Lemma recolor_notin t x c : ~ In x (bids t) -> recolor t x c = t.
Proof.
  induction t as [|l IHl id red k r IHr]; intros H; cbn [recolor]; [reflexivity|]. cbn [bids] in H.
  rewrite IHl by (intros Hi; apply H; apply in_or_app; left; exact Hi).
  rewrite IHr by (intros Hi; apply H; apply in_or_app; right; right; exact Hi).
  destruct (Z.eqb_spec id x) as [->|]; [exfalso; apply H; apply in_or_app; right; left; reflexivity|reflexivity].
Qed.

Lemma recolor_root l x c k r c' : ~ In x (bids l) -> ~ In x (bids r) -> recolor (BN l x c k r) x c' = BN l x c' k r.
Proof. intros Hl Hr. cbn [recolor]. rewrite Z.eqb_refl, !recolor_notin by assumption. reflexivity. Qed.

Lemma flip_rep h l q c k r : rep h q (BN l q c k r) -> bred l = true -> bred r = true -> NoDup (bids (BN l q c k r)) ->
  (forall i, In i (bids (BN l q c k r)) -> 1 < i) ->
  let h1 := set_red (set_red (set_red h q true) (child h q false) false) (child h q true) false in
  rep h1 q (BN (blacken l) q true k (blacken r)) /\ (forall i, ~ In i (bids (BN l q c k r)) -> hget h1 i = hget h i).
Proof.
  intros Hr Hl Hrr Hn Hp. destruct (bred_true_shape _ Hl) as (ll & li & lk & lr & ->). destruct (bred_true_shape _ Hrr) as (rl & ri & rk & rr & ->).
  pose proof Hr as Hr0. cbn [rep] in Hr. destruct Hr as (_ & _ & _ & _ & (Hli & _) & (Hri & _)). rewrite Hli, Hri. cbn zeta.
  cbn [bids] in Hn, Hp.
  assert (Pq : 1 < q) by (apply Hp; apply in_or_app; right; left; reflexivity).
  assert (Pl : 1 < li) by (apply Hp; apply in_or_app; left; apply in_or_app; right; left; reflexivity).
  assert (Pr : 1 < ri) by (apply Hp; apply in_or_app; right; right; apply in_or_app; right; left; reflexivity).
  destruct (nodup_app_parts _ _ Hn) as (N1 & N2 & D1). apply NoDup_cons_iff in N2. destruct N2 as [Nq N3].
  destruct (nodup_app_parts _ _ N1) as (N4 & N5 & D2). apply NoDup_cons_iff in N5. destruct N5 as [Nli N6].
  destruct (nodup_app_parts _ _ N3) as (N7 & N8 & D3). apply NoDup_cons_iff in N8. destruct N8 as [Nri N9].
  split.
  - pose proof (set_red_rep h q true ltac:(lia) _ _ Hr0) as R1.
    pose proof (set_red_rep _ li false ltac:(lia) _ _ R1) as R2.
    pose proof (set_red_rep _ ri false ltac:(lia) _ _ R2) as R3.
    rewrite recolor_root in R3.
    2:{ intros Hi. apply (D1 _ Hi). left. reflexivity. }
    2:{ exact Nq. }
    cbn [recolor] in R3.
    assert (E1 : (q =? li) = false) by (apply Z.eqb_neq; intros ->; apply (D1 li); [apply in_or_app; right; left; reflexivity|left; reflexivity]).
    assert (E2 : (q =? ri) = false) by (apply Z.eqb_neq; intros ->; apply Nq; apply in_or_app; right; left; reflexivity).
    assert (E3 : (li =? ri) = false).
    { apply Z.eqb_neq; intros ->. apply (D1 ri); [apply in_or_app; right; left; reflexivity|right; apply in_or_app; right; left; reflexivity]. }
    rewrite E1, E2, E3, !Z.eqb_refl in R3.
    rewrite !(recolor_notin ll), !(recolor_notin lr), !(recolor_notin rl), !(recolor_notin rr) in R3; [exact R3|..].
    all: intros Hi.
    all: try (apply (D3 _ Hi); left; reflexivity).
    all: try (apply Nri; exact Hi).
    all: try (apply (D2 _ Hi); left; reflexivity).
    all: try (apply Nli; exact Hi).
    all: try (apply (D1 ri); [apply in_or_app; first [left; exact Hi|right; right; exact Hi]|right; apply in_or_app; right; left; reflexivity]).
    all: try (apply (D1 li); [apply in_or_app; right; left; reflexivity|right; apply in_or_app; first [left; exact Hi|right; right; exact Hi]]).
  - intros i Hi. rewrite !hget_set_red_other; [reflexivity|..]; intros ->; apply Hi; cbn [bids].
    + apply in_or_app. right. left. reflexivity.
    + apply in_or_app. left. apply in_or_app. right. left. reflexivity.
    + apply in_or_app. right. right. apply in_or_app. right. left. reflexivity.
Qed.

(* ------------------------------------------------------------------ first half of an iteration: link or flip *)
Definition hprep (h : ptrie) (p q : Z) (dir : bool) : ptrie * Z :=
  if q =? 0 then (set_child h p dir node, node)
  else if is_red h (child h q false) && is_red h (child h q true)
       then (set_red (set_red (set_red h q true) (child h q false) false) (child h q true) false, q)
       else (h, q).

Definition p_ok (zs : list frame) (p : Z) (dir : bool) : Prop :=
  match zs with [] => p = 0 | f :: _ => p = f_id f /\ dir = f_dir f end.

Lemma hyg_weaken nd zs X : Hyg nd zs X -> Hyg 0 zs X.
Proof. intros [H1 H2]. split; [exact H1|]. eapply Forall_impl; [|exact H2]. cbn. intros a [Ha _]. split; lia. Qed.

Lemma hyg_congr nd zs X X' : bids X' = bids X -> Hyg nd zs X -> Hyg nd zs X'.
Proof. intros E [H1 H2]. unfold Hyg. rewrite (bids_plug_congr zs _ _ E). split; assumption. Qed.

Lemma nodup_insert_mid {A} (x : A) L R : NoDup (L ++ R) -> ~ In x (L ++ R) -> NoDup (L ++ x :: R).
Proof.
  intros H1 H2. apply (Permutation_NoDup (l := x :: L ++ R)); [apply Permutation_middle|]. constructor; assumption.
Qed.

Lemma hprep_spec h zs F q p dir :
  repz h zs q -> rep h q F -> Hyg node zs F -> 1 < node -> hget h node = mktn 0 0 true kn -> p_ok zs p dir ->
  (zs = [] -> F <> BL) ->
  let '(h1, q1) := hprep h p q dir in
  repz h1 zs q1 /\ rep h1 q1 (prep node kn F) /\ Hyg 0 zs (prep node kn F) /\
  (F <> BL -> hget h1 node = mktn 0 0 true kn /\ q1 = q /\ Hyg node zs (prep node kn F)) /\
  (q1 = node <-> F = BL) /\
  (forall i, ~ In i (bids (plug zs F)) -> hget h1 i = hget h i).
Proof.
  intros Hz Hr Hy Hn Hnode Hp Hne. unfold hprep.
  destruct (hyg_focus _ _ _ Hy) as (NF & DF & PF & PZ).
  destruct F as [|l q' c k r].
  - (* link *)
    cbn [rep] in Hr. subst q. cbn [Z.eqb].
    destruct zs as [|f zs]; [exfalso; apply Hne; reflexivity|]. cbn [p_ok] in Hp. destruct Hp as [-> ->].
    destruct (hyg_frame _ _ _ _ Hy) as (F1 & F2 & _ & F4 & F5 & _).
    set (h1 := set_child h (f_id f) (f_dir f) node).
    split; [apply (repz_set_child h f zs 0 node); assumption|].
    split; [apply rep_new_leaf; [exact Hn|]; unfold h1; rewrite hget_set_child_other by congruence; exact Hnode|].
    split.
    + destruct Hy as [Y1 Y2]. unfold Hyg. rewrite plug_ids in *. change (prep node kn BL) with (BN BL node true kn BL).
      cbn [bids app] in *. rewrite Forall_forall in Y2. split.
      * apply nodup_insert_mid; [exact Y1|]. intros Hi. destruct (Y2 _ Hi) as [_ Hc]. apply Hc. reflexivity.
      * apply Forall_forall. intros i Hi. apply in_app_or in Hi. destruct Hi as [Hi|[<-|Hi]]; [|split; lia|].
        -- destruct (Y2 i ltac:(apply in_or_app; left; exact Hi)). split; lia.
        -- destruct (Y2 i ltac:(apply in_or_app; right; exact Hi)). split; lia.
    + split; [intros Hc; exfalso; apply Hc; reflexivity|]. split; [split; reflexivity|].
      intros i Hi. unfold h1. apply hget_set_child_other. intros ->. apply Hi. apply in_plug_ids. left. apply in_zids_cons. right. left. reflexivity.
  - (* q is a node *)
    pose proof Hr as Hr0. cbn [rep] in Hr. destruct Hr as (-> & Hq0 & _ & _ & Hl & Hrr).
    destruct (Z.eqb_spec q' 0); [contradiction|].
    rewrite (rep_is_red _ _ _ Hl), (rep_is_red _ _ _ Hrr).
    assert (Hqn : q' <> node) by (destruct (PF q' ltac:(cbn [bids]; apply in_or_app; right; left; reflexivity)); assumption).
    assert (Hnotin : ~ In node (bids (BN l q' c k r))) by (intros Hi; destruct (PF _ Hi) as [_ Hc]; apply Hc; reflexivity).
    unfold prep. destruct (bred l && bred r) eqn:Eb.
    + apply andb_prop in Eb. destruct Eb as [El Er].
      destruct (flip_rep h l q' c k r Hr0 El Er NF (fun i Hi => proj1 (PF i Hi))) as [R1 R2]. cbn zeta in R1, R2.
      set (h1 := set_red (set_red (set_red h q' true) (child h q' false) false) (child h q' true) false) in *.
      assert (Eids : bids (BN (blacken l) q' true k (blacken r)) = bids (BN l q' c k r)).
      { cbn [bids]. destruct (blacken_keys l) as [_ ->]. destruct (blacken_keys r) as [_ ->]. reflexivity. }
      split.
      { apply (repz_frame h h1); [| |exact Hz].
        - intros i Hi. apply R2. intros Hc. apply (DF i Hc Hi).
        - apply R2. intros Hc. destruct (PF _ Hc). unfold HEAD in *. lia. }
      split; [exact R1|]. split; [apply hyg_weaken with (nd := node); apply (hyg_congr _ _ _ _ Eids); exact Hy|].
      split; [|split; [split; [intros Hc; contradiction|discriminate]|intros i Hi; apply R2; intros Hc; apply Hi; apply in_plug_ids; right; exact Hc]].
      intros _. split; [rewrite R2 by exact Hnotin; exact Hnode|]. split; [reflexivity|apply (hyg_congr _ _ _ _ Eids); exact Hy].
    + split; [exact Hz|]. split; [exact Hr0|]. split; [apply hyg_weaken with (nd := node); exact Hy|].
      split; [|split; [split; [intros Hc; contradiction|discriminate]|intros; reflexivity]].
      intros _. split; [exact Hnode|]. split; [reflexivity|exact Hy].
Qed.

(* ------------------------------------------------------------------ second half: the rotation at g and the re-link below t *)
Definition hrot (h1 : ptrie) (g p t q1 : Z) (last : bool) : ptrie :=
  if is_red h1 q1 && is_red h1 p then
    let '(h', s) := if q1 =? child h1 p last then single_rotate h1 g (negb last) else double_rotate h1 g (negb last) in
    set_child h' t (child h1 t true =? g) s
  else h1.

Lemma rot_fill_single fp fg F1 : f_dir fp = f_dir fg ->
  rot (fill fg (fill fp F1)) (negb (f_dir fg)) =
  Some (fill (mkf (f_dir fg) (f_id fp) false (f_key fp) (fill (mkf (f_dir fg) (f_id fg) true (f_key fg) (f_sib fg)) (f_sib fp))) F1).
Proof. intros H. unfold fill. rewrite H. cbn [f_dir f_id f_red f_key f_sib]. destruct (f_dir fg); reflexivity. Qed.

Lemma drot_fill fp fg x q k y : f_dir fp = negb (f_dir fg) ->
  drot (fill fg (fill fp (BN x q true k y))) (negb (f_dir fg)) =
  Some (fill (mkf (f_dir fg) q false k (fill (mkf (f_dir fg) (f_id fg) true (f_key fg) (f_sib fg)) (if f_dir fg then x else y)))
             (fill (mkf (negb (f_dir fg)) (f_id fp) true (f_key fp) (f_sib fp)) (if f_dir fg then y else x))).
Proof. intros H. unfold fill. rewrite H. cbn [f_dir f_id f_red f_key f_sib]. destruct (f_dir fg); reflexivity. Qed.

Definition t_ok (zt : list frame) (t : Z) : Prop := t = match zt with [] => HEAD | ft :: _ => f_id ft end.

(* re-linking a subtree with the same ids below t *)
Lemma relink_below h1 h' zt g s Gt Y : repz h1 zt g -> Hyg 0 zt Gt -> bids Y = bids Gt -> In g (bids Gt) ->
  rep h' s Y -> (forall i, ~ In i (bids Gt) -> hget h' i = hget h1 i) ->
  forall t, t_ok zt t ->
  let h2 := set_child h' t (child h1 t true =? g) s in
  repz h2 zt s /\ rep h2 s Y /\ (forall i, ~ In i (bids Gt) -> i <> t -> hget h2 i = hget h1 i).
Proof.
  intros Hz Hy Eids Hg Hr Hfr t Ht. cbn zeta.
  destruct (hyg_focus _ _ _ Hy) as (NG & DG & PG & PZ).
  assert (Hg1 : 1 < g) by (apply PG; exact Hg).
  destruct zt as [|ft zt]; unfold t_ok in Ht; subst t.
  - cbn [repz] in Hz. rewrite Hz, Z.eqb_refl.
    assert (Hh : ~ In HEAD (bids Gt)) by (intros Hi; destruct (PG _ Hi); unfold HEAD in *; lia).
    split; [|split].
    + cbn [repz]. unfold child. rewrite hget_set_child_same by (unfold HEAD; lia). reflexivity.
    + apply (rep_frame h'); [|exact Hr]. intros i Hi. apply hget_set_child_other. intros ->. apply Hh. rewrite <- Eids. exact Hi.
    + intros i Hi Hne. rewrite hget_set_child_other by exact Hne. apply Hfr. exact Hi.
  - destruct (hyg_frame _ _ _ _ Hy) as (F1 & _ & F3 & F4 & F5 & F6 & F7 & F8 & _).
    assert (Hz' : repz h' (ft :: zt) g).
    { apply (repz_frame h1 h'); [| |exact Hz].
      - intros i Hi. apply Hfr. intros Hc. apply (DG i Hc Hi).
      - apply Hfr. intros Hc. destruct (PG _ Hc). unfold HEAD in *. lia. }
    assert (Ed : (child h1 (f_id ft) true =? g) = f_dir ft).
    { cbn [repz] in Hz. destruct Hz as (_ & _ & _ & Hc & Hs & _). destruct (f_dir ft) eqn:Ed; cbn [negb] in *.
      - rewrite Hc. apply Z.eqb_refl.
      - apply Z.eqb_neq. intros Hc'. rewrite (rep_bid _ _ _ Hs) in Hc'.
        destruct (f_sib ft) as [|a b c d e]; cbn [bid] in Hc'; [lia|]. apply (F6 g Hg). rewrite <- Hc'. cbn [bids]. apply in_or_app. right. left. reflexivity. }
    rewrite Ed. split; [|split].
    + apply (repz_set_child h' ft zt g s); assumption.
    + apply (rep_frame h'); [|exact Hr]. intros i Hi. apply hget_set_child_other. intros ->. apply F3. rewrite <- Eids. exact Hi.
    + intros i Hi Hne. rewrite hget_set_child_other by exact Hne. apply Hfr. exact Hi.
Qed.

Lemma is_red_p h zs n p dir : repz h zs n -> p_ok zs p dir -> is_red h p = hd_red zs.
Proof.
  destruct zs as [|f zs]; cbn [p_ok hd_red repz]; [intros _ ->; reflexivity|]. intros (_ & H & _) [-> _]. exact H.
Qed.

Lemma hrot_spec h1 zs F1 q1 g p t dir last :
  repz h1 zs q1 -> rep h1 q1 F1 -> F1 <> BL -> Hyg 0 zs F1 -> p_ok zs p dir ->
  (rotated zs F1 = None -> bred F1 && hd_red zs = false) ->
  (forall fp fg zt, zs = fp :: fg :: zt -> bred F1 && f_red fp = true -> g = f_id fg /\ last = f_dir fg /\ t_ok zt t) ->
  let h2 := hrot h1 g p t q1 last in
  let Z1 := match rotated zs F1 with Some (_, Z1, _) => Z1 | None => zs end in
  let Q := match rotated zs F1 with Some (_, _, Q) => Q | None => F1 end in
  repz h2 Z1 q1 /\ rep h2 q1 Q /\ Hyg 0 Z1 Q /\
  (forall i, ~ In i (bids (plug zs F1)) -> i <> HEAD -> hget h2 i = hget h1 i).
Proof.
  intros Hz Hr HF1 Hy Hp Hnone Hvars. cbn zeta. unfold hrot.
  rewrite (rep_is_red _ _ _ Hr), (is_red_p _ _ _ _ _ Hz Hp).
  destruct (rotated zs F1) as [[[dbl Z1] Q]|] eqn:ER.
  2:{ rewrite (Hnone eq_refl). split; [exact Hz|]. split; [exact Hr|]. split; [exact Hy|]. intros; reflexivity. }
  destruct (rotated_inv _ _ _ _ _ ER) as (fp & fg & zt & -> & Hq & Hpr & Hrot).
  cbn [hd_red]. rewrite Hq, Hpr. cbn [andb].
  destruct (Hvars fp fg zt eq_refl ltac:(rewrite Hq, Hpr; reflexivity)) as (-> & -> & Ht).
  cbn [p_ok] in Hp. destruct Hp as [-> ->].
  set (Gt := fill fg (fill fp F1)).
  destruct (repz_fold _ _ _ _ _ Hz Hr) as [Hrp Hz1]. destruct (repz_fold _ _ _ _ _ Hz1 Hrp) as [Hrg Hz2]. fold Gt in Hrg.
  assert (Hy2 : Hyg 0 zt Gt) by exact Hy.
  destruct (hyg_focus _ _ _ Hy2) as (NG & DG & PG & PZ).
  assert (Hpos : ids_pos Gt) by (apply Forall_forall; intros i Hi; destruct (PG i Hi); lia).
  assert (Hgin : In (f_id fg) (bids Gt)).
  { unfold Gt. rewrite bids_fill. destruct (f_dir fg); apply in_or_app; right; left; reflexivity. }
  destruct (hyg_frame _ _ _ _ Hy) as (P1 & _ & P3 & P4 & _ & P6 & _).
  assert (Hq1 : q1 = bid F1) by (apply (rep_bid _ _ _ Hr)).
  assert (Hq1in : In q1 (bids F1)).
  { rewrite Hq1. destruct F1 as [|a b c d e]; [contradiction|]. cbn. apply in_or_app. right. left. reflexivity. }
  assert (Hcq : child h1 (f_id fp) (f_dir fp) = q1) by (cbn [repz] in Hz; tauto).
  assert (Hcs : child h1 (f_id fp) (negb (f_dir fp)) <> q1).
  { cbn [repz] in Hz. destruct Hz as (_ & _ & _ & _ & Hs & _). rewrite (rep_bid _ _ _ Hs). intros Hc.
    destruct (f_sib fp) as [|a b c d e]; cbn [bid] in Hc.
    - destruct (hyg_focus _ _ _ Hy) as (_ & _ & PF & _). destruct (PF _ Hq1in). lia.
    - apply (P6 q1 Hq1in). rewrite <- Hc. cbn [bids]. apply in_or_app. right. left. reflexivity. }
  assert (Hfr : forall i, ~ In i (bids (plug (fp :: fg :: zt) F1)) -> ~ In i (bids Gt) /\ forall t, t_ok zt t -> i <> HEAD -> i <> t).
  { intros i Hi. cbn [plug] in Hi. fold Gt in Hi. split.
    - intros Hc. apply Hi. apply in_plug_ids. right. exact Hc.
    - intros t0 Ht0 Hh. unfold t_ok in Ht0. destruct zt as [|ft zt']; [congruence|]. intros ->. apply Hi. apply in_plug_ids. left.
      rewrite Ht0. apply in_zids_cons. right. left. reflexivity. }
  destruct Hrot as [(-> & Hd & -> & ->)|(-> & Hd & -> & x & q & k & y & -> & ->)].
  - (* single *)
    rewrite <- Hd, Hcq, Z.eqb_refl. rewrite Hd.
    pose proof (single_rotate_rep h1 (f_id fg) Gt (negb (f_dir fg)) _ Hrg NG Hpos (rot_fill_single fp fg F1 Hd)) as HR.
    destruct (single_rotate h1 (f_id fg) (negb (f_dir fg))) as [h' s]. destruct HR as [R1 R2].
    set (newp := mkf (f_dir fg) (f_id fp) false (f_key fp) (fill (mkf (f_dir fg) (f_id fg) true (f_key fg) (f_sib fg)) (f_sib fp))) in *.
    assert (Eids : bids (fill newp F1) = bids Gt) by (apply (rot_keys _ _ _ (rot_fill_single fp fg F1 Hd))).
    destruct (relink_below h1 h' zt (f_id fg) s Gt (fill newp F1) Hz2 Hy2 Eids Hgin R1 R2 t Ht) as (A1 & A2 & A3).
    set (h2 := set_child h' t (child h1 t true =? f_id fg) s) in *.
    assert (Es : s = f_id fp) by (rewrite (rep_bid _ _ _ A2); unfold fill; cbn; destruct (f_dir fg); reflexivity).
    rewrite Es in A1, A2.
    destruct (repz_unfold h2 newp zt F1 A2 A1) as [B1 B2].
    assert (Ec : child h2 (f_id newp) (f_dir newp) = q1) by (rewrite (rep_bid _ _ _ B2); symmetry; exact Hq1).
    rewrite Ec in B1, B2. split; [exact B1|]. split; [exact B2|]. split; [exact (hyg_congr 0 zt _ _ Eids Hy2)|].
    intros i Hi Hh. destruct (Hfr i Hi) as [C1 C2]. apply A3; [exact C1|apply (C2 t Ht Hh)].
  - (* double *)
    assert (Ene : (q1 =? child h1 (f_id fp) (f_dir fg)) = false).
    { apply Z.eqb_neq. intros Hc. apply Hcs. rewrite Hd, negb_involutive. symmetry. exact Hc. }
    rewrite Ene.
    pose proof (double_rotate_rep h1 (f_id fg) Gt (negb (f_dir fg)) _ Hrg NG Hpos (drot_fill fp fg x q k y Hd)) as HR.
    destruct (double_rotate h1 (f_id fg) (negb (f_dir fg))) as [h' s]. destruct HR as [R1 R2].
    match type of R1 with rep _ _ ?Y => set (Y2 := Y) in * end.
    assert (Eids : bids Y2 = bids Gt) by (apply (drot_keys _ _ _ (drot_fill fp fg x q k y Hd))).
    destruct (relink_below h1 h' zt (f_id fg) s Gt Y2 Hz2 Hy2 Eids Hgin R1 R2 t Ht) as (A1 & A2 & A3).
    assert (Es : s = q1).
    { rewrite (rep_bid _ _ _ A2), Hq1. unfold Y2, fill. cbn. destruct (f_dir fg); reflexivity. }
    subst s. split; [exact A1|]. split; [exact A2|]. split; [exact (hyg_congr 0 zt _ _ Eids Hy2)|].
    intros i Hi Hh. destruct (Hfr i Hi) as [C1 C2]. apply A3; [exact C1|apply (C2 t Ht Hh)].
Qed.

(* ------------------------------------------------------------------ the loop *)
Lemma insert_loop_S f h g p t q dir last :
  insert_loop (S f) h node g p t q dir last =
  let '(h1, q1) := hprep h p q dir in
  let h2 := hrot h1 g p t q1 last in
  if q1 =? node then h2
  else let dir' := key h2 q1 <? key h2 node in
       insert_loop f h2 node p q1 (if g =? 0 then t else g) (child h2 q1 dir') dir' dir.
Proof. reflexivity. Qed.

Definition vars_ok (m : mode) (zs : list frame) (g p t : Z) (dir last : bool) : Prop :=
  p_ok zs p dir /\
  match m with
  | Clean => exists fp fg zt, zs = fp :: fg :: zt /\ g = f_id fg /\ last = f_dir fg /\ t_ok zt t
  | NoRot1 => (exists fp, zs = [fp] /\ g = 0 /\ t = HEAD) \/
              (exists fp fg zt, zs = fp :: fg :: zt /\ g = f_id fg /\ last = f_dir fg)
  | NoRot2 => (zs = [] /\ g = 0 /\ t = HEAD) \/ (exists fp zt, zs = fp :: zt)
  end.

Lemma hyg_bids_eq nd zs X zs' X' : bids (plug zs' X') = bids (plug zs X) -> Hyg nd zs X -> Hyg nd zs' X'.
Proof. unfold Hyg. intros ->. auto. Qed.

(* the rotation needs accurate g, last, t only in mode Clean: the guards exclude it otherwise *)
Lemma vars_for_rotation m zs F g p t dir last : AInv node kn m zs F -> vars_ok m zs g p t dir last ->
  forall fp fg zt, zs = fp :: fg :: zt -> bred (prep node kn F) && f_red fp = true -> g = f_id fg /\ last = f_dir fg /\ t_ok zt t.
Proof.
  intros (_ & _ & G & _) [_ V] fp fg zt -> Hc. apply andb_prop in Hc. destruct Hc as [Hq Hp].
  destruct m; cbn [guard hd_red] in G.
  - destruct V as (fp' & fg' & zt' & E & Hg & Hl & Ht). inversion E; subst. auto.
  - destruct G as [_ G]. destruct (nfb_prep node kn F (G Hp)) as (E1 & E2 & _). rewrite E1 in Hq. congruence.
  - destruct G as [G _]. congruence.
Qed.

Lemma norot_cond m zs F : AInv node kn m zs F -> rotated zs (prep node kn F) = None -> bred (prep node kn F) && hd_red zs = false.
Proof.
  intros (_ & _ & G & _) H. destruct (rotated_none _ _ H) as [Hl|Hc]; [|exact Hc].
  destruct zs as [|fp [|fg zt]]; cbn [length] in Hl; [apply andb_false_r| |lia].
  cbn [hd_red]. apply (guard_single node kn m). exact G.
Qed.

Definition next_mode (m : mode) (r : option (bool * list frame * btree)) : mode :=
  match r with Some (true, _, _) => NoRot2 | Some (false, _, _) => NoRot1
          | None => match m with NoRot2 => NoRot1 | _ => Clean end end.

Lemma vars_next m zs F1 g p t dir last fq : vars_ok m zs g p t dir last -> (forall i, In i (zids zs) -> 1 < i) ->
  let r := rotated zs F1 in
  let Z1 := match r with Some (_, Z1, _) => Z1 | None => zs end in
  vars_ok (next_mode m r) (fq :: Z1) p (f_id fq) (if g =? 0 then t else g) (f_dir fq) dir.
Proof.
  intros [Hp V] Hpos. cbn zeta. split; [cbn [p_ok]; split; reflexivity|].
  assert (Hg : forall fp fg zt, zs = fp :: fg :: zt -> f_id fg =? 0 = false).
  { intros fp fg zt ->. apply Z.eqb_neq. assert (1 < f_id fg); [|lia]. apply Hpos. apply in_zids_cons. left. apply in_zids_cons. right. left. reflexivity. }
  destruct (rotated zs F1) as [[[dbl Z1] Q]|] eqn:ER.
  - destruct (rotated_inv _ _ _ _ _ ER) as (fp & fg & zt & -> & _ & _ & [(-> & Hd & _ & ->)|(-> & _ & -> & _)]); cbn [next_mode].
    + cbn [p_ok] in Hp. destruct Hp as [-> ->]. right. eexists _, _, _. split; [reflexivity|]. cbn [f_id f_dir]. split; [reflexivity|exact Hd].
    + right. eexists _, _. reflexivity.
  - cbn [next_mode]. destruct m.
    + destruct V as (fp & fg & zt & -> & -> & -> & Ht). cbn [p_ok] in Hp. destruct Hp as [-> ->].
      exists fq, fp, (fg :: zt). split; [reflexivity|]. split; [reflexivity|]. split; [reflexivity|].
      rewrite (Hg fp fg zt eq_refl). reflexivity.
    + destruct V as [(fp & -> & -> & ->)|(fp & fg & zt & -> & -> & ->)]; cbn [p_ok] in Hp; destruct Hp as [-> ->].
      * exists fq, fp, []. split; [reflexivity|]. split; [reflexivity|]. split; reflexivity.
      * exists fq, fp, (fg :: zt). split; [reflexivity|]. split; [reflexivity|]. split; [reflexivity|].
        rewrite (Hg fp fg zt eq_refl). reflexivity.
    + destruct V as [(-> & -> & ->)|(fp & zt & ->)]; cbn [p_ok] in Hp.
      * subst p. left. exists fq. split; [reflexivity|]. split; reflexivity.
      * destruct Hp as [-> ->]. right. exists fq, fp, zt. split; [reflexivity|]. split; reflexivity.
Qed.

Theorem insert_loop_sim : forall fuel m zs F h g p t q dir last,
  AInv node kn m zs F -> repz h zs q -> rep h q F -> Hyg node zs F -> 1 < node -> hget h node = mktn 0 0 true kn ->
  vars_ok m zs g p t dir last -> (zs = [] -> F <> BL) -> (pot node kn m F < fuel)%nat ->
  exists R, zloop node kn fuel m zs F = Some R /\
    rep (insert_loop fuel h node g p t q dir last) (child (insert_loop fuel h node g p t q dir last) HEAD true) R /\
    (forall i, ~ In i (bids (plug zs F)) -> i <> HEAD -> i <> node -> hget (insert_loop fuel h node g p t q dir last) i = hget h i).
Proof.
  induction fuel as [|f IH]; intros m zs F h g p t q dir last A Hz Hr Hy Hn Hnode V Hne Hpot; [lia|].
  rewrite insert_loop_S. cbn [zloop].
  pose proof (hprep_spec h zs F q p dir Hz Hr Hy Hn Hnode (proj1 V) Hne) as HP.
  destruct (hprep h p q dir) as [h1 q1]. destruct HP as (Hz1 & Hr1 & Hy1 & HF & Hq1 & Hfr0).
  pose proof (hrot_spec h1 zs (prep node kn F) q1 g p t dir last Hz1 Hr1 (prep_not_leaf node kn F) Hy1 (proj1 V)
               (norot_cond m zs F A) (vars_for_rotation m zs F g p t dir last A V)) as HR.
  cbn zeta in HR. set (h2 := hrot h1 g p t q1 last) in *.
  destruct HR as (Hz2 & Hr2 & Hy2 & Hfr).
  assert (Hfr2 : forall i, ~ In i (bids (plug zs F)) -> i <> HEAD -> i <> node -> hget h2 i = hget h i).
  { intros i Hi Hh Hin. rewrite Hfr; [apply Hfr0; exact Hi| |exact Hh].
    intros Hc. apply in_plug_ids in Hc. destruct Hc as [Hc|Hc]; [apply Hi; apply in_plug_ids; left; exact Hc|].
    destruct F as [|xl xi xc xk xr].
    - change (prep node kn BL) with (BN BL node true kn BL) in Hc. cbn in Hc. destruct Hc as [Hc|[]]. congruence.
    - destruct (prep_keys node kn (BN xl xi xc xk xr) ltac:(discriminate)) as [_ Ei]. rewrite Ei in Hc. apply Hi. apply in_plug_ids. right. exact Hc. }
  destruct F as [|fl fi fc fk fr].
  - assert (E : (q1 =? node) = true) by (apply Z.eqb_eq; apply Hq1; reflexivity). rewrite E.
    unfold zstep. eexists. split; [reflexivity|]. cbv zeta. split; [apply (rep_plug h2 _ q1); assumption|exact Hfr2].
  - destruct (HF ltac:(discriminate)) as (Hnode1 & Eq1 & Hyn).
    assert (Hqn : (q1 =? node) = false).
    { apply Z.eqb_neq. intros Hc. apply Hq1 in Hc. discriminate. }
    rewrite Hqn.
    set (F0 := BN fl fi fc fk fr) in *.
    set (r := rotated zs (prep node kn F0)) in *.
    set (Z1 := match r with Some (_, Z1, _) => Z1 | None => zs end) in *.
    set (Q := match r with Some (_, _, Q) => Q | None => prep node kn F0 end) in *.
    assert (Hids : bids (plug Z1 Q) = bids (plug zs (prep node kn F0))).
    { unfold Z1, Q. destruct r as [[[dbl Z1'] Q']|] eqn:ER; [apply (rotated_keys _ _ _ _ _ ER)|reflexivity]. }
    assert (Hnotin : ~ In node (bids (plug zs (prep node kn F0)))).
    { intros Hi. destruct Hyn as [_ Hf]. rewrite Forall_forall in Hf. destruct (Hf _ Hi) as [_ Hc]. apply Hc. reflexivity. }
    assert (Hnode2 : hget h2 node = mktn 0 0 true kn).
    { rewrite Hfr; [exact Hnode1|exact Hnotin|unfold HEAD; lia]. }
    destruct Q as [|x qq c k y] eqn:EQ.
    { exfalso. cbn [rep] in Hr2. assert (In q1 (bids (plug zs (prep node kn F0)))).
      { apply in_plug_ids. right. rewrite (rep_bid _ _ _ Hr1). destruct (prep node kn F0) as [|a b c d e] eqn:EP; [exfalso; exact (prep_not_leaf node kn F0 EP)|].
        cbn. apply in_or_app. right. left. reflexivity. }
      destruct Hy1 as [_ Hf]. rewrite Forall_forall in Hf. destruct (Hf _ H). lia. }
    pose proof Hr2 as Hr2'. cbn [rep] in Hr2'. destruct Hr2' as (-> & Hq0 & Hc & Hk & Hx & Hyy).
    assert (Es : zstep node kn m zs F0 = Next (next_mode m r) (mkf (k <? kn) qq c k (if k <? kn then x else y) :: Z1) (if k <? kn then y else x)).
    { unfold zstep, F0. fold F0. fold r. fold Z1. unfold next_mode.
      change (match r with Some (_, _, Q0) => Q0 | None => prep node kn F0 end) with Q. rewrite EQ. reflexivity. }
    rewrite Es.
    assert (Hkn : key h2 node = kn) by (unfold key; rewrite Hnode2; reflexivity).
    rewrite Hk, Hkn.
    destruct (zstep_next node kn _ _ _ _ _ _ A Es) as [Hplug A'].
    pose proof (zstep_pot node kn _ _ _ _ _ _ A Es) as Hp'.
    set (fq := mkf (k <? kn) qq c k (if k <? kn then x else y)) in *.
    destruct (IH (next_mode m r) (fq :: Z1) (if k <? kn then y else x) h2 p qq (if g =? 0 then t else g) (child h2 qq (k <? kn)) (k <? kn) dir) as (R & HR & Hrep & Hfr3).
    + exact A'.
    + cbn [repz fq f_id f_red f_key f_dir f_sib]. split; [exact Hq0|]. split; [exact Hc|]. split; [exact Hk|]. split; [reflexivity|].
      split; [destruct (k <? kn); assumption|exact Hz2].
    + destruct (k <? kn); assumption.
    + apply (hyg_bids_eq node zs (prep node kn F0)); [|exact Hyn].
      unfold fq. rewrite descend_plug. exact Hids.
    + exact Hn.
    + exact Hnode2.
    + pose proof (vars_next m zs (prep node kn F0) g p t dir last fq V) as VN. cbn zeta in VN. fold r in VN. fold Z1 in VN.
      apply VN. intros i Hi. destruct (hyg_focus _ _ _ Hy) as (_ & _ & _ & PZ). destruct (PZ i Hi). assumption.
    + discriminate.
    + lia.
    + exists R. split; [exact HR|]. split; [exact Hrep|]. intros i Hi Hh Hin. rewrite Hfr3; [apply Hfr2; assumption| |exact Hh|exact Hin].
      intros Hcc. apply Hi. unfold fq in Hcc. rewrite descend_plug, Hids in Hcc.
      destruct (prep_keys node kn F0 ltac:(discriminate)) as [_ Ei]. rewrite (bids_plug_congr zs _ _ Ei) in Hcc. exact Hcc.
Qed.

(* ------------------------------------------------------------------ ArenaTree::insert as a whole *)
Theorem tree_insert_refines_f fuel t T b :
  rep (heap t) (root t) T -> NoDup (bids T) -> (forall i, In i (bids T) -> 1 < i /\ i <> node) -> 1 < node ->
  bbh T = Some b -> bred T = false -> (2 * bheight T + 1 < fuel)%nat ->
  let t' := tree_insert_f fuel t node kn in
  exists R, rep (heap t') (root t') R /\ bred R = false /\ (bbh R = Some b \/ bbh R = Some (b + 1)) /\
    (sortedb (bkeys T) = true -> ~ In kn (bkeys T) ->
       sortedb (bkeys R) = true /\ exists L Rr, bkeys T = L ++ Rr /\ bkeys R = L ++ kn :: Rr) /\
    (exists L Rr, bids T = L ++ Rr /\ bids R = L ++ node :: Rr) /\
    (forall i, ~ In i (bids T) -> i <> HEAD -> i <> node -> hget (heap t') i = hget (heap t) i).
Proof.
  intros Hr Hnd Hids Hn Hb Hred Hh. cbn zeta. unfold tree_insert_f.
  set (h0 := hset (heap t) node (mktn 0 0 false kn)).
  destruct (Z.eqb_spec (root t) 0) as [E0|E0].
  - (* empty tree *)
    assert (ET : T = BL) by (apply (rep_leaf_iff _ _ _ Hr); exact E0). subst T. cbn [heap root].
    exists (BN BL node false kn BL). split.
    + cbn [rep]. unfold is_red, key, child, h0. rewrite hget_hset_same by lia. cbn [t_left t_right t_red t_key].
      destruct (Z.eqb_spec node 0); [lia|]. repeat split; auto; lia.
    + split; [reflexivity|]. cbn in Hb. inversion Hb; subst. split; [right; reflexivity|]. split.
      * intros _ _. split; [reflexivity|]. exists [], []. split; reflexivity.
      * split; [exists [], []; split; reflexivity|]. intros i _ _ Hi. unfold h0. apply hget_hset_other. congruence.
  - assert (HT : T <> BL) by (intros ->; apply E0; exact Hr).
    set (h1 := hset h0 HEAD (mktn 0 (root t) false 0)).
    set (h2 := set_red h1 node true).
    assert (Hnh : node <> HEAD) by (unfold HEAD; lia).
    assert (Hnode : hget h2 node = mktn 0 0 true kn).
    { unfold h2. rewrite hget_set_red_same by lia. unfold h1. rewrite hget_hset_other by (unfold HEAD; lia).
      unfold h0. rewrite hget_hset_same by lia. reflexivity. }
    assert (Hhead : hget h2 HEAD = mktn 0 (root t) false 0).
    { unfold h2. rewrite hget_set_red_other by (unfold HEAD; lia). unfold h1. apply hget_hset_same. unfold HEAD. lia. }
    assert (Hr2 : rep h2 (root t) T).
    { apply (rep_frame (heap t)); [|exact Hr]. intros i Hi. destruct (Hids i Hi) as [H1 H2].
      unfold h2. rewrite hget_set_red_other by congruence. unfold h1. rewrite hget_hset_other by (unfold HEAD; lia).
      unfold h0. apply hget_hset_other. congruence. }
    assert (Hz : repz h2 [] (root t)) by (cbn [repz]; unfold child; rewrite Hhead; reflexivity).
    assert (Hy : Hyg node [] T).
    { split; [exact Hnd|]. apply Forall_forall. exact Hids. }
    pose proof (AInv_init node kn T b Hb Hred) as A.
    assert (V : vars_ok NoRot2 [] 0 0 HEAD false false) by (split; [reflexivity|left; repeat split]).
    pose proof (pot_init node kn T HT) as Hp.
    destruct (insert_loop_sim fuel NoRot2 [] T h2 0 0 HEAD (root t) false false A Hz Hr2 Hy Hn Hnode V (fun _ => HT) ltac:(lia)) as (R0 & HR0 & Hrep & Hfr).
    destruct (zinsert_correct node kn fuel T b Hb Hred HT Hh) as (R & HR & Hbr & Hbb & Hk & Hi).
    unfold zinsert in HR. rewrite HR0 in HR. inversion HR; subst R. clear HR.
    set (h3 := insert_loop fuel h2 node 0 0 HEAD (root t) false false) in *.
    set (r := child h3 HEAD true) in *. cbn [heap root].
    exists (blacken R0). split; [|split; [exact Hbr|split; [exact Hbb|split; [exact Hk|split; [exact Hi|]]]]].
    2:{ intros i Hni Hih Hin. destruct Hi as (L & Rr & E1 & E2). destruct (blacken_keys R0) as [_ Eb]. rewrite Eb in E2.
        assert (Hir : i <> r).
        { rewrite (rep_bid _ _ _ Hrep). destruct R0 as [|l0 i0 c0 k0 r0]; [destruct L; discriminate|]. cbn [bid].
          assert (Hin0 : In i0 (L ++ node :: Rr)) by (rewrite <- E2; cbn [bids]; apply in_or_app; right; left; reflexivity).
          intros ->. apply in_app_or in Hin0. destruct Hin0 as [H0|[H0|H0]]; [apply Hni; rewrite E1; apply in_or_app; left; exact H0|congruence|apply Hni; rewrite E1; apply in_or_app; right; exact H0]. }
        rewrite hget_set_red_other by exact Hir. fold h3. rewrite (Hfr i Hni Hih Hin).
        unfold h2. rewrite hget_set_red_other by exact Hin. unfold h1. rewrite hget_hset_other by congruence. unfold h0. apply hget_hset_other. congruence. }
    destruct Hi as (L & Rr & E1 & E2). destruct (blacken_keys R0) as [_ Eb]. rewrite Eb in E2.
    assert (NR : NoDup (bids R0)).
    { rewrite E2. apply nodup_insert_mid; [rewrite <- E1; exact Hnd|]. rewrite <- E1. intros Hc. destruct (Hids _ Hc) as [_ Hc']. apply Hc'. reflexivity. }
    destruct R0 as [|l i c k rr]; [destruct L; discriminate|].
    pose proof (rep_bid _ _ _ Hrep) as Er. cbn [bid] in Er.
    assert (Hipos : 0 < i).
    { assert (Hin : In i (L ++ node :: Rr)) by (rewrite <- E2; cbn [bids]; apply in_or_app; right; left; reflexivity).
      apply in_app_or in Hin. destruct Hin as [Hin|[<-|Hin]]; [|lia|].
      - destruct (Hids i ltac:(rewrite E1; apply in_or_app; left; exact Hin)). lia.
      - destruct (Hids i ltac:(rewrite E1; apply in_or_app; right; exact Hin)). lia. }
    rewrite Er. pose proof (set_red_rep h3 i false Hipos _ _ Hrep) as Hfin. rewrite Er in Hfin.
    cbn [bids] in NR. destruct (nodup_app_parts _ _ NR) as (_ & N2 & D). apply NoDup_cons_iff in N2. destruct N2 as [N2 _].
    rewrite recolor_root in Hfin; [exact Hfin| |exact N2]. intros Hc. apply (D _ Hc). left. reflexivity.
Qed.

Theorem tree_insert_refines t T b :
  rep (heap t) (root t) T -> NoDup (bids T) -> (forall i, In i (bids T) -> 1 < i /\ i <> node) -> 1 < node ->
  bbh T = Some b -> bred T = false -> (2 * bheight T + 1 < 200)%nat ->
  let t' := tree_insert t node kn in
  exists R, rep (heap t') (root t') R /\ bred R = false /\ (bbh R = Some b \/ bbh R = Some (b + 1)) /\
    (sortedb (bkeys T) = true -> ~ In kn (bkeys T) ->
       sortedb (bkeys R) = true /\ exists L Rr, bkeys T = L ++ Rr /\ bkeys R = L ++ kn :: Rr) /\
    (exists L Rr, bids T = L ++ Rr /\ bids R = L ++ node :: Rr) /\
    (forall i, ~ In i (bids T) -> i <> HEAD -> i <> node -> hget (heap t') i = hget (heap t) i).
Proof. exact (tree_insert_refines_f 200 t T b). Qed.


(* ------------------------------------------------------------------ the same in terms of the reading functions of the model *)
Lemma bbh_le_height t : forall b, bbh t = Some b -> b <= Z.of_nat (bheight t) + 1.
Proof.
  induction t as [|l IHl id red k r IHr]; intros b H; cbn [bbh bheight] in *.
  - inversion H; subst. lia.
  - destruct (bbh l) as [a|]; [|discriminate]. destruct (bbh r) as [c|]; [|discriminate].
    destruct (negb (a =? c)); [discriminate|]. destruct (red && (bred l || bred r)); [discriminate|].
    specialize (IHl a eq_refl). inversion H; subst. destruct red; lia.
Qed.

Lemma ids_nonzero_of t : (forall i, In i (bids t) -> i <> 0) -> ids_nonzero t = true.
Proof.
  induction t as [|l IHl id red k r IHr]; intros H; cbn [ids_nonzero]; [reflexivity|]. cbn [bids] in H.
  rewrite IHl by (intros i Hi; apply H; apply in_or_app; left; exact Hi).
  rewrite IHr by (intros i Hi; apply H; apply in_or_app; right; right; exact Hi).
  destruct (Z.eqb_spec id 0) as [E|E]; [exfalso; apply (H id); [apply in_or_app; right; left; reflexivity|exact E]|reflexivity].
Qed.

Theorem tree_insert_unbounded t T b :
  rep (heap t) (root t) T -> NoDup (bids T) -> (forall i, In i (bids T) -> 1 < i /\ i <> node) -> 1 < node ->
  bbh T = Some b -> bred T = false -> sortedb (bkeys T) = true -> ~ In kn (bkeys T) -> (bheight T < 98)%nat ->
  let t' := tree_insert t node kn in
  exists R b', rep (heap t') (root t') R /\
    (* red-black rules *)
    bred R = false /\ bbh R = Some b' /\ Z.of_nat (bheight R) <= 2 * (b' - 1) /\
    (* set semantics *)
    tree_keys t = bkeys T /\ tree_keys t' = bkeys R /\ sortedb (tree_keys t') = true /\
    (exists L Rr, tree_keys t = L ++ Rr /\ tree_keys t' = L ++ kn :: Rr) /\
    (forall k, tree_get t' k <> 0 <-> k = kn \/ In k (tree_keys t)) /\
    NoDup (bids R) /\ (forall i, In i (bids R) <-> i = node \/ In i (bids T)).
Proof.
  intros Hr Hnd Hids Hn Hb Hred Hs Hnin Hh. cbn zeta.
  destruct (tree_insert_refines t T b Hr Hnd Hids Hn Hb Hred ltac:(lia)) as (R & HR & Hbr & Hbb & Hk & Hi & _). cbn zeta in HR.
  destruct (Hk Hs Hnin) as (HsR & L & Rr & E1 & E2). destruct Hi as (L' & Rr' & I1 & I2).
  assert (Hb' : exists b', bbh R = Some b' /\ b' <= b + 1) by (destruct Hbb as [H|H]; eexists; split; try exact H; lia).
  destruct Hb' as (b' & Hb' & Hle).
  destruct (bbh_height R b' Hb') as [_ HhR]. rewrite Hbr in HhR.
  pose proof (bbh_le_height T b Hb) as HbT.
  assert (HhR' : (bheight R < 200)%nat) by lia.
  assert (EkT : tree_keys t = bkeys T).
  { unfold tree_keys, tree_inorder. rewrite (inorder_rep 200 _ _ T Hr ltac:(lia)). apply bflat_keys. }
  assert (EkR : tree_keys (tree_insert t node kn) = bkeys R).
  { unfold tree_keys, tree_inorder. rewrite (inorder_rep 200 _ _ R HR HhR'). apply bflat_keys. }
  assert (Hin : forall i, In i (bids R) <-> i = node \/ In i (bids T)).
  { intros i. rewrite I1, I2, !in_app_iff. cbn [In]. intuition. }
  assert (Hnz : ids_nonzero R = true).
  { apply ids_nonzero_of. intros i Hi. apply Hin in Hi. destruct Hi as [->|Hi]; [lia|]. destruct (Hids i Hi). lia. }
  assert (Hget : forall k, tree_get (tree_insert t node kn) k = lookup R k) by (intros k; unfold tree_get; apply get_loop_rep; assumption).
  exists R, b'. split; [exact HR|]. split; [exact Hbr|]. split; [exact Hb'|]. split; [lia|]. split; [exact EkT|]. split; [exact EkR|].
  split; [rewrite EkR; exact HsR|]. split; [exists L, Rr; rewrite EkT, EkR; split; assumption|].
  split.
  { intros k. rewrite Hget, EkT, (lookup_member R k HsR Hnz), E1, E2, !in_app_iff. cbn [In]. intuition. }
  split; [rewrite I2; apply nodup_insert_mid; [rewrite <- I1; exact Hnd|]; rewrite <- I1; intros Hc; destruct (Hids _ Hc) as [_ Hc']; apply Hc'; reflexivity|exact Hin].
Qed.

(* no bound on the height: for every tree there is a fuel, and every larger fuel gives the same statement (the C++ loops have
   no fuel); the reading loops likewise *)
Theorem tree_insert_any_height fuel t T b :
  rep (heap t) (root t) T -> NoDup (bids T) -> (forall i, In i (bids T) -> 1 < i /\ i <> node) -> 1 < node ->
  bbh T = Some b -> bred T = false -> sortedb (bkeys T) = true -> ~ In kn (bkeys T) -> (2 * bheight T + 1 < fuel)%nat ->
  let t' := tree_insert_f fuel t node kn in
  exists R b', rep (heap t') (root t') R /\
    bred R = false /\ bbh R = Some b' /\ Z.of_nat (bheight R) <= 2 * (b' - 1) /\
    sortedb (bkeys R) = true /\ (exists L Rr, bkeys T = L ++ Rr /\ bkeys R = L ++ kn :: Rr) /\
    (forall k, lookup R k <> 0 <-> k = kn \/ In k (bkeys T)) /\
    (forall f', (bheight R < f')%nat ->
       (forall k, get_loop f' (heap t') (root t') k = lookup R k) /\ inorder f' (heap t') (root t') = bflat R) /\
    NoDup (bids R) /\ (forall i, In i (bids R) <-> i = node \/ In i (bids T)) /\
    (* nothing else in the heap is touched *)
    (forall i, ~ In i (bids T) -> i <> HEAD -> i <> node -> hget (heap t') i = hget (heap t) i).
Proof.
  intros Hr Hnd Hids Hn Hb Hred Hs Hnin Hh. cbn zeta.
  destruct (tree_insert_refines_f fuel t T b Hr Hnd Hids Hn Hb Hred Hh) as (R & HR & Hbr & Hbb & Hk & Hi & Hframe). cbn zeta in HR, Hframe.
  destruct (Hk Hs Hnin) as (HsR & L & Rr & E1 & E2). destruct Hi as (L' & Rr' & I1 & I2).
  assert (Hb' : exists b', bbh R = Some b') by (destruct Hbb as [H|H]; eauto). destruct Hb' as (b' & Hb').
  destruct (bbh_height R b' Hb') as [_ HhR]. rewrite Hbr in HhR.
  assert (Hin : forall i, In i (bids R) <-> i = node \/ In i (bids T)).
  { intros i. rewrite I1, I2, !in_app_iff. cbn [In]. intuition. }
  assert (Hnz : ids_nonzero R = true).
  { apply ids_nonzero_of. intros i Hi. apply Hin in Hi. destruct Hi as [->|Hi]; [lia|]. destruct (Hids i Hi). lia. }
  exists R, b'. split; [exact HR|]. split; [exact Hbr|]. split; [exact Hb'|]. split; [lia|]. split; [exact HsR|].
  split; [exists L, Rr; split; assumption|]. split.
  { intros k. rewrite (lookup_member R k HsR Hnz), E1, E2, !in_app_iff. cbn [In]. intuition. }
  split.
  { intros f' Hf'. split; [intros k; apply get_loop_rep; assumption|apply inorder_rep; assumption]. }
  split; [rewrite I2; apply nodup_insert_mid; [rewrite <- I1; exact Hnd|]; rewrite <- I1; intros Hc; destruct (Hids _ Hc) as [_ Hc']; apply Hc'; reflexivity|].
  split; [exact Hin|exact Hframe].
Qed.
End Refine.

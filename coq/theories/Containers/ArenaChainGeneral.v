(* C18 (5) — the scan loop of Arena::_alloc_oneshot at POINTER level (ArenaChainModel.scan_fixed: ids with a `next` field,
   released blocks leave the heap) computes the list-level scan of ArenaModel (`list_scan` = scan_next) for chains of ANY
   length: it returns the first following block that is large enough, `cur->next` points to it, the chain from there on is
   untouched, and no released block is dereferenced (the result is never the poison value -1). *)
From Coq Require Import ZArith List Bool Lia.
From Verif Require Import Containers.ArenaChainModel.
Import ListNotations.
Local Open Scope Z_scope.

(* the blocks l = [(id, size); ...] are linked from `id0` on; the last one has next = 0 *)
Fixpoint chain_at (h : cheap) (id0 : Z) (l : list (Z * Z)) : Prop :=
  match l with
  | [] => id0 = 0
  | (id, s) :: r => id0 = id /\ id <> 0 /\ exists nx, cfind h id = Some (mkcb id nx s) /\ chain_at h nx r
  end.

Lemma cfind_cset_same h : forall id nx b, cfind h id = Some b -> cfind (cset_next h id nx) id = Some (mkcb id nx (cb_size b)).
Proof.
  induction h as [|x h IH]; intros id nx b H; cbn [cfind cset_next] in *; [discriminate|].
  destruct (Z.eqb_spec (cb_id x) id) as [E|E].
  - inversion H; subst. cbn [cfind cb_id]. rewrite Z.eqb_refl. reflexivity.
  - cbn [cfind]. destruct (Z.eqb_spec (cb_id x) id); [contradiction|]. apply IH. exact H.
Qed.

Lemma cfind_cset_other h : forall id nx i, i <> id -> cfind (cset_next h id nx) i = cfind h i.
Proof.
  induction h as [|x h IH]; intros id nx i Hne; cbn [cfind cset_next]; [reflexivity|].
  destruct (Z.eqb_spec (cb_id x) id) as [E|E]; cbn [cfind cb_id].
  - destruct (Z.eqb_spec id i); [congruence|]. destruct (Z.eqb_spec (cb_id x) i); [congruence|]. reflexivity.
  - destruct (cb_id x =? i); [reflexivity|]. apply IH. exact Hne.
Qed.

Lemma cfind_cfree_other h : forall id i, i <> id -> cfind (cfree h id) i = cfind h i.
Proof.
  induction h as [|x h IH]; intros id i Hne; cbn [cfind cfree]; [reflexivity|].
  destruct (Z.eqb_spec (cb_id x) id) as [E|E]; cbn [cfind].
  - destruct (Z.eqb_spec (cb_id x) i); [congruence|]. reflexivity.
  - destruct (cb_id x =? i); [reflexivity|]. apply IH. exact Hne.
Qed.

Lemma chain_at_frame h h' : forall l id0, (forall i, In i (map fst l) -> cfind h' i = cfind h i) -> chain_at h id0 l -> chain_at h' id0 l.
Proof.
  induction l as [|[id s] r IH]; intros id0 Hs Hc; cbn [chain_at] in *; [exact Hc|].
  destruct Hc as (-> & Hn & nx & Hf & Hr). split; [reflexivity|]. split; [exact Hn|]. exists nx. split.
  - rewrite Hs; [exact Hf|left; reflexivity].
  - apply IH; [|exact Hr]. intros i Hi. apply Hs. right. exact Hi.
Qed.

Theorem scan_fixed_general : forall l fuel h cur next size csz,
  (length l < fuel)%nat -> chain_at h next l -> cfind h cur = Some (mkcb cur next csz) -> cur <> 0 ->
  ~ In cur (map fst l) -> NoDup (map fst l) ->
  let '(h', found) := scan_fixed fuel h cur next size in
  match list_scan size l with
  | [] => found = 0 /\ cfind h' cur = Some (mkcb cur 0 csz)
  | (id, s) :: r => found = id /\ size <= s /\ chain_at h' id ((id, s) :: r) /\ cfind h' cur = Some (mkcb cur id csz)
  end.
Proof.
  induction l as [|[id s] r IH]; intros fuel h cur next size csz Hf Hc Hcur Hc0 Hni Hnd; destruct fuel as [|fu]; cbn [length] in Hf; try lia.
  - cbn [chain_at] in Hc. subst next. cbn [scan_fixed list_scan Z.eqb]. split; [reflexivity|exact Hcur].
  - cbn [chain_at] in Hc. destruct Hc as (-> & Hid & nx & Hfd & Hr). cbn [scan_fixed list_scan].
    destruct (Z.eqb_spec id 0); [contradiction|]. rewrite Hfd. cbn [cb_size cb_next].
    destruct (Z.leb_spec size s) as [Hle|Hgt].
    + split; [reflexivity|]. split; [exact Hle|]. split; [|exact Hcur]. cbn [chain_at]. split; [reflexivity|]. split; [exact Hid|]. exists nx. split; assumption.
    + cbn [map fst] in Hni, Hnd. apply NoDup_cons_iff in Hnd. destruct Hnd as [Hid_r Hnd].
      assert (Hci : cur <> id) by (intros E; apply Hni; left; symmetry; exact E).
      set (h1 := cset_next h cur nx). set (h2 := cfree h1 id).
      assert (Hcur2 : cfind h2 cur = Some (mkcb cur nx csz)).
      { unfold h2. rewrite cfind_cfree_other by exact Hci. unfold h1. rewrite (cfind_cset_same h cur nx _ Hcur). reflexivity. }
      assert (Hr2 : chain_at h2 nx r).
      { apply (chain_at_frame h h2); [|exact Hr]. intros i Hi. unfold h2, h1.
        rewrite cfind_cfree_other by (intros E; apply Hid_r; rewrite <- E; exact Hi).
        apply cfind_cset_other. intros E. apply Hni. right. rewrite <- E. exact Hi. }
      apply (IH fu h2 cur nx size csz ltac:(lia) Hr2 Hcur2 Hc0); [intros Hi; apply Hni; right; exact Hi|exact Hnd].
Qed.

(* C06 — Arguments and return values follow the target calling convention.
   This file holds ONLY the property theorems (each closed by `exact <lemma>`) and their Print Assumptions.
   Model of the code: CallConv/FuncDetailModel.v; specification (ABI documents): CallConv/Abi.v; what "agrees" means:
   CallConv/AbiLink.v; parallel-move validator: CallConv/ShuffleModel.v. *)
From Coq Require Import ZArith List Bool.
Import ListNotations.
From Verif Require Import CallConv.FuncDetailModel CallConv.Abi CallConv.AbiLink CallConv.AbiProofs
  CallConv.ShuffleModel CallConv.ShuffleProofs CallConv.ShuffleFindings CallConv.ShuffleBytesModel CallConv.ShuffleBytesProofs CallConv.SolverModel CallConv.SolverProofs CallConv.SolverFullModel CallConv.SolverFullProofs CallConv.SolverFullProofs2 CallConv.SolverFullProofs3 CallConv.SolverFullProofs4 CallConv.SolverFullProofs5 CallConv.SolverFullProofs6 CallConv.SolverFullProofs7 CallConv.SolverFullProofs8 CallConv.SolverFullProofs9 CallConv.DecodeModel CallConv.DecodeSpec CallConv.DecodeProofs CallConv.DecodeSpecVec CallConv.DecodeVecProofs CallConv.DecodeComplete CallConv.AbiVariadic CallConv.AbiWfProofs.
From VerifGen Require C06Tables.
Local Open Scope Z_scope.

(* Part A.  For every target environment e and signature s (any CallConvId, any var-arg index, any return type, up to 32
   arguments of any TypeId) whose (target, convention) pair denotes one of SysV x86-64, Win64, cdecl / stdcall / fastcall (32-bit),
   AAPCS64, Apple arm64 - and since round 2 x64 __vectorcall, __thiscall and GNU regparm(1..3): if the guard holds (the signature uses C types the ABI defines and avoids the recorded deviations, each
   clause of Abi.abi_guard names its DESIGN section-7 item) then FuncDetail::init succeeds and every argument location
   (register type + id or stack offset, by value / by reference), every return location, the size of the stack argument area and
   the constants of the convention (red zone, shadow space, natural alignment, callee-pops, preserved sets, register orders)
   are those of the ABI. *)
Theorem C06_assign_matches_abi : forall e s a,
  abi_of_env e (s_cc s) = Some a -> (length (s_args s) <= 32)%nat ->
  abi_guard a (sig_has_va s) (s_ret s) (s_args s) = true ->
  exists d, func_detail_init e s = R_ok d /\
    map (map loc_of) (fd_args d) = an_args (abi_spec a (sig_has_va s) (s_ret s) (s_args s)) /\
    map loc_of (fd_rets d) = an_rets (abi_spec a (sig_has_va s) (s_ret s) (s_args s)) /\
    fd_stack d = an_stack (abi_spec a (sig_has_va s) (s_ret s) (s_args s)) /\
    consts_of (fd_cc d) = abi_consts a.
Proof. exact assign_matches_abi. Qed.
Print Assumptions C06_assign_matches_abi.

(* the hypotheses are satisfiable (signatures with register exhaustion and stack arguments on every covered family) *)
Theorem C06_guard_satisfiable :
  (abi_of_env (mkEnv X64 0 0) 0 = Some SysV64 /\
   abi_guard SysV64 false 38 [38; 43; 75; 40; 34; 35; 36; 37; 41; 43; 43; 43; 43; 43; 43; 43; 43; 40; 43; 40; 79; 38] = true) /\
  (abi_of_env (mkEnv X64 1 1) 0 = Some Win64 /\ abi_guard Win64 true 43 [38; 43; 40; 42; 75; 50; 34; 43; 85] = true /\
   abi_of_env (mkEnv X64 0 0) 3 = Some Vectorcall64 /\ abi_guard Vectorcall64 false 79 [38; 43; 38; 79; 38; 85; 38; 79; 43; 99] = true) /\
  (abi_of_env (mkEnv X86 0 0) 2 = Some Fastcall32 /\ abi_guard Fastcall32 false 40 [38; 34; 40; 43; 42; 75; 75; 75; 38] = true /\
   abi_guard Cdecl32 true 43 [38; 40; 43; 41; 36] = true) /\
  (abi_of_env (mkEnv A64 2 2) 0 = Some Apple64 /\
   abi_guard Apple64 false 42 [38; 38; 38; 38; 38; 38; 38; 38; 38; 39; 40; 42; 43; 75; 66] = true /\
   abi_guard Aapcs64 true 75 [34; 38; 38; 38; 38; 38; 38; 38; 38; 34; 40; 40; 42; 43; 75; 66; 75; 75; 75; 75; 75; 75; 75] = true).
Proof. exact (conj guard_satisfiable_sysv (conj guard_satisfiable_win64 (conj guard_satisfiable_i386 guard_satisfiable_a64))). Qed.
Print Assumptions C06_guard_satisfiable.

Theorem C06_guard_satisfiable_regparm :
  abi_of_env (mkEnv X86 0 0) 7 = Some (Regparm32 3) /\ abi_guard (Regparm32 3) false 40 [38; 40; 38; 75; 43] = true /\
  abi_guard (Regparm32 2) false 38 [40; 38; 40] = true /\ abi_guard (Regparm32 1) false 0 [36; 40; 38] = true.
Proof. exact guard_satisfiable_regparm. Qed.
Print Assumptions C06_guard_satisfiable_regparm.

(* constants of every (target, CallConvId) pair that denotes a covered ABI, unconditionally *)
Theorem C06_callconv_constants : forall e ccid a, abi_of_env e ccid = Some a ->
  exists c, init_call_conv e ccid = inl c /\ consts_of c = abi_consts a.
Proof. exact callconv_constants. Qed.
Print Assumptions C06_callconv_constants.

(* no register is ever assigned to arguments 16..31 of the positional conventions, whatever the convention record contains
   (the repaired look-up of DESIGN 7.4 / fixes/C06-win64-oob.patch; the pinned code returned GP ids 0..3 there) *)
Theorem C06_win64_no_reg_beyond_16 : forall c ts i, 16 <= i ->
  Forall (fun v => fv_kind v <> 1) (concat (win64_args c i ts)).
Proof. exact win64_no_reg_beyond_16. Qed.
Print Assumptions C06_win64_no_reg_beyond_16.

(* Convention-independent well-formedness (round 3; unconditional since round 4): for EVERY environment, EVERY CallConvId (light-call, 32-bit
   vectorcall, regparm, ... included) and EVERY signature FuncDetail::init accepts: no two argument values share a register, the stack
   slots of the stack-passed values are disjoint and in argument order, and all lie inside arg_stack_size.  (Round 3 needed a guard: the
   Win64 / x64-vectorcall strategy put a 10-byte kFloat80 into an 8-byte home slot; the model now describes the code with
   fixes/C06-win64-f80-by-ref.patch, where it is passed by reference.) *)
Theorem C06_locations_disjoint : forall e s d, func_detail_init e s = R_ok d ->
  NoDup (map reg_key (reg_vals d)) /\
  (forall i j v w, (i < j)%nat -> nth_error (stack_vals d) i = Some v -> nth_error (stack_vals d) j = Some w ->
     fv_off v + val_bytes (cc_arch (fd_cc d)) v <= fv_off w) /\
  (forall v, In v (stack_vals d) -> 0 <= fv_off v /\ fv_off v + val_bytes (cc_arch (fd_cc d)) v <= fd_stack d).
Proof. exact locations_disjoint. Qed.
Print Assumptions C06_locations_disjoint.

(* Part B.  The validator applied to every emitted argument shuffle is sound: if it accepts (moves, clobberable locations,
   instruction list) then, from EVERY initial machine state, every destination ends up holding its argument's value, sign- or
   zero-extended by the source type when both are integers and the destination is wider, whatever cycles and overlaps exist;
   and nothing outside the clobberable set and the destinations changes. *)
Theorem C06_shuffle_sound : forall mvs allowed ms, validate mvs allowed ms = true ->
  forall st0, (forall l, 0 <= st0 l) ->
  forall mv, In mv mvs -> dst_ok mv (st0 (m_src mv)) (exec ms st0 (m_dst mv)).
Proof. exact validate_sound. Qed.
Print Assumptions C06_shuffle_sound.

Theorem C06_shuffle_frame : forall mvs allowed ms, validate mvs allowed ms = true ->
  forall st0 l, ~ In l allowed -> (forall mv, In mv mvs -> m_dst mv <> l) -> exec ms st0 l = st0 l.
Proof. exact validate_frame. Qed.
Print Assumptions C06_shuffle_frame.

(* The same at BYTE level: registers plus a byte-addressed little-endian memory per stack area (incoming arguments / SP-based
   destinations).  `validate_bytes` = `validate` + the cells named by the moves themselves take part in the range check + no access
   wider than 64 bytes.  If it accepts, every destination - read back as bytes - holds its argument's value (read as bytes from
   the initial memory), extended as required; and no byte outside the stored ranges changes.  This replaces the informal argument
   "cells behave like memory when ranges with different start addresses are disjoint". *)
Theorem C06_shuffle_sound_bytes : forall mvs allowed ms, validate_bytes mvs allowed ms = true ->
  forall b0 : bstate, forall mv, In mv mvs ->
  dst_ok mv (bread b0 (m_src mv) (m_sbits mv)) (bread (bexec ms b0) (m_dst mv) (m_dbits mv)).
Proof. exact validate_bytes_sound. Qed.
Print Assumptions C06_shuffle_sound_bytes.

Theorem C06_shuffle_frame_bytes : forall mvs allowed ms, validate_bytes mvs allowed ms = true ->
  forall b0 a x, (forall o bits, In (a, o, bits) (store_accesses ms) -> ~ (o <= x < o + bits / 8)) ->
  b_mem (bexec ms b0) a x = b_mem b0 a x.
Proof. exact validate_bytes_frame_mem. Qed.
Print Assumptions C06_shuffle_frame_bytes.

(* Part B, the SOLVER itself (round 3).  SolverModel.solve is an executable model of the parallel-move solver of emit_args_assignment
   (register-to-register fragment of one GP group: x86-64 with xchg, AArch64 with a scratch register; integer types of 1/2/4/8 bytes with
   widening / narrowing destination types); the check compares its instruction list with the implementation's on every generated
   assignment of the fragment.  For EVERY well-formed assignment (distinct source registers, distinct destination registers): whatever the
   solver emits is correct from every initial machine state, touches only destinations and work registers, the loop terminates, and on
   x86-64 (resp. on AArch64 when a work register that is no destination exists) it never refuses. *)
Theorem C06_solver_correct : forall t work vs0 ms, wf_input work vs0 -> solve t work vs0 = SOk ms ->
  forall st0 v0, In v0 vs0 -> dst_ok (move_of v0) (st0 (greg (v_cur v0))) (exec ms st0 (greg (v_out v0))).
Proof. exact solve_correct. Qed.
Print Assumptions C06_solver_correct.

Theorem C06_solver_frame : forall t work vs0 ms, wf_input work vs0 -> solve t work vs0 = SOk ms ->
  forall st0 l, (forall v0, In v0 vs0 -> l <> greg (v_out v0)) -> (forall r, In r work -> l <> greg r) -> exec ms st0 l = st0 l.
Proof. exact solve_frame. Qed.
Print Assumptions C06_solver_frame.

Theorem C06_solver_terminates : forall t work vs0, wf_input work vs0 -> solve t work vs0 <> SFuel.
Proof. exact solve_terminates. Qed.
Print Assumptions C06_solver_terminates.

Theorem C06_solver_x64_total : forall work vs0, wf_input work vs0 -> exists ms, solve TX64 work vs0 = SOk ms.
Proof. exact solve_x64_ok. Qed.
Print Assumptions C06_solver_x64_total.

Theorem C06_solver_a64_total : forall work vs0, wf_input work vs0 -> (exists r, In r work /\ ~ In r (map v_out vs0)) ->
  exists ms, solve TA64 work vs0 = SOk ms.
Proof. exact solve_a64_ok. Qed.
Print Assumptions C06_solver_a64_total.

(* Apple arm64 variadic calls: the variadic arguments go to the stack (8-byte slots); the pinned code ignores the var-arg index *)
Theorem C06_apple_variadic_refuted :
  exists d, func_detail_init (mkEnv A64 2 2) (mkSig 0 2 0 [38; 38; 40; 40]) = R_ok d /\
    map (map loc_of) (fd_args d) <> fst (apple_variadic_spec 2 [38; 38; 40; 40]) /\ fd_stack d <> snd (apple_variadic_spec 2 [38; 38; 40; 40]).
Proof. exact apple_variadic_refuted. Qed.
Print Assumptions C06_apple_variadic_refuted.

(* the validator accepts real shuffles (2-cycle by xchg, 3-cycle through a scratch register, load with sign extension) *)
Theorem C06_validator_accepts :
  validate [ {| m_src := Reg 0 7; m_dst := Reg 0 6; m_sbits := 64; m_ssigned := true; m_dbits := 64; m_int := true |};
             {| m_src := Reg 0 6; m_dst := Reg 0 7; m_sbits := 64; m_ssigned := true; m_dbits := 64; m_int := true |} ]
           [] [IXchg (Reg 0 7) (Reg 0 6) 64 64] = true.
Proof. exact ex1_xchg64. Qed.
Print Assumptions C06_validator_accepts.

(* KNOWN FINDINGS of the pinned tree, as theorems about the faithful model *)
Theorem C06_sysv_stack_float_refuted : deviates (mkEnv X64 0 0) (mkSig 0 255 0 [43;43;43;43;43;43;43;43;42;42]) SysV64.
Proof. exact sysv_stack_float_refuted. Qed.
Print Assumptions C06_sysv_stack_float_refuted.
Theorem C06_sysv_stack_vector_unaligned_refuted :
  deviates (mkEnv X64 0 0) (mkSig 0 255 0 [40;40;40;40;40;40;40;75;75;75;75;75;75;75;75;75]) SysV64.
Proof. exact sysv_stack_vector_unaligned_refuted. Qed.
Print Assumptions C06_sysv_stack_vector_unaligned_refuted.
Theorem C06_sysv_mmx_mask_f80_refuted :
  deviates (mkEnv X64 0 0) (mkSig 0 255 0 [50]) SysV64 /\ deviates (mkEnv X64 0 0) (mkSig 0 255 0 [46]) SysV64 /\
  deviates (mkEnv X64 0 0) (mkSig 0 255 0 [44]) SysV64.
Proof. exact sysv_mmx_mask_f80_refuted. Qed.
Print Assumptions C06_sysv_mmx_mask_f80_refuted.
Theorem C06_a64_stack_vector_unaligned_refuted :
  deviates (mkEnv A64 0 0) (mkSig 0 255 0 [40;40;40;40;40;40;40;40;40;75;75;75;75;75;75;75;75;75]) Aapcs64 /\
  deviates (mkEnv A64 2 2) (mkSig 0 255 0 [40;40;40;40;40;40;40;40;40;75;75;75;75;75;75;75;75;75]) Apple64.
Proof. exact a64_stack_vector_unaligned_refuted. Qed.
Print Assumptions C06_a64_stack_vector_unaligned_refuted.
Theorem C06_apple_stack_subword_refuted : deviates (mkEnv A64 2 2) (mkSig 0 255 0 [40;40;40;40;40;40;40;40;34;34]) Apple64.
Proof. exact apple_stack_subword_refuted. Qed.
Print Assumptions C06_apple_stack_subword_refuted.
Theorem C06_win64_mask_refuted : deviates (mkEnv X64 1 1) (mkSig 0 255 0 [46]) Win64.
Proof. exact win64_mask_refuted. Qed.
Print Assumptions C06_win64_mask_refuted.
Theorem C06_fastcall_int64_split_refuted :
  deviates (mkEnv X86 1 1) (mkSig 2 255 0 [40]) Fastcall32 /\ deviates (mkEnv X86 1 1) (mkSig 2 255 0 [34; 40]) Fastcall32.
Proof. exact fastcall_int64_split_refuted. Qed.
Print Assumptions C06_fastcall_int64_split_refuted.
(* GNU regparm: a 64-bit integer is never split between the last register and the stack (GCC, clang -mregparm) *)
Theorem C06_regparm_int64_split_refuted :
  deviates (mkEnv X86 0 0) (mkSig 7 255 0 [38; 38; 40]) (Regparm32 3) /\ deviates (mkEnv X86 0 0) (mkSig 5 255 0 [40]) (Regparm32 1).
Proof. exact regparm_int64_split_refuted. Qed.
Print Assumptions C06_regparm_int64_split_refuted.
Theorem C06_i386_long_double_slot_refuted : deviates (mkEnv X86 0 0) (mkSig 0 255 0 [44; 38]) Cdecl32.
Proof. exact i386_long_double_slot_refuted. Qed.
Print Assumptions C06_i386_long_double_slot_refuted.
Theorem C06_i386_stack_vector_unaligned_refuted : deviates (mkEnv X86 0 0) (mkSig 0 255 0 [38; 75; 75; 75; 75]) Cdecl32.
Proof. exact i386_stack_vector_unaligned_refuted. Qed.
Print Assumptions C06_i386_stack_vector_unaligned_refuted.
Theorem C06_sysv_mask_return_refuted : deviates (mkEnv X64 0 0) (mkSig 0 255 46 []) SysV64.
Proof. exact sysv_mask_return_refuted. Qed.
Print Assumptions C06_sysv_mask_return_refuted.
(* DESIGN 7.19: a lone `xchg esi, edi` for (int8 -> esi : int32, int32 -> edi) leaves a wrong value under the machine semantics *)
Theorem C06_swap_drops_extension_refuted :
  exists st0, ~ dst_ok mv_7_19 (st0 (m_src mv_7_19)) (exec [IXchg (Reg 0 6) (Reg 0 7) 32 64] st0 (m_dst mv_7_19)).
Proof. exact swap_drops_extension_refuted. Qed.
Print Assumptions C06_swap_drops_extension_refuted.

(* Round 4 (a).  The WHOLE of emit_args_assignment (SolverFullModel.fsolve: stack-destination phase with in-place widening and GP scratch,
   the register shuffle over the GP and the vector group under shared flags, the final stack loads), for every well-formed assignment
   (fwf_inputb: integers of 1/2/4/8 bytes in GP registers or stack slots, scalar floats / 64 / 128-bit vectors of unchanged size in vector
   registers or stack slots, distinct sources, distinct destinations) and EVERY initial machine state: whenever the function succeeds, every
   destination (register or SP-based slot) holds its argument converted as required; nothing outside the destinations and the work
   registers changes, in particular no incoming stack argument; the pass loop terminates within the model's fuel; it succeeds whenever a
   free GP work register exists for stack-to-stack moves and every swap-less group that has register destinations has a work register
   that is not a destination.  On the one-group register fragment the model coincides with SolverModel.solve.  The model is tied to the
   implementation by exact instruction-list equality on every generated assignment of the fragment (check stage part_B_solver_full). *)
Theorem C06_full_solver_correct : forall a wgp wvec vs0 ms, fwf_inputb wgp wvec vs0 = true -> farch_okb a vs0 = true -> fsolve a wgp wvec vs0 = SOk ms ->
  forall st0 v0, In v0 vs0 -> dst_ok (fmove_of v0) (st0 (f_cur v0)) (exec ms st0 (f_out v0)).
Proof. exact fsolve_correct. Qed.
Print Assumptions C06_full_solver_correct.
Theorem C06_full_solver_frame : forall a wgp wvec vs0 ms, fwf_inputb wgp wvec vs0 = true -> farch_okb a vs0 = true -> fsolve a wgp wvec vs0 = SOk ms ->
  forall st0 l, ~ In l (map f_out vs0) -> ~ In l (map (Reg 0) wgp) -> ~ In l (map (Reg 1) wvec) -> exec ms st0 l = st0 l.
Proof. exact fsolve_frame. Qed.
Print Assumptions C06_full_solver_frame.
Theorem C06_full_solver_keeps_incoming : forall a wgp wvec vs0 ms, fwf_inputb wgp wvec vs0 = true -> farch_okb a vs0 = true -> fsolve a wgp wvec vs0 = SOk ms ->
  forall st0 off, exec ms st0 (Mem 0 off) = st0 (Mem 0 off).
Proof. exact fsolve_keeps_incoming. Qed.
Print Assumptions C06_full_solver_keeps_incoming.
Theorem C06_full_solver_terminates : forall a wgp wvec vs0, fwf_inputb wgp wvec vs0 = true -> farch_okb a vs0 = true -> fsolve a wgp wvec vs0 <> SFuel.
Proof. exact fsolve_terminates. Qed.
Print Assumptions C06_full_solver_terminates.
Theorem C06_full_solver_total : forall a wgp wvec vs0, fwf_inputb wgp wvec vs0 = true -> farch_okb a vs0 = true ->
  ((exists v, In v vs0 /\ is_regl (f_cur v) = false /\ is_regl (f_out v) = false) ->
   exists r, In r wgp /\ ~ In (Reg 0 r) (map f_cur vs0)) ->
  (forall g, (g = 0 \/ g = 1) -> grp_swap a g = false -> (exists v o, In v vs0 /\ f_out v = Reg g o) ->
   exists r, In r (work_of wgp wvec g) /\ ~ In (Reg g r) (map f_out vs0)) ->
  fsolve a wgp wvec vs0 <> SErr.
Proof. exact fsolve_no_error. Qed.
Print Assumptions C06_full_solver_total.
Theorem C06_full_solver_agrees : forall t wgp wvec vs, fsolve (arch_of t) wgp wvec (map emb vs) = solve t wgp vs.
Proof. exact fsolve_agrees. Qed.
Print Assumptions C06_full_solver_agrees.

(* Round 5.  Four targets: x86-64, x86-64 with AVX (VEX encodings, YMM / ZMM), 32-bit x86 (no 8-bit view of ESI / EDI: a byte store from
   them is 32 bits wide), AArch64; farch_okb is what the target adds to fwf_inputb (32-bit: integers up to 4 bytes; 32 / 64-byte vectors
   only with AVX).  Non-vacuity: executed examples of every target whose outputs the validator accepts.
   C06_full_solver_spec is the statement at full strength: every emitted instruction is well-formed, every destination is right, nothing
   else changes. *)
Theorem C06_full_solver_spec : forall a wgp wvec vs0 ms, fwf_inputb wgp wvec vs0 = true -> farch_okb a vs0 = true -> fsolve a wgp wvec vs0 = SOk ms ->
  forallb wf_inst ms = true /\
  forall st0,
    (forall v0, In v0 vs0 -> dst_ok (fmove_of v0) (st0 (f_cur v0)) (exec ms st0 (f_out v0))) /\
    (forall l, ~ In l (map f_out vs0) -> ~ In l (map (Reg 0) wgp) -> ~ In l (map (Reg 1) wvec) -> exec ms st0 l = st0 l) /\
    (forall off, exec ms st0 (Mem 0 off) = st0 (Mem 0 off)).
Proof. exact fsolve_spec. Qed.
Print Assumptions C06_full_solver_spec.
(* byte level, as theorems about the function rather than per emitted sequence: every memory write of a successful run is a store from a
   register to the destination slot of one variable that replaces exactly the bytes of its destination type (32-bit x86: a byte held in
   ESI / EDI / EBP / ESP is stored 32 bits wide - the recorded store-wider-than-slot shape); hence, when the destination slots of the
   assignment are pairwise disjoint byte ranges, no two stores to different slots overlap *)
Theorem C06_full_solver_stores_exact : forall a wgp wvec vs0 ms, fwf_inputb wgp wvec vs0 = true -> farch_okb a vs0 = true -> fsolve a wgp wvec vs0 = SOk ms ->
  forall i, In i ms -> store_exact a vs0 i.
Proof. exact fsolve_stores_exact. Qed.
Print Assumptions C06_full_solver_stores_exact.
Theorem C06_full_solver_stores_disjoint : forall a wgp wvec vs0 ms, fwf_inputb wgp wvec vs0 = true -> farch_okb a vs0 = true -> a <> FX86 ->
  fsolve a wgp wvec vs0 = SOk ms -> slots_disjoint vs0 ->
  forall a1 o1 s1 e1 n1 w1 z1 a2 o2 s2 e2 n2 w2 z2,
    In (IExt (Mem a1 o1) s1 e1 n1 w1 z1) ms -> In (IExt (Mem a2 o2) s2 e2 n2 w2 z2) ms -> o1 <> o2 ->
    8 * o1 + z1 <= 8 * o2 \/ 8 * o2 + z2 <= 8 * o1.
Proof. exact fsolve_stores_disjoint. Qed.
Print Assumptions C06_full_solver_stores_disjoint.
(* non-vacuity: the mixed example has two pairwise disjoint destination slots and two stores; the 32-bit x86 exception is real *)
Theorem C06_full_solver_stores_examples :
  (slots_disjointb ex_mixed = true /\
   match fsolve FX64 ex_wgp ex_wvec ex_mixed with
   | SOk ms => List.length (filter (fun i => match i with IExt (Mem _ _) _ _ _ _ _ => true | _ => false end) ms) = 2%nat
   | _ => False
   end) /\
  (match fsolve FX86 [1;2;6;7] [0;1] ex_x86 with
   | SOk ms => In (IExt (Mem 1 0) (Reg 0 6) EZ 32 32 32) ms
   | _ => False
   end /\ nth_error ex_x86 0 = Some (finit (Mem 0 4) 1 true (Mem 1 0) 1 true true)).
Proof. exact (conj ex_mixed_stores_disjoint ex_x86_wide_byte_store). Qed.
Print Assumptions C06_full_solver_stores_examples.
Theorem C06_full_solver_slots_disjointb_sound : forall vs, slots_disjointb vs = true -> slots_disjoint vs.
Proof. exact slots_disjointb_sound. Qed.
Print Assumptions C06_full_solver_slots_disjointb_sound.
(* Round 6.  The READ side and the validator's byte-range check, as theorems about the function: every instruction that reads memory reads
   the incoming slot of one original variable, into a register, a positive whole number of bytes and no more than the variable's source type
   has; hence (stores being exact too) when destination slots and incoming slots of the assignment are pairwise disjoint byte ranges
   (decidable slots_okb, a condition on the INPUT only) the byte-range check mem_ranges_ok of validate_bytes holds for the emitted sequence
   - it is discharged by proof instead of being evaluated per sequence.  Both side conditions are necessary (executed examples). *)
Theorem C06_full_solver_loads_exact : forall a wgp wvec vs0 ms, fwf_inputb wgp wvec vs0 = true -> farch_okb a vs0 = true -> fsolve a wgp wvec vs0 = SOk ms ->
  forall i, In i ms -> load_exact vs0 i.
Proof. exact fsolve_loads_exact. Qed.
Print Assumptions C06_full_solver_loads_exact.
Theorem C06_full_solver_loads_bytes : forall a wgp wvec vs0 ms, fwf_inputb wgp wvec vs0 = true -> farch_okb a vs0 = true -> fsolve a wgp wvec vs0 = SOk ms ->
  forall d ar off e n w wz, In (IExt d (Mem ar off) e n w wz) ms -> n mod 8 = 0.
Proof. exact fsolve_loads_bytes. Qed.
Print Assumptions C06_full_solver_loads_bytes.
Theorem C06_full_solver_mem_ranges_ok : forall a wgp wvec vs0 ms, fwf_inputb wgp wvec vs0 = true -> farch_okb a vs0 = true -> a <> FX86 ->
  fsolve a wgp wvec vs0 = SOk ms -> slots_okb vs0 = true -> mem_ranges_ok ms = true.
Proof. exact fsolve_mem_ranges_ok. Qed.
Print Assumptions C06_full_solver_mem_ranges_ok.
Theorem C06_full_solver_mem_ranges_example :
  slots_okb ex_mixed = true /\
  match fsolve FX64 ex_wgp ex_wvec ex_mixed, fsolve FA64 ex_wgp ex_wvec ex_mixed with
  | SOk m1, SOk m2 => mem_ranges_ok m1 = true /\ mem_ranges_ok m2 = true /\ accesses m1 = Some [(0, 8, 16); (1, 0, 32); (1, 8, 64); (0, 16, 32)]
  | _, _ => False
  end.
Proof. exact ex_mixed_mem_ranges_ok. Qed.
Print Assumptions C06_full_solver_mem_ranges_example.
Theorem C06_full_solver_mem_ranges_conditions_needed :
  (fwf_inputb [0; 1] [] ex_overlap_out = true /\ farch_okb FX64 ex_overlap_out = true /\ slots_okb ex_overlap_out = false /\
   match fsolve FX64 [0; 1] [] ex_overlap_out with SOk ms => mem_ranges_ok ms = false | _ => False end /\
   fwf_inputb [0; 1] [] ex_overlap_in = true /\ farch_okb FX64 ex_overlap_in = true /\ slots_okb ex_overlap_in = false /\
   match fsolve FX64 [0; 1] [] ex_overlap_in with SOk ms => mem_ranges_ok ms = false | _ => False end) /\
  (fwf_inputb [6; 7] [] ex_x86_adjacent = true /\ farch_okb FX86 ex_x86_adjacent = true /\ slots_okb ex_x86_adjacent = true /\
   match fsolve FX86 [6; 7] [] ex_x86_adjacent with SOk ms => mem_ranges_ok ms = false | _ => False end).
Proof. exact (conj ex_slots_needed ex_x86_needed). Qed.
Print Assumptions C06_full_solver_mem_ranges_conditions_needed.
(* Round 6.  The scratch-register conditions of C06_full_solver_total discharged by counting (pigeonhole): decidable counts over the input
   replace the existential hypotheses. *)
Theorem C06_full_solver_total_by_counting : forall a wgp wvec vs0, fwf_inputb wgp wvec vs0 = true -> farch_okb a vs0 = true ->
  NoDup wgp -> NoDup wvec ->
  (n_cur 0 vs0 < length wgp)%nat ->
  (forall g, (g = 0 \/ g = 1) -> grp_swap a g = false -> (n_out g vs0 < length (work_of wgp wvec g))%nat) ->
  exists ms, fsolve a wgp wvec vs0 = SOk ms.
Proof. exact fsolve_total_by_counting. Qed.
Print Assumptions C06_full_solver_total_by_counting.
Theorem C06_full_solver_total_by_counting_example : forall a, a = FX64 \/ a = FA64 -> exists ms, fsolve a ex_wgp ex_wvec ex_mixed = SOk ms.
Proof. exact ex_mixed_total_by_counting. Qed.
Print Assumptions C06_full_solver_total_by_counting_example.
(* Round 6.  COMPLETENESS of the verified validator on the solver's outputs: the symbolic-execution check accepts every destination of every
   successful run on all four targets (the abstract twin of C06_full_solver_correct), and with the four other conjuncts `validate` accepts the
   whole sequence - on the proved fragment the per-sequence validation is redundant (a <> FX86 and slots_okb are needed by the byte-range
   conjunct only). *)
Theorem C06_full_solver_sym_ok : forall a wgp wvec vs0 ms, fwf_inputb wgp wvec vs0 = true -> farch_okb a vs0 = true -> fsolve a wgp wvec vs0 = SOk ms ->
  forall v0, In v0 vs0 -> check_move (fmove_of v0) (alookup (sym_exec ms []) (f_out v0)) = true.
Proof. exact fsolve_sym_ok. Qed.
Print Assumptions C06_full_solver_sym_ok.
Theorem C06_full_solver_validates : forall a wgp wvec vs0 ms, fwf_inputb wgp wvec vs0 = true -> farch_okb a vs0 = true -> a <> FX86 ->
  slots_okb vs0 = true -> fsolve a wgp wvec vs0 = SOk ms -> validate (map fmove_of vs0) (fallowed_locs wgp wvec) ms = true.
Proof. exact fsolve_validates. Qed.
Print Assumptions C06_full_solver_validates.
Theorem C06_full_solver_validates_example :
  (exists ms, fsolve FX64 ex_wgp ex_wvec ex_mixed = SOk ms /\ validate (map fmove_of ex_mixed) (fallowed_locs ex_wgp ex_wvec) ms = true) /\
  (exists ms, fsolve FA64 ex_wgp ex_wvec ex_mixed = SOk ms /\ validate (map fmove_of ex_mixed) (fallowed_locs ex_wgp ex_wvec) ms = true).
Proof. exact ex_mixed_validates_both. Qed.
Print Assumptions C06_full_solver_validates_example.
(* Round 7.  The lift to BYTE-level semantics: the byte-level validator accepts every sequence the solver model emits, hence every successful
   run is correct under the machine semantics with byte-addressed little-endian stack areas, from every initial byte state, and a byte outside
   every stored range keeps its value (all targets but 32-bit x86, inputs whose slots are pairwise disjoint). *)
Theorem C06_full_solver_validates_bytes : forall a wgp wvec vs0 ms, fwf_inputb wgp wvec vs0 = true -> farch_okb a vs0 = true -> a <> FX86 ->
  slots_okb vs0 = true -> fsolve a wgp wvec vs0 = SOk ms ->
  validate_bytes (map fmove_of vs0) (fallowed_locs wgp wvec) ms = true.
Proof. exact fsolve_validates_bytes. Qed.
Print Assumptions C06_full_solver_validates_bytes.
Theorem C06_full_solver_correct_bytes : forall a wgp wvec vs0 ms, fwf_inputb wgp wvec vs0 = true -> farch_okb a vs0 = true -> a <> FX86 ->
  slots_okb vs0 = true -> fsolve a wgp wvec vs0 = SOk ms ->
  forall (b0 : bstate) v0, In v0 vs0 ->
  dst_ok (fmove_of v0) (bread b0 (f_cur v0) (8 * f_csz v0)) (bread (bexec ms b0) (f_out v0) (8 * f_osz v0)).
Proof. exact fsolve_correct_bytes. Qed.
Print Assumptions C06_full_solver_correct_bytes.
Theorem C06_full_solver_frame_bytes : forall a wgp wvec vs0 ms, fwf_inputb wgp wvec vs0 = true -> farch_okb a vs0 = true -> a <> FX86 ->
  slots_okb vs0 = true -> fsolve a wgp wvec vs0 = SOk ms ->
  forall b0 ar x, (forall o bits, In (ar, o, bits) (store_accesses ms) -> ~ (o <= x < o + bits / 8)) ->
  b_mem (bexec ms b0) ar x = b_mem b0 ar x.
Proof. exact fsolve_frame_bytes. Qed.
Print Assumptions C06_full_solver_frame_bytes.
Theorem C06_full_solver_correct_bytes_example : forall a, a = FX64 \/ a = FA64 -> forall ms, fsolve a ex_wgp ex_wvec ex_mixed = SOk ms ->
  validate_bytes (map fmove_of ex_mixed) (fallowed_locs ex_wgp ex_wvec) ms = true /\
  forall (b0 : bstate) v0, In v0 ex_mixed ->
    dst_ok (fmove_of v0) (bread b0 (f_cur v0) (8 * f_csz v0)) (bread (bexec ms b0) (f_out v0) (8 * f_osz v0)).
Proof. exact ex_mixed_correct_bytes. Qed.
Print Assumptions C06_full_solver_correct_bytes_example.
Theorem C06_full_solver_example_avx :
  fwf_inputb [0;6;7] [0;1;2;3] ex_avx = true /\ farch_okb FX64A ex_avx = true /\ farch_okb FX64 ex_avx = false /\
  fsolve FX64A [0;6;7] [0;1;2;3] ex_avx =
  SOk [IExt (Mem 1 32) (Reg 1 2) EZ 256 256 256; IExt (Reg 1 3) (Reg 1 0) EZ 256 256 512; IExt (Reg 1 0) (Reg 1 1) EZ 256 256 512;
       IExt (Reg 0 6) (Reg 0 7) ES 8 32 64; IExt (Reg 1 1) (Reg 1 3) EZ 256 256 512; IExt (Reg 1 2) (Mem 0 0) EZ 512 512 512].
Proof. exact ex_avx_solved. Qed.
Print Assumptions C06_full_solver_example_avx.
Theorem C06_full_solver_example_x86 :
  fwf_inputb [1;2;6;7] [0;1] ex_x86 = true /\ farch_okb FX86 ex_x86 = true /\
  fsolve FX86 [1;2;6;7] [0;1] ex_x86 =
  SOk [IExt (Reg 0 6) (Mem 0 4) EZ 8 32 64; IExt (Mem 1 0) (Reg 0 6) EZ 32 32 32; IExt (Reg 0 6) (Mem 0 8) ES 8 32 64;
       IExt (Mem 1 4) (Reg 0 6) EZ 32 32 32; IXchg (Reg 0 2) (Reg 0 1) 32 64; IExt (Reg 0 2) (Reg 0 2) EZ 16 32 64] /\
  fsolve FX86 [0;1;2;6;7] [0;1] ex_x86 =
  SOk [IExt (Reg 0 0) (Mem 0 4) EZ 8 32 64; IExt (Mem 1 0) (Reg 0 0) EZ 8 8 8; IExt (Reg 0 0) (Mem 0 8) ES 8 32 64;
       IExt (Mem 1 4) (Reg 0 0) EZ 32 32 32; IXchg (Reg 0 2) (Reg 0 1) 32 64; IExt (Reg 0 2) (Reg 0 2) EZ 16 32 64].
Proof. exact ex_x86_solved. Qed.
Print Assumptions C06_full_solver_example_x86.
Theorem C06_full_solver_examples_validate :
  match fsolve FX64 ex_wgp ex_wvec ex_mixed, fsolve FA64 ex_wgp ex_wvec ex_mixed with
  | SOk m1, SOk m2 =>
      validate (map fmove_of ex_mixed) (map (Reg 0) ex_wgp ++ map (Reg 1) ex_wvec) m1 &&
      validate (map fmove_of ex_mixed) (map (Reg 0) ex_wgp ++ map (Reg 1) ex_wvec) m2
  | _, _ => false
  end = true.
Proof. exact ex_mixed_valid. Qed.
Print Assumptions C06_full_solver_examples_validate.
(* the scratch conditions of C06_full_solver_total are necessary: well-formed inputs that end in kInvalidState without them *)
Theorem C06_full_solver_total_conditions_needed :
  (fwf_inputb ex_wgp [0; 1] ex_mixed = true /\ fsolve FX64 ex_wgp [0; 1] ex_mixed = SErr) /\
  (fwf_inputb [2; 6; 7] ex_wvec ex_mixed = true /\ fsolve FX64 [2; 6; 7] ex_wvec ex_mixed = SErr).
Proof. exact (conj ex_mixed_no_vec_scratch ex_mixed_no_gp_scratch). Qed.
Print Assumptions C06_full_solver_total_conditions_needed.

(* Translator tie (coq/gen/C06Tables.v is regenerated from /repo's source text on every run): the integer conversion tables of the x86 and
   AArch64 emit_arg_move - TypeId enumerators, the MOVSX / MOVSXD cast pairs, the a64 extension and load switches - and the model's fconv
   take the same decision for every pair of integer types, register and memory sources, on every target. *)
Theorem C06_source_cast_tables :
  forallb (fun a => forallb (fun src => VerifGen.C06Tables.all_pairs (VerifGen.C06Tables.x86_pair_ok a src)) [Reg 0 5; Reg 0 3; Mem 0 24]) [FX64; FX64A; FX86] = true /\
  forallb (fun src => VerifGen.C06Tables.all_pairs (VerifGen.C06Tables.a64_reg_pair_ok src)) [Reg 0 5; Reg 0 3] = true /\
  VerifGen.C06Tables.all_pairs VerifGen.C06Tables.a64_mem_pair_ok = true /\
  map VerifGen.C06Tables.tid VerifGen.C06Tables.int_types = [34; 35; 36; 37; 38; 39; 40; 41].
Proof. exact (conj VerifGen.C06Tables.x86_cast_table_ok (conj VerifGen.C06Tables.a64_reg_table_ok (conj VerifGen.C06Tables.a64_mem_table_ok VerifGen.C06Tables.int_types_are_34_to_41))). Qed.
Print Assumptions C06_source_cast_tables.

From Coq Require Import String.
(* Round 4 (b).  The instruction whitelist of the shuffle validator (DecodeModel.v: llvm-mc's (mnemonic, operands) -> minst), extracted and
   used by the check for every emitted sequence.  Structure: an accepted instruction writes only its destination operand(s); a
   memory write is SP based and attributed to the destination area with its raw displacement; a memory read is only ever
   attributed to the incoming-argument area.  Meaning: for the general-purpose forms what the table returns executes exactly as
   the reference semantics written from the manuals (DecodeSpec.v) says.  Table: on every operand shape the disassembler can
   print, every accepted form is a well-formed minst whose memory writes are exact (vm_compute over tables x shapes). *)
Theorem C06_decode_writes : forall F sa m d s i, decode_inst F sa m d s = Some i ->
  forall l, In l (inst_writes i) -> dst_loc F d = Some l \/ dst_loc F s = Some l.
Proof. exact decode_writes. Qed.
Print Assumptions C06_decode_writes.
Theorem C06_decode_mem_write_sp : forall F sa m d s i a off, decode_inst F sa m d s = Some i -> In (Mem a off) (inst_writes i) ->
  a = 1 /\ ((d_a64 F = false /\ exists b, d = OMem b (d_sp F) off) \/
            (d_a64 F = true /\ is_oreg d = true /\ exists b, s = OMem b (d_sp F) off)).
Proof. exact decode_mem_write_sp. Qed.
Print Assumptions C06_decode_mem_write_sp.
Theorem C06_decode_mem_read_incoming : forall F sa m d s i, decode_inst F sa m d s = Some i ->
  (forall a off, inst_src i = Some (Mem a off) -> a = 0) /\
  (forall x y w wz, i = IXchg x y w wz -> exists g1 r1 g2 r2, x = Reg g1 r1 /\ y = Reg g2 r2).
Proof. exact decode_mem_read_incoming. Qed.
Print Assumptions C06_decode_mem_read_incoming.
Theorem C06_decode_gp_value_sem : forall F sa m rd dw s i sl f st,
  decode_inst F sa m (OReg 0 rd dw) s = Some i ->
  isa_value (d_a64 F) m = Some f ->
  src_loc F sa s = Some sl ->
  In dw [8;16;32;64] -> (d_a64 F = true -> In dw [32;64]) ->
  src_width_ok (d_a64 F) m s dw ->
  0 <= st (Reg 0 rd) < 2 ^ 64 ->
  exec_inst st i (Reg 0 rd) = gp_write (d_a64 F) (st (Reg 0 rd)) dw (f dw (opw s) (st sl)).
Proof. exact decode_gp_value_sem. Qed.
Print Assumptions C06_decode_gp_value_sem.
Theorem C06_decode_store_sem : forall F sa m d s i b base off ml g r rw nb st,
  decode_inst F sa m d s = Some i -> isa_store (d_a64 F) m = Some nb ->
  (if d_a64 F then d else s) = OReg g r rw ->
  (if d_a64 F then s else d) = OMem b base off ->
  dst_loc F (OMem b base off) = Some ml ->
  exec_inst st i ml = cell_write (st ml) (nb rw) (zx (nb rw) (st (Reg g r))) /\
  (forall l, l <> ml -> exec_inst st i l = st l).
Proof. exact decode_store_sem. Qed.
Print Assumptions C06_decode_store_sem.
Theorem C06_decode_xchg_sem : forall F sa a b w i st,
  decode_inst F sa "xchg"%string (OReg 0 a w) (OReg 0 b w) = Some i ->
  d_a64 F = false -> w = 32 \/ w = 64 -> a <> b ->
  0 <= st (Reg 0 a) < 2 ^ 64 -> 0 <= st (Reg 0 b) < 2 ^ 64 ->
  exec_inst st i (Reg 0 a) = x86_gp_write (st (Reg 0 a)) w (zx w (st (Reg 0 b))) /\
  exec_inst st i (Reg 0 b) = x86_gp_write (st (Reg 0 b)) w (zx w (st (Reg 0 a))) /\
  (forall l, l <> Reg 0 a -> l <> Reg 0 b -> exec_inst st i l = st l).
Proof. exact decode_xchg_sem. Qed.
Print Assumptions C06_decode_xchg_sem.
Theorem C06_decode_table_x86 : forall m k d s i, In (m, k) x86_table -> In d (shapes 4) -> In s (shapes 4) ->
  realistic false d = true -> realistic false s = true -> decode_inst Fx [] m d s = Some i ->
  (wf_inst i = true \/ xchg_same i = true) /\ (mem_exact i = true \/ m = "movq2dq"%string).
Proof. exact table_reflection_realistic_x86. Qed.
Print Assumptions C06_decode_table_x86.
Theorem C06_decode_table_a64 : forall m k d s i, In (m, k) a64_table -> In d (shapes 31) -> In s (shapes 31) ->
  realistic true d = true -> realistic true s = true -> decode_inst Fa [] m d s = Some i ->
  wf_inst i = true /\ mem_exact i = true.
Proof. exact table_reflection_realistic_a64. Qed.
Print Assumptions C06_decode_table_a64.

(* Round 5.  Reference semantics for the NON general-purpose whitelist entries (DecodeSpecVec.v, written from the SDM / Arm ARM: a legacy SSE
   write keeps bits 511:128, a VEX / EVEX write zeroes up to bit 511, scalar FP / vector writes on AArch64 zero the rest of the V register,
   movd / movq / movss / movsd / kmov widths): what decode_inst returns executes exactly as the reference says, and nothing else changes. *)
Theorem C06_decode_vec_reg_sem : forall F sa m rd dw s i sl vex f st,
  decode_inst F sa m (OReg 1 rd dw) s = Some i -> d_a64 F = false ->
  assoc isa_x86_vec_value m = Some (vex, f) -> src_loc F sa s = Some sl ->
  In dw [128;256;512] -> (vex = false -> dw = 128) -> 0 <= st (Reg 1 rd) < 2 ^ 512 ->
  exec_inst st i (Reg 1 rd) = x86_vec_write vex (st (Reg 1 rd)) dw (f dw (opw s) (st sl)) /\
  (forall l, l <> Reg 1 rd -> exec_inst st i l = st l).
Proof. exact decode_vec_reg_sem. Qed.
Print Assumptions C06_decode_vec_reg_sem.
Theorem C06_decode_vec_to_gp_sem : forall F sa m g rd dw s i sl f st,
  decode_inst F sa m (OReg g rd dw) s = Some i -> d_a64 F = false ->
  assoc isa_x86_vec_to_gp m = Some f -> src_loc F sa s = Some sl ->
  In g [0;2;3] -> (g = 0 -> In dw [32;64]) -> 0 <= st (Reg g rd) < 2 ^ 64 ->
  exec_inst st i (Reg g rd) = x86_reg64_write g (st (Reg g rd)) dw (f dw (opw s) (st sl)) /\
  (forall l, l <> Reg g rd -> exec_inst st i l = st l).
Proof. exact decode_vec_to_gp_sem. Qed.
Print Assumptions C06_decode_vec_to_gp_sem.
Theorem C06_decode_vec_store_sem : forall F sa m b base off g r rw i ml nb st,
  decode_inst F sa m (OMem b base off) (OReg g r rw) = Some i -> d_a64 F = false ->
  assoc isa_x86_vec_store m = Some nb -> dst_loc F (OMem b base off) = Some ml ->
  exec_inst st i ml = cell_write (st ml) (nb rw) (zx (nb rw) (st (Reg g r))) /\
  (forall l, l <> ml -> exec_inst st i l = st l).
Proof. exact decode_vec_store_sem. Qed.
Print Assumptions C06_decode_vec_store_sem.
Theorem C06_decode_a64_vec_sem : forall F sa m d s i st,
  decode_inst F sa m d s = Some i ->
  d_a64 F = true ->
  (forall rd dw sl f, d = OReg 1 rd dw -> assoc isa_a64_vec_value m = Some f -> src_loc F sa s = Some sl ->
     0 <= st (Reg 1 rd) < 2 ^ 128 ->
     exec_inst st i (Reg 1 rd) = a64_vec_write (st (Reg 1 rd)) dw (f dw (opw s) (st sl)) /\
     (forall l, l <> Reg 1 rd -> exec_inst st i l = st l)) /\
  (forall rt rw b base off ml nb, d = OReg 1 rt rw -> s = OMem b base off -> assoc isa_a64_vec_store m = Some nb ->
     dst_loc F s = Some ml ->
     exec_inst st i ml = cell_write (st ml) (nb rw) (zx (nb rw) (st (Reg 1 rt))) /\
     (forall l, l <> ml -> exec_inst st i l = st l)).
Proof. exact decode_a64_vec_sem. Qed.
Print Assumptions C06_decode_a64_vec_sem.
(* every non-GP mnemonic of both tables has its reference entries; the merging register form of movss / movsd is refused *)
Theorem C06_decode_vec_covers_table : forallb vec_class_covered x86_table = true /\ forallb vec_class_covered a64_table = true.
Proof. exact isa_vec_covers_table. Qed.
Print Assumptions C06_decode_vec_covers_table.

(* Round 6.  Completeness direction between the two models: `print` gives every instruction form of the solver model its textual form (mnemonic +
   operands as the emitter prints them) on the four targets, and the whitelist reads that text back as EXACTLY the instruction. *)
Theorem C06_decode_print_roundtrip : forall a sp so_sp so_sa i m d s,
  print a (frame_of a sp so_sp so_sa) i = Some (m, d, s) ->
  decode_inst (frame_of a sp so_sp so_sa) [] m d s = Some i.
Proof. exact decode_print. Qed.
Print Assumptions C06_decode_print_roundtrip.
Theorem C06_decode_print_examples :
  print FX64 (frame_of FX64 4 24 0) (IExt (Reg 0 6) (Mem 0 8) ES 8 32 64) = Some ("movsx"%string, OReg 0 6 32, OMem 8 4 32) /\
  print FX64A (frame_of FX64A 4 24 0) (IExt (Reg 1 1) (Reg 1 3) EZ 256 256 512) = Some ("vmovaps"%string, OReg 1 1 256, OReg 1 3 256) /\
  print FX86 (frame_of FX86 4 4 0) (IExt (Mem 1 0) (Reg 0 6) EZ 32 32 32) = Some ("mov"%string, OMem 32 4 0, OReg 0 6 32) /\
  print FA64 (frame_of FA64 31 16 0) (IExt (Reg 0 3) (Mem 0 8) ES 32 64 64) = Some ("ldrsw"%string, OReg 0 3 64, OMem 0 31 24) /\
  print FX64 (frame_of FX64 4 24 0) (IXchg (Reg 0 6) (Reg 0 7) 32 64) = Some ("xchg"%string, OReg 0 6 32, OReg 0 7 32) /\
  print FA64 (frame_of FA64 31 16 0) (IXchg (Reg 0 6) (Reg 0 7) 32 64) = None.
Proof. exact print_examples. Qed.
Print Assumptions C06_decode_print_examples.

(* ... and every instruction of a successful run of the solver model IS printable: on the proved fragment the whitelist never answers
   "unmodelled" and reads back exactly the instruction the model describes (AArch64: x31 is SP / ZR, never a work register). *)
Theorem C06_full_solver_output_decodes : forall a wgp wvec vs0 ms sp so_sp so_sa,
  fwf_inputb wgp wvec vs0 = true -> farch_okb a vs0 = true ->
  (a = FA64 -> forall r, In r wgp -> r < 31) ->
  fsolve a wgp wvec vs0 = SOk ms -> forall i, In i ms ->
  exists m d s, print a (frame_of a sp so_sp so_sa) i = Some (m, d, s) /\ decode_inst (frame_of a sp so_sp so_sa) [] m d s = Some i.
Proof. exact fsolve_decodes. Qed.
Print Assumptions C06_full_solver_output_decodes.
Theorem C06_full_solver_output_decodes_example :
  match fsolve FX64 ex_wgp ex_wvec ex_mixed, fsolve FA64 ex_wgp ex_wvec ex_mixed with
  | SOk m1, SOk m2 =>
      forallb (roundtripb FX64 (frame_of FX64 4 24 0)) m1 && forallb (roundtripb FA64 (frame_of FA64 31 16 0)) m2 &&
      (9 =? Z.of_nat (List.length m1)) && (10 =? Z.of_nat (List.length m2))
  | _, _ => false
  end = true.
Proof. exact ex_mixed_roundtrip. Qed.
Print Assumptions C06_full_solver_output_decodes_example.

(* sequence level: the printed output of a successful run is read back by the sequence decoder behind the check's D stage (DecodeModel.decode,
   incl. the tracking of the stack-argument pointer, which stays empty for SP-based frames) as exactly the model's output *)
Theorem C06_full_solver_decode_seq : forall a wgp wvec vs0 ms sp so_sp so_sa,
  fwf_inputb wgp wvec vs0 = true -> farch_okb a vs0 = true ->
  (a = FA64 -> forall r, In r wgp -> r < 31) ->
  fsolve a wgp wvec vs0 = SOk ms ->
  exists txt, printed a (frame_of a sp so_sp so_sa) ms txt /\ decode (frame_of a sp so_sp so_sa) txt = Some ms.
Proof. exact fsolve_decode_seq. Qed.
Print Assumptions C06_full_solver_decode_seq.
Theorem C06_full_solver_decode_seq_example : forall a, a = FX64 \/ a = FA64 -> forall ms, fsolve a ex_wgp ex_wvec ex_mixed = SOk ms ->
  exists txt, printed a (frame_of a 4 24 0) ms txt /\ decode (frame_of a 4 24 0) txt = Some ms.
Proof. exact ex_mixed_decode_seq. Qed.
Print Assumptions C06_full_solver_decode_seq_example.
(* FuncDetail::init: the argument-count test in both directions (with C06_assign_matches_abi: under the guard, success iff at most 32 arguments) *)
Theorem C06_func_detail_arg_limit :
  (forall e s, (32 < List.length (s_args s))%nat -> func_detail_init e s = R_err E_InvArg) /\
  (forall e s d, func_detail_init e s = R_ok d -> (List.length (s_args s) <= 32)%nat) /\
  (func_detail_init (mkEnv X64 0 0) (mkSig 0 255 0 (repeat 38 33)) = R_err E_InvArg /\
   exists d, func_detail_init (mkEnv X64 0 0) (mkSig 0 255 0 (repeat 38 32)) = R_ok d).
Proof. exact (conj func_detail_init_arg_limit (conj func_detail_init_ok_limit arg_limit_example)). Qed.
Print Assumptions C06_func_detail_arg_limit.

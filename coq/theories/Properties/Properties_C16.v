(* C16 -- Reset, reinit and reuse of holders and emitters leave no residue: property theorems (statements only; proofs are
   in Lifecycle/ResetProofs.v and, for the data extracted from the working tree, in gen/ResetFields.v). *)
From Coq Require Import String List Bool.
From Coq Require Import NArith.
From Verif Require Import Lifecycle.ResetSpec Lifecycle.ResetProofs Lifecycle.LifecycleModel Lifecycle.LifecycleProofs.
From Verif Require Builder.BuilderModel Builder.BuilderLinks Lifecycle.BuilderDirty.
From VerifGen Require Import ResetFields.
Import ListNotations.
Local Open Scope string_scope.

(* Every data member of CodeHolder / Section / Arena / BaseEmitter / BaseAssembler / BaseBuilder / BaseCompiler / BaseRAPass
   (member lists and write sets re-extracted from the clang AST of the working tree on every run) is, on every reset route
   (holder reset, holder reinit, .text re-creation, new_section, arena reset, detach, detach-all, reinit of each of the six
   emitters, per-function cleanup of the register allocator of both back ends; hard and soft Arena reset separately; creation of
   RelocEntry / Fixup / AddressTableEntry / LabelEntry / named-label data / every Builder and Compiler node class in recycled
   arena memory), either overwritten by a routine of that
   route (reached from the route's roots through call edges of the extracted call graph) with a reviewed resetting idiom,
   or on the reviewed list of persistent members. A new member, or a deleted reset statement, falsifies it by name. *)
Theorem C16_every_field_reset :
  forall r c f, In r routes -> In c (r_classes r) -> In f (fields_of classes c) ->
    covered r (route_writes funcs r) c f = true \/ is_persistent r c f = true.
Proof. exact (check_all_sound classes funcs reset_fields_ok). Qed.
Print Assumptions C16_every_field_reset.

(* the list of members that are neither reset nor persistent is empty *)
Theorem C16_no_uncovered_member : uncovered classes funcs = [].
Proof. exact (check_all_uncovered_nil classes funcs reset_fields_ok). Qed.
Print Assumptions C16_no_uncovered_member.

(* meaning of "covered": in a function that is a root of the route or reachable from one through extracted call edges there is
   (1) a resetting write of the whole member, applied to THE OBJECT BEING RESET (r_objs), every level of whose nesting is an error
       exit or a reviewed guard of the route (r_guards: per-emitter loop, own-logger test, hard-reset test, ...; guards are compared
       by the structure of the condition's AST, cexpr_eqb), or
   (2) two such writes in the two branches of one condition (guards pre ++ [GCond c true] and pre ++ [GCond c false]), or
   (3) all sub-writes of one reviewed idiom, each applied to the object being reset *)
Theorem C16_covered_means_written :
  forall r c f, covered r (route_writes funcs r) c f = true ->
  (exists w, from_route funcs r w /\ plain_write c f w /\ applies_prop r w) \/
  (exists w1 w2 pre other, from_route funcs r w1 /\ from_route funcs r w2 /\ plain_write c f w1 /\ plain_write c f w2 /\
                 In (w_obj w1) (r_objs r) /\ In (w_obj w2) (r_objs r) /\
                 negate_last (w_guard w1) = Some (pre, other) /\ guard_ok r pre = true /\ guard_eqb (w_guard w2) other = true) \/
  (exists s, In s specials /\ sp_class s = c /\ sp_field s = f /\
     forall sub, In sub (sp_subs s) ->
       exists w, from_route funcs r w /\ w_class w = c /\ w_field w = f /\ w_sub w = sub /\ w_how w = sp_how s /\ applies_prop r w).
Proof. exact (covered_means_written funcs). Qed.
Print Assumptions C16_covered_means_written.

(* the virtual / cross-object calls that glue the roots of a route together are present in the tree *)
Theorem C16_route_glue_calls_present : forall a b, In (a, b) must_call -> In b (calls_of funcs a).
Proof. exact (check_all_must_call classes funcs reset_fields_ok). Qed.
Print Assumptions C16_route_glue_calls_present.

(* generic connection to the lifecycle model: if every member an observation reads is reset (the others being persistent),
   the recycled object is observationally the fresh one *)
Theorem C16_reset_all_fields_is_init :
  forall (V O : Type) (init : string -> V) (observe : (string -> V) -> O) (footprint fields W P : list string),
    (forall s1 s2, (forall f, In f footprint -> s1 f = s2 f) -> observe s1 = observe s2) ->
    (forall f, In f footprint -> In f fields) ->
    (forall f, In f fields -> mem f W = true \/ mem f P = true) ->
    (forall f, In f footprint -> mem f P = false) ->
    forall s, observe (reset_with V init W s) = observe init.
Proof. exact reset_all_fields_is_init_stmt. Qed.
Print Assumptions C16_reset_all_fields_is_init.

(* ------------------------------------------------------------------ lifecycle model (Lifecycle/LifecycleModel.v) *)

(* after ANY history that ends in reset(soft|hard)+init+attach, reinit, or a new holder, the core of the state (everything a
   later generation can observe or depends on) equals the core of fresh objects *)
Theorem C16_fresh_equiv :
  forall h r s, ready s = true -> reset_like r = true -> s_core (run (h ++ [r]) s) = core0.
Proof. exact fresh_equiv. Qed.
Print Assumptions C16_fresh_equiv.

(* hence generating a program after such a history (and after any neutral steps: loggers on/off, heap perturbation,
   detach + re-attach) yields the state generation on fresh objects yields *)
Theorem C16_reset_equivalent :
  forall h r n s e, ready s = true -> reset_like r = true -> forallb neutral n = true ->
    s_core (do_step (SGen e) (run (h ++ r :: n) s)) = s_core (do_step (SGen e) state0).
Proof. exact generate_after_reset_and_neutral_equals_fresh. Qed.
Print Assumptions C16_reset_equivalent.

(* the same for any next step -- in particular for SProg, a program given by its operations (new labels, named labels with duplicate
   detection, sections, the library-created .addrtab section, functions, virtual registers, local constants, annotations) whose effect
   on the label / section / register / annotation counters is COMPUTED by the model; only the relocation count is an input *)
Theorem C16_program_after_reset_equals_fresh :
  forall h r n s ops drel pend, ready s = true -> reset_like r = true -> forallb neutral n = true ->
    s_core (do_step (SProg ops drel pend) (run (h ++ r :: n) s)) = s_core (do_step (SProg ops drel pend) state0).
Proof. intros h r n s ops drel pend. exact (any_step_after_reset_equals_fresh h r n s (SProg ops drel pend)). Qed.
Print Assumptions C16_program_after_reset_equals_fresh.

(* the n-th function of a reused Compiler (one reinit per function) is generated from the fresh core *)
Theorem C16_function_independent :
  forall (fs : list effect) s e, ready s = true ->
    s_core (do_step (SGen e) (run (flat_map (fun f => [SGen f; SReinit]) fs) s)) =
    match fs with [] => s_core (do_step (SGen e) s) | _ => s_core (do_step (SGen e) state0) end.
Proof. exact function_independent. Qed.
Print Assumptions C16_function_independent.

(* non-interference: loggers and retained resources (arena blocks, buffer capacity; the model has no addresses at all) never
   flow into the core, under any script. The implementation side of this is tested by the differential, not proved. *)
Theorem C16_output_independent_of_heap :
  forall h s1 s2, s_core s1 = s_core s2 -> s_valid s1 = s_valid s2 ->
    s_core (run h s1) = s_core (run h s2) /\ s_valid (run h s1) = s_valid (run h s2).
Proof. exact run_independent_of_ambient. Qed.
Print Assumptions C16_output_independent_of_heap.

(* ------------------------------------------------------------------ the Builder after reinit / detach, on C08's Builder model *)

(* BaseBuilder_clear_all never clears _dirty_section_links (the one BaseBuilder member on the persistent list without a write).
   On C08's model of the Builder (node list, cursor, pool of removed nodes, cached section links, dirty flag, one-shot state; every
   emitter call incl. section switching and every node-list edit) a recycled builder -- the initial state with WHATEVER dirty flag the
   previous use left -- is indistinguishable from a fresh one under every command sequence: same node list, cursor, pool, counters,
   one-shot state (everything but the cache itself) and the same error code at every step.
   `supported` lists every command of C08's model as it is today (incl. constant-pool scopes, annotated jumps, invoke and function
   nodes); it is total with a wildcard, so a command added to the model later falls outside the statement instead of breaking it. *)
Theorem C16_recycled_builder_equals_fresh :
  forall rs stale_dirty cs, forallb BuilderDirty.supported cs = true ->
    BuilderDirty.strip (BuilderModel.run (BuilderDirty.recycled_state rs stale_dirty) cs) =
    BuilderDirty.strip (BuilderModel.run (BuilderModel.init_state rs) cs) /\
    BuilderDirty.run_errors (BuilderDirty.recycled_state rs stale_dirty) cs = BuilderDirty.run_errors (BuilderModel.init_state rs) cs.
Proof. exact BuilderDirty.recycled_builder_equals_fresh. Qed.
Print Assumptions C16_recycled_builder_equals_fresh.

(* whole Builder lifecycles: after ANY history of generation (emitter calls, section switches, node-list edits) and resets that ends
   in a reset (detach + attach, or reinit), generating a command sequence gives the node list, cursor, pool, counters, one-shot
   state and error codes that a fresh builder gives -- here the program's effect is computed by the model, not measured *)
Theorem C16_builder_history_irrelevant :
  forall h rs cs b0, forallb BuilderDirty.supported cs = true ->
    BuilderDirty.strip (BuilderModel.run (fold_left BuilderDirty.do_bl (h ++ [BuilderDirty.BReset rs]) b0) cs) =
    BuilderDirty.strip (BuilderModel.run (BuilderModel.init_state rs) cs) /\
    BuilderDirty.run_errors (fold_left BuilderDirty.do_bl (h ++ [BuilderDirty.BReset rs]) b0) cs =
    BuilderDirty.run_errors (BuilderModel.init_state rs) cs.
Proof. exact BuilderDirty.builder_history_irrelevant. Qed.
Print Assumptions C16_builder_history_irrelevant.

(* more generally: any two builders that agree up to the link cache and whose caches are valid-or-dirty (an invariant of every run,
   BuilderLinks.links_ok_run) stay so and report the same errors *)
Theorem C16_dirty_flag_harmless :
  forall cs b1 b2, forallb BuilderDirty.supported cs = true ->
    BuilderLinks.links_ok b1 -> BuilderLinks.links_ok b2 -> BuilderDirty.same b1 b2 ->
    BuilderDirty.same (BuilderModel.run b1 cs) (BuilderModel.run b2 cs) /\ BuilderDirty.run_errors b1 cs = BuilderDirty.run_errors b2 cs.
Proof. exact BuilderDirty.dirty_flag_harmless. Qed.
Print Assumptions C16_dirty_flag_harmless.

(* logger / heap independence as an erasure theorem: attaching or detaching loggers, perturbing the heap and attaching a passive
   second emitter, at ANY points of a history, do not change what the history does to the core state and configuration *)
Theorem C16_logging_and_heap_steps_erasable :
  forall h s1 s2, s_core s1 = s_core s2 -> s_valid s1 = s_valid s2 ->
    s_core (run h s1) = s_core (run (erase_ambient h) s2) /\ s_valid (run h s1) = s_valid (run (erase_ambient h) s2).
Proof. exact erase_ambient_same_core. Qed.
Print Assumptions C16_logging_and_heap_steps_erasable.

(* the hypotheses above are satisfiable *)
Example C16_ready_state0 : ready state0 = true.
Proof. exact ready_state0. Qed.

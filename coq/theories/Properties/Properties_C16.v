(* C16 -- Reset, reinit and reuse of holders and emitters leave no residue: property theorems (statements only; proofs are
   in Lifecycle/ResetProofs.v and, for the data extracted from the working tree, in gen/ResetFields.v). *)
From Coq Require Import String List Bool.
From Coq Require Import NArith ZArith.
From Verif Require Import Lifecycle.ResetSpec Lifecycle.ResetProofs Lifecycle.LifecycleModel Lifecycle.LifecycleProofs.
From Verif Require Builder.BuilderModel Builder.BuilderProofs Builder.BuilderGrouping Builder.BuilderLinks Builder.BuilderSections Lifecycle.BuilderDirty Lifecycle.BuilderLifecycle.
From VerifGen Require Import ResetFields.
Import ListNotations.
Local Open Scope string_scope.

(* Every data member of CodeHolder / Section / Arena / BaseEmitter / BaseAssembler / BaseBuilder / BaseCompiler / BaseRAPass
   (member lists and write sets re-extracted from the clang AST of the working tree on every run) is, on every reset route
   (holder reset, holder reinit, .text re-creation, new_section, arena reset, detach, detach-all, reinit of each of the six
   emitters, per-function cleanup of the register allocator of both back ends; hard and soft Arena reset separately; creation of
   RelocEntry / Fixup / AddressTableEntry / LabelEntry / named-label data / every Builder and Compiler node class in recycled
   arena memory), either overwritten by a routine of that
   route (reached from the route's roots through call edges of the extracted call graph) with a reviewed resetting idiom,
   or on the reviewed list of persistent members. A new member, or a deleted reset statement, falsifies it by name. *)
Theorem C16_every_field_reset :
  forall r c f, In r routes -> In c (r_classes r) -> In f (fields_of classes c) ->
    covered r (route_writes funcs r) c f = true \/ is_persistent r c f = true.
Proof. exact (check_all_sound classes funcs reset_fields_ok). Qed.
Print Assumptions C16_every_field_reset.

(* the list of members that are neither reset nor persistent is empty *)
Theorem C16_no_uncovered_member : uncovered classes funcs = [].
Proof. exact (check_all_uncovered_nil classes funcs reset_fields_ok). Qed.
Print Assumptions C16_no_uncovered_member.

(* meaning of "covered": in a function that is a root of the route or reachable from one through extracted call edges there is
   (1) a resetting write of the whole member, applied to THE OBJECT BEING RESET (r_objs), every level of whose nesting is an error
       exit or a reviewed guard of the route (r_guards: per-emitter loop, own-logger test, hard-reset test, ...; guards are compared
       by the structure of the condition's AST, cexpr_eqb), or
   (2) two such writes in the two branches of one condition (guards pre ++ [GCond c true] and pre ++ [GCond c false]), or
   (3) all sub-writes of one reviewed idiom, each applied to the object being reset *)
Theorem C16_covered_means_written :
  forall r c f, covered r (route_writes funcs r) c f = true ->
  (exists w, from_route funcs r w /\ plain_write c f w /\ applies_prop r w) \/
  (exists w1 w2 pre other, from_route funcs r w1 /\ from_route funcs r w2 /\ plain_write c f w1 /\ plain_write c f w2 /\
                 In (w_obj w1) (r_objs r) /\ In (w_obj w2) (r_objs r) /\
                 negate_last (w_guard w1) = Some (pre, other) /\ guard_ok r pre = true /\ guard_eqb (w_guard w2) other = true) \/
  (exists s, In s specials /\ sp_class s = c /\ sp_field s = f /\
     forall sub, In sub (sp_subs s) ->
       exists w, from_route funcs r w /\ w_class w = c /\ w_field w = f /\ w_sub w = sub /\ w_how w = sp_how s /\ applies_prop r w).
Proof. exact (covered_means_written funcs). Qed.
Print Assumptions C16_covered_means_written.

(* ------------------------------------------------------------------ properties of the coverage checker itself *)
(* guard conditions are compared by the structure of the AST and the comparison is EXACT *)
Theorem C16_guard_equality_exact :
  (forall x y, cexpr_eqb x y = true <-> x = y) /\ (forall x y, gcomp_eqb x y = true <-> x = y).
Proof. split; [exact cexpr_eqb_spec | exact gcomp_eqb_spec]. Qed.
Print Assumptions C16_guard_equality_exact.

(* an accepted nesting level IS an error exit or one of the reviewed guards of the route *)
Theorem C16_guard_ok_exact :
  forall r g, guard_ok r g = true -> forall c, In c g -> c = GErrExit \/ In c (r_guards r).
Proof. exact guard_ok_exact. Qed.
Print Assumptions C16_guard_ok_exact.

(* the checker is monotone: more writes on a route (more reset code) never un-cover a member *)
Theorem C16_checker_monotone :
  forall r ws1 ws2 c f, incl ws1 ws2 -> covered r ws1 c f = true -> covered r ws2 c f = true.
Proof. exact covered_monotone. Qed.
Print Assumptions C16_checker_monotone.

(* the list of uncovered members is complete: a member that is neither covered nor persistent on a route is reported by name *)
Theorem C16_uncovered_complete :
  forall cs fs r c f, In r routes -> In c (r_classes r) -> In f (fields_of cs c) ->
    covered r (route_writes fs r) c f = false -> is_persistent r c f = false -> In (r_name r, c, f) (uncovered cs fs).
Proof. exact uncovered_complete. Qed.
Print Assumptions C16_uncovered_complete.

(* the callee closure the checker uses for a FollowAll root contains EVERY extracted function that is reachable from the root
   through extracted call edges (re-checked on the data of every run: gen/ResetFields.reach_closed_ok) -- the verdicts are
   computed over the whole reset route, not over a fuel-truncated part of it *)
Theorem C16_route_closure_complete :
  forall r rt, In r routes -> In rt (r_roots r) -> rt_follow rt = FollowAll ->
    forall n, calls_star funcs (rt_fn rt) n -> func_exists funcs n = true -> In n (route_funcs funcs r).
Proof. exact (route_closure_complete funcs reach_closed_ok). Qed.
Print Assumptions C16_route_closure_complete.

(* the virtual / cross-object calls that glue the roots of a route together are present in the tree *)
Theorem C16_route_glue_calls_present : forall a b, In (a, b) must_call -> In b (calls_of funcs a).
Proof. exact (check_all_must_call classes funcs reset_fields_ok). Qed.
Print Assumptions C16_route_glue_calls_present.

(* ------------------------------------------------------------------ reset VALUES (round 6)
   not only IS every member written on a reset route: in the reviewed pure reset functions (ResetSpec.value_funcs) every
   whole-member assignment writes the member's INITIAL value -- the value its constructor / in-class initialiser gives it, as
   extracted from the clang AST of the same tree (gen/ResetFields.inits, .vals; re-proved whenever the tree changes) -- unless the
   assignment is a reviewed exception *)
Theorem C16_reset_value_is_initial_value :
  forall v, In v vals -> In (v_func v) value_funcs -> excepted v = false ->
    exists i, In (mk_init (v_class v) (v_field v) i) inits /\
              (i = v_val v \/ (i = CLit "{}" /\ (v_val v = CLit "0" \/ v_val v = CLit "nullptr"))).
Proof.
  intros v Hin Hf Hx. destruct (check_values_sound inits vals reset_values_ok v Hin Hf Hx) as [i [Hi [_ Hs]]].
  exists i. split; [exact Hi | apply same_value_spec; exact Hs].
Qed.
Print Assumptions C16_reset_value_is_initial_value.

(* the reviewed exceptions are real (each names an extracted assignment of a listed function that does NOT write the initial
   value, so a stale exception is noticed), and every listed function still exists with at least one assignment *)
Theorem C16_reset_value_lists_are_live :
  (forall x, In x value_exceptions ->
     In (x_func x) value_funcs /\
     exists v, In v vals /\ v_func v = x_func x /\ v_class v = x_class x /\ v_field v = x_field x /\ initial_value_written inits v = false) /\
  (forall f, In f value_funcs -> exists v, In v vals /\ v_func v = f).
Proof. split; [exact (value_exceptions_real inits vals reset_values_ok) | exact (value_funcs_present inits vals reset_values_ok)]. Qed.
Print Assumptions C16_reset_value_lists_are_live.

(* the checker's verdicts are exact: `same_value` is syntactic identity (or `{}` against 0 / nullptr), and an empty report of the
   check means every assignment passed *)
Theorem C16_reset_value_checker_exact :
  (forall i v, same_value i v = true <-> i = v \/ (i = CLit "{}" /\ (v = CLit "0" \/ v = CLit "nullptr"))) /\
  (forall is vs, bad_values is vs = [] -> forallb (val_ok is) vs = true).
Proof. split; [exact same_value_spec | exact bad_values_complete]. Qed.
Print Assumptions C16_reset_value_checker_exact.

(* non-vacuity: a member whose initial value is NOT zero (BaseEmitter::_forced_inst_options = InstOptions::kReserved) is reset to
   exactly that value by BaseEmitter::on_detach; resetting it to kNone instead is refused by the checker *)
Example C16_forced_inst_options_reset_to_kReserved :
  filter (fun v => String.eqb (v_func v) "BaseEmitter::on_detach" && String.eqb (v_field v) "_forced_inst_options") vals
    = [mk_val "BaseEmitter::on_detach" "BaseEmitter" "_forced_inst_options" (CName "kReserved")] /\
  lookup_init inits "BaseEmitter" "_forced_inst_options" = Some (CName "kReserved") /\
  mem "BaseEmitter::on_detach" value_funcs = true.
Proof. vm_compute. repeat split. Qed.
Example C16_wrong_reset_value_refused :
  check_values inits (mk_val "BaseEmitter::on_detach" "BaseEmitter" "_forced_inst_options" (CName "kNone") :: vals) = false.
Proof. vm_compute. reflexivity. Qed.

(* set-up ... tear-down (BaseRAPass::run_on_function): the coverage obligation is met by the set-up assignment alone; here the LAST
   assignment (source order, gen/ResetFields.val_seq) of every member the function assigns writes the member's initial value, and
   the function contains an unconditional assignment of that member on `this` (not in a branch / loop / after an early exit) *)
Theorem C16_teardown_restores_initial_value :
  forall v, In v val_seq -> In (v_func v) teardown_funcs ->
    exists i l, In (mk_init (v_class v) (v_field v) i) inits /\
      last_val val_seq (v_func v) (v_class v) (v_field v) None = Some l /\
      (i = l \/ (i = CLit "{}" /\ (l = CLit "0" \/ l = CLit "nullptr"))) /\
      (exists w, In w (writes_of funcs (v_func v)) /\ w_class w = v_class v /\ w_field w = v_field v /\ w_sub w = "" /\
                 w_how w = "assign" /\ w_obj w = "this" /\ w_guard w = []).
Proof.
  intros v Hin Hf. destruct (check_teardown_sound inits val_seq funcs teardown_ok v Hin Hf) as [i [l [Hi [Hl [Hs Hu]]]]].
  exists i, l. split; [apply lookup_init_in; exact Hi|]. split; [exact Hl|]. split; [apply same_value_spec; exact Hs|].
  apply unconditional_assign_spec. exact Hu.
Qed.
Print Assumptions C16_teardown_restores_initial_value.

(* `last_val` is what its name says: the value of the last matching assignment of the sequence (unbounded, any sequence) *)
Theorem C16_last_val_is_last :
  forall vs fn c f e, last_val vs fn c f None = Some e ->
    exists vs1 v vs2, vs = (vs1 ++ v :: vs2)%list /\ val_matches fn c f v = true /\ v_val v = e /\
                      forallb (fun w => negb (val_matches fn c f w)) vs2 = true.
Proof. exact last_val_is_last. Qed.
Print Assumptions C16_last_val_is_last.

(* non-vacuity: run_on_function sets _func to its argument first and to nullptr last; dropping the tear-down assignments is refused *)
Example C16_run_on_function_puts_func_back :
  filter (fun v => String.eqb (v_func v) "BaseRAPass::run_on_function" && String.eqb (v_field v) "_func") val_seq
    = [mk_val "BaseRAPass::run_on_function" "BaseRAPass" "_func" (CName "func");
       mk_val "BaseRAPass::run_on_function" "BaseRAPass" "_func" (CLit "nullptr")] /\
  last_val val_seq "BaseRAPass::run_on_function" "BaseRAPass" "_func" None = Some (CLit "nullptr") /\
  (exists v, In v val_seq /\ v_func v = "BaseRAPass::run_on_function").
Proof. split; [vm_compute; reflexivity|]. split; [vm_compute; reflexivity|]. exact (teardown_funcs_present inits val_seq funcs teardown_ok _ (or_introl eq_refl)). Qed.
Example C16_missing_teardown_refused :
  check_teardown inits (val_seq ++ [mk_val "BaseRAPass::run_on_function" "BaseRAPass" "_func" (CName "func")])%list funcs = false.
Proof. vm_compute. reflexivity. Qed.

(* a small execution model gives the two value obligations their meaning: a store maps (class, member) to the expression last
   assigned; a function's whole-member assignments run in the given order. `last_val` IS the final store content (any sequence, any
   starting store) *)
Theorem C16_exec_last_assignment_wins :
  forall vs fn s c f, exec_fn fn vs s c f = last_val vs fn c f (s c f).
Proof. exact exec_fn_last. Qed.
Print Assumptions C16_exec_last_assignment_wins.

(* pure reset functions, PATH-INDEPENDENT: whichever of the extracted assignments of a listed function execute, in whatever order
   and however often (any sequence drawn from gen/ResetFields.vals), a member the function wrote holds its initial value afterwards *)
Theorem C16_reset_function_leaves_initial_values :
  forall fn, In fn value_funcs ->
  forall path, incl path vals -> (forall v, In v path -> v_func v = fn -> excepted v = false) ->
  forall s c f l, exec_fn fn path s c f = Some l ->
    s c f = Some l \/ exists i, lookup_init inits c f = Some i /\ same_value i l = true.
Proof. exact (reset_fn_final_store inits vals reset_values_ok). Qed.
Print Assumptions C16_reset_function_leaves_initial_values.

(* set-up / tear-down: executing run_on_function's assignments in source order from ANY store leaves every member it assigns at its
   initial value *)
Theorem C16_teardown_final_store :
  forall v, In v val_seq -> In (v_func v) teardown_funcs ->
  forall s, exists i l, lookup_init inits (v_class v) (v_field v) = Some i /\
                        exec_fn (v_func v) val_seq s (v_class v) (v_field v) = Some l /\ same_value i l = true.
Proof. exact (teardown_final_store inits val_seq funcs teardown_ok). Qed.
Print Assumptions C16_teardown_final_store.

(* non-vacuity: whatever _func held before, after run_on_function's assignments it is nullptr; and an on_detach path that executes
   only some of the assignments still leaves what it wrote initial *)
Example C16_func_is_null_after_run_on_function :
  forall s, exec_fn "BaseRAPass::run_on_function" val_seq s "BaseRAPass" "_func" = Some (CLit "nullptr").
Proof. intros s. rewrite exec_fn_last, last_val_acc. vm_compute. reflexivity. Qed.
Example C16_partial_on_detach_path :
  exec_fn "BaseEmitter::on_detach"
    [mk_val "BaseEmitter::on_detach" "BaseEmitter" "_forced_inst_options" (CName "kReserved");
     mk_val "BaseEmitter::on_detach" "BaseEmitter" "_inst_options" (CName "kNone")] (fun _ _ => Some (CName "stale"))
    "BaseEmitter" "_forced_inst_options" = lookup_init inits "BaseEmitter" "_forced_inst_options".
Proof. vm_compute. reflexivity. Qed.

(* frame conditions of the execution model: members no executed assignment names, and assignments of other functions, leave the
   store alone *)
Theorem C16_exec_frame :
  (forall vs fn s c f, forallb (fun v => negb (val_matches fn c f v)) vs = true -> exec_fn fn vs s c f = s c f) /\
  (forall vs fn s c f, forallb (fun v => negb (String.eqb (v_func v) fn)) vs = true -> exec_fn fn vs s c f = s c f).
Proof. split; [exact exec_fn_frame | exact exec_fn_other_functions]. Qed.
Print Assumptions C16_exec_frame.

(* the reports the check prints are exact in both directions: an assignment is listed iff it fails its obligation *)
Theorem C16_value_reports_exact :
  (forall is vs fn c f, In (fn, c, f) (bad_values is vs) <->
     exists v, In v vs /\ val_ok is v = false /\ v_func v = fn /\ v_class v = c /\ v_field v = f) /\
  (forall is seq fs fn c f, In (fn, c, f) (bad_teardown is seq fs) <->
     exists v, In v seq /\ teardown_val_ok is seq fs v = false /\ v_func v = fn /\ v_class v = c /\ v_field v = f).
Proof. split; [exact bad_values_exact | exact bad_teardown_exact]. Qed.
Print Assumptions C16_value_reports_exact.

Example C16_exec_frame_example :
  forall s, exec_fn "BaseRAPass::run_on_function" val_seq s "BaseRAPass" "_logger" = s "BaseRAPass" "_logger".
Proof. intros s. apply exec_fn_frame. vm_compute. reflexivity. Qed.

(* the coverage obligation's idiom `assign` is no longer a reviewed idiom inside the pure reset functions: every whole-member
   assign-write the coverage checker sees there has a value row (the two extractions agree, re-checked per run), and that value is
   the member's initial value (or the row is a reviewed exception) *)
Theorem C16_assign_idiom_writes_initial_value :
  forall fn w, In fn value_funcs -> In w (writes_of funcs fn) -> w_how w = "assign" -> w_sub w = "" ->
  exists v, In v vals /\ v_func v = fn /\ v_class v = w_class w /\ v_field v = w_field w /\
            (excepted v = true \/ exists i, lookup_init inits (w_class w) (w_field w) = Some i /\ same_value i (v_val v) = true).
Proof. exact (assign_write_has_initial_value inits funcs vals assign_writes_have_values_ok reset_values_ok). Qed.
Print Assumptions C16_assign_idiom_writes_initial_value.

(* functions that reset ONE OF THEIR ARGUMENTS (CodeHolder::detach: the emitter being detached): every assignment made on that
   object writes the member's initial value; the assignments on its list neighbours and on the holder are working values and are
   told apart by the object the member is selected from (gen/ResetFields.vals_on) *)
Theorem C16_detached_object_gets_initial_values :
  (forall o v, In (o, v) vals_on -> In (v_func v, o) value_obj_funcs ->
     exists i, lookup_init inits (v_class v) (v_field v) = Some i /\ same_value i (v_val v) = true) /\
  (forall fn o, In (fn, o) value_obj_funcs -> exists v, In (o, v) vals_on /\ v_func v = fn).
Proof.
  split; [exact (check_object_values_sound inits vals_on reset_object_values_ok)
         | exact (value_obj_funcs_present inits vals_on reset_object_values_ok)].
Qed.
Print Assumptions C16_detached_object_gets_initial_values.

Example C16_detach_clears_the_emitter_links :
  map (fun ov => (v_field (snd ov), v_val (snd ov)))
      (filter (fun ov => String.eqb (fst ov) "param:emitter" && String.eqb (v_func (snd ov)) "CodeHolder::detach") vals_on)
  = [("_attached_next", CLit "nullptr"); ("_attached_prev", CLit "nullptr"); ("_code", CLit "nullptr")].
Proof. vm_compute. reflexivity. Qed.
Example C16_detach_leaving_a_link_refused :
  check_object_values inits (("param:emitter", mk_val "CodeHolder::detach" "BaseEmitter" "_attached_next" (CName "next")) :: vals_on) = false.
Proof. vm_compute. reflexivity. Qed.

(* generic connection to the lifecycle model: if every member an observation reads is reset (the others being persistent),
   the recycled object is observationally the fresh one *)
Theorem C16_reset_all_fields_is_init :
  forall (V O : Type) (init : string -> V) (observe : (string -> V) -> O) (footprint fields W P : list string),
    (forall s1 s2, (forall f, In f footprint -> s1 f = s2 f) -> observe s1 = observe s2) ->
    (forall f, In f footprint -> In f fields) ->
    (forall f, In f fields -> mem f W = true \/ mem f P = true) ->
    (forall f, In f footprint -> mem f P = false) ->
    forall s, observe (reset_with V init W s) = observe init.
Proof. exact reset_all_fields_is_init_stmt. Qed.
Print Assumptions C16_reset_all_fields_is_init.

(* ------------------------------------------------------------------ lifecycle model (Lifecycle/LifecycleModel.v) *)

(* after ANY history that ends in reset(soft|hard)+init+attach, reinit, or a new holder, the core of the state (everything a
   later generation can observe or depends on) equals the core of fresh objects *)
Theorem C16_fresh_equiv :
  forall h r s, ready s = true -> reset_like r = true -> s_core (run (h ++ [r]) s) = core0.
Proof. exact fresh_equiv. Qed.
Print Assumptions C16_fresh_equiv.

(* hence generating a program after such a history (and after any neutral steps: loggers on/off, heap perturbation,
   detach + re-attach) yields the state generation on fresh objects yields *)
Theorem C16_reset_equivalent :
  forall h r n s e, ready s = true -> reset_like r = true -> forallb neutral n = true ->
    s_core (do_step (SGen e) (run (h ++ r :: n) s)) = s_core (do_step (SGen e) state0).
Proof. exact generate_after_reset_and_neutral_equals_fresh. Qed.
Print Assumptions C16_reset_equivalent.

(* the same for any next step -- in particular for SProg, a program given by its operations (new labels, named labels with duplicate
   detection, sections, the library-created .addrtab section, functions, virtual registers, local constants, annotations) whose effect
   on the label / section / register / annotation counters is COMPUTED by the model; only the relocation count is an input *)
Theorem C16_program_after_reset_equals_fresh :
  forall h r n s ops drel pend, ready s = true -> reset_like r = true -> forallb neutral n = true ->
    s_core (do_step (SProg ops drel pend) (run (h ++ r :: n) s)) = s_core (do_step (SProg ops drel pend) state0).
Proof. intros h r n s ops drel pend. exact (any_step_after_reset_equals_fresh h r n s (SProg ops drel pend)). Qed.
Print Assumptions C16_program_after_reset_equals_fresh.

(* the n-th function of a reused Compiler (one reinit per function) is generated from the fresh core *)
Theorem C16_function_independent :
  forall (fs : list effect) s e, ready s = true ->
    s_core (do_step (SGen e) (run (flat_map (fun f => [SGen f; SReinit]) fs) s)) =
    match fs with [] => s_core (do_step (SGen e) s) | _ => s_core (do_step (SGen e) state0) end.
Proof. exact function_independent. Qed.
Print Assumptions C16_function_independent.

(* non-interference: loggers and retained resources (arena blocks, buffer capacity; the model has no addresses at all) never
   flow into the core, under any script. The implementation side of this is tested by the differential, not proved. *)
Theorem C16_output_independent_of_heap :
  forall h s1 s2, s_core s1 = s_core s2 -> s_valid s1 = s_valid s2 ->
    s_core (run h s1) = s_core (run h s2) /\ s_valid (run h s1) = s_valid (run h s2).
Proof. exact run_independent_of_ambient. Qed.
Print Assumptions C16_output_independent_of_heap.

(* ------------------------------------------------------------------ the Builder after reinit / detach, on C08's Builder model *)

(* BaseBuilder_clear_all never clears _dirty_section_links (the one BaseBuilder member on the persistent list without a write).
   On C08's model of the Builder (node list, cursor, pool of removed nodes, cached section links, dirty flag, one-shot state; every
   emitter call incl. section switching and every node-list edit) a recycled builder -- the initial state with WHATEVER dirty flag the
   previous use left -- is indistinguishable from a fresh one under every command sequence: same node list, cursor, pool, counters,
   one-shot state (everything but the cache itself) and the same error code at every step.
   `supported` lists every command of C08's model as it is today (incl. constant-pool scopes, annotated jumps, invoke and function
   nodes); it is total with a wildcard, so a command added to the model later falls outside the statement instead of breaking it. *)
Theorem C16_recycled_builder_equals_fresh :
  forall rs stale_dirty cs, forallb BuilderDirty.supported cs = true ->
    BuilderDirty.strip (BuilderModel.run (BuilderDirty.recycled_state rs stale_dirty) cs) =
    BuilderDirty.strip (BuilderModel.run (BuilderModel.init_state rs) cs) /\
    BuilderDirty.run_errors (BuilderDirty.recycled_state rs stale_dirty) cs = BuilderDirty.run_errors (BuilderModel.init_state rs) cs.
Proof. exact BuilderDirty.recycled_builder_equals_fresh. Qed.
Print Assumptions C16_recycled_builder_equals_fresh.

(* whole Builder lifecycles: after ANY history of generation (emitter calls, section switches, node-list edits) and resets that ends
   in a reset (detach + attach, or reinit), generating a command sequence gives the node list, cursor, pool, counters, one-shot
   state and error codes that a fresh builder gives -- here the program's effect is computed by the model, not measured *)
Theorem C16_builder_history_irrelevant :
  forall h rs cs b0, forallb BuilderDirty.supported cs = true ->
    BuilderDirty.strip (BuilderModel.run (fold_left BuilderDirty.do_bl (h ++ [BuilderDirty.BReset rs]) b0) cs) =
    BuilderDirty.strip (BuilderModel.run (BuilderModel.init_state rs) cs) /\
    BuilderDirty.run_errors (fold_left BuilderDirty.do_bl (h ++ [BuilderDirty.BReset rs]) b0) cs =
    BuilderDirty.run_errors (BuilderModel.init_state rs) cs.
Proof. exact BuilderDirty.builder_history_irrelevant. Qed.
Print Assumptions C16_builder_history_irrelevant.

(* ------------------------------------------------------------------ whole Builder / Compiler lifecycles on C08's node-list model
   (Lifecycle/BuilderLifecycle.v). BGen cs = any command sequence, BReset rs = detach + attach or reinit for register size rs.
   All statements hold for ALL histories h, start states b0 and command sequences cs. *)
Module BM := BuilderModel. Module BD := BuilderDirty. Module BL := BuilderLifecycle.

(* what a reset leaves behind, field by field: everything but the dirty flag has its initial value *)
Theorem C16_builder_reset_fields :
  forall h rs b0, let b := fold_left BD.do_bl (h ++ [BD.BReset rs]) b0 in
    BM.active b = [BM.sec_node 0%Z] /\ BM.cursor b = Some 0%nat /\ BM.pool b = [] /\ BM.links b = [] /\
    BM.nlabels b = 0%Z /\ BM.nsections b = 1%Z /\ BM.regsize b = rs /\
    BM.p_opts b = 0%Z /\ BM.p_exsig b = 0%Z /\ BM.p_exid b = 0%Z /\ BM.p_comment b = None /\
    BM.cur_func b = None /\ BM.lpool b = None /\ BM.gpool b = None.
Proof. exact BL.reset_fields. Qed.
Print Assumptions C16_builder_reset_fields.

Theorem C16_builder_reset_idempotent :
  forall b rs, BD.do_bl (BD.do_bl b (BD.BReset rs)) (BD.BReset rs) = BD.do_bl b (BD.BReset rs).
Proof. exact BL.reset_idempotent. Qed.
Print Assumptions C16_builder_reset_idempotent.

(* the last reset wins, also when the register size changes in between (x86-32 <-> x86-64 re-initialisation) *)
Theorem C16_builder_last_reset_wins :
  forall h1 h2 rs1 rs2 b0, exists d,
    fold_left BD.do_bl (h1 ++ [BD.BReset rs1] ++ h2 ++ [BD.BReset rs2]) b0 = BD.recycled_state rs2 d.
Proof. exact BL.last_reset_wins. Qed.
Print Assumptions C16_builder_last_reset_wins.

(* C08's structural invariants (cursor inside the node list, section-link cache valid-or-dirty, section nodes unique) hold after
   ANY history of generation and resets *)
Theorem C16_builder_lifecycle_invariants :
  forall h b0, BL.inv b0 -> BL.inv (fold_left BD.do_bl h b0).
Proof. exact BL.lifecycle_invariants. Qed.
Print Assumptions C16_builder_lifecycle_invariants.

(* finalize() of a recycled builder serializes exactly the emitter calls of a fresh builder *)
Theorem C16_recycled_builder_serializes_like_fresh :
  forall rs d cs, forallb BD.supported cs = true ->
    BM.replay (BM.run (BD.recycled_state rs d) cs) = BM.replay (BM.run (BM.init_state rs) cs) /\
    BM.trace (BM.replay (BM.run (BD.recycled_state rs d) cs)) = BM.trace (BM.replay (BM.run (BM.init_state rs) cs)).
Proof. exact BL.recycled_builder_serializes_like_fresh. Qed.
Print Assumptions C16_recycled_builder_serializes_like_fresh.

Theorem C16_builder_history_serializes_like_fresh :
  forall h rs cs b0, forallb BD.supported cs = true ->
    BM.trace (BM.replay (BM.run (fold_left BD.do_bl (h ++ [BD.BReset rs]) b0) cs)) = BM.trace (BM.replay (BM.run (BM.init_state rs) cs)).
Proof. exact BL.history_serializes_like_fresh. Qed.
Print Assumptions C16_builder_history_serializes_like_fresh.

(* detach + attach on a holder that keeps its nl labels and ns sections = a fresh builder attached to that holder *)
Theorem C16_reattached_builder_equals_fresh_on_holder :
  forall rs nl ns d cs, forallb BD.supported cs = true ->
    BD.same (BM.run (BL.reattached_state rs nl ns d) cs) (BM.run (BL.fresh_on_holder rs nl ns) cs) /\
    BD.run_errors (BL.reattached_state rs nl ns d) cs = BD.run_errors (BL.fresh_on_holder rs nl ns) cs.
Proof. exact BL.reattached_builder_equals_fresh_on_holder. Qed.
Print Assumptions C16_reattached_builder_equals_fresh_on_holder.

(* nothing of the earlier use can be named after a reset: no label id, no section but .text, no open function *)
Theorem C16_no_label_survives_reset :
  forall h rs b0 l, snd (BM.step (fold_left BD.do_bl (h ++ [BD.BReset rs]) b0) (BM.CBind l)) = BM.kInvalidLabel.
Proof. exact BL.no_label_survives_reset. Qed.
Print Assumptions C16_no_label_survives_reset.

Theorem C16_no_section_survives_reset :
  forall h rs b0 s, s <> 0%Z -> snd (BM.step (fold_left BD.do_bl (h ++ [BD.BReset rs]) b0) (BM.CSection s)) = BM.kInvalidSection.
Proof. exact BL.no_section_survives_reset. Qed.
Print Assumptions C16_no_section_survives_reset.

Theorem C16_no_open_function_survives_reset :
  forall h rs b0, snd (BM.step (fold_left BD.do_bl (h ++ [BD.BReset rs]) b0) BM.CEndFunc) = BM.kInvalidState.
Proof. exact BL.no_open_function_survives_reset. Qed.
Print Assumptions C16_no_open_function_survives_reset.

(* C08's main theorem carries over to a recycled builder: what it serializes groups, section by section, exactly like the calls made *)
Theorem C16_recycled_replay_is_grouping :
  forall rs d cs, forallb BD.supported cs = true -> Forall BuilderGrouping.emitter cs -> BM.all_ok (BM.init_state rs) cs = true ->
    let b := BM.run (BD.recycled_state rs d) cs in
    (forall s, BM.project s (BM.trace (BM.replay b)) = BM.project s (BM.trace cs)) /\
    (forall x, In x (BM.sec_seq (BM.active b)) <-> x = 0%Z \/ In (BM.ESection x) (BM.trace cs)) /\
    NoDup (BM.sec_seq (BM.active b)).
Proof. exact BL.recycled_replay_is_grouping. Qed.
Print Assumptions C16_recycled_replay_is_grouping.

(* ... so for any assembler that treats sections independently (C03/C04's hypothesis in C08) the image of a recycled builder is the
   image of the calls made *)
Theorem C16_recycled_same_image_if_order_irrelevant :
  forall (image : Type) (asm : list BM.ecall -> image),
    (forall es es', (forall s, BM.project s es = BM.project s es') -> asm es = asm es') ->
    forall rs d cs, forallb BD.supported cs = true -> Forall BuilderGrouping.emitter cs -> BM.all_ok (BM.init_state rs) cs = true ->
      asm (BM.trace (BM.replay (BM.run (BD.recycled_state rs d) cs))) = asm (BM.trace cs).
Proof. exact BL.recycled_same_image_if_order_irrelevant. Qed.
Print Assumptions C16_recycled_same_image_if_order_irrelevant.

(* splitting a program over any number of generate calls changes nothing *)
Theorem C16_generate_in_pieces :
  forall ps s, fold_left BD.do_bl (map BD.BGen ps) s = BD.do_bl s (BD.BGen (concat ps)).
Proof. exact BL.generate_pieces_any. Qed.
Print Assumptions C16_generate_in_pieces.

(* histories that also contain detach + attach (the holder keeps its labels and sections): invariants, irrelevance, fields *)
Theorem C16_builder_lifecycle2_invariants :
  forall h b0, BL.inv b0 -> BL.inv (fold_left BL.do_bl2 h b0).
Proof. exact BL.lifecycle2_invariants. Qed.
Print Assumptions C16_builder_lifecycle2_invariants.

Theorem C16_reattach_history_irrelevant :
  forall h cs b0, forallb BD.supported cs = true ->
    let b := fold_left BL.do_bl2 h b0 in
    BD.same (BM.run (BL.do_bl2 b BL.B2Reattach) cs) (BM.run (BL.fresh_on_holder (BM.regsize b) (BM.nlabels b) (BM.nsections b)) cs) /\
    BD.run_errors (BL.do_bl2 b BL.B2Reattach) cs = BD.run_errors (BL.fresh_on_holder (BM.regsize b) (BM.nlabels b) (BM.nsections b)) cs.
Proof. exact BL.reattach_history_irrelevant. Qed.
Print Assumptions C16_reattach_history_irrelevant.

Theorem C16_reattach_fields :
  forall b, let b' := BL.do_bl2 b BL.B2Reattach in
    BM.active b' = [BM.sec_node 0%Z] /\ BM.cursor b' = Some 0%nat /\ BM.pool b' = [] /\ BM.cur_func b' = None /\ BM.lpool b' = None /\
    BM.gpool b' = None /\ BM.p_opts b' = 0%Z /\ BM.p_comment b' = None /\
    BM.nlabels b' = BM.nlabels b /\ BM.nsections b' = BM.nsections b /\ BM.regsize b' = BM.regsize b.
Proof. exact BL.reattach_fields. Qed.
Print Assumptions C16_reattach_fields.

(* the recycled builder differs from the fresh one in the dirty flag ONLY *)
Theorem C16_recycled_differs_only_in_dirty :
  forall rs d, BD.recycled_state rs false = BM.init_state rs /\ BD.strip (BD.recycled_state rs d) = BD.strip (BM.init_state rs) /\
               BM.dirty (BD.recycled_state rs d) = d.
Proof. exact BL.recycled_differs_only_in_dirty. Qed.
Print Assumptions C16_recycled_differs_only_in_dirty.

(* every command a node list serializes to is supported, so re-recording ANY serialized node list into a recycled builder gives what
   a fresh builder gives -- no side condition *)
Theorem C16_rerecord_into_recycled_builder :
  forall rs d b, (forallb BD.supported (BM.replay b) = true) /\
    BD.same (BM.run (BD.recycled_state rs d) (BM.replay b)) (BM.run (BM.init_state rs) (BM.replay b)) /\
    BD.run_errors (BD.recycled_state rs d) (BM.replay b) = BD.run_errors (BM.init_state rs) (BM.replay b).
Proof. intros rs d b. split; [apply BL.replay_supported | apply BL.rerecord_into_recycled_builder]. Qed.
Print Assumptions C16_rerecord_into_recycled_builder.

(* one Builder / Compiler reused for a whole series of programs (a reset before each): every program is serialized exactly as a
   fresh builder would serialize it, whatever came before *)
Theorem C16_every_program_of_a_series_is_fresh :
  forall ps b, forallb (fun p => forallb BD.supported (snd p)) ps = true ->
    BL.series b ps = map (fun p => BM.trace (BM.replay (BM.run (BM.init_state (fst p)) (snd p)))) ps.
Proof. exact BL.every_program_of_a_series_is_fresh. Qed.
Print Assumptions C16_every_program_of_a_series_is_fresh.

(* ------------------------------------------------------------------ round 6: hypotheses discharged *)
(* C08's command type is final: `supported` holds for every command, so the Builder theorems hold for ALL command sequences *)
Theorem C16_supported_all : forall c, BD.supported c = true.
Proof. exact BD.supported_all. Qed.
Print Assumptions C16_supported_all.

Theorem C16_recycled_builder_equals_fresh_all :
  forall rs d cs,
    BD.strip (BM.run (BD.recycled_state rs d) cs) = BD.strip (BM.run (BM.init_state rs) cs) /\
    BD.run_errors (BD.recycled_state rs d) cs = BD.run_errors (BM.init_state rs) cs.
Proof. exact BD.recycled_builder_equals_fresh_all. Qed.
Print Assumptions C16_recycled_builder_equals_fresh_all.

Theorem C16_builder_history_irrelevant_all :
  forall h rs cs b0,
    BD.strip (BM.run (fold_left BD.do_bl (h ++ [BD.BReset rs]) b0) cs) = BD.strip (BM.run (BM.init_state rs) cs) /\
    BD.run_errors (fold_left BD.do_bl (h ++ [BD.BReset rs]) b0) cs = BD.run_errors (BM.init_state rs) cs.
Proof. exact BD.builder_history_irrelevant_all. Qed.
Print Assumptions C16_builder_history_irrelevant_all.

Theorem C16_dirty_flag_harmless_all :
  forall cs b1 b2, BuilderLinks.links_ok b1 -> BuilderLinks.links_ok b2 -> BD.same b1 b2 ->
    BD.same (BM.run b1 cs) (BM.run b2 cs) /\ BD.run_errors b1 cs = BD.run_errors b2 cs.
Proof. exact BD.dirty_flag_harmless_all. Qed.
Print Assumptions C16_dirty_flag_harmless_all.

Theorem C16_builder_history_serializes_like_fresh_all :
  forall h rs cs b0,
    BM.trace (BM.replay (BM.run (fold_left BD.do_bl (h ++ [BD.BReset rs]) b0) cs)) = BM.trace (BM.replay (BM.run (BM.init_state rs) cs)).
Proof. exact BL.history_serializes_like_fresh_all. Qed.
Print Assumptions C16_builder_history_serializes_like_fresh_all.

Theorem C16_reattach_history_irrelevant_all :
  forall h cs b0, let b := fold_left BL.do_bl2 h b0 in
    BD.same (BM.run (BL.do_bl2 b BL.B2Reattach) cs) (BM.run (BL.fresh_on_holder (BM.regsize b) (BM.nlabels b) (BM.nsections b)) cs) /\
    BD.run_errors (BL.do_bl2 b BL.B2Reattach) cs = BD.run_errors (BL.fresh_on_holder (BM.regsize b) (BM.nlabels b) (BM.nsections b)) cs.
Proof. exact BL.reattach_history_irrelevant_all. Qed.
Print Assumptions C16_reattach_history_irrelevant_all.

Theorem C16_every_program_of_a_series_is_fresh_all :
  forall ps b, BL.series b ps = map (fun p => BM.trace (BM.replay (BM.run (BM.init_state (fst p)) (snd p)))) ps.
Proof. exact BL.every_program_of_a_series_is_fresh_all. Qed.
Print Assumptions C16_every_program_of_a_series_is_fresh_all.

(* C08's grouping theorem for recycled builders; its acceptance hypothesis can be stated on either builder: a recycled builder
   accepts a stream iff a fresh one does *)
Theorem C16_recycled_replay_is_grouping_all :
  forall rs d cs, Forall BuilderGrouping.emitter cs -> BM.all_ok (BM.init_state rs) cs = true ->
    let b := BM.run (BD.recycled_state rs d) cs in
    (forall s, BM.project s (BM.trace (BM.replay b)) = BM.project s (BM.trace cs)) /\
    (forall x, In x (BM.sec_seq (BM.active b)) <-> x = 0%Z \/ In (BM.ESection x) (BM.trace cs)) /\
    NoDup (BM.sec_seq (BM.active b)).
Proof. exact BL.recycled_replay_is_grouping_all. Qed.
Print Assumptions C16_recycled_replay_is_grouping_all.

Theorem C16_all_ok_recycled_iff_fresh :
  forall rs d cs, BM.all_ok (BD.recycled_state rs d) cs = BM.all_ok (BM.init_state rs) cs.
Proof. exact BL.all_ok_recycled_iff_fresh. Qed.
Print Assumptions C16_all_ok_recycled_iff_fresh.

(* more generally: any two builders that agree up to the link cache and whose caches are valid-or-dirty (an invariant of every run,
   BuilderLinks.links_ok_run) stay so and report the same errors *)
Theorem C16_dirty_flag_harmless :
  forall cs b1 b2, forallb BuilderDirty.supported cs = true ->
    BuilderLinks.links_ok b1 -> BuilderLinks.links_ok b2 -> BuilderDirty.same b1 b2 ->
    BuilderDirty.same (BuilderModel.run b1 cs) (BuilderModel.run b2 cs) /\ BuilderDirty.run_errors b1 cs = BuilderDirty.run_errors b2 cs.
Proof. exact BuilderDirty.dirty_flag_harmless. Qed.
Print Assumptions C16_dirty_flag_harmless.

(* logger / heap independence as an erasure theorem: attaching or detaching loggers, perturbing the heap and attaching a passive
   second emitter, at ANY points of a history, do not change what the history does to the core state and configuration *)
Theorem C16_logging_and_heap_steps_erasable :
  forall h s1 s2, s_core s1 = s_core s2 -> s_valid s1 = s_valid s2 ->
    s_core (run h s1) = s_core (run (erase_ambient h) s2) /\ s_valid (run h s1) = s_valid (run (erase_ambient h) s2).
Proof. exact erase_ambient_same_core. Qed.
Print Assumptions C16_logging_and_heap_steps_erasable.

(* ------------------------------------------------------------------ full-strength statements about the lifecycle steps *)
Theorem C16_reset_like_idempotent :
  forall r1 r2 s, ready s = true -> reset_like r1 = true -> reset_like r2 = true ->
    s_core (do_step r2 (do_step r1 s)) = s_core (do_step r1 s).
Proof. exact reset_like_idempotent. Qed.
Print Assumptions C16_reset_like_idempotent.

(* what a reset-like step must NOT change: the persistent configuration and the emitter's own logger *)
Theorem C16_reset_like_keeps_configuration :
  forall r s, reset_like r = true -> s_valid (do_step r s) = s_valid s /\ a_own (s_amb (do_step r s)) = a_own (s_amb s).
Proof. intros r s H. split; [apply reset_like_keeps_configuration | apply reset_like_keeps_own_logger]; exact H. Qed.
Print Assumptions C16_reset_like_keeps_configuration.

(* a holder reset drops the holder's logger, reinit keeps it *)
Theorem C16_holder_logger_across_resets :
  forall s, (forall p, a_hlog (s_amb (do_step (SReset p) s)) = false) /\ a_hlog (s_amb (do_step SReinit s)) = a_hlog (s_amb s).
Proof. intros s. split; [intros p; apply holder_reset_drops_holder_logger | apply reinit_keeps_holder_logger]. Qed.
Print Assumptions C16_holder_logger_across_resets.

(* the effective logger of the emitter is its own logger, else the holder's: invariant of every script *)
Theorem C16_logger_consistent :
  forall h s, logger_consistent s -> logger_consistent (run h s).
Proof. exact logger_consistent_run. Qed.
Print Assumptions C16_logger_consistent.
Example C16_logger_consistent_state0 : logger_consistent state0.
Proof. reflexivity. Qed.

(* a program never decreases a counter and never touches initialisation, attachment, configuration or loggers *)
Theorem C16_program_is_monotone :
  forall ops drel pend s, let s' := do_step (SProg ops drel pend) s in
    (c_sec (s_core s) <= c_sec (s_core s') /\ c_lab (s_core s) <= c_lab (s_core s') /\ c_rel (s_core s) <= c_rel (s_core s') /\
     c_vregs (s_core s) <= c_vregs (s_core s') /\ c_ja (s_core s) <= c_ja (s_core s'))%N /\
    c_init (s_core s') = c_init (s_core s) /\ c_att (s_core s') = c_att (s_core s) /\
    s_valid s' = s_valid s /\ s_amb s' = s_amb s.
Proof. exact program_is_monotone. Qed.
Print Assumptions C16_program_is_monotone.

(* no label name and no library-created section survives a reset (within one holder life a name IS remembered:
   LifecycleProofs.name_is_remembered_without_reset) *)
Theorem C16_names_do_not_survive_reset :
  forall h r s id, ready s = true -> reset_like r = true ->
    c_lab (s_core (do_step (SProg [PNamed id] 0 false) (run (h ++ [r]) s))) = 1%N.
Proof. exact names_do_not_survive_reset. Qed.
Print Assumptions C16_names_do_not_survive_reset.

Theorem C16_addrtab_does_not_survive_reset :
  forall h r s, ready s = true -> reset_like r = true ->
    c_sec (s_core (do_step (SProg [PAddrTab] 0 false) (run (h ++ [r]) s))) = 2%N.
Proof. exact addrtab_does_not_survive_reset. Qed.
Print Assumptions C16_addrtab_does_not_survive_reset.

(* the line the harness prints after history ++ reset-like ++ neutral steps: everything but the two logger flags is the fresh value *)
Theorem C16_observation_after_reset :
  forall h r n s, ready s = true -> reset_like r = true -> forallb neutral n = true ->
    firstn 2 (observe (run (h ++ r :: n) s)) = [1; 1]%N /\
    firstn 3 (skipn 3 (observe (run (h ++ r :: n) s))) = [1; 0; 0]%N /\
    skipn 8 (observe (run (h ++ r :: n) s)) = [0; 0; 0]%N.
Proof. exact observation_after_reset. Qed.
Print Assumptions C16_observation_after_reset.

(* what detach + attach touches (emitter state) and what it must not touch (holder content, configuration) *)
Theorem C16_detach_attach_scope :
  forall s, let s' := do_step SDetachAttach s in
    c_init (s_core s') = c_init (s_core s) /\ c_sec (s_core s') = c_sec (s_core s) /\ c_lab (s_core s') = c_lab (s_core s) /\
    c_rel (s_core s') = c_rel (s_core s) /\ c_names (s_core s') = c_names (s_core s) /\ c_addrtab (s_core s') = c_addrtab (s_core s) /\
    c_att (s_core s') = true /\ c_pending (s_core s') = false /\ c_nodes (s_core s') = 0%N /\ c_vregs (s_core s') = 0%N /\
    c_ja (s_core s') = 0%N /\ c_final (s_core s') = false /\ c_lpool (s_core s') = false /\
    s_valid s' = s_valid s /\ a_own (s_amb s') = a_own (s_amb s) /\ a_hlog (s_amb s') = a_hlog (s_amb s).
Proof. exact detach_attach_scope. Qed.
Print Assumptions C16_detach_attach_scope.

(* a new emitter on the same holder: holder content kept, emitter state and emitter configuration at their defaults *)
Theorem C16_new_emitter_scope :
  forall s, let s' := do_step SNewEmitter s in
    c_sec (s_core s') = c_sec (s_core s) /\ c_lab (s_core s') = c_lab (s_core s) /\ c_rel (s_core s') = c_rel (s_core s) /\
    c_names (s_core s') = c_names (s_core s) /\ c_addrtab (s_core s') = c_addrtab (s_core s) /\
    c_pending (s_core s') = false /\ c_vregs (s_core s') = 0%N /\ c_ja (s_core s') = 0%N /\
    s_valid s' = false /\ a_own (s_amb s') = false /\ a_elog (s_amb s') = a_hlog (s_amb s).
Proof. exact new_emitter_scope. Qed.
Print Assumptions C16_new_emitter_scope.

(* the observation trace has one line per step and is compositional *)
Theorem C16_trace_compositional :
  (forall h1 h2 s, trace (h1 ++ h2) s = (trace h1 s ++ trace h2 (run h1 s))%list) /\ (forall h s, length (trace h s) = length h).
Proof. split; [exact trace_app | exact trace_length]. Qed.
Print Assumptions C16_trace_compositional.

(* `ready` discharged: from the start, ANY script that ends in a reset-like step leads to the fresh core -- no side condition *)
Theorem C16_fresh_equiv_from_start :
  forall h r, reset_like r = true -> s_core (run (h ++ [r]) state0) = core0.
Proof. exact fresh_equiv_from_start. Qed.
Print Assumptions C16_fresh_equiv_from_start.

Theorem C16_any_step_after_reset_from_start :
  forall h r n x, reset_like r = true -> forallb neutral n = true ->
    s_core (do_step x (run (h ++ r :: n) state0)) = s_core (do_step x state0).
Proof. exact any_step_after_reset_from_start. Qed.
Print Assumptions C16_any_step_after_reset_from_start.

(* ... and in every reachable state; reachable states are ready and logger-consistent *)
Theorem C16_reachable_states :
  forall s, reachable s ->
    ready s = true /\ logger_consistent s /\
    (forall h r, reset_like r = true -> s_core (run (h ++ [r]) s) = core0) /\
    (forall h, reachable (run h s)).
Proof.
  intros s Hs. split; [apply reachable_ready; exact Hs|]. split; [apply logger_consistent_reachable; exact Hs|].
  split; [intros h r Hr; apply fresh_equiv_reachable; assumption | intros h; apply reachable_run; exact Hs].
Qed.
Print Assumptions C16_reachable_states.

(* the hypotheses above are satisfiable *)
Example C16_ready_state0 : ready state0 = true.
Proof. exact ready_state0. Qed.

(* ------------------------------------------------------------------ round 7: sequence-level lifts, completeness directions *)

(* the execution model is compositional, a repeated reset is a no-op, and the store before a sequence is irrelevant for every member
   the sequence assigns -- any sequences, any stores *)
Theorem C16_exec_sequences :
  (forall fn p q s, exec_fn fn (p ++ q)%list s = exec_fn fn q (exec_fn fn p s)) /\
  (forall fn p s c f, exec_fn fn (p ++ p)%list s c f = exec_fn fn p s c f) /\
  (forall fn p s1 s2 c f e, last_val p fn c f None = Some e -> exec_fn fn p s1 c f = exec_fn fn p s2 c f).
Proof. split; [exact exec_fn_app | split; [exact exec_fn_idempotent | exact exec_fn_history_irrelevant]]. Qed.
Print Assumptions C16_exec_sequences.

(* the value checker is COMPLETE as well as sound: the per-assignment verdict is characterised in both directions, a missing initial
   value is exactly "no entry", and a tree whose assignments satisfy the specification (with live lists) is accepted *)
Theorem C16_value_checker_complete :
  (forall is v, val_ok is v = true <->
     (~ In (v_func v) value_funcs \/ excepted v = true \/
      exists i, lookup_init is (v_class v) (v_field v) = Some i /\ same_value i (v_val v) = true)) /\
  (forall is c f, lookup_init is c f = None <-> forall e, ~ In (mk_init c f e) is) /\
  (forall is vs,
     (forall v, In v vs -> ~ In (v_func v) value_funcs \/ excepted v = true \/
                exists i, lookup_init is (v_class v) (v_field v) = Some i /\ same_value i (v_val v) = true) ->
     values_hygiene is vs = true -> check_values is vs = true).
Proof. split; [exact val_ok_spec | split; [exact lookup_init_none | exact check_values_complete]]. Qed.
Print Assumptions C16_value_checker_complete.

(* non-vacuity: running on_detach's extracted assignments twice from a stale store gives what one run gives (and that is the
   initial value); a member without an initialiser entry is reported as such *)
Example C16_on_detach_twice :
  let p := filter (fun v => String.eqb (v_func v) "BaseEmitter::on_detach") vals in
  let stale : store := fun _ _ => Some (CName "stale") in
  exec_fn "BaseEmitter::on_detach" (p ++ p)%list stale "BaseEmitter" "_forced_inst_options"
    = exec_fn "BaseEmitter::on_detach" p stale "BaseEmitter" "_forced_inst_options" /\
  exec_fn "BaseEmitter::on_detach" p stale "BaseEmitter" "_forced_inst_options" = Some (CName "kReserved") /\
  exec_fn "BaseEmitter::on_detach" p stale "BaseEmitter" "_emitter_type" = Some (CName "stale").
Proof. vm_compute. repeat split. Qed.
Example C16_lookup_init_none_example : lookup_init inits "BaseEmitter" "_no_such_member" = None.
Proof. vm_compute. reflexivity. Qed.

(* sequence-level lift of C16_any_step_after_reset_from_start: not one step but a WHOLE continuation script behaves, after any
   history that ends in a reset-like step (and neutral steps), like the same script after any other such history with the same
   validation configuration (which persists by contract) -- and like the script on fresh objects when validation is as at the start *)
Theorem C16_whole_script_after_reset :
  (forall h1 r1 n1 h2 r2 n2 t,
     reset_like r1 = true -> forallb neutral n1 = true -> reset_like r2 = true -> forallb neutral n2 = true ->
     s_valid (run (h1 ++ r1 :: n1) state0) = s_valid (run (h2 ++ r2 :: n2) state0) ->
     s_core (run (h1 ++ r1 :: n1 ++ t) state0) = s_core (run (h2 ++ r2 :: n2 ++ t) state0) /\
     s_valid (run (h1 ++ r1 :: n1 ++ t) state0) = s_valid (run (h2 ++ r2 :: n2 ++ t) state0)) /\
  (forall h r n t,
     reset_like r = true -> forallb neutral n = true -> s_valid (run (h ++ r :: n) state0) = s_valid state0 ->
     s_core (run (h ++ r :: n ++ t) state0) = s_core (run t state0) /\
     s_valid (run (h ++ r :: n ++ t) state0) = s_valid (run t state0)).
Proof. split; [exact whole_script_after_reset_two_histories | exact whole_script_after_reset]. Qed.
Print Assumptions C16_whole_script_after_reset.

(* non-vacuity: a used holder / emitter (two sections, five labels, a relocation, a logger), reset, heap perturbed, then a
   continuation of three steps including another reset: same core as the continuation alone; the core is not the trivial one *)
Example C16_whole_script_example :
  let h := [SGen (mkEff 2 5 1 0 0 0 true false 100); SLogger true] in
  let t := [SGen (mkEff 1 2 0 0 0 0 false false 7); SDetachAttach; SGen (mkEff 0 1 1 0 0 0 false false 3)] in
  s_core (run (h ++ SReset Soft :: [SHeap 9; SEmLogger true] ++ t) state0) = s_core (run t state0) /\
  s_core (run t state0) <> core0.
Proof. split; [vm_compute; reflexivity | vm_compute; discriminate]. Qed.

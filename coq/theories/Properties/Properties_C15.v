(* C15 - Allocation failure yields an error - never a crash, leak or wrong code.

   Theorems over the oracle-threaded models of Verif.OomTxn.OracleModel.  `ok : nat -> bool` is the allocation oracle (the k-th
   arena request of the run succeeds iff ok k); every theorem is stated for ALL oracles, i.e. for every single failure position
   and every multi-failure pattern.  Hash theorems are instantiated with the prime table re-extracted from
   asmjit/support/arenahash.cpp on every run (VerifGen.C15Tables).

   full     : C15_vec_step_atomic, C15_vec_ok_is_failure_free, C15_vec_run_failed_ops_vanish, C15_reserve_gives_capacity,
              C15_hash_step_atomic, C15_hash_get_exact, C15_hash_rehash_benign, C15_hash_tables_wellformed, C15_hash_calc_mod_exact,
              C15_pool_add_failure_keeps_constants, C15_pool_add_ok_findable_and_stable, C15_pool_run_offsets_stable,
              C15_holder_step_atomic, C15_holder_ok_is_failure_free, C15_holder_run_failed_ops_vanish,
              C15_holder2_step_atomic, C15_holder2_run_failed_ops_vanish (sections, address table, call imm),
              C15_builder_step_atomic (Builder label/section/instruction nodes),
              C15_vm_step_no_leak (VirtMem views + JitAllocator block records, two oracles)
   refuted  : C15_embed_label_pinned_refuted, C15_embed_delta_pinned_refuted, C15_call_abs_pinned_refuted (the code before C15-stale-reloc)
              C15_add_address_lazy_section_refuted (the lazily created .addrtab section survives a failed add - benign)
              C15_pool_add_size_atomic_refuted, C15_pool_add_ok_not_failure_free_refuted (ConstPool::add is atomic only in its
              constants, not in its size / gap bookkeeping - by design of the code, see design/C15.md) *)
From Coq Require Import ZArith List Bool Lia Permutation.
From Verif Require Jit.JitModel Jit.JitProofs.
From Verif Require Import OomTxn.OracleModel OomTxn.OracleProofs OomTxn.JitJointModel OomTxn.JitJointProofs.
From VerifGen Require Import C15Tables C15Consts.
Import ListNotations.
Local Open Scope Z_scope.

(* ------------------------------------------------------------------------------------------------------------ ArenaVector *)

(* Every vector operation, under every oracle: never "invalid"; a failure leaves the vector (elements AND capacity) exactly as
   it was; a success has the oracle-free abstract effect vec_spec; size <= capacity is kept (so append_unchecked after a
   successful reserve stays in bounds); at most one request is consumed. *)
Theorem C15_vec_step_atomic :
  forall (ok : nat -> bool) (isz : Z) (op : vop) (v : vec) (k : nat) (r : result) (v' : vec) (k' : nat),
    0 < isz -> vop_wf op -> vec_inv v ->
    vec_step ok isz op v k = (r, v', k') ->
    (k <= k' <= S k)%nat /\ r <> Invalid /\ vec_inv v' /\
    (r = Oom -> v' = v) /\
    (r = Ok -> v_items v' = vec_spec op (v_items v)).
Proof. exact vec_step_atomic. Qed.
Print Assumptions C15_vec_step_atomic.

Example C15_vec_step_atomic_satisfiable : 0 < 4 /\ vop_wf (VAppend 7) /\ vec_inv vec_empty.
Proof. unfold vec_inv, vsize, vop_wf. cbn. repeat split; lia. Qed.

(* An operation that reports success under some oracle is exactly the step of the failure-free run (whole state). *)
Theorem C15_vec_ok_is_failure_free :
  forall (ok : nat -> bool) (isz : Z) (op : vop) (v : vec) (k : nat) (v' : vec) (k' : nat),
    vec_step ok isz op v k = (Ok, v', k') -> vec_step all_ok isz op v k = (Ok, v', k').
Proof. exact vec_step_ok_failure_free. Qed.
Print Assumptions C15_vec_ok_is_failure_free.

(* Whole scripts: the final elements are what the oracle-free specification gives for exactly the operations that reported
   success - failed operations leave no trace. *)
Theorem C15_vec_run_failed_ops_vanish :
  forall (ok : nat -> bool) (isz : Z) (ops : list vop) (v : vec) (k : nat) (rs : list result) (v' : vec) (k' : nat),
    0 < isz -> Forall vop_wf ops -> vec_inv v ->
    vec_run ok isz ops v k = (rs, v', k') ->
    v_items v' = vec_replay ops rs (v_items v) /\ vec_inv v' /\ length rs = length ops /\ ~ In Invalid rs /\
    (k <= k' <= k + length ops)%nat.
Proof. exact vec_run_failed_ops_vanish. Qed.
Print Assumptions C15_vec_run_failed_ops_vanish.

(* The growth arithmetic never hands back less than was asked for (reserve-then-append discipline). *)
Theorem C15_reserve_gives_capacity :
  forall bs : Z, 0 < bs -> bs <= expand_bytes bs /\ bs <= slot_size bs.
Proof. exact (fun bs H => conj (expand_bytes_ge bs H) (slot_size_ge bs H)). Qed.
Print Assumptions C15_reserve_gives_capacity.

(* ------------------------------------------------------------------------------------------------------------ ArenaHash *)

Theorem C15_hash_tables_wellformed :
  Forall (fun p => 0 < p) hash_primes /\ map (fun row : Z * Z * Z => fst (fst row)) hash_rcp_rows = hash_primes.
Proof. exact (conj (primes_pos_of_forallb hash_primes hash_primes_positive) hash_rows_primes). Qed.
Print Assumptions C15_hash_tables_wellformed.

(* ArenaHashBase::_calc_mod (multiply by the reciprocal, shift, multiply back, subtract - with the uint64/uint32 wrap-around of
   the C++ code) is the mathematical remainder for EVERY row of the generated table and EVERY 32-bit hash code: this is what
   lets the hash model use `key mod n`. *)
Theorem C15_hash_calc_mod_exact :
  forall p r s h : Z, In (p, r, s) hash_rcp_rows -> 0 <= h < 2 ^ 32 -> calc_mod32 p r s h = h mod p.
Proof.
  exact (fun p r s h HI Hh => calc_mod32_correct p r s h (proj1 (forallb_forall rcp_row_exact hash_rcp_rows) hash_rcp_rows_exact (p, r, s) HI) Hh).
Qed.
Print Assumptions C15_hash_calc_mod_exact.

(* insert = node allocation + _insert (+ possibly a rehash), remove: under every oracle a step that does not report success
   leaves the table untouched, a successful one adds / removes exactly one occurrence of the key - whether or not the rehash
   it may have attempted got its memory. *)
Theorem C15_hash_step_atomic :
  forall (ok : nat -> bool) (op : hop) (h : hash) (k : nat) (r : result) (h' : hash) (k' : nat),
    hash_inv h -> hash_step ok hash_primes op h k = (r, h', k') ->
    hash_inv h' /\ (k <= k' <= S (S k))%nat /\
    (r <> Ok -> h' = h) /\
    (r = Ok -> match op with
               | HInsert key => Permutation (hash_keys h') (key :: hash_keys h) /\ h_size h' = h_size h + 1
               | HRemove key => Permutation (key :: hash_keys h') (hash_keys h) /\ h_size h' = h_size h - 1
               end).
Proof. exact (fun ok => hash_step_atomic ok hash_primes (primes_pos_of_forallb hash_primes hash_primes_positive)). Qed.
Print Assumptions C15_hash_step_atomic.

Example C15_hash_step_atomic_satisfiable : hash_inv hash_empty.
Proof. exact (hash_empty_inv all_ok). Qed.

Theorem C15_hash_get_exact :
  forall (h : hash) (key : Z), hash_inv h -> (hash_get h key = true <-> In key (hash_keys h)).
Proof. exact hash_get_correct. Qed.
Print Assumptions C15_hash_get_exact.

(* Any script from the empty table under any oracle (failed rehashes, failed node allocations): look-ups are exact. *)
Theorem C15_hash_rehash_benign :
  forall (ok : nat -> bool) (ops : list hop) (rs : list result) (h' : hash) (k' : nat) (key : Z),
    hash_run ok hash_primes ops hash_empty 0 = (rs, h', k') ->
    (hash_get h' key = true <-> In key (hash_keys h')).
Proof. exact (fun ok => hash_rehash_benign ok hash_primes (primes_pos_of_forallb hash_primes hash_primes_positive)). Qed.
Print Assumptions C15_hash_rehash_benign.

(* ------------------------------------------------------------------------------------------------------------ ConstPool *)

(* ConstPool::add (with fixes/C15-constpool-null.patch): an add that reports an error leaves every constant and every shared
   sub-constant where it was, under every oracle. *)
Theorem C15_pool_add_failure_keeps_constants :
  forall (ok : nat -> bool) (d : list Z) (p : pool) (k : nat) (r : result) (o : option Z) (p' : pool) (k' : nat),
    pool_add ok d p k = (r, o, p', k') -> r <> Ok -> p_trees p' = p_trees p.
Proof. exact pool_add_failure_keeps_constants. Qed.
Print Assumptions C15_pool_add_failure_keeps_constants.

(* A successful add, under every oracle (gap records and shared sub-constants may have been given up): the constant is found at
   the returned offset and every earlier look-up still answers the same offset. *)
Theorem C15_pool_add_ok_findable_and_stable :
  forall (ok : nat -> bool) (d : list Z) (p : pool) (k : nat) (o : option Z) (p' : pool) (k' : nat),
    length (p_trees p) = index_count ->
    pool_add ok d p k = (Ok, o, p', k') ->
    exists off, o = Some off /\ pool_lookup p' d = Some off /\
                length (p_trees p') = index_count /\
                (forall d0 o0, pool_lookup p d0 = Some o0 -> pool_lookup p' d0 = Some o0).
Proof.
  exact (fun ok d p k o p' k' L E =>
           match pool_add_ok ok d p k o p' k' L E with
           | ex_intro _ off (conj A (conj B C)) =>
               ex_intro _ off (conj A (conj B (conj (eq_trans (proj1 C) L) (fun d0 o0 H => pool_lookup_ext p p' d0 o0 H C))))
           end).
Qed.
Print Assumptions C15_pool_add_ok_findable_and_stable.

(* Whole scripts of adds under any oracle: every constant whose add() reported success is found at exactly the offset it was
   given at the end of the run, and what was in the pool before keeps its offset. *)
Theorem C15_pool_run_offsets_stable :
  forall (ok : nat -> bool) (ds : list (list Z)) (p : pool) (k : nat) (rs : list (result * option Z)) (p' : pool) (k' : nat),
    length (p_trees p) = index_count ->
    pool_run ok ds p k = (rs, p', k') ->
    length (p_trees p') = index_count /\
    (forall d0 o0, pool_lookup p d0 = Some o0 -> pool_lookup p' d0 = Some o0) /\
    (forall i d off, nth_error ds i = Some d -> nth_error rs i = Some (Ok, Some off) -> pool_lookup p' d = Some off).
Proof. exact pool_run_offsets_stable. Qed.
Print Assumptions C15_pool_run_offsets_stable.

Example C15_pool_add_ok_satisfiable : length (p_trees pool_empty) = index_count.
Proof. exact pool_empty_trees. Qed.

(* ... but the pool SIZE is not restored by a failed add (the code advances _size before it allocates the node), *)
Theorem C15_pool_add_size_atomic_refuted :
  exists ok d p, let '(r, _, p', _) := pool_add ok d p 0 in r = Oom /\ p_size p' <> p_size p.
Proof. exact pool_add_size_atomic_refuted. Qed.
Print Assumptions C15_pool_add_size_atomic_refuted.

(* ... and a successful add under failures need not equal the failure-free one (fewer shared sub-constants). *)
Theorem C15_pool_add_ok_not_failure_free_refuted :
  exists ok d p, let '(r, _, p', _) := pool_add ok d p 0 in let '(r0, _, p0, _) := pool_add all_ok d p 0 in
                 r = Ok /\ r0 = Ok /\ p_trees p' <> p_trees p0.
Proof. exact pool_add_ok_not_failure_free_refuted. Qed.
Print Assumptions C15_pool_add_ok_not_failure_free_refuted.

(* ------------------------------------------------------------------------------------------------------------ CodeHolder *)

(* new_label_id / new_reloc_entry / new_fixup / embed_label / embed_label_delta / bind_label with fixes/C15-stale-reloc.patch:
   under every oracle a step refines the oracle-free specification holder_spec - kOutOfMemory and refusals leave labels,
   fixups, relocations and the unresolved-fixup count untouched, a success is exactly the specified effect. *)
Theorem C15_holder_step_atomic :
  forall (ok : nat -> bool) (op : cop) (h : holder) (k : nat) (r : result) (h' : holder) (k' : nat),
    holder_step ok true op h k = (r, h', k') ->
    match r with
    | Ok => holder_spec op (holder_content h) = Some (holder_content h')
    | Oom => holder_content h' = holder_content h
    | Invalid => holder_content h' = holder_content h /\ holder_spec op (holder_content h) = None
    end.
Proof. exact holder_step_refines. Qed.
Print Assumptions C15_holder_step_atomic.

Theorem C15_holder_ok_is_failure_free :
  forall (ok : nat -> bool) (op : cop) (h : holder) (k : nat) (h' : holder) (k' : nat),
    holder_step ok true op h k = (Ok, h', k') -> holder_step all_ok true op h k = (Ok, h', k').
Proof. exact holder_step_ok_failure_free. Qed.
Print Assumptions C15_holder_ok_is_failure_free.

Theorem C15_holder_run_failed_ops_vanish :
  forall (ok : nat -> bool) (ops : list cop) (h : holder) (k : nat) (rs : list result) (h' : holder) (k' : nat),
    holder_run ok true ops h k = (rs, h', k') ->
    holder_replay ops rs (holder_content h) = Some (holder_content h') /\ length rs = length ops.
Proof. exact holder_run_failed_ops_vanish. Qed.
Print Assumptions C15_holder_run_failed_ops_vanish.

(* The pinned code (fixed = false): a failed embed_label / embed_label_delta leaves its relocation entry behind. *)
Theorem C15_embed_label_pinned_refuted :
  exists ok h, let '(r, h', _) := holder_step ok false (CEmbedLabel 0) h 0 in r = Oom /\ holder_content h' <> holder_content h.
Proof. exact embed_label_pinned_refuted. Qed.
Print Assumptions C15_embed_label_pinned_refuted.

Theorem C15_embed_delta_pinned_refuted :
  exists ok h, let '(r, h', _) := holder_step ok false CEmbedDelta h 0 in r = Oom /\ holder_content h' <> holder_content h.
Proof. exact embed_delta_pinned_refuted. Qed.
Print Assumptions C15_embed_delta_pinned_refuted.

(* ------------------------------------------------------------------------------- CodeHolder: sections and address table *)

(* new_section, add_address_to_address_table, x86 `call/jmp imm64` (relocation + address-table entry, with C15-stale-reloc) and
   all operations of the previous block on the combined state: under every oracle a step refines the oracle-free holder2_spec;
   an operation that reports kOutOfMemory leaves labels, fixups, relocations, sections and address entries untouched - except
   that the address-table section, which is created on first use, may already exist (lazy_addrtab). *)
Theorem C15_holder2_step_atomic :
  forall (ok : nat -> bool) (op : cop2) (h : holder2) (k : nat) (r : result) (h' : holder2) (k' : nat),
    holder2_step ok true op h k = (r, h', k') ->
    match r with
    | Ok => holder2_spec op (holder2_content h) = Some (holder2_content h')
    | Oom => fst (holder2_content h') = fst (holder2_content h) /\
             (snd (holder2_content h') = snd (holder2_content h) \/ snd (holder2_content h') = lazy_addrtab (snd (holder2_content h)))
    | Invalid => holder2_content h' = holder2_content h /\ holder2_spec op (holder2_content h) = None
    end.
Proof. exact holder2_step_refines. Qed.
Print Assumptions C15_holder2_step_atomic.

Theorem C15_holder2_run_failed_ops_vanish :
  forall (ok : nat -> bool) (ops : list cop2) (h : holder2) (k : nat) (rs : list result) (h' : holder2) (k' : nat),
    holder2_run ok true ops h k = (rs, h', k') ->
    In (holder2_content h') (holder2_replay ops rs (holder2_content h)) /\ length rs = length ops.
Proof. exact holder2_run_failed_ops_vanish. Qed.
Print Assumptions C15_holder2_run_failed_ops_vanish.

(* pinned x86 jmp/call imm (before C15-stale-reloc): the relocation entry stays when the address-table allocation fails *)
Theorem C15_call_abs_pinned_refuted :
  exists ok h, let '(r, h', _) := holder2_step ok false (CCallAbs 4096) h 0 in
               r = Oom /\ fst (holder2_content h') <> fst (holder2_content h).
Proof. exact call_abs_pinned_refuted. Qed.
Print Assumptions C15_call_abs_pinned_refuted.

(* strict atomicity of add_address_to_address_table in the section list does not hold: the empty .addrtab section stays *)
Theorem C15_add_address_lazy_section_refuted :
  exists ok h, let '(r, h', _) := holder2_step ok true (CAddAddress 4096) h 0 in
               r = Oom /\ snd (holder2_content h') <> snd (holder2_content h) /\ snd (holder2_content h') = lazy_addrtab (snd (holder2_content h)).
Proof. exact add_address_lazy_section_refuted. Qed.
Print Assumptions C15_add_address_lazy_section_refuted.

(* ------------------------------------------------------------------------------------------- BaseBuilder node creation *)

(* new_label (CodeHolder label + label node), bind (label_node_of + add_node), section (section_node_of + activation / cursor),
   instruction / align / embed / embed_label / comment nodes, set_cursor, embed_const_pool (as repaired by C15-embed-const-pool-atomic):
   under every oracle a step that does not report success leaves the node list, the cursor and the set of bound
   labels untouched (and, for kOutOfMemory, every label/section keeps exactly the node it had); the holder is untouched except
   that a failed new_label may leave an ORPHAN label behind (CodeHolder::new_label_id had succeeded; no node refers to it).  A
   successful step has the oracle-free effect bld_spec on the node list. *)
Theorem C15_builder_step_atomic :
  forall (ok : nat -> bool) (op : bop) (h : holder2) (b : bld) (k : nat) (r : result) (h' : holder2) (b' : bld) (k' : nat),
    builder_step ok op h b k = (r, h', b', k') ->
    (r <> Ok ->
       bld_list b' = bld_list b /\ h2_sects h' = h2_sects h /\
       (holder_content (h2_base h') = holder_content (h2_base h) \/
        (op = BNewLabel /\ holder_content (h2_base h') = (ho_labels (h2_base h) ++ [mklabel false []], ho_relocs (h2_base h), ho_unresolved (h2_base h))))) /\
    (r = Oom -> is_const_pool op = false -> same_nodes (b_lnodes b) (b_lnodes b') /\ same_nodes (b_snodes b) (b_snodes b')) /\
    (r = Ok ->
       bld_list b' = bld_spec op (bld_list b) /\ h2_sects h' = h2_sects h /\
       match op with
       | BNewLabel => holder_content (h2_base h') = (ho_labels (h2_base h) ++ [mklabel false []], ho_relocs (h2_base h), ho_unresolved (h2_base h))
       | _ => h' = h
       end).
Proof. exact builder_step_atomic. Qed.
Print Assumptions C15_builder_step_atomic.

(* ------------------------------------------------------------------------------ VirtMem views / JitAllocator block records *)

(* VirtMem::alloc / alloc_dual_mapping (RX then RW view of one anonymous file) / release, JitAllocator_new_block (views, then the
   malloc'ed block record) / deleteBlock, for EVERY pair of oracles (okv: does the k-th mmap succeed, okh: the k-th malloc):
   an operation that does not report success leaves the set of live views and the number of live block records exactly as they
   were - nothing leaks, nothing is lost; a successful allocation adds exactly its own fresh views. *)
Theorem C15_vm_step_no_leak :
  forall (okv okh : nat -> bool) (op : vmop) (s : vms) (kv kh : nat) (r : result) (s' : vms) (kv' kh' : nat),
    vms_inv s -> vm_step okv okh op s kv kh = (r, s', kv', kh') ->
    vms_inv s' /\
    (r <> Ok -> vs_views s' = vs_views s /\ vs_heap s' = vs_heap s) /\
    (r = Ok -> match op with
               | VMap => exists i, vs_views s' = vs_views s ++ [i] /\ vs_heap s' = vs_heap s
               | VDual => exists ids, vs_views s' = vs_views s ++ ids /\ length ids = 2%nat /\ vs_heap s' = vs_heap s
               | VBlock dual => exists ids, vs_views s' = vs_views s ++ ids /\ length ids = (if dual then 2 else 1)%nat /\ vs_heap s' = S (vs_heap s)
               | VRel i => exists ids, nth i (vs_handles s) None = Some ids /\ vs_views s' = remove_ids ids (vs_views s) /\ vs_heap s' = vs_heap s
               | VDel i => exists ids, nth i (vs_handles s) None = Some ids /\ vs_views s' = remove_ids ids (vs_views s) /\ vs_heap s' = pred (vs_heap s)
               end).
Proof. exact vm_step_no_leak. Qed.
Print Assumptions C15_vm_step_no_leak.

Example C15_vm_step_no_leak_satisfiable : vms_inv vms_init.
Proof. exact vms_init_inv. Qed.

(* the roll-back that unmaps the view that was NOT mapped (seeded change C15-3) leaks the first view *)
Theorem C15_vm_dual_leaky_refuted :
  exists okv s, let '(a, s', _) := vm_dual_leaky okv s 0%nat in a = None /\ vs_views s' <> vs_views s.
Proof. exact vm_dual_leaky_refuted. Qed.
Print Assumptions C15_vm_dual_leaky_refuted.

(* ----------------------------------------------------------------------------------- register allocator home (stack) slots *)

(* RAStackAllocator::new_slot / BaseRAPass::get_or_create_stack_slot (tested call sites, RGet) and work_reg_as_mem (RAsMem, which
   cannot report a failure): under every oracle the slot list stays duplicate-free and "has a home" = "owns a slot"; a tested
   creation that fails changes nothing. *)
Theorem C15_ra_step_spec :
  forall (ok : nat -> bool) (op : raop) (s : rastack) (k : nat) (r : result) (s' : rastack) (k' : nat),
    ra_inv s -> (match op with RGet w | RAsMem w => w < length (ra_home s) end)%nat ->
    ra_step ok op s k = (r, s', k') ->
    ra_inv s' /\ length (ra_home s') = length (ra_home s) /\
    match op with
    | RGet w => ra_refs s' = ra_refs s /\
                ((r = Ok /\ has_home s' w = true) \/ (r = Oom /\ ra_slots s' = ra_slots s /\ ra_home s' = ra_home s))
    | RAsMem w => r = Ok /\ ra_refs s' = w :: ra_refs s
    end.
Proof. exact ra_step_spec. Qed.
Print Assumptions C15_ra_step_spec.

(* the rewrite step with the test of f186c27 never uses a missing slot ... *)
Theorem C15_ra_rewrite_safe :
  forall (s : rastack), ra_rewrite s = Ok -> forall w, In w (ra_refs s) -> has_home s w = true.
Proof. exact ra_rewrite_safe. Qed.
Print Assumptions C15_ra_rewrite_safe.

(* ... and the test is needed: two failed creations leave a referenced register without a home (the null dereference found in
   round 2 by the second-order enumeration) *)
Theorem C15_ra_as_mem_unchecked_refuted :
  exists ok ops, let '(_, s, _) := ra_run ok ops (ras_init 2) 0%nat in exists w, In w (ra_refs s) /\ has_home s w = false.
Proof. exact ra_as_mem_unchecked_refuted. Qed.
Print Assumptions C15_ra_as_mem_unchecked_refuted.

(* embed_const_pool before fixes/C15-embed-const-pool-atomic.patch (fixed = false): the align node and the bound label stay when the
   data node cannot be allocated *)
Theorem C15_builder_const_pool_partial_refuted :
  exists ok h b, let '(r, _, b', _) := builder_step_gen ok false (BConstPool 0) h b 0%nat in r = Oom /\ bld_list b' <> bld_list b.
Proof. exact const_pool_partial_refuted. Qed.
Print Assumptions C15_builder_const_pool_partial_refuted.

(* ------------------------------------------------------------------------------------------------------------- String *)

(* core/string.cpp String (append, assign, append_chars, assign_chars, clear, reset, truncate) for EVERY heap oracle: never
   "invalid"; kOutOfMemory leaves characters, capacity and storage kind exactly as they were; a success has the oracle-free effect
   str_spec; size <= capacity (and the small-buffer capacity) is kept; at most one malloc per operation. *)
Theorem C15_str_step_atomic :
  forall (okh : nat -> bool) (op : sop) (s : str) (k : nat) (r : result) (s' : str) (k' : nat),
    sop_wf op -> str_inv s -> str_step okh op s k = (r, s', k') ->
    (k <= k' <= S k)%nat /\ r <> Invalid /\ str_inv s' /\ (r = Oom -> s' = s) /\ (r = Ok -> st_chars s' = str_spec op (st_chars s)).
Proof. exact str_step_atomic. Qed.
Print Assumptions C15_str_step_atomic.

Example C15_str_step_atomic_satisfiable : str_inv str_empty /\ sop_wf (SAppendChars 40).
Proof. unfold str_inv, slen, sop_wf, str_empty, sso_capacity. cbn. repeat split; intros; lia. Qed.

(* The executable validator applied to the allocator state dumped at the end of every REAL register-allocator pass run (for every
   fault position of the compiler workloads) is sound: a state it accepts satisfies the invariant of the home-slot model; together
   with C15_ra_rewrite_safe: if additionally ra_rewrite of the dumped state is Ok, no register marked "stack used" lacks its slot. *)
Theorem C15_ra_check_sound : forall s : rastack, ra_check s = true -> ra_inv s.
Proof. exact ra_check_sound. Qed.
Print Assumptions C15_ra_check_sound.

(* ------------------------------------------------------------------- JitAllocator::alloc: C09's span model x C15's block creation *)

(* C09's allocator model (Verif.Jit: spans, bit vectors, pools, statistics) composed with C15's view / block-record model: when
   alloc needs a new block it is created by JitAllocator_new_block under the two oracles.  For every pair of oracles both
   invariants are kept; when the allocation answers kOutOfMemory because the block could not be created, the allocator's live
   spans and statistics AND the live views and block records are exactly what they were; otherwise the allocator state is C09's
   `alloc` and the views grew by exactly the views of at most one new block. *)
Theorem C15_jit_alloc_joint :
  forall (okv okh : nat -> bool) (dual : bool) (c : JitModel.config) (st : JitModel.state) (s : vms) (size : Z) (kv kh : nat)
         (st' : JitModel.state) (r : JitModel.result) (s' : vms) (kv' kh' : nat),
    JitProofs.cfg_ok c -> JitProofs.ginv c st -> vms_inv s ->
    jit_alloc okv okh dual c st s size kv kh = (st', r, s', kv', kh') ->
    JitProofs.ginv c st' /\ vms_inv s' /\
    ((st', r) = JitModel.alloc c st size /\
       (vs_views s' = vs_views s /\ vs_heap s' = vs_heap s \/
        exists ids, vs_views s' = vs_views s ++ ids /\ length ids = (if dual then 2 else 1)%nat /\ vs_heap s' = S (vs_heap s))
     \/
     (r = JitModel.RAlloc JitModel.OutOfMemory 0 0 0 /\
        JitProofs.all_live (JitModel.blocks st') = JitProofs.all_live (JitModel.blocks st) /\
        JitModel.statistics c st' = JitModel.statistics c st /\
        vs_views s' = vs_views s /\ vs_heap s' = vs_heap s)).
Proof. exact jit_alloc_joint. Qed.
Print Assumptions C15_jit_alloc_joint.

(* =========================================================================================================== round 5 *)

(* The constants the model hard-wires (small-string capacity, String minimum allocation, reusable-slot sizes, vector growth
   rule table, growth threshold, number of constant-pool trees, relocation type numbers) are re-read from the source on every run
   (VerifGen.C15Consts) and the MODEL computes with exactly these values. *)
Theorem C15_consts_from_source : c15_consts_ok = true.
Proof. exact c15_consts_ok_true. Qed.
Print Assumptions C15_consts_from_source.

(* ArenaHash, whole scripts under any oracle: the keys in the table are, as a multiset, exactly what the operations that reported
   success build from the initial keys - failed node allocations leave no trace, failed rehashes change nothing observable. *)
Theorem C15_hash_run_keys :
  forall (ok : nat -> bool) (ops : list hop) (h : hash) (k : nat) (rs : list result) (h' : hash) (k' : nat),
    hash_inv h -> hash_run ok hash_primes ops h k = (rs, h', k') ->
    Permutation (hash_keys h') (hash_replay ops rs (hash_keys h)).
Proof. exact (fun ok => hash_run_keys ok hash_primes (primes_pos_of_forallb hash_primes hash_primes_positive)). Qed.
Print Assumptions C15_hash_run_keys.

Example C15_hash_run_keys_nonvacuous :
  let '(rs, h', _) := hash_run (fun k => negb (k =? 1)%nat) hash_primes [HInsert 5; HInsert 6; HInsert 7; HRemove 5] hash_empty 0%nat in
  rs = [Ok; Oom; Ok; Ok] /\ hash_keys h' = [7].
Proof. vm_compute. split; reflexivity. Qed.

(* VirtMem views / JitAllocator block records, accounting over whole runs, every pair of oracles: the live views are exactly the
   views of the handles that have not been released, each once (nothing leaked, nothing lost, nothing counted twice) ... *)
Theorem C15_vm_step_acct :
  forall (okv okh : nat -> bool) (op : vmop) (s : vms) (kv kh : nat) (r : result) (s' : vms) (kv' kh' : nat),
    vms_acct s -> vm_step okv okh op s kv kh = (r, s', kv', kh') -> vms_acct s'.
Proof. exact vm_step_acct. Qed.
Print Assumptions C15_vm_step_acct.

(* ... so after any script from the empty state, once every handle is released (or never existed) no view is left. *)
Theorem C15_vm_run_all_released :
  forall (okv okh : nat -> bool) (ops : list vmop) (rs : list result) (s' : vms) (kv' kh' : nat),
    vm_run okv okh ops vms_init 0%nat 0%nat = (rs, s', kv', kh') ->
    Forall (fun h => h = None) (vs_handles s') -> vs_views s' = [].
Proof. exact vm_run_all_released. Qed.
Print Assumptions C15_vm_run_all_released.

Example C15_vm_run_nonvacuous :
  let '(rs, s', _, _) := vm_run (fun k => negb (k =? 2)%nat) (fun _ => true) [VDual; VDual; VBlock true; VRel 0; VDel 2] vms_init 0%nat 0%nat in
  rs = [Ok; Oom; Ok; Ok; Ok] /\ vs_views s' = [] /\ vs_heap s' = 0%nat.
Proof. vm_compute. repeat split; reflexivity. Qed.

(* JitAllocator::release = C09's span bookkeeping x C15's block deletion: release never asks for memory; both invariants are
   kept; the views change only when C09's model says the block was deleted, then exactly by the views of that block's handle. *)
Theorem C15_jit_release_joint :
  forall (okv okh : nat -> bool) (bm : list (Z * nat)) (c : JitModel.config) (st : JitModel.state) (s : vms) (id off : Z) (kv kh : nat)
         (st' : JitModel.state) (r : JitModel.result) (s' : vms),
    JitProofs.cfg_ok c -> JitProofs.ginv c st -> JitProofs.valid_ptr c st id off -> vms_acct s ->
    jit_release okv okh bm c st s id off kv kh = (st', r, s') ->
    JitProofs.ginv c st' /\ vms_acct s' /\ (st', r) = JitModel.release c st id off /\
    (vs_views s' = vs_views s /\ vs_heap s' = vs_heap s \/
     exists bid h ids, r = JitModel.RRelease JitModel.Ok bid true /\ nth h (vs_handles s) None = Some ids /\
                       vs_views s' = remove_ids ids (vs_views s) /\ vs_heap s' = pred (vs_heap s)).
Proof. exact jit_release_joint. Qed.
Print Assumptions C15_jit_release_joint.

(* non-vacuity of the hypotheses used above and in earlier rounds *)
Example C15_ra_inv_satisfiable : ra_inv (ras_init 8).
Proof. split; [constructor|]. split; [intros w; unfold has_home, ras_init; cbn [ra_home ra_slots]; split; [|intros []] | intros w []].
  intros H. destruct (le_lt_dec 8 w); [rewrite nth_overflow in H by (rewrite repeat_length; lia); discriminate |].
  rewrite nth_repeat in H. discriminate. Qed.

Example C15_holder2_step_nonvacuous :
  let '(r, h, _) := holder2_step all_ok true (CCallAbs 4096) holder2_init 0%nat in
  r = Ok /\ ho_relocs (h2_base h) = [6] /\ ss_entries (h2_sects h) = [4096] /\ ss_addrtab (h2_sects h) = Some 1%nat.
Proof. vm_compute. repeat split; reflexivity. Qed.

Example C15_builder_step_nonvacuous :
  let '(r, _, b, _) := builder_step all_ok (BSection 0) holder2_init (add_node NInst (add_node NInst bld_init)) 0%nat in
  r = Ok /\ b_cursor b = 2%nat.
Proof. vm_compute. split; reflexivity. Qed.

Example C15_jit_joint_config_satisfiable :
  JitProofs.cfg_ok (JitModel.mkConfig 64 1 65536 true false JitModel.fixed) /\
  JitProofs.ginv (JitModel.mkConfig 64 1 65536 true false JitModel.fixed) (JitModel.init_state (JitModel.mkConfig 64 1 65536 true false JitModel.fixed)).
Proof.
  assert (C : JitProofs.cfg_ok (JitModel.mkConfig 64 1 65536 true false JitModel.fixed)) by (constructor; cbn; lia || reflexivity).
  split; [exact C | exact (JitProofs.ginv_init _ C)].
Qed.

(* An operation that reports success under ANY oracle is - state and request counter included - the step the failure-free run
   makes (String, the combined holder state, VirtMem/JitAllocator blocks; vectors and the round-1 holder operations: see
   C15_vec_ok_is_failure_free / C15_holder_ok_is_failure_free).  Hash and ConstPool deliberately do not have this property
   (absorbed rehash / gap failures; C15_pool_add_ok_not_failure_free_refuted). *)
Theorem C15_str_ok_is_failure_free :
  forall (ok : nat -> bool) (op : sop) (s : str) (k : nat) (s' : str) (k' : nat),
    str_step ok op s k = (Ok, s', k') -> str_step all_ok op s k = (Ok, s', k').
Proof. exact str_step_ok_failure_free. Qed.
Print Assumptions C15_str_ok_is_failure_free.

Theorem C15_holder2_ok_is_failure_free :
  forall (ok : nat -> bool) (op : cop2) (h : holder2) (k : nat) (h' : holder2) (k' : nat),
    holder2_step ok true op h k = (Ok, h', k') -> holder2_step all_ok true op h k = (Ok, h', k').
Proof. exact holder2_step_ok_failure_free. Qed.
Print Assumptions C15_holder2_ok_is_failure_free.

Theorem C15_vm_ok_is_failure_free :
  forall (okv okh : nat -> bool) (op : vmop) (s : vms) (kv kh : nat) (s' : vms) (kv' kh' : nat),
    vm_step okv okh op s kv kh = (Ok, s', kv', kh') -> vm_step all_ok all_ok op s kv kh = (Ok, s', kv', kh').
Proof. exact vm_step_ok_failure_free. Qed.
Print Assumptions C15_vm_ok_is_failure_free.

Example C15_ok_is_failure_free_nonvacuous :
  str_step (fun k => negb (k =? 1)%nat) (SAppendChars 40) str_empty 0%nat = str_step all_ok (SAppendChars 40) str_empty 0%nat /\
  fst (fst (str_step (fun _ => false) (SAppendChars 40) str_empty 0%nat)) = Oom.
Proof. vm_compute. split; reflexivity. Qed.

(* String, whole scripts under any heap oracle: the final characters are what the oracle-free specification gives for exactly the
   operations that reported success; the invariant holds at the end; no operation is ever "invalid"; at most one malloc each. *)
Theorem C15_str_run_failed_ops_vanish :
  forall (ok : nat -> bool) (ops : list sop) (s : str) (k : nat) (rs : list result) (s' : str) (k' : nat),
    Forall sop_wf ops -> str_inv s -> str_run ok ops s k = (rs, s', k') ->
    st_chars s' = str_replay ops rs (st_chars s) /\ str_inv s' /\ length rs = length ops /\ ~ In Invalid rs /\ (k <= k' <= k + length ops)%nat.
Proof. exact str_run_failed_ops_vanish. Qed.
Print Assumptions C15_str_run_failed_ops_vanish.

Example C15_str_run_nonvacuous :
  let '(rs, s', k') := str_run (fun k => negb (k =? 0)%nat) [SAppendChars 40; SAppendChars 3; SAppendChars 40] str_empty 0%nat in
  rs = [Oom; Ok; Ok] /\ length (st_chars s') = 43%nat /\ k' = 2%nat.
Proof. vm_compute. repeat split; reflexivity. Qed.

(* Builder, whole scripts under any oracle: node list, cursor and bound labels at the end are what the oracle-free specification
   gives for exactly the operations that reported success; the holder's sections are never touched by Builder operations. *)
Theorem C15_builder_run_failed_ops_vanish :
  forall (ok : nat -> bool) (ops : list bop) (h : holder2) (b : bld) (k : nat) (rs : list result) (h' : holder2) (b' : bld) (k' : nat),
    builder_run ok ops h b k = (rs, h', b', k') ->
    bld_list b' = bld_replay ops rs (bld_list b) /\ h2_sects h' = h2_sects h /\ length rs = length ops.
Proof. exact builder_run_failed_ops_vanish. Qed.
Print Assumptions C15_builder_run_failed_ops_vanish.

Example C15_builder_run_nonvacuous :
  let '(rs, _, b', _) := builder_run (fun k => negb (k =? 1)%nat) [BInst; BAlign; BComment; BCursor 0; BEmbed] holder2_init bld_init 0%nat in
  rs = [Ok; Oom; Ok; Ok; Ok] /\ b_nodes b' = [NSection 0; NEmbed; NInst; NComment].
Proof. vm_compute. split; reflexivity. Qed.

(* ------------------------------------------------------------------------------------------- RA stack slots, whole runs *)
(* Any script of tested slot creations (RGet) and work_reg_as_mem calls (RAsMem) over n work registers, any oracle: the invariant
   holds at the end, NO register ever loses its home, the referenced registers are exactly the old ones plus those named by
   RAsMem, one result per operation. *)
Theorem C15_ra_run_spec :
  forall (ok : nat -> bool) (ops : list raop) (n : nat) (s : rastack) (k : nat) (rs : list result) (s' : rastack) (k' : nat),
    ra_inv s -> length (ra_home s) = n -> Forall (fun op => (raop_reg op < n)%nat) ops ->
    ra_run ok ops s k = (rs, s', k') ->
    ra_inv s' /\ length (ra_home s') = n /\ (forall w, has_home s w = true -> has_home s' w = true) /\
    (forall w, In w (ra_refs s') <-> In w (ra_refs s) \/ In (RAsMem w) ops) /\ length rs = length ops.
Proof. exact ra_run_spec. Qed.
Print Assumptions C15_ra_run_spec.

(* ... hence, whatever failed during the run: when the rewrite step (with the test of f186c27) reports success, every register
   named by work_reg_as_mem owns a stack slot; when it reports an error, some referenced register really has none. *)
Theorem C15_ra_run_rewrite_safe :
  forall (ok : nat -> bool) (ops : list raop) (n : nat) (s : rastack) (k : nat) (rs : list result) (s' : rastack) (k' : nat),
    ra_inv s -> length (ra_home s) = n -> Forall (fun op => (raop_reg op < n)%nat) ops ->
    ra_run ok ops s k = (rs, s', k') ->
    (ra_rewrite s' = Ok -> forall w, In (RAsMem w) ops -> has_home s' w = true /\ In w (ra_slots s')) /\
    (ra_rewrite s' <> Ok -> exists w, (In w (ra_refs s) \/ In (RAsMem w) ops) /\ has_home s' w = false).
Proof. exact ra_run_rewrite_safe. Qed.
Print Assumptions C15_ra_run_rewrite_safe.

Example C15_ra_run_nonvacuous :
  (let '(rs, s, _) := ra_run (fun _ => true) [RAsMem 0; RGet 1; RAsMem 1]%nat (ras_init 2) 0%nat in (rs, ra_slots s, ra_rewrite s))
    = ([Ok; Ok; Ok], [0; 1]%nat, Ok) /\
  (let '(rs, s, _) := ra_run (fun k => (2 <=? k)%nat) [RAsMem 0; RGet 1; RAsMem 1]%nat (ras_init 2) 0%nat in (rs, ra_slots s, ra_rewrite s))
    = ([Ok; Oom; Ok], [1]%nat, Oom) /\
  Forall (fun op => (raop_reg op < 2)%nat) [RAsMem 0; RGet 1; RAsMem 1]%nat.
Proof. vm_compute. split; [reflexivity|]. split; [reflexivity|]. repeat constructor. Qed.

(* the executable validator applied to the states of REAL pass runs decides the invariant: it accepts exactly the states that
   satisfy ra_inv (C15_ra_check_sound is the other direction), so a rejected dump is a real violation and every state reachable
   by the model (C15_ra_run_spec) is accepted *)
Theorem C15_ra_check_complete : forall s : rastack, ra_inv s -> ra_check s = true.
Proof. exact ra_check_complete. Qed.
Print Assumptions C15_ra_check_complete.

Example C15_ra_check_rejects :
  ra_check (mkras [1; 1]%nat 0 [false; true] []) = false /\ ra_check (mkras [1]%nat 0 [true; true] []) = false /\
  ra_check (mkras [1]%nat 0 [false; true] [0]%nat) = true.
Proof. vm_compute. auto. Qed.

(* every state the model reaches from the initial one (n work registers, any script in range, any oracle) is accepted by that
   validator: a rejected dump of a real pass run is a state outside the model *)
Theorem C15_ra_reachable_checked :
  forall (ok : nat -> bool) (ops : list raop) (n k : nat) (rs : list result) (s' : rastack) (k' : nat),
    Forall (fun op => (raop_reg op < n)%nat) ops -> ra_run ok ops (ras_init n) k = (rs, s', k') -> ra_check s' = true.
Proof. exact ra_reachable_checked. Qed.
Print Assumptions C15_ra_reachable_checked.

(* JitAllocator::shrink = C09's `shrink` x C15's block deletion: never asks for memory; both invariants kept; a non-zero new size
   leaves views and block records untouched; new size 0 is a release (same allocator state; the views of at most one deleted
   block go away). *)
Theorem C15_jit_shrink_joint :
  forall (okv okh : nat -> bool) (bm : list (Z * nat)) (c : JitModel.config) (st : JitModel.state) (s : vms) (id off ns : Z) (kv kh : nat)
         (st' : JitModel.state) (r : JitModel.result) (s' : vms),
    JitProofs.cfg_ok c -> JitProofs.ginv c st -> JitProofs.valid_ptr c st id off -> vms_acct s -> 0 <= ns ->
    jit_shrink okv okh bm c st s id off ns kv kh = (st', r, s') ->
    JitProofs.ginv c st' /\ vms_acct s' /\ (st', r) = JitModel.shrink c st id off ns /\
    (ns <> 0 -> s' = s) /\
    (ns = 0 -> st' = fst (JitModel.release c st id off)) /\
    (vs_views s' = vs_views s /\ vs_heap s' = vs_heap s \/
     exists h ids, ns = 0 /\ nth h (vs_handles s) None = Some ids /\
                   vs_views s' = remove_ids ids (vs_views s) /\ vs_heap s' = pred (vs_heap s)).
Proof. exact jit_shrink_joint. Qed.
Print Assumptions C15_jit_shrink_joint.

(* two blocks, trim, release the first (kept as the pool's empty block), release the second: it is deleted and its view goes *)
Example C15_jit_shrink_nonvacuous :
  let cfg := JitModel.mkConfig 64 1 65536 true false JitModel.fixed in
  let t := fun _ : nat => true in
  let bm := [(0, 0%nat); (1, 1%nat)] in
  let '(st1, _, s1, kv, kh) := jit_alloc t t false cfg (JitModel.init_state cfg) vms_init 2000000 0%nat 0%nat in
  let '(st2, _, s2, kv, kh) := jit_alloc t t false cfg st1 s1 2000000 kv kh in
  let '(st3, r3, s3) := jit_shrink t t bm cfg st2 s2 0 64 64 kv kh in
  let '(st4, r4, s4) := jit_shrink t t bm cfg st3 s3 0 64 0 kv kh in
  let '(st5, r5, s5) := jit_shrink t t bm cfg st4 s4 1 64 0 kv kh in
  (vs_views s2, r3, vs_views s3, r4, vs_views s4, r5, vs_views s5, vs_heap s5) =
  ([0; 1]%nat, JitModel.RShrink JitModel.Ok 0 64, [0; 1]%nat, JitModel.RShrink JitModel.Ok 0 0, [0; 1]%nat,
   JitModel.RShrink JitModel.Ok 1 0, [0]%nat, 1%nat).
Proof. vm_compute. reflexivity. Qed.

(* When no request fails (register count below the 32-bit size limit of the slot vector) every operation reports success and the
   rewrite succeeds: errors of the home-slot machinery are never spurious.  Together with C15_ra_run_rewrite_safe: an error of the
   rewrite means a request really failed AND a referenced register really has no slot. *)
Theorem C15_ra_run_failure_free :
  forall (ops : list raop) (n : nat) (s : rastack) (k : nat) (rs : list result) (s' : rastack) (k' : nat),
    ra_inv s -> length (ra_home s) = n -> Z.of_nat n + 1 < max_items -> Forall (fun op => (raop_reg op < n)%nat) ops ->
    (forall w, In w (ra_refs s) -> has_home s w = true) ->
    ra_run all_ok ops s k = (rs, s', k') ->
    Forall (fun r => r = Ok) rs /\ ra_rewrite s' = Ok.
Proof. exact ra_run_failure_free. Qed.
Print Assumptions C15_ra_run_failure_free.

Example C15_ra_run_failure_free_nonvacuous :
  ra_inv (ras_init 2) /\ length (ra_home (ras_init 2)) = 2%nat /\ Z.of_nat 2 + 1 < max_items /\
  (forall w, In w (ra_refs (ras_init 2)) -> has_home (ras_init 2) w = true) /\
  (* and with a failing oracle the conclusion is false for the same script: the hypothesis "no request fails" is needed *)
  (let '(_, s, _) := ra_run (fun k => (2 <=? k)%nat) [RAsMem 0; RGet 1; RAsMem 1]%nat (ras_init 2) 0%nat in ra_rewrite s) = Oom.
Proof. split; [apply ras_init_inv|]. split; [reflexivity|]. split; [reflexivity|]. split; [intros w []|vm_compute; reflexivity]. Qed.

(* VirtMem views / JitAllocator blocks, whole scripts: when neither mmap nor malloc fails no operation reports kOutOfMemory. *)
Theorem C15_vm_run_all_ok_never_oom :
  forall (ops : list vmop) (s : vms) (kv kh : nat) (rs : list result) (s' : vms) (kv' kh' : nat),
    vm_run all_ok all_ok ops s kv kh = (rs, s', kv', kh') -> ~ In Oom rs.
Proof. exact vm_run_all_ok_never_oom. Qed.
Print Assumptions C15_vm_run_all_ok_never_oom.

Example C15_vm_run_never_oom_nonvacuous :
  (let '(rs, _, _, _) := vm_run all_ok all_ok [VDual; VBlock true; VRel 0; VDel 1; VRel 0]%nat vms_init 0%nat 0%nat in rs) = [Ok; Ok; Ok; Ok; Invalid] /\
  (let '(rs, _, _, _) := vm_run (fun k => negb (k =? 1)%nat) all_ok [VDual; VMap]%nat vms_init 0%nat 0%nat in rs) = [Oom; Ok].
Proof. vm_compute. split; reflexivity. Qed.

(* String, whole scripts: when no malloc fails every operation reports success and the final characters are the oracle-free
   specification folded over ALL operations (the counterpart of C15_str_run_failed_ops_vanish: errors are never spurious). *)
Theorem C15_str_run_all_ok :
  forall (ops : list sop) (s : str) (k : nat) (rs : list result) (s' : str) (k' : nat),
    Forall sop_wf ops -> str_inv s -> str_run all_ok ops s k = (rs, s', k') ->
    Forall (fun r => r = Ok) rs /\ st_chars s' = fold_left (fun l op => str_spec op l) ops (st_chars s).
Proof. exact str_run_all_ok. Qed.
Print Assumptions C15_str_run_all_ok.

Example C15_str_run_all_ok_nonvacuous :
  (let '(rs, s', _) := str_run all_ok [SAppendChars 40; SAssign [1; 2]; SAppend [3]] str_empty 0%nat in (rs, st_chars s')) = ([Ok; Ok; Ok], [1; 2; 3]) /\
  Forall sop_wf [SAppendChars 40; SAssign [1; 2]; SAppend [3]] /\ str_inv str_empty.
Proof.
  split; [vm_compute; reflexivity|]. split.
  - constructor; [cbn; lia|]. constructor; [exact I|]. constructor; [exact I|constructor].
  - unfold str_inv, slen, str_empty, sso_capacity. cbn. split; intros; lia.
Qed.

(* ArenaHash with the real prime table, whole scripts: when no request fails no insert reports kOutOfMemory (the counterpart of
   C15_hash_run_keys; a removal of an absent key still answers "invalid"). *)
Theorem C15_hash_run_all_ok_never_oom :
  forall (ops : list hop) (h : hash) (k : nat) (rs : list result) (h' : hash) (k' : nat),
    hash_run all_ok hash_primes ops h k = (rs, h', k') -> ~ In Oom rs.
Proof. exact (hash_run_all_ok_never_oom hash_primes). Qed.
Print Assumptions C15_hash_run_all_ok_never_oom.

Example C15_hash_run_never_oom_nonvacuous :
  (let '(rs, h', _) := hash_run all_ok hash_primes [HInsert 5; HInsert 6; HRemove 9; HRemove 5] hash_empty 0%nat in (rs, hash_keys h')) = ([Ok; Ok; Invalid; Ok], [6]).
Proof. vm_compute. reflexivity. Qed.

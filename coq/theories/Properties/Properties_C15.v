(* C15 - Allocation failure yields an error - never a crash, leak or wrong code.

   Theorems over the oracle-threaded models of Verif.OomTxn.OracleModel.  `ok : nat -> bool` is the allocation oracle (the k-th
   arena request of the run succeeds iff ok k); every theorem is stated for ALL oracles, i.e. for every single failure position
   and every multi-failure pattern.  Hash theorems are instantiated with the prime table re-extracted from
   asmjit/support/arenahash.cpp on every run (VerifGen.C15Tables).

   full     : C15_vec_step_atomic, C15_vec_ok_is_failure_free, C15_vec_run_failed_ops_vanish, C15_reserve_gives_capacity,
              C15_hash_step_atomic, C15_hash_get_exact, C15_hash_rehash_benign, C15_hash_tables_wellformed, C15_hash_calc_mod_exact,
              C15_pool_add_failure_keeps_constants, C15_pool_add_ok_findable_and_stable, C15_pool_run_offsets_stable,
              C15_holder_step_atomic, C15_holder_ok_is_failure_free, C15_holder_run_failed_ops_vanish,
              C15_holder2_step_atomic, C15_holder2_run_failed_ops_vanish (sections, address table, call imm),
              C15_builder_step_atomic (Builder label/section/instruction nodes),
              C15_vm_step_no_leak (VirtMem views + JitAllocator block records, two oracles)
   refuted  : C15_embed_label_pinned_refuted, C15_embed_delta_pinned_refuted, C15_call_abs_pinned_refuted (the code before C15-stale-reloc)
              C15_add_address_lazy_section_refuted (the lazily created .addrtab section survives a failed add - benign)
              C15_pool_add_size_atomic_refuted, C15_pool_add_ok_not_failure_free_refuted (ConstPool::add is atomic only in its
              constants, not in its size / gap bookkeeping - by design of the code, see design/C15.md) *)
From Coq Require Import ZArith List Bool Lia Permutation.
From Verif Require Jit.JitModel Jit.JitProofs.
From Verif Require Import OomTxn.OracleModel OomTxn.OracleProofs OomTxn.JitJointModel OomTxn.JitJointProofs.
From VerifGen Require Import C15Tables.
Import ListNotations.
Local Open Scope Z_scope.

(* ------------------------------------------------------------------------------------------------------------ ArenaVector *)

(* Every vector operation, under every oracle: never "invalid"; a failure leaves the vector (elements AND capacity) exactly as
   it was; a success has the oracle-free abstract effect vec_spec; size <= capacity is kept (so append_unchecked after a
   successful reserve stays in bounds); at most one request is consumed. *)
Theorem C15_vec_step_atomic :
  forall (ok : nat -> bool) (isz : Z) (op : vop) (v : vec) (k : nat) (r : result) (v' : vec) (k' : nat),
    0 < isz -> vop_wf op -> vec_inv v ->
    vec_step ok isz op v k = (r, v', k') ->
    (k <= k' <= S k)%nat /\ r <> Invalid /\ vec_inv v' /\
    (r = Oom -> v' = v) /\
    (r = Ok -> v_items v' = vec_spec op (v_items v)).
Proof. exact vec_step_atomic. Qed.
Print Assumptions C15_vec_step_atomic.

Example C15_vec_step_atomic_satisfiable : 0 < 4 /\ vop_wf (VAppend 7) /\ vec_inv vec_empty.
Proof. unfold vec_inv, vsize, vop_wf. cbn. repeat split; lia. Qed.

(* An operation that reports success under some oracle is exactly the step of the failure-free run (whole state). *)
Theorem C15_vec_ok_is_failure_free :
  forall (ok : nat -> bool) (isz : Z) (op : vop) (v : vec) (k : nat) (v' : vec) (k' : nat),
    vec_step ok isz op v k = (Ok, v', k') -> vec_step all_ok isz op v k = (Ok, v', k').
Proof. exact vec_step_ok_failure_free. Qed.
Print Assumptions C15_vec_ok_is_failure_free.

(* Whole scripts: the final elements are what the oracle-free specification gives for exactly the operations that reported
   success - failed operations leave no trace. *)
Theorem C15_vec_run_failed_ops_vanish :
  forall (ok : nat -> bool) (isz : Z) (ops : list vop) (v : vec) (k : nat) (rs : list result) (v' : vec) (k' : nat),
    0 < isz -> Forall vop_wf ops -> vec_inv v ->
    vec_run ok isz ops v k = (rs, v', k') ->
    v_items v' = vec_replay ops rs (v_items v) /\ vec_inv v' /\ length rs = length ops /\ ~ In Invalid rs /\
    (k <= k' <= k + length ops)%nat.
Proof. exact vec_run_failed_ops_vanish. Qed.
Print Assumptions C15_vec_run_failed_ops_vanish.

(* The growth arithmetic never hands back less than was asked for (reserve-then-append discipline). *)
Theorem C15_reserve_gives_capacity :
  forall bs : Z, 0 < bs -> bs <= expand_bytes bs /\ bs <= slot_size bs.
Proof. exact (fun bs H => conj (expand_bytes_ge bs H) (slot_size_ge bs H)). Qed.
Print Assumptions C15_reserve_gives_capacity.

(* ------------------------------------------------------------------------------------------------------------ ArenaHash *)

Theorem C15_hash_tables_wellformed :
  Forall (fun p => 0 < p) hash_primes /\ map (fun row : Z * Z * Z => fst (fst row)) hash_rcp_rows = hash_primes.
Proof. exact (conj (primes_pos_of_forallb hash_primes hash_primes_positive) hash_rows_primes). Qed.
Print Assumptions C15_hash_tables_wellformed.

(* ArenaHashBase::_calc_mod (multiply by the reciprocal, shift, multiply back, subtract - with the uint64/uint32 wrap-around of
   the C++ code) is the mathematical remainder for EVERY row of the generated table and EVERY 32-bit hash code: this is what
   lets the hash model use `key mod n`. *)
Theorem C15_hash_calc_mod_exact :
  forall p r s h : Z, In (p, r, s) hash_rcp_rows -> 0 <= h < 2 ^ 32 -> calc_mod32 p r s h = h mod p.
Proof.
  exact (fun p r s h HI Hh => calc_mod32_correct p r s h (proj1 (forallb_forall rcp_row_exact hash_rcp_rows) hash_rcp_rows_exact (p, r, s) HI) Hh).
Qed.
Print Assumptions C15_hash_calc_mod_exact.

(* insert = node allocation + _insert (+ possibly a rehash), remove: under every oracle a step that does not report success
   leaves the table untouched, a successful one adds / removes exactly one occurrence of the key - whether or not the rehash
   it may have attempted got its memory. *)
Theorem C15_hash_step_atomic :
  forall (ok : nat -> bool) (op : hop) (h : hash) (k : nat) (r : result) (h' : hash) (k' : nat),
    hash_inv h -> hash_step ok hash_primes op h k = (r, h', k') ->
    hash_inv h' /\ (k <= k' <= S (S k))%nat /\
    (r <> Ok -> h' = h) /\
    (r = Ok -> match op with
               | HInsert key => Permutation (hash_keys h') (key :: hash_keys h) /\ h_size h' = h_size h + 1
               | HRemove key => Permutation (key :: hash_keys h') (hash_keys h) /\ h_size h' = h_size h - 1
               end).
Proof. exact (fun ok => hash_step_atomic ok hash_primes (primes_pos_of_forallb hash_primes hash_primes_positive)). Qed.
Print Assumptions C15_hash_step_atomic.

Example C15_hash_step_atomic_satisfiable : hash_inv hash_empty.
Proof. exact (hash_empty_inv all_ok). Qed.

Theorem C15_hash_get_exact :
  forall (h : hash) (key : Z), hash_inv h -> (hash_get h key = true <-> In key (hash_keys h)).
Proof. exact hash_get_correct. Qed.
Print Assumptions C15_hash_get_exact.

(* Any script from the empty table under any oracle (failed rehashes, failed node allocations): look-ups are exact. *)
Theorem C15_hash_rehash_benign :
  forall (ok : nat -> bool) (ops : list hop) (rs : list result) (h' : hash) (k' : nat) (key : Z),
    hash_run ok hash_primes ops hash_empty 0 = (rs, h', k') ->
    (hash_get h' key = true <-> In key (hash_keys h')).
Proof. exact (fun ok => hash_rehash_benign ok hash_primes (primes_pos_of_forallb hash_primes hash_primes_positive)). Qed.
Print Assumptions C15_hash_rehash_benign.

(* ------------------------------------------------------------------------------------------------------------ ConstPool *)

(* ConstPool::add (with fixes/C15-constpool-null.patch): an add that reports an error leaves every constant and every shared
   sub-constant where it was, under every oracle. *)
Theorem C15_pool_add_failure_keeps_constants :
  forall (ok : nat -> bool) (d : list Z) (p : pool) (k : nat) (r : result) (o : option Z) (p' : pool) (k' : nat),
    pool_add ok d p k = (r, o, p', k') -> r <> Ok -> p_trees p' = p_trees p.
Proof. exact pool_add_failure_keeps_constants. Qed.
Print Assumptions C15_pool_add_failure_keeps_constants.

(* A successful add, under every oracle (gap records and shared sub-constants may have been given up): the constant is found at
   the returned offset and every earlier look-up still answers the same offset. *)
Theorem C15_pool_add_ok_findable_and_stable :
  forall (ok : nat -> bool) (d : list Z) (p : pool) (k : nat) (o : option Z) (p' : pool) (k' : nat),
    length (p_trees p) = index_count ->
    pool_add ok d p k = (Ok, o, p', k') ->
    exists off, o = Some off /\ pool_lookup p' d = Some off /\
                length (p_trees p') = index_count /\
                (forall d0 o0, pool_lookup p d0 = Some o0 -> pool_lookup p' d0 = Some o0).
Proof.
  exact (fun ok d p k o p' k' L E =>
           match pool_add_ok ok d p k o p' k' L E with
           | ex_intro _ off (conj A (conj B C)) =>
               ex_intro _ off (conj A (conj B (conj (eq_trans (proj1 C) L) (fun d0 o0 H => pool_lookup_ext p p' d0 o0 H C))))
           end).
Qed.
Print Assumptions C15_pool_add_ok_findable_and_stable.

(* Whole scripts of adds under any oracle: every constant whose add() reported success is found at exactly the offset it was
   given at the end of the run, and what was in the pool before keeps its offset. *)
Theorem C15_pool_run_offsets_stable :
  forall (ok : nat -> bool) (ds : list (list Z)) (p : pool) (k : nat) (rs : list (result * option Z)) (p' : pool) (k' : nat),
    length (p_trees p) = index_count ->
    pool_run ok ds p k = (rs, p', k') ->
    length (p_trees p') = index_count /\
    (forall d0 o0, pool_lookup p d0 = Some o0 -> pool_lookup p' d0 = Some o0) /\
    (forall i d off, nth_error ds i = Some d -> nth_error rs i = Some (Ok, Some off) -> pool_lookup p' d = Some off).
Proof. exact pool_run_offsets_stable. Qed.
Print Assumptions C15_pool_run_offsets_stable.

Example C15_pool_add_ok_satisfiable : length (p_trees pool_empty) = index_count.
Proof. exact pool_empty_trees. Qed.

(* ... but the pool SIZE is not restored by a failed add (the code advances _size before it allocates the node), *)
Theorem C15_pool_add_size_atomic_refuted :
  exists ok d p, let '(r, _, p', _) := pool_add ok d p 0 in r = Oom /\ p_size p' <> p_size p.
Proof. exact pool_add_size_atomic_refuted. Qed.
Print Assumptions C15_pool_add_size_atomic_refuted.

(* ... and a successful add under failures need not equal the failure-free one (fewer shared sub-constants). *)
Theorem C15_pool_add_ok_not_failure_free_refuted :
  exists ok d p, let '(r, _, p', _) := pool_add ok d p 0 in let '(r0, _, p0, _) := pool_add all_ok d p 0 in
                 r = Ok /\ r0 = Ok /\ p_trees p' <> p_trees p0.
Proof. exact pool_add_ok_not_failure_free_refuted. Qed.
Print Assumptions C15_pool_add_ok_not_failure_free_refuted.

(* ------------------------------------------------------------------------------------------------------------ CodeHolder *)

(* new_label_id / new_reloc_entry / new_fixup / embed_label / embed_label_delta / bind_label with fixes/C15-stale-reloc.patch:
   under every oracle a step refines the oracle-free specification holder_spec - kOutOfMemory and refusals leave labels,
   fixups, relocations and the unresolved-fixup count untouched, a success is exactly the specified effect. *)
Theorem C15_holder_step_atomic :
  forall (ok : nat -> bool) (op : cop) (h : holder) (k : nat) (r : result) (h' : holder) (k' : nat),
    holder_step ok true op h k = (r, h', k') ->
    match r with
    | Ok => holder_spec op (holder_content h) = Some (holder_content h')
    | Oom => holder_content h' = holder_content h
    | Invalid => holder_content h' = holder_content h /\ holder_spec op (holder_content h) = None
    end.
Proof. exact holder_step_refines. Qed.
Print Assumptions C15_holder_step_atomic.

Theorem C15_holder_ok_is_failure_free :
  forall (ok : nat -> bool) (op : cop) (h : holder) (k : nat) (h' : holder) (k' : nat),
    holder_step ok true op h k = (Ok, h', k') -> holder_step all_ok true op h k = (Ok, h', k').
Proof. exact holder_step_ok_failure_free. Qed.
Print Assumptions C15_holder_ok_is_failure_free.

Theorem C15_holder_run_failed_ops_vanish :
  forall (ok : nat -> bool) (ops : list cop) (h : holder) (k : nat) (rs : list result) (h' : holder) (k' : nat),
    holder_run ok true ops h k = (rs, h', k') ->
    holder_replay ops rs (holder_content h) = Some (holder_content h') /\ length rs = length ops.
Proof. exact holder_run_failed_ops_vanish. Qed.
Print Assumptions C15_holder_run_failed_ops_vanish.

(* The pinned code (fixed = false): a failed embed_label / embed_label_delta leaves its relocation entry behind. *)
Theorem C15_embed_label_pinned_refuted :
  exists ok h, let '(r, h', _) := holder_step ok false (CEmbedLabel 0) h 0 in r = Oom /\ holder_content h' <> holder_content h.
Proof. exact embed_label_pinned_refuted. Qed.
Print Assumptions C15_embed_label_pinned_refuted.

Theorem C15_embed_delta_pinned_refuted :
  exists ok h, let '(r, h', _) := holder_step ok false CEmbedDelta h 0 in r = Oom /\ holder_content h' <> holder_content h.
Proof. exact embed_delta_pinned_refuted. Qed.
Print Assumptions C15_embed_delta_pinned_refuted.

(* ------------------------------------------------------------------------------- CodeHolder: sections and address table *)

(* new_section, add_address_to_address_table, x86 `call/jmp imm64` (relocation + address-table entry, with C15-stale-reloc) and
   all operations of the previous block on the combined state: under every oracle a step refines the oracle-free holder2_spec;
   an operation that reports kOutOfMemory leaves labels, fixups, relocations, sections and address entries untouched - except
   that the address-table section, which is created on first use, may already exist (lazy_addrtab). *)
Theorem C15_holder2_step_atomic :
  forall (ok : nat -> bool) (op : cop2) (h : holder2) (k : nat) (r : result) (h' : holder2) (k' : nat),
    holder2_step ok true op h k = (r, h', k') ->
    match r with
    | Ok => holder2_spec op (holder2_content h) = Some (holder2_content h')
    | Oom => fst (holder2_content h') = fst (holder2_content h) /\
             (snd (holder2_content h') = snd (holder2_content h) \/ snd (holder2_content h') = lazy_addrtab (snd (holder2_content h)))
    | Invalid => holder2_content h' = holder2_content h /\ holder2_spec op (holder2_content h) = None
    end.
Proof. exact holder2_step_refines. Qed.
Print Assumptions C15_holder2_step_atomic.

Theorem C15_holder2_run_failed_ops_vanish :
  forall (ok : nat -> bool) (ops : list cop2) (h : holder2) (k : nat) (rs : list result) (h' : holder2) (k' : nat),
    holder2_run ok true ops h k = (rs, h', k') ->
    In (holder2_content h') (holder2_replay ops rs (holder2_content h)) /\ length rs = length ops.
Proof. exact holder2_run_failed_ops_vanish. Qed.
Print Assumptions C15_holder2_run_failed_ops_vanish.

(* pinned x86 jmp/call imm (before C15-stale-reloc): the relocation entry stays when the address-table allocation fails *)
Theorem C15_call_abs_pinned_refuted :
  exists ok h, let '(r, h', _) := holder2_step ok false (CCallAbs 4096) h 0 in
               r = Oom /\ fst (holder2_content h') <> fst (holder2_content h).
Proof. exact call_abs_pinned_refuted. Qed.
Print Assumptions C15_call_abs_pinned_refuted.

(* strict atomicity of add_address_to_address_table in the section list does not hold: the empty .addrtab section stays *)
Theorem C15_add_address_lazy_section_refuted :
  exists ok h, let '(r, h', _) := holder2_step ok true (CAddAddress 4096) h 0 in
               r = Oom /\ snd (holder2_content h') <> snd (holder2_content h) /\ snd (holder2_content h') = lazy_addrtab (snd (holder2_content h)).
Proof. exact add_address_lazy_section_refuted. Qed.
Print Assumptions C15_add_address_lazy_section_refuted.

(* ------------------------------------------------------------------------------------------- BaseBuilder node creation *)

(* new_label (CodeHolder label + label node), bind (label_node_of + add_node), section (section_node_of + activation / cursor),
   instruction / align / embed / embed_label / comment nodes, set_cursor, embed_const_pool (as repaired by C15-embed-const-pool-atomic):
   under every oracle a step that does not report success leaves the node list, the cursor and the set of bound
   labels untouched (and, for kOutOfMemory, every label/section keeps exactly the node it had); the holder is untouched except
   that a failed new_label may leave an ORPHAN label behind (CodeHolder::new_label_id had succeeded; no node refers to it).  A
   successful step has the oracle-free effect bld_spec on the node list. *)
Theorem C15_builder_step_atomic :
  forall (ok : nat -> bool) (op : bop) (h : holder2) (b : bld) (k : nat) (r : result) (h' : holder2) (b' : bld) (k' : nat),
    builder_step ok op h b k = (r, h', b', k') ->
    (r <> Ok ->
       bld_list b' = bld_list b /\ h2_sects h' = h2_sects h /\
       (holder_content (h2_base h') = holder_content (h2_base h) \/
        (op = BNewLabel /\ holder_content (h2_base h') = (ho_labels (h2_base h) ++ [mklabel false []], ho_relocs (h2_base h), ho_unresolved (h2_base h))))) /\
    (r = Oom -> is_const_pool op = false -> same_nodes (b_lnodes b) (b_lnodes b') /\ same_nodes (b_snodes b) (b_snodes b')) /\
    (r = Ok ->
       bld_list b' = bld_spec op (bld_list b) /\ h2_sects h' = h2_sects h /\
       match op with
       | BNewLabel => holder_content (h2_base h') = (ho_labels (h2_base h) ++ [mklabel false []], ho_relocs (h2_base h), ho_unresolved (h2_base h))
       | _ => h' = h
       end).
Proof. exact builder_step_atomic. Qed.
Print Assumptions C15_builder_step_atomic.

(* ------------------------------------------------------------------------------ VirtMem views / JitAllocator block records *)

(* VirtMem::alloc / alloc_dual_mapping (RX then RW view of one anonymous file) / release, JitAllocator_new_block (views, then the
   malloc'ed block record) / deleteBlock, for EVERY pair of oracles (okv: does the k-th mmap succeed, okh: the k-th malloc):
   an operation that does not report success leaves the set of live views and the number of live block records exactly as they
   were - nothing leaks, nothing is lost; a successful allocation adds exactly its own fresh views. *)
Theorem C15_vm_step_no_leak :
  forall (okv okh : nat -> bool) (op : vmop) (s : vms) (kv kh : nat) (r : result) (s' : vms) (kv' kh' : nat),
    vms_inv s -> vm_step okv okh op s kv kh = (r, s', kv', kh') ->
    vms_inv s' /\
    (r <> Ok -> vs_views s' = vs_views s /\ vs_heap s' = vs_heap s) /\
    (r = Ok -> match op with
               | VMap => exists i, vs_views s' = vs_views s ++ [i] /\ vs_heap s' = vs_heap s
               | VDual => exists ids, vs_views s' = vs_views s ++ ids /\ length ids = 2%nat /\ vs_heap s' = vs_heap s
               | VBlock dual => exists ids, vs_views s' = vs_views s ++ ids /\ length ids = (if dual then 2 else 1)%nat /\ vs_heap s' = S (vs_heap s)
               | VRel i => exists ids, nth i (vs_handles s) None = Some ids /\ vs_views s' = remove_ids ids (vs_views s) /\ vs_heap s' = vs_heap s
               | VDel i => exists ids, nth i (vs_handles s) None = Some ids /\ vs_views s' = remove_ids ids (vs_views s) /\ vs_heap s' = pred (vs_heap s)
               end).
Proof. exact vm_step_no_leak. Qed.
Print Assumptions C15_vm_step_no_leak.

Example C15_vm_step_no_leak_satisfiable : vms_inv vms_init.
Proof. exact vms_init_inv. Qed.

(* the roll-back that unmaps the view that was NOT mapped (seeded change C15-3) leaks the first view *)
Theorem C15_vm_dual_leaky_refuted :
  exists okv s, let '(a, s', _) := vm_dual_leaky okv s 0%nat in a = None /\ vs_views s' <> vs_views s.
Proof. exact vm_dual_leaky_refuted. Qed.
Print Assumptions C15_vm_dual_leaky_refuted.

(* ----------------------------------------------------------------------------------- register allocator home (stack) slots *)

(* RAStackAllocator::new_slot / BaseRAPass::get_or_create_stack_slot (tested call sites, RGet) and work_reg_as_mem (RAsMem, which
   cannot report a failure): under every oracle the slot list stays duplicate-free and "has a home" = "owns a slot"; a tested
   creation that fails changes nothing. *)
Theorem C15_ra_step_spec :
  forall (ok : nat -> bool) (op : raop) (s : rastack) (k : nat) (r : result) (s' : rastack) (k' : nat),
    ra_inv s -> (match op with RGet w | RAsMem w => w < length (ra_home s) end)%nat ->
    ra_step ok op s k = (r, s', k') ->
    ra_inv s' /\ length (ra_home s') = length (ra_home s) /\
    match op with
    | RGet w => ra_refs s' = ra_refs s /\
                ((r = Ok /\ has_home s' w = true) \/ (r = Oom /\ ra_slots s' = ra_slots s /\ ra_home s' = ra_home s))
    | RAsMem w => r = Ok /\ ra_refs s' = w :: ra_refs s
    end.
Proof. exact ra_step_spec. Qed.
Print Assumptions C15_ra_step_spec.

(* the rewrite step with the test of f186c27 never uses a missing slot ... *)
Theorem C15_ra_rewrite_safe :
  forall (s : rastack), ra_rewrite s = Ok -> forall w, In w (ra_refs s) -> has_home s w = true.
Proof. exact ra_rewrite_safe. Qed.
Print Assumptions C15_ra_rewrite_safe.

(* ... and the test is needed: two failed creations leave a referenced register without a home (the null dereference found in
   round 2 by the second-order enumeration) *)
Theorem C15_ra_as_mem_unchecked_refuted :
  exists ok ops, let '(_, s, _) := ra_run ok ops (ras_init 2) 0%nat in exists w, In w (ra_refs s) /\ has_home s w = false.
Proof. exact ra_as_mem_unchecked_refuted. Qed.
Print Assumptions C15_ra_as_mem_unchecked_refuted.

(* embed_const_pool before fixes/C15-embed-const-pool-atomic.patch (fixed = false): the align node and the bound label stay when the
   data node cannot be allocated *)
Theorem C15_builder_const_pool_partial_refuted :
  exists ok h b, let '(r, _, b', _) := builder_step_gen ok false (BConstPool 0) h b 0%nat in r = Oom /\ bld_list b' <> bld_list b.
Proof. exact const_pool_partial_refuted. Qed.
Print Assumptions C15_builder_const_pool_partial_refuted.

(* ------------------------------------------------------------------------------------------------------------- String *)

(* core/string.cpp String (append, assign, append_chars, assign_chars, clear, reset, truncate) for EVERY heap oracle: never
   "invalid"; kOutOfMemory leaves characters, capacity and storage kind exactly as they were; a success has the oracle-free effect
   str_spec; size <= capacity (and the small-buffer capacity) is kept; at most one malloc per operation. *)
Theorem C15_str_step_atomic :
  forall (okh : nat -> bool) (op : sop) (s : str) (k : nat) (r : result) (s' : str) (k' : nat),
    sop_wf op -> str_inv s -> str_step okh op s k = (r, s', k') ->
    (k <= k' <= S k)%nat /\ r <> Invalid /\ str_inv s' /\ (r = Oom -> s' = s) /\ (r = Ok -> st_chars s' = str_spec op (st_chars s)).
Proof. exact str_step_atomic. Qed.
Print Assumptions C15_str_step_atomic.

Example C15_str_step_atomic_satisfiable : str_inv str_empty /\ sop_wf (SAppendChars 40).
Proof. unfold str_inv, slen, sop_wf, str_empty, sso_capacity. cbn. repeat split; intros; lia. Qed.

(* The executable validator applied to the allocator state dumped at the end of every REAL register-allocator pass run (for every
   fault position of the compiler workloads) is sound: a state it accepts satisfies the invariant of the home-slot model; together
   with C15_ra_rewrite_safe: if additionally ra_rewrite of the dumped state is Ok, no register marked "stack used" lacks its slot. *)
Theorem C15_ra_check_sound : forall s : rastack, ra_check s = true -> ra_inv s.
Proof. exact ra_check_sound. Qed.
Print Assumptions C15_ra_check_sound.

(* ------------------------------------------------------------------- JitAllocator::alloc: C09's span model x C15's block creation *)

(* C09's allocator model (Verif.Jit: spans, bit vectors, pools, statistics) composed with C15's view / block-record model: when
   alloc needs a new block it is created by JitAllocator_new_block under the two oracles.  For every pair of oracles both
   invariants are kept; when the allocation answers kOutOfMemory because the block could not be created, the allocator's live
   spans and statistics AND the live views and block records are exactly what they were; otherwise the allocator state is C09's
   `alloc` and the views grew by exactly the views of at most one new block. *)
Theorem C15_jit_alloc_joint :
  forall (okv okh : nat -> bool) (dual : bool) (c : JitModel.config) (st : JitModel.state) (s : vms) (size : Z) (kv kh : nat)
         (st' : JitModel.state) (r : JitModel.result) (s' : vms) (kv' kh' : nat),
    JitProofs.cfg_ok c -> JitProofs.ginv c st -> vms_inv s ->
    jit_alloc okv okh dual c st s size kv kh = (st', r, s', kv', kh') ->
    JitProofs.ginv c st' /\ vms_inv s' /\
    ((st', r) = JitModel.alloc c st size /\
       (vs_views s' = vs_views s /\ vs_heap s' = vs_heap s \/
        exists ids, vs_views s' = vs_views s ++ ids /\ length ids = (if dual then 2 else 1)%nat /\ vs_heap s' = S (vs_heap s))
     \/
     (r = JitModel.RAlloc JitModel.OutOfMemory 0 0 0 /\
        JitProofs.all_live (JitModel.blocks st') = JitProofs.all_live (JitModel.blocks st) /\
        JitModel.statistics c st' = JitModel.statistics c st /\
        vs_views s' = vs_views s /\ vs_heap s' = vs_heap s)).
Proof. exact jit_alloc_joint. Qed.
Print Assumptions C15_jit_alloc_joint.

(* C15 - Allocation failure yields an error - never a crash, leak or wrong code.

   Theorems over the oracle-threaded models of Verif.OomTxn.OracleModel.  `ok : nat -> bool` is the allocation oracle (the k-th
   arena request of the run succeeds iff ok k); every theorem is stated for ALL oracles, i.e. for every single failure position
   and every multi-failure pattern.  Hash theorems are instantiated with the prime table re-extracted from
   asmjit/support/arenahash.cpp on every run (VerifGen.C15Tables).

   full     : C15_vec_step_atomic, C15_vec_ok_is_failure_free, C15_vec_run_failed_ops_vanish, C15_reserve_gives_capacity,
              C15_hash_step_atomic, C15_hash_get_exact, C15_hash_rehash_benign, C15_hash_tables_wellformed, C15_hash_calc_mod_exact,
              C15_pool_add_failure_keeps_constants, C15_pool_add_ok_findable_and_stable, C15_pool_run_offsets_stable,
              C15_holder_step_atomic, C15_holder_ok_is_failure_free, C15_holder_run_failed_ops_vanish,
              C15_holder2_step_atomic, C15_holder2_run_failed_ops_vanish (sections, address table, call imm),
              C15_builder_step_atomic (Builder label/section/instruction nodes),
              C15_vm_step_no_leak (VirtMem views + JitAllocator block records, two oracles)
   refuted  : C15_embed_label_pinned_refuted, C15_embed_delta_pinned_refuted, C15_call_abs_pinned_refuted (the code before C15-stale-reloc)
              C15_add_address_lazy_section_refuted (the lazily created .addrtab section survives a failed add - benign)
              C15_pool_add_size_atomic_refuted, C15_pool_add_ok_not_failure_free_refuted (ConstPool::add is atomic only in its
              constants, not in its size / gap bookkeeping - by design of the code, see design/C15.md) *)
From Coq Require Import ZArith List Bool Lia Permutation.
From Verif Require Jit.JitModel Jit.JitProofs.
From Verif Require Import OomTxn.OracleModel OomTxn.OracleProofs OomTxn.JitJointModel OomTxn.JitJointProofs.
From VerifGen Require Import C15Tables C15Consts.
Import ListNotations.
Local Open Scope Z_scope.

(* ------------------------------------------------------------------------------------------------------------ ArenaVector *)

(* Every vector operation, under every oracle: never "invalid"; a failure leaves the vector (elements AND capacity) exactly as
   it was; a success has the oracle-free abstract effect vec_spec; size <= capacity is kept (so append_unchecked after a
   successful reserve stays in bounds); at most one request is consumed. *)
Theorem C15_vec_step_atomic :
  forall (ok : nat -> bool) (isz : Z) (op : vop) (v : vec) (k : nat) (r : result) (v' : vec) (k' : nat),
    0 < isz -> vop_wf op -> vec_inv v ->
    vec_step ok isz op v k = (r, v', k') ->
    (k <= k' <= S k)%nat /\ r <> Invalid /\ vec_inv v' /\
    (r = Oom -> v' = v) /\
    (r = Ok -> v_items v' = vec_spec op (v_items v)).
Proof. exact vec_step_atomic. Qed.
Print Assumptions C15_vec_step_atomic.

Example C15_vec_step_atomic_satisfiable : 0 < 4 /\ vop_wf (VAppend 7) /\ vec_inv vec_empty.
Proof. unfold vec_inv, vsize, vop_wf. cbn. repeat split; lia. Qed.

(* An operation that reports success under some oracle is exactly the step of the failure-free run (whole state). *)
Theorem C15_vec_ok_is_failure_free :
  forall (ok : nat -> bool) (isz : Z) (op : vop) (v : vec) (k : nat) (v' : vec) (k' : nat),
    vec_step ok isz op v k = (Ok, v', k') -> vec_step all_ok isz op v k = (Ok, v', k').
Proof. exact vec_step_ok_failure_free. Qed.
Print Assumptions C15_vec_ok_is_failure_free.

(* Whole scripts: the final elements are what the oracle-free specification gives for exactly the operations that reported
   success - failed operations leave no trace. *)
Theorem C15_vec_run_failed_ops_vanish :
  forall (ok : nat -> bool) (isz : Z) (ops : list vop) (v : vec) (k : nat) (rs : list result) (v' : vec) (k' : nat),
    0 < isz -> Forall vop_wf ops -> vec_inv v ->
    vec_run ok isz ops v k = (rs, v', k') ->
    v_items v' = vec_replay ops rs (v_items v) /\ vec_inv v' /\ length rs = length ops /\ ~ In Invalid rs /\
    (k <= k' <= k + length ops)%nat.
Proof. exact vec_run_failed_ops_vanish. Qed.
Print Assumptions C15_vec_run_failed_ops_vanish.

(* The growth arithmetic never hands back less than was asked for (reserve-then-append discipline). *)
Theorem C15_reserve_gives_capacity :
  forall bs : Z, 0 < bs -> bs <= expand_bytes bs /\ bs <= slot_size bs.
Proof. exact (fun bs H => conj (expand_bytes_ge bs H) (slot_size_ge bs H)). Qed.
Print Assumptions C15_reserve_gives_capacity.

(* ------------------------------------------------------------------------------------------------------------ ArenaHash *)

Theorem C15_hash_tables_wellformed :
  Forall (fun p => 0 < p) hash_primes /\ map (fun row : Z * Z * Z => fst (fst row)) hash_rcp_rows = hash_primes.
Proof. exact (conj (primes_pos_of_forallb hash_primes hash_primes_positive) hash_rows_primes). Qed.
Print Assumptions C15_hash_tables_wellformed.

(* ArenaHashBase::_calc_mod (multiply by the reciprocal, shift, multiply back, subtract - with the uint64/uint32 wrap-around of
   the C++ code) is the mathematical remainder for EVERY row of the generated table and EVERY 32-bit hash code: this is what
   lets the hash model use `key mod n`. *)
Theorem C15_hash_calc_mod_exact :
  forall p r s h : Z, In (p, r, s) hash_rcp_rows -> 0 <= h < 2 ^ 32 -> calc_mod32 p r s h = h mod p.
Proof.
  exact (fun p r s h HI Hh => calc_mod32_correct p r s h (proj1 (forallb_forall rcp_row_exact hash_rcp_rows) hash_rcp_rows_exact (p, r, s) HI) Hh).
Qed.
Print Assumptions C15_hash_calc_mod_exact.

(* insert = node allocation + _insert (+ possibly a rehash), remove: under every oracle a step that does not report success
   leaves the table untouched, a successful one adds / removes exactly one occurrence of the key - whether or not the rehash
   it may have attempted got its memory. *)
Theorem C15_hash_step_atomic :
  forall (ok : nat -> bool) (op : hop) (h : hash) (k : nat) (r : result) (h' : hash) (k' : nat),
    hash_inv h -> hash_step ok hash_primes op h k = (r, h', k') ->
    hash_inv h' /\ (k <= k' <= S (S k))%nat /\
    (r <> Ok -> h' = h) /\
    (r = Ok -> match op with
               | HInsert key => Permutation (hash_keys h') (key :: hash_keys h) /\ h_size h' = h_size h + 1
               | HRemove key => Permutation (key :: hash_keys h') (hash_keys h) /\ h_size h' = h_size h - 1
               end).
Proof. exact (fun ok => hash_step_atomic ok hash_primes (primes_pos_of_forallb hash_primes hash_primes_positive)). Qed.
Print Assumptions C15_hash_step_atomic.

Example C15_hash_step_atomic_satisfiable : hash_inv hash_empty.
Proof. exact (hash_empty_inv all_ok). Qed.

Theorem C15_hash_get_exact :
  forall (h : hash) (key : Z), hash_inv h -> (hash_get h key = true <-> In key (hash_keys h)).
Proof. exact hash_get_correct. Qed.
Print Assumptions C15_hash_get_exact.

(* Any script from the empty table under any oracle (failed rehashes, failed node allocations): look-ups are exact. *)
Theorem C15_hash_rehash_benign :
  forall (ok : nat -> bool) (ops : list hop) (rs : list result) (h' : hash) (k' : nat) (key : Z),
    hash_run ok hash_primes ops hash_empty 0 = (rs, h', k') ->
    (hash_get h' key = true <-> In key (hash_keys h')).
Proof. exact (fun ok => hash_rehash_benign ok hash_primes (primes_pos_of_forallb hash_primes hash_primes_positive)). Qed.
Print Assumptions C15_hash_rehash_benign.

(* ------------------------------------------------------------------------------------------------------------ ConstPool *)

(* ConstPool::add (with fixes/C15-constpool-null.patch): an add that reports an error leaves every constant and every shared
   sub-constant where it was, under every oracle. *)
Theorem C15_pool_add_failure_keeps_constants :
  forall (ok : nat -> bool) (d : list Z) (p : pool) (k : nat) (r : result) (o : option Z) (p' : pool) (k' : nat),
    pool_add ok d p k = (r, o, p', k') -> r <> Ok -> p_trees p' = p_trees p.
Proof. exact pool_add_failure_keeps_constants. Qed.
Print Assumptions C15_pool_add_failure_keeps_constants.

(* A successful add, under every oracle (gap records and shared sub-constants may have been given up): the constant is found at
   the returned offset and every earlier look-up still answers the same offset. *)
Theorem C15_pool_add_ok_findable_and_stable :
  forall (ok : nat -> bool) (d : list Z) (p : pool) (k : nat) (o : option Z) (p' : pool) (k' : nat),
    length (p_trees p) = index_count ->
    pool_add ok d p k = (Ok, o, p', k') ->
    exists off, o = Some off /\ pool_lookup p' d = Some off /\
                length (p_trees p') = index_count /\
                (forall d0 o0, pool_lookup p d0 = Some o0 -> pool_lookup p' d0 = Some o0).
Proof.
  exact (fun ok d p k o p' k' L E =>
           match pool_add_ok ok d p k o p' k' L E with
           | ex_intro _ off (conj A (conj B C)) =>
               ex_intro _ off (conj A (conj B (conj (eq_trans (proj1 C) L) (fun d0 o0 H => pool_lookup_ext p p' d0 o0 H C))))
           end).
Qed.
Print Assumptions C15_pool_add_ok_findable_and_stable.

(* Whole scripts of adds under any oracle: every constant whose add() reported success is found at exactly the offset it was
   given at the end of the run, and what was in the pool before keeps its offset. *)
Theorem C15_pool_run_offsets_stable :
  forall (ok : nat -> bool) (ds : list (list Z)) (p : pool) (k : nat) (rs : list (result * option Z)) (p' : pool) (k' : nat),
    length (p_trees p) = index_count ->
    pool_run ok ds p k = (rs, p', k') ->
    length (p_trees p') = index_count /\
    (forall d0 o0, pool_lookup p d0 = Some o0 -> pool_lookup p' d0 = Some o0) /\
    (forall i d off, nth_error ds i = Some d -> nth_error rs i = Some (Ok, Some off) -> pool_lookup p' d = Some off).
Proof. exact pool_run_offsets_stable. Qed.
Print Assumptions C15_pool_run_offsets_stable.

Example C15_pool_add_ok_satisfiable : length (p_trees pool_empty) = index_count.
Proof. exact pool_empty_trees. Qed.

(* ... but the pool SIZE is not restored by a failed add (the code advances _size before it allocates the node), *)
Theorem C15_pool_add_size_atomic_refuted :
  exists ok d p, let '(r, _, p', _) := pool_add ok d p 0 in r = Oom /\ p_size p' <> p_size p.
Proof. exact pool_add_size_atomic_refuted. Qed.
Print Assumptions C15_pool_add_size_atomic_refuted.

(* ... and a successful add under failures need not equal the failure-free one (fewer shared sub-constants). *)
Theorem C15_pool_add_ok_not_failure_free_refuted :
  exists ok d p, let '(r, _, p', _) := pool_add ok d p 0 in let '(r0, _, p0, _) := pool_add all_ok d p 0 in
                 r = Ok /\ r0 = Ok /\ p_trees p' <> p_trees p0.
Proof. exact pool_add_ok_not_failure_free_refuted. Qed.
Print Assumptions C15_pool_add_ok_not_failure_free_refuted.

(* ------------------------------------------------------------------------------------------------------------ CodeHolder *)

(* new_label_id / new_reloc_entry / new_fixup / embed_label / embed_label_delta / bind_label with fixes/C15-stale-reloc.patch:
   under every oracle a step refines the oracle-free specification holder_spec - kOutOfMemory and refusals leave labels,
   fixups, relocations and the unresolved-fixup count untouched, a success is exactly the specified effect. *)
Theorem C15_holder_step_atomic :
  forall (ok : nat -> bool) (op : cop) (h : holder) (k : nat) (r : result) (h' : holder) (k' : nat),
    holder_step ok true op h k = (r, h', k') ->
    match r with
    | Ok => holder_spec op (holder_content h) = Some (holder_content h')
    | Oom => holder_content h' = holder_content h
    | Invalid => holder_content h' = holder_content h /\ holder_spec op (holder_content h) = None
    end.
Proof. exact holder_step_refines. Qed.
Print Assumptions C15_holder_step_atomic.

Theorem C15_holder_ok_is_failure_free :
  forall (ok : nat -> bool) (op : cop) (h : holder) (k : nat) (h' : holder) (k' : nat),
    holder_step ok true op h k = (Ok, h', k') -> holder_step all_ok true op h k = (Ok, h', k').
Proof. exact holder_step_ok_failure_free. Qed.
Print Assumptions C15_holder_ok_is_failure_free.

Theorem C15_holder_run_failed_ops_vanish :
  forall (ok : nat -> bool) (ops : list cop) (h : holder) (k : nat) (rs : list result) (h' : holder) (k' : nat),
    holder_run ok true ops h k = (rs, h', k') ->
    holder_replay ops rs (holder_content h) = Some (holder_content h') /\ length rs = length ops.
Proof. exact holder_run_failed_ops_vanish. Qed.
Print Assumptions C15_holder_run_failed_ops_vanish.

(* The pinned code (fixed = false): a failed embed_label / embed_label_delta leaves its relocation entry behind. *)
Theorem C15_embed_label_pinned_refuted :
  exists ok h, let '(r, h', _) := holder_step ok false (CEmbedLabel 0) h 0 in r = Oom /\ holder_content h' <> holder_content h.
Proof. exact embed_label_pinned_refuted. Qed.
Print Assumptions C15_embed_label_pinned_refuted.

Theorem C15_embed_delta_pinned_refuted :
  exists ok h, let '(r, h', _) := holder_step ok false CEmbedDelta h 0 in r = Oom /\ holder_content h' <> holder_content h.
Proof. exact embed_delta_pinned_refuted. Qed.
Print Assumptions C15_embed_delta_pinned_refuted.

(* ------------------------------------------------------------------------------- CodeHolder: sections and address table *)

(* new_section, add_address_to_address_table, x86 `call/jmp imm64` (relocation + address-table entry, with C15-stale-reloc) and
   all operations of the previous block on the combined state: under every oracle a step refines the oracle-free holder2_spec;
   an operation that reports kOutOfMemory leaves labels, fixups, relocations, sections and address entries untouched - except
   that the address-table section, which is created on first use, may already exist (lazy_addrtab). *)
Theorem C15_holder2_step_atomic :
  forall (ok : nat -> bool) (op : cop2) (h : holder2) (k : nat) (r : result) (h' : holder2) (k' : nat),
    holder2_step ok true op h k = (r, h', k') ->
    match r with
    | Ok => holder2_spec op (holder2_content h) = Some (holder2_content h')
    | Oom => fst (holder2_content h') = fst (holder2_content h) /\
             (snd (holder2_content h') = snd (holder2_content h) \/ snd (holder2_content h') = lazy_addrtab (snd (holder2_content h)))
    | Invalid => holder2_content h' = holder2_content h /\ holder2_spec op (holder2_content h) = None
    end.
Proof. exact holder2_step_refines. Qed.
Print Assumptions C15_holder2_step_atomic.

Theorem C15_holder2_run_failed_ops_vanish :
  forall (ok : nat -> bool) (ops : list cop2) (h : holder2) (k : nat) (rs : list result) (h' : holder2) (k' : nat),
    holder2_run ok true ops h k = (rs, h', k') ->
    In (holder2_content h') (holder2_replay ops rs (holder2_content h)) /\ length rs = length ops.
Proof. exact holder2_run_failed_ops_vanish. Qed.
Print Assumptions C15_holder2_run_failed_ops_vanish.

(* pinned x86 jmp/call imm (before C15-stale-reloc): the relocation entry stays when the address-table allocation fails *)
Theorem C15_call_abs_pinned_refuted :
  exists ok h, let '(r, h', _) := holder2_step ok false (CCallAbs 4096) h 0 in
               r = Oom /\ fst (holder2_content h') <> fst (holder2_content h).
Proof. exact call_abs_pinned_refuted. Qed.
Print Assumptions C15_call_abs_pinned_refuted.

(* strict atomicity of add_address_to_address_table in the section list does not hold: the empty .addrtab section stays *)
Theorem C15_add_address_lazy_section_refuted :
  exists ok h, let '(r, h', _) := holder2_step ok true (CAddAddress 4096) h 0 in
               r = Oom /\ snd (holder2_content h') <> snd (holder2_content h) /\ snd (holder2_content h') = lazy_addrtab (snd (holder2_content h)).
Proof. exact add_address_lazy_section_refuted. Qed.
Print Assumptions C15_add_address_lazy_section_refuted.

(* ------------------------------------------------------------------------------------------- BaseBuilder node creation *)

(* new_label (CodeHolder label + label node), bind (label_node_of + add_node), section (section_node_of + activation / cursor),
   instruction / align / embed / embed_label / comment nodes, set_cursor, embed_const_pool (as repaired by C15-embed-const-pool-atomic):
   under every oracle a step that does not report success leaves the node list, the cursor and the set of bound
   labels untouched (and, for kOutOfMemory, every label/section keeps exactly the node it had); the holder is untouched except
   that a failed new_label may leave an ORPHAN label behind (CodeHolder::new_label_id had succeeded; no node refers to it).  A
   successful step has the oracle-free effect bld_spec on the node list. *)
Theorem C15_builder_step_atomic :
  forall (ok : nat -> bool) (op : bop) (h : holder2) (b : bld) (k : nat) (r : result) (h' : holder2) (b' : bld) (k' : nat),
    builder_step ok op h b k = (r, h', b', k') ->
    (r <> Ok ->
       bld_list b' = bld_list b /\ h2_sects h' = h2_sects h /\
       (holder_content (h2_base h') = holder_content (h2_base h) \/
        (op = BNewLabel /\ holder_content (h2_base h') = (ho_labels (h2_base h) ++ [mklabel false []], ho_relocs (h2_base h), ho_unresolved (h2_base h))))) /\
    (r = Oom -> is_const_pool op = false -> same_nodes (b_lnodes b) (b_lnodes b') /\ same_nodes (b_snodes b) (b_snodes b')) /\
    (r = Ok ->
       bld_list b' = bld_spec op (bld_list b) /\ h2_sects h' = h2_sects h /\
       match op with
       | BNewLabel => holder_content (h2_base h') = (ho_labels (h2_base h) ++ [mklabel false []], ho_relocs (h2_base h), ho_unresolved (h2_base h))
       | _ => h' = h
       end).
Proof. exact builder_step_atomic. Qed.
Print Assumptions C15_builder_step_atomic.

(* ------------------------------------------------------------------------------ VirtMem views / JitAllocator block records *)

(* VirtMem::alloc / alloc_dual_mapping (RX then RW view of one anonymous file) / release, JitAllocator_new_block (views, then the
   malloc'ed block record) / deleteBlock, for EVERY pair of oracles (okv: does the k-th mmap succeed, okh: the k-th malloc):
   an operation that does not report success leaves the set of live views and the number of live block records exactly as they
   were - nothing leaks, nothing is lost; a successful allocation adds exactly its own fresh views. *)
Theorem C15_vm_step_no_leak :
  forall (okv okh : nat -> bool) (op : vmop) (s : vms) (kv kh : nat) (r : result) (s' : vms) (kv' kh' : nat),
    vms_inv s -> vm_step okv okh op s kv kh = (r, s', kv', kh') ->
    vms_inv s' /\
    (r <> Ok -> vs_views s' = vs_views s /\ vs_heap s' = vs_heap s) /\
    (r = Ok -> match op with
               | VMap => exists i, vs_views s' = vs_views s ++ [i] /\ vs_heap s' = vs_heap s
               | VDual => exists ids, vs_views s' = vs_views s ++ ids /\ length ids = 2%nat /\ vs_heap s' = vs_heap s
               | VBlock dual => exists ids, vs_views s' = vs_views s ++ ids /\ length ids = (if dual then 2 else 1)%nat /\ vs_heap s' = S (vs_heap s)
               | VRel i => exists ids, nth i (vs_handles s) None = Some ids /\ vs_views s' = remove_ids ids (vs_views s) /\ vs_heap s' = vs_heap s
               | VDel i => exists ids, nth i (vs_handles s) None = Some ids /\ vs_views s' = remove_ids ids (vs_views s) /\ vs_heap s' = pred (vs_heap s)
               end).
Proof. exact vm_step_no_leak. Qed.
Print Assumptions C15_vm_step_no_leak.

Example C15_vm_step_no_leak_satisfiable : vms_inv vms_init.
Proof. exact vms_init_inv. Qed.

(* the roll-back that unmaps the view that was NOT mapped (seeded change C15-3) leaks the first view *)
Theorem C15_vm_dual_leaky_refuted :
  exists okv s, let '(a, s', _) := vm_dual_leaky okv s 0%nat in a = None /\ vs_views s' <> vs_views s.
Proof. exact vm_dual_leaky_refuted. Qed.
Print Assumptions C15_vm_dual_leaky_refuted.

(* ----------------------------------------------------------------------------------- register allocator home (stack) slots *)

(* RAStackAllocator::new_slot / BaseRAPass::get_or_create_stack_slot (tested call sites, RGet) and work_reg_as_mem (RAsMem, which
   cannot report a failure): under every oracle the slot list stays duplicate-free and "has a home" = "owns a slot"; a tested
   creation that fails changes nothing. *)
Theorem C15_ra_step_spec :
  forall (ok : nat -> bool) (op : raop) (s : rastack) (k : nat) (r : result) (s' : rastack) (k' : nat),
    ra_inv s -> (match op with RGet w | RAsMem w => w < length (ra_home s) end)%nat ->
    ra_step ok op s k = (r, s', k') ->
    ra_inv s' /\ length (ra_home s') = length (ra_home s) /\
    match op with
    | RGet w => ra_refs s' = ra_refs s /\
                ((r = Ok /\ has_home s' w = true) \/ (r = Oom /\ ra_slots s' = ra_slots s /\ ra_home s' = ra_home s))
    | RAsMem w => r = Ok /\ ra_refs s' = w :: ra_refs s
    end.
Proof. exact ra_step_spec. Qed.
Print Assumptions C15_ra_step_spec.

(* the rewrite step with the test of f186c27 never uses a missing slot ... *)
Theorem C15_ra_rewrite_safe :
  forall (s : rastack), ra_rewrite s = Ok -> forall w, In w (ra_refs s) -> has_home s w = true.
Proof. exact ra_rewrite_safe. Qed.
Print Assumptions C15_ra_rewrite_safe.

(* ... and the test is needed: two failed creations leave a referenced register without a home (the null dereference found in
   round 2 by the second-order enumeration) *)
Theorem C15_ra_as_mem_unchecked_refuted :
  exists ok ops, let '(_, s, _) := ra_run ok ops (ras_init 2) 0%nat in exists w, In w (ra_refs s) /\ has_home s w = false.
Proof. exact ra_as_mem_unchecked_refuted. Qed.
Print Assumptions C15_ra_as_mem_unchecked_refuted.

(* embed_const_pool before fixes/C15-embed-const-pool-atomic.patch (fixed = false): the align node and the bound label stay when the
   data node cannot be allocated *)
Theorem C15_builder_const_pool_partial_refuted :
  exists ok h b, let '(r, _, b', _) := builder_step_gen ok false (BConstPool 0) h b 0%nat in r = Oom /\ bld_list b' <> bld_list b.
Proof. exact const_pool_partial_refuted. Qed.
Print Assumptions C15_builder_const_pool_partial_refuted.

(* ------------------------------------------------------------------------------------------------------------- String *)

(* core/string.cpp String (append, assign, append_chars, assign_chars, clear, reset, truncate) for EVERY heap oracle: never
   "invalid"; kOutOfMemory leaves characters, capacity and storage kind exactly as they were; a success has the oracle-free effect
   str_spec; size <= capacity (and the small-buffer capacity) is kept; at most one malloc per operation. *)
Theorem C15_str_step_atomic :
  forall (okh : nat -> bool) (op : sop) (s : str) (k : nat) (r : result) (s' : str) (k' : nat),
    sop_wf op -> str_inv s -> str_step okh op s k = (r, s', k') ->
    (k <= k' <= S k)%nat /\ r <> Invalid /\ str_inv s' /\ (r = Oom -> s' = s) /\ (r = Ok -> st_chars s' = str_spec op (st_chars s)).
Proof. exact str_step_atomic. Qed.
Print Assumptions C15_str_step_atomic.

Example C15_str_step_atomic_satisfiable : str_inv str_empty /\ sop_wf (SAppendChars 40).
Proof. unfold str_inv, slen, sop_wf, str_empty, sso_capacity. cbn. repeat split; intros; lia. Qed.

(* The executable validator applied to the allocator state dumped at the end of every REAL register-allocator pass run (for every
   fault position of the compiler workloads) is sound: a state it accepts satisfies the invariant of the home-slot model; together
   with C15_ra_rewrite_safe: if additionally ra_rewrite of the dumped state is Ok, no register marked "stack used" lacks its slot. *)
Theorem C15_ra_check_sound : forall s : rastack, ra_check s = true -> ra_inv s.
Proof. exact ra_check_sound. Qed.
Print Assumptions C15_ra_check_sound.

(* ------------------------------------------------------------------- JitAllocator::alloc: C09's span model x C15's block creation *)

(* C09's allocator model (Verif.Jit: spans, bit vectors, pools, statistics) composed with C15's view / block-record model: when
   alloc needs a new block it is created by JitAllocator_new_block under the two oracles.  For every pair of oracles both
   invariants are kept; when the allocation answers kOutOfMemory because the block could not be created, the allocator's live
   spans and statistics AND the live views and block records are exactly what they were; otherwise the allocator state is C09's
   `alloc` and the views grew by exactly the views of at most one new block. *)
Theorem C15_jit_alloc_joint :
  forall (okv okh : nat -> bool) (dual : bool) (c : JitModel.config) (st : JitModel.state) (s : vms) (size : Z) (kv kh : nat)
         (st' : JitModel.state) (r : JitModel.result) (s' : vms) (kv' kh' : nat),
    JitProofs.cfg_ok c -> JitProofs.ginv c st -> vms_inv s ->
    jit_alloc okv okh dual c st s size kv kh = (st', r, s', kv', kh') ->
    JitProofs.ginv c st' /\ vms_inv s' /\
    ((st', r) = JitModel.alloc c st size /\
       (vs_views s' = vs_views s /\ vs_heap s' = vs_heap s \/
        exists ids, vs_views s' = vs_views s ++ ids /\ length ids = (if dual then 2 else 1)%nat /\ vs_heap s' = S (vs_heap s))
     \/
     (r = JitModel.RAlloc JitModel.OutOfMemory 0 0 0 /\
        JitProofs.all_live (JitModel.blocks st') = JitProofs.all_live (JitModel.blocks st) /\
        JitModel.statistics c st' = JitModel.statistics c st /\
        vs_views s' = vs_views s /\ vs_heap s' = vs_heap s)).
Proof. exact jit_alloc_joint. Qed.
Print Assumptions C15_jit_alloc_joint.

(* =========================================================================================================== round 5 *)

(* The constants the model hard-wires (small-string capacity, String minimum allocation, reusable-slot sizes, vector growth
   rule table, growth threshold, number of constant-pool trees, relocation type numbers) are re-read from the source on every run
   (VerifGen.C15Consts) and the MODEL computes with exactly these values. *)
Theorem C15_consts_from_source : c15_consts_ok = true.
Proof. exact c15_consts_ok_true. Qed.
Print Assumptions C15_consts_from_source.

(* ArenaHash, whole scripts under any oracle: the keys in the table are, as a multiset, exactly what the operations that reported
   success build from the initial keys - failed node allocations leave no trace, failed rehashes change nothing observable. *)
Theorem C15_hash_run_keys :
  forall (ok : nat -> bool) (ops : list hop) (h : hash) (k : nat) (rs : list result) (h' : hash) (k' : nat),
    hash_inv h -> hash_run ok hash_primes ops h k = (rs, h', k') ->
    Permutation (hash_keys h') (hash_replay ops rs (hash_keys h)).
Proof. exact (fun ok => hash_run_keys ok hash_primes (primes_pos_of_forallb hash_primes hash_primes_positive)). Qed.
Print Assumptions C15_hash_run_keys.

Example C15_hash_run_keys_nonvacuous :
  let '(rs, h', _) := hash_run (fun k => negb (k =? 1)%nat) hash_primes [HInsert 5; HInsert 6; HInsert 7; HRemove 5] hash_empty 0%nat in
  rs = [Ok; Oom; Ok; Ok] /\ hash_keys h' = [7].
Proof. vm_compute. split; reflexivity. Qed.

(* VirtMem views / JitAllocator block records, accounting over whole runs, every pair of oracles: the live views are exactly the
   views of the handles that have not been released, each once (nothing leaked, nothing lost, nothing counted twice) ... *)
Theorem C15_vm_step_acct :
  forall (okv okh : nat -> bool) (op : vmop) (s : vms) (kv kh : nat) (r : result) (s' : vms) (kv' kh' : nat),
    vms_acct s -> vm_step okv okh op s kv kh = (r, s', kv', kh') -> vms_acct s'.
Proof. exact vm_step_acct. Qed.
Print Assumptions C15_vm_step_acct.

(* ... so after any script from the empty state, once every handle is released (or never existed) no view is left. *)
Theorem C15_vm_run_all_released :
  forall (okv okh : nat -> bool) (ops : list vmop) (rs : list result) (s' : vms) (kv' kh' : nat),
    vm_run okv okh ops vms_init 0%nat 0%nat = (rs, s', kv', kh') ->
    Forall (fun h => h = None) (vs_handles s') -> vs_views s' = [].
Proof. exact vm_run_all_released. Qed.
Print Assumptions C15_vm_run_all_released.

Example C15_vm_run_nonvacuous :
  let '(rs, s', _, _) := vm_run (fun k => negb (k =? 2)%nat) (fun _ => true) [VDual; VDual; VBlock true; VRel 0; VDel 2] vms_init 0%nat 0%nat in
  rs = [Ok; Oom; Ok; Ok; Ok] /\ vs_views s' = [] /\ vs_heap s' = 0%nat.
Proof. vm_compute. repeat split; reflexivity. Qed.

(* JitAllocator::release = C09's span bookkeeping x C15's block deletion: release never asks for memory; both invariants are
   kept; the views change only when C09's model says the block was deleted, then exactly by the views of that block's handle. *)
Theorem C15_jit_release_joint :
  forall (okv okh : nat -> bool) (bm : list (Z * nat)) (c : JitModel.config) (st : JitModel.state) (s : vms) (id off : Z) (kv kh : nat)
         (st' : JitModel.state) (r : JitModel.result) (s' : vms),
    JitProofs.cfg_ok c -> JitProofs.ginv c st -> JitProofs.valid_ptr c st id off -> vms_acct s ->
    jit_release okv okh bm c st s id off kv kh = (st', r, s') ->
    JitProofs.ginv c st' /\ vms_acct s' /\ (st', r) = JitModel.release c st id off /\
    (vs_views s' = vs_views s /\ vs_heap s' = vs_heap s \/
     exists bid h ids, r = JitModel.RRelease JitModel.Ok bid true /\ nth h (vs_handles s) None = Some ids /\
                       vs_views s' = remove_ids ids (vs_views s) /\ vs_heap s' = pred (vs_heap s)).
Proof. exact jit_release_joint. Qed.
Print Assumptions C15_jit_release_joint.

(* non-vacuity of the hypotheses used above and in earlier rounds *)
Example C15_ra_inv_satisfiable : ra_inv (ras_init 8).
Proof. split; [constructor|]. split; [intros w; unfold has_home, ras_init; cbn [ra_home ra_slots]; split; [|intros []] | intros w []].
  intros H. destruct (le_lt_dec 8 w); [rewrite nth_overflow in H by (rewrite repeat_length; lia); discriminate |].
  rewrite nth_repeat in H. discriminate. Qed.

Example C15_holder2_step_nonvacuous :
  let '(r, h, _) := holder2_step all_ok true (CCallAbs 4096) holder2_init 0%nat in
  r = Ok /\ ho_relocs (h2_base h) = [6] /\ ss_entries (h2_sects h) = [4096] /\ ss_addrtab (h2_sects h) = Some 1%nat.
Proof. vm_compute. repeat split; reflexivity. Qed.

Example C15_builder_step_nonvacuous :
  let '(r, _, b, _) := builder_step all_ok (BSection 0) holder2_init (add_node NInst (add_node NInst bld_init)) 0%nat in
  r = Ok /\ b_cursor b = 2%nat.
Proof. vm_compute. split; reflexivity. Qed.

Example C15_jit_joint_config_satisfiable :
  JitProofs.cfg_ok (JitModel.mkConfig 64 1 65536 true false JitModel.fixed) /\
  JitProofs.ginv (JitModel.mkConfig 64 1 65536 true false JitModel.fixed) (JitModel.init_state (JitModel.mkConfig 64 1 65536 true false JitModel.fixed)).
Proof.
  assert (C : JitProofs.cfg_ok (JitModel.mkConfig 64 1 65536 true false JitModel.fixed)) by (constructor; cbn; lia || reflexivity).
  split; [exact C | exact (JitProofs.ginv_init _ C)].
Qed.

(* An operation that reports success under ANY oracle is - state and request counter included - the step the failure-free run
   makes (String, the combined holder state, VirtMem/JitAllocator blocks; vectors and the round-1 holder operations: see
   C15_vec_ok_is_failure_free / C15_holder_ok_is_failure_free).  Hash and ConstPool deliberately do not have this property
   (absorbed rehash / gap failures; C15_pool_add_ok_not_failure_free_refuted). *)
Theorem C15_str_ok_is_failure_free :
  forall (ok : nat -> bool) (op : sop) (s : str) (k : nat) (s' : str) (k' : nat),
    str_step ok op s k = (Ok, s', k') -> str_step all_ok op s k = (Ok, s', k').
Proof. exact str_step_ok_failure_free. Qed.
Print Assumptions C15_str_ok_is_failure_free.

Theorem C15_holder2_ok_is_failure_free :
  forall (ok : nat -> bool) (op : cop2) (h : holder2) (k : nat) (h' : holder2) (k' : nat),
    holder2_step ok true op h k = (Ok, h', k') -> holder2_step all_ok true op h k = (Ok, h', k').
Proof. exact holder2_step_ok_failure_free. Qed.
Print Assumptions C15_holder2_ok_is_failure_free.

Theorem C15_vm_ok_is_failure_free :
  forall (okv okh : nat -> bool) (op : vmop) (s : vms) (kv kh : nat) (s' : vms) (kv' kh' : nat),
    vm_step okv okh op s kv kh = (Ok, s', kv', kh') -> vm_step all_ok all_ok op s kv kh = (Ok, s', kv', kh').
Proof. exact vm_step_ok_failure_free. Qed.
Print Assumptions C15_vm_ok_is_failure_free.

Example C15_ok_is_failure_free_nonvacuous :
  str_step (fun k => negb (k =? 1)%nat) (SAppendChars 40) str_empty 0%nat = str_step all_ok (SAppendChars 40) str_empty 0%nat /\
  fst (fst (str_step (fun _ => false) (SAppendChars 40) str_empty 0%nat)) = Oom.
Proof. vm_compute. split; reflexivity. Qed.

(* String, whole scripts under any heap oracle: the final characters are what the oracle-free specification gives for exactly the
   operations that reported success; the invariant holds at the end; no operation is ever "invalid"; at most one malloc each. *)
Theorem C15_str_run_failed_ops_vanish :
  forall (ok : nat -> bool) (ops : list sop) (s : str) (k : nat) (rs : list result) (s' : str) (k' : nat),
    Forall sop_wf ops -> str_inv s -> str_run ok ops s k = (rs, s', k') ->
    st_chars s' = str_replay ops rs (st_chars s) /\ str_inv s' /\ length rs = length ops /\ ~ In Invalid rs /\ (k <= k' <= k + length ops)%nat.
Proof. exact str_run_failed_ops_vanish. Qed.
Print Assumptions C15_str_run_failed_ops_vanish.

Example C15_str_run_nonvacuous :
  let '(rs, s', k') := str_run (fun k => negb (k =? 0)%nat) [SAppendChars 40; SAppendChars 3; SAppendChars 40] str_empty 0%nat in
  rs = [Oom; Ok; Ok] /\ length (st_chars s') = 43%nat /\ k' = 2%nat.
Proof. vm_compute. repeat split; reflexivity. Qed.

(* Builder, whole scripts under any oracle: node list, cursor and bound labels at the end are what the oracle-free specification
   gives for exactly the operations that reported success; the holder's sections are never touched by Builder operations. *)
Theorem C15_builder_run_failed_ops_vanish :
  forall (ok : nat -> bool) (ops : list bop) (h : holder2) (b : bld) (k : nat) (rs : list result) (h' : holder2) (b' : bld) (k' : nat),
    builder_run ok ops h b k = (rs, h', b', k') ->
    bld_list b' = bld_replay ops rs (bld_list b) /\ h2_sects h' = h2_sects h /\ length rs = length ops.
Proof. exact builder_run_failed_ops_vanish. Qed.
Print Assumptions C15_builder_run_failed_ops_vanish.

Example C15_builder_run_nonvacuous :
  let '(rs, _, b', _) := builder_run (fun k => negb (k =? 1)%nat) [BInst; BAlign; BComment; BCursor 0; BEmbed] holder2_init bld_init 0%nat in
  rs = [Ok; Oom; Ok; Ok; Ok] /\ b_nodes b' = [NSection 0; NEmbed; NInst; NComment].
Proof. vm_compute. split; reflexivity. Qed.

(* ------------------------------------------------------------------------------------------- RA stack slots, whole runs *)
(* Any script of tested slot creations (RGet) and work_reg_as_mem calls (RAsMem) over n work registers, any oracle: the invariant
   holds at the end, NO register ever loses its home, the referenced registers are exactly the old ones plus those named by
   RAsMem, one result per operation. *)
Theorem C15_ra_run_spec :
  forall (ok : nat -> bool) (ops : list raop) (n : nat) (s : rastack) (k : nat) (rs : list result) (s' : rastack) (k' : nat),
    ra_inv s -> length (ra_home s) = n -> Forall (fun op => (raop_reg op < n)%nat) ops ->
    ra_run ok ops s k = (rs, s', k') ->
    ra_inv s' /\ length (ra_home s') = n /\ (forall w, has_home s w = true -> has_home s' w = true) /\
    (forall w, In w (ra_refs s') <-> In w (ra_refs s) \/ In (RAsMem w) ops) /\ length rs = length ops.
Proof. exact ra_run_spec. Qed.
Print Assumptions C15_ra_run_spec.

(* ... hence, whatever failed during the run: when the rewrite step (with the test of f186c27) reports success, every register
   named by work_reg_as_mem owns a stack slot; when it reports an error, some referenced register really has none. *)
Theorem C15_ra_run_rewrite_safe :
  forall (ok : nat -> bool) (ops : list raop) (n : nat) (s : rastack) (k : nat) (rs : list result) (s' : rastack) (k' : nat),
    ra_inv s -> length (ra_home s) = n -> Forall (fun op => (raop_reg op < n)%nat) ops ->
    ra_run ok ops s k = (rs, s', k') ->
    (ra_rewrite s' = Ok -> forall w, In (RAsMem w) ops -> has_home s' w = true /\ In w (ra_slots s')) /\
    (ra_rewrite s' <> Ok -> exists w, (In w (ra_refs s) \/ In (RAsMem w) ops) /\ has_home s' w = false).
Proof. exact ra_run_rewrite_safe. Qed.
Print Assumptions C15_ra_run_rewrite_safe.

Example C15_ra_run_nonvacuous :
  (let '(rs, s, _) := ra_run (fun _ => true) [RAsMem 0; RGet 1; RAsMem 1]%nat (ras_init 2) 0%nat in (rs, ra_slots s, ra_rewrite s))
    = ([Ok; Ok; Ok], [0; 1]%nat, Ok) /\
  (let '(rs, s, _) := ra_run (fun k => (2 <=? k)%nat) [RAsMem 0; RGet 1; RAsMem 1]%nat (ras_init 2) 0%nat in (rs, ra_slots s, ra_rewrite s))
    = ([Ok; Oom; Ok], [1]%nat, Oom) /\
  Forall (fun op => (raop_reg op < 2)%nat) [RAsMem 0; RGet 1; RAsMem 1]%nat.
Proof. vm_compute. split; [reflexivity|]. split; [reflexivity|]. repeat constructor. Qed.

(* the executable validator applied to the states of REAL pass runs decides the invariant: it accepts exactly the states that
   satisfy ra_inv (C15_ra_check_sound is the other direction), so a rejected dump is a real violation and every state reachable
   by the model (C15_ra_run_spec) is accepted *)
Theorem C15_ra_check_complete : forall s : rastack, ra_inv s -> ra_check s = true.
Proof. exact ra_check_complete. Qed.
Print Assumptions C15_ra_check_complete.

Example C15_ra_check_rejects :
  ra_check (mkras [1; 1]%nat 0 [false; true] []) = false /\ ra_check (mkras [1]%nat 0 [true; true] []) = false /\
  ra_check (mkras [1]%nat 0 [false; true] [0]%nat) = true.
Proof. vm_compute. auto. Qed.

(* every state the model reaches from the initial one (n work registers, any script in range, any oracle) is accepted by that
   validator: a rejected dump of a real pass run is a state outside the model *)
Theorem C15_ra_reachable_checked :
  forall (ok : nat -> bool) (ops : list raop) (n k : nat) (rs : list result) (s' : rastack) (k' : nat),
    Forall (fun op => (raop_reg op < n)%nat) ops -> ra_run ok ops (ras_init n) k = (rs, s', k') -> ra_check s' = true.
Proof. exact ra_reachable_checked. Qed.
Print Assumptions C15_ra_reachable_checked.

(* JitAllocator::shrink = C09's `shrink` x C15's block deletion: never asks for memory; both invariants kept; a non-zero new size
   leaves views and block records untouched; new size 0 is a release (same allocator state; the views of at most one deleted
   block go away). *)
Theorem C15_jit_shrink_joint :
  forall (okv okh : nat -> bool) (bm : list (Z * nat)) (c : JitModel.config) (st : JitModel.state) (s : vms) (id off ns : Z) (kv kh : nat)
         (st' : JitModel.state) (r : JitModel.result) (s' : vms),
    JitProofs.cfg_ok c -> JitProofs.ginv c st -> JitProofs.valid_ptr c st id off -> vms_acct s -> 0 <= ns ->
    jit_shrink okv okh bm c st s id off ns kv kh = (st', r, s') ->
    JitProofs.ginv c st' /\ vms_acct s' /\ (st', r) = JitModel.shrink c st id off ns /\
    (ns <> 0 -> s' = s) /\
    (ns = 0 -> st' = fst (JitModel.release c st id off)) /\
    (vs_views s' = vs_views s /\ vs_heap s' = vs_heap s \/
     exists h ids, ns = 0 /\ nth h (vs_handles s) None = Some ids /\
                   vs_views s' = remove_ids ids (vs_views s) /\ vs_heap s' = pred (vs_heap s)).
Proof. exact jit_shrink_joint. Qed.
Print Assumptions C15_jit_shrink_joint.

(* two blocks, trim, release the first (kept as the pool's empty block), release the second: it is deleted and its view goes *)
Example C15_jit_shrink_nonvacuous :
  let cfg := JitModel.mkConfig 64 1 65536 true false JitModel.fixed in
  let t := fun _ : nat => true in
  let bm := [(0, 0%nat); (1, 1%nat)] in
  let '(st1, _, s1, kv, kh) := jit_alloc t t false cfg (JitModel.init_state cfg) vms_init 2000000 0%nat 0%nat in
  let '(st2, _, s2, kv, kh) := jit_alloc t t false cfg st1 s1 2000000 kv kh in
  let '(st3, r3, s3) := jit_shrink t t bm cfg st2 s2 0 64 64 kv kh in
  let '(st4, r4, s4) := jit_shrink t t bm cfg st3 s3 0 64 0 kv kh in
  let '(st5, r5, s5) := jit_shrink t t bm cfg st4 s4 1 64 0 kv kh in
  (vs_views s2, r3, vs_views s3, r4, vs_views s4, r5, vs_views s5, vs_heap s5) =
  ([0; 1]%nat, JitModel.RShrink JitModel.Ok 0 64, [0; 1]%nat, JitModel.RShrink JitModel.Ok 0 0, [0; 1]%nat,
   JitModel.RShrink JitModel.Ok 1 0, [0]%nat, 1%nat).
Proof. vm_compute. reflexivity. Qed.

(* When no request fails (register count below the 32-bit size limit of the slot vector) every operation reports success and the
   rewrite succeeds: errors of the home-slot machinery are never spurious.  Together with C15_ra_run_rewrite_safe: an error of the
   rewrite means a request really failed AND a referenced register really has no slot. *)
Theorem C15_ra_run_failure_free :
  forall (ops : list raop) (n : nat) (s : rastack) (k : nat) (rs : list result) (s' : rastack) (k' : nat),
    ra_inv s -> length (ra_home s) = n -> Z.of_nat n + 1 < max_items -> Forall (fun op => (raop_reg op < n)%nat) ops ->
    (forall w, In w (ra_refs s) -> has_home s w = true) ->
    ra_run all_ok ops s k = (rs, s', k') ->
    Forall (fun r => r = Ok) rs /\ ra_rewrite s' = Ok.
Proof. exact ra_run_failure_free. Qed.
Print Assumptions C15_ra_run_failure_free.

Example C15_ra_run_failure_free_nonvacuous :
  ra_inv (ras_init 2) /\ length (ra_home (ras_init 2)) = 2%nat /\ Z.of_nat 2 + 1 < max_items /\
  (forall w, In w (ra_refs (ras_init 2)) -> has_home (ras_init 2) w = true) /\
  (* and with a failing oracle the conclusion is false for the same script: the hypothesis "no request fails" is needed *)
  (let '(_, s, _) := ra_run (fun k => (2 <=? k)%nat) [RAsMem 0; RGet 1; RAsMem 1]%nat (ras_init 2) 0%nat in ra_rewrite s) = Oom.
Proof. split; [apply ras_init_inv|]. split; [reflexivity|]. split; [reflexivity|]. split; [intros w []|vm_compute; reflexivity]. Qed.

(* VirtMem views / JitAllocator blocks, whole scripts: when neither mmap nor malloc fails no operation reports kOutOfMemory. *)
Theorem C15_vm_run_all_ok_never_oom :
  forall (ops : list vmop) (s : vms) (kv kh : nat) (rs : list result) (s' : vms) (kv' kh' : nat),
    vm_run all_ok all_ok ops s kv kh = (rs, s', kv', kh') -> ~ In Oom rs.
Proof. exact vm_run_all_ok_never_oom. Qed.
Print Assumptions C15_vm_run_all_ok_never_oom.

Example C15_vm_run_never_oom_nonvacuous :
  (let '(rs, _, _, _) := vm_run all_ok all_ok [VDual; VBlock true; VRel 0; VDel 1; VRel 0]%nat vms_init 0%nat 0%nat in rs) = [Ok; Ok; Ok; Ok; Invalid] /\
  (let '(rs, _, _, _) := vm_run (fun k => negb (k =? 1)%nat) all_ok [VDual; VMap]%nat vms_init 0%nat 0%nat in rs) = [Oom; Ok].
Proof. vm_compute. split; reflexivity. Qed.

(* String, whole scripts: when no malloc fails every operation reports success and the final characters are the oracle-free
   specification folded over ALL operations (the counterpart of C15_str_run_failed_ops_vanish: errors are never spurious). *)
Theorem C15_str_run_all_ok :
  forall (ops : list sop) (s : str) (k : nat) (rs : list result) (s' : str) (k' : nat),
    Forall sop_wf ops -> str_inv s -> str_run all_ok ops s k = (rs, s', k') ->
    Forall (fun r => r = Ok) rs /\ st_chars s' = fold_left (fun l op => str_spec op l) ops (st_chars s).
Proof. exact str_run_all_ok. Qed.
Print Assumptions C15_str_run_all_ok.

Example C15_str_run_all_ok_nonvacuous :
  (let '(rs, s', _) := str_run all_ok [SAppendChars 40; SAssign [1; 2]; SAppend [3]] str_empty 0%nat in (rs, st_chars s')) = ([Ok; Ok; Ok], [1; 2; 3]) /\
  Forall sop_wf [SAppendChars 40; SAssign [1; 2]; SAppend [3]] /\ str_inv str_empty.
Proof.
  split; [vm_compute; reflexivity|]. split.
  - constructor; [cbn; lia|]. constructor; [exact I|]. constructor; [exact I|constructor].
  - unfold str_inv, slen, str_empty, sso_capacity. cbn. split; intros; lia.
Qed.

(* ArenaHash with the real prime table, whole scripts: when no request fails no insert reports kOutOfMemory (the counterpart of
   C15_hash_run_keys; a removal of an absent key still answers "invalid"). *)
Theorem C15_hash_run_all_ok_never_oom :
  forall (ops : list hop) (h : hash) (k : nat) (rs : list result) (h' : hash) (k' : nat),
    hash_run all_ok hash_primes ops h k = (rs, h', k') -> ~ In Oom rs.
Proof. exact (hash_run_all_ok_never_oom hash_primes). Qed.
Print Assumptions C15_hash_run_all_ok_never_oom.

Example C15_hash_run_never_oom_nonvacuous :
  (let '(rs, h', _) := hash_run all_ok hash_primes [HInsert 5; HInsert 6; HRemove 9; HRemove 5] hash_empty 0%nat in (rs, hash_keys h')) = ([Ok; Ok; Invalid; Ok], [6]).
Proof. vm_compute. reflexivity. Qed.

(* -------------------------------------------------------------------------------- joint JitAllocator model, whole scripts *)
From Verif Require OomTxn.JitJointRun.

(* The hypothesis valid_ptr of the release / shrink theorems is decided by an executable procedure (evaluated by the model on
   every script operation, so the joint run needs no hypothesis on the script). *)
Theorem C15_valid_ptr_decided :
  forall (c : JitModel.config) (st : JitModel.state) (id off : Z), valid_ptrb c st id off = true <-> JitProofs.valid_ptr c st id off.
Proof. exact JitJointRun.valid_ptrb_spec. Qed.
Print Assumptions C15_valid_ptr_decided.

(* ANY script of alloc / release / shrink / query / reset operations (any sizes, any pointers, soft and hard resets), ANY pair of mmap / malloc oracles, from the
   initial state: C09's allocator invariant and C15's view accounting hold at the end, and there is exactly one block record and
   exactly (1 or 2) views per block that C09's model holds - the joint model never leaks a view or a record and never loses one.
   No valid_ptr hypothesis, no reachability hypothesis; the id -> handle map is part of the model state. *)
Theorem C15_jit_run_no_leak :
  forall (okv okh : nat -> bool) (dual : bool) (c : JitModel.config) (ops : list jop) (rs : list JitModel.result) (j' : jst),
    JitProofs.cfg_ok c -> jit_run okv okh dual c ops (jst_init c) = (rs, j') ->
    JitProofs.ginv c (j_st j') /\ vms_acct (j_vm j') /\
    vs_heap (j_vm j') = length (JitModel.blocks (j_st j')) /\
    length (vs_views (j_vm j')) = ((if dual then 2 else 1) * length (JitModel.blocks (j_st j')))%nat.
Proof. intros okv okh dual. destruct dual; exact (JitJointRun.jit_run_from_init okv okh _). Qed.
Print Assumptions C15_jit_run_no_leak.

(* ... and the invariant behind it is kept by every single step from any state that satisfies it (frame: an operation on a pointer
   that is not valid changes nothing) *)
Theorem C15_jit_step_inv :
  forall (okv okh : nat -> bool) (dual : bool) (c : JitModel.config) (op : jop) (j : jst) (r : JitModel.result) (j' : jst),
    JitProofs.cfg_ok c -> JitJointRun.jinv dual c j -> jit_step okv okh dual c op j = (r, j') ->
    JitJointRun.jinv dual c j' /\
    (match op with
     | JRelease id off | JShrink id off _ => valid_ptrb c (j_st j) id off = false -> j' = j
     | JQuery _ _ => j' = j
     | JAlloc _ | JReset _ => True
     end).
Proof.
  intros okv okh dual c op j r j' Hc I E. split; [exact (JitJointRun.jit_step_inv okv okh dual c op j r j' Hc I E)|].
  destruct op as [size|id off|id off ns|hard|id off]; [constructor| | |constructor|cbn [jit_step] in E; inversion E; reflexivity]; intros VB; cbn [jit_step] in E; rewrite VB in E; cbn [andb] in E; inversion E; reflexivity.
Qed.
Print Assumptions C15_jit_step_inv.

(* three blocks are created (the second only at the second attempt: its malloc fails and the views are rolled back), the first release leaves
   the pool's empty block, the second deletes block 2 with its two views; a release of a pointer that is not valid is refused *)
Example C15_jit_run_nonvacuous :
  let cfg := JitModel.mkConfig 64 1 65536 true false JitModel.fixed in
  let '(rs, j) := jit_run all_ok (fun k => negb (k =? 1)%nat) true cfg
                    [JAlloc 2000000; JAlloc 2000000; JAlloc 2000000; JAlloc 5000000; JRelease 0 64; JRelease 2 64; JRelease 1 128; JShrink 1 64 64] (jst_init cfg) in
  (map (fun r => match r with JitModel.RAlloc e _ _ _ | JitModel.RRelease e _ _ | JitModel.RShrink e _ _ => e | _ => JitModel.NotInitialized end) rs,
   length (JitModel.blocks (j_st j)), vs_heap (j_vm j), length (vs_views (j_vm j)), j_bm j) =
  ([JitModel.Ok; JitModel.OutOfMemory; JitModel.Ok; JitModel.Ok; JitModel.Ok; JitModel.Ok; JitModel.InvalidArgument; JitModel.Ok],
   2%nat, 2%nat, 4%nat, [(2, 3%nat); (1, 2%nat); (0, 0%nat)]).
Proof. vm_compute. reflexivity. Qed.

(* reset: a soft reset keeps (wiped) the first block of the pool with its two views, a hard reset leaves nothing *)
Example C15_jit_reset_nonvacuous :
  let cfg := JitModel.mkConfig 64 1 65536 true false JitModel.fixed in
  let sh := fun x : list JitModel.result * jst => (length (JitModel.blocks (j_st (snd x))), vs_heap (j_vm (snd x)), length (vs_views (j_vm (snd x)))) in
  sh (jit_run all_ok all_ok true cfg [JAlloc 2000000; JAlloc 2000000; JAlloc 5000000] (jst_init cfg)) = (3, 3, 6)%nat /\
  sh (jit_run all_ok all_ok true cfg [JAlloc 2000000; JAlloc 2000000; JAlloc 5000000; JReset false] (jst_init cfg)) = (1, 1, 2)%nat /\
  sh (jit_run all_ok all_ok true cfg [JAlloc 2000000; JAlloc 2000000; JAlloc 5000000; JReset true; JAlloc 64] (jst_init cfg)) = (1, 1, 2)%nat /\
  sh (jit_run all_ok all_ok true cfg [JAlloc 2000000; JAlloc 2000000; JAlloc 5000000; JReset true] (jst_init cfg)) = (0, 0, 0)%nat.
Proof. vm_compute. repeat split; reflexivity. Qed.

(* After ANY script under ANY oracles, a hard reset gives everything back: no block, no view, no block record. *)
Theorem C15_jit_hard_reset_releases_all :
  forall (okv okh : nat -> bool) (dual : bool) (c : JitModel.config) (ops : list jop) (rs : list JitModel.result) (j1 : jst)
         (r : JitModel.result) (j2 : jst),
    JitProofs.cfg_ok c -> jit_run okv okh dual c ops (jst_init c) = (rs, j1) -> jit_step okv okh dual c (JReset true) j1 = (r, j2) ->
    JitModel.blocks (j_st j2) = [] /\ vs_views (j_vm j2) = [] /\ vs_heap (j_vm j2) = 0%nat.
Proof.
  intros okv okh dual c ops rs j1 r j2 Hc E1 E2.
  destruct (JitJointRun.jit_run_no_leak okv okh dual c ops _ _ _ Hc (JitJointRun.jinv_init dual c Hc) E1) as [I1 _].
  exact (JitJointRun.jit_hard_reset_releases_all okv okh dual c j1 r j2 Hc I1 E2).
Qed.
Print Assumptions C15_jit_hard_reset_releases_all.

(* An allocation that answers kOutOfMemory leaves the WHOLE joint state as it was: C09's block ids, next id, live spans and
   statistics, C15's views and block records, and the id -> handle map. *)
Theorem C15_jit_alloc_oom_frame :
  forall (okv okh : nat -> bool) (dual : bool) (c : JitModel.config) (size : Z) (j : jst) (r : JitModel.result) (j' : jst),
    JitProofs.cfg_ok c -> JitJointRun.jinv dual c j -> jit_step okv okh dual c (JAlloc size) j = (r, j') ->
    JitJointRun.res_err r = Some JitModel.OutOfMemory ->
    JitJointRun.bids (j_st j') = JitJointRun.bids (j_st j) /\ JitModel.nextid (j_st j') = JitModel.nextid (j_st j) /\
    JitProofs.all_live (JitModel.blocks (j_st j')) = JitProofs.all_live (JitModel.blocks (j_st j)) /\
    JitModel.statistics c (j_st j') = JitModel.statistics c (j_st j) /\
    vs_views (j_vm j') = vs_views (j_vm j) /\ vs_heap (j_vm j') = vs_heap (j_vm j) /\ j_bm j' = j_bm j.
Proof. exact JitJointRun.jit_alloc_oom_frame. Qed.
Print Assumptions C15_jit_alloc_oom_frame.

(* ... and when neither mmap nor malloc fails no operation of any script answers kOutOfMemory (never spurious). *)
Theorem C15_jit_run_all_ok_never_oom :
  forall (dual : bool) (c : JitModel.config) (ops : list jop) (j : jst) (rs : list JitModel.result) (j' : jst),
    jit_run all_ok all_ok dual c ops j = (rs, j') -> Forall (fun r => JitJointRun.res_err r <> Some JitModel.OutOfMemory) rs.
Proof. exact JitJointRun.jit_run_all_ok_never_oom. Qed.
Print Assumptions C15_jit_run_all_ok_never_oom.

Example C15_jit_oom_nonvacuous :
  let cfg := JitModel.mkConfig 64 1 65536 true false JitModel.fixed in
  map JitJointRun.res_err (fst (jit_run (fun k => negb (k =? 0)%nat) all_ok false cfg [JAlloc 100; JAlloc 100] (jst_init cfg)))
    = [Some JitModel.OutOfMemory; Some JitModel.Ok] /\
  map JitJointRun.res_err (fst (jit_run all_ok all_ok false cfg [JAlloc 100; JAlloc 0; JRelease 0 64; JRelease 0 64] (jst_init cfg)))
    = [Some JitModel.Ok; Some JitModel.InvalidArgument; Some JitModel.Ok; Some JitModel.InvalidArgument].
Proof. vm_compute. split; reflexivity. Qed.

(* ArenaVector, every operation, item size and state: when no request fails the operation is refused (kOutOfMemory) EXACTLY when
   it needs more items than the capacity AND the needed count reaches the 32-bit limit - errors are never spurious, and the
   overflow refusal never misses. *)
Theorem C15_vec_all_ok_refusal_exact :
  forall (isz : Z) (op : vop) (v : vec) (k : nat) (r : result) (v' : vec) (k' : nat),
    vec_inv v -> vec_step all_ok isz op v k = (r, v', k') ->
    r <> Invalid /\ (r = Oom <-> v_cap v < vec_need op v /\ max_items <= vec_need op v).
Proof. exact vec_all_ok_refusal. Qed.
Print Assumptions C15_vec_all_ok_refusal_exact.

Example C15_vec_refusal_nonvacuous :
  (let '(r, _, _) := vec_step all_ok 4 (VReserveFit 4294967295) vec_empty 0%nat in r) = Oom /\
  (let '(r, v, _) := vec_step all_ok 4 (VReserveFit 1000) vec_empty 0%nat in (r, 1000 <=? v_cap v)) = (Ok, true) /\ vec_inv vec_empty.
Proof. split; [vm_compute; reflexivity|]. split; [vm_compute; reflexivity|]. unfold vec_inv. cbn. lia. Qed.

(* CodeHolder labels / relocations / fixups / embed_label(_delta) / bind, sections, address table, call imm64: when no request fails
   and the label, relocation and section vectors are below the 32-bit size limit, no operation reports kOutOfMemory. *)
Theorem C15_holder_all_ok_never_oom :
  forall (op : cop) (h : holder) (k : nat) (r : result) (h' : holder) (k' : nat),
    holder_small h -> holder_step all_ok true op h k = (r, h', k') -> r <> Oom.
Proof. exact holder_all_ok_never_oom. Qed.
Print Assumptions C15_holder_all_ok_never_oom.

Theorem C15_holder2_all_ok_never_oom :
  forall (op : cop2) (h : holder2) (k : nat) (r : result) (h' : holder2) (k' : nat),
    holder2_small h -> holder2_step all_ok true op h k = (r, h', k') -> r <> Oom.
Proof. exact holder2_all_ok_never_oom. Qed.
Print Assumptions C15_holder2_all_ok_never_oom.

Example C15_holder2_never_oom_nonvacuous :
  holder2_small holder2_init /\
  (let '(r, _, _) := holder2_step all_ok true (CCallAbs 4096) holder2_init 0%nat in r) = Ok /\
  (let '(r, _, _) := holder2_step (fun k => negb (k =? 1)%nat) true (CCallAbs 4096) holder2_init 0%nat in r) = Oom.
Proof. split; [repeat split; cbn; lia|]. split; vm_compute; reflexivity. Qed.

(* ConstPool::add, whole scripts: when no request fails no add reports kOutOfMemory (invalid sizes still answer "invalid"). *)
Theorem C15_pool_run_all_ok_never_oom :
  forall (ds : list (list Z)) (p : pool) (k : nat) (rs : list (result * option Z)) (p' : pool) (k' : nat),
    pool_run all_ok ds p k = (rs, p', k') -> ~ In Oom (map fst rs).
Proof. exact pool_run_all_ok_never_oom. Qed.
Print Assumptions C15_pool_run_all_ok_never_oom.

(* BaseBuilder new_label / bind / section / nodes / embed_const_pool: when no request fails and the label, section and node-table
   vectors are below the 32-bit size limit, no operation reports kOutOfMemory. *)
Theorem C15_builder_all_ok_never_oom :
  forall (op : bop) (h : holder2) (b : bld) (k : nat) (r : result) (h' : holder2) (b' : bld) (k' : nat),
    builder_small h b -> builder_step all_ok op h b k = (r, h', b', k') -> r <> Oom.
Proof. exact builder_all_ok_never_oom. Qed.
Print Assumptions C15_builder_all_ok_never_oom.

Example C15_builder_never_oom_nonvacuous :
  builder_small holder2_init bld_init /\
  (let '(r, _, _, _) := builder_step all_ok BNewLabel holder2_init bld_init 0%nat in r) = Ok /\
  (let '(r, _, _, _) := builder_step (fun k => negb (k =? 2)%nat) BNewLabel holder2_init bld_init 0%nat in r) = Oom /\
  map fst (fst (fst (pool_run all_ok [[1; 2; 3; 4]; [1; 2; 3]; [5; 6]] pool_empty 0%nat))) = [Ok; Invalid; Ok].
Proof. split; [repeat split; cbn; lia|]. repeat split; vm_compute; reflexivity. Qed.

(* Frame conditions - what a step must NOT touch.  VirtMem / JitAllocator blocks: every handle other than the released one keeps
   its views, an allocating step only appends one handle, view ids stay fresh, at most 2 mmap and 1 malloc requests per step, and
   a refused release changes nothing at all. *)
Theorem C15_vm_step_frame :
  forall (okv okh : nat -> bool) (op : vmop) (s : vms) (kv kh : nat) (r : result) (s' : vms) (kv' kh' : nat),
    vm_step okv okh op s kv kh = (r, s', kv', kh') ->
    (forall i, (i < length (vs_handles s))%nat -> vmop_target op <> Some i -> nth i (vs_handles s') None = nth i (vs_handles s) None) /\
    length (vs_handles s') = (match vmop_target op with Some _ => length (vs_handles s) | None => S (length (vs_handles s)) end) /\
    (vs_next s <= vs_next s')%nat /\ (kv <= kv' <= kv + 2)%nat /\ (kh <= kh' <= kh + 1)%nat /\
    (r <> Ok -> match vmop_target op with Some _ => s' = s | None => True end).
Proof. exact vm_step_frame. Qed.
Print Assumptions C15_vm_step_frame.

(* RA home slots: a step on register w leaves the home of every other register alone, appends at most the slot of w, adds at most
   the reference to w, and makes at most 2 requests. *)
Theorem C15_ra_step_frame :
  forall (ok : nat -> bool) (op : raop) (s : rastack) (k : nat) (r : result) (s' : rastack) (k' : nat),
    ra_step ok op s k = (r, s', k') ->
    (forall w', w' <> raop_reg op -> has_home s' w' = has_home s w') /\
    (ra_slots s' = ra_slots s \/ ra_slots s' = ra_slots s ++ [raop_reg op]) /\
    (ra_refs s' = ra_refs s \/ (op = RAsMem (raop_reg op) /\ ra_refs s' = raop_reg op :: ra_refs s)) /\
    (k <= k' <= k + 2)%nat.
Proof. exact ra_step_frame. Qed.
Print Assumptions C15_ra_step_frame.

Example C15_frames_nonvacuous :
  (let '(_, s', _, _) := vm_step all_ok all_ok (VRel 0) (let '(_, s1, _, _) := vm_run all_ok all_ok [VMap; VDual] vms_init 0%nat 0%nat in s1) 2%nat 0%nat in
   vs_handles s') = [None; Some [1; 2]%nat] /\
  (let '(_, s', _) := ra_step all_ok (RGet 1) (ras_init 3) 0%nat in ra_home s') = [false; true; false].
Proof. vm_compute. split; reflexivity. Qed.

(* ------------------------------------------------------------------------------- ConstPool: no two constants share a byte *)
From Verif Require OomTxn.PoolDisjoint.

(* ConstPool::add under EVERY oracle (the node, any gap record, any shared sub-constant may fail): the invariant "no byte of the pool
   is covered by two non-shared constants, or by a constant and a gap; nothing lies beyond the pool size; every gap record of
   class i has size 2^i" is kept.  cov_all p x counts the constants and gaps that cover byte x. *)
Theorem C15_pool_add_disjoint :
  forall (ok : nat -> bool) (d : list Z) (p : pool) (k : nat) (r : result) (o : option Z) (p' : pool) (k' : nat),
    PoolDisjoint.pool_ok p -> pool_add ok d p k = (r, o, p', k') -> PoolDisjoint.pool_ok p'.
Proof. exact PoolDisjoint.pool_add_disjoint. Qed.
Print Assumptions C15_pool_add_disjoint.

(* ... hence for whole scripts from the empty pool, whatever fails on the way: every byte is covered at most once and everything
   is inside the pool.  (The python judge checks the same on the node dump of the REAL pool after every script.) *)
Theorem C15_pool_run_disjoint :
  forall (ok : nat -> bool) (ds : list (list Z)) (rs : list (result * option Z)) (p' : pool) (k' : nat),
    pool_run ok ds pool_empty 0%nat = (rs, p', k') ->
    (forall x, (PoolDisjoint.cov_all p' x <= 1)%nat) /\ (forall x, p_size p' <= x -> PoolDisjoint.cov_all p' x = 0%nat) /\
    PoolDisjoint.gaps_sized (p_gaps p').
Proof.
  intros ok ds rs p' k' E.
  destruct (PoolDisjoint.pool_run_disjoint ok ds pool_empty 0%nat rs p' k' PoolDisjoint.pool_empty_ok E) as [G [C [B _]]]. auto.
Qed.
Print Assumptions C15_pool_run_disjoint.

(* the counting function sees an overlap when there is one; in the run the failed request is the gap record for bytes 1..3 (the
   failure is absorbed, the gap is dropped: those bytes are covered by nothing), every constant byte is covered exactly once *)
Example C15_pool_disjoint_nonvacuous :
  PoolDisjoint.cov_all (mkpool [[mkcnode [1] 0 false; mkcnode [2] 0 false]] [] 0 1 1 1) 0 = 2%nat /\
  (let '(rs, p', _) := pool_run (fun k => negb (k =? 1)%nat) [[1]; [2; 3; 4; 5]; [6; 7]; [8]] pool_empty 0%nat in
   (map fst rs, map (PoolDisjoint.cov_all p') [0; 1; 2; 3; 4; 5; 6; 7; 8], p_size p')) =
  ([Ok; Ok; Ok; Ok], [1; 0; 0; 0; 1; 1; 1; 1; 1]%nat, 11).
Proof. vm_compute. split; reflexivity. Qed.

(* After ANY script from the empty pool under ANY oracle, a constant that is not yet in the pool and whose add() succeeds - whatever
   else fails during that add - is placed at a multiple of its size and lies inside the pool (the judge rule "pool/offset", proved
   for the model). *)
Theorem C15_pool_fresh_offset_aligned_inside :
  forall (ok : nat -> bool) (ds : list (list Z)) (rs : list (result * option Z)) (p : pool) (k : nat)
         (d : list Z) (off : Z) (p' : pool) (k' : nat),
    pool_run ok ds pool_empty 0%nat = (rs, p, k) -> pool_lookup p d = None ->
    pool_add ok d p k = (Ok, Some off, p', k') ->
    off mod Z.of_nat (length d) = 0 /\ off + Z.of_nat (length d) <= p_size p'.
Proof.
  intros ok ds rs p k d off p' k' R LK E.
  destruct (PoolDisjoint.pool_run_aligned ok ds pool_empty 0%nat rs p k PoolDisjoint.pool_empty_ok PoolDisjoint.pool_empty_aligned R) as [I A].
  destruct (PoolDisjoint.pool_add_fresh_offset ok d p k off p' k' I A LK E) as [M [B _]]. auto.
Qed.
Print Assumptions C15_pool_fresh_offset_aligned_inside.

Example C15_pool_fresh_offset_nonvacuous :
  (let '(_, p, k) := pool_run (fun k => negb (k =? 1)%nat) [[1]] pool_empty 0%nat in
   (pool_lookup p [2; 3; 4; 5], let '(r, o, p', _) := pool_add (fun k => negb (k =? 1)%nat) [2; 3; 4; 5] p k in (r, o, p_size p'))) =
  (None, (Ok, Some 4, 8)).
Proof. vm_compute. reflexivity. Qed.

(* ------------------------------------------------------------------------------------------------------------- Arena *)
From Verif Require OomTxn.ArenaProofs.

(* Arena::alloc_oneshot / _alloc_oneshot under EVERY heap oracle.  A refusal leaves the blocks up to the current one, the bytes
   still free in the current block and the block-size shift exactly as they were - everything handed out before stays valid; only
   spare blocks behind the current one (left by a soft reset) are given back; at most one malloc; a refusal without a malloc
   happens only for sizes at the end of the address space.  A success takes the bytes from the current block or from the start of
   a block that is at least as large as the request. *)
Theorem C15_arena_alloc_atomic :
  forall (okh : nat -> bool) (size : Z) (a : arena) (k : nat) (r : result) (a' : arena) (k' : nat),
    arena_alloc okh size a k = (r, a', k') ->
    r <> Invalid /\ (k <= k' <= S k)%nat /\ a_min a' = a_min a /\
    (r = Oom -> a_pre a' = a_pre a /\ a_rem a' = a_rem a /\ a_shift a' = a_shift a /\ a_nxt a' = [] /\ (k' = k -> size_max - 48 < size)) /\
    (r = Ok ->
       (a_pre a' = a_pre a /\ size <= a_rem a /\ a_rem a' = a_rem a - size /\ a_nxt a' = a_nxt a /\ k' = k) \/
       (exists b, a_pre a' = a_pre a ++ [b] /\ size <= b /\ a_rem a' = b - size /\ a_rem a < size /\
                  (length (a_nxt a') <= length (a_nxt a))%nat)).
Proof. exact ArenaProofs.arena_alloc_atomic. Qed.
Print Assumptions C15_arena_alloc_atomic.

(* Where the bytes of a successful allocation lie: in the current block exactly behind everything handed out from it before, or at
   offset 0 of a block that was not in use - allocations made between two resets never overlap (the harness compares the pointers
   of the REAL arena on every script). *)
Theorem C15_arena_alloc_region :
  forall (okh : nat -> bool) (size : Z) (a : arena) (k : nat) (a' : arena) (k' : nat),
    arena_alloc okh size a k = (Ok, a', k') ->
    (arena_last size a' = ((length (a_pre a) - 1)%nat, ArenaProofs.arena_used a) /\
     ArenaProofs.arena_used a' = ArenaProofs.arena_used a + size /\ a_pre a' = a_pre a) \/
    (arena_last size a' = (length (a_pre a), 0) /\ ArenaProofs.arena_used a' = size /\ length (a_pre a') = S (length (a_pre a))).
Proof. exact ArenaProofs.arena_alloc_region. Qed.
Print Assumptions C15_arena_alloc_region.

(* The free bytes are always the tail of the current block (invariant of every step, every oracle), ... *)
Theorem C15_arena_step_inv :
  forall (okh : nat -> bool) (op : aop) (a : arena) (k : nat) (r : result) (a' : arena) (k' : nat),
    (match op with AAlloc size => 0 <= size | _ => True end) -> ArenaProofs.arena_inv a ->
    arena_step okh op a k = (r, a', k') -> ArenaProofs.arena_inv a'.
Proof. exact ArenaProofs.arena_step_inv. Qed.
Print Assumptions C15_arena_step_inv.

(* ... heap blocks: an allocation adds at most one (and then it made a request), a refused one adds none, a hard reset gives
   everything back, a soft reset keeps everything, ... *)
Theorem C15_arena_step_blocks :
  forall (okh : nat -> bool) (op : aop) (a : arena) (k : nat) (r : result) (a' : arena) (k' : nat),
    arena_step okh op a k = (r, a', k') ->
    match op with
    | AAlloc _ => (ArenaProofs.arena_blocks a' <= S (ArenaProofs.arena_blocks a))%nat /\
                  (r = Oom -> (ArenaProofs.arena_blocks a' <= ArenaProofs.arena_blocks a)%nat) /\
                  ((ArenaProofs.arena_blocks a < ArenaProofs.arena_blocks a')%nat -> k' = S k)
    | AReset true => ArenaProofs.arena_blocks a' = 0%nat
    | AReset false => ArenaProofs.arena_blocks a' = ArenaProofs.arena_blocks a
    end.
Proof. exact ArenaProofs.arena_step_blocks. Qed.
Print Assumptions C15_arena_step_blocks.

(* ... and when no malloc fails an allocation is refused only for sizes at the end of the address space. *)
Theorem C15_arena_alloc_all_ok :
  forall (size : Z) (a : arena) (k : nat) (r : result) (a' : arena) (k' : nat),
    arena_alloc all_ok size a k = (r, a', k') -> r = Oom -> size_max - 48 < size.
Proof. exact ArenaProofs.arena_alloc_all_ok. Qed.
Print Assumptions C15_arena_alloc_all_ok.

(* first block 2^11 - 32 - 16 = 2000 usable bytes; the second malloc fails: the refused allocation changes nothing, the next one
   succeeds in a new block; soft reset keeps both blocks, the big request then releases the small spare block *)
Example C15_arena_nonvacuous :
  let step := fun (x : arena * nat) op => let '(_, a', k') := arena_step (fun k => negb (k =? 1)%nat) op (fst x) (snd x) in (a', k') in
  let st := fun ops => fst (fold_left step ops (arena_init 11, 0%nat)) in
  (a_pre (st [AAlloc 1000]), a_rem (st [AAlloc 1000])) = ([2000], 1000) /\
  st [AAlloc 1000; AAlloc 1200] = st [AAlloc 1000] /\
  (a_pre (st [AAlloc 1000; AAlloc 1200; AAlloc 1200]), a_rem (st [AAlloc 1000; AAlloc 1200; AAlloc 1200])) = ([2000; 4048], 2848) /\
  (let a := st [AAlloc 1000; AAlloc 1200; AAlloc 1200; AReset false] in (a_pre a, a_rem a, a_nxt a)) = ([2000], 2000, [4048]) /\
  ArenaProofs.arena_blocks (st [AAlloc 1000; AAlloc 1200; AAlloc 1200; AReset true]) = 0%nat /\
  ArenaProofs.arena_inv (arena_init 11).
Proof. vm_compute. repeat split; try reflexivity; try discriminate; try constructor. Qed.

(* Any sequence of allocations without a reset in between, any heap oracle, from the initial arena (any first block size): the
   regions (block, offset, size) of the allocations that succeeded are pairwise disjoint - refused allocations in between change
   nothing about that.  (What the harness checks on the pointers of the real arena, proved for the model.) *)
Theorem C15_arena_allocs_disjoint :
  forall (okh : nat -> bool) (shift : Z) (sizes : list Z) (rs : list (nat * Z * Z)) (a' : arena) (k' : nat),
    Forall (fun s => 0 <= s) sizes -> ArenaProofs.arena_allocs okh sizes (arena_init shift) 0%nat = (rs, a', k') ->
    ForallOrdPairs ArenaProofs.rdisj rs.
Proof.
  intros okh shift sizes rs a' k' W E. apply (ArenaProofs.arena_allocs_disjoint okh sizes (arena_init shift) 0%nat rs a' k' W); [|exact E].
  repeat split; cbn; try lia. constructor.
Qed.
Print Assumptions C15_arena_allocs_disjoint.

Example C15_arena_allocs_nonvacuous :
  fst (fst (ArenaProofs.arena_allocs (fun k => negb (k =? 1)%nat) [1000; 1200; 800; 1200; 8] (arena_init 11) 0%nat)) =
  [(0%nat, 0, 1000); (0%nat, 1000, 800); (1%nat, 0, 1200); (1%nat, 1200, 8)].
Proof. vm_compute. reflexivity. Qed.

(* Shared sub-constants (the halves, quarters, ... of a constant that can be looked up on their own): after ANY script under ANY
   oracle every shared node stores exactly the bytes that a real (non-shared) constant of the pool stores at the same pool offsets
   (the judge rule "pool/shared-node-wrong", proved for the model; with C15_pool_run_disjoint that constant is unique). *)
Theorem C15_pool_run_shared_ok :
  forall (ok : nat -> bool) (ds : list (list Z)) (rs : list (result * option Z)) (p' : pool) (k' : nat),
    pool_run ok ds pool_empty 0%nat = (rs, p', k') ->
    forall c, PoolDisjoint.node_in (p_trees p') c -> c_shared c = true ->
      exists w, PoolDisjoint.node_in (p_trees p') w /\ c_shared w = false /\ c_off w <= c_off c /\
                c_data c = slice (c_data w) (Z.to_nat (c_off c - c_off w)) (length (c_data c)).
Proof.
  intros ok ds rs p' k' E.
  exact (PoolDisjoint.pool_run_shared_ok ok ds pool_empty 0%nat rs p' k' PoolDisjoint.pool_empty_trees_len PoolDisjoint.pool_empty_shared_ok E).
Qed.
Print Assumptions C15_pool_run_shared_ok.

Example C15_pool_shared_nonvacuous :
  (let '(_, p', _) := pool_run all_ok [[1; 2; 3; 4; 5; 6; 7; 8; 9; 10; 11; 12; 13; 14; 15; 16]] pool_empty 0%nat in
   map (fun c => (c_data c, c_off c, c_shared c)) (nth 3 (p_trees p') [])) = [([1; 2; 3; 4; 5; 6; 7; 8], 0, true); ([9; 10; 11; 12; 13; 14; 15; 16], 8, true)].
Proof. vm_compute. reflexivity. Qed.

(* ... and the same after ANY script of allocations, refused allocations, soft and hard resets: the allocations made after it
   (no reset in between) get pairwise disjoint regions. *)
Theorem C15_arena_after_script_disjoint :
  forall (okh : nat -> bool) (shift : Z) (ops : list aop) (sizes : list Z) (rs0 : list result) (a : arena) (k : nat)
         (rs : list (nat * Z * Z)) (a' : arena) (k' : nat),
    Forall ArenaProofs.aop_wf ops -> Forall (fun s => 0 <= s) sizes ->
    ArenaProofs.arena_run okh ops (arena_init shift) 0%nat = (rs0, a, k) -> ArenaProofs.arena_allocs okh sizes a k = (rs, a', k') ->
    ForallOrdPairs ArenaProofs.rdisj rs.
Proof. exact ArenaProofs.arena_after_script_disjoint. Qed.
Print Assumptions C15_arena_after_script_disjoint.

Example C15_arena_after_script_nonvacuous :
  let okh := fun k => negb (k =? 1)%nat in
  let '(_, a, k) := ArenaProofs.arena_run okh [AAlloc 1000; AAlloc 1200; AAlloc 1200; AReset false] (arena_init 11) 0%nat in
  fst (fst (ArenaProofs.arena_allocs okh [1504; 504; 4000] a k)) = [(0%nat, 0, 1504); (1%nat, 0, 504); (2%nat, 0, 4000)].
Proof. vm_compute. reflexivity. Qed.

(* Whole arena scripts (allocations, refused allocations, soft and hard resets), any oracle, from the initial arena: the number of
   heap blocks the arena holds never exceeds the number of malloc requests it made - no block appears from nowhere, and since
   C15_arena_step_blocks shows a hard reset returns every block, nothing is ever lost either. *)
Theorem C15_arena_run_blocks :
  forall (okh : nat -> bool) (shift : Z) (ops : list aop) (rs : list result) (a' : arena) (k' : nat),
    ArenaProofs.arena_run okh ops (arena_init shift) 0%nat = (rs, a', k') ->
    (ArenaProofs.arena_blocks a' <= k')%nat /\ length rs = length ops.
Proof.
  intros okh shift ops rs a' k' E.
  destruct (ArenaProofs.arena_run_blocks okh ops (arena_init shift) 0%nat rs a' k' (le_n 0) E) as [A [_ B]]. auto.
Qed.
Print Assumptions C15_arena_run_blocks.

Example C15_arena_run_blocks_nonvacuous :
  let '(rs, a, k) := ArenaProofs.arena_run (fun k => negb (k =? 1)%nat) [AAlloc 1000; AAlloc 1200; AAlloc 1200; AReset false; AAlloc 4000] (arena_init 11) 0%nat in
  (rs, ArenaProofs.arena_blocks a, k) = ([Ok; Oom; Ok; Ok; Ok], 2%nat, 3%nat).
Proof. vm_compute. reflexivity. Qed.

(* CodeHolder labels / relocations / fixups / embed_label(_delta) / bind, WHOLE scripts: when no request fails and the label and
   relocation vectors stay below the 32-bit limit for the whole script (length + number of operations), no operation reports
   kOutOfMemory - the size bound of C15_holder_all_ok_never_oom threaded through the run. *)
Theorem C15_holder_run_all_ok_never_oom :
  forall (ops : list cop) (h : holder) (k : nat) (rs : list result) (h' : holder) (k' : nat),
    Z.of_nat (length (ho_labels h)) + Z.of_nat (length ops) + 2 < max_items ->
    Z.of_nat (length (ho_relocs h)) + Z.of_nat (length ops) + 2 < max_items ->
    holder_run all_ok true ops h k = (rs, h', k') -> ~ In Oom rs.
Proof. exact holder_run_all_ok_never_oom. Qed.
Print Assumptions C15_holder_run_all_ok_never_oom.

Example C15_holder_run_never_oom_nonvacuous :
  (let '(rs, _, _) := holder_run all_ok true [CNewLabel; CNewLabel; CEmbedLabel 0; CBind 0; CNewReloc] holder_empty 0%nat in rs) = [Ok; Ok; Ok; Ok; Ok] /\
  Z.of_nat (length (ho_labels holder_empty)) + 5 + 2 < max_items.
Proof. split; [vm_compute; reflexivity|cbn; unfold max_items; lia]. Qed.

(* ------------------------------------------------------------------------------------------------ round 7: sequence lift *)
From Verif Require OomTxn.RunLevelNoOom.

(* CodeHolder with sections, address table and call imm64, WHOLE scripts: when no request fails and the label, relocation and the
   two section vectors stay below the 32-bit size limit for the whole script (length + number of operations), no operation
   reports kOutOfMemory - C15_holder2_all_ok_never_oom lifted from one step to every script. *)
Theorem C15_holder2_run_all_ok_never_oom :
  forall (ops : list cop2) (h : holder2) (k : nat) (rs : list result) (h' : holder2) (k' : nat),
    Z.of_nat (length (ho_labels (h2_base h))) + Z.of_nat (length ops) + 2 < max_items ->
    Z.of_nat (length (ho_relocs (h2_base h))) + Z.of_nat (length ops) + 2 < max_items ->
    Z.of_nat (length (ss_orders (h2_sects h))) + Z.of_nat (length ops) + 2 < max_items ->
    Z.of_nat (length (ss_by_order (h2_sects h))) + Z.of_nat (length ops) + 2 < max_items ->
    holder2_run all_ok true ops h k = (rs, h', k') -> ~ In Oom rs.
Proof. exact RunLevelNoOom.holder2_run_all_ok_never_oom. Qed.
Print Assumptions C15_holder2_run_all_ok_never_oom.

(* every step moves each of the four vector lengths by at most one (the frame fact behind the lift), any oracle *)
Theorem C15_holder2_step_growth :
  forall (ok : nat -> bool) (op : cop2) (h : holder2) (k : nat) (r : result) (h' : holder2) (k' : nat),
    holder2_step ok true op h k = (r, h', k') ->
    (length (ho_labels (h2_base h')) <= S (length (ho_labels (h2_base h))))%nat /\
    (length (ho_relocs (h2_base h')) <= S (length (ho_relocs (h2_base h))))%nat /\
    (length (ss_orders (h2_sects h')) <= S (length (ss_orders (h2_sects h))))%nat /\
    (length (ss_by_order (h2_sects h')) <= S (length (ss_by_order (h2_sects h))))%nat.
Proof. exact RunLevelNoOom.holder2_step_growth. Qed.
Print Assumptions C15_holder2_step_growth.

Example C15_holder2_run_never_oom_nonvacuous :
  (let '(rs, _, _) := holder2_run all_ok true [CNewSection 5; CCallAbs 4096; CBase CNewLabel; CAddAddress 8192] holder2_init 0%nat in rs) = [Ok; Ok; Ok; Ok] /\
  (let '(rs, _, _) := holder2_run (fun k => negb (k =? 1)%nat) true [CNewSection 5; CCallAbs 4096] holder2_init 0%nat in rs) = [Ok; Oom] /\
  Z.of_nat (length (ss_orders (h2_sects holder2_init))) + 4 + 2 < max_items.
Proof. split; [vm_compute; reflexivity|]. split; [vm_compute; reflexivity|]. cbn. unfold max_items. lia. Qed.

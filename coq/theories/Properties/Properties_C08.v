(* C08 - Builder/Compiler serialization is identical to direct assembling: theorems about the Builder model (Verif.Builder.BuilderModel),
   which the check ties to core/builder.cpp on every run (per-command node-list differential).  Statements only; proofs by reference. *)
From Coq Require Import ZArith List Bool.
From Verif Require Import Builder.BuilderModel Builder.BuilderProofs Builder.BuilderGrouping Builder.BuilderLinks Builder.BuilderSections.
Import ListNotations.
Local Open Scope Z_scope.

(* Nothing is lost in node storage: the node recorded for an emit call stands for exactly the effective call of a direct assembler -
   instruction id, every option bit but kReserved, extra register, operands up to op_count (4..6 through the extended array), comment. *)
Theorem C08_node_faithful : forall b id o0 o1 o2 o3 o4 o5,
  node_ecall (inst_node b id o0 o1 o2 o3 o4 o5)
  = EInst id (clear_reserved (p_opts b)) (p_exsig b) (p_exid b) (canon_ops o0 o1 o2 o3 o4 o5) (dup_comment (p_comment b)).
Proof. exact inst_node_faithful. Qed.
Print Assumptions C08_node_faithful.

(* "every operand handed to _emit is kept" is false: an operand after an empty slot of the extended part is dropped (op_count_from_emit_args) *)
Theorem C08_all_operands_kept_refuted : exists o0 o1 o2 o4,
  is_none o4 = false /\ canon_ops o0 o1 o2 op_none o4 op_none = [o0; o1; o2; op_none; op_none; op_none].
Proof. exact hole_drops_operand. Qed.
Print Assumptions C08_all_operands_kept_refuted.

(* serialize_to performs exactly the nodes' calls, in list order, whatever one-shot state was pending *)
Theorem C08_serialize_is_node_calls : forall b, trace (replay b) = map node_ecall (active b).
Proof. exact trace_replay. Qed.
Print Assumptions C08_serialize_is_node_calls.

(* MAIN: record then serialize = direct assembling, section by section (all accepted emitter-call sequences, any number of sections,
   one-shot option/extra-register/comment capture included); sections are serialized in order of first use, each once *)
Theorem C08_replay_is_grouping : forall rs cs,
  Forall (fun c => is_emitter_call c = true) cs -> all_ok (init_state rs) cs = true ->
  let b := run (init_state rs) cs in
  (forall s, project s (trace (replay b)) = project s (trace cs)) /\
  (forall x, In x (sec_seq (active b)) <-> x = 0 \/ In (ESection x) (trace cs)) /\
  NoDup (sec_seq (active b)).
Proof. exact replay_is_grouping. Qed.
Print Assumptions C08_replay_is_grouping.

(* its hypotheses are satisfiable (two sections, options, extra register, comment, 5 operands, const pool, label address and delta),
   and grouping is not the identity on that program *)
Theorem C08_replay_is_grouping_example :
  (Forall (fun c => is_emitter_call c = true) example_program /\ all_ok (init_state 8) example_program = true) /\
  map node_ecall (active (run (init_state 8) example_program)) <> trace example_program.
Proof. exact (conj example_hypotheses (proj1 example_grouped)). Qed.
Print Assumptions C08_replay_is_grouping_example.

(* a call rejected at record time changes nothing (const pools aside, whose align precedes the failing bind as in the Assembler) *)
Theorem C08_rejected_call_is_noop : forall b c,
  snd (step b c) <> kOk -> (forall l a d, c <> CConstPool l a d) -> fst (step b c) = b.
Proof. exact rejected_call_is_noop. Qed.
Print Assumptions C08_rejected_call_is_noop.

(* Editing the node list yields the code of the edited sequence *)
Theorem C08_edit_remove : forall b i, in_range i (active b) = true ->
  let b' := fst (step b (CRemove i)) in
  trace (replay b') = remove_at i (trace (replay b)) /\ pool b' = pool b ++ slice i i (active b).
Proof. exact edit_remove. Qed.
Print Assumptions C08_edit_remove.

Theorem C08_edit_remove_range : forall b i j, in_range i (active b) = true -> in_range j (active b) = true -> (i <= j)%nat ->
  let b' := fst (step b (CRemoveRange i j)) in
  trace (replay b') = remove_slice i j (trace (replay b)) /\ pool b' = pool b ++ slice i j (active b).
Proof. exact edit_remove_range. Qed.
Print Assumptions C08_edit_remove_range.

Theorem C08_edit_add_after : forall b k i n, nth_error (pool b) k = Some n -> in_range i (active b) = true ->
  let b' := fst (step b (CAddAfter k i)) in
  trace (replay b') = insert_at (S i) (node_ecall n) (trace (replay b)) /\ pool b' = remove_at k (pool b).
Proof. exact edit_add_after. Qed.
Print Assumptions C08_edit_add_after.

Theorem C08_edit_add_before : forall b k i n, nth_error (pool b) k = Some n -> in_range i (active b) = true ->
  let b' := fst (step b (CAddBefore k i)) in
  trace (replay b') = insert_at i (node_ecall n) (trace (replay b)) /\ pool b' = remove_at k (pool b).
Proof. exact edit_add_before. Qed.
Print Assumptions C08_edit_add_before.

Theorem C08_edit_add_node : forall b k n, nth_error (pool b) k = Some n ->
  let b' := fst (step b (CAddNode k)) in
  trace (replay b') = insert_at (cursor_pos (cursor b)) (node_ecall n) (trace (replay b)) /\ cursor b' = Some (cursor_pos (cursor b)).
Proof. exact edit_add_node. Qed.
Print Assumptions C08_edit_add_node.

Theorem C08_edit_set_cursor : forall b c, trace (replay (fst (step b (CSetCursor c)))) = trace (replay b).
Proof. exact edit_set_cursor. Qed.
Print Assumptions C08_edit_set_cursor.

(* Cursor discipline: after any history of calls and edits the cursor is null or a node of the list *)
Theorem C08_cursor_in_list : forall rs cs,
  match cursor (run (init_state rs) cs) with None => True | Some c => (c < length (active (run (init_state rs) cs)))%nat end.
Proof. exact (fun rs cs => cursor_ok_run cs (init_state rs) (cursor_ok_init rs)). Qed.
Print Assumptions C08_cursor_in_list.

(* add_after / add_before leave the cursor on its node; remove_node(s) leave it there unless it is removed, then it moves to the predecessor *)
Theorem C08_add_after_keeps_cursor_node : forall n i b c, cursor b = Some c -> (c < length (active b))%nat -> (i < length (active b))%nat ->
  exists c', cursor (add_after n i b) = Some c' /\ nth_error (active (add_after n i b)) c' = nth_error (active b) c.
Proof. exact add_after_keeps_cursor_node. Qed.
Print Assumptions C08_add_after_keeps_cursor_node.

Theorem C08_add_before_keeps_cursor_node : forall n i b c, cursor b = Some c -> (c < length (active b))%nat -> (i < length (active b))%nat ->
  exists c', cursor (add_before n i b) = Some c' /\ nth_error (active (add_before n i b)) c' = nth_error (active b) c.
Proof. exact add_before_keeps_cursor_node. Qed.
Print Assumptions C08_add_before_keeps_cursor_node.

Theorem C08_remove_cursor : forall i j b c, cursor b = Some c -> (i <= j)%nat -> (j < length (active b))%nat -> (c < length (active b))%nat ->
  ((c < i \/ j < c)%nat -> exists c', cursor (remove_range i j b) = Some c' /\ nth_error (active (remove_range i j b)) c' = nth_error (active b) c)
  /\ ((i <= c <= j)%nat -> cursor (remove_range i j b) = pred_opt i).
Proof. exact remove_range_cursor. Qed.
Print Assumptions C08_remove_cursor.

(* Section links: after ANY history of emitter calls and node-list edits, whenever the cache is not marked dirty the cached _next_section
   of every active section node equals what a fresh traversal of the list computes (so section() may trust it) *)
Theorem C08_section_links_fresh : forall rs cs,
  let b := run (init_state rs) cs in
  dirty b = false -> forall s, In s (sec_seq (active b)) -> next_of s (links b) = next_of s (fresh_links (sec_seq (active b))).
Proof. exact (fun rs cs => links_ok_run cs (init_state rs) (links_ok_init rs)). Qed.
Print Assumptions C08_section_links_fresh.

(* ... and a fresh traversal links every section id to its successor in list order, the last one to nothing *)
Theorem C08_fresh_links_successor : forall a s t r, ~ In s a ->
  next_of s (fresh_links (a ++ s :: t :: r)) = Some t /\ next_of s (fresh_links (a ++ [s])) = None.
Proof. exact (fun a s t r H => conj (next_of_fresh a s t r H) (next_of_fresh_last a s H)). Qed.
Print Assumptions C08_fresh_links_successor.

(* the same with calls rejected at record time in the sequence: a rejected call is reported at once and leaves the builder untouched,
   so what is serialized is the grouping of the ACCEPTED calls (const pools failing half way are excluded by the hypothesis) *)
Theorem C08_replay_is_grouping_with_rejections : forall rs cs,
  Forall (fun c => is_emitter_call c = true) cs -> no_partial_pool (init_state rs) cs ->
  forall s, project s (trace (replay (run (init_state rs) cs))) = project s (trace (accepted (init_state rs) cs)).
Proof. exact replay_is_grouping_accepted. Qed.
Print Assumptions C08_replay_is_grouping_with_rejections.

(* PARTIAL (the gap is the hypothesis): identical images follow for every assembler semantics that depends only on the per-section call
   sequences - i.e. given that label resolution/relocation are insensitive to how calls of different sections interleave (C03/C04's
   order-irrelevance "by effect"; stop-at-first-error semantics does not satisfy it).  Not proved for AsmJit's assembler; established per
   run by the implementation-vs-implementation oracle of the check. *)
Theorem C08_same_image_partial : forall (image : Type) (asm : list ecall -> image),
  (forall es es', (forall s, project s es = project s es') -> asm es = asm es') ->
  forall rs cs, Forall (fun c => is_emitter_call c = true) cs -> all_ok (init_state rs) cs = true ->
  asm (trace (replay (run (init_state rs) cs))) = asm (trace cs).
Proof. exact same_image_if_order_irrelevant. Qed.
Print Assumptions C08_same_image_partial.

(* Section nodes stay unique: after ANY history no section id has two nodes in list + pool (so re-inserting pooled nodes cannot
   duplicate a section) *)
Theorem C08_section_nodes_unique : forall rs cs, NoDup (sec_seq (active (run (init_state rs) cs))).
Proof. exact active_sections_unique. Qed.
Print Assumptions C08_section_nodes_unique.

(* section() on an edited list: after ANY history of emitter calls and node-list edits, switching to a section whose node is active puts
   the cursor on the last node before the next section node (or on the last node of the list) and changes nothing else in the list *)
Theorem C08_section_switch_after_any_history : forall rs cs s,
  let b := run (init_state rs) cs in
  snd (do_section s b) = kOk -> In s (sec_seq (active b)) ->
  cursor (fst (do_section s b)) = range_end (active b) s /\ active (fst (do_section s b)) = active b.
Proof. exact section_switch_after_any_history. Qed.
Print Assumptions C08_section_switch_after_any_history.
